import Driver.Loop
def main : IO Unit := Driver.main
