import SlimProofs.WireSlim
import SlimProofs.WireArray
import SlimProofs.WireFrame
import SlimProofs.WireVersion
import SlimModel.Marshal
/-
  SlimProofs.WireMarshal — `Unmarshal ∘ Marshal` at byte level, rejection of incompatible versions
  before the body is looked at, and rejection of every strict prefix of a stream of every layout.
-/
open Frame Version

namespace Wire

theorem versionOK_slimtrieVersion : VersionOK slimtrieVersion := by decide

theorem readMsg_frame {α : Type} (dec : Bytes → Except Err α) (v : String) (hv : VersionOK v) (body : Bytes)
    (hb : BodyOK body) (rest : Bytes) :
    readMsg dec (frame v body ++ rest) =
      match dec body with
      | .error e => .error e
      | .ok m => .ok (m, rest) := by
  unfold readMsg
  rw [readFrame_frame v hv body hb rest]
  rfl

theorem readMsg_take_lt {α : Type} (dec : Bytes → Except Err α) (v : String) (hv : VersionOK v) (body : Bytes)
    (hb : BodyOK body) (rest : Bytes) (cut : Nat) (hc : cut < (frame v body).length) :
    readMsg dec ((frame v body ++ rest).take cut) = .error .truncated := by
  unfold readMsg
  rw [readFrame_take_lt v hv body hb rest cut hc]

/-- Loading what `Marshal` wrote gives back the message, as the current layout. -/
theorem unmarshal_marshal (m : SlimMsg) (hwf : m.WF) (hnf : m.NF) (hb : BodyOK (encodeSlim m)) :
    unmarshalDispatch (marshalSlim m) = .ok (.current m) := by
  have hsz : (encodeSlim m).length < 2 ^ 64 := by unfold BodyOK maxAlloc at hb; omega
  have hh : readHeader (marshalSlim m) = .ok (⟨slimtrieVersion, 32, (encodeSlim m).length⟩, encodeSlim m) := by
    unfold marshalSlim frame
    exact readHeader_header _ versionOK_slimtrieVersion _ hsz _
  have hm := readMsg_frame decodeSlim slimtrieVersion versionOK_slimtrieVersion (encodeSlim m) hb []
  rw [List.append_nil, decodeSlim_encode m hwf hnf hsz] at hm
  unfold unmarshalDispatch
  rw [hh]
  simp only [isCompatible_slimtrieVersion, isCurrentLayout_slimtrieVersion, before000512_slimtrieVersion]
  unfold marshalSlim
  rw [hm]
  simp

/-- An incompatible version is rejected as such whatever follows the 32 header bytes: no size field
    and no body byte is looked at. -/
theorem unmarshal_incompatible (buf : Bytes) (hlen : 32 ≤ buf.length)
    (hv : isCompatible (verStr (buf.take 16)) = false) :
    unmarshalDispatch buf = .error .incompatible := by
  unfold unmarshalDispatch readHeader
  have : ¬ (buf.length < headerSize) := by unfold headerSize; omega
  simp [this, hv]

/-- … in particular for a header followed by anything. -/
theorem unmarshal_incompatible_header (v : String) (hv : VersionOK v) (hc : isCompatible v = false)
    (n : Nat) (hn : n < 2 ^ 64) (tail : Bytes) :
    unmarshalDispatch (header v n ++ tail) = .error .incompatible := by
  unfold unmarshalDispatch
  rw [readHeader_header v hv n hn tail]
  simp [hc]

/-- Every strict prefix of one frame with a compatible version (all layouts start with one) is
    rejected as truncated, whatever the body is and whatever follows. -/
theorem unmarshal_take_frame (v : String) (hv : VersionOK v) (hc : isCompatible v = true) (body : Bytes)
    (hb : BodyOK body) (rest : Bytes) (cut : Nat) (hcut : cut < (frame v body).length) :
    unmarshalDispatch ((frame v body ++ rest).take cut) = .error .truncated := by
  by_cases h32 : cut < 32
  · unfold unmarshalDispatch
    rw [readHeader_short _ (by simp [List.length_take]; omega)]
  · obtain ⟨tail, hh⟩ := readHeader_take_ge v hv body hb rest cut (by omega)
    unfold unmarshalDispatch
    rw [hh]
    simp only [hc]
    rw [readMsg_take_lt decodeSlim v hv body hb rest cut hcut,
      readMsg_take_lt decodeArray32 v hv body hb rest cut hcut]
    simp

theorem unmarshal_take_marshal (m : SlimMsg) (hb : BodyOK (encodeSlim m)) (cut : Nat)
    (hcut : cut < (marshalSlim m).length) :
    unmarshalDispatch ((marshalSlim m).take cut) = .error .truncated := by
  have := unmarshal_take_frame slimtrieVersion versionOK_slimtrieVersion isCompatible_slimtrieVersion
    (encodeSlim m) hb [] cut hcut
  rwa [List.append_nil] at this

/-- The three-section layout: every strict prefix is rejected — as truncated, unless an earlier,
    complete section is itself undecodable, in which case with that section's error. -/
theorem unmarshal_take_legacy3 (v v2 v3 : String) (hv : VersionOK v) (hv2 : VersionOK v2) (hv3 : VersionOK v3)
    (hc : isCompatible v = true) (hl : isCurrentLayout v = false)
    (a b c : Bytes) (ha : BodyOK a) (hb : BodyOK b) (hcb : BodyOK c) (cut : Nat)
    (hcut : cut < (frame v a ++ (frame v2 b ++ frame v3 c)).length) :
    let r := unmarshalDispatch ((frame v a ++ (frame v2 b ++ frame v3 c)).take cut)
    r = .error .truncated ∨ (∃ e, decodeArray32 a = .error e ∧ r = .error e) ∨
      (∃ e, decodeArray32 b = .error e ∧ r = .error e) := by
  intro r
  by_cases h32 : cut < 32
  · left
    show unmarshalDispatch _ = _
    unfold unmarshalDispatch
    rw [readHeader_short _ (by simp [List.length_take]; omega)]
  · obtain ⟨tail, hh⟩ := readHeader_take_ge v hv a ha (frame v2 b ++ frame v3 c) cut (by omega)
    have hr : r = (match readMsg decodeArray32 ((frame v a ++ (frame v2 b ++ frame v3 c)).take cut) with
        | .error e => .error e
        | .ok (children, r1) =>
          match readMsg decodeArray32 r1 with
          | .error e => .error e
          | .ok (steps, r2) =>
            match readMsg decodeArray32 r2 with
            | .error e => .error e
            | .ok (leaves, _) => .ok (.legacy3 v children steps leaves)) := by
      show unmarshalDispatch _ = _
      unfold unmarshalDispatch
      rw [hh]
      simp [hc, hl]
      rfl
    by_cases h1 : cut < (frame v a).length
    · left
      rw [hr, readMsg_take_lt decodeArray32 v hv a ha _ cut h1]
    · rw [take_frame_ge v a _ cut (by omega), readMsg_frame decodeArray32 v hv a ha] at hr
      cases hda : decodeArray32 a with
      | error e =>
        right; left
        exact ⟨e, rfl, by rw [hr, hda]⟩
      | ok ch =>
        rw [hda] at hr
        simp only at hr
        simp only [List.length_append] at hcut
        by_cases h2 : cut - (frame v a).length < (frame v2 b).length
        · left
          rw [hr, readMsg_take_lt decodeArray32 v2 hv2 b hb _ _ h2]
        · rw [take_frame_ge v2 b _ _ (by omega), readMsg_frame decodeArray32 v2 hv2 b hb] at hr
          cases hdb : decodeArray32 b with
          | error e =>
            right; right
            exact ⟨e, rfl, by rw [hr, hdb]⟩
          | ok st =>
            rw [hdb] at hr
            simp only at hr
            left
            have h3 : cut - (frame v a).length - (frame v2 b).length < (frame v3 c).length := by omega
            have := readMsg_take_lt decodeArray32 v3 hv3 c hcb [] _ h3
            rw [List.append_nil] at this
            rw [hr, this]

end Wire
