import SlimProofs.Refine
/-
  SlimProofs.SizeShort — C17: the short table is only chosen when it is small compared with
  the number of inner nodes.

  * `memIncr_ge`: `memIncr sorted S ≥ 64·2^S − (17 − S)·total`, `total` = sum of all counts;
  * `findMinShortSize_spec`: the chosen size is 0 or has a strictly smaller estimate than size 0;
  * `totalC_eSorted_le`: the counts add up to at most the number of inner nodes;
  * `eTbl_small`: hence `4·|table| < I + 4` whenever `shortSize > 0`;
  * `eTbl_entry_lt`: every table entry is `< 2^17`.
-/

namespace SizeShort

open Bits Slim Refine

/-! ### sums of counts -/

def sumc (l : List (Nat × Nat)) : Nat := (l.map (·.2)).sum

def totalC (a : Array (List (Nat × Nat))) : Nat := (a.toList.map sumc).sum

theorem sumc_take_le (l : List (Nat × Nat)) (k : Nat) : sumc (l.take k) ≤ sumc l := by
  unfold sumc; rw [List.map_take]; exact take_sum_le _ _

theorem sumc_take_succ (l : List (Nat × Nat)) (k : Nat) (x : Nat × Nat) (h : l[k]? = some x) :
    sumc (l.take (k + 1)) = sumc (l.take k) + x.2 := by
  unfold sumc
  rw [List.take_add_one, h]; simp

theorem sum_map_le_sum_map {α : Type} (l : List α) (f g : α → Nat) (h : ∀ x ∈ l, f x ≤ g x) :
    (l.map f).sum ≤ (l.map g).sum := by
  induction l with
  | nil => simp
  | cons a l ih =>
    simp only [List.map_cons, List.sum_cons]
    have := h a (by simp)
    have := ih (fun x hx => h x (List.mem_cons_of_mem _ hx))
    omega

theorem map_range_getD {α β : Type} (l : List α) (g : α → β) (d : α) :
    (List.range l.length).map (fun i => g (l.getD i d)) = l.map g := by
  apply List.ext_getElem
  · simp
  · intro i h1 h2
    simp only [List.getElem_map, List.getElem_range]
    rw [List.getD_eq_getElem?_getD, List.getElem?_eq_getElem (by simpa using h1)]
    rfl

theorem sum_map_range_update (n j c : Nat) (f f' : Nat → Nat) (hj : j < n) (h1 : f' j = f j + c)
    (h2 : ∀ i, i ≠ j → f' i = f i) :
    ((List.range n).map f').sum = ((List.range n).map f).sum + c := by
  induction n with
  | zero => omega
  | succ n ih =>
    rw [List.range_succ, List.map_append, List.map_append, List.sum_append, List.sum_append]
    simp only [List.map_cons, List.map_nil, List.sum_cons, List.sum_nil, Nat.add_zero]
    by_cases hjn : j = n
    · subst hjn
      have : (List.range j).map f' = (List.range j).map f := by
        apply List.map_congr_left
        intro i hi
        rw [List.mem_range] at hi
        exact h2 i (by omega)
      rw [this, h1]; omega
    · rw [ih (by omega), h2 n (fun h => hjn h.symm)]; omega

/-- the counts already used by `memIncr` -/
def usedSum (sorted : Array (List (Nat × Nat))) (ith : Array Nat) : Nat :=
  ((List.range sorted.size).map (fun nb => sumc ((sorted.getD nb []).take (ith.getD nb 0)))).sum

theorem arr_getD_toList {α : Type} (a : Array α) (i : Nat) (d : α) : a.getD i d = a.toList.getD i d := by
  rw [Array.getD_eq_getD_getElem?, List.getD_eq_getElem?_getD, Array.getElem?_toList]

theorem usedSum_le (sorted : Array (List (Nat × Nat))) (ith : Array Nat) :
    usedSum sorted ith ≤ totalC sorted := by
  unfold usedSum totalC
  have : sorted.toList.map sumc
      = (List.range sorted.toList.length).map (fun nb => sumc (sorted.toList.getD nb [])) :=
    (map_range_getD sorted.toList sumc []).symm
  rw [this]
  have hsz : sorted.toList.length = sorted.size := rfl
  rw [hsz]
  apply sum_map_le_sum_map
  intro nb _
  rw [← arr_getD_toList sorted nb []]
  exact sumc_take_le _ _

theorem usedSum_modify (sorted : Array (List (Nat × Nat))) (ith : Array Nat) (nbit : Nat)
    (x : Nat × Nat) (h1 : nbit < ith.size) (h2 : (sorted.getD nbit [])[ith.getD nbit 0]? = some x) :
    usedSum sorted (ith.modify nbit (· + 1)) = usedSum sorted ith + x.2 := by
  have hns : nbit < sorted.size := by
    rcases Nat.lt_or_ge nbit sorted.size with h | h
    · exact h
    · rw [Array.getD_eq_getD_getElem?, Array.getElem?_eq_none h] at h2
      simp at h2
  unfold usedSum
  apply sum_map_range_update _ nbit _ _ _ hns
  · have e : (ith.modify nbit (· + 1)).getD nbit 0 = ith.getD nbit 0 + 1 := by
      rw [Array.getD_eq_getD_getElem?, Array.getD_eq_getD_getElem?, Array.getElem?_modify, if_pos rfl,
        Array.getElem?_eq_getElem h1]
      rfl
    rw [e]
    exact sumc_take_succ _ _ x h2
  · intro i hi
    have e : (ith.modify nbit (· + 1)).getD i 0 = ith.getD i 0 := by
      rw [Array.getD_eq_getD_getElem?, Array.getD_eq_getD_getElem?, Array.getElem?_modify,
        if_neg (fun h => hi h.symm)]
    rw [e]

/-! ### `memIncr` -/

theorem popcount_le_of_lt {x S : Nat} (hS : S ≤ 64) (h : x < 2 ^ S) : popcount x ≤ S := by
  rw [popcount_eq_cnt]
  have : cnt x.testBit 64 = cnt x.testBit S := by
    apply cnt_eq_of_none hS
    intro j hj _
    exact Nat.testBit_lt_two_pow (Nat.lt_of_lt_of_le h (Nat.pow_le_pow_right (by omega) hj))
  rw [this]; exact cnt_le _ _

theorem memIncr_go_ge (sorted : Array (List (Nat × Nat))) (S : Nat) (hS : S ≤ 17)
    (k short : Nat) (ith : Array Nat) (mem : Int) (hk : short + k ≤ 2 ^ S) (hsz : ith.size = S + 1) :
    mem + ((17 : Int) - S) * usedSum sorted ith
      ≤ memIncr.go sorted S k short ith mem + ((17 : Int) - S) * totalC sorted := by
  have hw : (0 : Int) ≤ (17 : Int) - S := by omega
  induction k generalizing short ith mem with
  | zero =>
    simp only [memIncr.go]
    have := usedSum_le sorted ith
    have : ((17 : Int) - S) * (usedSum sorted ith : Int) ≤ ((17 : Int) - S) * (totalC sorted : Int) :=
      Int.mul_le_mul_of_nonneg_left (by exact_mod_cast this) hw
    omega
  | succ k ih =>
    unfold memIncr.go
    simp only
    have hpc : popcount short ≤ S := popcount_le_of_lt (by omega) (by omega)
    split
    · next bm c hx =>
      have hu := usedSum_modify sorted ith (popcount short) (bm, c) (by omega) hx
      have := ih (short + 1) (ith.modify (popcount short) (· + 1))
        (mem - ((innerSize : Int) - S) * c) (by omega) (by simpa using hsz)
      rw [hu] at this
      simp only [Int.natCast_add, Int.mul_add] at this
      have e : ((innerSize : Nat) : Int) = 17 := rfl
      rw [e] at this ⊢
      omega
    · exact ih (short + 1) ith mem (by omega) hsz

/-- the builder's estimate never drops below `64·2^S − (17 − S)·total` -/
theorem memIncr_ge (sorted : Array (List (Nat × Nat))) (S : Nat) (hS : S ≤ 17) :
    ((2 ^ S : Nat) : Int) * 64 ≤ memIncr sorted S + ((17 : Int) - S) * totalC sorted := by
  unfold memIncr
  have := memIncr_go_ge sorted S hS (2 ^ S) 0 (Array.replicate (S + 1) 0) (((2 ^ S : Nat) : Int) * 64)
    (by omega) (by simp)
  have hz : usedSum sorted (Array.replicate (S + 1) 0) = 0 := by
    unfold usedSum
    have : ∀ nb, (Array.replicate (S + 1) 0).getD nb 0 = 0 := by
      intro nb
      rw [Array.getD_eq_getD_getElem?, Array.getElem?_replicate]
      split <;> rfl
    simp only [this, List.take_zero, sumc, List.map_nil, List.sum_nil]
    generalize List.range sorted.size = l
    induction l with
    | nil => rfl
    | cons a l ih => simp [ih]
  rw [hz] at this
  simpa using this

theorem memIncr_zero_le (sorted : Array (List (Nat × Nat))) : memIncr sorted 0 ≤ 64 := by
  have e : memIncr sorted 0 = memIncr.go sorted 0 1 0 (Array.replicate 1 0) 64 := rfl
  rw [e]
  unfold memIncr.go
  simp only
  split
  · next bm c _ =>
    have : (0 : Int) ≤ ((innerSize : Int) - (0 : Nat)) * (c : Int) := by
      apply Int.mul_nonneg
      · simp [innerSize]
      · exact Int.natCast_nonneg c
    simp only [memIncr.go]
    omega
  · simp only [memIncr.go]; omega

/-! ### `findMinShortSize` -/

theorem findMinShortSize_go_spec (sorted : Array (List (Nat × Nat))) (k ss sz : Nat) (mc : Int) :
    findMinShortSize.go sorted k ss sz mc = sz ∨
      memIncr sorted (findMinShortSize.go sorted k ss sz mc) < mc := by
  induction k generalizing ss sz mc with
  | zero => left; rfl
  | succ k ih =>
    simp only [findMinShortSize.go]
    split
    · next hlt =>
      rcases ih (ss + 1) ss (memIncr sorted ss) with h | h
      · right; rw [h]; exact hlt
      · right; omega
    · exact ih (ss + 1) sz mc

theorem findMinShortSize_spec (sorted : Array (List (Nat × Nat))) :
    findMinShortSize sorted = 0 ∨ memIncr sorted (findMinShortSize sorted) < memIncr sorted 0 :=
  findMinShortSize_go_spec sorted maxShortSize 1 0 (memIncr sorted 0)

/-- a chosen non-zero short size: the table is small compared with the total count -/
theorem short_small (sorted : Array (List (Nat × Nat))) (hpos : 0 < findMinShortSize sorted) :
    4 * 2 ^ findMinShortSize sorted < totalC sorted + 4 := by
  have hle := findMinShortSize_le sorted
  rcases findMinShortSize_spec sorted with h | h
  · omega
  · have h0 := memIncr_zero_le sorted
    have hge := memIncr_ge sorted (findMinShortSize sorted) (by omega)
    generalize findMinShortSize sorted = S at *
    have hw : ((17 : Int) - S) * (totalC sorted : Int) ≤ 16 * (totalC sorted : Int) :=
      Int.mul_le_mul_of_nonneg_right (by omega) (Int.natCast_nonneg _)
    have : ((2 ^ S : Nat) : Int) * 64 < 64 + 16 * (totalC sorted : Int) := by omega
    omega

/-! ### the counts add up to at most the number of inner nodes -/

theorem sumc_insertSorted (x : Nat × Nat) (l : List (Nat × Nat)) :
    sumc (insertSorted x l) = x.2 + sumc l := by
  induction l with
  | nil => simp [insertSorted, sumc]
  | cons y ys ih =>
    simp only [insertSorted]
    split
    · simp [sumc]
    · simp only [sumc, List.map_cons, List.sum_cons] at ih ⊢
      rw [ih]; omega

theorem sumc_sortCounts (tbl : List (Nat × Nat)) : sumc (sortCounts tbl) = sumc tbl := by
  unfold sortCounts
  suffices h : ∀ acc, sumc (tbl.foldl (fun acc x => insertSorted x acc) acc) = sumc acc + sumc tbl by
    simpa [sumc] using h []
  induction tbl with
  | nil => intro acc; simp [sumc]
  | cons x xs ih =>
    intro acc
    rw [List.foldl_cons, ih, sumc_insertSorted]
    simp only [sumc, List.map_cons, List.sum_cons]; omega

theorem sumc_bumpCount (tbl : List (Nat × Nat)) (bm : Nat) : sumc (bumpCount tbl bm) = sumc tbl + 1 := by
  induction tbl with
  | nil => simp [bumpCount, sumc]
  | cons p tbl ih =>
    obtain ⟨b, c⟩ := p
    simp only [bumpCount]
    split
    · simp only [sumc, List.map_cons, List.sum_cons]; omega
    · simp only [sumc, List.map_cons, List.sum_cons] at ih ⊢
      rw [ih]; omega

theorem sum_map_modify_le {α : Type} (l : List α) (j : Nat) (f : α → α) (g : α → Nat)
    (h : ∀ x, g (f x) = g x + 1) : ((l.modify j f).map g).sum ≤ (l.map g).sum + 1 := by
  induction l generalizing j with
  | nil => simp
  | cons a l ih =>
    cases j with
    | zero => simp [List.modify_cons, h]; omega
    | succ j =>
      simp only [List.modify_succ_cons, List.map_cons, List.sum_cons]
      have := ih j; omega

theorem totalC_eSorted (t : Trie1) : totalC (eSorted t) = totalC (eCnts t) := by
  unfold totalC eSorted
  rw [Array.toList_map, List.map_map]
  congr 1
  apply List.map_congr_left
  intro l _
  exact sumc_sortCounts l

theorem totalC_fold_le (l : List InnerRec) (a : Array (List (Nat × Nat))) :
    totalC (l.foldl (fun (a : Array (List (Nat × Nat))) r =>
      if !r.big && r.labels.length < maxShortSize + 1
      then a.modify r.labels.length (fun tbl => bumpCount tbl (bm17 r.labels)) else a) a)
      ≤ totalC a + l.length := by
  induction l generalizing a with
  | nil => simp
  | cons r rs ih =>
    rw [List.foldl_cons, List.length_cons]
    refine Nat.le_trans (ih _) ?_
    split
    · have : totalC (a.modify r.labels.length (fun tbl => bumpCount tbl (bm17 r.labels)))
          ≤ totalC a + 1 := by
        unfold totalC
        rw [Array.toList_modify]
        exact sum_map_modify_le _ _ _ _ (fun x => sumc_bumpCount x _)
      omega
    · omega

theorem totalC_eSorted_le (t : Trie1) : totalC (eSorted t) ≤ (eInners t).length := by
  rw [totalC_eSorted]
  unfold eCnts
  refine Nat.le_trans (totalC_fold_le _ _) ?_
  have : totalC (Array.replicate (maxShortSize + 1) ([] : List (Nat × Nat))) = 0 := by
    simp [totalC, sumc]
  omega

/-! ### the table -/

theorem eTbl_length (t : Trie1) : (eTbl t).length = 2 ^ eShortSize t := by
  have h := shortTable_go_inv (fun _ _ => True) (2 ^ eShortSize t) 0 (eSorted t) [] [] rfl
    (by intro x hx; simp at hx) (fun _ _ _ => trivial)
  have := h.1
  rw [Nat.zero_add] at this
  exact this

/-- `4·|table| < I + 4` when a short size was chosen; `|table| = 1` otherwise -/
theorem eTbl_small (t : Trie1) :
    (eShortSize t = 0 ∧ (eTbl t).length = 1) ∨ 4 * (eTbl t).length < (eInners t).length + 4 := by
  rw [eTbl_length]
  rcases Nat.eq_zero_or_pos (eShortSize t) with h | h
  · left; rw [h]; exact ⟨rfl, rfl⟩
  · right
    have := short_small (eSorted t) h
    have := totalC_eSorted_le t
    unfold eShortSize
    omega

theorem shortTable_go_tbl (P : Nat → Prop) (h0 : P 0) (k short : Nat)
    (sorted : Array (List (Nat × Nat))) (tbl : List Nat) (mu : List (Nat × Nat))
    (htbl : ∀ x ∈ tbl, P x) (hs : ∀ n, ∀ x ∈ sorted.getD n [], P x.1) :
    ∀ x ∈ (shortTable.go k short sorted tbl mu).1, P x := by
  induction k generalizing short sorted tbl mu with
  | zero => simpa [shortTable.go] using htbl
  | succ k ih =>
    unfold shortTable.go
    simp only
    split
    · next bm c rest hsd =>
      apply ih
      · intro x hx
        simp only [List.mem_cons] at hx
        rcases hx with rfl | hx
        · exact hs (popcount short) (x, c) (by rw [hsd]; simp)
        · exact htbl x hx
      · intro n x hx
        simp only [Array.getD_eq_getD_getElem?, Array.getElem?_setIfInBounds] at hx
        split at hx
        · next hn =>
          subst hn
          split at hx
          · simp only [Option.getD_some] at hx
            exact hs (popcount short) x (by rw [hsd]; simp [hx])
          · simp at hx
        · exact hs n x (by simpa [Array.getD_eq_getD_getElem?] using hx)
    · apply ih _ _ _ _ _ hs
      intro x hx
      simp only [List.mem_cons] at hx
      rcases hx with rfl | hx
      · exact h0
      · exact htbl x hx

theorem bm17_lt {labels : List Nat} {n : Nat} (h : ∀ l ∈ labels, l < n) : bm17 labels < 2 ^ n := by
  apply Nat.lt_pow_two_of_testBit
  intro i hi
  rw [testBit_bm17]
  have : i ∉ labels := fun hm => by have := h i hm; omega
  simp [this]

/-- every entry of the short table is a 17-bit bitmap -/
theorem eTbl_entry_lt {t : Trie1} (hs : ShapeOK t) : ∀ x ∈ eTbl t, x < 2 ^ 17 := by
  unfold eTbl shortTable
  apply shortTable_go_tbl (fun x => x < 2 ^ 17) (by omega)
  · intro x hx; simp at hx
  · intro n x hx
    obtain ⟨r, hr, hb, _, hbm⟩ := eSorted_good t n x hx
    rw [← hbm]
    apply bm17_lt
    intro l hl
    have := (mem_labels hs hr).2.2 l hl
    simpa [hb, labelBound] using this

end SizeShort
