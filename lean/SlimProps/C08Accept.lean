import SlimProofs.BuildTotal
/-
  SlimProps.C08Accept — C08, acceptance half: every strictly ascending key list within the
  documented limits is accepted.

  Valid input: `keys ≠ []`, `strictAsc keys = true`, and values (if supplied) as many as keys.

  * `C08_cases`   `build` succeeds, or returns `stepTooLong` — and the latter only in step mode
                  (`opt.inner = false`) with a key longer than 0xffff half-bytes (32767 bytes).
  * `C08_total`   on valid input `build` never panics and never runs out of fuel.
  * `C08_accept`  with stored inner prefixes, or with all keys at most 0xffff half-bytes long
                  (the documented limit is 16 KiB), valid input is accepted.
  * `C08_accept_iff`  within the limits, acceptance ⇔ strictly ascending.

  Proof: `BuildTotal.buildLoop_total` (loop invariant `BInv` + potential function for the fuel).
-/

open BuildInv BuildShape BuildTotal

theorem C08_cases (keys : List Bytes) (vals : Option (List Bytes)) (opt : Opt)
    (hne : keys ≠ []) (hasc : strictAsc keys = true)
    (hv : ∀ vs, vals = some vs → vs.length = keys.length) :
    (∃ t, build keys vals opt = .ok t) ∨
    (build keys vals opt = .error .stepTooLong ∧ opt.inner = false ∧
      ∃ k ∈ keys, 0xffff < 2 * k.length) := by
  have hn : keys.length ≠ 0 := by
    intro h; exact hne (List.length_eq_zero_iff.mp h)
  rw [build_eq_loop keys vals opt hne hasc hv]
  rcases buildLoop_total (mkCtx_ok keys vals opt) hasc (2 * keys.length) 0 (initSt keys.length)
    (binv_init opt hn hv) (by rw [pot_init]; omega) with ⟨st, h⟩ | ⟨h, h'⟩
  · left; rw [h]; exact ⟨_, rfl⟩
  · right; rw [h]; exact ⟨rfl, h'⟩

/-- On valid input `build` returns a trie or `ErrStepTooLong`: no panic, no fuel exhaustion. -/
theorem C08_total (keys : List Bytes) (vals : Option (List Bytes)) (opt : Opt)
    (hne : keys ≠ []) (hasc : strictAsc keys = true)
    (hv : ∀ vs, vals = some vs → vs.length = keys.length) :
    (∃ t, build keys vals opt = .ok t) ∨ build keys vals opt = .error .stepTooLong := by
  rcases C08_cases keys vals opt hne hasc hv with h | ⟨h, _⟩
  · exact Or.inl h
  · exact Or.inr h

/-- Valid input within the limits is accepted. -/
theorem C08_accept (keys : List Bytes) (vals : Option (List Bytes)) (opt : Opt)
    (hne : keys ≠ []) (hasc : strictAsc keys = true)
    (hv : ∀ vs, vals = some vs → vs.length = keys.length)
    (hlim : opt.inner = true ∨ ∀ k ∈ keys, 2 * k.length ≤ 0xffff) :
    ∃ t, build keys vals opt = .ok t := by
  rcases C08_cases keys vals opt hne hasc hv with h | ⟨_, hin, k, hk, hlen⟩
  · exact h
  · rcases hlim with h | h
    · rw [hin] at h; cases h
    · have := h k hk; omega

/-- Within the limits, a non-empty input is accepted iff it is strictly ascending. -/
theorem C08_accept_iff (keys : List Bytes) (vals : Option (List Bytes)) (opt : Opt)
    (hne : keys ≠ []) (hv : ∀ vs, vals = some vs → vs.length = keys.length)
    (hlim : opt.inner = true ∨ ∀ k ∈ keys, 2 * k.length ≤ 0xffff) :
    (∃ t, build keys vals opt = .ok t) ↔ strictAsc keys = true := by
  constructor
  · rintro ⟨t, ht⟩
    exact (build_ok_elim ht hne).1
  · intro hasc
    exact C08_accept keys vals opt hne hasc hv hlim

/-! ### non-vacuity: a concrete input satisfies the hypotheses -/

example : ∃ t, build [[0x61], [0x61, 0x62], [0x62, 0xe3]] (some [[1], [1], [2]]) {} = .ok t :=
  C08_accept _ _ _ (by simp) (by decide) (by intro vs h; cases h; rfl)
    (Or.inr (by intro k hk; simp at hk; rcases hk with rfl | rfl | rfl <;> decide))

#print axioms C08_cases
#print axioms C08_total
#print axioms C08_accept
#print axioms C08_accept_iff
