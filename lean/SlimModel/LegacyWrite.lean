import SlimModel.Legacy
/-
  SlimModel.LegacyWrite — the writers of the historical layouts, reconstructed (property C06).

  No old writer exists in the repository.  These functions were reconstructed from the loader
  (`SlimModel.Legacy`, trie/slimtrie_marshal.go) and from the 97 archived files of trie/testdata;
  the Go twin (harness/fam/leg/writer.go, w0510.go) regenerates every archived file byte for byte
  (`leg.ValidateFixtures`), and the line protocol (`leg.write`) ties this model to the Go twin.

  Three-section layouts (≤ 0.5.9): half-byte trie with path compression, node ids breadth first,
  root 0, a node may be inner *and* leaf.  For the key range `[s, e)` reached at half-byte depth `d`
  (the depth counts the label half-byte that led here):

    * one key: leaf; 0.5.0 only: `step = remaining half-bytes + 1`, stored when > 1;
    * else `c` = length of the common prefix of the range (in half-bytes), `step = c - d + 1`
      stored when > 1; if the first key ends at `c` the node is also a leaf and the key leaves
      the range; the other keys are grouped by their half-byte at `c`, one child per group at
      depth `c + 1`, label bitmap of 16 bits.

  Sections: children (`array.Array32`, by id), steps (`array.U16`), leaves (`array.Array`), each
  in its own frame.  Variants:

    0.5.0          uint32 children `bitmap | firstChild << 16`, steps also on leaves, header 1.0.0
    0.5.1 – 0.5.3  uint32 children, header 1.0.0
    0.5.4 – 0.5.6  bitmap children: `Flags = 3`, `EltWidth = 16`, `BMElts{N = highest set bit + 1,
                   Words = bitmaps packed four per word, RankIndex = IndexRank128}`; header 1.0.0;
                   the empty trie still writes `Flags`, `EltWidth`, `BMElts{RankIndex = [0]}`
    0.5.7          as 0.5.4, the empty trie writes an empty children message
    0.5.8          as 0.5.7, header 0.5.8
    0.5.9          as 0.5.8, header 0.5.9, `Bitmaps`/`Offsets` of children and steps extended with
                   empty words (offset 0) to `⌈nodes / 64⌉` words

  Limits of the layout: a step is a `uint16` (a run of more than 65534 half-bytes wraps), the
  first-child id of a uint32 child element has 16 bits (wraps from 65536 nodes on; the loader does
  not read it).  Versions before 0.5.5 addressed nodes with 16-bit ids (change log: "max key limit
  extends to 2^31" in 0.5.5).

  0.5.10 / 0.5.11: one frame holding the `Slim` message of today's builder for the option
  (`nopref` = default, `innpref` = InnerPrefix, `allpref` = Complete) except
    (i)   every `InnerPrefixes.Bytes` element is in control-byte form (`ctrlOfBitstr`),
    (ii)  `Leaves` holds `Bytes` only,
    (iii) `SelectIndex` entries are word indexes (`pos >> 6`),
    (iv)  the retired scalar fields 12 (`BigInnerOffset = 240·BigInnerCnt`), 13
          (`ShortMinusInner = ShortSize − 17`, a negative int32: ten-byte varint) and 15
          (`ShortMask = 2^ShortSize − 1`) are written in field-number order,
  and the empty key set writes an empty body.
-/
open Bits Wire Frame

namespace LegacyWrite

/-! ### the pre-0.5.10 trie -/

/-- A node of the old trie. -/
structure OldNode where
  inner : Bool := false
  /-- label bitmap: bit `w` = a child with half-byte `w` -/
  bm : Nat := 0
  firstChild : Nat := 0
  /-- stored step (`> 1`), or 0 when none is stored -/
  step : Nat := 0
  /-- index of the key that ends here -/
  leaf : Option Nat := none
  deriving Repr, DecidableEq, Inhabited

/-- keys[s:e) below half-byte depth `d` -/
structure Sub where
  s : Nat
  e : Nat
  d : Nat
  deriving Repr, DecidableEq, Inhabited

/-- runs of equal label among keys[s:e): (label, start, end) -/
def groupRuns (lab : Nat → Nat) (e : Nat) : Nat → Nat → List (Nat × Nat × Nat)
  | 0, _ => []
  | fuel + 1, s =>
    if s < e then
      let w := lab s
      let j := scanWhile (fun t => lab t == w) (e - (s + 1)) (s + 1)
      (w, s, j) :: groupRuns lab e fuel j
    else []

/-- The node for queue entry `q` and the queue entries of its children; `qsize` is the queue
    length before they are appended (= id of the first child). -/
def oldStep (kn : Array (List Nat)) (leafSteps : Bool) (qsize : Nat) (q : Sub) : OldNode × List Sub :=
  if q.e - q.s = 1 then
    let st := (kn.getD q.s []).length - q.d + 1
    ({ leaf := some q.s, step := if leafSteps && decide (st > 1) then st else 0 }, [])
  else
    let first := kn.getD q.s []
    let c := lcp first (kn.getD (q.e - 1) [])
    let st := c - q.d + 1
    let isLeaf := first.length == c
    let s := if isLeaf then q.s + 1 else q.s
    let runs := groupRuns (fun t => (kn.getD t []).getD c 0) q.e (q.e - s) s
    ({ inner := true
       bm := runs.foldl (fun a r => a ||| (1 <<< r.1)) 0
       firstChild := qsize
       step := if st > 1 then st else 0
       leaf := if isLeaf then some q.s else none },
     runs.map (fun (_, s', j) => { s := s', e := j, d := c + 1 }))

/-- `for id := 0; id < len(queue); id++` over the growing queue. -/
def oldLoop (kn : Array (List Nat)) (leafSteps : Bool) :
    Nat → Nat → Array Sub → Array OldNode → Except Err (Array OldNode)
  | 0, i, queue, nodes => if i < queue.size then .error .fuel else .ok nodes
  | fuel + 1, i, queue, nodes =>
    if h : i < queue.size then
      let (n, kids) := oldStep kn leafSteps queue.size queue[i]
      oldLoop kn leafSteps fuel (i + 1) (queue ++ kids.toArray) (nodes.push n)
    else .ok nodes

/-- The old trie of strictly ascending keys (no node for the empty key set).  A trie over `n`
    keys has at most `2n` nodes. -/
def buildOld (keys : List Bytes) (leafSteps : Bool) : Except Err (Array OldNode) :=
  let n := keys.length
  if n = 0 then .ok #[] else
  oldLoop (keys.map nibs).toArray leafSteps (2 * n + 1) 0 #[{ s := 0, e := n, d := 0 }] #[]

/-! ### sections -/

/-- `array.Base.InitIndex` (`bitmap.Of`, `IndexRank64`, offset 0 for an empty word), with the
    index bitmaps extended to at least `minWords` words (0.5.9). -/
def zeroEmpty : List Nat → List Nat → List Nat
  | w :: ws, o :: os => (if w = 0 then 0 else o) :: zeroEmpty ws os
  | _, os => os

def initIndex (idx : List Nat) (minWords : Nat) (elts : Bytes) : Array32Msg :=
  let words := ofIdx idx (minWords * 64)
  { cnt := idx.length, bitmaps := words, offsets := zeroEmpty words (indexRank64 words false), elts := elts }

structure Variant where
  header : String
  leafSteps : Bool := false
  bitmapChild : Bool := false
  emptyHasBM : Bool := false
  extendedIdx : Bool := false
  deriving Repr, DecidableEq, Inhabited

def parseVariant (v : String) : Option Variant :=
  match v with
  | "0.5.0" => some { header := "1.0.0", leafSteps := true }
  | "0.5.1" | "0.5.2" | "0.5.3" => some { header := "1.0.0" }
  | "0.5.4" | "0.5.5" | "0.5.6" => some { header := "1.0.0", bitmapChild := true, emptyHasBM := true }
  | "0.5.7" => some { header := "1.0.0", bitmapChild := true }
  | "0.5.8" => some { header := "0.5.8", bitmapChild := true }
  | "0.5.9" => some { header := "0.5.9", bitmapChild := true, extendedIdx := true }
  | _ => none

/-- ids (positions) of the nodes satisfying `p`, ascending -/
def idsFrom (p : OldNode → Bool) : Nat → List OldNode → List Nat
  | _, [] => []
  | i, n :: ns => if p n then i :: idsFrom p (i + 1) ns else idsFrom p (i + 1) ns

def idsWhere (nodes : List OldNode) (p : OldNode → Bool) : List Nat := idsFrom p 0 nodes

/-- the uint32 child element: `bitmap | firstChild << 16`, little endian (truncating) -/
def u32Child (n : OldNode) : Bytes := leBytes 4 (n.bm + n.firstChild * 65536)

/-- four 16-bit bitmaps per word -/
def packBM16 : List Nat → List Nat
  | [] => []
  | a :: rest =>
    let b := rest.getD 0 0
    let c := rest.getD 1 0
    let d := rest.getD 2 0
    (a + b * 2 ^ 16 + c * 2 ^ 32 + d * 2 ^ 48) :: packBM16 (rest.drop 3)
termination_by l => l.length
decreasing_by simp [List.length_drop]; omega

/-- highest set bit + 1 over the words (0 when all are zero) -/
def bitLenFrom : List Nat → Nat → Nat → Nat
  | [], _, best => best
  | w :: ws, i, best => bitLenFrom ws (i + 1) (if w = 0 then best else i * 64 + w.log2 + 1)

def bitLenWords (words : List Nat) : Nat := bitLenFrom words 0 0

def childrenMsg (vr : Variant) (nodes : List OldNode) (minWords : Nat) : Array32Msg :=
  let inners := nodes.filter (·.inner)
  let idx := idsWhere nodes (·.inner)
  if !vr.bitmapChild then
    initIndex idx minWords (inners.flatMap u32Child)
  else
    let base := initIndex idx minWords []
    if nodes.isEmpty && !vr.emptyHasBM then base
    else
      let words := packBM16 (inners.map (·.bm))
      { base with flags := 3, eltWidth := 16,
                  bmElts := some { n := bitLenWords words, words := words, rankIndex := indexRank128 words } }

def stepsMsg (nodes : List OldNode) (minWords : Nat) : Array32Msg :=
  initIndex (idsWhere nodes (·.step != 0)) minWords
    ((nodes.filter (·.step != 0)).flatMap (fun n => leBytes 2 n.step))

def leavesMsg (nodes : List OldNode) (vals : Array Bytes) : Array32Msg :=
  initIndex (idsWhere nodes (·.leaf.isSome)) 0
    (nodes.flatMap (fun n => match n.leaf with | some k => vals.getD k [] | none => []))

/-- The three messages of a three-section stream. -/
def sections3 (vr : Variant) (keys vals : List Bytes) :
    Except Err (Array32Msg × Array32Msg × Array32Msg) := do
  let nodes := (← buildOld keys vr.leafSteps).toList
  let minWords := if vr.extendedIdx then (nodes.length + 63) / 64 else 0
  return (childrenMsg vr nodes minWords, stepsMsg nodes minWords, leavesMsg nodes vals.toArray)

/-- `writeLegacy3 variant keys vals`: the stream an old (≤ 0.5.9) writer produces; `vals[i]` is the
    encoded value of `keys[i]`. -/
def writeLegacy3 (variant : String) (keys vals : List Bytes) : Except Err Bytes := do
  let some vr := parseVariant variant | .error (.other "unknown three-section variant")
  let (ch, st, lv) ← sections3 vr keys vals
  return frame vr.header (encodeArray32 ch) ++ (frame vr.header (encodeArray32 st) ++
    frame vr.header (encodeArray32 lv))

/-! ### 0.5.10 / 0.5.11 -/

def optOfMode (mode : String) : Option Opt :=
  match mode with
  | "nopref" => some {}
  | "innpref" => some { inner := true }
  | "allpref" => some { inner := true, leaf := true }
  | _ => none

/-- number of leading one bits of a byte -/
def leadingOnes (b : UInt8) : Nat :=
  match (List.range 8).find? (fun k => !b.toNat.testBit (7 - k)) with
  | some k => k
  | none => 8

/-- One stored prefix from the 0.5.12 form (payload ‖ mask byte, `bitstr.New`) into the
    0.5.10/0.5.11 form: control byte ‖ payload; when the prefix does not end on a byte boundary the
    control byte is 1 and a single 1 bit follows the last payload bit.  Same length. -/
def ctrlOfBitstr (e : Bytes) : Bytes :=
  match e.getLast? with
  | none => []
  | some mask =>
    let p := e.dropLast
    if mask = 0xff then 0 :: p
    else
      match p.getLast? with
      | none => [1]
      | some lastB =>
        1 :: (p.dropLast ++ [UInt8.ofNat ((lastB.toNat &&& mask.toNat) ||| (1 <<< (7 - leadingOnes mask)))])

/-- positions of the set bits, word by word (`Bits.toArray`, linear time) -/
def onesFrom : List Nat → Nat → List Nat
  | [], _ => []
  | w :: ws, i =>
    ((List.range 64).filter (fun k => w.testBit k)).map (i * 64 + ·) ++ onesFrom ws (i + 1)

/-- `bytes` is the stream from offset `cur` on: cut it at the given ascending offsets -/
def cutAt (bytes : Bytes) (cur : Nat) : List Nat → List Bytes
  | [] => []
  | b :: rest => bytes.take (b - cur) :: cutAt (bytes.drop (b - cur)) b rest

/-- consecutive slices `[pos[i], pos[i+1])` of `bytes` -/
def slices (bytes : Bytes) : List Nat → List Bytes
  | [] => []
  | a :: rest => cutAt (bytes.drop a) a rest

def wordIndexSelect (b : BitmapMsg) : BitmapMsg :=
  { b with selectIndex := b.selectIndex.map (· / 64) }

def oldInnerPrefixes (ips : VLenArrayMsg) : VLenArrayMsg :=
  match ips.positionBM with
  | none => ips
  | some pbm =>
    { ips with bytes := if ips.bytes.isEmpty then [] else
                 ((slices ips.bytes (onesFrom pbm.words 0)).map ctrlOfBitstr).flatten
               positionBM := some (wordIndexSelect pbm) }

def oldLeafPrefixes (lps : VLenArrayMsg) : VLenArrayMsg :=
  { lps with positionBM := lps.positionBM.map wordIndexSelect }

/-- two's complement of an int32 as the uint64 the varint carries -/
def int32Varint (x : Int) : Nat := if x < 0 then (2 ^ 64 - x.natAbs) else x.toNat

/-- The body of a 0.5.10/0.5.11 stream from today's message. -/
def to0510 (cur : SlimMsg) : Bytes :=
  if cur.nodeTypeBM.isNone && cur.inners.isNone && cur.leaves.isNone then [] else
  let rest : SlimMsg :=
    { cur with bigInnerCnt := 0, shortSize := 0
               innerPrefixes := cur.innerPrefixes.map oldInnerPrefixes
               leafPrefixes := cur.leafPrefixes.map oldLeafPrefixes
               leaves := cur.leaves.map (fun lv => { bytes := lv.bytes }) }
  encVarintF 11 cur.bigInnerCnt ++
  (encVarintF 12 ((Slim.bigInnerSize - Slim.innerSize) * cur.bigInnerCnt) ++
  (encVarintF 13 (int32Varint ((cur.shortSize : Int) - Slim.innerSize)) ++
  (encVarintF 14 cur.shortSize ++
  (encVarintF 15 (2 ^ cur.shortSize - 1) ++ encodeSlim rest))))

/-- `write0510 mode ver keys vals`: the stream the 0.5.10 (0.5.11) writer produces. -/
def write0510 (mode ver : String) (keys vals : List Bytes) : Except Err Bytes := do
  let some opt := optOfMode mode | .error (.other "unknown mode")
  if ver != "0.5.10" && ver != "0.5.11" then .error (.other "unknown version")
  if keys.isEmpty then return frame ver []
  let t ← build keys (some vals) opt
  return frame ver (to0510 (Slim.encode t))

/-- any variant: `0.5.0`…`0.5.9`, or `<mode>-0.5.10`, `<mode>-0.5.11`.  Keys must be strictly
    ascending (what `NewSlimTrie` has always required; the three-section construction is only
    meaningful on sorted keys), one value per key. -/
def write (variant : String) (keys vals : List Bytes) : Except Err Bytes :=
  if keys.length ≠ vals.length then .error (.panic "len(keys) must equal len(values)") else
  if !strictAsc keys then .error .outOfOrder else
  match variant.splitOn "-" with
  | [v] => writeLegacy3 v keys vals
  | [mode, ver] => write0510 mode ver keys vals
  | _ => .error (.other "unknown variant")

end LegacyWrite
