import SlimProofs.VLen
import SlimProofs.Encode
/-
  SlimProofs.GetInt — the typed getters `GetI8/16/32/64` (`Slim.getInt`) read the same bytes as
  `Get` (`get (Slim.view s)`): with all values of one non-zero width `w`, `newVLenArray` builds the
  fixed layout with full presence, so `VLenArray.get(ith)` is the slice `[ith·w, ith·w + w)` of
  `Leaves.Bytes` — the slice `getInt` takes directly.  (Property C14.)
-/
namespace Slim
open Bits

/-- a node that `getNode` decodes as a leaf comes from the first branch: the node-type bit of `id`
    is clear and the leaf ordinal is `id` minus the number of inner nodes in front -/
theorem getNode_leaf_inv (s : SlimMsg) (id ith : Nat) (lp : Option Bytes)
    (h : getNode s id = .ok (.leaf ith lp)) :
    ∃ nt r, s.nodeTypeBM = some nt ∧ rank64 nt id = .ok (r, false) ∧ ith = id - r := by
  unfold getNode at h
  cases hnt : s.nodeTypeBM with
  | none => rw [hnt] at h; cases h
  | some nt =>
    rw [hnt] at h
    simp only [bind, Except.bind] at h
    cases hr : rank64 nt id with
    | error e => rw [hr] at h; cases h
    | ok p =>
      obtain ⟨r, isInner⟩ := p
      rw [hr] at h
      simp only at h
      cases isInner with
      | false =>
        simp only [Bool.not_false, if_true] at h
        cases hlp : getLeafPrefix s (id - r) with
        | error e => rw [hlp] at h; cases h
        | ok lp' =>
          rw [hlp] at h
          simp only [pure, Except.pure] at h
          cases h
          exact ⟨nt, r, rfl, hr, rfl⟩
      | true =>
        exfalso
        simp only [Bool.not_true, Bool.false_eq_true, if_false] at h
        split at h
        · cases h
        · split at h
          · split at h
            · cases h
            · split at h
              · split at h
                · cases h
                · simp only [pure, Except.pure] at h
                  cases h
              · cases h
          · cases h

theorem sum_take_const (elts : List Bytes) (w : Nat) (h : ∀ e ∈ elts, e.length = w) (i : Nat)
    (hi : i ≤ elts.length) : ((elts.take i).map List.length).sum = i * w := by
  induction elts generalizing i with
  | nil =>
    have : i = 0 := by simpa using hi
    subst this; simp
  | cons e es ih =>
    cases i with
    | zero => simp
    | succ i =>
      have hi' : i ≤ es.length := by simpa using hi
      simp only [List.take_succ_cons, List.map_cons, List.sum_cons,
        ih (fun x hx => h x (List.mem_cons_of_mem _ hx)) i hi', h e (List.mem_cons_self ..)]
      rw [Nat.add_mul]; omega

/-- the slice the typed getter reads is the element itself -/
theorem slice_fixed_width (elts : List Bytes) (w : Nat) (h : ∀ e ∈ elts, e.length = w) (i : Nat)
    (hi : i < elts.length) :
    sliceBytes elts.flatten (i * w) (i * w + w) = .ok elts[i] := by
  obtain ⟨h1, h2⟩ := flatten_slice elts i hi
  rw [sum_take_const elts w h i (by omega), h _ (List.getElem_mem hi)] at h1 h2
  rw [sliceBytes_ok _ _ _ h1, h2]

/-- `leSigned` is the Go conversion `intW(binary.LittleEndian.UintW(b))` of package encode -/
theorem leSigned_eq_toS (bs : Bytes) (w : Nat) (hl : bs.length = w) (hw : 1 ≤ w) :
    leSigned bs = Encode.toS w (leVal bs) := by
  unfold leSigned Encode.toS
  subst hl
  have hsplit : (2 : Nat) ^ (8 * bs.length) = 2 * 2 ^ (8 * bs.length - 1) := by
    have : 8 * bs.length = (8 * bs.length - 1) + 1 := by omega
    rw [this, Nat.pow_succ]; simp; omega
  simp only
  by_cases hlt : leVal bs < 2 ^ (8 * bs.length - 1)
  · have : 2 * leVal bs < 2 ^ (8 * bs.length) := by rw [hsplit]; omega
    rw [if_pos hlt, if_pos this]
  · have : ¬ 2 * leVal bs < 2 ^ (8 * bs.length) := by rw [hsplit]; omega
    rw [if_neg hlt, if_neg this]

/-- the typed getter inverts the matching little-endian integer encoder of package encode
    (`I8`, `I16`, `I32`, `I64`: `Encode.encodeS w`), over the full range of the integer type -/
theorem leSigned_encodeS {w : Nat} (hw : 1 ≤ w) {v : Int} (hv : Encode.InS w v) :
    leSigned (Encode.encodeS w v) = v := by
  unfold Encode.encodeS
  rw [leSigned_eq_toS _ w (Encode.leBytes_length w _) hw,
    Encode.leVal_leBytes_of_lt (Encode.toU_lt w v), Encode.toS_toU hw hv]

/-- C14, core: the typed getter and `Get` on the same message.  `hleaf`: the id that `GetID`
    reports decodes as a leaf whose ordinal is inside the value array (true for every trie built
    by `NewSlimTrie`; discharged by the build refinement). -/
theorem getInt_eq_get (s : SlimMsg) (w : Nat) (hw : 0 < w) (elts : List Bytes) (key : Bytes)
    (hleaves : s.leaves = newVLenArray elts) (hwidth : ∀ e ∈ elts, e.length = w)
    (hleaf : ∀ id, getID (view s) key = .ok (some id) →
      ∃ ith lp, getNode s id = .ok (.leaf ith lp) ∧ ith < elts.length) :
    getInt s w key
      = (_root_.get (view s) key).map (fun r => r.map (fun b => leSigned (b.getD []))) := by
  unfold getInt _root_.get
  cases hid : getID (view s) key with
  | error e => rfl
  | ok o =>
    cases o with
    | none => rfl
    | some id =>
      obtain ⟨ith, lp, hnode, hith⟩ := hleaf id hid
      obtain ⟨nt, r, hnt, hrank, hord⟩ := getNode_leaf_inv s id ith lp hnode
      -- the value array is there
      have hsome : ∃ va, newVLenArray elts = some va := by
        cases hva : newVLenArray elts with
        | some va => exact ⟨va, rfl⟩
        | none =>
          have hall := (newVLenArray_none_iff elts).mp hva
          have hm : elts[ith] ∈ elts := List.getElem_mem hith
          have := hwidth _ hm
          rw [hall _ hm] at this
          simp at this; omega
      obtain ⟨va, hva⟩ := hsome
      obtain ⟨_, _, hbytes, _⟩ := newVLenArray_fields elts va hva
      have hlv : s.leaves = some va := by rw [hleaves, hva]
      have hslice := slice_fixed_width elts w hwidth ith hith
      have hget := vlenGet_newVLenArray elts va hva ith hith
      have hgd : elts.getD ith [] = elts[ith] := by
        rw [List.getD_eq_getElem?_getD, List.getElem?_eq_getElem hith]; rfl
      subst hord
      simp only [bind, Except.bind, pure, Except.pure, hnt, hrank, hlv, hbytes, hslice,
        getLeaf, view, hnode, hget, hgd, Except.map, Option.map, Option.getD]

end Slim
