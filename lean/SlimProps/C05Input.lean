import SlimProps.Loaded
import SlimProofs.InputSmall
/-
  C05 (trie / instance level), stated on the USER'S INPUT.

  The trie-level theorems of `SlimProps/C05.lean` and `SlimProps/Loaded.lean` carry the hypothesis
  `Refine.Small t` (every int32 counter of the built message fits, the protobuf body can be
  allocated) — a hypothesis about the intermediate object `t`, not about what the caller of
  `NewSlimTrie` supplies.  Here it is replaced by the decidable predicate on keys and values

      InputSmall keys vals  :=  514·|keys| + (total key bytes) + (total value bytes) + 64 < 2^31

  (`SlimProofs/InputSmall.lean`, `small_of_input`), and the hypothesis `hlevels` (`st.init()`
  succeeds) is discharged by `C18_initLevels_ok`.  What is left: `hb : build keys vals opt = .ok t`
  (it NAMES the result of the construction; `C08_accept` says when it exists) and `InputSmall`.

  The bound allows, for instance, 10^6 keys of 1 KiB with 8-byte values, 10^5 keys of 16 KiB, or
  4·10^6 short keys.  Each theorem is the existing one composed with `small_of_input`.
-/
open Wire Frame Version Legacy Refine

section input
variable (keys : List Bytes) (vals : Option (List Bytes)) (opt : Opt) (t : Trie1)
  (hb : build keys vals opt = .ok t) (hi : InputSmall keys vals)
include hb hi

/-- the built message is well formed, in normal form, and fits a frame -/
theorem C05_encode_wf_input :
    (Slim.encode t).WF ∧ (Slim.encode t).NF ∧ BodyOK (encodeSlim (Slim.encode t)) :=
  C05_encode_wf keys vals opt t hb (small_of_input keys vals opt t hb hi)

/-- **C05 round trip, from the input**: `Unmarshal(Marshal(t))` is the built message; the instance
    is the freshly initialised one whatever it held before. -/
theorem C05_roundtrip_input (encSize : Option Nat) (st : Instance) :
    unmarshalMsg encSize (marshalSlim (Slim.encode t)) = .ok (Slim.encode t) ∧
    ∃ lv, Slim.initLevels (Slim.encode t) = .ok lv ∧
      Instance.unmarshal st encSize (marshalSlim (Slim.encode t))
        = ({ inner := Slim.encode t, levels := lv, varsNil := false }, none) := by
  obtain ⟨lv, hlv⟩ := C18_initLevels_ok keys vals opt t hb
  have h := C05_roundtrip keys vals opt t hb (small_of_input keys vals opt t hb hi) encSize lv hlv st
  exact ⟨h.1, lv, hlv, h.2⟩

/-- **C05 answers identical, from the input**: the loaded instance has the built message, the same
    view (all that the query code reads), the freshly computed level table and the same `Stat`. -/
theorem C05_answers_identical_input (σ : Instance) (encSize : Option Nat) :
    ∃ lv, Slim.initLevels (Slim.encode t) = .ok lv ∧
      (loadedFrom σ t encSize).inner = Slim.encode t ∧
      Slim.view (loadedFrom σ t encSize).inner = Slim.view (Slim.encode t) ∧
      (loadedFrom σ t encSize).levels = lv ∧ (loadedFrom σ t encSize).varsNil = false ∧
      Slim.stat (loadedFrom σ t encSize).inner (loadedFrom σ t encSize).levels
        = Slim.stat (Slim.encode t) lv :=
  C05_answers_identical_built keys vals opt t hb (small_of_input keys vals opt t hb hi) σ encSize

/-- **C05 byte stability, from the input**: re-marshalling the loaded instance reproduces the bytes. -/
theorem C05_stable_trie_input (encSize : Option Nat) (st : Instance) :
    marshalSlim (Instance.unmarshal st encSize (marshalSlim (Slim.encode t))).1.inner
      = marshalSlim (Slim.encode t) := by
  obtain ⟨lv, hlv⟩ := C18_initLevels_ok keys vals opt t hb
  exact C05_stable_trie keys vals opt t hb (small_of_input keys vals opt t hb hi) encSize lv hlv st

/-- **C05 size, from the input**: the stream is the 32-byte header plus the advertised protobuf
    size, and that size can be allocated by the reader (`≤ maxAlloc`). -/
theorem C05_size_trie_input :
    (marshalSlim (Slim.encode t)).length = 32 + protoSizeSlim (Slim.encode t) ∧
    protoSizeSlim (Slim.encode t) ≤ maxAlloc := by
  refine ⟨C05_size_trie t, ?_⟩
  have := (small_of_input keys vals opt t hb hi).body
  unfold BodyOK at this
  rw [protoSizeSlim_eq]
  exact this

/-- **C05 no residue, from the input**: after ANY history of loads and resets, loading the bytes of
    a built trie succeeds, and the resulting state does not depend on the initial contents nor on
    the earlier operations (likewise after `Reset`). -/
theorem C05_no_residue_input (σ σ' : Instance) (ops ops' : List Op) (e : Option Nat) :
    (Instance.unmarshal (run σ ops) e (marshalSlim (Slim.encode t))).2 = none ∧
    run σ (ops ++ [.unmarshal e (marshalSlim (Slim.encode t))])
      = run σ' (ops' ++ [.unmarshal e (marshalSlim (Slim.encode t))]) ∧
    run σ (ops ++ [.reset]) = run σ' (ops' ++ [.reset]) := by
  obtain ⟨_, lv, _, hload⟩ := C05_roundtrip_input keys vals opt t hb hi e (run σ ops)
  have hok : (Instance.unmarshal (run σ ops) e (marshalSlim (Slim.encode t))).2 = none := by
    rw [hload]
  exact ⟨hok, C05_no_residue σ σ' ops ops' e _ hok⟩

end input

/-! ### non-vacuity

  The example input of `C05.ex_hyps` (3 keys, stored prefixes, values) is `InputSmall` by
  evaluation, `build` succeeds on it, and every theorem above applies. -/

example : InputSmall C05.exKeys (some C05.exVals) := by decide

/-- `C05_roundtrip_input` applies to a concrete input -/
example (st : Instance) : ∃ t, build C05.exKeys (some C05.exVals) C05.exOpt = .ok t ∧
    unmarshalMsg (some 1) (marshalSlim (Slim.encode t)) = .ok (Slim.encode t) ∧
    (Instance.unmarshal st (some 1) (marshalSlim (Slim.encode t))).2 = none := by
  obtain ⟨t, _, hb, _⟩ := C05.ex_hyps
  obtain ⟨h1, lv, _, h2⟩ := C05_roundtrip_input _ _ _ t hb (by decide) (some 1) st
  exact ⟨t, hb, h1, by rw [h2]⟩

/-- `C05_answers_identical_input`, `C05_stable_trie_input`, `C05_size_trie_input` apply -/
example (σ : Instance) : ∃ t, build C05.exKeys (some C05.exVals) C05.exOpt = .ok t ∧
    Slim.view (loadedFrom σ t none).inner = Slim.view (Slim.encode t) ∧
    marshalSlim (Instance.unmarshal σ none (marshalSlim (Slim.encode t))).1.inner
      = marshalSlim (Slim.encode t) ∧
    (marshalSlim (Slim.encode t)).length = 171 := by
  obtain ⟨t, _, hb, _, _, hlen⟩ := C05.ex_hyps
  obtain ⟨_, _, _, hv, _⟩ := C05_answers_identical_input _ _ _ t hb (by decide) σ none
  exact ⟨t, hb, hv, C05_stable_trie_input _ _ _ t hb (by decide) none σ, hlen⟩

/-- `C05_no_residue_input`: load garbage, reset, then load a built trie — succeeds, and gives the
    same state as loading into a fresh instance -/
example : ∃ t, build C05.exKeys (some C05.exVals) C05.exOpt = .ok t ∧
    run {} ([.unmarshal none [1, 2, 3], .reset] ++ [.unmarshal (some 4) (marshalSlim (Slim.encode t))])
      = run {} ([] ++ [.unmarshal (some 4) (marshalSlim (Slim.encode t))]) := by
  obtain ⟨t, _, hb, _⟩ := C05.ex_hyps
  exact ⟨t, hb, (C05_no_residue_input _ _ _ t hb (by decide) {} {} _ [] (some 4)).2.1⟩

#print axioms C05_encode_wf_input
#print axioms C05_roundtrip_input
#print axioms C05_answers_identical_input
#print axioms C05_stable_trie_input
#print axioms C05_size_trie_input
#print axioms C05_no_residue_input
