import SlimProofs.SizePrefixEnc
import SlimProofs.SizeBound
import SlimProofs.SizeLabels
import SlimProps.C08Accept
/-
  SlimProps.C17 — filter-mode index size (default options, no values).

  First half, `C17_bound`: the serialized index of `n ≥ 1` keys is at most `8·n + 256` bytes,
  whatever the keys, for `n < 2^31` (Go's own limit: node ids and rank-index entries are
  `int32`; the proof needs the rank entries, which count up to `2n`, to fit 5-byte varints,
  i.e. any `n < 2^33` would do).  Ingredients (SlimProofs.Size*): every inner record has ≥ 2
  labels and every 257-bit record ≥ 11 when nothing is dropped (`SizeLabels.build_labelsOK`),
  so `#inner ≤ n − 1`, `#nodes ≤ 2n − 1`; per-field size bounds (`SizeFields`); the short table
  is chosen only when `4·2^shortSize < #inner + 4` (`SizeShort.eTbl_small`, from
  `memIncr sorted S ≥ 64·2^S − (17 − S)·#inner` and `findMinShortSize`); a linear sum
  (`SizeBound.protoSize_filter_le`).

  Second half of the property, "prepending a common prefix to every key changes the size by at
  most a few bytes":

  * `C17_prefix_same_shape` (SlimProofs.SizePrefix): the record array of `P ++ K` is that of `K`
    except for the root's step, which is `2·|P|` half-bytes longer.
  * `C17_prefix_size`: `size(K) ≤ size(P ++ K) ≤ size(K) + 26 + I/128`, `I` = number of inner
    nodes (the presence bitmap of `InnerPrefixes` has one rank-index entry per 128 inner nodes).

  The property as worded — `|size(P ++ K) − size(K)| ≤ c` for a constant `c` — is REFUTED
  (finding K1, confirmed byte for byte against the Go code): when the root has no step,
  prepending `P` gives it one; every later entry of the `"r128"` rank index of the presence
  bitmap grows by one, and every entry that was exactly 127 becomes a two-byte varint.  Witness
  `C17.witness d` below (254 keys that produce exactly 127 stepped inner nodes at BFS level 3,
  followed by a full binary tree of `2^d − 1` step-less inner nodes), `P = [0x41]`:
  d = 11: 2155 → 2174 bytes, d = 13: 7011 → 7079, d = 15: 27817 → 28076 (growth ≈ I/128).

      -- refuted:  theorem C17_prefix_invariant … : (size t' : Int) - size t ≤ c   (any constant c)
-/
open Wire Slim

/-- `len(Marshal())` -/
def marshalSize (t : Trie1) : Nat := (marshalSlim (Slim.encode t)).length

/-- number of inner nodes -/
def innerCount (t : Trie1) : Nat := (Slim.innerRecs t.nodes).length

open SizePrefix SizePrefixEnc BuildShape in
/-- C17 (prefix, size half, corrected): prepending a common prefix never shrinks the serialized
    index and grows it by at most 26 bytes plus one byte per 128 inner nodes.
    `hN` is Go's own limit (node ids are `int32`; any bound below `2^32` would do). -/
theorem C17_prefix_size (keys : List Bytes) (P : Bytes) (t t' : Trie1) (hne : keys ≠ [])
    (hb : build keys none {} = .ok t) (hb' : build (keys.map (P ++ ·)) none {} = .ok t')
    (hN : t.nodes.size < 2 ^ 31) :
    marshalSize t ≤ marshalSize t' ∧ marshalSize t' ≤ marshalSize t + 26 + innerCount t / 128 := by
  obtain ⟨hopt, hbc, hlk, helts, r, r', ns, hn, hn', hrel⟩ :=
    C17_prefix_same_shape keys P t t' hne hb hb'
  have hopt0 : t.opt.inner = false := by
    obtain ⟨_, _, st, _, rfl⟩ := build_ok_elim hb hne
    rfl
  unfold marshalSize innerCount
  cases r with
  | leaf i lp =>
    cases r' with
    | inner _ => exact absurd hrel (by simp [RootRel])
    | leaf i' lp' =>
      obtain ⟨rfl, rfl⟩ := hrel
      have hnodes : t'.nodes = t.nodes := by
        apply Array.toList_inj.mp; rw [hn, hn']
      have : t' = t := by
        cases t; cases t'; simp_all
      rw [this]; omega
  | inner a =>
    cases r' with
    | leaf _ _ => exact absurd hrel (by simp [RootRel])
    | inner a' =>
      obtain ⟨h1, h2, _, ws, hp, hp'⟩ := hrel
      have hI : (Refine.eInners t).length < 2 ^ 32 := by
        have : (Refine.eInners t).length ≤ t.nodes.size := by
          rw [Refine.eInners_eq]
          have := List.length_filterMap_le Refine.innerOf t.nodes.toList
          simpa using this
        omega
      exact marshal_size_prefix hn hn' h1 h2 hopt hbc helts hopt0 ws (2 * P.length) hp hp' hI

open BuildShape in
/-- C17 (bound): in filter mode the serialized index takes at most 8 bytes per key plus 256,
    whatever the length or content of the keys. -/
theorem C17_bound (keys : List Bytes) (t : Trie1) (hne : keys ≠ [])
    (hb : build keys none {} = .ok t) (hn : keys.length < 2 ^ 31) :
    marshalSize t ≤ 8 * keys.length + 256 := by
  have hs := build_shape keys none {} t hb hne
  have hlab := SizeLabels.build_labelsOK keys {} t hb hne
  have hbc := SizeLabels.build_bigCnt_le keys none {} t hb hne
  rw [SizeFields.eInners_eq_innersBefore] at hbc
  have hL := SizeLabels.build_leaves_eq keys {} t hb hne
  have hmem : ∀ r ∈ Refine.eInners t, Node.inner r ∈ t.nodes.toList := by
    intro r hr
    rw [Refine.eInners_eq, List.mem_filterMap] at hr
    obtain ⟨nd, hnd, h⟩ := hr
    cases nd with
    | inner r' => simp only [Refine.innerOf, Option.some.injEq] at h; subst h; exact hnd
    | leaf _ _ => simp [Refine.innerOf] at h
  have hopt : t.opt = {} ∧ t.elts = none := by
    obtain ⟨_, _, st, _, rfl⟩ := build_ok_elim hb hne
    exact ⟨rfl, rfl⟩
  have hne' : t.nodes.size ≠ 0 := by have := hs.nonempty; omega
  have := SizeBound.protoSize_filter_le hs (by rw [hopt.1]) (by rw [hopt.1]) hopt.2 hbc
    (fun r hr => (hlab _ (hmem r hr)).1) (fun r hr => (hlab _ (hmem r hr)).2)
    keys.length hL hn
  unfold marshalSize
  rw [Refine.encode_eq t hne']
  simp only [marshalSlim, Frame.frame_length, ← protoSizeSlim_eq]
  exact this

/-! ### the witness of finding K1 (executable test, not a proof) -/

namespace C17

def packNibs : List Nat → Bytes
  | a :: b :: rest => UInt8.ofNat (a * 16 + b) :: packNibs rest
  | _ => []

/-- binary strings of length `d` over the half-bytes {0, 1}, ascending -/
def binStrs : Nat → List (List Nat)
  | 0 => [[]]
  | d + 1 => (binStrs d).map (0 :: ·) ++ (binStrs d).map (1 :: ·)

/-- 254 keys `0 x y 0 a 0`: 127 inner nodes `0xy` at BFS level 3, each with a one-half-byte step -/
def partA : List (List Nat) :=
  (List.range 16).flatMap fun x => (List.range 8).flatMap fun y =>
    if x = 15 ∧ y = 7 then [] else [[0, x, y, 0, 0, 0], [0, x, y, 0, 1, 0]]

/-- `2^d` keys `1 b₁ … b_d`: a full binary tree of step-less inner nodes (`d` odd) -/
def partB (d : Nat) : List (List Nat) := (binStrs d).map (1 :: ·)

def witness (d : Nat) : List Bytes := (partA ++ partB d).map packNibs

def sizeOfKeys (keys : List Bytes) : Option Nat :=
  match build keys none {} with
  | .ok t => some (marshalSize t)
  | .error _ => none

-- test (evaluated, not proved): one prefix byte costs 19 bytes on 2302 keys; the growth is
-- proportional to the number of inner nodes (d = 13: +68, d = 15: +259)
#guard (witness 11).length == 2302
#guard sizeOfKeys (witness 11) == some 2155
#guard sizeOfKeys ((witness 11).map ([0x41] ++ ·)) == some 2174

end C17

/-! ### non-vacuity -/

example : ∃ t t', build [[0x61], [0x62, 0x63]] none {} = .ok t ∧
    build ([[0x61], [0x62, 0x63]].map ([0x50, 0x51] ++ ·)) none {} = .ok t' := by
  have h : ∀ keys : List Bytes, keys ≠ [] → strictAsc keys = true →
      (∀ k ∈ keys, 2 * k.length ≤ 0xffff) → ∃ t, build keys none {} = .ok t :=
    fun keys h1 h2 h3 => C08_accept keys none {} h1 h2 (by intro vs h; cases h) (Or.inr h3)
  obtain ⟨t, ht⟩ := h [[0x61], [0x62, 0x63]] (by simp) (by decide)
    (by intro k hk; simp at hk; rcases hk with rfl | rfl <;> decide)
  obtain ⟨t', ht'⟩ := h ([[0x61], [0x62, 0x63]].map ([0x50, 0x51] ++ ·)) (by simp) (by decide)
    (by intro k hk; simp at hk; rcases hk with rfl | rfl <;> decide)
  exact ⟨t, t', ht, ht'⟩

/-- the bound on a concrete input (3 keys: at most 280 bytes) -/
example : ∃ t, build [[0x61], [0x61, 0x62], [0x62, 0xe3]] none {} = .ok t ∧ marshalSize t ≤ 280 := by
  obtain ⟨t, ht⟩ := C08_accept [[0x61], [0x61, 0x62], [0x62, 0xe3]] none {} (by simp) (by decide)
    (by intro vs h; cases h)
    (Or.inr (by intro k hk; simp at hk; rcases hk with rfl | rfl | rfl <;> decide))
  exact ⟨t, ht, C17_bound _ t (by simp) ht (by decide)⟩

-- test (evaluated): the measured sizes are far below the bound
#guard C17.sizeOfKeys [[0x61], [0x61, 0x62], [0x62, 0xe3]] == some 96
#guard (C17.sizeOfKeys (C17.witness 11)).map (fun z => decide (z ≤ 8 * 2302 + 256)) == some true

#print axioms C17_bound
#print axioms C17_prefix_same_shape
#print axioms C17_prefix_size
