module slimverif/harness

go 1.21

require (
	github.com/blang/semver v3.5.1+incompatible
	github.com/golang/protobuf v1.3.1
	github.com/openacid/errors v0.8.1
	github.com/openacid/low v0.1.21
	github.com/openacid/slim v0.0.0
	github.com/openacid/testkeys v0.1.6
)

require (
	github.com/davecgh/go-spew v1.1.1 // indirect
	github.com/openacid/must v0.1.3 // indirect
	github.com/pmezard/go-difflib v1.0.0 // indirect
	github.com/stretchr/testify v1.8.1 // indirect
	gopkg.in/yaml.v3 v3.0.1 // indirect
)

replace github.com/openacid/slim => /repo
