import Generated.Facts
import SlimModel.Encode
/-
  SlimProps.Bridge.EncLookup — tie 1, fact group "enclookup" of lean/Generated/Facts.lean (regenerated from
  /repo's working tree by harness/cmd/extract on every run): the (kind, encoder type) pairs of the `switch` in
  `encode.EncoderByKind`, the error of its `default`, the refusal of `GetSliceEltEncoder` and the functions
  `EncoderOf` / `GetSliceEltEncoder` end in.  STRUCTURAL facts (a set of pairs, three names), not source text.
  The bridge says that the model's lookup functions ARE that table, for every kind.
-/
namespace Bridge
open Encode

/-- `reflect.Kind` constant names -/
def kindName : Kind → String
  | .invalid => "Invalid" | .bool => "Bool" | .int => "Int" | .int8 => "Int8" | .int16 => "Int16"
  | .int32 => "Int32" | .int64 => "Int64" | .uint => "Uint" | .uint8 => "Uint8" | .uint16 => "Uint16"
  | .uint32 => "Uint32" | .uint64 => "Uint64" | .float32 => "Float32" | .float64 => "Float64"
  | .string => "String" | .struct => "Struct" | .ptr => "Ptr" | .slice _ => "Slice"

/-- Go type names of the encoders -/
def encTypeName : Enc → String
  | .i8 => "I8" | .i16 => "I16" | .i32 => "I32" | .i64 => "I64" | .u16 => "U16" | .u32 => "U32" | .u64 => "U64"
  | .int => "Int" | .str16 => "String16" | .bytes _ => "Bytes" | .dummy => "Dummy" | .typ _ _ => "TypeEncoder"

def errName : LookupErr → String
  | .unknownEltType => "ErrUnknownEltType" | .notSlice => "ErrNotSlice"

/-- what the extracted table answers for a kind -/
def tableLookup (k : Kind) : Except String String :=
  match Generated.encoderByKindCases.lookup (kindName k) with
  | some t => .ok t
  | none => .error Generated.encoderByKindDefault

/-- the model's `encoderByKind` is the extracted `switch`, for every kind -/
theorem encoderByKind_table (k : Kind) :
    ((encoderByKind k).map encTypeName).mapError errName = tableLookup k := by
  cases k <;> rfl

theorem encoderOf_tail : Generated.encoderOfTailCall = "EncoderByKind" := rfl
theorem sliceElt_tail : Generated.sliceEltTailCall = "EncoderByKind" := rfl
theorem sliceElt_notSlice : Generated.sliceEltNotSlice = errName .notSlice := rfl

end Bridge
#print axioms Bridge.encoderByKind_table
#print axioms Bridge.encoderOf_tail
#print axioms Bridge.sliceElt_tail
#print axioms Bridge.sliceElt_notSlice
