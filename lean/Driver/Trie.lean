import SlimModel.Slim
/-
  Driver.Trie — family `trie`: the model side of harness/fam/trie/interp.go.

  The instance state mirrors `SlimTrie`: the `Slim` message (`inner`).  When the instance was built
  by `trie.new` the L1 record array is kept as well and every lookup is answered through both
  views; a difference between the layers is answered `LAYER-MISMATCH …` (the checked L1↔L2 tie).
-/
namespace Driver.Trie

structure State where
  t1 : Option Trie1 := none
  msg : SlimMsg := {}
  has : Bool := false          -- an instance exists

def init : State := {}

def parseFlag (c : Char) : Option Bool :=
  if c == 't' then some true else if c == 'f' then some false else none

def parseOpt (flags : String) : Opt :=
  match flags.toList with
  | [a, b, c, d] => Opt.normalize (parseFlag a) (parseFlag b) (parseFlag c) (parseFlag d)
  | _ => Opt.normalize none none none none

def errStr (e : Err) : String :=
  match e with
  | .panic _ => "panic"
  | .fuel => "MODEL-FUEL"
  | e => "err:" ++ e.kind

def valStr : Option Bytes → String
  | none => "nil"
  | some b => hexOf b

def getStr : Except Err (Option (Option Bytes)) → String
  | .error e => errStr e
  | .ok none => "nf"
  | .ok (some v) => "f " ++ valStr v

def idStr : Except Err (Option Nat) → String
  | .error e => errStr e
  | .ok none => "-1"
  | .ok (some n) => toString n

def flat : Option (Option Bytes) → Option Bytes
  | some (some b) => some b
  | _ => none

def searchStr : Except Err (Option (Option Bytes) × Option (Option Bytes) × Option (Option Bytes)) → String
  | .error e => errStr e
  | .ok (l, e, r) => valStr (flat l) ++ " " ++ valStr (flat e) ++ " " ++ valStr (flat r)

def intStr : Except Err (Option Int) → String
  | .error e => errStr e
  | .ok none => "nf 0"
  | .ok (some n) => "f " ++ toString n

/-- answer through L2, cross-checked against L1 when available -/
def both (st : State) (f : View → String) : String :=
  let a2 := f (Slim.view st.msg)
  match st.t1 with
  | none => a2
  | some t =>
    let a1 := f t.view
    if a1 == a2 then a2 else "LAYER-MISMATCH l1=[" ++ a1 ++ "] l2=[" ++ a2 ++ "]"

def parseKVs (withVals : Bool) : List String → Option (List Bytes × List Bytes)
  | [] => some ([], [])
  | k :: rest =>
    if withVals then
      match rest with
      | v :: rest' => do
        let kb ← parseHex k
        let vb ← parseHex v
        let (ks, vs) ← parseKVs withVals rest'
        pure (kb :: ks, vb :: vs)
      | [] => none
    else do
      let kb ← parseHex k
      let (ks, vs) ← parseKVs withVals rest
      pure (kb :: ks, vs)

def step (st : State) (toks : List String) : State × String :=
  match toks with
  | "trie.new" :: flags :: enc :: rest =>
    let withVals := enc != "none"
    match parseKVs withVals rest with
    | none => (st, "bad-op")
    | some (keys, vals) =>
      match build keys (if withVals then some vals else none) (if flags == "-" then {} else parseOpt flags) with
      | .error e => ({ st with has := false, t1 := none, msg := {} }, errStr e)
      | .ok t => ({ st with has := true, t1 := some t, msg := Slim.encode t }, "ok")
  | ["trie.get", q] =>
    match parseHex q with
    | some q => (st, both st (fun v => getStr (get v q)))
    | none => (st, "bad-op")
  | ["trie.id", q] =>
    match parseHex q with
    | some q => (st, both st (fun v => idStr (getID v q)))
    | none => (st, "bad-op")
  | ["trie.rget", q] =>
    match parseHex q with
    | some q => (st, both st (fun v => getStr (rangeGet v q)))
    | none => (st, "bad-op")
  | ["trie.search", q] =>
    match parseHex q with
    | some q => (st, both st (fun v => searchStr (search v q)))
    | none => (st, "bad-op")
  | ["trie.reload"] =>
    -- TEMPORARY until SlimModel.Marshal lands: the loaded instance only has the message
    (if st.has then ({ st with t1 := none }, "ok") else (st, "panic"))
  | ["trie.geti8", q] => gi st 1 q
  | ["trie.geti16", q] => gi st 2 q
  | ["trie.geti32", q] => gi st 4 q
  | ["trie.geti64", q] => gi st 8 q
  | _ => (st, "bad-op")
where
  gi (st : State) (w : Nat) (q : String) : State × String :=
    match parseHex q with
    | some q => (st, intStr (Slim.getInt st.msg w q))
    | none => (st, "bad-op")

end Driver.Trie
