import SlimProofs.SizePrefix
import SlimProofs.SizeVarint
import SlimProofs.Refine
import SlimProofs.WireSlim
import SlimProofs.WireFrame
import SlimModel.Marshal
/-
  SlimProofs.SizePrefixEnc — C17, size half of the prefix statement: two record arrays that
  differ only in the root's step encode to messages that differ only in `InnerPrefixes`, and
  the serialized sizes differ by at most `24 + R`, `R` = number of entries of the rank index of
  the prefix presence bitmap (one entry per 128 inner nodes).

  The dependence on `R` is real (finding K1): when the root gets its first step every later rank
  entry grows by one, and every entry that was 127 (16383, …) needs one more varint byte.
-/

namespace SizePrefixEnc

open Bits Slim Refine Wire SizeV

/-! ### bitmaps: one more index at position 0 -/

theorem add_one_of_bits {w w' : Nat} (h0 : w.testBit 0 = false) (h0' : w'.testBit 0 = true)
    (h : ∀ j, w'.testBit (j + 1) = w.testBit (j + 1)) : w' = w + 1 := by
  have e0 : w % 2 = 0 := by
    rw [Nat.testBit_zero] at h0; simpa using h0
  have e0' : w' % 2 = 1 := by
    rw [Nat.testBit_zero] at h0'; simpa using h0'
  have hh : w' / 2 = w / 2 := by
    apply Nat.eq_of_testBit_eq
    intro j
    have := h j
    rw [Nat.testBit_succ, Nat.testBit_succ] at this
    exact this
  omega

theorem ofIdx_length_capa (idx : List Nat) (capa : Nat) (hlt : ∀ i ∈ idx, i < capa) :
    (ofIdx idx capa).length = (capa + 63) / 64 := by
  rw [ofIdx_length', Nat.max_eq_left (lastSucc_le_of_lt hlt)]

/-- adding index 0 adds one to the first word and changes no other -/
theorem ofIdx_cons_zero (idx : List Nat) (capa : Nat) (h0 : 0 ∉ idx) (hlt : ∀ i ∈ idx, i < capa)
    (hc : 0 < capa) :
    ∃ w ws, ofIdx idx capa = w :: ws ∧ ofIdx (0 :: idx) capa = (w + 1) :: ws := by
  have hlt' : ∀ i ∈ 0 :: idx, i < capa := by
    intro i hi; simp only [List.mem_cons] at hi
    rcases hi with rfl | hi
    · exact hc
    · exact hlt i hi
  have hlen := ofIdx_length_capa idx capa hlt
  have hlen' := ofIdx_length_capa (0 :: idx) capa hlt'
  have hbit : ∀ i, i < 64 * ((capa + 63) / 64) →
      getBit (ofIdx (0 :: idx) capa) i = (decide (i = 0) || getBit (ofIdx idx capa) i) := by
    intro i hi
    rw [getBit_ofIdx _ _ _ (by rw [hlen']; exact hi), getBit_ofIdx _ _ _ (by rw [hlen]; exact hi)]
    by_cases h : i = 0 <;> simp [h]
  cases hL : ofIdx idx capa with
  | nil => rw [hL] at hlen; simp at hlen; omega
  | cons w ws =>
    cases hL' : ofIdx (0 :: idx) capa with
    | nil => rw [hL'] at hlen'; simp at hlen'; omega
    | cons w' ws' =>
      refine ⟨w, ws, rfl, ?_⟩
      have hw : w < 2 ^ 64 := ofIdx_lt idx capa w (by rw [hL]; simp)
      have hw' : w' < 2 ^ 64 := ofIdx_lt (0 :: idx) capa w' (by rw [hL']; simp)
      rw [hL, List.length_cons] at hlen
      rw [hL', List.length_cons] at hlen'
      -- bits of the first words
      have hb0 : ∀ j, j < 64 → w'.testBit j = (decide (j = 0) || w.testBit j) := by
        intro j hj
        have := hbit j (by omega)
        rw [hL, hL', getBit_cons, getBit_cons, if_pos hj, if_pos hj] at this
        exact this
      have hw0 : w.testBit 0 = false := by
        have := getBit_ofIdx idx capa 0 (by rw [hL, List.length_cons]; omega)
        rw [hL, getBit_cons, if_pos (by omega)] at this
        rw [this]; simp [h0]
      congr 1
      · apply add_one_of_bits hw0
        · rw [hb0 0 (by omega)]; simp
        · intro j
          rcases Nat.lt_or_ge (j + 1) 64 with hj | hj
          · rw [hb0 (j + 1) hj]; simp
          · rw [Nat.testBit_lt_two_pow (Nat.lt_of_lt_of_le hw (Nat.pow_le_pow_right (by omega) hj)),
              Nat.testBit_lt_two_pow (Nat.lt_of_lt_of_le hw' (Nat.pow_le_pow_right (by omega) hj))]
      · apply List.ext_getElem?
        intro k
        have hl : ws'.length = ws.length := by omega
        rcases Nat.lt_or_ge k ws.length with hk | hk
        · rw [List.getElem?_eq_getElem hk, List.getElem?_eq_getElem (by omega)]
          congr 1
          have hx : ws[k] < 2 ^ 64 := ofIdx_lt idx capa _ (by rw [hL]; simp [List.getElem_mem])
          have hx' : ws'[k]'(by omega) < 2 ^ 64 :=
            ofIdx_lt (0 :: idx) capa _ (by rw [hL']; simp [List.getElem_mem])
          apply Nat.eq_of_testBit_eq
          intro j
          rcases Nat.lt_or_ge j 64 with hj | hj
          · have := hbit (64 * (k + 1) + j) (by omega)
            rw [hL, hL', getBit_mul_add _ _ _ hj, getBit_mul_add _ _ _ hj] at this
            simp only [List.getD_eq_getElem?_getD, List.getElem?_cons_succ,
              List.getElem?_eq_getElem hk, List.getElem?_eq_getElem (show k < ws'.length by omega),
              Option.getD_some] at this
            rw [this]
            simp
          · rw [Nat.testBit_lt_two_pow (Nat.lt_of_lt_of_le hx' (Nat.pow_le_pow_right (by omega) hj)),
              Nat.testBit_lt_two_pow (Nat.lt_of_lt_of_le hx (Nat.pow_le_pow_right (by omega) hj))]
        · rw [List.getElem?_eq_none hk, List.getElem?_eq_none (by omega)]

/-- build `Near` from the entries -/
theorem near_of_getElem? (l l' : List Nat) (hlen : l.length = l'.length)
    (h : ∀ (k : Nat) (x x' : Nat), l[k]? = some x → l'[k]? = some x' → x ≤ x' ∧ x' ≤ x + 1) :
    Near l l' := by
  induction l generalizing l' with
  | nil => cases l' with
    | nil => trivial
    | cons _ _ => simp at hlen
  | cons x l ih => cases l' with
    | nil => simp at hlen
    | cons x' l' =>
      have h0 := h 0 x x' rfl rfl
      refine ⟨h0.1, h0.2, ih l' (by simpa using hlen) ?_⟩
      intro k y y' hy hy'
      exact h (k + 1) y y' (by simpa using hy) (by simpa using hy')

/-- the `"r128"` rank index after adding index 0: every entry grows by at most one -/
theorem indexRank128_near (L L' : List Nat) (hlen : L'.length = L.length)
    (hcnt : ∀ n, cnt (getBit L) n ≤ cnt (getBit L') n ∧ cnt (getBit L') n ≤ cnt (getBit L) n + 1) :
    Near (indexRank128 L) (indexRank128 L') := by
  apply near_of_getElem?
  · rw [indexRank128_length, indexRank128_length, hlen]
  · intro k x x' hx hx'
    rw [indexRank128_getElem?] at hx hx'
    split at hx
    · split at hx'
      · cases hx; cases hx'; exact hcnt _
      · cases hx'
    · cases hx

/-- the presence bitmap with and without index 0 -/
theorem protoSizeBitmap_cons_zero (idx : List Nat) (capa : Nat) (h0 : 0 ∉ idx)
    (hlt : ∀ i ∈ idx, i < capa) (hc : 0 < capa) :
    let R := (indexRank128 (ofIdx idx capa)).length
    protoSizeBitmap (newBM idx capa "r128") ≤ protoSizeBitmap (newBM (0 :: idx) capa "r128") ∧
    protoSizeBitmap (newBM (0 :: idx) capa "r128")
      ≤ protoSizeBitmap (newBM idx capa "r128") + 2 + R + sizeVarint R := by
  intro R
  obtain ⟨w, ws, hL, hL'⟩ := ofIdx_cons_zero idx capa h0 hlt hc
  have hlen : (ofIdx (0 :: idx) capa).length = (ofIdx idx capa).length := by rw [hL, hL']; rfl
  -- counting
  have hcnt : ∀ n, cnt (getBit (ofIdx idx capa)) n ≤ cnt (getBit (ofIdx (0 :: idx) capa)) n ∧
      cnt (getBit (ofIdx (0 :: idx) capa)) n ≤ cnt (getBit (ofIdx idx capa)) n + 1 := by
    intro n
    cases n with
    | zero => simp
    | succ n =>
      rw [Nat.add_comm n 1, cnt_add, cnt_add]
      have e : cnt (fun j => getBit (ofIdx (0 :: idx) capa) (1 + j)) n
          = cnt (fun j => getBit (ofIdx idx capa) (1 + j)) n := by
        apply cnt_congr
        intro j _
        rcases Nat.lt_or_ge (1 + j) (64 * (ofIdx idx capa).length) with hj | hj
        · rw [getBit_ofIdx _ _ _ (by rw [hlen]; exact hj), getBit_ofIdx _ _ _ hj]
          simp
        · rw [getBit_of_ge (by rw [hlen]; exact hj), getBit_of_ge hj]
      rw [e]
      have := cnt_le (getBit (ofIdx (0 :: idx) capa)) 1
      have h1 : cnt (getBit (ofIdx idx capa)) 1 = 0 := by
        rw [show (1 : Nat) = 0 + 1 from rfl, cnt_succ, cnt_zero]
        have := getBit_ofIdx idx capa 0 (by rw [hL, List.length_cons]; omega)
        rw [this]; simp [h0]
      omega
  have hnear := indexRank128_near _ _ hlen hcnt
  have hrk := hnear.packedSize
  have hRlen : (indexRank128 (ofIdx idx capa)).length = R := rfl
  rw [hRlen] at hrk
  have hwd : packedSize (ofIdx idx capa) ≤ packedSize (ofIdx (0 :: idx) capa) ∧
      packedSize (ofIdx (0 :: idx) capa) ≤ packedSize (ofIdx idx capa) + 1 := by
    rw [hL, hL', packedSize_cons, packedSize_cons]
    have : sizeVarint w ≤ sizeVarint (w + 1) := sizeVarint_mono (Nat.le_succ w)
    have := sizeVarint_succ_le w
    omega
  have g1 := sizePackedF_grow 20 (l := ofIdx idx capa) (l' := ofIdx (0 :: idx) capa)
    (by rw [hL, hL']; simp) 1 hwd.1 hwd.2
  have g2 := sizePackedF_grow 30 hnear.eq_nil_iff R hrk.1 hrk.2
  have s1 : sizeVarint 1 = 1 := sizeVarint_lt (by omega)
  simp only [newBM, mk_r128, protoSizeBitmap]
  omega

/-! ### the components of `encodeCreator` that do not see the prefixes -/

section Components

variable {t t' : Trie1} {a a' : InnerRec} {ns : List Node}

theorem eInners_cons (hn : t.nodes.toList = .inner a :: ns) :
    eInners t = a :: ns.filterMap innerOf := by
  rw [eInners_eq, hn]; rfl

theorem eCnts_eq (hn : t.nodes.toList = .inner a :: ns) (hn' : t'.nodes.toList = .inner a' :: ns)
    (hb : a'.big = a.big) (hl : a'.labels = a.labels) : eCnts t' = eCnts t := by
  unfold eCnts
  rw [eInners_cons hn, eInners_cons hn']
  simp only [List.foldl_cons, hb, hl]

theorem eSorted_eq (hn : t.nodes.toList = .inner a :: ns) (hn' : t'.nodes.toList = .inner a' :: ns)
    (hb : a'.big = a.big) (hl : a'.labels = a.labels) : eSorted t' = eSorted t := by
  unfold eSorted; rw [eCnts_eq hn hn' hb hl]

theorem eShortSize_eq (hn : t.nodes.toList = .inner a :: ns) (hn' : t'.nodes.toList = .inner a' :: ns)
    (hb : a'.big = a.big) (hl : a'.labels = a.labels) : eShortSize t' = eShortSize t := by
  unfold eShortSize; rw [eSorted_eq hn hn' hb hl]

theorem eTbl_eq (hn : t.nodes.toList = .inner a :: ns) (hn' : t'.nodes.toList = .inner a' :: ns)
    (hb : a'.big = a.big) (hl : a'.labels = a.labels) : eTbl t' = eTbl t := by
  unfold eTbl; rw [eSorted_eq hn hn' hb hl, eShortSize_eq hn hn' hb hl]

theorem eMostUsed_eq (hn : t.nodes.toList = .inner a :: ns) (hn' : t'.nodes.toList = .inner a' :: ns)
    (hb : a'.big = a.big) (hl : a'.labels = a.labels) : eMostUsed t' = eMostUsed t := by
  unfold eMostUsed; rw [eSorted_eq hn hn' hb hl, eShortSize_eq hn hn' hb hl]

theorem eSub_eq (hn : t.nodes.toList = .inner a :: ns) (hn' : t'.nodes.toList = .inner a' :: ns)
    (hb : a'.big = a.big) (hl : a'.labels = a.labels) : eSub t' = eSub t := by
  unfold eSub
  rw [eInners_cons hn, eInners_cons hn', eMostUsed_eq hn hn' hb hl, eShortSize_eq hn hn' hb hl]
  simp only [List.map_cons]
  congr 1
  unfold subOf
  rw [hb, hl]

theorem eInners_length_eq (hn : t.nodes.toList = .inner a :: ns)
    (hn' : t'.nodes.toList = .inner a' :: ns) : (eInners t').length = (eInners t).length := by
  rw [eInners_cons hn, eInners_cons hn']; rfl

theorem eShortIndex_eq (hn : t.nodes.toList = .inner a :: ns) (hn' : t'.nodes.toList = .inner a' :: ns)
    (hb : a'.big = a.big) (hl : a'.labels = a.labels) : eShortIndex t' = eShortIndex t := by
  unfold eShortIndex
  rw [eInners_length_eq hn hn', eSub_eq hn hn' hb hl]

theorem nodes_size_eq (hn : t.nodes.toList = .inner a :: ns)
    (hn' : t'.nodes.toList = .inner a' :: ns) : t'.nodes.size = t.nodes.size := by
  have e1 := congrArg List.length hn
  have e2 := congrArg List.length hn'
  simp only [Array.length_toList, List.length_cons] at e1 e2
  omega

theorem eInnerIdx_eq (hn : t.nodes.toList = .inner a :: ns)
    (hn' : t'.nodes.toList = .inner a' :: ns) : eInnerIdx t' = eInnerIdx t := by
  unfold eInnerIdx
  rw [nodes_size_eq hn hn']
  apply List.filter_congr
  intro i _
  rw [← Array.getElem?_toList, ← Array.getElem?_toList, hn, hn']
  cases i with
  | zero => rfl
  | succ i => rfl

theorem eInnersBM_eq (hn : t.nodes.toList = .inner a :: ns) (hn' : t'.nodes.toList = .inner a' :: ns)
    (hb : a'.big = a.big) (hl : a'.labels = a.labels) : eInnersBM t' = eInnersBM t := by
  unfold eInnersBM; rw [eSub_eq hn hn' hb hl]

theorem enc_leaves (t : Trie1) :
    (encodeCreator t).leaves = match t.elts with | some es => newVLenArray es | none => none := rfl

theorem enc_unrecognized (t : Trie1) : (encodeCreator t).unrecognized = [] := rfl

/-- the two messages have the same size except for `InnerPrefixes` -/
theorem protoSizeSlim_diff (hn : t.nodes.toList = .inner a :: ns)
    (hn' : t'.nodes.toList = .inner a' :: ns) (hb : a'.big = a.big) (hl : a'.labels = a.labels)
    (hopt : t'.opt = t.opt) (hbc : t'.bigCnt = t.bigCnt) (helts : t'.elts = t.elts) :
    protoSizeSlim (encodeCreator t') + sizeMsgF 38 (some (protoSizeVLenArray (eIps t)))
      = protoSizeSlim (encodeCreator t) + sizeMsgF 38 (some (protoSizeVLenArray (eIps t'))) := by
  unfold protoSizeSlim
  simp only [enc_bigInnerCnt, enc_shortSize, enc_nodeTypeBM, enc_inners, enc_shortBM, enc_shortTable,
    enc_innerPrefixes, enc_leafPrefixes, enc_leaves, enc_unrecognized, Option.map_some]
  have e1 : eLps t' = eLps t := by
    unfold eLps eLeafIdx eLeafPs eLeafLps
    rw [hopt, hn, hn']; rfl
  rw [hbc, eShortSize_eq hn hn' hb hl, nodes_size_eq hn hn', eInnerIdx_eq hn hn',
    eInnersBM_eq hn hn' hb hl, eShortIndex_eq hn hn' hb hl, eInners_length_eq hn hn',
    eTbl_eq hn hn' hb hl, e1, helts]
  omega

end Components

/-! ### `InnerPrefixes` in filter mode -/

theorem eIps_filter (t : Trie1) (h : t.opt.inner = false) :
    eIps t = { eltCnt := (ePrefIdx t).length
               presenceBM := some (newBM (ePrefIdx t) (eInners t).length "r128")
               fixedSize := 2
               bytes := ((eInners t).filterMap stepOf).flatten } := by
  unfold eIps; simp [h]

theorem protoSizeVLenArray_filter (t : Trie1) (h : t.opt.inner = false) :
    protoSizeVLenArray (eIps t)
      = sizeVarintF 11 (ePrefIdx t).length + sizeVarintF 23 2
        + sizeBytesF 30 ((eInners t).filterMap stepOf).flatten
        + sizeMsgF 61 (some (protoSizeBitmap (newBM (ePrefIdx t) (eInners t).length "r128"))) := by
  rw [eIps_filter t h]
  simp only [protoSizeVLenArray, Option.map_none, Option.map_some, sizeMsgF, sizeVarintF, if_true]
  omega

/-- the prefixed inner nodes other than the root -/
def tailIdx (rest : List InnerRec) : List Nat :=
  ((List.range rest.length).map (· + 1)).filter (fun i => hasPref (rest.getD (i - 1) default))

theorem tailIdx_spec (rest : List InnerRec) :
    0 ∉ tailIdx rest ∧ ∀ i ∈ tailIdx rest, i < rest.length + 1 := by
  unfold tailIdx
  constructor
  · intro h
    rw [List.mem_filter, List.mem_map] at h
    obtain ⟨⟨j, _, hj⟩, _⟩ := h
    omega
  · intro i hi
    rw [List.mem_filter, List.mem_map] at hi
    obtain ⟨⟨j, hj, rfl⟩, _⟩ := hi
    rw [List.mem_range] at hj
    omega

theorem filter_range_succ (n : Nat) (q : Nat → Bool) :
    (List.range (n + 1)).filter q
      = (if q 0 then [0] else []) ++ ((List.range n).map (· + 1)).filter q := by
  rw [List.range_succ_eq_map, List.filter_cons]
  split <;> rfl

theorem ePrefIdx_cons {t : Trie1} {a : InnerRec} {ns : List Node}
    (hn : t.nodes.toList = .inner a :: ns) :
    ePrefIdx t = (if hasPref a then [0] else []) ++ tailIdx (ns.filterMap innerOf) := by
  unfold ePrefIdx tailIdx
  rw [eInners_cons hn, List.length_cons, filter_range_succ]
  congr 1
  apply List.filter_congr
  intro i hi
  rw [List.mem_map] at hi
  obtain ⟨j, _, rfl⟩ := hi
  simp only [List.getD_cons_succ, Nat.add_sub_cancel]
  rfl

theorem stepOf_stepPref (r : InnerRec) (ws : Nat) (h : r.pref = SizePrefix.stepPref ws) :
    stepOf r = if ws = 0 then none else some (encStep ws) := by
  unfold stepOf SizePrefix.stepPref at *
  split at h
  · next h0 => rw [h, if_pos h0]
  · next h0 => rw [h, if_neg h0]

theorem hasPref_stepPref (r : InnerRec) (ws : Nat) (h : r.pref = SizePrefix.stepPref ws) :
    hasPref r = decide (ws ≠ 0) := by
  unfold hasPref SizePrefix.stepPref at *
  split at h
  · next h0 => rw [h]; simp [h0]
  · next h0 => rw [h]; simp [h0]

/-- `InnerPrefixes` of two tries whose inner records differ only in the root's step -/
theorem vlen_size_prefix {t t' : Trie1} {a a' : InnerRec} {ns : List Node}
    (hn : t.nodes.toList = .inner a :: ns) (hn' : t'.nodes.toList = .inner a' :: ns)
    (hopt : t.opt.inner = false) (hopt' : t'.opt.inner = false) (ws d : Nat)
    (hp : a.pref = SizePrefix.stepPref ws) (hp' : a'.pref = SizePrefix.stepPref (ws + d))
    (R : Nat) (hR : R = (indexRank128 (ofIdx (ePrefIdx t) (eInners t).length)).length)
    (hRlt : R + 64 < 2 ^ 35) :
    protoSizeVLenArray (eIps t) ≤ protoSizeVLenArray (eIps t') ∧
      protoSizeVLenArray (eIps t') ≤ protoSizeVLenArray (eIps t) + 19 + R := by
  rw [protoSizeVLenArray_filter t hopt, protoSizeVLenArray_filter t' hopt']
  have hI := eInners_length_eq hn hn'
  have hidx := ePrefIdx_cons hn
  have hidx' := ePrefIdx_cons hn'
  have hst := stepOf_stepPref a ws hp
  have hst' := stepOf_stepPref a' (ws + d) hp'
  have hhp := hasPref_stepPref a ws hp
  have hhp' := hasPref_stepPref a' (ws + d) hp'
  have hin := eInners_cons hn
  have hin' := eInners_cons hn'
  by_cases hsame : (ws = 0 ↔ ws + d = 0)
  · -- the root keeps (or keeps lacking) its step: same sizes
    have e1 : ePrefIdx t' = ePrefIdx t := by
      rw [hidx, hidx', hhp, hhp']
      by_cases h0 : ws = 0
      · have hd0 : d = 0 := by have := hsame.mp h0; omega
        subst h0; subst hd0; rfl
      · simp [h0]
    have e2 : ((eInners t').filterMap stepOf).flatten.length
        = ((eInners t).filterMap stepOf).flatten.length := by
      rw [hin, hin', List.filterMap_cons, List.filterMap_cons, hst, hst']
      by_cases h0 : ws = 0
      · have hd0 : d = 0 := by have := hsame.mp h0; omega
        subst h0; subst hd0; rfl
      · simp [h0, encStep]
    rw [e1, hI, sizeBytesF_congr 30 _ _ e2]
    omega
  · -- the root gets its first step
    have h0 : ws = 0 := by
      rcases Nat.eq_zero_or_pos ws with h | h
      · exact h
      · exfalso; apply hsame; constructor <;> intro h' <;> omega
    have hd : ¬ ws + d = 0 := by
      intro h; apply hsame; constructor <;> intro _ <;> assumption
    subst h0
    have hd' : ¬ d = 0 := by omega
    simp only [Nat.zero_add] at hhp' hst'
    have e1 : ePrefIdx t = tailIdx (ns.filterMap innerOf) := by
      rw [hidx, hhp]; simp
    have e1' : ePrefIdx t' = 0 :: tailIdx (ns.filterMap innerOf) := by
      rw [hidx', hhp']; simp [hd']
    have e2 : ((eInners t').filterMap stepOf).flatten.length
        = ((eInners t).filterMap stepOf).flatten.length + 2 := by
      rw [hin, hin', List.filterMap_cons, List.filterMap_cons, hst, hst']
      simp [hd', encStep]
    obtain ⟨s0, slt⟩ := tailIdx_spec (ns.filterMap innerOf)
    have hlenI : (eInners t).length = (ns.filterMap innerOf).length + 1 := by rw [hin]; rfl
    have hbm := protoSizeBitmap_cons_zero (tailIdx (ns.filterMap innerOf)) (eInners t).length s0
      (by rw [hlenI]; exact slt) (by rw [hlenI]; omega)
    simp only at hbm
    rw [← e1, ← hR] at hbm
    rw [← e1] at e1'
    rw [e1', hI, List.length_cons]
    have g1 := sizeVarintF_succ 11 (ePrefIdx t).length (by omega)
    have g2 := sizeBytesF_add_two 30 _ _ e2 (by omega)
    have svR : sizeVarint R ≤ 5 := sizeVarint_le5 (by omega)
    have g3 := sizeMsgF_grow 61 _ _ (2 + R + sizeVarint R) hbm.1 (by omega)
    have svk : sizeVarint (2 + R + sizeVarint R) ≤ 5 := sizeVarint_le5 (by omega)
    omega

/-- the whole serialized message -/
theorem marshal_size_prefix {t t' : Trie1} {a a' : InnerRec} {ns : List Node}
    (hn : t.nodes.toList = .inner a :: ns) (hn' : t'.nodes.toList = .inner a' :: ns)
    (hb : a'.big = a.big) (hl : a'.labels = a.labels)
    (hopt' : t'.opt = t.opt) (hbc : t'.bigCnt = t.bigCnt) (helts : t'.elts = t.elts)
    (hopt : t.opt.inner = false) (ws d : Nat)
    (hp : a.pref = SizePrefix.stepPref ws) (hp' : a'.pref = SizePrefix.stepPref (ws + d))
    (hI : (eInners t).length < 2 ^ 32) :
    (marshalSlim (encode t)).length ≤ (marshalSlim (encode t')).length ∧
      (marshalSlim (encode t')).length
        ≤ (marshalSlim (encode t)).length + 26 + (eInners t).length / 128 := by
  have hne : t.nodes.size ≠ 0 := by
    have := congrArg List.length hn; simp at this; omega
  have hne' : t'.nodes.size ≠ 0 := by
    have := congrArg List.length hn'; simp at this; omega
  rw [encode_eq t hne, encode_eq t' hne']
  simp only [marshalSlim, Frame.frame_length, ← protoSizeSlim_eq]
  have hdiff := protoSizeSlim_diff hn hn' hb hl hopt' hbc helts
  -- the rank index of the presence bitmap
  have hlt : ∀ i ∈ ePrefIdx t, i < (eInners t).length := by
    intro i hi
    unfold ePrefIdx at hi
    rw [List.mem_filter, List.mem_range] at hi
    exact hi.1
  have hRlen : (indexRank128 (ofIdx (ePrefIdx t) (eInners t).length)).length
      = ((eInners t).length + 63) / 64 / 2 + 1 := by
    rw [indexRank128_length, ofIdx_length_capa _ _ hlt]
  have hv := vlen_size_prefix hn hn' hopt (by rw [hopt']; exact hopt) ws d hp hp' _ rfl
    (by rw [hRlen]; omega)
  rw [hRlen] at hv
  have g := sizeMsgF_grow 38 _ _ (19 + (((eInners t).length + 63) / 64 / 2 + 1)) hv.1 (by omega)
  have svk : sizeVarint (19 + (((eInners t).length + 63) / 64 / 2 + 1)) ≤ 5 :=
    sizeVarint_le5 (by omega)
  omega

end SizePrefixEnc
