// Package idx is the harness family "idx": package index (SlimIndex) with a
// key-verifying DataReader (property C12).
package idx

import (
	"encoding/hex"
	"fmt"
	"sort"
	"strconv"
	"strings"

	"github.com/openacid/slim/index"

	ft "slimverif/harness/fam/trie"
	"slimverif/harness/gen"
	"slimverif/harness/lp"
)

type rec struct {
	key, val string
	off      int64
}

// reader verifies the record key: it returns the record stored at offset
// whose key equals the requested one.
type reader struct{ blocks map[int64]map[string]string }

func (r *reader) Read(offset int64, key string) (string, bool) {
	b, ok := r.blocks[offset]
	if !ok {
		return "", false
	}
	v, ok := b[key]
	return v, ok
}

var cur *index.SlimIndex

func unhex(t string) string {
	b, err := hex.DecodeString(t[1:])
	if err != nil {
		panic(err)
	}
	return string(b)
}

func interp(toks []string) string {
	switch toks[0] {
	case "idx.new":
		rd := &reader{blocks: map[int64]map[string]string{}}
		var items []index.OffsetIndexItem
		for i := 1; i+2 < len(toks); i += 3 {
			k := unhex(toks[i])
			off, _ := strconv.ParseInt(toks[i+1], 10, 64)
			v := unhex(toks[i+2])
			items = append(items, index.OffsetIndexItem{Key: k, Offset: off})
			if rd.blocks[off] == nil {
				rd.blocks[off] = map[string]string{}
			}
			rd.blocks[off][k] = v
		}
		si, err := index.NewSlimIndex(items, rd)
		if err != nil {
			cur = nil
			return "err"
		}
		cur = si
		return "ok"
	case "idx.get":
		v, ok := cur.Get(unhex(toks[1]))
		if !ok {
			return "nf"
		}
		return "f " + lp.XS(v)
	case "idx.rget":
		v, ok := cur.RangeGet(unhex(toks[1]))
		if !ok {
			return "nf"
		}
		return "f " + lp.XS(v)
	}
	return "bad-op"
}

// genC12: exact map with one offset per key (Get) and with block offsets (RangeGet).
func genC12(c *lp.Ctx) {
	n := c.Pick(300, 1000)
	size := c.Pick(250, 1500)
	for it := 0; it < n; it++ {
		ks := gen.Any(c.Rng, size)
		block := it%2 == 1
		recs := make([]rec, len(ks.Keys))
		off := int64(c.Rng.Intn(1000)) - 500
		if c.Rng.Intn(4) == 0 {
			off = -(1 << 62) + int64(c.Rng.Intn(1000))
		}
		bs := 1 + c.Rng.Intn(64)
		left := 0
		if it%8 >= 6 && len(ks.Keys) > 0 {
			// magnitudes of the offsets themselves: every offset 0 (one record, or one block, at the start of the
			// file), offsets around 2^31 / 2^32, the largest int64
			switch c.Rng.Intn(4) {
			case 0:
				off = 0
				if block {
					left = len(ks.Keys) + 1 // one block holding every key, at offset 0
				} else {
					ks.Keys = ks.Keys[:1]
					recs = recs[:1]
					left = 2
				}
				c.Hit("offsets:all-zero")
			case 1:
				off = 1<<31 - 3
				c.Hit("offsets:around-2^31")
			case 2:
				off = 1<<32 - 3
				c.Hit("offsets:around-2^32")
			default:
				off = 1<<63 - 1 - int64(len(ks.Keys))*3
				bs = 1
				c.Hit("offsets:near-max-int64")
			}
		}
		zeroStart := left > 0
		for i, k := range ks.Keys {
			if zeroStart {
				left--
				recs[i] = rec{key: k, off: off, val: fmt.Sprintf("v%d", i)}
				continue
			}
			if !block || left == 0 {
				if off > 1<<62 {
					off += 1 + int64(c.Rng.Intn(2))
				} else {
					off += 1 + int64(c.Rng.Intn(1<<uint(c.Rng.Intn(40))))
				}
				left = 1 + c.Rng.Intn(bs)
			}
			left--
			recs[i] = rec{key: k, off: off, val: fmt.Sprintf("v%d", i)}
		}
		var sb strings.Builder
		sb.WriteString("idx.new")
		for _, r := range recs {
			fmt.Fprintf(&sb, " %s %d %s", lp.XS(r.key), r.off, lp.XS(r.val))
		}
		line := sb.String()
		c.Case(fmt.Sprintf("%v|%d|%s", block, len(recs), line[:min(len(line), 200)]), len(recs) >= 2)
		c.Hit("class:" + ks.Class)
		c.Hit(fmt.Sprintf("block=%v", block))
		if got := c.Do(line); got != "ok" {
			c.Violate(lp.Violation{What: "NewSlimIndex on sorted records", Script: []string{line}, Expected: "ok", Got: got})
			continue
		}
		c.Sample(line)
		op := "idx.get"
		if block {
			op = "idx.rget"
		}
		// one instance, one long history: present and absent strings interleaved at random, then every
		// indexed key once more (an index that remembers earlier lookups shows only in such a history)
		qs := append(gen.Queries(c.Rng, ks.Keys, c.Pick(60, 250)), gen.HostileQueries(c.Rng, ks.Keys)...)
		c.Rng.Shuffle(len(qs), func(i, j int) { qs[i], qs[j] = qs[j], qs[i] })
		for i, k := range ks.Keys {
			if len(ks.Keys) <= 300 || i%(len(ks.Keys)/300+1) == 0 {
				qs = append(qs, k)
			}
		}
		for _, q := range qs {
			want := "nf"
			i := sort.SearchStrings(ks.Keys, q)
			if i < len(ks.Keys) && ks.Keys[i] == q {
				want = "f " + lp.XS(recs[i].val)
			}
			l := op + " " + lp.XS(q)
			if got := c.Do(l); got != want {
				c.Violate(lp.Violation{What: "SlimIndex with a key-verifying reader is an exact map", Script: []string{line, l}, Expected: want, Got: got})
			}
		}
	}
}

// fnv32a is hash/fnv's New32a over a string (the cheap hash a Go program reaches for first).
func fnv32a(h uint32, s string) uint32 {
	for i := 0; i < len(s); i++ {
		h ^= uint32(s[i])
		h *= 16777619
	}
	return h
}

// fnvTwin finds a 5-byte string different from p (5 bytes) that leaves FNV-1a/32 in the same state, by meeting in
// the middle (2 bytes forward, 3 bytes backward through the inverse of the FNV prime).  ok = false if none.
func fnvTwin(p string) (string, bool) {
	const basis, prime = 2166136261, 16777619
	const inv = 899433627 // prime * inv = 1 mod 2^32
	target := fnv32a(basis, p)
	fwd := make(map[uint32][2]byte, 1<<16)
	for a := 0; a < 256; a++ {
		for b := 0; b < 256; b++ {
			fwd[fnv32a(basis, string([]byte{byte(a), byte(b)}))] = [2]byte{byte(a), byte(b)}
		}
	}
	for e := 0; e < 256; e++ {
		h4 := target*inv ^ uint32(e)
		for d := 0; d < 256; d++ {
			h3 := h4*inv ^ uint32(d)
			for c := 0; c < 256; c++ {
				h2 := h3*inv ^ uint32(c)
				if ab, ok := fwd[h2]; ok {
					q := string([]byte{ab[0], ab[1], byte(c), byte(d), byte(e)})
					if q != p {
						return q, true
					}
				}
			}
		}
	}
	return "", false
}

// genC12hashTwins: an index must answer from its records, not from what it remembers about earlier queries under a
// HASH of the query.  Keys share a 5-byte head; for some of them an absent string with the same FNV-1a/32 hash is
// asked first (it differs from the key only inside the head, which a filter-mode trie skips, so the lookup reaches
// the reader and is rejected there), then the key itself: it must still be found.
func genC12hashTwins(c *lp.Ctx) {
	for it := 0; it < c.Pick(2, 6); it++ {
		head := []byte("user/")
		for i := range head {
			if c.Rng.Intn(2) == 0 {
				head[i] = byte(0x21 + c.Rng.Intn(90))
			}
		}
		twin, ok := fnvTwin(string(head))
		if !ok {
			continue
		}
		n := 40 + c.Rng.Intn(100)
		keys := make([]string, n)
		for i := range keys {
			keys[i] = string(head) + fmt.Sprintf("%04d", 7*i+3)
		}
		for _, block := range []bool{false, true} {
			var sb strings.Builder
			sb.WriteString("idx.new")
			for i, k := range keys {
				off := int64(100 + 10*i)
				if block {
					off = int64(100 + 10*(i/4))
				}
				fmt.Fprintf(&sb, " %s %d %s", lp.XS(k), off, lp.XS(fmt.Sprintf("v%d", i)))
			}
			line := sb.String()
			if got := c.Do(line); got != "ok" {
				continue
			}
			op := "idx.get"
			if block {
				op = "idx.rget"
			}
			c.Case(fmt.Sprintf("hash-twins|%v|%s|%d", block, lp.XS(string(head)), n), true)
			c.Hit("history:absent FNV-1a/32 twin, then the key")
			for i, k := range keys {
				if i%3 != 0 {
					continue
				}
				q := twin + k[len(head):]
				if got := c.Do(op + " " + lp.XS(q)); got != "nf" {
					c.Violate(lp.Violation{What: "SlimIndex with a key-verifying reader is an exact map", Script: []string{line, op + " " + lp.XS(q)}, Expected: "nf", Got: got})
				}
				want := "f " + lp.XS(fmt.Sprintf("v%d", i))
				if got := c.Do(op + " " + lp.XS(k)); got != want {
					c.Violate(lp.Violation{What: "SlimIndex with a key-verifying reader is an exact map (an indexed key asked after an absent string with the same FNV-1a/32 hash)",
						Script: []string{line, op + " " + lp.XS(q), op + " " + lp.XS(k)}, Expected: want, Got: got})
					break
				}
			}
		}
	}
}

// genC02viaIndex: property C02 through package index: with block offsets,
// SlimIndex.RangeGet returns the stored record of every indexed key.
func genC02viaIndex(c *lp.Ctx) {
	n := c.Pick(120, 400)
	for it := 0; it < n; it++ {
		ks := gen.Any(c.Rng, c.Pick(150, 600))
		if len(ks.Keys) == 0 {
			continue
		}
		var sb strings.Builder
		sb.WriteString("idx.new")
		off := int64(0)
		left := 0
		bs := 1 + c.Rng.Intn(64)
		for i, k := range ks.Keys {
			if left == 0 {
				off += 4096
				left = 1 + c.Rng.Intn(bs)
			}
			left--
			fmt.Fprintf(&sb, " %s %d %s", lp.XS(k), off, lp.XS(fmt.Sprintf("v%d", i)))
		}
		line := sb.String()
		c.Case(fmt.Sprintf("idxblock|%d|%d|%s", bs, len(ks.Keys), ks.Class), len(ks.Keys) >= 3)
		c.Hit("via-index:" + ks.Class)
		if got := c.Do(line); got != "ok" {
			continue
		}
		for i, k := range ks.Keys {
			l := "idx.rget " + lp.XS(k)
			want := "f " + lp.XS(fmt.Sprintf("v%d", i))
			if got := c.Do(l); got != want {
				c.Violate(lp.Violation{What: "SlimIndex.RangeGet on an indexed key of a block", Script: []string{line, l}, Expected: want, Got: got})
			}
		}
	}
}

// genC12boundary: growing record sets whose trie's label bitmaps end exactly on
// a 64-bit word boundary (found by building directly and inspecting the shape).
func genC12boundary(c *lp.Ctx) {
	budget := c.Pick(6, 40)
	found := 0
	kinds := map[byte]int{}
	for tries := 0; found < budget && tries < 120*budget; tries++ {
		var ks gen.KeySet
		switch c.Rng.Intn(4) {
		case 0, 3:
			ks = gen.Regular(c.Rng, 300)
		case 1:
			ks = gen.ShortTable(c.Rng, 2+c.Rng.Intn(2), 1+c.Rng.Intn(3))
		default:
			ks = gen.Random(c.Rng, 200, 5)
		}
		if len(ks.Keys) < 8 {
			continue
		}
		lo := len(ks.Keys) - 70
		if lo < 4 {
			lo = 4
		}
		for k := lo; k <= len(ks.Keys) && found < budget; k++ {
			var sb strings.Builder
			sb.WriteString("idx.new")
			for i, key := range ks.Keys[:k] {
				fmt.Fprintf(&sb, " %s %d %s", lp.XS(key), int64(i)*7-3, lp.XS(fmt.Sprintf("v%d", i)))
			}
			line := sb.String()
			if lp.Exec(line) != "ok" || cur == nil {
				continue
			}
			bl, last, ok := ft.InnersShape(&cur.SlimTrie)
			if !ok || bl%64 != 0 {
				continue
			}
			// every kind of last node, short ones in particular
			if last != 's' && kinds[last] >= budget/3 {
				continue
			}
			kinds[last]++
			found++
			c.Case(fmt.Sprintf("boundary|%d|%c|%s", k, last, ks.Class), true)
			c.Hit(fmt.Sprintf("boundary:inners-bits%%64=0,last=%c", last))
			c.Op(line, "ok")
			for i := k - 1; i >= 0 && i >= k-10; i-- {
				l := "idx.get " + lp.XS(ks.Keys[i])
				want := "f " + lp.XS(fmt.Sprintf("v%d", i))
				if got := c.Do(l); got != want {
					c.Violate(lp.Violation{What: "SlimIndex.Get on an indexed key (bitmap ends at a word boundary)", Script: []string{line, l}, Expected: want, Got: got})
				}
			}
			for _, q := range gen.Queries(c.Rng, ks.Keys[k-min(k, 5):k], 20) {
				l := "idx.get " + lp.XS(q)
				if got := c.Do(l); got == "panic" {
					c.Violate(lp.Violation{What: "SlimIndex.Get must not panic", Script: []string{line, l}, Expected: "an answer", Got: got})
				}
			}
		}
	}
}

func min(a, b int) int {
	if a < b {
		return a
	}
	return b
}

func init() {
	lp.Register("idx", interp)
	lp.RegisterGen("C12", genC12)
	lp.RegisterGen("C12", genC12boundary)
	lp.RegisterGen("C12", genC12hashTwins)
	lp.RegisterGen("C02", genC02viaIndex)
}
