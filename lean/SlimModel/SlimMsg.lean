import SlimModel.Basic
/-
  SlimModel.SlimMsg — the protobuf messages of trie/slim.proto as plain structures (wire level, L3).

  Field types: `uint64` words, `int32` counters and `uint32` table entries are all `Nat` here;
  `WF` states the ranges inside which the Go types hold them (the model's writers only produce
  such values, and the decoder rejects anything else as `Err.badProto`).
  A nil sub-message pointer is `none`; a present but empty sub-message is `some {}`
  (proto3 keeps that distinction for message-typed fields, and the Go code tests for nil).
-/

structure BitmapMsg where
  words : List Nat := []          -- field 20, repeated uint64 (packed)
  rankIndex : List Nat := []      -- field 30, repeated int32  (packed)
  selectIndex : List Nat := []    -- field 40, repeated int32  (packed)
  deriving Repr, DecidableEq, Inhabited

structure VLenArrayMsg where
  n : Nat := 0                            -- field 10, int32
  eltCnt : Nat := 0                       -- field 11, int32
  positionBM : Option BitmapMsg := none   -- field 20
  fixedSize : Nat := 0                    -- field 23, int32
  bytes : Bytes := []                     -- field 30
  presenceBM : Option BitmapMsg := none   -- field 61
  deriving Repr, DecidableEq, Inhabited

structure SlimMsg where
  bigInnerCnt : Nat := 0                      -- field 11, int32
  shortSize : Nat := 0                        -- field 14, int32
  nodeTypeBM : Option BitmapMsg := none       -- field 20
  inners : Option BitmapMsg := none           -- field 30
  shortBM : Option BitmapMsg := none          -- field 31
  shortTable : List Nat := []                 -- field 32, repeated uint32 (packed)
  innerPrefixes : Option VLenArrayMsg := none -- field 38
  leafPrefixes : Option VLenArrayMsg := none  -- field 58
  leaves : Option VLenArrayMsg := none        -- field 60
  /-- Raw bytes of top-level fields with unknown numbers (golang/protobuf keeps them in
      `XXX_unrecognized` and writes them back after the known fields); the retired fields
      12, 13, 15 of 0.5.10/0.5.11 streams end up here. -/
  unrecognized : Bytes := []
  deriving Repr, DecidableEq, Inhabited

namespace BitmapMsg
def WF (b : BitmapMsg) : Prop :=
  (∀ w ∈ b.words, w < 2 ^ 64) ∧ (∀ r ∈ b.rankIndex, r < 2 ^ 31) ∧ (∀ r ∈ b.selectIndex, r < 2 ^ 31)
end BitmapMsg

namespace VLenArrayMsg
def WF (v : VLenArrayMsg) : Prop :=
  v.n < 2 ^ 31 ∧ v.eltCnt < 2 ^ 31 ∧ v.fixedSize < 2 ^ 31 ∧
  (∀ b, v.positionBM = some b → b.WF) ∧ (∀ b, v.presenceBM = some b → b.WF)
end VLenArrayMsg

namespace SlimMsg
def WF (s : SlimMsg) : Prop :=
  s.bigInnerCnt < 2 ^ 31 ∧ s.shortSize < 2 ^ 31 ∧ (∀ t ∈ s.shortTable, t < 2 ^ 32) ∧
  (∀ b, s.nodeTypeBM = some b → b.WF) ∧ (∀ b, s.inners = some b → b.WF) ∧
  (∀ b, s.shortBM = some b → b.WF) ∧
  (∀ v, s.innerPrefixes = some v → v.WF) ∧ (∀ v, s.leafPrefixes = some v → v.WF) ∧
  (∀ v, s.leaves = some v → v.WF)
end SlimMsg
