import SlimProofs.BitsLemmas.Select
import SlimModel.Slim
/-
  SlimProofs.BitsLemmas.Positions — the position bitmap of a `VLenArray`:
  `newBM (Slim.stepToPos sizes) 0 "s32"` and `select32R64` on it (item 6).
-/

namespace Bits

open Slim

/-! ### `stepToPos` -/

theorem stepToPos_go_getElem? (sizes : List Nat) (p k : Nat) :
    (stepToPos.go sizes p)[k]?
      = if k ≤ sizes.length then some (p + (sizes.take k).sum) else none := by
  induction sizes generalizing p k with
  | nil => cases k <;> simp [stepToPos.go]
  | cons s ss ih =>
    cases k with
    | zero => simp [stepToPos.go]
    | succ k =>
      simp only [stepToPos.go, List.getElem?_cons_succ, ih, List.length_cons,
        Nat.add_le_add_iff_right, List.take_succ_cons, List.sum_cons, Nat.add_assoc]

/-- `ps = [0, s0, s0+s1, …, total]` -/
theorem stepToPos_getElem? (sizes : List Nat) (k : Nat) :
    (stepToPos sizes)[k]? = if k ≤ sizes.length then some ((sizes.take k).sum) else none := by
  unfold stepToPos
  rw [stepToPos_go_getElem?, Nat.zero_add]

theorem stepToPos_go_length (sizes : List Nat) (p : Nat) :
    (stepToPos.go sizes p).length = sizes.length + 1 := by
  induction sizes generalizing p with
  | nil => simp [stepToPos.go]
  | cons s ss ih => simp [stepToPos.go, ih]

theorem stepToPos_length (sizes : List Nat) : (stepToPos sizes).length = sizes.length + 1 :=
  stepToPos_go_length sizes 0

theorem stepToPos_go_ge (sizes : List Nat) (p : Nat) : ∀ y ∈ stepToPos.go sizes p, p ≤ y := by
  induction sizes generalizing p with
  | nil => simp [stepToPos.go]
  | cons s ss ih =>
    intro y hy
    simp only [stepToPos.go, List.mem_cons] at hy
    rcases hy with rfl | hy
    · omega
    · have := ih (p + s) y hy; omega

theorem stepToPos_go_ascLe (sizes : List Nat) (p : Nat) : AscLe (stepToPos.go sizes p) := by
  induction sizes generalizing p with
  | nil => simp [stepToPos.go]
  | cons s ss ih =>
    simp only [stepToPos.go]
    rw [AscLe, List.pairwise_cons]
    refine ⟨?_, ih _⟩
    intro y hy
    have := stepToPos_go_ge ss (p + s) y hy; omega

theorem stepToPos_ascLe (sizes : List Nat) : AscLe (stepToPos sizes) := stepToPos_go_ascLe sizes 0

theorem stepToPos_go_asc (sizes : List Nat) (p : Nat) (hpos : ∀ s ∈ sizes, 0 < s) :
    Asc (stepToPos.go sizes p) := by
  induction sizes generalizing p with
  | nil => simp [stepToPos.go]
  | cons s ss ih =>
    simp only [stepToPos.go]
    rw [Asc, List.pairwise_cons]
    refine ⟨?_, ih _ (fun x hx => hpos x (List.mem_cons_of_mem _ hx))⟩
    intro y hy
    have := stepToPos_go_ge ss (p + s) y hy
    have := hpos s (by simp)
    omega

/-- with no empty element the positions are strictly ascending -/
theorem stepToPos_asc (sizes : List Nat) (hpos : ∀ s ∈ sizes, 0 < s) : Asc (stepToPos sizes) :=
  stepToPos_go_asc sizes 0 hpos

/-! ### item 6, special case: every element non-empty -/

/-- `select32R64` on the position bitmap, all sizes positive: element `k` occupies
    `[ps[k], ps[k+1])` -/
theorem select32R64_positions_pos (sizes : List Nat) (hpos : ∀ s ∈ sizes, 0 < s) (k : Nat)
    (hk : k < sizes.length) :
    select32R64 (newBM (stepToPos sizes) 0 "s32") k
      = .ok ((sizes.take k).sum, (sizes.take (k + 1)).sum) := by
  apply select32R64_newBM_asc (stepToPos_asc sizes hpos)
  · rw [stepToPos_getElem?, if_pos (by omega)]
  · rw [stepToPos_getElem?, if_pos (by omega)]

/-- the same, reading the two positions from `ps` itself -/
theorem select32R64_positions_pos' (sizes : List Nat) (hpos : ∀ s ∈ sizes, 0 < s) (k a c : Nat)
    (ha : (stepToPos sizes)[k]? = some a) (hc : (stepToPos sizes)[k + 1]? = some c) :
    select32R64 (newBM (stepToPos sizes) 0 "s32") k = .ok (a, c) :=
  select32R64_newBM_asc (stepToPos_asc sizes hpos) 0 k a c ha hc

/-- second component as start + size -/
theorem select32R64_positions_pos_size (sizes : List Nat) (hpos : ∀ s ∈ sizes, 0 < s) (k : Nat)
    (hk : k < sizes.length) :
    select32R64 (newBM (stepToPos sizes) 0 "s32") k
      = .ok ((sizes.take k).sum, (sizes.take k).sum + sizes[k]) := by
  rw [select32R64_positions_pos sizes hpos k hk, List.take_add_one, List.sum_append,
    List.getElem?_eq_getElem hk]
  simp

/-! ### item 6, general case: empty elements allowed -/

/-- the distinct positions: the starts of the non-empty elements, then the total -/
def distinctPos : List Nat → Nat → List Nat
  | [], p => [p]
  | s :: ss, p => if s = 0 then distinctPos ss p else p :: distinctPos ss (p + s)

theorem distinctPos_head (sizes : List Nat) (p : Nat) : (distinctPos sizes p)[0]? = some p := by
  induction sizes generalizing p with
  | nil => simp [distinctPos]
  | cons s ss ih =>
    simp only [distinctPos]
    split
    · exact ih p
    · simp

theorem distinctPos_ge (sizes : List Nat) (p : Nat) : ∀ y ∈ distinctPos sizes p, p ≤ y := by
  induction sizes generalizing p with
  | nil => simp [distinctPos]
  | cons s ss ih =>
    intro y hy
    simp only [distinctPos] at hy
    split at hy
    · exact ih p y hy
    · simp only [List.mem_cons] at hy
      rcases hy with rfl | hy
      · omega
      · have := ih (p + s) y hy; omega

theorem distinctPos_asc (sizes : List Nat) (p : Nat) : Asc (distinctPos sizes p) := by
  induction sizes generalizing p with
  | nil => simp [distinctPos]
  | cons s ss ih =>
    simp only [distinctPos]
    split
    · exact ih p
    · rw [Asc, List.pairwise_cons]
      refine ⟨?_, ih _⟩
      intro y hy
      have := distinctPos_ge ss (p + s) y hy; omega

theorem mem_distinctPos (sizes : List Nat) (p x : Nat) :
    x ∈ distinctPos sizes p ↔ x ∈ stepToPos.go sizes p := by
  induction sizes generalizing p with
  | nil => simp [distinctPos, stepToPos.go]
  | cons s ss ih =>
    simp only [distinctPos, stepToPos.go]
    split
    · next h =>
      subst h
      rw [ih, List.mem_cons, Nat.add_zero]
      constructor
      · exact Or.inr
      · rintro (rfl | h)
        · have := List.mem_of_getElem? (stepToPos_go_getElem? ss x 0 ▸ (by simp) :
            (stepToPos.go ss x)[0]? = some x)
          exact this
        · exact h
    · rw [List.mem_cons, List.mem_cons, ih]

/-- the distinct positions are `eraseDups` of the positions -/
theorem eraseDups_stepToPos (sizes : List Nat) :
    (stepToPos sizes).eraseDups = distinctPos sizes 0 := by
  apply Asc.ext (asc_eraseDups (stepToPos_ascLe sizes)) (distinctPos_asc sizes 0)
  intro x
  rw [mem_eraseDups, mem_distinctPos]; rfl

/-- the set bits of the position bitmap -/
theorem toArray_positions (sizes : List Nat) :
    toArray (ofIdx (stepToPos sizes) 0) = distinctPos sizes 0 := by
  rw [toArray_ofIdx (stepToPos_ascLe sizes), eraseDups_stepToPos]

/-- entry `k` and `k+1` of the distinct positions, where `j` is the `k`-th non-empty element -/
theorem distinctPos_getElem? (sizes : List Nat) (p j k : Nat) (hj : j < sizes.length)
    (hne : 0 < sizes.getD j 0) (hk : (sizes.take j).countP (0 < ·) = k) :
    (distinctPos sizes p)[k]? = some (p + (sizes.take j).sum)
    ∧ (distinctPos sizes p)[k + 1]? = some (p + (sizes.take j).sum + sizes.getD j 0) := by
  induction sizes generalizing p j k with
  | nil => simp at hj
  | cons s ss ih =>
    cases j with
    | zero =>
      simp only [List.getD_cons_zero] at hne
      simp only [List.take_zero, List.countP_nil] at hk
      subst hk
      have : s ≠ 0 := by omega
      simp only [distinctPos, this, if_false, List.take_zero, List.sum_nil, Nat.add_zero,
        List.getD_cons_zero, List.getElem?_cons_succ, distinctPos_head]
      simp
    | succ j =>
      simp only [List.getD_cons_succ] at hne
      simp only [List.length_cons, Nat.add_lt_add_iff_right] at hj
      simp only [List.take_succ_cons, List.countP_cons] at hk
      simp only [distinctPos, List.take_succ_cons, List.sum_cons, List.getD_cons_succ]
      split
      · next h =>
        subst h
        simp only [Nat.lt_irrefl, decide_false, Bool.false_eq_true, if_false, Nat.add_zero] at hk
        have := ih p j k hj hne hk
        simpa using this
      · next h =>
        have hs : 0 < s := by omega
        simp only [hs, decide_true, if_true] at hk
        subst hk
        have := ih (p + s) j _ hj hne rfl
        simp only [List.getElem?_cons_succ]
        rw [this.1, this.2]
        constructor <;> congr 1 <;> omega

/-- item 6, general case: if `j` is the `k`-th (0-based) non-empty element, `select32R64` on the
    position bitmap returns its start and its end -/
theorem select32R64_positions (sizes : List Nat) (j k : Nat) (hj : j < sizes.length)
    (hne : 0 < sizes.getD j 0) (hk : (sizes.take j).countP (0 < ·) = k) :
    select32R64 (newBM (stepToPos sizes) 0 "s32") k
      = .ok ((sizes.take j).sum, (sizes.take j).sum + sizes.getD j 0) := by
  have h := distinctPos_getElem? sizes 0 j k hj hne hk
  rw [Nat.zero_add] at h
  apply select32R64_newBM (stepToPos_ascLe sizes) <;> rw [eraseDups_stepToPos]
  · exact h.1
  · exact h.2

/-- "`j` is the `k`-th non-empty element" in the form used by `Slim.newVLenArray`
    (`nonEmptyIdx[k] = j`) -/
theorem nonEmptyIdx_getElem?_eq_some (sizes : List Nat) (k j : Nat) :
    ((List.range sizes.length).filter (fun i => sizes.getD i 0 > 0))[k]? = some j
      ↔ j < sizes.length ∧ 0 < sizes.getD j 0 ∧ (sizes.take j).countP (0 < ·) = k := by
  rw [filter_range_getElem?_eq_some]
  have : cnt (fun i => decide (sizes.getD i 0 > 0)) j = (sizes.take j).countP (0 < ·) := by
    clear k
    induction j with
    | zero => simp
    | succ j ih =>
      rw [cnt_succ, ih, List.take_add_one, List.countP_append, List.getD_eq_getElem?_getD]
      cases sizes[j]? with
      | none => simp
      | some v => simp [List.countP_cons]
  rw [this]
  simp

theorem select32R64_positions_nonEmptyIdx (sizes : List Nat) (j k : Nat)
    (h : ((List.range sizes.length).filter (fun i => sizes.getD i 0 > 0))[k]? = some j) :
    select32R64 (newBM (stepToPos sizes) 0 "s32") k
      = .ok ((sizes.take j).sum, (sizes.take j).sum + sizes.getD j 0) := by
  rw [nonEmptyIdx_getElem?_eq_some] at h
  exact select32R64_positions sizes j k h.1 h.2.1 h.2.2

end Bits
