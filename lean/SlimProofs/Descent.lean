import SlimProofs.WF
/-
  SlimProofs.Descent — the descent theorem: in a well-formed record array (`WF`) the loop of
  `GetID`, started on a retained key, walks from the root to the leaf of exactly that key and
  the `leafPrefixesOn` epilogue accepts it.

  Main results
  * `Descent.getIDLoop_kept`  the loop invariant (strong induction on `t.nodes.size - j`)
  * `getID_kept`              `GetID` on a kept key returns the id of the leaf of that key

  Local copies of small order / half-byte lemmas live in the namespace `Descent`
  (`Descent.lexCmp_self`, `Descent.nibs_length`, `Descent.nibs_injective`,
  `Descent.strictAsc_adj`, …) so that this file depends on `SlimProofs.WF` only.
-/

namespace Descent

/-! ### order and half-byte lemmas -/

theorem lexCmp_self (a : List Nat) : lexCmp a a = .eq := by
  induction a with
  | nil => rfl
  | cons x xs ih => simp [lexCmp, ih]

theorem lexCmp_eq_iff (a b : List Nat) : lexCmp a b = .eq ↔ a = b := by
  induction a generalizing b with
  | nil => cases b <;> simp [lexCmp]
  | cons x xs ih =>
    cases b with
    | nil => simp [lexCmp]
    | cons y ys =>
      simp only [lexCmp]
      split
      · rename_i h; constructor
        · intro h'; cases h'
        · intro h'; injection h' with h1 h2; omega
      · split
        · rename_i h; constructor
          · intro h'; cases h'
          · intro h'; injection h' with h1 h2; omega
        · rename_i h1 h2
          have : x = y := by omega
          subst this
          simp [ih]

theorem nibs_length (b : Bytes) : (nibs b).length = 2 * b.length := by
  induction b with
  | nil => rfl
  | cons x xs ih => simp only [nibs, List.length_cons, ih]; omega

theorem nibs_injective (a b : Bytes) (h : nibs a = nibs b) : a = b := by
  induction a generalizing b with
  | nil => cases b with
    | nil => rfl
    | cons y ys => simp [nibs] at h
  | cons x xs ih =>
    cases b with
    | nil => simp [nibs] at h
    | cons y ys =>
      simp only [nibs, List.cons.injEq] at h
      obtain ⟨h1, h2, h3⟩ := h
      have hxy : x.toNat = y.toNat := by omega
      have : x = y := UInt8.toNat_inj.mp hxy
      rw [this, ih ys h3]

theorem cmpBytes_self (a : Bytes) : cmpBytes a a = .eq := lexCmp_self _

theorem bytesLt_irrefl (a : Bytes) : bytesLt a a = false := by
  simp [bytesLt, cmpBytes_self]

/-- strictly ascending lists are ascending at every adjacent pair -/
theorem strictAsc_adj (keys : List Bytes) (h : strictAsc keys = true) (a : Nat)
    (ha : a + 1 < keys.length) : bytesLt (keys.getD a []) (keys.getD (a + 1) []) = true := by
  induction keys generalizing a with
  | nil => simp at ha
  | cons x xs ih =>
    cases xs with
    | nil => simp at ha
    | cons y ys =>
      simp only [strictAsc, Bool.and_eq_true] at h
      cases a with
      | zero => simpa using h.1
      | succ a =>
        have := ih h.2 a (by simpa using ha)
        simpa using this

/-- adjacent keys of a strictly ascending list differ -/
theorem strictAsc_adj_ne (keys : List Bytes) (h : strictAsc keys = true) (a : Nat)
    (ha : a + 1 < keys.length) : keys.getD a [] ≠ keys.getD (a + 1) [] := by
  intro heq
  have := strictAsc_adj keys h a ha
  rw [heq, bytesLt_irrefl] at this
  cases this

/-! ### labels and ranks -/


/-- `getLabelIdxOfKey` is `bmtree.PathOf` whenever a 257-bit node is read at a byte-aligned
    position (always, in a built trie) -/
theorem labelIdxOfKey_eq_labelAt (kn : List Nat) (i : Nat) (big : Bool)
    (hal : big = true → i % 2 = 0) :
    labelIdxOfKey kn i big = labelAt kn i big := by
  unfold labelIdxOfKey labelAt
  by_cases h : i < kn.length
  · cases big with
    | false => simp [h, List.getD_eq_getElem?_getD]
    | true =>
      have h0 : i % 2 = 0 := hal rfl
      simp [h, h0, List.getD_eq_getElem?_getD]
  · simp [h]

theorem labelAt_eq_zero_iff (kn : List Nat) (ws : Nat) (big : Bool) :
    labelAt kn ws big = 0 ↔ kn.length ≤ ws := by
  unfold labelAt
  by_cases h : ws < kn.length
  · simp [h]; split <;> omega
  · simp [List.getElem?_eq_none (Nat.le_of_not_lt h)]; omega

theorem rankLabels_getElem (labels : List Nat) (hp : labels.Pairwise (· < ·)) (k : Nat)
    (hk : k < labels.length) : rankLabels labels labels[k] = k := by
  unfold rankLabels
  induction labels generalizing k with
  | nil => simp at hk
  | cons a as ih =>
    rw [List.pairwise_cons] at hp
    cases k with
    | zero =>
      simp only [List.getElem_cons_zero]
      rw [List.filter_cons_of_neg (by simp)]
      rw [List.filter_eq_nil_iff.mpr]
      · rfl
      · intro b hb; have := hp.1 b hb; simp; omega
    | succ k =>
      simp only [List.getElem_cons_succ]
      have hk' : k < as.length := by simpa using hk
      have hlt : a < as[k] := hp.1 _ (List.getElem_mem hk')
      rw [List.filter_cons_of_pos (by simpa using hlt)]
      simp [ih hp.2 k hk']

theorem leftChildID_of_label (r : InnerRec) (hp : r.labels.Pairwise (· < ·)) (k : Nat)
    (hk : k < r.labels.length) :
    leftChildID r r.labels[k] = ((r.firstChild : Int) - 1 + k, true) := by
  unfold leftChildID
  rw [rankLabels_getElem _ hp k hk]
  simp


/-! ### one iteration of the loop of `GetID` -/


/-- the first half of one iteration of `GetID` on an inner node: compare / skip the single-branch
    run; `none` = `return -1`, `some i` = the position of the branching word -/
def idStep (pref : Pref) (kn : List Nat) (pos : Nat) : Except Err (Option Nat) :=
  match pref with
  | .stored p =>
    if pos / 2 > kn.length / 2 then .error (.panic "slice bounds out of range: key[i>>3:]")
    else if cmpUpto (kn.drop (pos - pos % 2)) p != .eq then .ok none
    else .ok (some (pos - pos % 2 + p.length))
  | .step n => .ok (some (pos + n))
  | .none => .ok (some pos)

theorem getIDLoop_leaf (v : View) (kn : List Nat) (fuel j pos ith : Nat) (lp : Option Bytes)
    (h : v.node j = .ok (.leaf ith lp)) :
    getIDLoop v kn (fuel + 1) j pos = .ok (some ⟨j, pos, lp⟩) := by
  simp only [getIDLoop, h, bind, Except.bind, pure, Except.pure]

/-- the second half of one iteration of `GetID` on an inner node, from the branching position -/
def idBranch (v : View) (kn : List Nat) (fuel : Nat) (r : InnerRec) (i : Nat) :
    Except Err (Option Reached) :=
  if i > kn.length then .ok none
  else if !(leftChildID r (labelIdxOfKey kn i r.big)).2 then .ok none
  else if i = kn.length then
    .ok (some ⟨((leftChildID r (labelIdxOfKey kn i r.big)).1 + 1).toNat, i, none⟩)
  else getIDLoop v kn fuel ((leftChildID r (labelIdxOfKey kn i r.big)).1 + 1).toNat
        (i + wordSize r.big)

theorem getIDLoop_inner (v : View) (kn : List Nat) (fuel j pos : Nat) (r : InnerRec)
    (h : v.node j = .ok (.inner r)) :
    getIDLoop v kn (fuel + 1) j pos =
      match idStep r.pref kn pos with
      | .error e => .error e
      | .ok none => .ok none
      | .ok (some i) => idBranch v kn fuel r i := by
  simp only [getIDLoop, h, bind, Except.bind, pure, Except.pure]
  cases hp : r.pref with
  | none => simp only [idStep, idBranch]
  | step n => simp only [idStep, idBranch]
  | stored p =>
    simp only [idStep, idBranch]
    by_cases h1 : pos / 2 > kn.length / 2
    · simp only [h1, if_true]
    · by_cases h2 : (cmpUpto (List.drop (pos - pos % 2) kn) p != Ordering.eq) = true
      · simp only [h1, h2, if_true, if_false]
      · simp only [h1, h2, if_false, Bool.false_eq_true]

/-- one iteration on an inner node whose run matches and whose branching label is present -/
theorem getIDLoop_inner_go (v : View) (kn : List Nat) (fuel j pos ws c : Nat) (r : InnerRec)
    (h : v.node j = .ok (.inner r)) (hstep : idStep r.pref kn pos = .ok (some ws))
    (hws : ws ≤ kn.length)
    (hch : leftChildID r (labelIdxOfKey kn ws r.big) = ((c : Int) - 1, true)) :
    getIDLoop v kn (fuel + 1) j pos =
      if ws = kn.length then .ok (some ⟨c, ws, none⟩)
      else getIDLoop v kn fuel c (ws + wordSize r.big) := by
  rw [getIDLoop_inner v kn fuel j pos r h, hstep]
  have : ¬ ws > kn.length := by omega
  simp [idBranch, this, hch]

theorem idStep_prefOf (opt : Opt) (ks kn : List Nat) (fb ws : Nat) (hfb : fb ≤ ws)
    (hlen : ws ≤ kn.length) (hks : ws ≤ ks.length) (hag : kn.take ws = ks.take ws) :
    idStep (prefOf opt ks fb ws) kn fb = .ok (some ws) := by
  unfold prefOf
  split
  · simp only [idStep]; congr; omega
  · split
    · have hfl : ¬ fb / 2 > kn.length / 2 := by omega
      have he : fb - fb % 2 ≤ ws := by omega
      have hplen : (storedPrefix ks fb ws).length = ws - (fb - fb % 2) := by
        simp only [storedPrefix, List.length_drop, List.length_take]; omega
      have hcmp : cmpUpto (kn.drop (fb - fb % 2)) (storedPrefix ks fb ws) = .eq := by
        unfold cmpUpto
        rw [hplen, ← List.drop_take, hag]
        exact lexCmp_self _
      simp only [idStep, hfl, hcmp, hplen]
      simp; omega
    · simp only [idStep]; congr; omega


/-! ### the loop invariant -/


theorem leafPrefOf_end (opt : Opt) (key : Bytes) (fb : Nat) (h : fb = (nibs key).length) :
    leafPrefOf opt key fb = none := by
  have : key.drop (fb / 2) = [] := by
    rw [List.drop_eq_nil_iff, h, nibs_length]; omega
  simp [leafPrefOf, this]

theorem leafPrefOf_lt (opt : Opt) (key : Bytes) (fb : Nat) (h : fb < (nibs key).length)
    (hl : opt.leaf = true) : leafPrefOf opt key fb = some (key.drop (fb / 2)) := by
  have : key.drop (fb / 2) ≠ [] := by
    rw [Ne, List.drop_eq_nil_iff, nibs_length] at *; omega
  simp [leafPrefOf, this, hl]

/-- two adjacent keys cannot both end at `ws` and agree before `ws` -/
theorem no_two_label0 (keys : List Bytes) (hasc : strictAsc keys = true) (ws : Nat) (big : Bool)
    (a : Nat) (ha : a + 1 < keys.length)
    (hl0 : labelOf keys ws big a = 0) (hl1 : labelOf keys ws big (a + 1) = 0)
    (hag : (knOf keys a).take ws = (knOf keys (a + 1)).take ws) : False := by
  unfold labelOf at hl0 hl1
  rw [labelAt_eq_zero_iff] at hl0 hl1
  rw [List.take_of_length_le hl0, List.take_of_length_le hl1] at hag
  exact strictAsc_adj_ne keys hasc a ha (nibs_injective _ _ hag)


theorem view_node (t : Trie1) (j : Nat) (hj : j < t.nodes.size) :
    t.view.node j = .ok t.nodes[j] := by
  simp [Trie1.view, hj]

theorem getIDLoop_kept (keys : List Bytes) (keep : List Bool) (t : Trie1) (queue : Array Subset)
    (hasc : strictAsc keys = true)
    (hsz : queue.size = t.nodes.size)
    (hq : ∀ j (hj : j < t.nodes.size), ∃ o, queue[j]? = some o ∧ SubOK keys keep o ∧
      NodeOK keys keep t.opt queue t.leafKeyIdx j o t.nodes[j])
    (i : Nat) (hk : keptAt keep i = true) :
    ∀ n j o fuel, t.nodes.size - j ≤ n → n < fuel → queue[j]? = some o → o.s ≤ i → i < o.e →
      ∃ id ith lp fb,
        getIDLoop t.view (knOf keys i) fuel j o.fb
          = .ok (some ⟨id, fb, leafPrefOf t.opt (keys.getD i []) fb⟩) ∧
        t.nodes[id]? = some (.leaf ith lp) ∧ t.leafKeyIdx[ith]? = some i ∧
        fb ≤ (knOf keys i).length := by
  intro n
  induction n with
  | zero =>
    intro j o fuel h1 _ hqj _ _
    have : j < queue.size := (Array.getElem?_eq_some_iff.mp hqj).1
    omega
  | succ n ih =>
    intro j o fuel h1 h2 hqj hs he
    have hj : j < t.nodes.size := by
      have : j < queue.size := (Array.getElem?_eq_some_iff.mp hqj).1
      omega
    obtain ⟨o', ho', hsub, hnode⟩ := hq j hj
    rw [hqj] at ho'; cases ho'
    obtain ⟨fuel, rfl⟩ : ∃ f, fuel = f + 1 := ⟨fuel - 1, by omega⟩
    have hview := view_node t j hj
    cases hn : t.nodes[j] with
    | leaf ith lp =>
      rw [hn] at hnode hview
      obtain ⟨h1e, hidx, hlp⟩ := hnode
      have his : o.s = i := by omega
      subst his
      refine ⟨j, ith, lp, o.fb, ?_, ?_, hidx, hsub.long _ hs he⟩
      · rw [getIDLoop_leaf _ _ _ _ _ ith lp hview, hlp]
      · rw [Array.getElem?_eq_some_iff]; exact ⟨hj, hn⟩
    | inner r =>
      rw [hn] at hnode hview
      obtain ⟨h2e, ws, hfbws, hall, hbig, hpref, hlabels, hpw, hmono, hjfc, hkids⟩ := hnode
      obtain ⟨hwsl, hag⟩ := hall i hs he
      have hstep : idStep r.pref (knOf keys i) o.fb = .ok (some ws) := by
        rw [hpref]
        exact idStep_prefOf t.opt _ _ o.fb ws hfbws hwsl (hall o.s (Nat.le_refl _) hsub.lt).1 hag
      have hmem : labelOf keys ws r.big i ∈ r.labels := (hlabels _).mpr ⟨i, hs, he, hk, rfl⟩
      obtain ⟨k, hk', hkl⟩ := List.mem_iff_getElem.mp hmem
      obtain ⟨c, hc, hcfb, hcs, hce, hciff⟩ := hkids k hk'
      have hic : c.s ≤ i ∧ i < c.e := (hciff i hs he).mpr hkl.symm
      have hcid : r.firstChild + k < t.nodes.size := by
        have : r.firstChild + k < queue.size := (Array.getElem?_eq_some_iff.mp hc).1
        omega
      have hch : leftChildID r (labelIdxOfKey (knOf keys i) ws r.big)
          = (((r.firstChild + k : Nat) : Int) - 1, true) := by
        rw [labelIdxOfKey_eq_labelAt _ _ _ (fun hb => (hbig hb).1)]
        show leftChildID r (labelOf keys ws r.big i) = _
        rw [← hkl, leftChildID_of_label r hpw k hk']
        congr 1; omega
      rw [getIDLoop_inner_go _ _ _ _ _ ws (r.firstChild + k) r hview hstep hwsl hch]
      by_cases hwl : ws = (knOf keys i).length
      · -- the `i == l` shortcut: the child is the singleton {i}
        rw [if_pos hwl]
        have hl0 : r.labels[k] = 0 := by
          rw [hkl]; unfold labelOf; rw [labelAt_eq_zero_iff]; omega
        obtain ⟨c', hc', hsubc, hnodec⟩ := hq (r.firstChild + k) hcid
        rw [hc] at hc'; cases hc'
        cases hnc : t.nodes[r.firstChild + k] with
        | leaf ith lp =>
          rw [hnc] at hnodec
          obtain ⟨h1e, hidx, _⟩ := hnodec
          have his : c.s = i := by omega
          refine ⟨r.firstChild + k, ith, lp, ws, ?_, ?_, his ▸ hidx, hwsl⟩
          · rw [leafPrefOf_end _ _ _ hwl]
          · rw [Array.getElem?_eq_some_iff]; exact ⟨hcid, hnc⟩
        | inner rc =>
          rw [hnc] at hnodec
          exfalso
          have h2c : c.s + 2 ≤ c.e := hnodec.1
          have ha := (hciff c.s hcs (by omega)).mp ⟨Nat.le_refl _, by omega⟩
          have hb := (hciff (c.s + 1) (by omega) (by omega)).mp ⟨by omega, by omega⟩
          rw [hl0] at ha hb
          have hleK := hsub.le
          refine no_two_label0 keys hasc ws r.big c.s (by omega) ha hb ?_
          rw [(hall c.s hcs (by omega)).2, (hall (c.s + 1) (by omega) (by omega)).2]
      · rw [if_neg hwl]
        have hlne : r.labels[k] ≠ 0 := by
          rw [hkl]; unfold labelOf; rw [Ne, labelAt_eq_zero_iff]; omega
        have hfb : ws + wordSize r.big = c.fb := by
          rw [hcfb]; unfold labelLen wordSize; rw [if_neg hlne]
        rw [hfb]
        exact ih (r.firstChild + k) c fuel (by omega) (by omega) hc hic.1 hic.2


end Descent


open Descent in
/-- **Descent theorem.**  In a well-formed trie `GetID` on a kept key returns the id of a leaf
    whose recorded key index is exactly that key. -/
theorem getID_kept (keys : List Bytes) (keep : List Bool) (t : Trie1)
    (hasc : strictAsc keys = true)
    (hwf : WF keys keep t) (i : Nat) (hi : i < keys.length) (hk : keptAt keep i = true) :
    ∃ id ith lp, getID t.view (keys.getD i []) = .ok (some id) ∧
      t.nodes[id]? = some (.leaf ith lp) ∧ t.leafKeyIdx[ith]? = some i := by
  obtain ⟨queue, hsz, hroot, hq⟩ := hwf
  have h0 : 0 < t.nodes.size := by
    have : 0 < queue.size := (Array.getElem?_eq_some_iff.mp hroot).1
    omega
  obtain ⟨id, ith, lp, fb, hloop, hnode, hidx, hfb⟩ :=
    getIDLoop_kept keys keep t queue hasc hsz hq i hk t.nodes.size 0 _ (t.nodes.size + 1)
      (by omega) (by omega) hroot (Nat.zero_le _) hi
  refine ⟨id, ith, lp, ?_, hnode, hidx⟩
  have hempty : t.view.isEmpty = false := by
    show (t.nodes.size == 0) = false
    exact beq_false_of_ne (by omega)
  have hcnt : t.view.nodeCnt = t.nodes.size := rfl
  have hlpo : t.view.leafPrefixesOn = t.opt.leaf := rfl
  unfold knOf at hloop hfb
  generalize keys.getD i [] = key at hloop hfb ⊢
  simp only [getID, hempty, hcnt, hloop, hlpo, bind, Except.bind, pure, Except.pure]
  cases hl : t.opt.leaf with
  | false => simp
  | true =>
    by_cases hfl : fb = (nibs key).length
    · simp [hfl, leafPrefOf_end]
    · have hlt : fb < (nibs key).length := by omega
      rw [leafPrefOf_lt _ _ _ hlt hl]
      simp [hfl]
      omega

/-! ### facts about `build` consumed by the property theorems -/

namespace Descent

/-- a successful `build` on a non-empty key list went through `build.go` after the order and
    length checks -/
theorem build_ok_inv (keys : List Bytes) (vals : Option (List Bytes)) (opt : Opt) (t : Trie1)
    (hb : build keys vals opt = .ok t) (hne : keys ≠ []) :
    strictAsc keys = true ∧ build.go keys vals opt keys.length = .ok t := by
  have hn : ¬ keys.length = 0 := by
    intro h; exact hne (List.length_eq_zero_iff.mp h)
  unfold build at hb
  simp only [hn, if_false] at hb
  cases hs : strictAsc keys with
  | false => simp [hs] at hb
  | true =>
    simp only [hs, Bool.not_true, Bool.false_eq_true, if_false] at hb
    refine ⟨rfl, ?_⟩
    cases vals with
    | none => exact hb
    | some vs =>
      simp only at hb
      split at hb
      · cases hb
      · exact hb

theorem build_go_fields (keys : List Bytes) (vals : Option (List Bytes)) (opt : Opt) (n : Nat)
    (t : Trie1) (hb : build.go keys vals opt n = .ok t) :
    t.opt = opt ∧
    t.elts = vals.map (fun vs => t.leafKeyIdx.toList.map (fun i => vs.getD i [])) := by
  unfold build.go at hb
  simp only at hb
  split at hb
  · cases hb
  · cases hb
    exact ⟨rfl, rfl⟩

end Descent
