import Generated.Facts
/-
  SlimProps.Bridge.C20 — tie 1, fact group "c20" of lean/Generated/Facts.lean (regenerated from /repo's
  working tree by harness/cmd/extract on every run).  One module per fact group: when the extractor
  cannot find a group's facts, or a fact changed, only this module stops compiling and only the
  properties that rely on it report the broken tie.
-/
namespace Bridge

/-! ### C20: the caller's buffer is only handed to `bytes.NewReader`; options are copied first -/
theorem unmarshalBufUses : Generated.unmarshalBufUses = ["bytes.NewReader(buf)", "bytes.NewReader(buf)"] := rfl
theorem newSlimTrieOptFlow : Generated.newSlimTrieOptFlow =
    ["opt := Opt{}", "opt = opts[0]", "normalizeOpt(&opt)", "ns, err := newSlim(keys, vals, &opt)",
     "newSlim(keys, vals, &opt)"] := rfl


end Bridge
