package wire

import (
	"bytes"
	"encoding/binary"
	"fmt"
	"math/rand"
	"os"
	"path/filepath"
	"sort"
	"strconv"
	"strings"

	"github.com/golang/protobuf/proto"
	"github.com/openacid/low/pbcmpl"
	"github.com/openacid/slim/encode"
	"github.com/openacid/slim/trie"

	"slimverif/harness/gen"
	"slimverif/harness/lp"
)

const fixtureDir = "/repo/trie/testdata"

var encNames = []string{"i32", "i64", "u16", "i8", "s16", "bytes3", "none"}

// ---------------------------------------------------------------- building real tries

func optOf(i int) trie.Opt {
	return trie.Opt{
		DedupValue:  trie.Bool(i&1 != 0),
		InnerPrefix: trie.Bool(i&2 != 0),
		LeafPrefix:  trie.Bool(i&4 != 0),
		Complete:    trie.Bool(i&8 != 0),
	}
}

// runs assigns a value number to every key: runs of equal numbers so that
// DedupValue has something to drop.
func runs(r *rand.Rand, n int) []int {
	out := make([]int, n)
	v := 0
	maxRun := 1 + r.Intn(4)
	for i := 0; i < n; {
		l := 1 + r.Intn(maxRun)
		for j := 0; j < l && i < n; j++ {
			out[i] = v
			i++
		}
		v++
	}
	return out
}

func valuesOf(enc string, rs []int, salt int) (encode.Encoder, interface{}) {
	n := len(rs)
	switch enc {
	case "i32":
		v := make([]int32, n)
		for i, x := range rs {
			v[i] = int32(x*2654435761 + salt)
		}
		return encode.I32{}, v
	case "i64":
		v := make([]int64, n)
		for i, x := range rs {
			v[i] = int64(x)*0x9E3779B97F4A7C1 + int64(salt)
		}
		return encode.I64{}, v
	case "u16":
		v := make([]uint16, n)
		for i, x := range rs {
			v[i] = uint16(x*40503 + salt)
		}
		return encode.U16{}, v
	case "i8":
		v := make([]int8, n)
		for i, x := range rs {
			v[i] = int8(x*37 + salt)
		}
		return encode.I8{}, v
	case "s16":
		v := make([]string, n)
		for i, x := range rs {
			v[i] = strings.Repeat(string(rune('a'+x%26)), (x*7+salt)%6)
		}
		return encode.String16{}, v
	case "bytes3":
		v := make([][]byte, n)
		for i, x := range rs {
			v[i] = []byte{byte(x), byte(x >> 8), byte(salt)}
		}
		return encode.Bytes{Size: 3}, v
	}
	return encode.I32{}, nil
}

// build creates the trie twice from equal input and marshals both.
func build(keys []string, opt int, enc string, rs []int, salt int) (s1, s2 []byte, st *trie.SlimTrie, err error) {
	defer func() {
		if r := recover(); r != nil {
			err = fmt.Errorf("panic: %v", r)
		}
	}()
	e, vals := valuesOf(enc, rs, salt)
	st, err = trie.NewSlimTrie(e, keys, vals, optOf(opt))
	if err != nil {
		return
	}
	s1, err = st.Marshal()
	if err != nil {
		return
	}
	e2, vals2 := valuesOf(enc, rs, salt)
	st2, err2 := trie.NewSlimTrie(e2, append([]string(nil), keys...), vals2, optOf(opt))
	if err2 != nil {
		err = err2
		return
	}
	s2, err = st2.Marshal()
	return
}

func sizeClass(n int) string {
	switch {
	case n == 0:
		return "0"
	case n == 1:
		return "1"
	case n <= 16:
		return "2-16"
	case n <= 256:
		return "17-256"
	case n <= 4096:
		return "257-4096"
	}
	return ">4096"
}

func keySet(r *rand.Rand, i int, size int) gen.KeySet {
	switch i % 12 {
	case 0:
		return gen.KeySet{Keys: nil, Class: "empty"}
	case 1:
		ks := gen.Random(r, 3, 6)
		if len(ks.Keys) == 0 {
			ks.Keys = []string{"k"}
		}
		return gen.KeySet{Keys: ks.Keys[:1], Class: "single"}
	case 2:
		return gen.KeySet{Keys: []string{""}, Class: "single-empty-key"}
	}
	return gen.Any(r, size)
}

// ---------------------------------------------------------------- a tiny top-level field splitter (generator side only)

type rawField struct {
	num  uint64
	wire int
	raw  []byte // key + value bytes as they appear
	val  []byte // payload (wire 2) or the varint bytes (wire 0)
}

func splitTop(body []byte) ([]rawField, bool) {
	var out []rawField
	for len(body) > 0 {
		x, n := proto.DecodeVarint(body)
		if n == 0 {
			return nil, false
		}
		f := rawField{num: x >> 3, wire: int(x & 7)}
		rest := body[n:]
		var l int
		switch f.wire {
		case 0:
			_, k := proto.DecodeVarint(rest)
			if k == 0 {
				return nil, false
			}
			l = k
			f.val = rest[:k]
		case 1:
			l = 8
		case 5:
			l = 4
		case 2:
			m, k := proto.DecodeVarint(rest)
			if k == 0 || uint64(len(rest)-k) < m {
				return nil, false
			}
			l = k + int(m)
			f.val = rest[k:l]
		default:
			return nil, false
		}
		if len(rest) < l {
			return nil, false
		}
		f.raw = body[:n+l]
		out = append(out, f)
		body = body[n+l:]
	}
	return out, true
}

func joinFields(fs []rawField) []byte {
	var b []byte
	for _, f := range fs {
		b = append(b, f.raw...)
	}
	return b
}

func key(num uint64, wire int) []byte { return proto.EncodeVarint(num<<3 | uint64(wire)) }

func lenDelim(num uint64, payload []byte) []byte {
	b := key(num, 2)
	b = append(b, proto.EncodeVarint(uint64(len(payload)))...)
	return append(b, payload...)
}

// unknownField makes a well-formed field the Slim message does not know.
func unknownField(r *rand.Rand) []byte {
	nums := []uint64{1, 2, 12, 13, 15, 16, 19, 21, 33, 59, 61, 100, 2047, 2048, 1 << 20, 1<<29 - 1}
	num := nums[r.Intn(len(nums))]
	switch r.Intn(6) {
	case 0: // the retired scalars of 0.5.10 look like this
		return append(key(num, 0), proto.EncodeVarint(uint64(r.Intn(1<<20)))...)
	case 1:
		b := key(num, 1)
		v := make([]byte, 8)
		r.Read(v)
		return append(b, v...)
	case 2:
		v := make([]byte, r.Intn(20))
		r.Read(v)
		return lenDelim(num, v)
	case 3:
		b := key(num, 5)
		v := make([]byte, 4)
		r.Read(v)
		return append(b, v...)
	case 4: // a group with one varint member and a nested group
		b := key(num, 3)
		b = append(b, key(7, 0)...)
		b = append(b, proto.EncodeVarint(uint64(r.Intn(1000)))...)
		b = append(b, key(9, 3)...)
		b = append(b, lenDelim(3, []byte("xy"))...)
		b = append(b, key(9, 4)...)
		return append(b, key(num, 4)...)
	default: // a known number with a wire type its unmarshaler refuses
		known := []uint64{11, 14, 20, 30, 31, 38, 58, 60}
		num = known[r.Intn(len(known))]
		if num == 11 || num == 14 {
			return lenDelim(num, []byte{1, 2, 3})
		}
		return append(key(num, 0), proto.EncodeVarint(uint64(r.Intn(100)))...)
	}
}

// inModel says whether the model's structures can hold what Go decoded:
// no negative int32 anywhere, no unknown fields inside nested messages.
func bmIn(b *trie.Bitmap) bool {
	if b == nil {
		return true
	}
	for _, v := range b.RankIndex {
		if v < 0 {
			return false
		}
	}
	for _, v := range b.SelectIndex {
		if v < 0 {
			return false
		}
	}
	return len(b.XXX_unrecognized) == 0
}

func vlIn(v *trie.VLenArray) bool {
	if v == nil {
		return true
	}
	return v.N >= 0 && v.EltCnt >= 0 && v.FixedSize >= 0 && bmIn(v.PositionBM) && bmIn(v.PresenceBM) &&
		len(v.XXX_unrecognized) == 0
}

func slimInModel(body []byte) bool {
	m := &trie.Slim{}
	if err := proto.Unmarshal(body, m); err != nil {
		return true // errors are compared
	}
	return m.BigInnerCnt >= 0 && m.ShortSize >= 0 && bmIn(m.NodeTypeBM) && bmIn(m.Inners) && bmIn(m.ShortBM) &&
		vlIn(m.InnerPrefixes) && vlIn(m.LeafPrefixes) && vlIn(m.Leaves)
}

// ---------------------------------------------------------------- C05 (wire half)

func genC05(c *lp.Ctx) {
	r := c.Rng
	c.Comment("C05 wire: varints")
	vals := []uint64{0, 1, 2, 127, 128, 129, 255, 256, 16383, 16384, 1<<21 - 1, 1 << 21, 1<<28 - 1, 1 << 28,
		1<<31 - 1, 1 << 31, 1<<32 - 1, 1 << 32, 1<<35 - 1, 1 << 35, 1<<42 - 1, 1 << 42, 1<<49 - 1, 1 << 49,
		1<<56 - 1, 1 << 56, 1<<63 - 1, 1 << 63, 1<<64 - 1}
	for i := 0; i < c.Pick(200, 2000); i++ {
		vals = append(vals, r.Uint64()>>uint(r.Intn(64)))
	}
	for _, v := range vals {
		ans := c.Do("wire.varint " + strconv.FormatUint(v, 10))
		want := lp.X(proto.EncodeVarint(v)) + " " + strconv.FormatUint(v, 10) + " " + strconv.Itoa(proto.SizeVarint(v))
		c.Case("varint", true)
		c.Hit("varint/len" + strconv.Itoa(proto.SizeVarint(v)))
		if ans != want {
			c.Violate(lp.Violation{What: "varint round trip", Script: []string{"wire.varint " + strconv.FormatUint(v, 10)}, Expected: want, Got: ans})
		}
	}
	// non-minimal, over-long and unterminated varints
	mal := [][]byte{{}, {0x80}, {0x80, 0x00}, {0x81, 0x80, 0x00}, {0xff, 0xff, 0xff, 0xff, 0xff, 0xff, 0xff, 0xff, 0xff, 0x01},
		{0xff, 0xff, 0xff, 0xff, 0xff, 0xff, 0xff, 0xff, 0xff, 0x02}, {0xff, 0xff, 0xff, 0xff, 0xff, 0xff, 0xff, 0xff, 0xff, 0x7f},
		{0x80, 0x80, 0x80, 0x80, 0x80, 0x80, 0x80, 0x80, 0x80, 0x00}, {0x80, 0x80, 0x80, 0x80, 0x80, 0x80, 0x80, 0x80, 0x80, 0x80, 0x00},
		{0x80, 0x80, 0x80, 0x80, 0x80, 0x80, 0x80, 0x80, 0x80, 0x80}, {0xff, 0xff}, {0x80, 0x80, 0x80, 0x80, 0x80, 0x80, 0x80, 0x80, 0x80, 0x01}}
	for i := 0; i < c.Pick(100, 1000); i++ {
		n := 1 + r.Intn(11)
		b := make([]byte, n)
		for j := range b {
			b[j] = byte(r.Intn(256)) | 0x80
		}
		if r.Intn(4) != 0 {
			b[n-1] &= 0x7f
			if r.Intn(2) == 0 {
				b[n-1] &= 0x01
			}
		}
		mal = append(mal, b)
	}
	for _, b := range mal {
		c.Do("wire.unvarint " + lp.X(b))
		c.Case("unvarint", true)
		c.Hit("unvarint/len" + strconv.Itoa(len(b)))
	}

	c.Comment("C05 wire: real tries, all 16 option combinations, several encoders")
	nTries := c.Pick(640, 4000)
	for i := 0; i < nTries; i++ {
		size := 40
		switch {
		case i%40 == 39:
			size = c.Pick(3000, 30000)
		case i%8 == 7:
			size = 400
		}
		ks := keySet(r, i, size)
		opt := i % 16
		enc := encNames[(i/16+i)%len(encNames)]
		rs := runs(r, len(ks.Keys))
		salt := r.Intn(1000)
		s1, s2, st, err := build(ks.Keys, opt, enc, rs, salt)
		desc := fmt.Sprintf("class=%s n=%d opt=%d enc=%s", ks.Class, len(ks.Keys), opt, enc)
		if err != nil {
			c.Hit("build-failed/" + enc)
			c.Notes = append(c.Notes, "build failed: "+desc+": "+err.Error())
			continue
		}
		c.Case(desc+fmt.Sprint(i), len(ks.Keys) > 1)
		c.Hit("keys/" + sizeClass(len(ks.Keys)))
		c.Hit("opt/" + strconv.Itoa(opt))
		c.Hit("enc/" + enc)
		c.Hit("class/" + ks.Class)
		c.Sample(desc + " streamlen=" + strconv.Itoa(len(s1)))
		script := []string{"# " + desc}
		viol := func(what, exp, got string) {
			c.Violate(lp.Violation{What: what + " (" + desc + ")", Script: script, Expected: exp, Got: got})
		}
		// deterministic: equal input, equal bytes
		if !bytes.Equal(s1, s2) {
			viol("building twice from equal input gives different bytes", lp.X(s1), lp.X(s2))
		}
		// advertised size
		if proto.Size(st) != len(s1) {
			viol("proto.Size(st) != len(Marshal())", strconv.Itoa(len(s1)), strconv.Itoa(proto.Size(st)))
		}
		body := s1[32:]
		inner := &trie.Slim{}
		if err := proto.Unmarshal(body, inner); err != nil {
			viol("body does not decode", "nil", err.Error())
			continue
		}
		if pbcmpl.Size(inner) != len(s1) || proto.Size(inner) != len(body) {
			viol("pbcmpl.Size / proto.Size of the inner message", strconv.Itoa(len(s1)), strconv.Itoa(pbcmpl.Size(inner)))
		}
		if pm, err := proto.Marshal(st); err != nil || !bytes.Equal(pm, s1) {
			viol("proto.Marshal(st) != st.Marshal()", lp.X(s1), lp.X(pm))
		}
		line := "wire.unmarshal " + lp.X(s1)
		script = append(script, line)
		if ans := c.Do(line); !strings.HasPrefix(ans, "current ") {
			viol("a marshalled trie does not load as the current layout", "current …", ans)
		}
		line = "wire.remarshal " + lp.X(s1)
		script = append(script, line)
		if ans := c.Do(line); !strings.HasPrefix(ans, "same len="+strconv.Itoa(len(s1))+" ") {
			viol("re-marshalling a loaded trie does not reproduce the bytes", "same len="+strconv.Itoa(len(s1)), ans)
		}
		line = "wire.decode " + lp.X(body)
		script = append(script, line)
		if ans := c.Do(line); !strings.HasSuffix(ans, " re=same size="+strconv.Itoa(len(body))) {
			viol("decode then encode of a real body is not the identity / size differs", "re=same size="+strconv.Itoa(len(body)), ans)
		}

		// the liberties of the wire format, on the same body
		fs, ok := splitTop(body)
		if !ok {
			viol("generator cannot split a real body", "fields", "error")
			continue
		}
		if len(body) > 20000 && i%3 != 0 {
			continue
		}
		// (a) unknown fields appended / inserted: kept, written back last
		{
			var unk []byte
			mut := append([]rawField(nil), fs...)
			for k := 0; k < 1+r.Intn(3); k++ {
				u := unknownField(r)
				pos := r.Intn(len(mut) + 1)
				mut = append(mut[:pos], append([]rawField{{raw: u, wire: -1}}, mut[pos:]...)...)
			}
			for _, f := range mut {
				if f.wire == -1 {
					unk = append(unk, f.raw...)
				}
			}
			b := joinFields(mut)
			m := &trie.Slim{}
			if err := proto.Unmarshal(b, m); err != nil {
				viol("unknown fields make the body undecodable", "nil", err.Error())
			} else if !bytes.Equal(m.XXX_unrecognized, unk) {
				viol("unknown fields are not preserved in order", lp.X(unk), lp.X(m.XXX_unrecognized))
			} else if re, _ := proto.Marshal(m); !bytes.Equal(re, append(append([]byte(nil), body...), unk...)) {
				viol("unknown fields are not written back after the known ones", "body+unknown", lp.X(re))
			}
			c.Do("wire.decode " + lp.X(b))
			c.Hit("mut/unknown")
		}
		// (b) any field order decodes to the same message
		if len(fs) > 1 {
			mut := append([]rawField(nil), fs...)
			r.Shuffle(len(mut), func(a, b int) { mut[a], mut[b] = mut[b], mut[a] })
			b := joinFields(mut)
			m := &trie.Slim{}
			if err := proto.Unmarshal(b, m); err != nil {
				viol("shuffled fields do not decode", "nil", err.Error())
			} else if re, _ := proto.Marshal(m); !bytes.Equal(re, body) {
				viol("shuffled fields decode to a different message", lp.X(body), lp.X(re))
			}
			c.Do("wire.decode " + lp.X(b))
			c.Hit("mut/shuffle")
		}
		// (c) unpacked repeated ShortTable, split packed runs, sub-message split in two (merge)
		{
			var b []byte
			for _, f := range fs {
				switch {
				case f.num == 32 && f.wire == 2 && len(f.val) > 0:
					// first element unpacked, the rest packed
					_, k := proto.DecodeVarint(f.val)
					b = append(b, key(32, 0)...)
					b = append(b, f.val[:k]...)
					b = append(b, lenDelim(32, f.val[k:])...)
				case (f.num == 20 || f.num == 30 || f.num == 60) && f.wire == 2:
					sub, ok := splitTop(f.val)
					if !ok || len(sub) < 2 {
						b = append(b, f.raw...)
						continue
					}
					cut := 1 + r.Intn(len(sub)-1)
					b = append(b, lenDelim(f.num, joinFields(sub[:cut]))...)
					b = append(b, lenDelim(f.num, joinFields(sub[cut:]))...)
				default:
					b = append(b, f.raw...)
				}
			}
			if !bytes.Equal(b, body) {
				m := &trie.Slim{}
				if err := proto.Unmarshal(b, m); err != nil {
					viol("unpacked / split encoding does not decode", "nil", err.Error())
				} else if re, _ := proto.Marshal(m); !bytes.Equal(re, body) {
					viol("unpacked / split encoding decodes to a different message", lp.X(body), lp.X(re))
				}
				c.Do("wire.decode " + lp.X(b))
				c.Hit("mut/unpacked+merge")
			}
		}
		// (d) hostile: truncated bodies and byte flips (answers compared with the model only)
		for k := 0; k < 7 && len(body) > 0; k++ {
			var b []byte
			switch {
			case k == 0:
				b = body[:r.Intn(len(body))]
			case k <= 3: // one bit flipped, biased to the front (keys and lengths of the top-level fields)
				b = append([]byte(nil), body...)
				pos := r.Intn(len(b))
				if len(b) > 64 && r.Intn(2) == 0 {
					pos = r.Intn(64)
				}
				b[pos] ^= byte(1 << uint(r.Intn(8)))
			case k == 4: // one byte replaced
				b = append([]byte(nil), body...)
				b[r.Intn(len(b))] = byte(r.Intn(256))
			case k == 5: // one byte deleted
				pos := r.Intn(len(body))
				b = append(append([]byte(nil), body[:pos]...), body[pos+1:]...)
			default: // one byte inserted
				pos := r.Intn(len(body) + 1)
				b = append(append(append([]byte(nil), body[:pos]...), byte(r.Intn(256))), body[pos:]...)
			}
			if len(b) > 20000 {
				continue
			}
			if !slimInModel(b) {
				c.Hit("mut/out-of-model(negative int32 or nested unknown field)")
				continue
			}
			ans := c.Do("wire.decode " + lp.X(b))
			c.Hit("mut/hostile/" + strings.SplitN(ans, " ", 2)[0])
		}
	}

	c.Comment("C05 wire: hand-made bodies (proto3 presence rules)")
	hand := [][]byte{
		{},
		{0xa2, 0x01, 0x00},                   // NodeTypeBM: non-nil, empty
		{0xa2, 0x01, 0x00, 0xa2, 0x01, 0x00}, // twice
		{0x58, 0x00},                         // explicit zero scalar
		{0x58, 0x05, 0x58, 0x00},             // last one wins
		{0x58, 0x85, 0x80, 0x80, 0x80, 0x10}, // int32 truncation of a 33-bit value
		{0x82, 0x02, 0x00},                   // empty packed ShortTable
		{0x80, 0x02, 0xff, 0xff, 0xff, 0xff, 0x1f}, // uint32 truncation
		{0x00}, // tag 0
		{0x00, 0x00},
		{0x07},                               // wire type 7
		{0x5c},                               // field 11 end group
		{0x5b, 0x5c},                         // field 11 group: unknown
		{0x5b},                               // unterminated group
		{0xe2, 0x03, 0x02, 0xf2, 0x01},       // Leaves with a truncated sub-field
		{0xe2, 0x03, 0x05},                   // length beyond the end
		{0x60, 0x01, 0x68, 0x02, 0x78, 0x03}, // retired fields 12, 13, 15
		{0xd8, 0x80, 0x00, 0x01},             // non-minimal key of field 11
		{0xe0, 0x80, 0x00, 0x01},             // non-minimal key of unknown field 12: re-encoded canonically
	}
	for _, b := range hand {
		if slimInModel(b) {
			c.Do("wire.decode " + lp.X(b))
			c.Case("hand", true)
		}
	}

	c.Comment("C05 wire: archived 0.5.10 bodies and legacy sections")
	for _, fx := range fixtures(c) {
		if len(fx.data) > c.Pick(40000, 4000000) {
			continue
		}
		if strings.HasSuffix(fx.name, "0.5.10") {
			c.Do("wire.decode " + lp.X(fx.data[32:]))
			c.Hit("fixture/0.5.10")
		} else {
			ans := c.Do("wire.sections " + lp.X(fx.data))
			if !strings.HasPrefix(ans, "ok ") || !strings.HasSuffix(ans, " rest=0") {
				c.Violate(lp.Violation{What: "legacy fixture is not three sections: " + fx.name, Expected: "ok … rest=0", Got: ans})
			}
			// each section alone
			rd := bytes.NewReader(fx.data)
			for k := 0; k < 3; k++ {
				_, h, err := pbcmpl.ReadHeader(rd)
				if err != nil {
					break
				}
				b := make([]byte, h.GetBodySize())
				rd.Read(b)
				c.Do("wire.decode-array " + lp.X(b))
			}
			c.Hit("fixture/legacy")
		}
		c.Case("fixture/"+fx.name, true)
	}
}

// ---------------------------------------------------------------- fixtures

type fixture struct {
	name string
	data []byte
}

func fixtures(c *lp.Ctx) []fixture {
	ents, err := os.ReadDir(fixtureDir)
	if err != nil {
		c.Notes = append(c.Notes, "cannot read fixtures: "+err.Error())
		return nil
	}
	var out []fixture
	for _, e := range ents {
		if !strings.HasPrefix(e.Name(), "slimtrie-data-") {
			continue
		}
		b, err := os.ReadFile(filepath.Join(fixtureDir, e.Name()))
		if err != nil {
			continue
		}
		out = append(out, fixture{e.Name(), b})
	}
	sort.Slice(out, func(i, j int) bool { return out[i].name < out[j].name })
	return out
}

// ---------------------------------------------------------------- C07

type verCase struct {
	v      string
	compat bool
	class  string
}

func versionFamily(r *rand.Rand, n int) []verCase {
	var out []verCase
	add := func(v string, compat bool, class string) {
		if len(v) <= 16 { // the header field holds 16 bytes
			out = append(out, verCase{v, compat, class})
		}
	}
	ok := map[string]bool{"1.0.0": true, "0.5.8": true, "0.5.9": true, "0.5.10": true, "0.5.11": true, "0.5.12": true}
	// every released 0.5.x and neighbours
	for p := 0; p <= 40; p++ {
		v := fmt.Sprintf("0.5.%d", p)
		add(v, ok[v], "0.5.x")
	}
	for _, v := range []string{"0.5.13", "0.5.14", "0.5.100", "0.5.18446744073", "0.6.0", "0.6.1", "0.9.9", "0.10.0",
		"1.0.1", "1.0.10", "1.1.0", "1.5.12", "2.0.0", "2.5.12", "10.0.0", "0.0.0", "0.4.12", "0.4.3", "0.0.1", "1.0.0"} {
		add(v, ok[v], "successors")
	}
	for v := range ok {
		// pre-release: never equal to the release; build meta data: ignored by the comparison
		add(v+"-rc1", false, "pre-release")
		add(v+"-0", false, "pre-release")
		add(v+"-a.b.1", false, "pre-release")
		add(v+"+b", true, "build")
		add(v+"+b.1-x", true, "build")
		add(v+"-rc1+b", false, "pre+build")
		add(v+"+", false, "malformed")
		add(v+"-", false, "malformed")
		add(v+"+b..c", false, "malformed")
		add(v+"-a..b", false, "malformed")
		add(v+"-01", false, "malformed")
		add(v+"-0a", false, "pre-release")
		add(v+"+01", true, "build")
		add(v+"+b_c", false, "malformed")
		add(" "+v, false, "spaces")
		add(v+" ", false, "spaces")
		add("v"+v, false, "malformed")
		add("="+v, false, "malformed")
		add("=="+v, false, "malformed")
		add(v+".0", false, "malformed")
		add("0"+v, false, "leading-zero")
		add(strings.Replace(v, ".", ".0", 1), false, "leading-zero")
		add(strings.Replace(v, ".", "..", 1), false, "malformed")
		add(v+"\x00", true, "nul-padded")
		add(v+"\x00\x00\x00", true, "nul-padded")
		add(v+"\x00x", false, "malformed")
		add("\x00"+v, false, "malformed")
		add(v+"\xff", false, "non-ascii")
		add(v+"-\xc3\xa9", false, "non-ascii")
		add(v+"+\xc3\xa9", false, "non-ascii")
	}
	// numeric aliases: components that only differ from a compatible version beyond 8, 16, 32 or 64 bits,
	// or that spell the same packed number with a carry between the components
	for v := range ok {
		var a, b, p uint64
		fmt.Sscanf(v, "%d.%d.%d", &a, &b, &p)
		for _, w := range []uint64{1 << 8, 1 << 16, 1 << 31, 1 << 32, 1 << 63} {
			add(fmt.Sprintf("%d.%d.%d", a, b, p+w), false, "alias")
			add(fmt.Sprintf("%d.%d.%d", a, b+w, p), false, "alias")
			add(fmt.Sprintf("%d.%d.%d", a+w, b, p), false, "alias")
			if b > 0 && w < 1<<62 {
				add(fmt.Sprintf("%d.%d.%d", a, b-1, p+w), false, "alias")
				add(fmt.Sprintf("%d.%d.%d", a, 0, p+w*b), false, "alias")
			}
			if a > 0 && w < 1<<62 {
				add(fmt.Sprintf("%d.%d.%d", a-1, b+w, p), false, "alias")
				add(fmt.Sprintf("%d.%d.%d", 0, 0, p+w*b+w*w*a), false, "alias")
			}
		}
		add(fmt.Sprintf("%d.%d.1844674407370955%d", a, b, 1616+p), false, "alias") // 2^64 + p
		add(fmt.Sprintf("%d.%d.%d", a, b, p+1000), false, "alias")
		add(fmt.Sprintf("%d.%d.%d", a, b+10, p), false, "alias")
	}
	add("0.256.0", false, "alias")
	add("0.0.65536", false, "alias")
	add("0.0.16777216", false, "alias")
	add("00.5.12", false, "leading-zero")
	add("0.05.12", false, "leading-zero")
	add("0.5.012", false, "leading-zero")
	add("0.5.12.0", false, "malformed")
	add("0.5", false, "malformed")
	add("0", false, "malformed")
	add("", false, "empty")
	add(".", false, "malformed")
	add("..", false, "malformed")
	add("...", false, "malformed")
	add("0..12", false, "malformed")
	add(".5.12", false, "malformed")
	add("0.5.", false, "malformed")
	add("a.b.c", false, "malformed")
	add("0.5.x", false, "malformed")
	add("0.5.12abc", false, "malformed")
	add("+0.5.12", false, "malformed")
	add("-0.5.12", false, "malformed")
	add("0.5.-12", false, "malformed")
	add("0.5.+12", false, "malformed")
	add("٠.٥.١٢", false, "non-ascii")
	// exactly 16 bytes, no terminator
	add("0.5.12+bbbbbbbbb", true, "16-byte")
	add("0.5.12-rc1.2.3.4", false, "16-byte")
	add("1.0.0+0123456789", true, "16-byte")
	add("0.5.120000000000", false, "16-byte")
	add("1111111111111111", false, "16-byte")
	add("0.5.12\x00\x00\x00\x00\x00\x00\x00\x00\x00x", false, "16-byte")
	add("99999999999999.0", false, "16-byte")
	add("1.0.000000000000", false, "16-byte")
	add("0.5.11+a.b.c.d.e", true, "16-byte")
	// random strings over the version alphabet and over all bytes
	al := "0123456789..-+ab \x00"
	for i := 0; i < n; i++ {
		l := r.Intn(17)
		b := make([]byte, l)
		switch r.Intn(4) {
		case 0:
			r.Read(b)
		case 1: // three numbers
			s := fmt.Sprintf("%d.%d.%d", r.Intn(3), r.Intn(8), r.Intn(16))
			if r.Intn(3) == 0 {
				s += []string{"-rc", "+b", "-1", "+1", "-", "+", ".1"}[r.Intn(7)]
			}
			b = []byte(s)
		default:
			for j := range b {
				b[j] = al[r.Intn(len(al))]
			}
		}
		if len(b) > 16 {
			b = b[:16]
		}
		s := string(b)
		t := strings.TrimRight(s, "\x00")
		core := t
		if k := strings.IndexByte(core, '+'); k >= 0 && buildOK(core[k+1:]) {
			core = core[:k]
		}
		add(s, ok[core], "random")
	}
	return out
}

// buildOK: dot separated non-empty [0-9A-Za-z-] identifiers (the oracle for "+build" suffixes).
func buildOK(s string) bool {
	for _, p := range strings.Split(s, ".") {
		if p == "" {
			return false
		}
		for _, ch := range []byte(p) {
			if !(ch >= '0' && ch <= '9' || ch >= 'a' && ch <= 'z' || ch >= 'A' && ch <= 'Z' || ch == '-') {
				return false
			}
		}
	}
	return true
}

func relabel(stream []byte, ver string) []byte {
	b := append([]byte(nil), stream...)
	for i := 0; i < 16; i++ {
		b[i] = 0
	}
	copy(b, ver)
	return b
}

// cutStream runs the cut family on one stream: all cuts when small, else the
// cuts around every frame boundary plus a random sample.
func cutStream(c *lp.Ctx, desc string, s []byte, withFull bool, allLimit, samples int) {
	r := c.Rng
	c.Do("wire.stream " + lp.X(s))
	check := func(line, ans string, n int) {
		if ans != "err:truncated*"+strconv.Itoa(n) {
			c.Violate(lp.Violation{What: "a strict prefix is not rejected as truncated (" + desc + ")",
				Script: []string{"wire.stream " + lp.X(s), line}, Expected: "err:truncated*" + strconv.Itoa(n), Got: ans})
		}
	}
	if len(s) <= allLimit {
		if len(s) > 0 {
			line := fmt.Sprintf("wire.cuts 0 %d 1", len(s))
			check(line, c.Do(line), len(s))
		}
		c.Evaluations += len(s)
		c.Hit("cuts/all")
	} else {
		// frame boundaries
		var marks []int
		off := 0
		for off+32 <= len(s) {
			marks = append(marks, off, off+16, off+24, off+32)
			bs := int(binary.LittleEndian.Uint64(s[off+24:]))
			if bs < 0 || off+32+bs > len(s) {
				break
			}
			off += 32 + bs
			marks = append(marks, off)
		}
		seen := map[int]bool{}
		var cuts []int
		for _, m := range marks {
			for d := -3; d <= 3; d++ {
				if n := m + d; n >= 0 && n < len(s) && !seen[n] {
					seen[n] = true
					cuts = append(cuts, n)
				}
			}
		}
		for i := 0; i < samples; i++ {
			if n := r.Intn(len(s)); !seen[n] {
				seen[n] = true
				cuts = append(cuts, n)
			}
		}
		sort.Ints(cuts)
		for _, n := range cuts {
			line := "wire.cut " + strconv.Itoa(n)
			if ans := c.Do(line); ans != "err:truncated" {
				c.Violate(lp.Violation{What: "a strict prefix is not rejected as truncated (" + desc + ")",
					Script: []string{"wire.stream " + lp.X(s), line}, Expected: "err:truncated", Got: ans})
			}
		}
		c.Evaluations += len(cuts)
		c.Hit("cuts/sampled")
	}
	if withFull {
		line := "wire.cut " + strconv.Itoa(len(s))
		if ans := c.Do(line); ans != "ok" {
			c.Violate(lp.Violation{What: "the complete stream is not accepted (" + desc + ")",
				Script: []string{"wire.stream " + lp.X(s), line}, Expected: "ok", Got: ans})
		}
	}
}

func genC07(c *lp.Ctx) {
	r := c.Rng
	c.Comment("C07 wire: version strings")
	for _, vc := range versionFamily(r, c.Pick(1500, 20000)) {
		line := "wire.version " + lp.XS(vc.v)
		ans := c.Do(line)
		c.Case("ver/"+vc.v, true)
		c.Hit("version/" + vc.class)
		want := "incompatible"
		if vc.compat {
			want = "compatible"
		}
		// A version with build meta data equals its release for the comparison, but no writer ever
		// produced one: refusing it is a difference from the model (reported by the diff), not a
		// violation of the property, which only demands that incompatible versions are rejected.
		if vc.compat && strings.Contains(vc.v, "+") {
			c.Hit("version/build-meta-data:model-comparison-only")
		} else if strings.SplitN(ans, " ", 2)[0] != want {
			c.Violate(lp.Violation{What: fmt.Sprintf("version %q", vc.v), Script: []string{line}, Expected: want, Got: ans})
		}
		c.Hit("version-answer/" + strings.SplitN(ans, " ", 2)[0])
		c.Sample(fmt.Sprintf("%q -> %s", vc.v, ans))
	}

	c.Comment("C07 wire: an incompatible version is rejected whatever follows the header")
	for i := 0; i < c.Pick(60, 600); i++ {
		vs := []string{"0.5.13", "0.6.0", "1.0.1", "2.0.0", "0.5.12-rc1", "garbage", "", "0.5.7", "0.5.0"}
		tail := make([]byte, r.Intn(80))
		r.Read(tail)
		h := make([]byte, 32)
		copy(h, vs[r.Intn(len(vs))])
		r.Read(h[16:]) // arbitrary size fields
		line := "wire.unmarshal " + lp.X(append(h, tail...))
		if ans := c.Do(line); ans != "err:incompatible" {
			c.Violate(lp.Violation{What: "incompatible version not rejected first", Script: []string{line}, Expected: "err:incompatible", Got: ans})
		}
		c.Case("incompat-first", true)
	}

	c.Comment("C07 wire: every cut of real streams of the current layout")
	allLimit := c.Pick(1500, 20000)
	nTries := c.Pick(120, 400)
	for i := 0; i < nTries; i++ {
		size := 30
		if i%10 == 9 {
			size = c.Pick(2000, 20000)
		}
		ks := keySet(r, i, size)
		opt := (i * 7) % 16
		enc := encNames[i%len(encNames)]
		s1, _, _, err := build(ks.Keys, opt, enc, runs(r, len(ks.Keys)), r.Intn(100))
		if err != nil {
			c.Hit("build-failed/" + enc)
			continue
		}
		desc := fmt.Sprintf("current class=%s n=%d opt=%d enc=%s len=%d", ks.Class, len(ks.Keys), opt, enc, len(s1))
		c.Case(desc, true)
		c.Hit("stream/current/" + sizeClass(len(ks.Keys)))
		c.Sample(desc)
		cutStream(c, desc, s1, true, allLimit, c.Pick(40, 400))
		// the same body under the other versions of the same schema, and with build meta data
		if opt&(2|8) == 0 { // no inner prefixes: the 0.5.10 conversion of the full stream is the identity
			for _, v := range []string{"0.5.10", "0.5.11", "0.5.12+b"} {
				if i%3 == 0 || len(s1) < 400 {
					cutStream(c, desc+" as "+v, relabel(s1, v), true, allLimit, c.Pick(20, 200))
					c.Hit("stream/relabelled/" + v)
				}
			}
		}
		// trailing bytes after a complete stream are ignored
		if i%5 == 0 {
			line := "wire.unmarshal " + lp.X(append(append([]byte(nil), s1...), 1, 2, 3))
			if ans := c.Do(line); !strings.HasPrefix(ans, "current ") {
				c.Violate(lp.Violation{What: "trailing bytes", Script: []string{line}, Expected: "current …", Got: ans})
			}
		}
	}

	c.Comment("C07 wire: every cut of archived streams (0.5.10 and the three-section legacy layout)")
	fxs := fixtures(c)
	nBig := 0
	for _, fx := range fxs {
		if len(fx.data) > allLimit {
			nBig++
			if c.Quick() && nBig%6 != 0 {
				continue
			}
			if len(fx.data) > c.Pick(300000, 1200000) {
				continue
			}
		}
		desc := "fixture " + fx.name
		c.Case(desc, true)
		c.Sample(desc + " len=" + strconv.Itoa(len(fx.data)))
		if strings.HasSuffix(fx.name, "0.5.10") {
			c.Hit("stream/fixture-0.5.10")
		} else {
			c.Hit("stream/fixture-legacy3")
		}
		cutStream(c, desc, fx.data, true, allLimit, c.Pick(40, 150))
		if len(fx.data) <= allLimit*4 {
			ans := c.Do("wire.unmarshal " + lp.X(fx.data))
			c.Hit("fixture-layout/" + strings.SplitN(ans, " ", 2)[0])
		}
	}

	c.Comment("C07 wire: synthetic three-section streams with every legacy version string")
	for _, v := range []string{"1.0.0", "0.5.8", "0.5.9", "1.0.0+x"} {
		// the empty trie of the legacy layout: three frames with empty bodies
		var s []byte
		for k := 0; k < 3; k++ {
			s = append(s, relabel(probe(nil), v)...)
		}
		cutStream(c, "empty legacy "+v, s, true, allLimit, 0)
		c.Hit("stream/synthetic-legacy3")
	}

	c.Comment("C07 wire: damaged headers")
	{
		base, _, _, _ := build([]string{"a", "b", "c"}, 0, "i32", []int{0, 1, 2}, 0)
		for _, hs := range []uint64{0, 31, 33, 64, 1 << 32, 1<<64 - 1} {
			b := append([]byte(nil), base...)
			binary.LittleEndian.PutUint64(b[16:], hs)
			c.Do("wire.unmarshal " + lp.X(b))
			c.Hit("header/size")
		}
		body := uint64(len(base) - 32)
		for _, bs := range []uint64{0, body - 1, body + 1, body + 1000, 1 << 20, 1<<48 + 1, 1 << 62, 1 << 63, 1<<64 - 1} {
			b := append([]byte(nil), base...)
			binary.LittleEndian.PutUint64(b[24:], bs)
			c.Do("wire.unmarshal " + lp.X(b))
			c.Do("wire.header " + lp.X(b))
			c.Hit("header/bodysize")
		}
	}
	for i := 0; i < c.Pick(100, 1000); i++ {
		b := make([]byte, r.Intn(70))
		r.Read(b)
		c.Do("wire.header " + lp.X(b))
		c.Do("wire.unmarshal " + lp.X(b)) // random version bytes: practically always incompatible or truncated
		if len(b) > 0 && slimInModel(b) {
			c.Do("wire.decode " + lp.X(b))
		}
		c.Hit("garbage")
	}
}
