import SlimProofs.Subtree
import SlimProofs.Runs
/-
  SlimProofs.SearchDescent — the descent of `searchID` on a kept (retained) key of a well-formed
  record array (`WF`), in every option combination.

  * `SearchDescent.srStep`, `srBranch`, `srEpi`     the pieces of one loop iteration / the epilogue,
    with the equation lemmas `searchLoop_leaf`, `searchLoop_inner`, `srStep_prefOf`,
    `srBranch_go`, `searchID_eq`, `srEpi_eq` (after these the model code is never unfolded again)
  * `SearchDescent.LeftOK` / `RightOK`              the meaning of the candidates `lID` / `rID`
    along the path: the subtree that holds the nearest kept key on that side (`none`: no such key)
  * `SearchDescent.left_step` / `right_step`        one branching step preserves them
  * `SearchDescent.searchLoop_kept`                 the loop invariant (induction on
    `t.nodes.size - j`)
  * `searchID_kept`                                 `searchID` on kept key `m` =
    (leaf of the greatest kept key below `m` | none, leaf of `m`, leaf of the smallest kept key
    above `m` | none)

  Depends on `SlimProofs.Subtree` (children are ordered; `rightMost_spec`/`leftMost_spec`) and
  on the order / label lemmas of `SlimProofs.Order` / `SlimProofs.Runs`.  The few lemmas shared
  with the `GetID` descent (SlimProofs.Descent) are copied here under `SearchDescent`.
-/

namespace SearchDescent
open Subtree

/-- the first half of one iteration of `searchID` on an inner node -/
def srStep (pref : Pref) (kn : List Nat) (st : SearchSt) (eqID : Nat) :
    Except Err (Sum SearchSt Nat) :=
  match pref with
  | .stored p =>
    if st.i / 2 > kn.length / 2 then .error (.panic "slice bounds out of range: key[i>>3:]") else
    match cmpUpto (kn.drop (st.i - st.i % 2)) p with
    | .eq => .ok (.inr (st.i - st.i % 2 + p.length))
    | .lt => .ok (.inl { st with rID := some eqID, eqID := none })
    | .gt => .ok (.inl { st with lID := some eqID, eqID := none })
  | .step n =>
    if st.i + n > kn.length then
      .ok (.inl { st with rID := some eqID, eqID := none, i := st.i + n })
    else .ok (.inr (st.i + n))
  | .none =>
    if st.i > kn.length then .ok (.inl { st with rID := some eqID, eqID := none })
    else .ok (.inr st.i)

/-- the second half of one iteration of `searchID` on an inner node -/
def srBranch (v : View) (kn : List Nat) (fuel : Nat) (r : InnerRec) (st : SearchSt) (i : Nat) :
    Except Err SearchSt :=
  let (leftChild, has) := leftChildID r (labelIdxOfKey kn i r.big)
  let chID : Int := leftChild + (if has then 1 else 0)
  let rightChild : Int := chID + 1
  let leftMostChild : Int := r.firstChild
  let rightMostChild : Int := (r.firstChild : Int) + r.labels.length - 1
  let st := { st with i := i }
  let st := if leftChild ≥ leftMostChild ∧ leftChild ≤ rightMostChild
            then { st with lID := some leftChild.toNat } else st
  let st := if rightChild ≥ leftMostChild ∧ rightChild ≤ rightMostChild
            then { st with rID := some rightChild.toNat } else st
  if !has then .ok { st with eqID := none } else
  if i = kn.length then .ok { st with eqID := some chID.toNat } else
  searchLoop v kn fuel { st with i := i + wordSize r.big } chID.toNat

theorem searchLoop_leaf (v : View) (kn : List Nat) (fuel j ith : Nat) (lp : Option Bytes)
    (st : SearchSt) (h : v.node j = .ok (.leaf ith lp)) :
    searchLoop v kn (fuel + 1) st j = .ok { st with eqID := some j, lp := lp } := by
  simp only [searchLoop, h, bind, Except.bind, pure, Except.pure]

theorem searchLoop_inner (v : View) (kn : List Nat) (fuel j : Nat) (r : InnerRec)
    (st : SearchSt) (h : v.node j = .ok (.inner r)) :
    searchLoop v kn (fuel + 1) st j =
      match srStep r.pref kn st j with
      | .error e => .error e
      | .ok (.inl fin) => .ok fin
      | .ok (.inr i) => srBranch v kn fuel r st i := by
  unfold searchLoop
  rw [h]
  show (srStep r.pref kn st j >>= fun x => match x with
    | .inl fin => pure fin
    | .inr i => srBranch v kn fuel r st i) = _
  cases srStep r.pref kn st j with
  | error e => rfl
  | ok x => cases x <;> rfl

theorem srStep_prefOf (opt : Opt) (ks kn : List Nat) (st : SearchSt) (j fb ws : Nat)
    (hi : st.i = fb) (hfb : fb ≤ ws)
    (hlen : ws ≤ kn.length) (hks : ws ≤ ks.length) (hag : kn.take ws = ks.take ws) :
    srStep (prefOf opt ks fb ws) kn st j = .ok (.inr ws) := by
  subst hi
  unfold prefOf
  split
  · have : ¬ st.i > kn.length := by omega
    simp only [srStep, this, if_false]; congr; omega
  · split
    · have hfl : ¬ st.i / 2 > kn.length / 2 := by omega
      have he : st.i - st.i % 2 ≤ ws := by omega
      have hplen : (storedPrefix ks st.i ws).length = ws - (st.i - st.i % 2) := by
        simp only [storedPrefix, List.length_drop, List.length_take]; omega
      have hcmp : cmpUpto (kn.drop (st.i - st.i % 2)) (storedPrefix ks st.i ws) = .eq := by
        unfold cmpUpto
        rw [hplen, ← List.drop_take, hag]
        exact lexCmp_self _
      simp only [srStep, hfl, if_false, hcmp, hplen]
      congr; omega
    · have : ¬ st.i + (ws - st.i) > kn.length := by omega
      simp only [srStep, this, if_false]; congr; omega

set_option linter.unusedSimpArgs false in
/-- one iteration on an inner node, from the branching position `ws`, when the label of the key
    is the `k`-th label of the node -/
theorem srBranch_go (v : View) (kn : List Nat) (fuel : Nat) (r : InnerRec) (st : SearchSt)
    (ws k : Nat) (hk : k < r.labels.length)
    (hch : leftChildID r (labelIdxOfKey kn ws r.big) = ((r.firstChild : Int) - 1 + k, true)) :
    srBranch v kn fuel r st ws =
      if ws = kn.length then
        .ok { lID := if 1 ≤ k then some (r.firstChild + k - 1) else st.lID
              eqID := some (r.firstChild + k)
              rID := if k + 1 < r.labels.length then some (r.firstChild + k + 1) else st.rID
              i := ws, lp := st.lp }
      else
        searchLoop v kn fuel
          { lID := if 1 ≤ k then some (r.firstChild + k - 1) else st.lID
            eqID := st.eqID
            rID := if k + 1 < r.labels.length then some (r.firstChild + k + 1) else st.rID
            i := ws + wordSize r.big, lp := st.lp } (r.firstChild + k) := by
  unfold srBranch
  rw [hch]
  have hC : ((r.firstChild : Int) - 1 + k).toNat = r.firstChild + k - 1 := by omega
  have hD : ((r.firstChild : Int) - 1 + k + 1).toNat = r.firstChild + k := by omega
  have hE : ((r.firstChild : Int) - 1 + k + 1 + 1).toNat = r.firstChild + k + 1 := by omega
  by_cases h1 : 1 ≤ k
  · have hA : ((r.firstChild : Int) - 1 + k ≥ r.firstChild ∧
        (r.firstChild : Int) - 1 + k ≤ (r.firstChild : Int) + r.labels.length - 1) := by omega
    by_cases h2 : k + 1 < r.labels.length
    · have hB : ((r.firstChild : Int) - 1 + k + 1 + 1 ≥ r.firstChild ∧
        (r.firstChild : Int) - 1 + k + 1 + 1 ≤ (r.firstChild : Int) + r.labels.length - 1) := by
        omega
      simp only [if_true, hA, hB, and_self, hC, hD, hE, h1, h2, Bool.not_true, Bool.false_eq_true,
        if_false]
    · have hB : ¬ ((r.firstChild : Int) - 1 + k + 1 + 1 ≥ r.firstChild ∧
        (r.firstChild : Int) - 1 + k + 1 + 1 ≤ (r.firstChild : Int) + r.labels.length - 1) := by
        omega
      simp only [if_true, hA, hB, and_self, hC, hD, hE, h1, h2, Bool.not_true, Bool.false_eq_true,
        if_false]
  · have hA : ¬ ((r.firstChild : Int) - 1 + k ≥ r.firstChild ∧
        (r.firstChild : Int) - 1 + k ≤ (r.firstChild : Int) + r.labels.length - 1) := by omega
    by_cases h2 : k + 1 < r.labels.length
    · have hB : ((r.firstChild : Int) - 1 + k + 1 + 1 ≥ r.firstChild ∧
        (r.firstChild : Int) - 1 + k + 1 + 1 ≤ (r.firstChild : Int) + r.labels.length - 1) := by
        omega
      simp only [if_true, hA, hB, and_self, hC, hD, hE, h1, h2, Bool.not_true, Bool.false_eq_true,
        if_false]
    · have hB : ¬ ((r.firstChild : Int) - 1 + k + 1 + 1 ≥ r.firstChild ∧
        (r.firstChild : Int) - 1 + k + 1 + 1 ≤ (r.firstChild : Int) + r.labels.length - 1) := by
        omega
      simp only [if_true, hA, hB, and_self, hC, hD, hE, h1, h2, Bool.not_true, Bool.false_eq_true,
        if_false]

/-! ### labels, ranks, leaf tails (as in the `GetID` descent) -/

theorem labelIdxOfKey_eq_labelAt (kn : List Nat) (i : Nat) (big : Bool)
    (hal : big = true → i % 2 = 0) :
    labelIdxOfKey kn i big = labelAt kn i big := by
  unfold labelIdxOfKey labelAt
  by_cases h : i < kn.length
  · cases big with
    | false => simp [h, List.getD_eq_getElem?_getD]
    | true =>
      have h0 : i % 2 = 0 := hal rfl
      simp [h, h0, List.getD_eq_getElem?_getD]
  · simp [h]

theorem rankLabels_getElem (labels : List Nat) (hp : labels.Pairwise (· < ·)) (k : Nat)
    (hk : k < labels.length) : rankLabels labels labels[k] = k := by
  unfold rankLabels
  induction labels generalizing k with
  | nil => simp at hk
  | cons a as ih =>
    rw [List.pairwise_cons] at hp
    cases k with
    | zero =>
      simp only [List.getElem_cons_zero]
      rw [List.filter_cons_of_neg (by simp)]
      rw [List.filter_eq_nil_iff.mpr]
      · rfl
      · intro b hb; have := hp.1 b hb; simp; omega
    | succ k =>
      simp only [List.getElem_cons_succ]
      have hk' : k < as.length := by simpa using hk
      have hlt : a < as[k] := hp.1 _ (List.getElem_mem hk')
      rw [List.filter_cons_of_pos (by simpa using hlt)]
      simp [ih hp.2 k hk']

theorem leftChildID_of_label (r : InnerRec) (hp : r.labels.Pairwise (· < ·)) (k : Nat)
    (hk : k < r.labels.length) :
    leftChildID r r.labels[k] = ((r.firstChild : Int) - 1 + k, true) := by
  unfold leftChildID
  rw [rankLabels_getElem _ hp k hk]
  simp

theorem leafPrefOf_end (opt : Opt) (key : Bytes) (fb : Nat) (h : fb = (nibs key).length) :
    leafPrefOf opt key fb = none := by
  have : key.drop (fb / 2) = [] := by
    rw [List.drop_eq_nil_iff, h, nibs_length]; omega
  simp [leafPrefOf, this]

/-- two adjacent keys cannot both end at `ws` and agree before `ws` -/
theorem no_two_label0 (keys : List Bytes) (hasc : strictAsc keys = true) (ws : Nat) (big : Bool)
    (a : Nat) (ha : a + 1 < keys.length)
    (hl0 : labelOf keys ws big a = 0) (hl1 : labelOf keys ws big (a + 1) = 0)
    (hag : (knOf keys a).take ws = (knOf keys (a + 1)).take ws) : False := by
  unfold labelOf at hl0 hl1
  rw [labelAt_eq_zero_iff] at hl0 hl1
  rw [List.take_of_length_le hl0, List.take_of_length_le hl1] at hag
  have := strictAsc_inj hasc (by omega) ha (nibs_injective hag)
  omega

/-! ### the bookkeeping of the left and right candidates -/

/-- `lID` designates the subtree that holds the nearest kept key below `s`
    (`none`: there is no kept key below `s`) -/
def LeftOK (keep : List Bool) (queue : Array Subset) (lID : Option Nat) (s : Nat) : Prop :=
  match lID with
  | none => ∀ t, t < s → keptAt keep t = false
  | some j' => ∃ o', queue[j']? = some o' ∧ o'.e ≤ s ∧
      ∀ t, o'.e ≤ t → t < s → keptAt keep t = false

/-- `rID` designates the subtree that holds the nearest kept key at or above `e`
    (`none`: there is no kept key in `[e, n)`) -/
def RightOK (keep : List Bool) (n : Nat) (queue : Array Subset) (rID : Option Nat) (e : Nat) :
    Prop :=
  match rID with
  | none => ∀ t, e ≤ t → t < n → keptAt keep t = false
  | some j' => ∃ o', queue[j']? = some o' ∧ e ≤ o'.s ∧
      ∀ t, e ≤ t → t < o'.s → keptAt keep t = false

theorem left_step {keys : List Bytes} {keep : List Bool} {t : Trie1} {queue : Array Subset}
    {j : Nat} {o : Subset} {r : InnerRec} {ws : Nat}
    (F : InnerFacts keys keep t queue j o r ws) (lID : Option Nat) (k : Nat)
    (hk : k < r.labels.length) (c : Subset)
    (hrun : IsRun (labelOf keys ws r.big) r.labels o.s o.e k hk c)
    (hl : LeftOK keep queue lID o.s) :
    LeftOK keep queue (if 1 ≤ k then some (r.firstChild + k - 1) else lID) c.s := by
  cases k with
  | zero =>
    rw [if_neg (by omega)]
    have hgap := gap_first (kept := keptAt keep) F.labels F.pw F.mono hrun
    have hcs := hrun.1
    cases lID with
    | none =>
      intro t' h1
      by_cases h2 : t' < o.s
      · exact hl t' h2
      · exact hgap t' (by omega) h1
    | some j' =>
      obtain ⟨o', h1, h2, h3⟩ := hl
      refine ⟨o', h1, by omega, ?_⟩
      intro t' h4 h5
      by_cases h6 : t' < o.s
      · exact h3 t' h4 h6
      · exact hgap t' (by omega) h5
  | succ k0 =>
    rw [if_pos (by omega)]
    obtain ⟨c', hc', _, hrun'⟩ := F.kid k0 (by omega)
    have hgap := gap_adj (kept := keptAt keep) F.labels F.pw F.mono hrun' hrun
    have hid : r.firstChild + (k0 + 1) - 1 = r.firstChild + k0 := by omega
    rw [hid]
    exact ⟨c', hc', hgap.1, hgap.2⟩

theorem right_step {keys : List Bytes} {keep : List Bool} {t : Trie1} {queue : Array Subset}
    {j : Nat} {o : Subset} {r : InnerRec} {ws : Nat}
    (F : InnerFacts keys keep t queue j o r ws)
    (rID : Option Nat) (k : Nat)
    (hk : k < r.labels.length) (c : Subset)
    (hrun : IsRun (labelOf keys ws r.big) r.labels o.s o.e k hk c)
    (hr : RightOK keep keys.length queue rID o.e) :
    RightOK keep keys.length queue
      (if k + 1 < r.labels.length then some (r.firstChild + k + 1) else rID) c.e := by
  by_cases h : k + 1 < r.labels.length
  · rw [if_pos h]
    obtain ⟨c', hc', _, hrun'⟩ := F.kid (k + 1) h
    have hgap := gap_adj (kept := keptAt keep) F.labels F.pw F.mono hrun hrun'
    exact ⟨c', hc', hgap.1, hgap.2⟩
  · rw [if_neg h]
    have hkL : k = r.labels.length - 1 := by omega
    subst hkL
    have hgap := gap_last (kept := keptAt keep) F.labels F.pw F.mono hrun
    have hce := hrun.2.1
    cases rID with
    | none =>
      intro t' h1 h2
      by_cases h3 : t' < o.e
      · exact hgap t' h1 h3
      · exact hr t' (by omega) h2
    | some j' =>
      obtain ⟨o', h1, h2, h3⟩ := hr
      refine ⟨o', h1, by omega, ?_⟩
      intro t' h4 h5
      by_cases h6 : t' < o.e
      · exact hgap t' h4 h6
      · exact h3 t' (by omega) h5

/-! ### the loop invariant -/

/-- node `id` is the leaf of key `m` -/
def IsLeafOf (t : Trie1) (id m : Nat) : Prop :=
  ∃ ith lp, t.nodes[id]? = some (.leaf ith lp) ∧ t.leafKeyIdx[ith]? = some m

theorem searchLoop_kept {keys : List Bytes} {keep : List Bool} {t : Trie1} {queue : Array Subset}
    (h : QOK keys keep t queue) (hasc : strictAsc keys = true)
    (m : Nat) (hk : keptAt keep m = true) :
    ∀ n j o fuel st, t.nodes.size - j ≤ n → n < fuel → queue[j]? = some o → o.s ≤ m → m < o.e →
      st.i = o.fb → st.lp = none →
      LeftOK keep queue st.lID o.s → RightOK keep keys.length queue st.rID o.e →
      ∃ st' id,
        searchLoop t.view (knOf keys m) fuel st j = .ok st' ∧ st'.eqID = some id ∧
        IsLeafOf t id m ∧
        st'.i ≤ (knOf keys m).length ∧ st'.lp = leafPrefOf t.opt (keys.getD m []) st'.i ∧
        LeftOK keep queue st'.lID m ∧ RightOK keep keys.length queue st'.rID (m + 1) := by
  intro n
  induction n with
  | zero =>
    intro j o fuel st h1 _ hqj
    have := h.lt hqj
    omega
  | succ n ih =>
    intro j o fuel st h1 h2 hqj hs he hi hlp hL hR
    obtain ⟨hsub, hj, hnode⟩ := h.at hqj
    obtain ⟨fuel, rfl⟩ : ∃ f, fuel = f + 1 := ⟨fuel - 1, by omega⟩
    have hview := view_node t j hj
    cases hn : t.nodes[j] with
    | leaf ith lp =>
      rw [hn] at hnode hview
      obtain ⟨h1e, hidx, hlp'⟩ := hnode
      have his : o.s = m := by omega
      subst his
      refine ⟨_, j, searchLoop_leaf _ _ _ _ ith lp st hview, rfl,
        ⟨ith, lp, nodes_getElem? t j hj _ hn, hidx⟩, ?_, ?_, hL, ?_⟩
      · show st.i ≤ _
        rw [hi]; exact hsub.long _ hs he
      · show lp = leafPrefOf t.opt _ st.i
        rw [hi]; exact hlp'
      · show RightOK keep keys.length queue st.rID (o.s + 1)
        rw [← h1e]; exact hR
    | inner r =>
      rw [hn] at hnode hview
      obtain ⟨_, hin⟩ := hnode
      obtain ⟨ws, F⟩ := inner_facts h hsub hin
      obtain ⟨hwsl, hag⟩ := F.pre m hs he
      have hstep : srStep r.pref (knOf keys m) st j = .ok (.inr ws) := by
        rw [F.pref]
        exact srStep_prefOf t.opt _ _ st j o.fb ws hi F.fb_le hwsl
          (F.pre o.s (Nat.le_refl _) hsub.lt).1 hag
      obtain ⟨k, hk', hkl⟩ := List.mem_iff_getElem.mp (F.labels m hs he hk)
      obtain ⟨c, hc, hcfb, hrun⟩ := F.kid k hk'
      have hic : c.s ≤ m ∧ m < c.e := (hrun.2.2.2 m hs he).mpr hkl.symm
      have hcid := h.lt hc
      have hfc := F.fc
      have hch : leftChildID r (labelIdxOfKey (knOf keys m) ws r.big)
          = ((r.firstChild : Int) - 1 + k, true) := by
        rw [labelIdxOfKey_eq_labelAt _ _ _ (fun hb => (F.big hb).1)]
        show leftChildID r (labelOf keys ws r.big m) = _
        rw [← hkl, leftChildID_of_label r F.pw k hk']
      have hL' := left_step F st.lID k hk' c hrun hL
      have hR' := right_step F st.rID k hk' c hrun hR
      rw [searchLoop_inner _ _ _ _ r st hview, hstep]
      simp only []
      rw [srBranch_go _ _ _ r st ws k hk' hch]
      by_cases hwl : ws = (knOf keys m).length
      · -- the `i == l` shortcut: the child is the singleton {m}
        rw [if_pos hwl]
        have hl0 : r.labels[k] = 0 := by
          rw [hkl]; unfold labelOf; rw [labelAt_eq_zero_iff]; omega
        obtain ⟨hsubc, _, hnodec⟩ := h.at hc
        cases hnc : t.nodes[r.firstChild + k] with
        | leaf ith lp =>
          rw [hnc] at hnodec
          obtain ⟨h1e, hidx, _⟩ := hnodec
          have his : c.s = m := by omega
          refine ⟨_, r.firstChild + k, rfl, rfl,
            ⟨ith, lp, nodes_getElem? t _ hcid _ hnc, his ▸ hidx⟩, ?_, ?_, ?_, ?_⟩
          · show ws ≤ _; exact hwsl
          · show st.lp = leafPrefOf t.opt _ ws
            rw [hlp, leafPrefOf_end _ _ _ hwl]
          · rw [← his]; exact hL'
          · have : m + 1 = c.e := by omega
            rw [this]; exact hR'
        | inner rc =>
          rw [hnc] at hnodec
          exfalso
          have h2c : c.s + 2 ≤ c.e := hnodec.1
          obtain ⟨hcs, hce, _, hciff⟩ := hrun
          have ha := (hciff c.s hcs (by omega)).mp ⟨Nat.le_refl _, by omega⟩
          have hb := (hciff (c.s + 1) (by omega) (by omega)).mp ⟨by omega, by omega⟩
          rw [hl0] at ha hb
          have hleK := hsub.le
          refine no_two_label0 keys hasc ws r.big c.s (by omega) ha hb ?_
          rw [(F.pre c.s hcs (by omega)).2, (F.pre (c.s + 1) (by omega) (by omega)).2]
      · rw [if_neg hwl]
        have hlne : r.labels[k] ≠ 0 := by
          rw [hkl]; unfold labelOf; rw [Ne, labelAt_eq_zero_iff]; omega
        have hfb : ws + wordSize r.big = c.fb := by
          rw [hcfb]; unfold labelLen wordSize; rw [if_neg hlne]
        exact ih (r.firstChild + k) c fuel _ (by omega) (by omega) hc hic.1 hic.2 hfb hlp hL' hR'

/-! ### the epilogue of `searchID` -/

/-- `searchID` behind its loop -/
def srEpi (v : View) (key : Bytes) (st : SearchSt) :
    Except Err (Option Nat × Option Nat × Option Nat) := do
  let st :=
    match st.eqID with
    | none => st
    | some eq =>
      if st.i ≤ (nibs key).length then
        match cmpLeafPrefix v (key.drop (st.i / 2)) st.lp with
        | .lt => { st with rID := some eq, eqID := none }
        | .gt => { st with lID := some eq, eqID := none }
        | .eq => st
      else st
  let lID ← match st.lID with
    | none => pure none
    | some id => do pure (some (← rightMost v (v.nodeCnt + 1) id))
  let rID ← match st.rID with
    | none => pure none
    | some id => do pure (some (← leftMost v (v.nodeCnt + 1) id))
  return (lID, st.eqID, rID)

theorem searchID_eq (v : View) (key : Bytes) (h : v.isEmpty = false) :
    searchID v key = searchLoop v (nibs key) (v.nodeCnt + 1) {} 0 >>= srEpi v key := by
  unfold searchID
  rw [h]
  rfl

/-- the final descent on the left candidate -/
def sideL (v : View) (lID : Option Nat) : Except Err (Option Nat) :=
  match lID with
  | none => pure none
  | some id => do pure (some (← rightMost v (v.nodeCnt + 1) id))

/-- the final descent on the right candidate -/
def sideR (v : View) (rID : Option Nat) : Except Err (Option Nat) :=
  match rID with
  | none => pure none
  | some id => do pure (some (← leftMost v (v.nodeCnt + 1) id))

theorem srEpi_eq (v : View) (key : Bytes) (st : SearchSt) (id : Nat) (l r : Option Nat)
    (h1 : st.eqID = some id) (h2 : st.i ≤ (nibs key).length)
    (h3 : cmpLeafPrefix v (key.drop (st.i / 2)) st.lp = .eq)
    (hl : sideL v st.lID = .ok l) (hr : sideR v st.rID = .ok r) :
    srEpi v key st = .ok (l, some id, r) := by
  unfold srEpi
  simp only [h1, h2, h3, if_true]
  unfold sideL at hl
  unfold sideR at hr
  cases hL : st.lID with
  | none =>
    rw [hL] at hl
    cases hl
    cases hR : st.rID with
    | none => rw [hR] at hr; cases hr; rfl
    | some b =>
      rw [hR] at hr
      dsimp only at hr ⊢
      cases hx : leftMost v (v.nodeCnt + 1) b with
      | error e => rw [hx] at hr; cases hr
      | ok x => rw [hx] at hr; cases hr; rfl
  | some a =>
    rw [hL] at hl
    dsimp only at hl ⊢
    cases hy : rightMost v (v.nodeCnt + 1) a with
    | error e => rw [hy] at hl; cases hl
    | ok y =>
      rw [hy] at hl; cases hl
      cases hR : st.rID with
      | none => rw [hR] at hr; cases hr; rfl
      | some b =>
        rw [hR] at hr
        dsimp only at hr ⊢
        cases hx : leftMost v (v.nodeCnt + 1) b with
        | error e => rw [hx] at hr; cases hr
        | ok x => rw [hx] at hr; cases hr; rfl

/-! ### the result of `searchID` on a kept key -/

/-- the left component of `searchID` on key `m`: the leaf of the greatest kept key below `m` -/
def LeftRes (keep : List Bool) (t : Trie1) (m : Nat) (l : Option Nat) : Prop :=
  match l with
  | none => ∀ t', t' < m → keptAt keep t' = false
  | some id => ∃ ml, IsLeafOf t id ml ∧ IsMaxKept keep 0 m ml

/-- the right component of `searchID` on key `m`: the leaf of the smallest kept key above `m` -/
def RightRes (keep : List Bool) (n : Nat) (t : Trie1) (m : Nat) (r : Option Nat) : Prop :=
  match r with
  | none => ∀ t', m < t' → t' < n → keptAt keep t' = false
  | some id => ∃ mr, IsLeafOf t id mr ∧ IsMinKept keep (m + 1) n mr

theorem sideL_spec {keys : List Bytes} {keep : List Bool} {t : Trie1} {queue : Array Subset}
    (h : QOK keys keep t queue) (lID : Option Nat) (m : Nat) (hL : LeftOK keep queue lID m) :
    ∃ l, sideL t.view lID = .ok l ∧ LeftRes keep t m l := by
  cases lID with
  | none => exact ⟨none, rfl, hL⟩
  | some j' =>
    obtain ⟨o', h1, h2, h3⟩ := hL
    obtain ⟨id, ith, lp, ml, hrm, hnd, hidx, hm1, hm2, hm3, hm4⟩ :=
      rightMost_spec h t.nodes.size j' o' (t.view.nodeCnt + 1) (by omega)
        (by show t.nodes.size < t.nodes.size + 1; omega) h1
    refine ⟨some id, ?_, ml, ⟨ith, lp, hnd, hidx⟩, Nat.zero_le _, by omega, hm3, ?_⟩
    · show (rightMost t.view (t.view.nodeCnt + 1) j' >>= fun x => pure (some x)) = _
      rw [hrm]; rfl
    · intro t' h4 h5
      by_cases h6 : t' < o'.e
      · exact hm4 t' h4 h6
      · exact h3 t' (by omega) h5

theorem sideR_spec {keys : List Bytes} {keep : List Bool} {t : Trie1} {queue : Array Subset}
    (h : QOK keys keep t queue) (rID : Option Nat) (m : Nat)
    (hR : RightOK keep keys.length queue rID (m + 1)) :
    ∃ r, sideR t.view rID = .ok r ∧ RightRes keep keys.length t m r := by
  cases rID with
  | none => exact ⟨none, rfl, fun t' h1 h2 => hR t' (by omega) h2⟩
  | some j' =>
    obtain ⟨o', h1, h2, h3⟩ := hR
    have hle := (h.at h1).1.le
    obtain ⟨id, ith, lp, mr, hrm, hnd, hidx, hm1, hm2, hm3, hm4⟩ :=
      leftMost_spec h t.nodes.size j' o' (t.view.nodeCnt + 1) (by omega)
        (by show t.nodes.size < t.nodes.size + 1; omega) h1
    refine ⟨some id, ?_, mr, ⟨ith, lp, hnd, hidx⟩, by omega, by omega, hm3, ?_⟩
    · show (leftMost t.view (t.view.nodeCnt + 1) j' >>= fun x => pure (some x)) = _
      rw [hrm]; rfl
    · intro t' h4 h5
      by_cases h6 : o'.s ≤ t'
      · exact hm4 t' h6 h5
      · exact h3 t' h4 (by omega)

theorem cmpLeafPrefix_self (t : Trie1) (key : Bytes) (i : Nat) :
    cmpLeafPrefix t.view (key.drop (i / 2)) (leafPrefOf t.opt key i) = .eq := by
  unfold cmpLeafPrefix leafPrefOf
  show (if t.opt.leaf = true then _ else _) = _
  cases t.opt.leaf with
  | false => rfl
  | true =>
    simp only [if_true, Bool.true_and]
    by_cases he : key.drop (i / 2) = []
    · rw [he]; rfl
    · have : (!(List.drop (i / 2) key).isEmpty) = true := by simpa using he
      rw [if_pos this]
      exact lexCmp_self _

end SearchDescent

open SearchDescent Subtree in
/-- **Search descent.**  In a well-formed trie over strictly ascending keys, `searchID` on a kept
    key `m` returns the leaf of `m` as the exact match, on the left the leaf of the greatest kept
    key below `m` (`none` iff there is none) and on the right the leaf of the smallest kept key
    above `m` (`none` iff there is none). -/
theorem searchID_kept (keys : List Bytes) (keep : List Bool) (t : Trie1)
    (hasc : strictAsc keys = true) (hwf : WF keys keep t)
    (m : Nat) (hm : m < keys.length) (hk : keptAt keep m = true) :
    ∃ l id r, searchID t.view (keys.getD m []) = .ok (l, some id, r) ∧
      IsLeafOf t id m ∧ LeftRes keep t m l ∧ RightRes keep keys.length t m r := by
  obtain ⟨queue, hq, hroot⟩ := (wf_iff keys keep t).mp hwf
  have h0 : 0 < t.nodes.size := hq.lt hroot
  obtain ⟨st', id, hloop, heq, hleaf, hi, hlp, hL, hR⟩ :=
    searchLoop_kept hq hasc m hk t.nodes.size 0 _ (t.nodes.size + 1) {}
      (by omega) (by omega) hroot (Nat.zero_le _) hm rfl rfl
      (by intro t' h; exact absurd h (Nat.not_lt_zero _))
      (by intro t' h1 h2; exact absurd h2 (Nat.not_lt.mpr h1))
  obtain ⟨l, hl, hlres⟩ := sideL_spec hq st'.lID m hL
  obtain ⟨r, hr, hrres⟩ := sideR_spec hq st'.rID m hR
  refine ⟨l, id, r, ?_, hleaf, hlres, hrres⟩
  have hempty : t.view.isEmpty = false := by
    show (t.nodes.size == 0) = false
    exact beq_false_of_ne (by omega)
  have hcnt : t.view.nodeCnt = t.nodes.size := rfl
  rw [searchID_eq _ _ hempty, hcnt]
  unfold knOf at hloop hi
  rw [hloop]
  show srEpi t.view _ st' = _
  refine srEpi_eq _ _ st' id l r heq hi ?_ hl hr
  rw [hlp]
  exact cmpLeafPrefix_self t _ _

#print axioms searchID_kept
