import SlimProofs.InputCount
/-
  SlimProofs.InputPrefix — the stored key material of a built trie is bounded by the total length
  of the keys:

    Σ over inner nodes (half-bytes of the stored prefix) + 2 · Σ over leaves (bytes of the stored tail)
        ≤ 2 · (total key bytes) + (number of nodes)

  Proof: give every queue entry (subset `[s,e)` examined from half-byte `fb`) the weight
  `w = Σ_{t ∈ [s,e)} (|key t| in half-bytes − fb)`.  An inner node with branching position `ws`
  spends `ws − fb` (+1 for byte alignment) on its stored prefix and hands its children — disjoint
  sub-ranges examined from `≥ ws` — at most the rest (`inner_local`); a leaf's tail is its whole
  weight (`leaf_local`).  The BFS numbering law (`ShapeOK.firstChild`, `ShapeOK.total`) says every
  node but the root is exactly one child, so the sum telescopes to the root's weight
  (`telescope`), which is twice the total key length.
-/

namespace InputPrefix

open Refine InputCount

/-! ### sums over lists -/

theorem sum_map_add {α : Type} (l : List α) (a b : α → Nat) :
    (l.map (fun x => a x + b x)).sum = (l.map a).sum + (l.map b).sum := by
  induction l with
  | nil => rfl
  | cons x l ih => simp only [List.map_cons, List.sum_cons, ih]; omega

theorem sum_map_le {α : Type} (l : List α) (a b : α → Nat) (h : ∀ x ∈ l, a x ≤ b x) :
    (l.map a).sum ≤ (l.map b).sum := SizeShort.sum_map_le_sum_map l a b h

theorem sum_map_zero {α : Type} (l : List α) (a : α → Nat) (h : ∀ x ∈ l, a x = 0) :
    (l.map a).sum = 0 := by
  induction l with
  | nil => rfl
  | cons x l ih =>
    simp only [List.map_cons, List.sum_cons, h x (by simp),
      ih (fun y hy => h y (List.mem_cons_of_mem _ hy))]

/-- the sum over a sub-interval is the sum of an indicator over the whole interval -/
theorem sum_interval_le (g : Nat → Nat) {s a b e : Nat} (h1 : s ≤ a) (h3 : b ≤ e) :
    ((List.range' a (b - a)).map g).sum
      ≤ ((List.range' s (e - s)).map (fun t => if a ≤ t ∧ t < b then g t else 0)).sum := by
  by_cases h2 : a ≤ b
  · rw [LeafCount.range'_split (s := s) (m := a) (e := e) h1 (by omega),
      LeafCount.range'_split (s := a) (m := b) (e := e) h2 h3]
    simp only [List.map_append, List.sum_append]
    have hm : ((List.range' a (b - a)).map (fun t => if a ≤ t ∧ t < b then g t else 0))
        = (List.range' a (b - a)).map g := by
      apply List.map_congr_left
      intro t ht
      rw [List.mem_range'_1] at ht
      rw [if_pos ⟨ht.1, by omega⟩]
    rw [hm]
    omega
  · have : b - a = 0 := by omega
    rw [this]
    simp

/-- the indicator sums of pairwise different labels add up to at most the whole sum -/
theorem sum_labels (lab g : Nat → Nat) (ts : List Nat) : ∀ ls : List Nat, ls.Nodup →
    (ls.map (fun l => (ts.map (fun t => if lab t = l then g t else 0)).sum)).sum
      = (ts.map (fun t => if lab t ∈ ls then g t else 0)).sum := by
  intro ls
  induction ls with
  | nil =>
    intro _
    simp only [List.map_nil, List.sum_nil, List.not_mem_nil, if_false]
    exact (sum_map_zero ts _ (fun _ _ => rfl)).symm
  | cons l ls ih =>
    intro hnd
    rw [List.nodup_cons] at hnd
    simp only [List.map_cons, List.sum_cons]
    rw [ih hnd.2, ← sum_map_add]
    apply congrArg
    apply List.map_congr_left
    intro t _
    by_cases hl : lab t = l
    · have : lab t ∉ ls := by rw [hl]; exact hnd.1
      simp [hl, hnd.1]
    · simp [hl]

theorem sum_labels_le (lab g : Nat → Nat) (ts : List Nat) (ls : List Nat) (hnd : ls.Nodup) :
    (ls.map (fun l => (ts.map (fun t => if lab t = l then g t else 0)).sum)).sum
      ≤ (ts.map g).sum := by
  rw [sum_labels lab g ts ls hnd]
  apply sum_map_le
  intro t _
  split <;> omega

theorem sum_children (q F : Nat → Nat) : ∀ (ls : List Nat) (fc : Nat),
    (∀ k (hk : k < ls.length), q (fc + k) ≤ F ls[k]) →
    ((List.range' fc ls.length).map q).sum ≤ (ls.map F).sum := by
  intro ls
  induction ls with
  | nil => intro fc _; simp
  | cons l ls ih =>
    intro fc h
    simp only [List.length_cons, List.range'_succ, List.map_cons, List.sum_cons]
    have h0 := h 0 (by simp)
    simp only [Nat.add_zero, List.getElem_cons_zero] at h0
    have := ih (fc + 1) (by
      intro k hk
      have := h (k + 1) (by simp; omega)
      simp only [List.getElem_cons_succ] at this
      have e : fc + 1 + k = fc + (k + 1) := by omega
      rw [e]; exact this)
    omega

/-! ### weights -/

theorem nibs_len (b : Bytes) : (nibs b).length = 2 * b.length := by
  induction b with
  | nil => rfl
  | cons x xs ih => simp only [nibs, List.length_cons, ih]; omega

/-- weight of the key range `[s,e)` examined from half-byte `fb` -/
def wAt (keys : List Bytes) (s e fb : Nat) : Nat :=
  ((List.range' s (e - s)).map (fun t => (knOf keys t).length - fb)).sum

def w (keys : List Bytes) (o : Subset) : Nat := wAt keys o.s o.e o.fb

/-- weight of queue entry `i` -/
def qw (keys : List Bytes) (queue : Array Subset) (i : Nat) : Nat :=
  match queue[i]? with
  | some o => w keys o
  | none => 0

theorem qw_of {keys : List Bytes} {queue : Array Subset} {i : Nat} {o : Subset}
    (h : queue[i]? = some o) : qw keys queue i = w keys o := by
  unfold qw; rw [h]

/-- half-bytes of a stored inner prefix -/
def prefNibs : Pref → Nat
  | .stored ns => ns.length
  | _ => 0

/-- what a node stores of the keys: half-bytes of the inner prefix / twice the bytes of the leaf tail -/
def cost : Node → Nat
  | .inner r => prefNibs r.pref
  | .leaf _ lp => 2 * (lp.getD []).length

theorem prefNibs_prefOf (opt : Opt) (k : List Nat) (fb ws : Nat) :
    prefNibs (prefOf opt k fb ws) ≤ ws - fb + 1 := by
  unfold prefOf
  split
  · simp [prefNibs]
  · split
    · simp only [prefNibs, storedPrefix, List.length_drop, List.length_take]
      omega
    · simp [prefNibs]

/-! ### the two local inequalities -/

theorem inner_local {keys : List Bytes} {keep : List Bool} {opt : Opt} {queue : Array Subset}
    {j : Nat} {o : Subset} {r : InnerRec} (h2 : o.s + 2 ≤ o.e)
    (hin : InnerOK keys keep opt queue j o r) :
    prefNibs r.pref + ((List.range' r.firstChild r.labels.length).map (qw keys queue)).sum
      ≤ w keys o + 1 := by
  obtain ⟨ws, hfb, hag, _, hpref, _, hpw, _, _, hkids⟩ := hin
  -- the children
  have hkid : ∀ k (hk : k < r.labels.length), qw keys queue (r.firstChild + k) ≤
      (fun l => ((List.range' o.s (o.e - o.s)).map
        (fun t => if labelOf keys ws r.big t = l then (knOf keys t).length - ws else 0)).sum)
        r.labels[k] := by
    intro k hk
    obtain ⟨c, hq, hcfb, hcs, hce, hiff⟩ := hkids k hk
    rw [qw_of hq]
    simp only
    unfold w wAt
    refine Nat.le_trans (sum_map_le _ _ (fun t => (knOf keys t).length - ws) ?_) ?_
    · intro t _; omega
    · refine Nat.le_trans (sum_interval_le _ hcs hce) (Nat.le_of_eq ?_)
      apply congrArg
      apply List.map_congr_left
      intro t ht
      rw [List.mem_range'_1] at ht
      have hi := hiff t ht.1 (by omega)
      simp only [hi]
  have hnd : r.labels.Nodup := hpw.imp (fun h => Nat.ne_of_lt h)
  have hsum := Nat.le_trans (sum_children (qw keys queue) _ r.labels r.firstChild hkid)
    (sum_labels_le (labelOf keys ws r.big) (fun t => (knOf keys t).length - ws)
      (List.range' o.s (o.e - o.s)) r.labels hnd)
  -- the node's own weight
  have hw : w keys o = ((List.range' o.s (o.e - o.s)).map (fun t => (knOf keys t).length - ws)).sum
      + ((List.range' o.s (o.e - o.s)).map (fun _ => ws - o.fb)).sum := by
    unfold w wAt
    rw [← sum_map_add]
    apply congrArg
    apply List.map_congr_left
    intro t ht
    rw [List.mem_range'_1] at ht
    have := (hag t ht.1 (by omega)).1
    omega
  have hconst : ws - o.fb ≤ ((List.range' o.s (o.e - o.s)).map (fun _ => ws - o.fb)).sum := by
    have : o.e - o.s = (o.e - o.s - 1) + 1 := by omega
    rw [this, List.range'_succ]
    simp only [List.map_cons, List.sum_cons]
    omega
  have hp : prefNibs r.pref ≤ ws - o.fb + 1 := by rw [hpref]; exact prefNibs_prefOf _ _ _ _
  omega

theorem leaf_local {keys : List Bytes} {opt : Opt} {o : Subset} {lp : Option Bytes}
    (he : o.e = o.s + 1) (hlp : lp = leafPrefOf opt (keys.getD o.s []) o.fb) :
    2 * (lp.getD []).length ≤ w keys o + 1 := by
  have hw : w keys o = 2 * (keys.getD o.s []).length - o.fb := by
    unfold w wAt
    have : o.e - o.s = 1 := by omega
    rw [this]
    simp [knOf, nibs_len]
  rw [hw, hlp]
  unfold leafPrefOf
  simp only
  split
  · simp only [Option.getD_some, List.length_drop]; omega
  · simp

/-! ### telescoping along the BFS numbering -/

/-- number of children of the inner nodes among the first `m` nodes -/
def kids (nodes : Array Node) (m : Nat) : Nat :=
  ((innersBefore nodes m).map (fun r => r.labels.length)).sum

theorem take_succ_nodes (nodes : Array Node) (m : Nat) (hm : m < nodes.size) :
    nodes.toList.take (m + 1) = nodes.toList.take m ++ [nodes[m]] := by
  rw [List.take_add_one, Array.getElem?_toList, Array.getElem?_eq_getElem hm]
  rfl

theorem kids_succ_inner (nodes : Array Node) (m : Nat) (hm : m < nodes.size) (r : InnerRec)
    (h : nodes[m] = .inner r) : kids nodes (m + 1) = kids nodes m + r.labels.length := by
  unfold kids innersBefore
  rw [take_succ_nodes nodes m hm, h]
  simp [List.filterMap_append]

theorem kids_succ_leaf (nodes : Array Node) (m : Nat) (hm : m < nodes.size) (ith : Nat)
    (lp : Option Bytes) (h : nodes[m] = .leaf ith lp) : kids nodes (m + 1) = kids nodes m := by
  unfold kids innersBefore
  rw [take_succ_nodes nodes m hm, h]
  simp [List.filterMap_append]

theorem telescope {keys : List Bytes} {keep : List Bool} {t : Trie1} (hs : ShapeOK t)
    (queue : Array Subset)
    (hq : ∀ j (hj : j < t.nodes.size), ∃ o, queue[j]? = some o ∧ SubOK keys keep o ∧
      NodeOK keys keep t.opt queue t.leafKeyIdx j o t.nodes[j]) :
    ∀ m, m ≤ t.nodes.size →
      ((t.nodes.toList.take m).map cost).sum
        + ((List.range' 1 (kids t.nodes m)).map (qw keys queue)).sum
      ≤ ((List.range m).map (qw keys queue)).sum + m := by
  intro m
  induction m with
  | zero =>
    intro _
    simp [kids, innersBefore]
  | succ m ih =>
    intro hm
    have hm' : m < t.nodes.size := by omega
    have ih := ih (by omega)
    obtain ⟨o, hqo, hsub, hnode⟩ := hq m hm'
    rw [take_succ_nodes t.nodes m hm', List.range_succ]
    simp only [List.map_append, List.sum_append, List.map_cons, List.map_nil, List.sum_cons,
      List.sum_nil, Nat.add_zero]
    rw [qw_of hqo]
    cases hnd : t.nodes[m] with
    | leaf ith lp =>
      rw [hnd] at hnode
      obtain ⟨he, _, hlp⟩ := hnode
      rw [kids_succ_leaf t.nodes m hm' ith lp hnd]
      have := leaf_local (keys := keys) he hlp
      simp only [cost]
      omega
    | inner r =>
      rw [hnd] at hnode
      obtain ⟨h2, hin⟩ := hnode
      rw [kids_succ_inner t.nodes m hm' r hnd]
      have hfc := hs.firstChild m r (by rw [Array.getElem?_eq_getElem hm', hnd])
      have hloc := inner_local h2 hin
      rw [hfc] at hloc
      rw [← List.range'_append_1]
      simp only [List.map_append, List.sum_append, cost]
      have : kids t.nodes m = ((innersBefore t.nodes m).map (fun r => r.labels.length)).sum := rfl
      rw [← this] at hloc
      omega

theorem sum_two_mul (l : List Bytes) :
    (l.map (fun k => 2 * k.length)).sum = 2 * totalLen l := by
  unfold totalLen
  induction l with
  | nil => rfl
  | cons a l ih => simp only [List.map_cons, List.sum_cons, ih]; omega

theorem w_root (keys : List Bytes) :
    w keys { s := 0, e := keys.length, fb := 0 } = 2 * totalLen keys := by
  unfold w wAt
  simp only [Nat.sub_zero]
  rw [← List.range_eq_range', ← sum_two_mul]
  have := SizeShort.map_range_getD keys (fun k => 2 * k.length) []
  rw [← this]
  apply congrArg
  apply List.map_congr_left
  intro t _
  simp [knOf, nibs_len]

/-- **the stored key material is bounded by the keys** -/
theorem cost_le {keys : List Bytes} {keep : List Bool} {t : Trie1} (hwf : WF keys keep t)
    (hs : ShapeOK t) :
    (t.nodes.toList.map cost).sum ≤ 2 * totalLen keys + t.nodes.size := by
  obtain ⟨queue, hsz, hroot, hq⟩ := hwf
  have h := telescope hs queue hq t.nodes.size (Nat.le_refl _)
  have htake : t.nodes.toList.take t.nodes.size = t.nodes.toList :=
    List.take_of_length_le (by simp)
  rw [htake] at h
  have htot : t.nodes.size = 1 + kids t.nodes t.nodes.size := hs.total
  have hrange : ((List.range t.nodes.size).map (qw keys queue)).sum
      = qw keys queue 0 + ((List.range' 1 (kids t.nodes t.nodes.size)).map (qw keys queue)).sum := by
    rw [List.range_eq_range']
    conv => lhs; rw [htot, Nat.add_comm 1, List.range'_succ]
    simp
  rw [hrange, qw_of hroot, w_root] at h
  omega

/-! ### from the cost to the byte arrays of the message -/

theorem unnibs_len (ns : List Nat) : (unnibs ns).length = (ns.length + 1) / 2 := by
  induction ns using unnibs.induct with
  | case1 => rfl
  | case2 h => simp [unnibs]
  | case3 h l rest ih => simp only [unnibs, List.length_cons, ih]; omega

theorem stored_le (l : List InnerRec) :
    2 * (l.filterMap storedOf).flatten.length ≤ (l.map (fun r => prefNibs r.pref + 3)).sum := by
  induction l with
  | nil => simp
  | cons r l ih =>
    simp only [List.filterMap_cons, List.map_cons, List.sum_cons]
    cases hp : r.pref with
    | none =>
      have : storedOf r = none := by unfold storedOf; rw [hp]
      have e0 : prefNibs Pref.none = 0 := rfl
      rw [this, e0]; simp only; omega
    | step n =>
      have : storedOf r = none := by unfold storedOf; rw [hp]
      have e0 : prefNibs (Pref.step n) = 0 := rfl
      rw [this, e0]; simp only; omega
    | stored ns =>
      have : storedOf r = some (Slim.bitstrOf ns) := by unfold storedOf; rw [hp]
      have e0 : prefNibs (Pref.stored ns) = ns.length := rfl
      rw [this, e0]
      simp only [List.flatten_cons, List.length_append]
      have : (Slim.bitstrOf ns).length = (ns.length + 1) / 2 + 1 := by
        simp [Slim.bitstrOf, unnibs_len]
      omega

theorem sum_inner_cost (l : List Node) :
    ((l.filterMap innerOf).map (fun r => prefNibs r.pref + 3)).sum
      + 2 * ((l.filterMap leafOf).filterMap id).flatten.length
      ≤ (l.map cost).sum + 3 * l.length := by
  induction l with
  | nil => simp
  | cons nd l ih =>
    cases nd with
    | inner r =>
      simp only [List.filterMap_cons, innerOf, leafOf, List.map_cons, List.sum_cons, cost,
        List.length_cons]
      omega
    | leaf ith lp =>
      cases lp with
      | none =>
        simp only [List.filterMap_cons, innerOf, leafOf, List.map_cons, List.sum_cons, cost,
          List.length_cons, id, Option.getD_none, List.length_nil]
        omega
      | some b =>
        simp only [List.filterMap_cons, innerOf, leafOf, List.map_cons, List.sum_cons, cost,
          List.length_cons, id, Option.getD_some, List.flatten_cons, List.length_append]
        omega

/-- **stored inner prefixes and leaf tails against the total key length** -/
theorem prefix_bytes_le {keys : List Bytes} {keep : List Bool} {t : Trie1} (hwf : WF keys keep t)
    (hs : ShapeOK t) :
    2 * (eStoredPs t).flatten.length + 2 * (eLeafPs t).flatten.length
      ≤ 2 * totalLen keys + 4 * t.nodes.size := by
  have h1 := cost_le hwf hs
  have h2 := stored_le (eInners t)
  have h3 := sum_inner_cost t.nodes.toList
  have e1 : eStoredPs t = (eInners t).filterMap storedOf := rfl
  have e2 : eLeafPs t = (t.nodes.toList.filterMap leafOf).filterMap id := rfl
  rw [eInners_eq] at h2 e1
  rw [e1, e2]
  have : t.nodes.toList.length = t.nodes.size := by simp
  omega

end InputPrefix
