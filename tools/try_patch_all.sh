#!/bin/bash
# try_patch_all.sh <patch.diff> : apply a patch to a SCRATCH worktree of /repo, run EVERY check (quick) against it.
P=$(readlink -f "$1")
W=/tmp/hrepo_$$
git -C /repo worktree add --detach $W HEAD -f >/dev/null 2>&1 || exit 2
trap 'git -C /repo worktree remove --force '$W' >/dev/null 2>&1' EXIT
git -C $W apply "$P" || { echo "patch does not apply"; exit 2; }
cd /verif
n=0
for p in $(python3 -c "import json; print(' '.join(c['property_id'] for c in json.load(open('MANIFEST.json'))['checks']))"); do
  out=$(VERIF_REPO=$W ./check $p --tier quick 2>&1); rc=$?
  [ $rc -ne 0 ] && { n=$((n+1)); echo "ALARM $p: $(echo "$out" | grep -m1 VIOLATION | cut -c1-160)"; r=$(echo "$out" | grep -m1 -o 'replay=[^ ]*' | cut -d= -f2); [ -f "$r" ] && python3 -c "
import json; o=json.load(open('$r')); print('    ', (o.get('what') or (o.get('no_longer_checks') or [{}])[0].get('detail',''))[:400])"; }
done
echo "done $(basename $(dirname $P)) alarms=$n"
