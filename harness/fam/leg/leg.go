package leg

import (
	"encoding/hex"
	"fmt"
	"strings"

	proto "github.com/golang/protobuf/proto"
	slim "github.com/openacid/slim/trie"

	"slimverif/harness/fam/trie"
	"slimverif/harness/lp"
)

// Write dispatches on the variant name of the line protocol: "0.5.0" … "0.5.9" or
// "<mode>-0.5.10" / "<mode>-0.5.11" with mode nopref | innpref | allpref.
func Write(variant string, keys []string, vals [][]byte) ([]byte, error) {
	if len(keys) != len(vals) {
		panic("len(keys) must equal len(values)")
	}
	for i := 0; i+1 < len(keys); i++ {
		if keys[i] >= keys[i+1] {
			return nil, slim.ErrKeyOutOfOrder
		}
	}
	parts := strings.Split(variant, "-")
	switch len(parts) {
	case 1:
		if _, ok := ParseVariant3(variant); !ok {
			return nil, fmt.Errorf("unknown variant %s", variant)
		}
		return WriteLegacy3(variant, keys, vals), nil
	case 2:
		return Write0510(parts[0], parts[1], keys, vals)
	}
	return nil, fmt.Errorf("unknown variant %s", variant)
}

func unhex(tok string) []byte {
	if len(tok) == 0 || tok[0] != 'x' {
		panic("bad hex token " + tok)
	}
	b, err := hex.DecodeString(tok[1:])
	if err != nil {
		panic(err)
	}
	return b
}

func parseKVs(rest []string) ([]string, [][]byte, bool) {
	if len(rest)%2 != 0 {
		return nil, nil, false
	}
	var keys []string
	var vals [][]byte
	for i := 0; i+1 < len(rest); i += 2 {
		keys = append(keys, string(unhex(rest[i])))
		vals = append(vals, unhex(rest[i+1]))
	}
	return keys, vals, true
}

func hashStr(b []byte) string { return fmt.Sprintf("%d %s", len(b), trie.Fnv64(b)) }

func errAns(err error) string {
	k := trie.ErrKind(err)
	if k == "err:other" || strings.HasPrefix(k, "err:") {
		return k
	}
	return "err:other"
}

func interp(toks []string) string {
	switch toks[0] {
	case "leg.write", "leg.writehex":
		if len(toks) < 2 {
			return "bad-op"
		}
		keys, vals, ok := parseKVs(toks[2:])
		if !ok {
			return "bad-op"
		}
		b, err := Write(toks[1], keys, vals)
		if err != nil {
			return errAns(err)
		}
		if toks[0] == "leg.writehex" {
			return "ok " + lp.X(b)
		}
		return "ok " + hashStr(b)
	case "leg.sections":
		if len(toks) < 2 {
			return "bad-op"
		}
		keys, vals, ok := parseKVs(toks[2:])
		vr, ok2 := ParseVariant3(toks[1])
		if !ok || !ok2 {
			return "bad-op"
		}
		ch, st, lv := Sections3(vr, keys, vals)
		out := "ok"
		for _, m := range []proto.Message{ch, st, lv} {
			b, err := proto.Marshal(m)
			if err != nil {
				return "err:other"
			}
			out += " " + hashStr(b)
		}
		return out
	}
	return "bad-op"
}

func init() {
	lp.Register("leg", interp)
}
