import SlimProofs.BuildInv
import SlimProofs.Shape
/-
  SlimProofs.BuildShape — every successful `build` produces a record array of the right shape:

    theorem build_shape : build keys vals opt = .ok t → keys ≠ [] → ShapeOK t

  A second, key-independent loop invariant `ShInv` over `buildLoop` (BFS numbering, leaf
  ordinals, big-node prefix, the 16-bit step guard); the label / prefix facts come from `WF`
  (`build_wf`).
-/

namespace BuildShape

open BuildInv

/-! ### `innersBefore` / `leavesBefore` under `push` -/

def innerOf : Node → Option InnerRec
  | .inner r => some r
  | .leaf _ _ => none

theorem innersBefore_eq (nodes : Array Node) (j : Nat) :
    innersBefore nodes j = (nodes.toList.take j).filterMap innerOf := by
  rfl

theorem innersBefore_push_le (nodes : Array Node) (x : Node) {j : Nat} (hj : j ≤ nodes.size) :
    innersBefore (nodes.push x) j = innersBefore nodes j := by
  rw [innersBefore_eq, innersBefore_eq, Array.toList_push,
    List.take_append_of_le_length (by simpa using hj)]

theorem leavesBefore_push_le (nodes : Array Node) (x : Node) {j : Nat} (hj : j ≤ nodes.size) :
    leavesBefore (nodes.push x) j = leavesBefore nodes j := by
  unfold leavesBefore
  rw [Array.toList_push, List.take_append_of_le_length (by simpa using hj)]

theorem take_push_all (nodes : Array Node) (x : Node) :
    (nodes.push x).toList.take (nodes.push x).size = nodes.toList.take nodes.size ++ [x] := by
  rw [Array.toList_push, List.take_of_length_le (by simp), List.take_of_length_le (by simp)]

theorem innersBefore_push_inner (nodes : Array Node) (r : InnerRec) :
    innersBefore (nodes.push (.inner r)) (nodes.push (.inner r)).size =
      innersBefore nodes nodes.size ++ [r] := by
  rw [innersBefore_eq, innersBefore_eq, take_push_all, List.filterMap_append]
  rfl

theorem innersBefore_push_leaf (nodes : Array Node) (ith : Nat) (lp : Option Bytes) :
    innersBefore (nodes.push (.leaf ith lp)) (nodes.push (.leaf ith lp)).size =
      innersBefore nodes nodes.size := by
  rw [innersBefore_eq, innersBefore_eq, take_push_all, List.filterMap_append]
  simp [innerOf]

theorem leavesBefore_push_inner (nodes : Array Node) (r : InnerRec) :
    leavesBefore (nodes.push (.inner r)) (nodes.push (.inner r)).size =
      leavesBefore nodes nodes.size := by
  unfold leavesBefore
  rw [take_push_all, List.filter_append]
  simp [Node.isInner]

theorem leavesBefore_push_leaf (nodes : Array Node) (ith : Nat) (lp : Option Bytes) :
    leavesBefore (nodes.push (.leaf ith lp)) (nodes.push (.leaf ith lp)).size =
      leavesBefore nodes nodes.size + 1 := by
  unfold leavesBefore
  rw [take_push_all, List.filter_append]
  simp [Node.isInner]

theorem innersBefore_length_mono (nodes : Array Node) {j j' : Nat} (h : j ≤ j') :
    (innersBefore nodes j).length ≤ (innersBefore nodes j').length := by
  rw [innersBefore_eq, innersBefore_eq]
  have : nodes.toList.take j' = nodes.toList.take j ++ (nodes.toList.take j').drop j := by
    have := (List.take_append_drop j (nodes.toList.take j')).symm
    rwa [List.take_take, Nat.min_eq_left h] at this
  rw [this, List.filterMap_append, List.length_append]
  omega

theorem innersBefore_lt (nodes : Array Node) {j : Nat} {r : InnerRec}
    (h : nodes[j]? = some (.inner r)) :
    (innersBefore nodes j).length < (innersBefore nodes nodes.size).length := by
  have hj : j < nodes.size := (Array.getElem?_eq_some_iff.mp h).1
  have h1 := innersBefore_length_mono nodes (j := j + 1) (j' := nodes.size) (by omega)
  have h2 : innersBefore nodes (j + 1) = innersBefore nodes j ++ [r] := by
    rw [innersBefore_eq, innersBefore_eq, List.take_add_one, List.filterMap_append,
      Array.getElem?_toList, h]
    rfl
  rw [h2, List.length_append] at h1
  simp only [List.length_cons, List.length_nil] at h1
  omega

theorem getElem?_push_cases {α : Type} {xs : Array α} {x y : α} {j : Nat}
    (h : (xs.push x)[j]? = some y) :
    (j < xs.size ∧ xs[j]? = some y) ∨ (j = xs.size ∧ y = x) := by
  rw [Array.getElem?_push] at h
  split at h
  · next hj => right; exact ⟨hj, by cases h; rfl⟩
  · left
    exact ⟨(Array.getElem?_eq_some_iff.mp h).1, h⟩

/-! ### the shape invariant of the loop -/

structure ShInv (st : BSt) : Prop where
  qsize : st.queue.size =
    1 + ((innersBefore st.nodes st.nodes.size).map (fun r => r.labels.length)).sum
  fc : ∀ (j : Nat) (r : InnerRec), st.nodes[j]? = some (.inner r) →
    r.firstChild = 1 + ((innersBefore st.nodes j).map (fun r => r.labels.length)).sum
  lk : st.leafKeyIdx.size = leavesBefore st.nodes st.nodes.size
  lo : ∀ (j ith : Nat) (lp : Option Bytes), st.nodes[j]? = some (.leaf ith lp) →
    ith = leavesBefore st.nodes j
  big1 : ∀ (j : Nat) (r : InnerRec), st.nodes[j]? = some (.inner r) →
    (r.big = true ↔ (innersBefore st.nodes j).length < st.bigCnt)
  big2 : st.bigCnt ≤ (innersBefore st.nodes st.nodes.size).length
  big3 : st.isBig = true → st.bigCnt = (innersBefore st.nodes st.nodes.size).length
  step : ∀ (j : Nat) (r : InnerRec) (n : Nat), st.nodes[j]? = some (.inner r) →
    r.pref = .step n → n < 65536

theorem shinv_init (q : Array Subset) (hq : q.size = 1) : ShInv { queue := q } := by
  refine ⟨by simpa [innersBefore] using hq, ?_, by simp [leavesBefore], ?_, ?_, by simp, ?_, ?_⟩
  all_goals intros; simp_all [innersBefore]

theorem buildStep_sh {c : BCtx} {st st' : BSt} {o : Subset} (hinv : ShInv st)
    (hstep : buildStep c st o = .ok st') : ShInv st' := by
  by_cases hleaf : o.e - o.s = 1
  · -- leaf
    rw [buildStep_leaf_eq c st o hleaf] at hstep
    cases hstep
    refine ⟨?_, ?_, ?_, ?_, ?_, ?_, ?_, ?_⟩
    · dsimp only; rw [innersBefore_push_leaf]; exact hinv.qsize
    · intro j r h
      dsimp only at h ⊢
      rcases getElem?_push_cases h with ⟨hj, h'⟩ | ⟨_, h'⟩
      · rw [innersBefore_push_le _ _ (by omega)]; exact hinv.fc j r h'
      · cases h'
    · dsimp only; rw [leavesBefore_push_leaf, Array.size_push, hinv.lk]
    · intro j ith lp h
      dsimp only at h ⊢
      rcases getElem?_push_cases h with ⟨hj, h'⟩ | ⟨hj, h'⟩
      · rw [leavesBefore_push_le _ _ (by omega)]; exact hinv.lo j ith lp h'
      · cases h'
        rw [leavesBefore_push_le _ _ (by omega), hj, hinv.lk]
    · intro j r h
      dsimp only at h ⊢
      rcases getElem?_push_cases h with ⟨hj, h'⟩ | ⟨_, h'⟩
      · rw [innersBefore_push_le _ _ (by omega)]; exact hinv.big1 j r h'
      · cases h'
    · dsimp only; rw [innersBefore_push_leaf]; exact hinv.big2
    · dsimp only; rw [innersBefore_push_leaf]; exact hinv.big3
    · intro j r n h
      dsimp only at h
      rcases getElem?_push_cases h with ⟨hj, h'⟩ | ⟨_, h'⟩
      · exact hinv.step j r n h'
      · cases h'
  · -- inner
    rw [buildStep_inner_eq c st o hleaf _ rfl _ rfl] at hstep
    generalize hgo : (st.isBig && decide (prefCnt c o.s o.e (minLcp c o.s o.e) > 10)) = goBig at hstep
    generalize hws : (if goBig = true then minLcp c o.s o.e - minLcp c o.s o.e % 2
      else minLcp c o.s o.e) = ws at hstep
    split at hstep
    · cases hstep
    split at hstep
    · cases hstep
    next hfb hguard =>
    cases hstep
    have hm := hinv.big2
    refine ⟨?_, ?_, ?_, ?_, ?_, ?_, ?_, ?_⟩
    · dsimp only
      have h1 : ∀ (l : List (Nat × Nat × Nat)), (l.map (kidOf ws goBig)).toArray.size = l.length := by
        intro l; simp
      rw [innersBefore_push_inner, List.map_append, List.sum_append, Array.size_append, h1,
        childRuns_length, hinv.qsize]
      simp only [List.map_cons, List.map_nil, List.sum_cons, List.sum_nil]
      omega
    · intro j r h
      dsimp only at h ⊢
      rcases getElem?_push_cases h with ⟨hj, h'⟩ | ⟨hj, h'⟩
      · rw [innersBefore_push_le _ _ (by omega)]; exact hinv.fc j r h'
      · cases h'
        rw [innersBefore_push_le _ _ (by omega), hj]
        exact hinv.qsize
    · dsimp only; rw [leavesBefore_push_inner]; exact hinv.lk
    · intro j ith lp h
      dsimp only at h ⊢
      rcases getElem?_push_cases h with ⟨hj, h'⟩ | ⟨_, h'⟩
      · rw [leavesBefore_push_le _ _ (by omega)]; exact hinv.lo j ith lp h'
      · cases h'
    · intro j r h
      dsimp only at h ⊢
      rcases getElem?_push_cases h with ⟨hj, h'⟩ | ⟨hj, h'⟩
      · rw [innersBefore_push_le _ _ (by omega)]
        have := innersBefore_lt st.nodes h'
        cases goBig with
        | false => simpa using hinv.big1 j r h'
        | true =>
          have hb : st.isBig = true := (Bool.and_eq_true_iff.mp hgo).1
          have := hinv.big3 hb
          simp only [↓reduceIte]
          constructor
          · intro _; omega
          · intro _; exact (hinv.big1 j r h').mpr (by omega)
      · cases h'
        rw [innersBefore_push_le _ _ (by omega), hj]
        cases goBig with
        | false => simp only [Bool.false_eq_true, ↓reduceIte, false_iff]; omega
        | true =>
          have hb : st.isBig = true := (Bool.and_eq_true_iff.mp hgo).1
          have := hinv.big3 hb
          simp only [↓reduceIte, true_iff]; omega
    · dsimp only
      rw [innersBefore_push_inner, List.length_append]
      split <;> simp only [List.length_cons, List.length_nil] <;> omega
    · intro hb
      dsimp only at hb ⊢
      subst hb
      have hb : st.isBig = true := (Bool.and_eq_true_iff.mp hgo).1
      have := hinv.big3 hb
      rw [innersBefore_push_inner, List.length_append]
      simp only [↓reduceIte, List.length_cons, List.length_nil]; omega
    · intro j r n h hp
      dsimp only at h
      rcases getElem?_push_cases h with ⟨hj, h'⟩ | ⟨_, h'⟩
      · exact hinv.step j r n h' hp
      · cases h'
        simp only [prefOf] at hp
        split at hp
        · cases hp
        · split at hp
          · cases hp
          · next hin =>
            cases hp
            simp only [hin, Bool.not_false, Bool.true_and, decide_eq_true_eq] at hguard
            omega

theorem buildLoop_sh {c : BCtx} (fuel i : Nat) (st st' : BSt) (hinv : ShInv st)
    (h : buildLoop c fuel i st = .ok st') : ShInv st' := by
  induction fuel generalizing i st with
  | zero =>
    simp only [buildLoop] at h
    split at h
    · cases h
    · cases h; exact hinv
  | succ fuel ih =>
    simp only [buildLoop] at h
    split at h
    · split at h
      · next st2 hst => exact ih _ _ (buildStep_sh hinv hst) h
      · cases h
    · cases h; exact hinv

/-! ### what a successful `build` is -/

/-- the initial state of the loop -/
def initSt (n : Nat) : BSt := { queue := #[{ s := 0, e := n, fb := 0 }] }

/-- the trie made from the final state -/
def trieOf (opt : Opt) (vals : Option (List Bytes)) (st : BSt) : Trie1 :=
  { opt := opt, nodes := st.nodes, bigCnt := st.bigCnt, leafKeyIdx := st.leafKeyIdx
    elts := vals.map (fun vs => st.leafKeyIdx.toList.map (fun i => vs.getD i [])) }

/-- on valid input `build` is the loop -/
theorem build_eq_loop (keys : List Bytes) (vals : Option (List Bytes)) (opt : Opt)
    (hne : keys ≠ []) (hasc : strictAsc keys = true)
    (hv : ∀ vs, vals = some vs → vs.length = keys.length) :
    build keys vals opt =
      match buildLoop (mkCtx keys vals opt) (2 * keys.length) 0 (initSt keys.length) with
      | .error e => .error e
      | .ok st => .ok (trieOf opt vals st) := by
  have hn : keys.length ≠ 0 := by
    intro h; exact hne (List.length_eq_zero_iff.mp h)
  have : build keys vals opt = build.go keys vals opt keys.length := by
    unfold build
    simp only [if_neg hn, hasc, Bool.not_true, Bool.false_eq_true, if_false]
    cases vals with
    | none => rfl
    | some vs => simp only [hv vs rfl, ne_eq, not_true_eq_false, if_false]
  exact this.trans (build_go_eq keys vals opt)

/-- a successful `build` of a non-empty key list: the input was valid and the loop succeeded -/
theorem build_ok_elim {keys : List Bytes} {vals : Option (List Bytes)} {opt : Opt} {t : Trie1}
    (hb : build keys vals opt = .ok t) (hne : keys ≠ []) :
    strictAsc keys = true ∧ (∀ vs, vals = some vs → vs.length = keys.length) ∧
    ∃ st, buildLoop (mkCtx keys vals opt) (2 * keys.length) 0 (initSt keys.length) = .ok st ∧
      t = trieOf opt vals st := by
  have hn : keys.length ≠ 0 := by
    intro h; exact hne (List.length_eq_zero_iff.mp h)
  have hasc : strictAsc keys = true := by
    cases h : strictAsc keys with
    | true => rfl
    | false =>
      unfold build at hb
      simp [hn, h] at hb
  have hv : ∀ vs, vals = some vs → vs.length = keys.length := by
    intro vs hvs
    subst hvs
    apply Classical.byContradiction
    intro hlen
    unfold build at hb
    simp [hn, hasc, hlen] at hb
  refine ⟨hasc, hv, ?_⟩
  rw [build_eq_loop keys vals opt hne hasc hv] at hb
  split at hb
  · cases hb
  · next st hst => cases hb; exact ⟨st, hst, rfl⟩

/-! ### label and prefix facts -/

theorem labelAt_lt_bound {k : List Nat} (hk : ∀ x ∈ k, x < 16) (ws : Nat) (big : Bool) :
    labelAt k ws big < labelBound big := by
  unfold labelAt labelBound
  have h1 := getD_lt16 hk (ws + 1)
  cases h : k[ws]? with
  | none => simp only; split <;> omega
  | some a =>
    have := hk a (List.mem_of_getElem? h)
    simp only
    split <;> omega

theorem prefOf_ok {opt : Opt} {k : List Nat} {fb ws : Nat} (hk : ∀ x ∈ k, x < 16)
    (hfb : fb ≤ ws) (hws : ws ≤ k.length)
    (hstep : ∀ n, prefOf opt k fb ws = .step n → n < 65536) :
    PrefOK opt (prefOf opt k fb ws) := by
  unfold prefOf at hstep ⊢
  split
  · trivial
  · next h0 =>
    rw [if_neg h0] at hstep
    split
    · next hin =>
      refine ⟨hin, ?_, ?_⟩
      · simp only [storedPrefix, List.length_drop, List.length_take]; omega
      · intro x hx
        exact hk x (List.mem_of_mem_take (List.mem_of_mem_drop hx))
    · next hin =>
      rw [if_neg hin] at hstep
      exact ⟨by simpa using hin, by omega, hstep _ rfl⟩

end BuildShape

open BuildShape BuildInv

/-- Every successful `build` of a non-empty key list yields a record array of the right shape. -/
theorem build_shape (keys : List Bytes) (vals : Option (List Bytes)) (opt : Opt) (t : Trie1)
    (hb : build keys vals opt = .ok t) (hne : keys ≠ []) : ShapeOK t := by
  obtain ⟨⟨queue, hqs, hroot, hwf⟩, hopt⟩ := build_wf keys vals opt t hb hne
  have helts := build_elts keys vals opt t hb hne
  obtain ⟨hasc, hv, st, hst, rfl⟩ := build_ok_elim hb hne
  have hn : keys.length ≠ 0 := by
    intro h; exact hne (List.length_eq_zero_iff.mp h)
  have hb := buildLoop_inv (mkCtx_ok keys vals opt) hasc _ _ _ _ (binv_init opt hn hv) hst
  have hs := buildLoop_sh _ _ _ _ (shinv_init _ rfl) hst
  have hsz : st.nodes.size = st.queue.size := hb.size
  -- node j of the final array, as WF sees it
  have hnode : ∀ (j : Nat) (nd : Node), st.nodes[j]? = some nd →
      ∃ o, SubOK keys (keepMask keys.length vals opt.dedup) o ∧
        NodeOK keys (keepMask keys.length vals opt.dedup) opt queue st.leafKeyIdx j o nd := by
    intro j nd h
    obtain ⟨hj, h'⟩ := Array.getElem?_eq_some_iff.mp h
    obtain ⟨o, _, h2, h3⟩ := hwf j hj
    refine ⟨o, h2, ?_⟩
    simp only [trieOf] at h3
    rw [h'] at h3
    exact h3
  refine ⟨?_, hs.fc, ?_, hs.lo, ?_, hs.big1, ?_, ?_, hs.lk, ?_⟩
  · -- nonempty
    show 0 < st.nodes.size
    have := hb.le; have := hb.root
    rw [hsz]
    exact (Array.getElem?_eq_some_iff.mp hb.root).1
  · -- total
    show st.nodes.size = _
    rw [hsz]; exact hs.qsize
  · -- labels
    intro j r h
    obtain ⟨o, hsub, _, ws, _, _, _, _, hmem, hpw, _⟩ := hnode j _ h
    refine ⟨?_, hpw, ?_⟩
    · obtain ⟨t, h1, h2, h3⟩ := hsub.kept
      intro hnil
      have := (hmem _).mpr ⟨t, h1, h2, h3, rfl⟩
      rw [hnil] at this
      cases this
    · intro l hl
      obtain ⟨t, _, _, _, h4⟩ := (hmem l).mp hl
      rw [← h4]
      exact labelAt_lt_bound (knOf_lt16 keys t) ws r.big
  · -- pref
    intro j r h
    obtain ⟨o, hsub, _, ws, hfb, hpre, _, hpref, _⟩ := hnode j _ h
    show PrefOK opt r.pref
    rw [hpref]
    apply prefOf_ok (knOf_lt16 keys o.s) hfb (hpre o.s (Nat.le_refl _) hsub.lt).1
    intro n hp
    rw [← hpref] at hp
    exact hs.step j r n h hp
  · -- leafPref
    intro j ith b h
    obtain ⟨o, _, _, _, h3⟩ := hnode j _ h
    show opt.leaf = true ∧ b ≠ []
    unfold leafPrefOf at h3
    simp only at h3
    split at h3
    · next hc =>
      cases h3
      simp only [Bool.and_eq_true, Bool.not_eq_true', List.isEmpty_eq_false_iff] at hc
      exact hc
    · cases h3
  · -- elts
    intro es hes
    rw [helts] at hes
    cases vals with
    | none => cases hes
    | some vs =>
      simp only [Option.map_some, Option.some.injEq] at hes
      rw [← hes]
      simp [trieOf]

#print axioms build_shape
