import SlimProofs.Transport
import SlimProofs.Render
/-
  SlimProofs.TransportRender — `String()` (`Slim.render`, `Slim.toStringSlim`) carries over along
  a `Transport.ViewSim`: rendering only reads `node` and `leafBytes`.
  (Separate from `SlimProofs.Transport` only to keep that file free of the `Render` import.)
-/
namespace Transport
open Slim
variable {v₁ v₂ : View} {n : Nat}

theorem kids_le (fmtVal : Option Bytes → String) (f₁ f₂ : Nat) (r : InnerRec) (indent : String)
    (ih : ∀ inb id, Le (render v₁ fmtVal f₁ inb id) (render v₂ fmtVal f₂ inb id)) :
    ∀ labels k, Le (render.kids v₁ fmtVal f₁ r indent labels k)
      (render.kids v₂ fmtVal f₂ r indent labels k) := by
  intro labels
  induction labels with
  | nil => intro k; unfold render.kids; exact Le.refl _
  | cons l ls ihl =>
    intro k
    unfold render.kids
    exact Le.bind (ih _ _) (fun _ => Le.bind (ihl _) (fun _ => Le.refl _))

theorem render_le (s : ViewSim v₁ v₂ n) (fmtVal : Option Bytes → String) :
    ∀ f₁ f₂ inb id, f₁ ≤ f₂ → Le (render v₁ fmtVal f₁ inb id) (render v₂ fmtVal f₂ inb id) := by
  intro f₁
  induction f₁ with
  | zero => intro f₂ inb id _; unfold render; exact Le.error _ _
  | succ f₁ ih =>
    intro f₂ inb id hf
    obtain ⟨f₂, rfl⟩ : ∃ f, f₂ = f + 1 := ⟨f₂ - 1, by omega⟩
    rw [render_succ, render_succ]
    refine Le.bind (s.node_le id) (fun nd => ?_)
    cases nd with
    | leaf ith lp =>
      exact Le.bind (fun r h => s.leaf ith r h) (fun _ => Le.refl _)
    | inner r =>
      exact Le.bind (kids_le fmtVal f₁ f₂ r _ (fun inb id => ih f₂ inb id (by omega)) _ _)
        (fun _ => Le.refl _)

theorem toStringSlim_le (s : ViewSim v₁ v₂ n) (fmtVal : Option Bytes → String) :
    Le (toStringSlim v₁ fmtVal) (toStringSlim v₂ fmtVal) := by
  have hc := s.cnt
  unfold toStringSlim
  rw [s.isEmpty]
  refine Le.ite (fun _ => Le.refl _) (fun _ => ?_)
  exact Le.bind (render_le s fmtVal _ _ _ _ (by omega)) (fun _ => Le.refl _)

end Transport
