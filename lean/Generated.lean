import Generated.Facts
