import SlimModel.Stat
import SlimProofs.Subtree
import SlimProofs.LeafCount
/-
  SlimProofs.Render — `String()` (`Slim.render`, SlimModel/Stat.lean) on a view whose nodes form
  a breadth-first numbered tree.

  * `Slim.renderIds`       the ids of the nodes in line order (a pure mirror of `render`)
  * `Slim.ViewOK`          what `render` needs of a view: ids of children in range and above
                           the parent, leaf values readable
  * `Slim.render_ok`       `render` succeeds with enough fuel, and line k is the line of node
                           `renderIds[k]` (`Slim.LineOf`: some indentation / branch prefix followed
                           by `Slim.nodeText`)
  * `Slim.BfsOK`           the BFS numbering law (`ShapeOK.firstChild` + `total`) for a view
  * `Slim.renderIds_perm`  under `ViewOK` + `BfsOK`, `renderIds` from the root is a permutation
                           of `0 … N-1`: every node is rendered exactly once
  * `Render.leaf_order`    in a well-formed record array (`Subtree.QOK`) the leaves below node j,
                           in line order, are the kept keys of subset j in ascending order
  * `Render.viewOK_of_build`, `Render.bfsOK_of_build`   both hold for built tries
-/

namespace Slim

/-! ### the ids in line order -/

/-- ids of the subtree of `id`, in the order `render` emits their lines -/
def renderIds (v : View) : Nat → Nat → List Nat
  | 0, _ => []
  | fuel + 1, id =>
    match v.node id with
    | .ok (.inner r) =>
      id :: ((List.range' 0 r.labels.length).map
        (fun k => renderIds v fuel (r.firstChild + k))).flatten
    | .ok (.leaf _ _) => [id]
    | .error _ => []

/-- the step suffix of an inner line -/
def stepOf (p : Pref) : Nat :=
  match p with
  | .none => 0
  | .step n => 4 * n
  | .stored p => 4 * p.length

/-- the text of the line of node `id` behind its indentation and branch label -/
def nodeText (v : View) (fmtVal : Option Bytes → String) (id : Nat) : String :=
  match v.node id with
  | .ok (.leaf ith _) =>
    "#" ++ pad3 id ++ "=" ++ fmtVal (match v.leafBytes ith with | .ok val => val | .error _ => none)
  | .ok (.inner r) =>
    "#" ++ pad3 id ++ (if stepOf r.pref > 0 then "+" ++ toString (stepOf r.pref) else "")
      ++ (if r.labels.length > 1 then "*" ++ toString r.labels.length else "")
  | .error _ => ""

/-- `line` is the line of node `id` -/
def LineOf (v : View) (fmtVal : Option Bytes → String) (line : String) (id : Nat) : Prop :=
  ∃ pre : String, line = pre ++ nodeText v fmtVal id

def branchStr (inb : Option String) : String :=
  match inb with
  | some l => "-" ++ l ++ "->"
  | none => ""

theorem render_succ (v : View) (fmtVal : Option Bytes → String) (fuel : Nat) (inb : Option String)
    (id : Nat) :
    render v fmtVal (fuel + 1) inb id = (do
      match ← v.node id with
      | .leaf ith _ =>
        let val ← v.leafBytes ith
        return [(branchStr inb ++ "#" ++ pad3 id) ++ "=" ++ fmtVal val]
      | .inner r =>
        let ks ← render.kids v fmtVal fuel r
          (String.ofList (List.replicate (branchStr inb ++ "#" ++ pad3 id).length ' ')) r.labels 0
        return ((branchStr inb ++ "#" ++ pad3 id)
          ++ (if stepOf r.pref > 0 then "+" ++ toString (stepOf r.pref) else "")
          ++ (if r.labels.length > 1 then "*" ++ toString r.labels.length else "")) :: ks) := by
  cases inb <;> rw [render] <;> rfl

/-- two lists related elementwise (`List.Forall₂` of Mathlib; core Lean has none) -/
inductive Forall2 {α β : Type} (R : α → β → Prop) : List α → List β → Prop
  | nil : Forall2 R [] []
  | cons {a b l m} : R a b → Forall2 R l m → Forall2 R (a :: l) (b :: m)

theorem Forall2.length_eq {α β : Type} {R : α → β → Prop} {l : List α} {m : List β}
    (h : Forall2 R l m) : l.length = m.length := by
  induction h with
  | nil => rfl
  | cons _ _ ih => simp [ih]

theorem Forall2.getElem {α β : Type} {R : α → β → Prop} {l : List α} {m : List β}
    (h : Forall2 R l m) (k : Nat) (hl : k < l.length) (hm : k < m.length) : R l[k] m[k] := by
  induction h generalizing k with
  | nil => simp at hl
  | cons hx _ ih =>
    cases k with
    | zero => exact hx
    | succ k => exact ih k (by simpa using hl) (by simpa using hm)

theorem renderIds_succ (v : View) (fuel id : Nat) :
    renderIds v (fuel + 1) id =
      match v.node id with
      | .ok (.inner r) =>
        id :: ((List.range' 0 r.labels.length).map
          (fun k => renderIds v fuel (r.firstChild + k))).flatten
      | .ok (.leaf _ _) => [id]
      | .error _ => [] := rfl

/-- what `render` needs of a view with `N` nodes -/
structure ViewOK (v : View) (N : Nat) : Prop where
  node_ok : ∀ id, id < N → ∃ nd, v.node id = .ok nd
  kid_lt : ∀ id r, v.node id = .ok (.inner r) → ∀ k, k < r.labels.length → r.firstChild + k < N
  fc_gt : ∀ id r, v.node id = .ok (.inner r) → id < r.firstChild
  leaf_ok : ∀ id ith lp, v.node id = .ok (.leaf ith lp) → ∃ val, v.leafBytes ith = .ok val

theorem lineOf_indent {v : View} {fmtVal : Option Bytes → String} (indent : String)
    {lines : List String} {ids : List Nat} (h : Forall2 (LineOf v fmtVal) lines ids) :
    Forall2 (LineOf v fmtVal) (lines.map (fun x => indent ++ x)) ids := by
  induction h with
  | nil => exact Forall2.nil
  | cons hx _ ih =>
    obtain ⟨pre, rfl⟩ := hx
    exact Forall2.cons ⟨indent ++ pre, by rw [String.append_assoc]⟩ ih

theorem forall₂_append {α β : Type} {R : α → β → Prop} {l₁ l₂ : List α} {m₁ m₂ : List β}
    (h₁ : Forall2 R l₁ m₁) (h₂ : Forall2 R l₂ m₂) :
    Forall2 R (l₁ ++ l₂) (m₁ ++ m₂) := by
  induction h₁ with
  | nil => exact h₂
  | cons hx _ ih => exact Forall2.cons hx ih

/-- `render` succeeds with enough fuel; its lines are the lines of `renderIds`, in order -/
theorem render_ok {v : View} {N : Nat} (h : ViewOK v N) (fmtVal : Option Bytes → String) :
    ∀ fuel id inb, id < N → N - id < fuel →
      ∃ lines, render v fmtVal fuel inb id = .ok lines ∧
        Forall2 (LineOf v fmtVal) lines (renderIds v fuel id) := by
  intro fuel
  induction fuel with
  | zero => intro id inb _ h2; omega
  | succ fuel ih =>
    intro id inb hid hfuel
    obtain ⟨nd, hnd⟩ := h.node_ok id hid
    rw [render_succ, renderIds_succ, hnd]
    cases nd with
    | leaf ith lp =>
      obtain ⟨val, hval⟩ := h.leaf_ok id ith lp hnd
      simp only [bind, Except.bind, pure, Except.pure, hval]
      refine ⟨_, rfl, Forall2.cons ⟨branchStr inb, ?_⟩ Forall2.nil⟩
      simp only [nodeText, hnd, hval, String.append_assoc]
    | inner r =>
      have hfc := h.fc_gt id r hnd
      have hkid := h.kid_lt id r hnd
      -- the children
      have hkids : ∀ (ls : List Nat) (a : Nat) (indent : String),
          a + ls.length ≤ r.labels.length →
          ∃ out, render.kids v fmtVal fuel r indent ls a = .ok out ∧
            Forall2 (LineOf v fmtVal) out
              ((List.range' a ls.length).map
                (fun k => renderIds v fuel (r.firstChild + k))).flatten := by
        intro ls
        induction ls with
        | nil =>
          intro a indent _
          exact ⟨[], by rw [render.kids], by simpa using Forall2.nil⟩
        | cons l ls ihl =>
          intro a indent ha
          simp only [List.length_cons] at ha
          have hlt := hkid a (by omega)
          obtain ⟨sub, hsub, hsubl⟩ := ih (r.firstChild + a) (some (labelStr l r.big)) hlt
            (by omega)
          obtain ⟨rest, hrest, hrestl⟩ := ihl (a + 1) indent (by omega)
          refine ⟨sub.map (fun x => indent ++ x) ++ rest, ?_, ?_⟩
          · rw [render.kids]
            simp only [bind, Except.bind, pure, Except.pure, hsub, hrest]
          · simp only [List.length_cons, List.range'_succ, List.map_cons, List.flatten_cons]
            exact forall₂_append (lineOf_indent indent hsubl) hrestl
      obtain ⟨ks, hks, hksl⟩ := hkids r.labels 0
        (String.ofList (List.replicate (branchStr inb ++ "#" ++ pad3 id).length ' ')) (by omega)
      simp only [bind, Except.bind, pure, Except.pure, hks]
      refine ⟨_, rfl, Forall2.cons ⟨branchStr inb, ?_⟩ hksl⟩
      simp only [nodeText, hnd, String.append_assoc]

/-- `String()` succeeds on a non-empty view -/
theorem toStringSlim_ok {v : View} (h : ViewOK v v.nodeCnt) (hpos : 0 < v.nodeCnt)
    (hne : v.isEmpty = false) (fmtVal : Option Bytes → String) :
    ∃ lines, toStringSlim v fmtVal = .ok ("\n".intercalate lines) ∧
      render v fmtVal (v.nodeCnt + 1) none 0 = .ok lines ∧
      Forall2 (LineOf v fmtVal) lines (renderIds v (v.nodeCnt + 1) 0) := by
  obtain ⟨lines, h1, h2⟩ := render_ok h fmtVal (v.nodeCnt + 1) 0 none hpos (by omega)
  refine ⟨lines, ?_, h1, h2⟩
  unfold toStringSlim
  simp only [hne, Bool.false_eq_true, if_false, bind, Except.bind, pure, Except.pure, h1]

/-! ### fuel independence of `renderIds` -/

theorem renderIds_fuel {v : View} {N : Nat} (h : ViewOK v N) :
    ∀ n id f f', id < N → N - id ≤ n → n < f → n < f' → renderIds v f id = renderIds v f' id := by
  intro n
  induction n with
  | zero => intro id f f' h1 h2; omega
  | succ n ih =>
    intro id f f' hid hn hf hf'
    obtain ⟨f, rfl⟩ : ∃ g, f = g + 1 := ⟨f - 1, by omega⟩
    obtain ⟨f', rfl⟩ : ∃ g, f' = g + 1 := ⟨f' - 1, by omega⟩
    obtain ⟨nd, hnd⟩ := h.node_ok id hid
    rw [renderIds_succ, renderIds_succ, hnd]
    cases nd with
    | leaf ith lp => rfl
    | inner r =>
      have hfc := h.fc_gt id r hnd
      have hkid := h.kid_lt id r hnd
      simp only
      congr 2
      apply List.map_congr_left
      intro k hk
      rw [List.mem_range'_1] at hk
      exact ih (r.firstChild + k) f f' (hkid k (by omega)) (by omega) (by omega) (by omega)

/-! ### BFS numbering: every node is rendered exactly once -/

/-- number of labels of node `i` (0 for a leaf) -/
def labelCnt (v : View) (i : Nat) : Nat :=
  match v.node i with
  | .ok (.inner r) => r.labels.length
  | _ => 0

/-- `1 +` the number of labels of the inner nodes before `j` = id of the first node whose
    parent is not before `j` -/
def bfsStart (v : View) (j : Nat) : Nat := 1 + ((List.range j).map (labelCnt v)).sum

/-- the BFS numbering law of a view with `N` nodes -/
structure BfsOK (v : View) (N : Nat) : Prop where
  first : ∀ id r, v.node id = .ok (.inner r) → r.firstChild = bfsStart v id
  total : bfsStart v N = N

theorem bfsStart_succ (v : View) (j : Nat) : bfsStart v (j + 1) = bfsStart v j + labelCnt v j := by
  simp only [bfsStart, List.range_succ, List.map_append, List.sum_append, List.map_cons,
    List.map_nil, List.sum_cons, List.sum_nil]
  omega

/-- every node has its parent before it: `m < bfsStart m` -/
theorem lt_bfsStart {v : View} {N : Nat} (h : ViewOK v N) (hb : BfsOK v N) (m : Nat) (hm : m < N) :
    m < bfsStart v m := by
  apply Nat.lt_of_not_le
  intro hle
  have hconst : ∀ d, m + d ≤ N → bfsStart v (m + d) = bfsStart v m := by
    intro d
    induction d with
    | zero => intro _; rfl
    | succ d ih =>
      intro hd
      have ih' := ih (by omega)
      rw [← Nat.add_assoc, bfsStart_succ, ih']
      have : labelCnt v (m + d) = 0 := by
        unfold labelCnt
        obtain ⟨nd, hnd⟩ := h.node_ok (m + d) (by omega)
        rw [hnd]
        cases nd with
        | leaf _ _ => rfl
        | inner r =>
          exfalso
          have h1 := h.fc_gt _ r hnd
          have h2 := hb.first _ r hnd
          omega
      omega
  have := hconst (N - m) (by omega)
  have hN : m + (N - m) = N := by omega
  rw [hN, hb.total] at this
  omega

theorem range'_shift (s n : Nat) : List.range' s n = (List.range' 0 n).map (fun k => s + k) := by
  have := (List.map_add_range' (a := s) 0 n 1).symm
  simpa using this

/-- the subtrees of the nodes `m … bfsStart m - 1` (the nodes from `m` on whose parent is before
    `m`) together contain exactly the nodes `m … N-1`, each once -/
theorem forest_perm {v : View} {N : Nat} (h : ViewOK v N) (hb : BfsOK v N) :
    ∀ d m, m + d = N →
      (((List.range' m (bfsStart v m - m)).map (fun j => renderIds v (N + 1) j)).flatten).Perm
        (List.range' m (N - m)) := by
  intro d
  induction d with
  | zero =>
    intro m hm
    have : m = N := by omega
    subst this
    rw [hb.total]
    simp
  | succ d ih =>
    intro m hm
    have hmN : m < N := by omega
    have hlt := lt_bfsStart h hb m hmN
    have ih' := ih (m + 1) (by omega)
    rw [bfsStart_succ] at ih'
    obtain ⟨k, hk⟩ : ∃ k, bfsStart v m - m = k + 1 := ⟨bfsStart v m - m - 1, by omega⟩
    obtain ⟨n', hn'⟩ : ∃ n', N - m = n' + 1 := ⟨N - m - 1, by omega⟩
    rw [hk, hn', List.range'_succ, List.range'_succ, List.map_cons, List.flatten_cons]
    have hk' : bfsStart v m - (m + 1) = k := by omega
    have hn'' : N - (m + 1) = n' := by omega
    obtain ⟨nd, hnd⟩ := h.node_ok m hmN
    cases nd with
    | leaf ith lp =>
      have hL : labelCnt v m = 0 := by simp [labelCnt, hnd]
      simp only [hL, Nat.add_zero] at ih'
      rw [hk', hn''] at ih'
      have hD : renderIds v (N + 1) m = [m] := by rw [renderIds_succ, hnd]
      rw [hD]
      exact List.Perm.cons m ih'
    | inner r =>
      have hL : labelCnt v m = r.labels.length := by simp [labelCnt, hnd]
      have hfc := hb.first m r hnd
      have hkid := h.kid_lt m r hnd
      have hD : renderIds v (N + 1) m = m ::
          ((List.range' (bfsStart v m) r.labels.length).map
            (fun j => renderIds v (N + 1) j)).flatten := by
        rw [renderIds_succ, hnd]
        simp only
        congr 2
        rw [range'_shift (bfsStart v m), List.map_map]
        apply List.map_congr_left
        intro k hk
        rw [List.mem_range'_1] at hk
        simp only [Function.comp]
        rw [← hfc]
        exact renderIds_fuel h (N - 1) _ _ _ (hkid k (by omega)) (by omega) (by omega) (by omega)
      rw [hL] at ih'
      rw [hD]
      have hsplit : List.range' (m + 1) (bfsStart v m + r.labels.length - (m + 1)) =
          List.range' (m + 1) k ++ List.range' (bfsStart v m) r.labels.length := by
        have e1 : bfsStart v m + r.labels.length - (m + 1) = k + r.labels.length := by omega
        have e2 : bfsStart v m = m + 1 + k := by omega
        rw [e1, ← List.range'_append_1, ← e2]
      rw [hsplit, List.map_append, List.flatten_append, hn''] at ih'
      simp only [List.cons_append]
      refine List.Perm.cons m ?_
      exact List.Perm.trans List.perm_append_comm ih'

/-- **every node is rendered exactly once**: the ids in line order are a permutation of all ids -/
theorem renderIds_perm {v : View} {N : Nat} (h : ViewOK v N) (hb : BfsOK v N) :
    (renderIds v (N + 1) 0).Perm (List.range N) := by
  have := forest_perm h hb N 0 (by omega)
  have h1 : bfsStart v 0 - 0 = 1 := by simp [bfsStart]
  rw [h1] at this
  simpa [List.range_eq_range'] using this

end Slim

/-! ## built tries -/

namespace Render

open Slim Subtree LeafCount

/-! ### the view of a record array -/

theorem view_node_inv (t : Trie1) (id : Nat) (nd : Node) (h : t.view.node id = .ok nd) :
    ∃ hid : id < t.nodes.size, t.nodes[id] = nd := by
  simp only [Trie1.view] at h
  split at h
  · next n hn =>
    cases h
    exact Array.getElem?_eq_some_iff.mp hn
  · cases h

theorem viewOK_of_wf_shape {keys : List Bytes} {keep : List Bool} {t : Trie1}
    {queue : Array Subset} (h : QOK keys keep t queue) (hs : ShapeOK t) :
    ViewOK t.view t.nodes.size := by
  refine ⟨?_, ?_, ?_, ?_⟩
  · intro id hid
    exact ⟨_, view_node t id hid⟩
  · intro id r hnd k hk
    obtain ⟨hid, hn⟩ := view_node_inv t id _ hnd
    obtain ⟨o, _, _, hnode⟩ := h.node id hid
    rw [hn] at hnode
    obtain ⟨_, ws, _, _, _, _, _, _, _, _, hkids⟩ := hnode
    obtain ⟨c, hc, _⟩ := hkids k hk
    have := (Array.getElem?_eq_some_iff.mp hc).1
    have := h.size
    omega
  · intro id r hnd
    obtain ⟨hid, hn⟩ := view_node_inv t id _ hnd
    obtain ⟨o, _, _, hnode⟩ := h.node id hid
    rw [hn] at hnode
    obtain ⟨_, ws, _, _, _, _, _, _, _, hfc, _⟩ := hnode
    exact hfc
  · intro id ith lp hnd
    obtain ⟨hid, hn⟩ := view_node_inv t id _ hnd
    obtain ⟨o, _, _, hnode⟩ := h.node id hid
    rw [hn] at hnode
    obtain ⟨_, hidx, _⟩ := hnode
    have hith : ith < t.leafKeyIdx.size := (Array.getElem?_eq_some_iff.mp hidx).1
    simp only [Trie1.view]
    cases he : t.elts with
    | none => exact ⟨none, rfl⟩
    | some es =>
      have hlen := hs.elts es he
      simp only
      split
      · exact ⟨none, rfl⟩
      · rw [List.getElem?_eq_getElem (by omega)]
        exact ⟨_, rfl⟩

theorem labelCnt_view (t : Trie1) (j : Nat) (hj : j < t.nodes.size) :
    labelCnt t.view j = match t.nodes[j] with | .inner r => r.labels.length | .leaf _ _ => 0 := by
  unfold labelCnt
  rw [view_node t j hj]
  cases t.nodes[j] <;> rfl

theorem innersBefore_sum (t : Trie1) (j : Nat) (hj : j ≤ t.nodes.size) :
    ((innersBefore t.nodes j).map (fun r => r.labels.length)).sum =
      ((List.range j).map (labelCnt t.view)).sum := by
  induction j with
  | zero => simp [innersBefore]
  | succ j ih =>
    have hj' : j < t.nodes.size := by omega
    rw [List.range_succ, List.map_append, List.sum_append, ← ih (by omega),
      BuildShape.innersBefore_eq, BuildShape.innersBefore_eq, List.take_add_one,
      List.filterMap_append, List.map_append, List.sum_append, Array.getElem?_toList,
      Array.getElem?_eq_getElem hj']
    simp only [List.map_cons, List.map_nil, List.sum_cons, List.sum_nil, labelCnt_view t j hj',
      Option.toList]
    cases t.nodes[j] <;> simp [List.filterMap_cons, BuildShape.innerOf]

theorem bfsOK_of_shape {t : Trie1} (hs : ShapeOK t) :
    BfsOK t.view t.nodes.size := by
  constructor
  · intro id r hnd
    obtain ⟨hid, hn⟩ := view_node_inv t id _ hnd
    rw [hs.firstChild id r (nodes_getElem? t id hid _ hn), bfsStart,
      innersBefore_sum t id (by omega)]
  · rw [bfsStart, ← innersBefore_sum t _ (Nat.le_refl _)]
    exact hs.total.symm

/-! ### the leaves below a node, in line order, are the kept keys of its subset -/

/-- the kept indexes of `[s,e)` for an arbitrary predicate -/
def kin (kept : Nat → Bool) (s e : Nat) : List Nat := (List.range' s (e - s)).filter kept

theorem kin_split {kept : Nat → Bool} {s m e : Nat} (h1 : s ≤ m) (h2 : m ≤ e) :
    kin kept s e = kin kept s m ++ kin kept m e := by
  unfold kin
  rw [range'_split h1 h2, List.filter_append]

theorem kin_empty {kept : Nat → Bool} {s e : Nat} (h : ∀ t, s ≤ t → t < e → kept t = false) :
    kin kept s e = [] := by
  unfold kin
  rw [List.filter_eq_nil_iff]
  intro t ht
  rw [List.mem_range'_1] at ht
  rw [h t ht.1 (by omega)]
  simp

/-- the kept keys of `[s,e)` are those of the children, concatenated in label order -/
theorem runs_kept {kept : Nat → Bool} {lab : Nat → Nat} {labels : List Nat} {s e : Nat}
    (hlabels : ∀ t, s ≤ t → t < e → kept t = true → lab t ∈ labels)
    (hpw : labels.Pairwise (· < ·))
    (hmono : ∀ a b, s ≤ a → a ≤ b → b < e → lab a ≤ lab b)
    (hne : 0 < labels.length) (cs : Nat → Subset)
    (hrun : ∀ k (hk : k < labels.length), IsRun lab labels s e k hk (cs k)) :
    kin kept s e =
      ((List.range' 0 labels.length).map (fun k => kin kept (cs k).s (cs k).e)).flatten := by
  -- prefix statement
  have hpre : ∀ m (hm : m < labels.length),
      kin kept s (cs m).e =
        ((List.range' 0 (m + 1)).map (fun k => kin kept (cs k).s (cs k).e)).flatten := by
    intro m
    induction m with
    | zero =>
      intro hm
      have hr := hrun 0 hm
      have hgap := gap_first (kept := kept) hlabels hpw hmono hr
      obtain ⟨h1, h2, h3, _⟩ := hr
      rw [kin_split h1 (Nat.le_of_lt h3), kin_empty hgap]
      simp
    | succ m ih =>
      intro hm
      have ih' := ih (by omega)
      have hr := hrun m (by omega)
      have hr' := hrun (m + 1) hm
      obtain ⟨hord, hgap⟩ := gap_adj (kept := kept) hlabels hpw hmono hr hr'
      obtain ⟨h1, h2, h3, _⟩ := hr
      obtain ⟨h1', h2', h3', _⟩ := hr'
      have e : List.range' 0 (m + 1 + 1) = List.range' 0 (m + 1) ++ [m + 1] := by
        rw [List.range'_concat]; simp
      rw [e, List.map_append, List.flatten_append, ← ih',
        kin_split (by omega : s ≤ (cs m).e) (by omega : (cs m).e ≤ (cs (m + 1)).e),
        kin_split hord (Nat.le_of_lt h3'), kin_empty hgap]
      simp
  have hk : labels.length - 1 < labels.length := by omega
  have hlast := hrun (labels.length - 1) hk
  have hgap := gap_last (kept := kept) hlabels hpw hmono hlast
  obtain ⟨h1, h2, h3, _⟩ := hlast
  have hp := hpre (labels.length - 1) hk
  have e : labels.length - 1 + 1 = labels.length := by omega
  rw [e] at hp
  rw [kin_split (by omega : s ≤ (cs (labels.length - 1)).e) h2, kin_empty hgap, hp]
  simp

/-- key index of a leaf node -/
def leafKey (t : Trie1) (id : Nat) : Option Nat :=
  match t.nodes[id]? with
  | some (.leaf ith _) => t.leafKeyIdx[ith]?
  | _ => none

theorem leaf_order {keys : List Bytes} {keep : List Bool} {t : Trie1} {queue : Array Subset}
    (h : QOK keys keep t queue) :
    ∀ n j o fuel, t.nodes.size - j ≤ n → n < fuel → queue[j]? = some o →
      (renderIds t.view fuel j).filterMap (leafKey t) = keptIn keep o.s o.e := by
  intro n
  induction n with
  | zero =>
    intro j o fuel h1 _ hqj
    have := h.lt hqj
    omega
  | succ n ih =>
    intro j o fuel h1 h2 hqj
    obtain ⟨hsub, hj, hnode⟩ := h.at hqj
    obtain ⟨fuel, rfl⟩ : ∃ f, fuel = f + 1 := ⟨fuel - 1, by omega⟩
    have hview := view_node t j hj
    rw [renderIds_succ, hview]
    cases hn : t.nodes[j] with
    | leaf ith lp =>
      rw [hn] at hnode
      obtain ⟨h1e, hidx, _⟩ := hnode
      obtain ⟨x, hx1, hx2, hx3⟩ := hsub.kept
      have hxs : x = o.s := by omega
      subst hxs
      have hlk : leafKey t j = some o.s := by
        simp only [leafKey, nodes_getElem? t j hj _ hn, hidx]
      have hk : keptIn keep o.s o.e = [o.s] := by
        simp [keptIn, h1e, hx3]
      simp only [List.filterMap_cons, hlk, List.filterMap_nil, hk]
    | inner r =>
      rw [hn] at hnode
      obtain ⟨_, hin⟩ := hnode
      obtain ⟨ws, F⟩ := inner_facts h hsub hin
      have hfc := F.fc
      have hlk : leafKey t j = none := by
        simp only [leafKey, nodes_getElem? t j hj _ hn]
      simp only [List.filterMap_cons, hlk, List.filterMap_flatten, List.map_map]
      -- the children as a function
      let cs : Nat → Subset := fun k => (queue[r.firstChild + k]?).getD default
      have hcs : ∀ k (hk : k < r.labels.length),
          queue[r.firstChild + k]? = some (cs k) ∧
            IsRun (labelOf keys ws r.big) r.labels o.s o.e k hk (cs k) := by
        intro k hk
        obtain ⟨c, hc, _, hrun⟩ := F.kid k hk
        have : cs k = c := by simp only [cs, hc, Option.getD_some]
        rw [this]; exact ⟨hc, hrun⟩
      have hkin := runs_kept (kept := keptAt keep) F.labels F.pw F.mono F.ne cs
        (fun k hk => (hcs k hk).2)
      show _ = kin (keptAt keep) o.s o.e
      rw [hkin]
      congr 1
      apply List.map_congr_left
      intro k hk
      rw [List.mem_range'_1] at hk
      simp only [Function.comp]
      exact ih (r.firstChild + k) (cs k) fuel (by omega) (by omega) (hcs k (by omega)).1

end Render
