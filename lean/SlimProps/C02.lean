import SlimProps.C09
import SlimProofs.RangeDropped
/-
  SlimProps.C02 — `RangeGet` maps every indexed key to the value of its range.

  `C02_rangeget_indexed`: for every successful `build` (any option combination, with or without
  values, de-duplication on or off) and EVERY key index `i` — retained or de-duplicated away —
  `RangeGet(keys[i])` returns found = true and the value supplied for key `i`
  (`recVal` of SlimProps.C09: nil when no values were supplied or all retained values are empty,
  else the encoded value `vals[i]`).

  Proof.  Retained key: `searchID_kept` (exact match).  Dropped key `d`: `searchID_dropped`
  (SlimProofs.RangeDropped) — no exact match in any mode, left candidate = leaf of the greatest
  kept index `p < d` (it exists: index 0 is always kept); every index in `(p, d]` is dropped, and
  `newToKeep` drops a record only if its encoded value equals its predecessor's
  (`C02.dropped_same`), so `vals[d] = vals[p]` (`C02.run_same`).

  `C02_search_dropped` (bonus): `Search` on a dropped key = (value of the previous retained key,
  nil, value of the next retained key | nil).
-/

open Subtree SearchDescent

namespace C02

/-! ### `newToKeep`: a dropped record has the value of its predecessor -/

theorem keepMaskVals_succ (p : Option Bytes) (vs : List Bytes) (i : Nat) (h : i + 1 < vs.length) :
    (keepMaskVals p vs).getD (i + 1) false = (vs.getD i [] != vs.getD (i + 1) []) := by
  induction vs generalizing p i with
  | nil => simp at h
  | cons v rest ih =>
    have hstep : (keepMaskVals p (v :: rest)).getD (i + 1) false
        = (keepMaskVals (some v) rest).getD i false := by
      cases p <;> simp [keepMaskVals]
    rw [hstep]
    cases i with
    | zero =>
      cases rest with
      | nil => simp at h
      | cons w rest' => simp [keepMaskVals]
    | succ i' =>
      rw [ih (some v) i' (by simpa using h)]
      simp

/-- a record is dropped only when de-duplication is on, it is not the first one, and its encoded
    value equals its predecessor's -/
theorem dropped_same (vs : List Bytes) (dedup : Bool) (d : Nat) (hd : d < vs.length)
    (hk : keptAt (keepMask vs.length (some vs) dedup) d = false) :
    ∃ d', d = d' + 1 ∧ vs.getD (d' + 1) [] = vs.getD d' [] := by
  unfold keptAt keepMask at hk
  cases dedup with
  | false =>
    simp only [Bool.false_eq_true, if_false] at hk
    rw [List.getD_eq_getElem?_getD, List.getElem?_replicate, if_pos hd] at hk
    cases hk
  | true =>
    simp only [if_true] at hk
    cases d with
    | zero =>
      cases vs with
      | nil => simp at hd
      | cons v rest => simp [keepMaskVals] at hk
    | succ d' =>
      refine ⟨d', rfl, ?_⟩
      rw [keepMaskVals_succ none vs d' hd] at hk
      have := (bne_eq_false_iff_eq.mp hk)
      exact this.symm

/-- all records of a run `(p, d]` of dropped records carry the value of record `p` -/
theorem run_same (vs : List Bytes) (dedup : Bool) (p d : Nat) (hd : d < vs.length) (hpd : p ≤ d)
    (hrun : ∀ t, p < t → t ≤ d → keptAt (keepMask vs.length (some vs) dedup) t = false) :
    vs.getD d [] = vs.getD p [] := by
  induction d with
  | zero =>
    have : p = 0 := by omega
    rw [this]
  | succ d ih =>
    by_cases hp : p = d + 1
    · rw [hp]
    · obtain ⟨d', h1, h2⟩ := dropped_same vs dedup (d + 1) hd (hrun (d + 1) (by omega) (by omega))
      have : d' = d := by omega
      subst this
      rw [h2]
      exact ih (by omega) (by omega) (fun t h3 h4 => hrun t h3 (by omega))

/-- without values nothing is dropped -/
theorem kept_of_no_vals (n : Nat) (dedup : Bool) (d : Nat) (hd : d < n) :
    keptAt (keepMask n none dedup) d = true := by
  unfold keptAt keepMask
  rw [List.getD_eq_getElem?_getD, List.getElem?_replicate, if_pos hd]
  rfl

/-! ### `RangeGet` behind `searchID` -/

theorem rangeGet_eq (v : View) (key : Bytes) (l r : Option Nat) (id : Nat) (x : Option Bytes)
    (h : searchID v key = .ok (l, some id, r)) (hg : getLeaf v id = .ok x) :
    rangeGet v key = .ok (some x) := by
  unfold rangeGet
  rw [h]
  show (getLeaf v id >>= fun y => pure (some y)) = _
  rw [hg]; rfl

theorem rangeGet_left (v : View) (key : Bytes) (r : Option Nat) (id : Nat) (x : Option Bytes)
    (h : searchID v key = .ok (some id, none, r)) (hg : getLeaf v id = .ok x) :
    rangeGet v key = .ok (some x) := by
  unfold rangeGet
  rw [h]
  show (getLeaf v id >>= fun y => pure (some y)) = _
  rw [hg]; rfl

end C02

/-- **C02.**  `RangeGet` on every indexed key — retained or de-duplicated away — is found and
    returns the value supplied for that key, for every option combination. -/
theorem C02_rangeget_indexed (keys : List Bytes) (vals : Option (List Bytes)) (opt : Opt)
    (t : Trie1) (hb : build keys vals opt = .ok t) (hne : keys ≠ [])
    (i : Nat) (hi : i < keys.length) :
    rangeGet t.view (keys.getD i []) =
      .ok (some (recVal (keepMask keys.length vals opt.dedup) vals i)) := by
  have hget := C09.getLeaf_of_build keys vals opt t hb hne
  have hwf := (build_wf keys vals opt t hb hne).1
  have hasc := build_strictAsc keys vals opt t hb hne
  cases hk : keptAt (keepMask keys.length vals opt.dedup) i with
  | true =>
    obtain ⟨l, id, r, hsid, hleaf, _, _⟩ := searchID_kept keys _ t hasc hwf i hi hk
    exact C02.rangeGet_eq _ _ l r id _ hsid (hget id i hleaf)
  | false =>
    obtain ⟨l, r, hsid, hlres, _⟩ := searchID_dropped keys _ t hasc hwf i hi hk
    cases vals with
    | none => rw [C02.kept_of_no_vals _ _ _ hi] at hk; cases hk
    | some vs =>
      have hlen := build_vals_length keys vs opt t hb hne
      rw [← hlen] at hk hlres hget ⊢
      have hk0 : keptAt (keepMask vs.length (some vs) opt.dedup) 0 = true :=
        BuildInv.keepMask_zero _ (by omega) (by intro vs' h; cases h; rfl)
      cases l with
      | none =>
        -- impossible: record 0 is kept and lies below `i`
        have hi0 : 0 < i := by
          rcases Nat.eq_zero_or_pos i with h | h
          · rw [h, hk0] at hk; cases hk
          · exact h
        have := hlres 0 hi0
        rw [hk0] at this; cases this
      | some idl =>
        obtain ⟨p, hleaf, hp1, hp2, hp3, hp4⟩ := hlres
        have hsame : vs.getD i [] = vs.getD p [] :=
          C02.run_same vs opt.dedup p i (by omega) (by omega) (by
            intro t' h1 h2
            by_cases h3 : t' = i
            · rw [h3]; exact hk
            · exact hp4 t' h1 (by omega))
        have hrec : recVal (keepMask vs.length (some vs) opt.dedup) (some vs) i
            = recVal (keepMask vs.length (some vs) opt.dedup) (some vs) p := by
          simp only [recVal, hsame]
        rw [hrec]
        exact C02.rangeGet_left _ _ r idl _ hsid (hget idl p hleaf)

/-- **`Search` on a dropped key** (all modes): no exact match, the neighbours are the nearest
    retained records on either side. -/
theorem C02_search_dropped (keys : List Bytes) (vals : Option (List Bytes)) (opt : Opt)
    (t : Trie1) (hb : build keys vals opt = .ok t) (hne : keys ≠ [])
    (d : Nat) (hd : d < keys.length)
    (hk : keptAt (keepMask keys.length vals opt.dedup) d = false) :
    search t.view (keys.getD d []) =
      .ok (valOf (keepMask keys.length vals opt.dedup) vals
             (prevKept (keepMask keys.length vals opt.dedup) d),
           none,
           valOf (keepMask keys.length vals opt.dedup) vals
             (nextKept (keepMask keys.length vals opt.dedup) d)) := by
  have hget := C09.getLeaf_of_build keys vals opt t hb hne
  have hklen : (keepMask keys.length vals opt.dedup).length ≤ keys.length := by
    rw [C09.keepMask_length _ _ _ (build_pre keys vals opt t hb hne).2.1]; exact Nat.le_refl _
  generalize hkeep : keepMask keys.length vals opt.dedup = keep at hk hget hklen ⊢
  have hwf : WF keys keep t := by rw [← hkeep]; exact (build_wf keys vals opt t hb hne).1
  have hasc := build_strictAsc keys vals opt t hb hne
  obtain ⟨l, r, hsid, hlres, hrres⟩ := searchID_dropped keys keep t hasc hwf d hd hk
  refine C09.search_of_searchID _ _ l none r _ _ _ hsid ?_ rfl ?_
  · cases l with
    | none => rw [prevKept_eq_none.mpr hlres]; rfl
    | some idl =>
      obtain ⟨ml, hl1, hl2⟩ := hlres
      rw [prevKept_eq_some.mpr hl2]
      exact C09.leafOpt_some _ _ _ (hget idl ml hl1)
  · cases r with
    | none =>
      have : nextKept keep d = none := by
        rw [nextKept_eq_none]
        intro t' ht'
        by_cases hl : t' < keys.length
        · exact hrres t' ht' hl
        · unfold keptAt
          rw [List.getD_eq_getElem?_getD, List.getElem?_eq_none (by omega)]
          rfl
      rw [this]; rfl
    | some idr =>
      obtain ⟨mr, hr1, hr2, hr3, hr4, hr5⟩ := hrres
      have : nextKept keep d = some mr := by
        rw [nextKept_eq_some]
        exact ⟨by omega, hr4, fun t' h1 h2 => hr5 t' (by omega) h2⟩
      rw [this]
      exact C09.leafOpt_some _ _ _ (hget idr mr hr1)

/-! ### non-vacuity -/

/-- "a", "ab", "abc", "b", "bcd", "c": the run of value 1 starts at "a" (a prefix of the next two
    keys) and crosses from the sub-trie of `a…` into the sub-trie of `b…`; the run of value 2
    starts inside the sub-trie of `b…` and covers "c", whose whole branch disappears -/
def C02.exKeys : List Bytes :=
  [[0x61], [0x61, 0x62], [0x61, 0x62, 0x63], [0x62], [0x62, 0x63, 0x64], [0x63]]
def C02.exVals : List Bytes := [[1], [1], [1], [1], [2], [2]]

/-- the hypotheses are satisfiable (default options = filter mode with de-duplication), only
    records 0 and 4 are retained, and by the theorem `RangeGet` on "b" (dropped, record 3, across
    the sub-trie boundary) is value 1 and on "c" (dropped, record 5) is value 2 -/
example : ∃ t, build C02.exKeys (some C02.exVals) {} = .ok t ∧ C02.exKeys ≠ [] ∧
    keepMask C02.exKeys.length (some C02.exVals) ({} : Opt).dedup
      = [true, false, false, false, true, false] ∧
    rangeGet t.view (C02.exKeys.getD 3 []) = .ok (some (some [1])) ∧
    rangeGet t.view (C02.exKeys.getD 5 []) = .ok (some (some [2])) := by
  have h : (build C02.exKeys (some C02.exVals) {}).toBool = true := by decide +kernel
  match hb : build C02.exKeys (some C02.exVals) {} with
  | .ok t =>
    refine ⟨t, rfl, by decide, by decide +kernel, ?_, ?_⟩
    · rw [C02_rangeget_indexed _ _ _ t hb (by decide) 3 (by decide)]
      refine congrArg Except.ok ?_
      decide +kernel
    · rw [C02_rangeget_indexed _ _ _ t hb (by decide) 5 (by decide)]
      refine congrArg Except.ok ?_
      decide +kernel
  | .error e => rw [hb] at h; cases h

/-- the same input is accepted in complete mode and with stored inner prefixes only -/
example : (build C02.exKeys (some C02.exVals) { inner := true, leaf := true }).toBool = true ∧
    (build C02.exKeys (some C02.exVals) { inner := true }).toBool = true ∧
    (build C02.exKeys (some C02.exVals) { leaf := true }).toBool = true := by
  decide +kernel

#print axioms C02_rangeget_indexed
#print axioms C02_search_dropped
