import SlimProofs.BuildTotal
import SlimProofs.SizePrefix
/-
  SlimProofs.SizeRootStep — C17: a sufficient condition on the keys for "the root carries a
  step": at least two keys, all starting with the same byte.  (Then every adjacent pair agrees on
  the first two half-bytes, `minLcp ≥ 2`, and also a 257-bit root — whose branching position is
  rounded down to a byte boundary — starts at position ≥ 2.)
-/

namespace SizeRootStep

open BuildInv BuildShape BuildTotal

/-- `buildLoop` only appends records -/
theorem buildLoop_nodes_prefix (c : BCtx) (fuel i : Nat) (st st' : BSt)
    (h : buildLoop c fuel i st = .ok st') :
    ∀ j, j < st.nodes.size → st'.nodes[j]? = st.nodes[j]? := by
  induction fuel generalizing i st with
  | zero =>
    simp only [buildLoop] at h
    split at h
    · cases h
    · cases h; intro j _; rfl
  | succ fuel ih =>
    simp only [buildLoop] at h
    split at h
    · split at h
      · next st2 hst =>
        intro j hj
        have hpush : ∃ nd, st2.nodes = st.nodes.push nd := by
          generalize st.queue[i] = o at hst
          by_cases hleaf : o.e - o.s = 1
          · rw [buildStep_leaf_eq _ _ o hleaf] at hst
            cases hst; exact ⟨_, rfl⟩
          · rw [buildStep_inner_eq _ _ o hleaf _ rfl _ rfl] at hst
            generalize (st.isBig && decide (prefCnt c o.s o.e (minLcp c o.s o.e) > 10)) = goBig at hst
            generalize (if goBig = true then minLcp c o.s o.e - minLcp c o.s o.e % 2
              else minLcp c o.s o.e) = ws at hst
            split at hst
            · cases hst
            split at hst
            · cases hst
            cases hst; exact ⟨_, rfl⟩
        obtain ⟨nd, hnd⟩ := hpush
        rw [ih _ _ h j (by rw [hnd, Array.size_push]; omega), hnd, Array.getElem?_push]
        rw [if_neg (by omega)]
      · cases h
    · cases h; intro j _; rfl

theorem buildLoop_succ (c : BCtx) (fuel i : Nat) (st : BSt) (hi : i < st.queue.size) :
    buildLoop c (fuel + 1) i st =
      match buildStep c st st.queue[i] with
      | .ok st' => buildLoop c fuel (i + 1) st'
      | .error e => .error e := by
  simp only [buildLoop, dif_pos hi]
  cases buildStep c st st.queue[i] <;> rfl

theorem lcp_ge_two (b : UInt8) (x y : Bytes) : 2 ≤ lcp (nibs (b :: x)) (nibs (b :: y)) := by
  simp only [nibs, lcp, if_true]
  omega

/-- two or more keys with a common first byte: the root is an inner record with a step -/
theorem root_step_of_common_byte (keys : List Bytes) (t : Trie1)
    (hb : build keys none {} = .ok t) (h2 : 2 ≤ keys.length) (b : UInt8)
    (hcommon : ∀ k ∈ keys, ∃ rest, k = b :: rest) :
    ∃ r n, t.nodes[0]? = some (.inner r) ∧ r.pref = .step n ∧ 2 ≤ n := by
  have hne : keys ≠ [] := by intro h; rw [h] at h2; simp at h2
  obtain ⟨hasc, _, st, hst, rfl⟩ := build_ok_elim hb hne
  have hc := mkCtx_ok keys none {}
  -- first iteration
  obtain ⟨f, hf⟩ : ∃ f, 2 * keys.length = f + 1 := ⟨2 * keys.length - 1, by omega⟩
  rw [hf, buildLoop_succ _ _ _ _ (by simp [initSt])] at hst
  split at hst
  · next st1 hst1 =>
    have hq : (initSt keys.length).queue[0]'(by simp [initSt])
        = { s := 0, e := keys.length, fb := 0 } := rfl
    rw [hq] at hst1
    have hleaf : ¬ ({ s := 0, e := keys.length, fb := 0 } : Subset).e
        - ({ s := 0, e := keys.length, fb := 0 } : Subset).s = 1 := by simp only; omega
    rw [buildStep_inner_eq _ _ _ hleaf _ rfl _ rfl] at hst1
    -- every adjacent pair agrees on the first byte
    have hlcp : 2 ≤ minLcp (mkCtx keys none {}) 0 keys.length := by
      apply le_minLcp (by omega)
      intro t' _ ht'
      rw [hc.lcps t' ht']
      have h1 : t' < keys.length := by omega
      obtain ⟨x, hx⟩ := hcommon keys[t'] (List.getElem_mem h1)
      obtain ⟨y, hy⟩ := hcommon keys[t' + 1] (List.getElem_mem ht')
      unfold knOf
      rw [List.getD_eq_getElem?_getD, List.getD_eq_getElem?_getD, List.getElem?_eq_getElem h1,
        List.getElem?_eq_getElem ht']
      simp only [Option.getD_some, hx, hy]
      exact lcp_ge_two b x y
    simp only at hst1
    generalize ((initSt keys.length).isBig && decide (prefCnt (mkCtx keys none {}) 0 keys.length
      (minLcp (mkCtx keys none {}) 0 keys.length) > 10)) = goBig at hst1
    have hws : 2 ≤ (if goBig = true then minLcp (mkCtx keys none {}) 0 keys.length
        - minLcp (mkCtx keys none {}) 0 keys.length % 2
        else minLcp (mkCtx keys none {}) 0 keys.length) := by
      split <;> omega
    generalize (if goBig = true then minLcp (mkCtx keys none {}) 0 keys.length
        - minLcp (mkCtx keys none {}) 0 keys.length % 2
        else minLcp (mkCtx keys none {}) 0 keys.length) = ws at hst1 hws
    split at hst1
    · cases hst1
    split at hst1
    · cases hst1
    cases hst1
    have hpre := buildLoop_nodes_prefix _ _ _ _ _ hst 0 (by simp)
    simp only [trieOf]
    rw [hpre]
    refine ⟨_, ws, rfl, ?_, hws⟩
    simp only
    rw [SizePrefix.prefOf_filter rfl]
    unfold SizePrefix.stepPref
    rw [if_neg (by omega), Nat.sub_zero]
  · cases hst

end SizeRootStep
