import SlimProofs.BitsLemmas.Words
/-
  SlimProofs.BitsLemmas.Rank — `indexRank64`, `indexRank128`, `rank64`, `rank128` compute
  `specRank`/`specBit` of the bit list; for `newBM idxs capa opt` in terms of `idxs`.
-/

namespace Bits

/-! ### `List.eraseDups` on `Nat` lists (core has only `eraseDups_cons`) -/

theorem eraseDups_props (n : Nat) :
    ∀ l : List Nat, l.length ≤ n → l.eraseDups.Nodup ∧ ∀ x, x ∈ l.eraseDups ↔ x ∈ l := by
  induction n with
  | zero =>
    intro l hl
    have : l = [] := List.eq_nil_of_length_eq_zero (by omega)
    subst this; simp
  | succ n ih =>
    intro l hl
    cases l with
    | nil => simp
    | cons a as =>
      rw [List.eraseDups_cons]
      have hlen : (as.filter fun b => !b == a).length ≤ n := by
        have := List.length_filter_le (fun b => !b == a) as
        simp only [List.length_cons] at hl; omega
      obtain ⟨h1, h2⟩ := ih _ hlen
      constructor
      · rw [List.nodup_cons]
        refine ⟨?_, h1⟩
        rw [h2]; simp
      · intro x
        simp only [List.mem_cons, h2, List.mem_filter]
        by_cases hx : x = a
        · simp [hx]
        · simp [hx]

theorem nodup_eraseDups (l : List Nat) : l.eraseDups.Nodup := (eraseDups_props _ l (Nat.le_refl _)).1

theorem mem_eraseDups (l : List Nat) (x : Nat) : x ∈ l.eraseDups ↔ x ∈ l :=
  (eraseDups_props _ l (Nat.le_refl _)).2 x

theorem eraseDups_of_asc {l : List Nat} (h : Asc l) : l.eraseDups = l := by
  induction l with
  | nil => rfl
  | cons a as ih =>
    have ha := List.pairwise_cons.mp h
    rw [List.eraseDups_cons]
    have : as.filter (fun b => !b == a) = as := by
      rw [List.filter_eq_self]
      intro b hb
      have := ha.1 b hb
      have hne : b ≠ a := by omega
      simp [hne]
    rw [this, ih ha.2]

/-- number of distinct members of `l` below `n` -/
theorem cnt_mem_eq (l : List Nat) (n : Nat) :
    cnt (fun j => decide (j ∈ l)) n = (l.eraseDups.filter (· < n)).length := by
  rw [← cnt_mem_nodup (nodup_eraseDups l)]
  apply cnt_congr
  intro j _
  simp

theorem cnt_mem_asc {l : List Nat} (h : Asc l) (n : Nat) :
    cnt (fun j => decide (j ∈ l)) n = (l.filter (· < n)).length :=
  cnt_mem_nodup h.nodup n

/-! ### `indexRank64` -/

theorem indexRank64_go_getElem? (t : Bool) (ws : List Nat) (n k : Nat) :
    (indexRank64.go t ws n)[k]?
      = if k < ws.length ∨ (t = true ∧ k = ws.length)
        then some (n + ((ws.take k).map popcount).sum) else none := by
  induction ws generalizing n k with
  | nil =>
    cases t <;> cases k <;> simp [indexRank64.go]
  | cons w ws ih =>
    cases k with
    | zero => simp [indexRank64.go]
    | succ k =>
      simp only [indexRank64.go, List.getElem?_cons_succ, ih, List.length_cons, List.take_succ_cons,
        List.map_cons, List.sum_cons, Nat.add_lt_add_iff_right, Nat.add_right_cancel_iff,
        Nat.add_assoc]

/-- entry `k` of the rank index = number of set bits in the first `k` words -/
theorem indexRank64_getElem? (ws : List Nat) (t : Bool) (k : Nat) :
    (indexRank64 ws t)[k]?
      = if k < ws.length ∨ (t = true ∧ k = ws.length)
        then some (cnt (getBit ws) (64 * k)) else none := by
  unfold indexRank64
  rw [indexRank64_go_getElem?, sum_popcount_take, Nat.zero_add]

theorem indexRank64_length (ws : List Nat) (t : Bool) :
    (indexRank64 ws t).length = ws.length + (if t then 1 else 0) := by
  have h1 := indexRank64_getElem? ws t (ws.length + (if t then 1 else 0))
  cases t with
  | false =>
    have h2 := indexRank64_getElem? ws false (ws.length - 1)
    simp only [Bool.false_eq_true, if_false, Nat.add_zero, Nat.lt_irrefl, false_and, or_self,
      List.getElem?_eq_none_iff] at h1 h2 ⊢
    rcases Nat.eq_zero_or_pos ws.length with h | h
    · omega
    · rw [if_pos (by omega)] at h2
      have := List.getElem?_eq_some_iff.mp h2
      obtain ⟨hh, _⟩ := this
      omega
  | true =>
    have h2 := indexRank64_getElem? ws true ws.length
    simp only [if_true] at h1 h2 ⊢
    rw [if_neg (by omega)] at h1
    simp only [List.getElem?_eq_none_iff] at h1
    simp only [and_self, or_true, if_true] at h2
    obtain ⟨hh, _⟩ := List.getElem?_eq_some_iff.mp h2
    omega

/-! ### `rank64` -/

/-- the two option strings whose rank index is `indexRank64` -/
theorem mk_r64 (ws : List Nat) :
    mk ws "r64" = { words := ws, rankIndex := indexRank64 ws false } := rfl

theorem mk_s32 (ws : List Nat) :
    mk ws "s32" = { words := ws, rankIndex := indexRank64 ws true, selectIndex := indexSelect32 ws } :=
  rfl

theorem mk_r128 (ws : List Nat) :
    mk ws "r128" = { words := ws, rankIndex := indexRank128 ws } := rfl

theorem newBM_words_r64 (idxs : List Nat) (capa : Nat) :
    (newBM idxs capa "r64").words = ofIdx idxs capa := rfl
theorem newBM_words_s32 (idxs : List Nat) (capa : Nat) :
    (newBM idxs capa "s32").words = ofIdx idxs capa := rfl
theorem newBM_words_r128 (idxs : List Nat) (capa : Nat) :
    (newBM idxs capa "r128").words = ofIdx idxs capa := rfl

theorem rank64_of_index (ws : List Nat) (t : Bool) (sel : List Nat) (i : Nat)
    (hi : i < 64 * ws.length) :
    rank64 { words := ws, rankIndex := indexRank64 ws t, selectIndex := sel } i
      = .ok (cnt (getBit ws) i, getBit ws i) := by
  have hk : i / 64 < ws.length := by omega
  unfold rank64
  simp only [indexRank64_getElem?, hk, true_or, if_true, List.getElem?_eq_getElem hk]
  rw [cnt_getBit_split ws i, getBit, List.getD_eq_getElem?_getD, List.getElem?_eq_getElem hk]
  rfl

theorem rank64_of_index_error (ws : List Nat) (t : Bool) (sel : List Nat) (i : Nat)
    (hi : 64 * ws.length ≤ i) :
    rank64 { words := ws, rankIndex := indexRank64 ws t, selectIndex := sel } i
      = .error (.panic "index out of range (Rank64)") := by
  have hk : ws.length ≤ i / 64 := by omega
  unfold rank64
  simp only [List.getElem?_eq_none hk]

/-- `rank64` on any word list, bit-list level -/
theorem rank64_mk_r64 (ws : List Nat) (i : Nat) (hi : i < 64 * ws.length) :
    rank64 (mk ws "r64") i = .ok (specRank (bitsOf ws) i, specBit (bitsOf ws) i) := by
  rw [mk_r64, specRank_bitsOf, specBit_bitsOf]
  exact rank64_of_index ws false [] i hi

theorem rank64_mk_s32 (ws : List Nat) (i : Nat) (hi : i < 64 * ws.length) :
    rank64 (mk ws "s32") i = .ok (specRank (bitsOf ws) i, specBit (bitsOf ws) i) := by
  rw [mk_s32, specRank_bitsOf, specBit_bitsOf]
  exact rank64_of_index ws true _ i hi

theorem rank64_mk_r64_error (ws : List Nat) (i : Nat) (hi : 64 * ws.length ≤ i) :
    rank64 (mk ws "r64") i = .error (.panic "index out of range (Rank64)") :=
  rank64_of_index_error ws false [] i hi

theorem rank64_mk_s32_error (ws : List Nat) (i : Nat) (hi : 64 * ws.length ≤ i) :
    rank64 (mk ws "s32") i = .error (.panic "index out of range (Rank64)") :=
  rank64_of_index_error ws true _ i hi

/-- rank of `ofIdx` in terms of the indexes (no ordering hypothesis needed below the length) -/
theorem cnt_getBit_ofIdx (idxs : List Nat) (capa i : Nat) (hi : i ≤ 64 * (ofIdx idxs capa).length) :
    cnt (getBit (ofIdx idxs capa)) i = ((idxs.eraseDups).filter (· < i)).length := by
  rw [← cnt_mem_eq]
  apply cnt_congr
  intro j hj
  exact getBit_ofIdx idxs capa j (by omega)

theorem specRank_ofIdx (idxs : List Nat) (capa i : Nat) (hi : i ≤ 64 * (ofIdx idxs capa).length) :
    specRank (bitsOf (ofIdx idxs capa)) i = ((idxs.eraseDups).filter (· < i)).length := by
  rw [specRank_bitsOf, cnt_getBit_ofIdx idxs capa i hi]

theorem specRank_ofIdx_asc {idxs : List Nat} (h : Asc idxs) (capa i : Nat)
    (hi : i ≤ 64 * (ofIdx idxs capa).length) :
    specRank (bitsOf (ofIdx idxs capa)) i = (idxs.filter (· < i)).length := by
  rw [specRank_ofIdx idxs capa i hi, eraseDups_of_asc h]

theorem specBit_ofIdx (idxs : List Nat) (capa i : Nat) (hi : i < 64 * (ofIdx idxs capa).length) :
    specBit (bitsOf (ofIdx idxs capa)) i = decide (i ∈ idxs) := by
  rw [specBit_bitsOf, getBit_ofIdx idxs capa i hi]

/-- the rank indexes of `newBM`, entry by entry: `"r64"` has one entry per word, `"s32"` one more
    (the total), each the number of distinct indexes below the word start -/
theorem rankIndex_newBM_r64 (idxs : List Nat) (capa k : Nat) :
    (newBM idxs capa "r64").rankIndex[k]?
      = if k < (ofIdx idxs capa).length
        then some (((idxs.eraseDups).filter (· < 64 * k)).length) else none := by
  unfold newBM
  rw [mk_r64]; simp only
  rw [indexRank64_getElem?]
  simp only [Bool.false_eq_true, false_and, or_false]
  split
  · next h => rw [cnt_getBit_ofIdx idxs capa _ (by omega)]
  · rfl

theorem rankIndex_newBM_s32 (idxs : List Nat) (capa k : Nat) :
    (newBM idxs capa "s32").rankIndex[k]?
      = if k ≤ (ofIdx idxs capa).length
        then some (((idxs.eraseDups).filter (· < 64 * k)).length) else none := by
  unfold newBM
  rw [mk_s32]; simp only
  rw [indexRank64_getElem?]
  simp only [true_and, ← Nat.le_iff_lt_or_eq]
  split
  · next h => rw [cnt_getBit_ofIdx idxs capa _ (by omega)]
  · rfl

/-- item 3 (`AscLe idxs` is not needed) -/
theorem rank64_newBM (idxs : List Nat) (capa i : Nat) (hi : i < 64 * (ofIdx idxs capa).length) :
    rank64 (newBM idxs capa "r64") i
      = .ok (((idxs.eraseDups).filter (· < i)).length, decide (i ∈ idxs)) := by
  unfold newBM
  rw [mk_r64, rank64_of_index _ _ _ _ hi, cnt_getBit_ofIdx idxs capa i (by omega),
    getBit_ofIdx idxs capa i hi]

theorem rank64_newBM_s32 (idxs : List Nat) (capa i : Nat) (hi : i < 64 * (ofIdx idxs capa).length) :
    rank64 (newBM idxs capa "s32") i
      = .ok (((idxs.eraseDups).filter (· < i)).length, decide (i ∈ idxs)) := by
  unfold newBM
  rw [mk_s32, rank64_of_index _ _ _ _ hi, cnt_getBit_ofIdx idxs capa i (by omega),
    getBit_ofIdx idxs capa i hi]

/-- item 3 for strictly ascending indexes -/
theorem rank64_newBM_asc {idxs : List Nat} (h : Asc idxs) (capa i : Nat)
    (hi : i < 64 * (ofIdx idxs capa).length) :
    rank64 (newBM idxs capa "r64") i
      = .ok ((idxs.filter (· < i)).length, decide (i ∈ idxs)) := by
  rw [rank64_newBM idxs capa i hi, eraseDups_of_asc h]

theorem rank64_newBM_s32_asc {idxs : List Nat} (h : Asc idxs) (capa i : Nat)
    (hi : i < 64 * (ofIdx idxs capa).length) :
    rank64 (newBM idxs capa "s32") i
      = .ok ((idxs.filter (· < i)).length, decide (i ∈ idxs)) := by
  rw [rank64_newBM_s32 idxs capa i hi, eraseDups_of_asc h]

/-- item 3, out of range = Go panic -/
theorem rank64_newBM_error (idxs : List Nat) (capa i : Nat)
    (hi : 64 * (ofIdx idxs capa).length ≤ i) :
    rank64 (newBM idxs capa "r64") i = .error (.panic "index out of range (Rank64)") :=
  rank64_mk_r64_error _ i hi

theorem rank64_newBM_s32_error (idxs : List Nat) (capa i : Nat)
    (hi : 64 * (ofIdx idxs capa).length ≤ i) :
    rank64 (newBM idxs capa "s32") i = .error (.panic "index out of range (Rank64)") :=
  rank64_mk_s32_error _ i hi

/-! ### `indexRank128`, `rank128` -/

theorem indexRank128_go_getElem? (ws : List Nat) (n k : Nat) :
    (indexRank128.go ws n)[k]?
      = if k ≤ ws.length / 2 then some (n + ((ws.take (2 * k)).map popcount).sum) else none := by
  fun_induction indexRank128.go ws n generalizing k with
  | case1 n => cases k <;> simp
  | case2 w n => cases k <;> simp
  | case3 w1 w2 ws n ih =>
    cases k with
    | zero => simp
    | succ k =>
      rw [List.getElem?_cons_succ, ih]
      have e1 : (k + 1 ≤ (w1 :: w2 :: ws).length / 2) ↔ (k ≤ ws.length / 2) := by
        simp only [List.length_cons]; omega
      have e2 : 2 * (k + 1) = 2 * k + 1 + 1 := by omega
      simp only [e1, e2, List.take_succ_cons, List.map_cons, List.sum_cons, Nat.add_assoc]

theorem indexRank128_getElem? (ws : List Nat) (k : Nat) :
    (indexRank128 ws)[k]?
      = if k ≤ ws.length / 2 then some (cnt (getBit ws) (64 * (2 * k))) else none := by
  unfold indexRank128
  rw [indexRank128_go_getElem?, sum_popcount_take, Nat.zero_add]

theorem indexRank128_length (ws : List Nat) : (indexRank128 ws).length = ws.length / 2 + 1 := by
  have h1 := indexRank128_getElem? ws (ws.length / 2)
  have h2 := indexRank128_getElem? ws (ws.length / 2 + 1)
  rw [if_pos (Nat.le_refl _)] at h1
  rw [if_neg (by omega)] at h2
  obtain ⟨hh, _⟩ := List.getElem?_eq_some_iff.mp h1
  have := List.getElem?_eq_none_iff.mp h2
  omega

theorem cnt_getBit_succ_word (ws : List Nat) (k : Nat) :
    cnt (getBit ws) (64 * (k + 1)) = cnt (getBit ws) (64 * k) + popcount (ws.getD k 0) := by
  rw [← sum_popcount_take, ← sum_popcount_take, List.take_add_one, List.map_append, List.sum_append,
    List.getD_eq_getElem?_getD]
  cases ws[k]? with
  | none => simp [popcount_zero]
  | some w => simp

/-- `rank128` on any word list, counting level -/
theorem rank128_mk_cnt (ws : List Nat) (i : Nat) (hi : i < 64 * ws.length) :
    rank128 (mk ws "r128") i = .ok (cnt (getBit ws) i, getBit ws i) := by
  have hk : i / 64 < ws.length := by omega
  have hidx : (i + 64) / 128 ≤ ws.length / 2 := by omega
  rw [mk_r128]
  unfold rank128
  simp only [indexRank128_getElem?, hidx, if_true, List.getElem?_eq_getElem hk]
  have hw : ws.getD (i / 64) 0 = ws[i / 64] := by
    rw [List.getD_eq_getElem?_getD, List.getElem?_eq_getElem hk]; rfl
  rw [cnt_getBit_split ws i, getBit, hw]
  congr 2
  rcases Nat.mod_two_eq_zero_or_one (i / 64) with h | h
  · have e : 2 * ((i + 64) / 128) = i / 64 := by omega
    rw [h, e]; simp
  · have e : 2 * ((i + 64) / 128) = i / 64 + 1 := by omega
    rw [h, e, cnt_getBit_succ_word, hw]
    have := popcount_mod_le ws[i / 64] (i % 64) (by omega)
    omega

/-- item 4 -/
theorem rank128_mk (ws : List Nat) (i : Nat) (hi : i < 64 * ws.length) :
    rank128 (mk ws "r128") i = .ok (specRank (bitsOf ws) i, specBit (bitsOf ws) i) := by
  rw [specRank_bitsOf, specBit_bitsOf]
  exact rank128_mk_cnt ws i hi

theorem rank128_mk_error (ws : List Nat) (i : Nat) (hi : 64 * ws.length ≤ i) :
    rank128 (mk ws "r128") i = .error (.panic "index out of range (Rank128)") := by
  have hk : ws.length ≤ i / 64 := by omega
  rw [mk_r128]
  unfold rank128
  simp only [List.getElem?_eq_none hk]

/-- item 4 for `newBM` (`AscLe idxs` is not needed) -/
theorem rank128_newBM (idxs : List Nat) (capa i : Nat) (hi : i < 64 * (ofIdx idxs capa).length) :
    rank128 (newBM idxs capa "r128") i
      = .ok (((idxs.eraseDups).filter (· < i)).length, decide (i ∈ idxs)) := by
  unfold newBM
  rw [rank128_mk_cnt _ _ hi, cnt_getBit_ofIdx idxs capa i (by omega), getBit_ofIdx idxs capa i hi]

theorem rank128_newBM_asc {idxs : List Nat} (h : Asc idxs) (capa i : Nat)
    (hi : i < 64 * (ofIdx idxs capa).length) :
    rank128 (newBM idxs capa "r128") i
      = .ok ((idxs.filter (· < i)).length, decide (i ∈ idxs)) := by
  rw [rank128_newBM idxs capa i hi, eraseDups_of_asc h]

theorem rank128_newBM_error (idxs : List Nat) (capa i : Nat)
    (hi : 64 * (ofIdx idxs capa).length ≤ i) :
    rank128 (newBM idxs capa "r128") i = .error (.panic "index out of range (Rank128)") :=
  rank128_mk_error _ i hi

/-- the `"r128"` rank index of `newBM`: entry `k` counts the distinct indexes below word `2k` -/
theorem rankIndex_newBM_r128 (idxs : List Nat) (capa k : Nat) :
    (newBM idxs capa "r128").rankIndex[k]?
      = if k ≤ (ofIdx idxs capa).length / 2
        then some (((idxs.eraseDups).filter (· < 64 * (2 * k))).length) else none := by
  unfold newBM
  rw [mk_r128]; simp only
  rw [indexRank128_getElem?]
  split
  · next h => rw [cnt_getBit_ofIdx idxs capa _ (by omega)]
  · rfl

end Bits
