import Generated.Funcs
import SlimProps.BridgeSem.Common
import SlimProps.BridgeSem.Extern
import SlimProps.BridgeSem.VLenGet
import SlimProps.BridgeSem.StrCmp
import SlimModel.Query
import SlimModel.Slim
/-
  SlimProps.BridgeSem.LeafAccess — tie 1, semantic part: `getIthLeafBytes` and `cmpLeafPrefix`
  (trie/slimtrie_query.go) translated WHOLE (`Generated.W.SlimTrie.getIthLeafBytes`, `cmpLeafPrefix`):

    `getIthLeafBytes_sem`   = `(Slim.view s).leafBytes ith` (a nil `Leaves` gives the nil slice, which the
                            translation represents as `[]`; otherwise `VLenArray.get`, panics included)
    `bytesCompare_sem`      the ASSUMED `bytes.Compare` (GoSem.lean) = `cmpBytes` (SlimModel/Basic.lean)
    `cmpLeafPrefix_sem`     = the model's `cmpLeafPrefix (Slim.view s) tail lp` as an `int32` (-1, 0, 1), for a
                            session that holds the leaf prefix `lp` the way `getNode` leaves it (`Decodes`)
  See SlimProps/BridgeSem.lean for the overview.
-/

set_option linter.unusedSimpArgs false
set_option linter.unusedVariables false

open Generated Bits

namespace BridgeSem

/-- `getIthLeafBytes` whole -/
theorem getIthLeafBytes_sem (s : SlimMsg) (v : W.slimVars) (ith : Nat) (hi : ith < 2 ^ 31)
    (hlv : ∀ va, s.leaves = some va → va.WF ∧ VLenGetFits va ith ∧
      ∀ pos, va.positionBM = some pos → pos.words.length * 64 < 2 ^ 31) :
    W.SlimTrie.getIthLeafBytes (absTrie s v) ith
      = (okOpt ((Slim.view s).leafBytes ith)).map
          (fun o => match o with | some b => natBytes b | none => []) := by
  unfold W.SlimTrie.getIthLeafBytes Slim.view
  simp only [absTrie, absSlim, Go.deref, Option.bind_eq_bind, Option.bind_some, Option.pure_def]
  cases hl : s.leaves with
  | none => rfl
  | some va =>
    obtain ⟨hwf, hfit, hpos⟩ := hlv va hl
    simp only [Option.map_some, Option.isNone_some, Bool.false_eq_true, if_false, Option.bind_some,
      VLenArray_get_sem va ith hwf hi hfit hpos]
    cases Slim.vlenGet va ith <;> rfl

theorem bytesCompare_lex (a b : List Nat) : Go.bytesCompare a b = ordPat (lexCmp a b) := by
  induction a generalizing b with
  | nil => cases b <;> rfl
  | cons x xs ih =>
    cases b with
    | nil => rfl
    | cons y ys =>
      unfold Go.bytesCompare lexCmp
      by_cases h1 : x < y
      · simp [h1, ordPat]
      · by_cases h2 : y < x
        · simp [h1, h2, ordPat]
        · simp only [h1, h2, if_false]; exact ih ys

/-- the assumed `bytes.Compare` is the model's `cmpBytes` -/
theorem bytesCompare_sem (a b : Bytes) : Go.bytesCompare (natBytes a) (natBytes b) = ordPat (cmpBytes a b) :=
  bytesCompare_lex _ _

/-- a Go `int32` comparison result as a bit pattern -/
def ordPat32 : Ordering → Nat
  | .lt => 4294967295
  | .eq => 0
  | .gt => 1

/-- `cmpLeafPrefix` whole -/
theorem cmpLeafPrefix_sem (s : SlimMsg) (v : W.slimVars) (tail : Bytes) (qr : W.querySession) (lp : Option Bytes)
    (hhas : qr.hasLeafPrefix = lp.isSome) (hlp : ∀ b, lp = some b → qr.leafPrefix = natBytes b) :
    W.SlimTrie.cmpLeafPrefix (absTrie s v) (natBytes tail) qr
      = some (ordPat32 (cmpLeafPrefix (Slim.view s) tail lp)) := by
  unfold W.SlimTrie.cmpLeafPrefix cmpLeafPrefix Slim.view
  simp only [absTrie, absSlim, Go.deref, Option.bind_eq_bind, Option.bind_some, Option.pure_def]
  cases hl : s.leafPrefixes with
  | none => rfl
  | some lps =>
    simp only [Option.map_some, Option.isSome_some, if_true, hhas]
    cases lp with
    | none =>
      have e : Go.bytesCompare (natBytes tail) [] = ordPat (cmpBytes tail []) := bytesCompare_sem tail []
      simp only [Option.isSome_none, Bool.false_eq_true, if_false, Option.bind_some, Option.getD_none, e]
      cases cmpBytes tail [] <;> rfl
    | some b =>
      simp only [Option.isSome_some, if_true, Option.bind_some, Option.getD_some, hlp b rfl, bytesCompare_sem]
      cases cmpBytes tail b <;> rfl

/-! non-vacuity -/
example : W.SlimTrie.getIthLeafBytes (absTrie exSlim (varsOf exSlim)) 2 = some [3] := by decide
example : W.SlimTrie.getIthLeafBytes (absTrie exSlim (varsOf exSlim)) 4 = none := by decide
example : W.SlimTrie.cmpLeafPrefix (absTrie exSlim (varsOf exSlim)) [99, 99]
    { exQr with hasLeafPrefix := true, leafPrefix := [99, 100] } = some 4294967295 := by decide
example : cmpLeafPrefix (Slim.view exSlim) [99, 99] (some [99, 100]) = .lt := by decide

end BridgeSem

#print axioms BridgeSem.getIthLeafBytes_sem
#print axioms BridgeSem.bytesCompare_sem
#print axioms BridgeSem.cmpLeafPrefix_sem
