import SlimModel.Stat
import SlimProofs.Refine
import SlimProofs.BuildShape
/-
  SlimProofs.StatLemmas — `Slim.initLevels` on the message of a record array (`Slim.encode t`).

  For a record array of the right shape (`ShapeOK`) whose inner nodes have their first child
  behind them and inside the array (`TreeOK`):

  * `ithInnerFrom_encode`   `getIthInnerFrom` of the `m`-th inner node is its bit offset `baseOf t m`
  * `rank_nt_last`          `rank64 NodeTypeBM (len*64-1)` counts all inner nodes
  * `rank_inners_last`      `rank128 Inners (len*64-1)` counts all labels
  * `walk_ok`               the level walk visits strictly increasing node ids `c < N` (the first
                            node of each BFS level) and records `entry t c` for each
  * `initLevels_encode`     `initLevels (encode t) = .ok ((cs ++ [N]).map (entry t))` with
                            `cs = 0 :: …` strictly ascending below `N`
  * `entry_mono`            `entry t` is pointwise monotone

  where `entry t c = (c, inner nodes before c, leaves before c)`.
-/

namespace StatLemmas

open Bits Slim Refine

/-! ### reading a `rank64` result backwards -/

theorem rank64_inv {b : BitmapMsg} {i x : Nat} {y : Bool} (h : rank64 b i = .ok (x, y)) :
    ∃ w n, b.words[i / 64]? = some w ∧ b.rankIndex[i / 64]? = some n ∧
      n + popcount (w % 2 ^ (i % 64)) = x := by
  unfold rank64 at h
  cases hw : b.words[i / 64]? with
  | none => simp [hw] at h
  | some w =>
    cases hn : b.rankIndex[i / 64]? with
    | none => simp [hw, hn] at h
    | some n =>
      simp only [hw, hn, Except.ok.injEq, Prod.mk.injEq] at h
      exact ⟨w, n, rfl, rfl, h.1⟩

/-- `getIthInnerFrom` of the `m`-th inner node -/
theorem ithInnerFrom_encode {t : Trie1} (hs : ShapeOK t) (m : Nat) (r : InnerRec)
    (hr : (eInners t)[m]? = some r) :
    ithInnerFrom (encodeCreator t) m = .ok (baseOf t m) := by
  have hm : m < (eInners t).length := (List.getElem?_eq_some_iff.mp hr).1
  unfold ithInnerFrom
  by_cases hb : m < t.bigCnt
  · simp only [enc_bigInnerCnt, hb, if_true, pure, Except.pure]
    rw [baseOf_big hs m (by omega) (by omega)]
    rfl
  · obtain ⟨w, n, hw, hn, hx⟩ := rank64_inv (shortBM_rank m r hr)
    have hint := baseOf_int hs m (by omega) (by omega)
    have hnn : ¬ ((baseOf t m : Int) < 0) := by omega
    simp only [enc_bigInnerCnt, hb, if_false, enc_shortBM, hw, hn, hx, enc_shortSize, hint, hnn,
      pure, Except.pure, Int.toNat_natCast]

/-! ### the total counts read from the last word -/

/-- `rank64` at the last bit of an `"r64"` bitmap made from ascending positions below `capa`:
    ones below + the last bit = number of positions -/
theorem rank64_last {idxs : List Nat} (hasc : Asc idxs) (capa : Nat) (hpos : 0 < capa)
    (hlt : ∀ x ∈ idxs, x < capa) :
    ∃ ti b, rank64 (newBM idxs capa "r64") ((newBM idxs capa "r64").words.length * 64 - 1)
        = .ok (ti, b) ∧ ti + (if b then 1 else 0) = idxs.length := by
  have hcap := ofIdx_capa_le idxs capa
  rw [newBM_words_r64]
  generalize hW : (ofIdx idxs capa).length = W at hcap
  have hi : W * 64 - 1 < 64 * (ofIdx idxs capa).length := by omega
  refine ⟨_, _, rank64_newBM_asc hasc capa _ hi, ?_⟩
  rw [← cnt_mem_asc hasc]
  have h1 := cnt_succ (fun j => decide (j ∈ idxs)) (W * 64 - 1)
  have h2 : W * 64 - 1 + 1 = W * 64 := by omega
  rw [h2] at h1
  rw [← h1, cnt_mem_asc hasc]
  rw [List.filter_eq_self.mpr]
  intro x hx
  have := hlt x hx
  simp only [decide_eq_true_eq]
  omega

theorem eInnerIdx_asc (t : Trie1) : Asc (eInnerIdx t) := asc_filter_range _ _

theorem eInnerIdx_lt (t : Trie1) : ∀ x ∈ eInnerIdx t, x < t.nodes.size := by
  intro x hx
  unfold eInnerIdx at hx
  rw [List.mem_filter, List.mem_range] at hx
  exact hx.1

theorem innersBefore_all (t : Trie1) : innersBefore t.nodes t.nodes.size = eInners t := by
  rw [innersBefore_eq', eInners_eq, List.take_of_length_le (by simp)]

theorem eInnerIdx_length (t : Trie1) : (eInnerIdx t).length = (eInners t).length := by
  have hq : ∀ (i : Nat) (a : Node), t.nodes.toList[i]? = some a →
      (match t.nodes[i]? with | some (.inner _) => true | _ => false) = a.isInner := by
    intro i a h
    rw [Array.getElem?_toList] at h
    rw [h]; cases a <;> rfl
  have hidx : eInnerIdx t = (List.range t.nodes.toList.length).filter
      (fun i => match t.nodes[i]? with | some (.inner _) => true | _ => false) := rfl
  have h := length_filter_lt_filter_range t.nodes.toList Node.isInner _ hq t.nodes.toList.length
    (Nat.le_refl _)
  rw [← hidx, List.take_of_length_le (Nat.le_refl _), countP_isInner, ← eInners_eq] at h
  rw [← h, List.filter_eq_self.mpr]
  intro x hx
  have := eInnerIdx_lt t x hx
  simpa using this

/-- `rank64 NodeTypeBM (len*64-1)`: the inner node count -/
theorem rank_nt_last (t : Trie1) (hpos : 0 < t.nodes.size) :
    ∃ ti b, rank64 (newBM (eInnerIdx t) t.nodes.size "r64")
        ((newBM (eInnerIdx t) t.nodes.size "r64").words.length * 64 - 1) = .ok (ti, b) ∧
      ti + (if b then 1 else 0) = (eInners t).length := by
  obtain ⟨ti, b, h1, h2⟩ := rank64_last (eInnerIdx_asc t) t.nodes.size hpos (eInnerIdx_lt t)
  exact ⟨ti, b, h1, by rw [h2, eInnerIdx_length]⟩

/-- the labels of all inner nodes: one per non-root node -/
theorem sum_labels {t : Trie1} (hs : ShapeOK t) :
    ((eInners t).map (fun r => r.labels.length)).sum + 1 = t.nodes.size := by
  have := hs.total
  rw [innersBefore_all] at this
  omega

/-- `rank128 Inners (len*64-1)`: the label count -/
theorem rank_inners_last {t : Trie1} (hs : ShapeOK t) (hI : 0 < (eInners t).length) :
    ∃ tt b, rank128 (eInnersBM t) ((eInnersBM t).words.length * 64 - 1) = .ok (tt, b) ∧
      tt + (if b then 1 else 0) + 1 = t.nodes.size := by
  have hok := eSub_ok hs
  rw [eInnersBM_words]
  have hlen := ofMany_length hok
  -- at least one element, of positive size
  obtain ⟨r, hr⟩ : ∃ r, (eInners t)[0]? = some r := ⟨_, List.getElem?_eq_getElem hI⟩
  have hend := baseOf_add_le hs 0
  rw [sizes_getD t 0 r hr] at hend
  obtain ⟨_, _, _, f4, _⟩ := sub_facts hs hr
  generalize hW : (ofMany (eSubs t) (eSizes t)).length = W at hend hlen
  have hWpos : 0 < W := by
    simp only [baseOf, List.take_zero, List.sum_nil] at hend; omega
  have hi : W * 64 - 1 < 64 * (ofMany (eSubs t) (eSizes t)).length := by omega
  refine ⟨_, _, by
    show rank128 (mk (ofMany (eSubs t) (eSizes t)) "r128") (W * 64 - 1) = _
    exact rank128_mk_cnt _ _ hi, ?_⟩
  have h1 := cnt_succ (getBit (ofMany (eSubs t) (eSizes t))) (W * 64 - 1)
  have h2 : W * 64 - 1 + 1 = W * 64 := by omega
  rw [h2] at h1
  rw [← h1]
  -- all ones of the bitmap
  have hall : cnt (getBit (ofMany (eSubs t) (eSizes t))) (W * 64)
      = ((eSubs t).map List.length).sum := by
    have hsum : (eSizes t).sum ≤ W * 64 := by omega
    rw [ofMany_eq _ _ hok.length_eq] at hW ⊢
    rw [cnt_getBit_ofIdx _ _ _ (by omega), eraseDups_of_asc (concatIdx_asc hok 0)]
    have hf := filter_concatIdx_length hok 0 (eSizes t).length 0 (Nat.le_refl _) (Nat.zero_le _)
    rw [List.take_of_length_le (Nat.le_refl _), List.take_of_length_le (by rw [hok.length_eq]; omega)]
      at hf
    have hz : ∀ l : List Nat, (l.filter (fun x => decide (x < 0))).length = 0 := by
      intro l; simp
    rw [hz] at hf
    simp only [Nat.zero_add, Nat.add_zero] at hf
    rw [← hf]
    congr 1
    apply List.filter_congr
    intro x hx
    have := (concatIdx_bounds hok 0 x hx).2
    simp only [decide_eq_decide]
    omega
  rw [hall]
  have := sum_subs_length hs (eInners t).length
  rw [List.take_of_length_le (by rw [List.length_map, eSub_length]; omega),
    List.take_of_length_le (Nat.le_refl _)] at this
  rw [this]
  exact sum_labels hs

/-! ### the level walk -/

/-- the level entry of node id `c`: (nodes before `c`, inner nodes before `c`, leaves before `c`) -/
def entry (t : Trie1) (c : Nat) : Level :=
  (c, (innersBefore t.nodes c).length, c - (innersBefore t.nodes c).length)

/-- record arrays whose inner nodes have their first child behind them, inside the array -/
structure TreeOK (t : Trie1) : Prop where
  shape : ShapeOK t
  fc_gt : ∀ (j : Nat) (r : InnerRec), t.nodes[j]? = some (.inner r) → j < r.firstChild
  fc_lt : ∀ (j : Nat) (r : InnerRec), t.nodes[j]? = some (.inner r) → r.firstChild < t.nodes.size

theorem innersBefore_succ_inner (t : Trie1) (j : Nat) (r : InnerRec)
    (h : t.nodes[j]? = some (.inner r)) :
    innersBefore t.nodes (j + 1) = innersBefore t.nodes j ++ [r] := by
  rw [innersBefore_eq', innersBefore_eq', List.take_add_one, List.filterMap_append,
    Array.getElem?_toList, h]
  rfl

theorem innersBefore_le (t : Trie1) (c : Nat) :
    (innersBefore t.nodes c).length ≤ c := by
  rw [innersBefore_eq']
  have := List.length_filterMap_le innerOf (t.nodes.toList.take c)
  rw [List.length_take] at this
  omega

/-- the first child of the `m`-th inner node, by ranks -/
theorem firstChild_of_rank {t : Trie1} (h : TreeOK t) (c m : Nat) (r : InnerRec)
    (hm : (innersBefore t.nodes c).length = m) (hr : (eInners t)[m]? = some r) :
    c < 1 + (((eInners t).take m).map (fun r => r.labels.length)).sum ∧
    1 + (((eInners t).take m).map (fun r => r.labels.length)).sum < t.nodes.size := by
  obtain ⟨j, hj, hjm⟩ := inner_at t m r hr
  have hfc := h.shape.firstChild j r hj
  rw [innersBefore_eq_take, hjm] at hfc
  rw [← hfc]
  refine ⟨?_, h.fc_lt j r hj⟩
  have hgt := h.fc_gt j r hj
  -- c ≤ j: otherwise the prefix of length c already contains inner node j
  have hcj : c ≤ j := by
    apply Nat.le_of_not_lt
    intro hlt
    have h1 := BuildShape.innersBefore_length_mono t.nodes (j := j + 1) (j' := c) (by omega)
    rw [innersBefore_succ_inner t j r hj, List.length_append] at h1
    simp only [List.length_cons, List.length_nil] at h1
    omega
  omega

theorem walk_ok {t : Trie1} (h : TreeOK t) :
    ∀ n c fuel acc, t.nodes.size - c ≤ n → n < fuel → c < t.nodes.size →
      ∃ cs : List Nat, cs.head? = some c ∧ (cs ++ [t.nodes.size]).Pairwise (· < ·) ∧
        initLevels.walk (encodeCreator t) (newBM (eInnerIdx t) t.nodes.size "r64")
          (eInners t).length fuel c acc = .ok ((cs.map (entry t)).reverse ++ acc) := by
  intro n
  induction n with
  | zero => intro c fuel acc h1 _ h3; omega
  | succ n ih =>
    intro c fuel acc h1 h2 hc
    obtain ⟨fuel, rfl⟩ : ∃ f, fuel = f + 1 := ⟨fuel - 1, by omega⟩
    have hnd : t.nodes[c]? = some t.nodes[c] := Array.getElem?_eq_getElem hc
    rw [initLevels.walk, rank_nodeType t c _ hnd]
    simp only [bind, Except.bind, pure, Except.pure]
    by_cases hm : (innersBefore t.nodes c).length = (eInners t).length
    · rw [if_pos hm]
      refine ⟨[c], rfl, by simp [hc], ?_⟩
      simp [entry]
    · rw [if_neg hm]
      have hle := innersBefore_length_le t c
      have hlt : (innersBefore t.nodes c).length < (eInners t).length := by omega
      obtain ⟨r, hr⟩ : ∃ r, (eInners t)[(innersBefore t.nodes c).length]? = some r :=
        ⟨_, List.getElem?_eq_getElem hlt⟩
      obtain ⟨b, hrank⟩ := rank128_encode h.shape _ r hr
      obtain ⟨hgt, hltN⟩ := firstChild_of_rank h c _ r rfl hr
      rw [ithInnerFrom_encode h.shape _ r hr]
      simp only [enc_inners, hrank]
      obtain ⟨cs, hhead, hpw, hwalk⟩ := ih
        ((((eInners t).take (innersBefore t.nodes c).length).map (fun r => r.labels.length)).sum + 1)
        fuel ((c, (innersBefore t.nodes c).length, c - (innersBefore t.nodes c).length) :: acc)
        (by omega) (by omega) (by omega)
      refine ⟨c :: cs, rfl, ?_, ?_⟩
      · rw [List.cons_append, List.pairwise_cons]
        refine ⟨?_, hpw⟩
        intro x hx
        cases cs with
        | nil => cases hhead
        | cons c' tl =>
          simp only [List.head?_cons, Option.some.injEq] at hhead
          rw [List.cons_append, List.pairwise_cons] at hpw
          rcases List.mem_cons.mp hx with rfl | hx'
          · omega
          · have := hpw.1 x hx'; omega
      · rw [hwalk]
        simp [entry]

/-- **`initLevels` on the message of a record array.** -/
theorem initLevels_encode {t : Trie1} (h : TreeOK t) :
    ∃ cs : List Nat, cs.head? = some 0 ∧ (cs ++ [t.nodes.size]).Pairwise (· < ·) ∧
      initLevels (encode t) = .ok ((cs ++ [t.nodes.size]).map (entry t)) := by
  have hpos := h.shape.nonempty
  have hne : t.nodes.size ≠ 0 := by omega
  rw [encode_eq t hne]
  obtain ⟨ti, b, hti, hI⟩ := rank_nt_last t hpos
  have hcap := ofIdx_capa_le (eInnerIdx t) t.nodes.size
  obtain ⟨cs, hhead, hpw, hwalk⟩ := walk_ok h t.nodes.size 0
    ((newBM (eInnerIdx t) t.nodes.size "r64").words.length * 64 + 2) [] (by omega)
    (by rw [newBM_words_r64]; omega) hpos
  refine ⟨cs, hhead, hpw, ?_⟩
  have hentryN : entry t t.nodes.size
      = (t.nodes.size, (eInners t).length, t.nodes.size - (eInners t).length) := by
    simp only [entry, innersBefore_all]
  have hfin : ∀ total, total = t.nodes.size →
      ((total, (eInners t).length, total - (eInners t).length) ::
        ((cs.map (entry t)).reverse ++ [])).reverse = (cs ++ [t.nodes.size]).map (entry t) := by
    intro total ht
    subst ht
    simp [hentryN]
  unfold initLevels
  simp only [enc_nodeTypeBM, if_neg hne, hti, bind, Except.bind, pure, Except.pure, hI]
  by_cases hI0 : (eInners t).length > 0
  · obtain ⟨tt, b', htt, hN⟩ := rank_inners_last h.shape hI0
    simp only [hI0, if_true, enc_inners, htt, hwalk]
    exact congrArg Except.ok (hfin _ hN)
  · have hN : 1 = t.nodes.size := by
      have := sum_labels h.shape
      have hnil : eInners t = [] := List.eq_nil_of_length_eq_zero (by omega)
      rw [hnil] at this
      simpa using this
    simp only [hI0, if_false, hwalk]
    exact congrArg Except.ok (hfin _ hN)

/-! ### the entries are monotone -/

theorem entry_mono (t : Trie1) {a b : Nat} (hab : a ≤ b) (hb : b ≤ t.nodes.size) :
    (entry t a).1 ≤ (entry t b).1 ∧ (entry t a).2.1 ≤ (entry t b).2.1 ∧
      (entry t a).2.2 ≤ (entry t b).2.2 := by
  refine ⟨hab, BuildShape.innersBefore_length_mono t.nodes hab, ?_⟩
  simp only [entry]
  have h1 := leaves_add_inners t.nodes a (by omega)
  have h2 := leaves_add_inners t.nodes b hb
  have h3 : leavesBefore t.nodes a ≤ leavesBefore t.nodes b := by
    rw [leavesBefore_eq, leavesBefore_eq]
    have : t.nodes.toList.take a = (t.nodes.toList.take b).take a := by
      rw [List.take_take, Nat.min_eq_left hab]
    rw [this]
    exact length_filterMap_take_le leafOf _ a
  omega

theorem entry_sum (t : Trie1) (c : Nat) :
    (entry t c).1 = (entry t c).2.1 + (entry t c).2.2 := by
  have := innersBefore_le t c
  simp only [entry]
  omega

theorem entry_leaf (t : Trie1) {c : Nat} (hc : c ≤ t.nodes.size) :
    (entry t c).2.2 = leavesBefore t.nodes c := by
  have := leaves_add_inners t.nodes c hc
  simp only [entry]
  omega

end StatLemmas
