import SlimModel.Legacy
import SlimProofs.LegacyConvertOld
/-
  SlimProofs.LegacyConvertSim — stage (ii-a) of C06 for the three-section layouts: the bit level of
  one iteration of the loader's conversion loop (`Legacy.convert.loop`).

  * `testBit_foldl_or`, `labels_eq`, `kids_eq`   the label list / child count the loader reads off
        the 17-bit bitmap `bm << 1 (| 1)` = `newLabelsOf ends runs` / `runs.length`
  * `Reads`            what the accessors return on the sections (interface to LegacyArray)
  * `kidElts`, `addKids_spec`   the children get consecutive old ids and their rebased steps
  * `leafUpd`, `innerUpd`, `loop_leaf`, `loop_inner`   equation lemmas for the two live branches
-/

namespace LegacyConvert
open LegacyWrite Legacy

/-! ### bits -/

theorem testBit_one_shiftLeft (k w : Nat) : (1 <<< k).testBit w = decide (k = w) := by
  rw [Nat.one_shiftLeft, Nat.testBit_two_pow]

theorem testBit_foldl_or (runs : List (Nat × Nat × Nat)) (acc w : Nat) :
    (runs.foldl (fun a r => a ||| (1 <<< r.1)) acc).testBit w
      = (acc.testBit w || runs.any (fun r => r.1 == w)) := by
  induction runs generalizing acc with
  | nil => simp
  | cons r rs ih =>
    rw [List.foldl_cons, ih, Nat.testBit_or, testBit_one_shiftLeft, List.any_cons, Bool.or_assoc]
    congr 2

theorem testBit_mul_two_zero (bm : Nat) : (bm * 2).testBit 0 = false := by
  rw [Nat.testBit_zero]; simp

theorem testBit_mul_two_succ (bm k : Nat) : (bm * 2).testBit (k + 1) = bm.testBit k := by
  have := Nat.testBit_mul_two_pow bm (k + 1) 1
  simp only [Nat.pow_one] at this
  rw [this]; simp

/-- strictly ascending lists with the same members are equal -/
theorem asc_ext : ∀ (l1 l2 : List Nat), l1.Pairwise (· < ·) → l2.Pairwise (· < ·) →
    (∀ x, x ∈ l1 ↔ x ∈ l2) → l1 = l2
  | [], [], _, _, _ => rfl
  | [], b :: l2, _, _, h => by have := (h b).mpr (by simp); simp at this
  | a :: l1, [], _, _, h => by have := (h a).mp (by simp); simp at this
  | a :: l1, b :: l2, h1, h2, h => by
    rw [List.pairwise_cons] at h1 h2
    have hab : a = b := by
      have ha := (h a).mp (by simp)
      have hb := (h b).mpr (by simp)
      rcases List.mem_cons.mp ha with ha | ha
      · exact ha
      · rcases List.mem_cons.mp hb with hb | hb
        · exact hb.symm
        · have := h2.1 a ha; have := h1.1 b hb; omega
    subst hab
    congr 1
    apply asc_ext l1 l2 h1.2 h2.2
    intro x
    constructor
    · intro hx
      have := (h x).mp (List.mem_cons_of_mem _ hx)
      rcases List.mem_cons.mp this with rfl | h3
      · have := h1.1 x hx; omega
      · exact h3
    · intro hx
      have := (h x).mpr (List.mem_cons_of_mem _ hx)
      rcases List.mem_cons.mp this with rfl | h3
      · have := h2.1 x hx; omega
      · exact h3

theorem filter_range_asc (n : Nat) (p : Nat → Bool) : ((List.range n).filter p).Pairwise (· < ·) :=
  List.Pairwise.filter _ List.pairwise_lt_range

/-- labels of the new node made from an old inner node -/
def newLabelsOf (ends : Bool) (runs : List (Nat × Nat × Nat)) : List Nat :=
  (if ends then [0] else []) ++ runs.map (fun x => x.1 + 1)

theorem newLabelsOf_asc (ends : Bool) (runs : List (Nat × Nat × Nat))
    (hasc : (runs.map (·.1)).Pairwise (· < ·)) : (newLabelsOf ends runs).Pairwise (· < ·) := by
  unfold newLabelsOf
  have h1 : (runs.map (fun x => x.1 + 1)).Pairwise (· < ·) := by
    rw [List.pairwise_map] at hasc ⊢
    exact hasc.imp (fun h => by omega)
  cases ends with
  | false => simpa using h1
  | true =>
    simp only [if_true, List.singleton_append, List.pairwise_cons]
    refine ⟨?_, h1⟩
    intro x hx
    obtain ⟨y, _, rfl⟩ := List.mem_map.mp hx
    omega

/-- the label list the loader computes from the 17-bit bitmap -/
theorem labels_eq (ends : Bool) (runs : List (Nat × Nat × Nat))
    (hasc : (runs.map (·.1)).Pairwise (· < ·)) (hlt : ∀ x ∈ runs, x.1 < 16) :
    (List.range 64).filter (fun k =>
      (if ends then (runs.foldl (fun a r => a ||| (1 <<< r.1)) 0) * 2 ||| 1
       else (runs.foldl (fun a r => a ||| (1 <<< r.1)) 0) * 2).testBit k)
      = newLabelsOf ends runs := by
  apply asc_ext _ _ (filter_range_asc _ _) (newLabelsOf_asc ends runs hasc)
  intro k
  rw [List.mem_filter, List.mem_range]
  have hbit : ∀ j, ((runs.foldl (fun a r => a ||| (1 <<< r.1)) 0) * 2).testBit (j + 1) = true ↔
      ∃ x ∈ runs, x.1 = j := by
    intro j
    rw [testBit_mul_two_succ, testBit_foldl_or]
    simp only [Nat.zero_testBit, Bool.false_or, List.any_eq_true, beq_iff_eq]
  unfold newLabelsOf
  cases k with
  | zero =>
    cases ends with
    | false =>
      simp only [Bool.false_eq_true, if_false, testBit_mul_two_zero, List.nil_append, List.mem_map]
      constructor
      · rintro ⟨_, h⟩; cases h
      · rintro ⟨x, _, h⟩; omega
    | true =>
      simp only [if_true, Nat.testBit_or, testBit_mul_two_zero, Bool.false_or]
      constructor
      · intro _; simp
      · intro _; exact ⟨by omega, by decide⟩
  | succ j =>
    have hone : (1 : Nat).testBit (j + 1) = false := by
      rw [Nat.testBit_succ]; simp
    have hb : (if ends then (runs.foldl (fun a r => a ||| (1 <<< r.1)) 0) * 2 ||| 1
       else (runs.foldl (fun a r => a ||| (1 <<< r.1)) 0) * 2).testBit (j + 1) = true ↔
        ∃ x ∈ runs, x.1 = j := by
      cases ends with
      | false => simpa using hbit j
      | true =>
        simp only [if_true, Nat.testBit_or, hone, Bool.or_false]
        exact hbit j
    rw [hb]
    constructor
    · rintro ⟨_, x, hx, rfl⟩
      apply List.mem_append_right
      exact List.mem_map.mpr ⟨x, hx, rfl⟩
    · intro h
      rcases List.mem_append.mp h with h | h
      · cases ends <;> simp at h
      · obtain ⟨x, hx, hxj⟩ := List.mem_map.mp h
        have := hlt x hx
        exact ⟨by omega, x, hx, by omega⟩

/-- the number of children the loader reads off the 17-bit bitmap -/
theorem kids_eq (runs : List (Nat × Nat × Nat))
    (hasc : (runs.map (·.1)).Pairwise (· < ·)) (hlt : ∀ x ∈ runs, x.1 < 16) :
    ((List.range 17).filter (fun k =>
      ((runs.foldl (fun a r => a ||| (1 <<< r.1)) 0) * 2).testBit k)).length = runs.length := by
  have : (List.range 17).filter (fun k =>
      ((runs.foldl (fun a r => a ||| (1 <<< r.1)) 0) * 2).testBit k) = newLabelsOf false runs := by
    apply asc_ext _ _ (filter_range_asc _ _) (newLabelsOf_asc false runs hasc)
    intro k
    have h64 := labels_eq false runs hasc hlt
    simp only [Bool.false_eq_true, if_false] at h64
    rw [← h64, List.mem_filter, List.mem_filter, List.mem_range, List.mem_range]
    constructor
    · rintro ⟨h1, h2⟩; exact ⟨by omega, h2⟩
    · rintro ⟨h1, h2⟩
      refine ⟨?_, h2⟩
      -- a set bit of the 17-bit bitmap lies below 17
      have hm : k ∈ newLabelsOf false runs := by
        rw [← h64, List.mem_filter, List.mem_range]; exact ⟨h1, h2⟩
      unfold newLabelsOf at hm
      simp only [Bool.false_eq_true, if_false, List.nil_append] at hm
      obtain ⟨x, hx, rfl⟩ := List.mem_map.mp hm
      have := hlt x hx; omega
  rw [this]
  unfold newLabelsOf
  simp

/-! ### what the loader reads from the three sections -/

/-- the accessors of the conversion return the content of the old node array -/
structure Reads (ch steps lvs : Array32Msg) (w : Nat) (nodes : Array OldNode) (vals : List Bytes) :
    Prop where
  inner : ∀ id, bmhas ch.bitmaps id = decide (∃ h : id < nodes.size, nodes[id].inner = true)
  leaf : ∀ id, bmhas lvs.bitmaps id = decide (∃ h : id < nodes.size, nodes[id].leaf.isSome = true)
  step : ∀ id (h : id < nodes.size), getStep steps id = .ok (nodes[id].step - 1)
  bm : ∀ id (h : id < nodes.size), nodes[id].inner = true →
    getBM16Child ch id = .ok (nodes[id].bm * 2)
  val : ∀ id (h : id < nodes.size) k, nodes[id].leaf = some k →
    getBytes lvs id w = .ok (some (vals.getD k []))

/-- the queue elements of the old children `oid … oid + k - 1` -/
def kidElts (nodes : Array OldNode) (oid k : Nat) : List QElt :=
  (List.range k).map (fun i =>
    { oldid := oid + i, step := (nodes.getD (oid + i) default).step - 1, leafOnly := false })

theorem kidElts_succ (nodes : Array OldNode) (oid k : Nat) :
    kidElts nodes oid (k + 1) =
      { oldid := oid, step := (nodes.getD oid default).step - 1, leafOnly := false } ::
        kidElts nodes (oid + 1) k := by
  unfold kidElts
  rw [List.range_succ_eq_map, List.map_cons, List.map_map]
  simp only [Nat.add_zero, List.cons.injEq, true_and]
  apply List.map_congr_left
  intro i _
  simp only [Function.comp, Nat.succ_eq_add_one]
  have : oid + (i + 1) = oid + 1 + i := by omega
  rw [this]

theorem addKids_spec {ch steps lvs : Array32Msg} {w : Nat} {nodes : Array OldNode}
    {vals : List Bytes} (R : Reads ch steps lvs w nodes vals) :
    ∀ k oid qu, oid + k ≤ nodes.size →
      convert.loop.addKids steps k oid qu = .ok (qu ++ (kidElts nodes oid k).toArray) := by
  intro k
  induction k with
  | zero => intro oid qu _; simp [convert.loop.addKids, kidElts]
  | succ k ih =>
    intro oid qu h
    have hoid : oid < nodes.size := by omega
    rw [convert.loop.addKids, R.step oid hoid]
    simp only [bind, Except.bind]
    rw [ih (oid + 1) _ (by omega), kidElts_succ]
    have : nodes.getD oid default = nodes[oid] := by
      rw [Array.getD_eq_getD_getElem?, Array.getElem?_eq_getElem hoid]; rfl
    rw [this]
    simp

/-! ### one iteration of the conversion loop -/

def leafUpd (c : Conv) (v : Bytes) : Conv :=
  { c with nodes := c.nodes.push (.leaf c.leaves.size none), leaves := c.leaves.push v }

def innerUpd (c : Conv) (kids : List QElt) (cnt : Nat) (r : InnerRec) : Conv :=
  { queue := c.queue ++ kids.toArray, nextOldID := c.nextOldID + cnt,
    nodes := c.nodes.push (.inner r), leaves := c.leaves }

/-- a queue element that becomes a leaf -/
theorem loop_leaf {ch steps lvs : Array32Msg} {w : Nat} {nodes : Array OldNode}
    {vals : List Bytes} (R : Reads ch steps lvs w nodes vals)
    (fuel newid : Nat) (c : Conv) (q : QElt) (hq : c.queue[newid]? = some q)
    (hid : q.oldid < nodes.size) (k : Nat) (hleaf : nodes[q.oldid].leaf = some k)
    (hty : q.leafOnly = true ∨ nodes[q.oldid].inner = false) :
    convert.loop ch steps lvs (some w) (fuel + 1) newid c
      = convert.loop ch steps lvs (some w) fuel (newid + 1) (leafUpd c (vals.getD k [])) := by
  have hlt : newid < c.queue.size := (Array.getElem?_eq_some_iff.mp hq).1
  have hqe : c.queue[newid] = q := (Array.getElem?_eq_some_iff.mp hq).2
  have hhl : bmhas lvs.bitmaps q.oldid = true := by
    rw [R.leaf]; simp [hid, hleaf]
  have hcond : (q.leafOnly || (!bmhas ch.bitmaps q.oldid && bmhas lvs.bitmaps q.oldid)) = true := by
    rcases hty with h | h
    · simp [h]
    · have : bmhas ch.bitmaps q.oldid = false := by rw [R.inner]; simp [hid, h]
      simp [this, hhl]
  rw [convert.loop, dif_pos hlt]
  simp only [hqe, hcond, if_true, R.val q.oldid hid k hleaf, bind, Except.bind]
  rfl

/-- a queue element that becomes an inner node -/
theorem loop_inner {ch steps lvs : Array32Msg} {w : Nat} {nodes : Array OldNode}
    {vals : List Bytes} (R : Reads ch steps lvs w nodes vals)
    (fuel newid : Nat) (c : Conv) (q : QElt) (hq : c.queue[newid]? = some q)
    (hid : q.oldid < nodes.size) (hlo : q.leafOnly = false) (hin : nodes[q.oldid].inner = true)
    (ends : Bool) (runs : List (Nat × Nat × Nat))
    (hbm : nodes[q.oldid].bm = runs.foldl (fun a r => a ||| (1 <<< r.1)) 0)
    (hends : nodes[q.oldid].leaf.isSome = ends)
    (hasc : (runs.map (·.1)).Pairwise (· < ·)) (hlt16 : ∀ x ∈ runs, x.1 < 16)
    (hkids : c.nextOldID + runs.length ≤ nodes.size) :
    convert.loop ch steps lvs (some w) (fuel + 1) newid c
      = convert.loop ch steps lvs (some w) fuel (newid + 1)
          (innerUpd c
            ((if ends then [{ oldid := q.oldid, step := 0, leafOnly := true }] else []) ++
              kidElts nodes c.nextOldID runs.length)
            runs.length
            { big := false, labels := newLabelsOf ends runs, firstChild := 0,
              pref := if q.step = 0 then Pref.none else Pref.step q.step }) := by
  have hlt : newid < c.queue.size := (Array.getElem?_eq_some_iff.mp hq).1
  have hqe : c.queue[newid] = q := (Array.getElem?_eq_some_iff.mp hq).2
  have hhi : bmhas ch.bitmaps q.oldid = true := by rw [R.inner]; simp [hid, hin]
  have hhl : bmhas lvs.bitmaps q.oldid = ends := by
    rw [R.leaf, ← hends]
    cases h : nodes[q.oldid].leaf.isSome <;> simp [hid, h]
  rw [convert.loop, dif_pos hlt]
  simp only [hqe, Bool.false_eq_true, if_false, hhi, Bool.not_true, R.bm q.oldid hid hin,
    bind, Except.bind, hbm, kids_eq runs hasc hlt16, hhl]
  rw [addKids_spec R _ _ _ hkids]
  simp only []
  have hl := labels_eq ends runs hasc hlt16
  cases ends with
  | false =>
    simp only [Bool.false_eq_true, if_false] at hl ⊢
    rw [hl]
    simp [innerUpd, hlo]
  | true =>
    simp only [if_true] at hl ⊢
    rw [hl]
    simp [innerUpd, hlo]

end LegacyConvert
