import SlimModel.Slim
/-
  SlimModel.Stat — `initLevels`, `Stat` (slimtrie_level.go, slimtrie_stat.go) and `String`
  (slimtrie_str.go + github.com/openacid/low/tree.String) on the `Slim` message.
-/
open Bits

namespace Slim

/-- `levelInfo` without the cache -/
abbrev Level := Nat × Nat × Nat      -- total, inner, leaf

/-- `getIthInnerFrom` -/
def ithInnerFrom (s : SlimMsg) (ith : Nat) : Except Err Nat := do
  if ith < s.bigInnerCnt then return ith * bigInnerSize
  let some sbm := s.shortBM | .error (.panic "nil ShortBM")
  let some w := sbm.words[ith / 64]? | .error (.panic "index out of range (ShortBM.Words)")
  let some r := sbm.rankIndex[ith / 64]? | .error (.panic "index out of range (ShortBM.RankIndex)")
  let ithShort := r + popcount (w % 2 ^ (ith % 64))
  let frm : Int := ((bigInnerSize : Int) - innerSize) * s.bigInnerCnt + (innerSize : Int) * ith
      + ((s.shortSize : Int) - innerSize) * ithShort
  if frm < 0 then .error (.panic "negative bit offset") else return frm.toNat

/-- `initLevels` -/
def initLevels (s : SlimMsg) : Except Err (List Level) := do
  match s.nodeTypeBM with
  | none => return [(0, 0, 0)]
  | some nt =>
    let (ti, b) ← rank64 nt (nt.words.length * 64 - 1)
    let totalInner := ti + (if b then 1 else 0)
    let total ← (do
      if totalInner > 0 then
        let some inn := s.inners | .error (.panic "nil Inners")
        let (t, b) ← rank128 inn (inn.words.length * 64 - 1)
        return t + (if b then 1 else 0) + 1
      else return 1)
    let rec walk : Nat → Nat → List Level → Except Err (List Level)
      | 0, _, _ => .error .fuel
      | fuel + 1, currId, acc => do
        let (nextInnerIdx, _) ← rank64 nt currId
        let acc := (currId, nextInnerIdx, currId - nextInnerIdx) :: acc
        if nextInnerIdx = totalInner then return acc
        let frm ← ithInnerFrom s nextInnerIdx
        let some inn := s.inners | .error (.panic "nil Inners")
        let (lm, _) ← rank128 inn frm
        walk fuel (lm + 1) acc
    let acc ← walk (nt.words.length * 64 + 2) 0 []
    return ((total, totalInner, total - totalInner) :: acc).reverse

structure StatRes where
  levels : List Level
  keyCnt : Nat
  nodeCnt : Nat
  deriving Repr, DecidableEq

/-- `Stat()` given the instance's `levels` (which `Unmarshal` only replaces on success) -/
def stat (s : SlimMsg) (levels : List Level) : Except Err StatRes :=
  match levels.getLast? with
  | none => .error (.panic "index out of range (levels)")
  | some (total, _, leaf) =>
    .ok { levels := levels, keyCnt := if s.nodeTypeBM.isNone then 0 else leaf, nodeCnt := total }

/-! ### String() -/

def pad3 (n : Nat) : String :=
  let s := toString n
  String.ofList (List.replicate (3 - s.length) '0') ++ s

/-- `bmtree.PathStr` of a label index: "" for 0, else the word in binary, 4 or 8 digits -/
def labelStr (label : Nat) (big : Bool) : String :=
  if label = 0 then "" else
  let w := if big then 8 else 4
  String.ofList ((List.range w).map (fun k => if (label - 1).testBit (w - 1 - k) then '1' else '0'))

/-- `toStrings` of low/tree over a view: lines of the subtree of `id` -/
def render (v : View) (fmtVal : Option Bytes → String) : Nat → Option String → Nat → Except Err (List String)
  | 0, _, _ => .error .fuel
  | fuel + 1, inbranch, id => do
    let head := (match inbranch with | some l => "-" ++ l ++ "->" | none => "") ++ "#" ++ pad3 id
    match ← v.node id with
    | .leaf ith _ =>
      let val ← v.leafBytes ith
      return [head ++ "=" ++ fmtVal val]
    | .inner r =>
      let step := match r.pref with
        | .none => 0
        | .step n => 4 * n
        | .stored p => 4 * p.length
      let line := head ++ (if step > 0 then "+" ++ toString step else "")
        ++ (if r.labels.length > 1 then "*" ++ toString r.labels.length else "")
      let indent := String.ofList (List.replicate head.length ' ')
      let rec kids : List Nat → Nat → Except Err (List String)
        | [], _ => .ok []
        | l :: ls, k => do
          let sub ← render v fmtVal fuel (some (labelStr l r.big)) (r.firstChild + k)
          let rest ← kids ls (k + 1)
          return sub.map (indent ++ ·) ++ rest
      let ks ← kids r.labels 0
      return line :: ks

/-- `String()` -/
def toStringSlim (v : View) (fmtVal : Option Bytes → String) : Except Err String := do
  if v.isEmpty then return ""
  let lines ← render v fmtVal (v.nodeCnt + 1) none 0
  return "\n".intercalate lines

end Slim
