import Generated.Funcs
import SlimProps.BridgeSem.Common
import SlimModel.Spec
/-
  SlimProps.BridgeSem.ToKeep — tie 1, semantic part: `newToKeep` (trie/slimtrie_create.go).
  See SlimProps/BridgeSem.lean for the overview.
-/

open Generated

namespace BridgeSem

/-! ### `newToKeep` (trie/slimtrie_create.go): loops over a `[]bool`, `bytes.Compare(a, b) != 0` -/

/-- the values as the translator sees them -/
def natVals (vs : List Bytes) : List (List Nat) := vs.map (fun b => b.map UInt8.toNat)

theorem natVals_getD (vs : List Bytes) (j : Nat) :
    (natVals vs).getD j [] = (vs.getD j []).map UInt8.toNat := by
  unfold natVals
  rw [List.getD_eq_getElem?_getD, List.getD_eq_getElem?_getD, List.getElem?_map]
  cases vs[j]? <;> rfl

theorem bne_map (a b : Bytes) : (a.map UInt8.toNat != b.map UInt8.toNat) = (a != b) := by
  rw [Bool.eq_iff_iff, bne_iff_ne, bne_iff_ne, Ne, Ne,
    List.map_inj_right (fun x y h => UInt8.toNat_inj.mp h)]

theorem loop2_spec (n : Nat) (hn : n < 2 ^ 63) :
    ∀ fuel i (tk : List Bool), i ≤ n → n - i ≤ fuel → tk.length = n →
      (Generated.newToKeep_loop2 n fuel (i, tk)).2 = tk.take i ++ List.replicate (n - i) true := by
  intro fuel
  induction fuel with
  | zero =>
    intro i tk h1 h2 h3
    have : i = n := by omega
    subst this
    simp [Generated.newToKeep_loop2, ← h3]
  | succ fuel ih =>
    intro i tk h1 h2 h3
    rw [Generated.newToKeep_loop2]
    go_simp
    by_cases hlt : i < n
    · simp only [hlt, if_true]
      rw [ih (i + 1) _ (by omega) (by omega) (by simp [h3]), take_succ_set _ _ _ (by omega)]
      have : n - i = (n - (i + 1)) + 1 := by omega
      rw [this, List.replicate_succ]
      simp
    · have : i = n := by omega
      subst this
      simp [← h3]

/-- what the de-duplicating loop writes at position `j ≥ 1` -/
def keepAt (vs : List Bytes) (j : Nat) : Bool := vs.getD (j - 1) [] != vs.getD j []

theorem loop1_spec (vs : List Bytes) (hn : vs.length < 2 ^ 63) :
    ∀ fuel i (tk : List Bool), 1 ≤ i → i ≤ vs.length → vs.length - i ≤ fuel → tk.length = vs.length →
      (Generated.newToKeep_loop1 vs.length (some (natVals vs)) fuel (i, tk)).2
        = tk.take i ++ (List.range' i (vs.length - i)).map (keepAt vs) := by
  intro fuel
  induction fuel with
  | zero =>
    intro i tk h0 h1 h2 h3
    have : i = vs.length := by omega
    subst this
    simp [Generated.newToKeep_loop1, ← h3]
  | succ fuel ih =>
    intro i tk h0 h1 h2 h3
    rw [Generated.newToKeep_loop1]
    go_simp
    by_cases hlt : i < vs.length
    · simp only [hlt, if_true, Option.getD_some]
      rw [ih (i + 1) _ (by omega) (by omega) (by omega) (by simp [h3]), take_succ_set _ _ _ (by omega)]
      have : vs.length - i = (vs.length - (i + 1)) + 1 := by omega
      rw [this, List.range'_succ]
      simp only [List.map_cons, List.append_assoc, List.cons_append, List.nil_append,
        List.append_cancel_left_eq, List.cons.injEq, and_true]
      -- what the Go code writes at position i is `keepAt vs i`, however the comparison is phrased
      unfold keepAt
      rw [Bool.eq_iff_iff]
      set_option linter.unusedSimpArgs false in
      simp only [sub_small h0 (show i < 2 ^ 64 by omega), natVals_getD, bne_iff_ne, beq_iff_eq, ne_eq,
        Bool.not_eq_true', beq_eq_false_iff_ne, Bool.not_eq_eq_eq_not, Bool.not_true,
        List.map_inj_right (fun x y h => UInt8.toNat_inj.mp h)]
      all_goals first
        | exact Iff.rfl
        | exact ⟨fun h e => h e.symm, fun h e => h e.symm⟩
    · have : i = vs.length := by omega
      subst this
      simp [← h3]

theorem keepMaskVals_drop (vs : List Bytes) :
    ∀ d i, 1 ≤ i → i + d = vs.length →
      keepMaskVals (some (vs.getD (i - 1) [])) (vs.drop i) = (List.range' i d).map (keepAt vs) := by
  intro d
  induction d with
  | zero =>
    intro i _ h2
    rw [List.drop_of_length_le (by omega)]
    rfl
  | succ d ih =>
    intro i h1 h2
    rw [List.drop_eq_getElem_cons (by omega), keepMaskVals, List.range'_succ, List.map_cons]
    have hget : vs.getD i [] = vs[i]'(by omega) := by
      rw [List.getD_eq_getElem?_getD, List.getElem?_eq_getElem (by omega)]; rfl
    have := ih (i + 1) (by omega) (by omega)
    simp only [Nat.add_sub_cancel] at this
    rw [← hget, this]
    rfl

/-- **`newToKeep`** (trie/slimtrie_create.go) is `keepMask` (SlimModel/Spec.lean): for every number
    of records `n` (an `int`), values (nil, or as many as records) and `*opt.DedupValue`. -/
theorem newToKeep_sem (n : Nat) (vals : Option (List Bytes)) (dedup : Bool) (hn : n < 2 ^ 63)
    (hv : ∀ vs, vals = some vs → vs.length = n) :
    Generated.newToKeep n (vals.map natVals) (some dedup) = keepMask n vals dedup := by
  unfold Generated.newToKeep keepMask
  have hall : (Generated.newToKeep_loop2 n n (0, List.replicate n false)).2 = List.replicate n true := by
    rw [loop2_spec n hn n 0 _ (by omega) (by omega) (by simp)]
    simp
  cases vals with
  | none =>
    simp only [Option.map_none, Option.isSome_none, Bool.and_false, Bool.false_eq_true, if_false]
    first | exact hall | (simp only [List.length_replicate]; exact hall)
  | some vs =>
    have hlen := hv vs rfl
    cases dedup with
    | false =>
      simp only [Option.getD_some, Bool.false_and, Bool.false_eq_true, if_false]
      first | exact hall | (simp only [List.length_replicate]; exact hall)
    | true =>
      simp only [Option.map_some, Option.getD_some, Option.isSome_some, Bool.and_self, if_true]
      subst hlen
      cases vs with
      | nil => rfl
      | cons v rest =>
        show (Generated.newToKeep_loop1 (v :: rest).length (some (natVals (v :: rest))) (v :: rest).length
          (1, (List.replicate (v :: rest).length false).set 0 true)).2 = _
        rw [loop1_spec (v :: rest) hn _ 1 _ (by omega) (by simp) (by omega) (by simp)]
        have := keepMaskVals_drop (v :: rest) rest.length 1 (by omega) (by simp; omega)
        simp only [Nat.sub_self, List.getD_cons_zero, List.drop_succ_cons, List.drop_zero] at this
        rw [keepMaskVals, this]
        simp [List.replicate_succ]

end BridgeSem

#print axioms BridgeSem.newToKeep_sem
