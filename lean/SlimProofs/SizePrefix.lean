import SlimProofs.BuildShape
/-
  SlimProofs.SizePrefix — C17, structural half: prepending a common prefix `P` to every key
  shifts every position the builder computes by `d = 2·|P|` half-bytes and changes nothing else.

  A simulation between the two runs of `buildLoop` (in the style of `C13Shape.buildLoop_sim`):
  same `isBig`/`bigCnt`/`leafKeyIdx`; the queues agree except that every non-root subset starts
  `d` later; the record arrays agree except for the root's step, which grows by `d`.
  Filter mode only (no stored prefixes: `opt.inner = opt.leaf = false`).
-/

namespace SizePrefix

open BuildInv BuildShape

/-! ### shifting keys -/

theorem nibs_append (a b : Bytes) : nibs (a ++ b) = nibs a ++ nibs b := by
  induction a with
  | nil => rfl
  | cons x a ih => simp only [List.cons_append, nibs, ih]

theorem nibs_length (a : Bytes) : (nibs a).length = 2 * a.length := by
  induction a with
  | nil => rfl
  | cons x a ih => simp only [nibs, List.length_cons, ih]; omega

theorem lcp_append_left (p a b : List Nat) : lcp (p ++ a) (p ++ b) = lcp a b + p.length := by
  induction p with
  | nil => simp
  | cons x p ih => simp only [List.cons_append, lcp, if_true, ih, List.length_cons]; omega

theorem labelAt_append_left (p k : List Nat) (ws : Nat) (big : Bool) :
    labelAt (p ++ k) (ws + p.length) big = labelAt k ws big := by
  unfold labelAt
  rw [List.getElem?_append_right (by omega), Nat.add_sub_cancel]
  have : (p ++ k).getD (ws + p.length + 1) 0 = k.getD (ws + 1) 0 := by
    rw [List.getD_eq_getElem?_getD, List.getD_eq_getElem?_getD,
      List.getElem?_append_right (by omega)]
    congr 2; omega
  rw [this]

theorem labelAt_nil (ws : Nat) (big : Bool) : labelAt [] ws big = 0 := by
  simp [labelAt]

/-! ### the two contexts -/

/-- `c'` is `c` with every key position shifted by `d` (an even number of half-bytes) -/
structure CtxShift (d n : Nat) (c c' : BCtx) : Prop where
  even : d % 2 = 0
  label : ∀ ws big t, keyLabel c' (ws + d) big t = keyLabel c ws big t
  keep : c'.keep = c.keep
  lcps : ∀ t, t + 1 < n → c'.lcps.getD t 0 = c.lcps.getD t 0 + d
  inner : c.opt.inner = false
  leaf : c.opt.leaf = false
  inner' : c'.opt.inner = false
  leaf' : c'.opt.leaf = false

theorem foldl_min_shift (l : List Nat) (f g : Nat → Nat) (d a : Nat)
    (h : ∀ x ∈ l, g x = f x + d) :
    (l.map g).foldl min (a + d) = (l.map f).foldl min a + d := by
  induction l generalizing a with
  | nil => rfl
  | cons x l ih =>
    simp only [List.map_cons, List.foldl_cons]
    rw [h x (by simp), show min (a + d) (f x + d) = min a (f x) + d by omega]
    exact ih _ (fun y hy => h y (List.mem_cons_of_mem _ hy))

theorem minLcp_shift {d n : Nat} {c c' : BCtx} (hc : CtxShift d n c c') {s e : Nat}
    (h2 : s + 2 ≤ e) (he : e ≤ n) : minLcp c' s e = minLcp c s e + d := by
  unfold minLcp
  rw [hc.lcps s (by omega)]
  apply foldl_min_shift
  intro t ht
  rw [List.mem_range'_1] at ht
  exact hc.lcps t (by omega)

theorem prefCnt_shift {d n : Nat} {c c' : BCtx} (hc : CtxShift d n c c') {s e : Nat} (ws : Nat)
    (he : e ≤ n) : prefCnt c' s e (ws + d) = prefCnt c s e ws := by
  unfold prefCnt
  congr 2
  apply List.filter_congr
  intro t ht
  rw [List.mem_range'_1] at ht
  rw [hc.lcps t (by omega)]
  have := hc.even
  have e1 : (c.lcps.getD t 0 + d) / 2 = c.lcps.getD t 0 / 2 + d / 2 := by omega
  have e2 : (ws + d) / 2 = ws / 2 + d / 2 := by omega
  rw [e1, e2, Bool.eq_iff_iff]
  simp

theorem keyLabel_shift {d n : Nat} {c c' : BCtx} (hc : CtxShift d n c c') (ws : Nat) (big : Bool) :
    keyLabel c' (ws + d) big = keyLabel c ws big := by
  funext t; exact hc.label ws big t

theorem keptLabels_shift {d n : Nat} {c c' : BCtx} (hc : CtxShift d n c c') (s e ws : Nat)
    (big : Bool) : keptLabels c' s e (ws + d) big = keptLabels c s e ws big := by
  unfold keptLabels
  rw [hc.keep, keyLabel_shift hc]

/-! ### the relation between the two runs -/

def shiftSub (d : Nat) (o : Subset) : Subset := { o with fb := o.fb + d }

/-- a step of `m` half-bytes as `setPrefix` records it in filter mode -/
def stepPref (m : Nat) : Pref := if m = 0 then Pref.none else Pref.step m

/-- the root records of the two runs: equal but for the step, which grows by `d` -/
def RootRel (d : Nat) : Node → Node → Prop
  | .leaf i lp, .leaf i' lp' => i' = i ∧ lp' = lp
  | .inner a, .inner b =>
    b.big = a.big ∧ b.labels = a.labels ∧ b.firstChild = a.firstChild ∧
      ∃ ws, a.pref = stepPref ws ∧ b.pref = stepPref (ws + d)
  | _, _ => False

/-- the record lists of the two runs -/
def NodesRel (d : Nat) (l l' : List Node) : Prop :=
  (l = [] ∧ l' = []) ∨ ∃ r r' ns, l = r :: ns ∧ l' = r' :: ns ∧ RootRel d r r'

structure StShift (d : Nat) (st st' : BSt) : Prop where
  isBig : st'.isBig = st.isBig
  bigCnt : st'.bigCnt = st.bigCnt
  leafKeyIdx : st'.leafKeyIdx = st.leafKeyIdx
  queue : ∃ root rest, st.queue.toList = root :: rest ∧
    st'.queue.toList = root :: rest.map (shiftSub d) ∧ root.fb = 0
  nodes : NodesRel d st.nodes.toList st'.nodes.toList

theorem prefOf_filter {opt : Opt} (h : opt.inner = false) (k : List Nat) (fb ws : Nat) :
    prefOf opt k fb ws = stepPref (ws - fb) := by
  unfold prefOf stepPref
  simp [h]

theorem leafPrefOf_filter {opt : Opt} (h : opt.leaf = false) (key : Bytes) (fb : Nat) :
    leafPrefOf opt key fb = none := by
  unfold leafPrefOf
  simp [h]

theorem kidOf_shift (d ws : Nat) (big : Bool) (x : Nat × Nat × Nat) :
    kidOf (ws + d) big x = shiftSub d (kidOf ws big x) := by
  simp only [kidOf, shiftSub, Subset.mk.injEq, true_and]
  omega

/-- one step of the two runs on subsets with the same key range -/
theorem buildStep_shift {d n : Nat} {c c' : BCtx} (hc : CtxShift d n c c') {st st' s1 s1' : BSt}
    (hs : StShift d st st') (o o' : Subset) (hos : o'.s = o.s) (hoe : o'.e = o.e)
    (hlt : o.s < o.e) (hle : o.e ≤ n)
    (h : buildStep c st o = .ok s1) (h' : buildStep c' st' o' = .ok s1') :
    s1'.isBig = s1.isBig ∧ s1'.bigCnt = s1.bigCnt ∧ s1'.leafKeyIdx = s1.leafKeyIdx ∧
    (∃ kids : List _root_.Subset, s1.queue = st.queue ++ kids.toArray ∧
      s1'.queue = st'.queue ++ (kids.map (shiftSub d)).toArray) ∧
    ∃ nd nd', s1.nodes = st.nodes.push nd ∧ s1'.nodes = st'.nodes.push nd' ∧
      (o'.fb = o.fb + d → nd' = nd) ∧ (o'.fb = 0 → o.fb = 0 → RootRel d nd nd') := by
  by_cases hleaf : o.e - o.s = 1
  · have hleaf' : o'.e - o'.s = 1 := by rw [hos, hoe]; exact hleaf
    rw [buildStep_leaf_eq _ _ o hleaf] at h
    rw [buildStep_leaf_eq _ _ o' hleaf'] at h'
    cases h; cases h'
    simp only [leafPrefOf_filter hc.leaf, leafPrefOf_filter hc.leaf', hs.leafKeyIdx, hos]
    refine ⟨hs.isBig, hs.bigCnt, trivial, ⟨[], by simp, by simp⟩, _, _, rfl, rfl, fun _ => rfl,
      fun _ _ => ⟨rfl, rfl⟩⟩
  · have hleaf' : ¬ o'.e - o'.s = 1 := by rw [hos, hoe]; exact hleaf
    have h2 : o.s + 2 ≤ o.e := by omega
    rw [buildStep_inner_eq _ _ o hleaf _ rfl _ rfl] at h
    rw [buildStep_inner_eq _ _ o' hleaf' _ rfl _ rfl] at h'
    rw [hos, hoe, minLcp_shift hc h2 hle, prefCnt_shift hc _ hle, hs.isBig] at h'
    generalize (st.isBig && decide (prefCnt c o.s o.e (minLcp c o.s o.e) > 10)) = goBig at h h'
    have hws : (if goBig = true then minLcp c o.s o.e + d - (minLcp c o.s o.e + d) % 2
        else minLcp c o.s o.e + d)
        = (if goBig = true then minLcp c o.s o.e - minLcp c o.s o.e % 2 else minLcp c o.s o.e) + d := by
      have := hc.even
      split <;> omega
    rw [hws] at h'
    generalize (if goBig = true then minLcp c o.s o.e - minLcp c o.s o.e % 2
      else minLcp c o.s o.e) = ws at h h'
    rw [keyLabel_shift hc, keptLabels_shift hc] at h'
    split at h
    · cases h
    split at h
    · cases h
    split at h'
    · cases h'
    split at h'
    · cases h'
    cases h; cases h'
    simp only [prefOf_filter hc.inner, prefOf_filter hc.inner', hs.bigCnt]
    refine ⟨trivial, trivial, hs.leafKeyIdx, ⟨_, rfl, ?_⟩, _, _, rfl, rfl, ?_, ?_⟩
    · congr 2
      rw [List.map_map]
      apply List.map_congr_left
      intro x _
      exact kidOf_shift d ws goBig x
    · intro hfb
      have hq : st'.queue.size = st.queue.size := by
        obtain ⟨root, rest, h1, h2, _⟩ := hs.queue
        have e1 := congrArg List.length h1
        have e2 := congrArg List.length h2
        simp only [Array.length_toList, List.length_cons, List.length_map] at e1 e2
        omega
      rw [hfb, hq, show ws + d - (o.fb + d) = ws - o.fb by omega]
    · intro hfb' hfb
      have hq : st'.queue.size = st.queue.size := by
        obtain ⟨root, rest, h1, h2, _⟩ := hs.queue
        have e1 := congrArg List.length h1
        have e2 := congrArg List.length h2
        simp only [Array.length_toList, List.length_cons, List.length_map] at e1 e2
        omega
      refine ⟨rfl, rfl, hq, ws, ?_, ?_⟩
      · rw [hfb]; rfl
      · rw [hfb']; rfl

/-- the step keeps the relation; `i` is the index of the subset being processed -/
theorem buildStep_stShift {d n : Nat} {c c' : BCtx} (hc : CtxShift d n c c') {st st' s1 s1' : BSt}
    (hs : StShift d st st') (i : Nat) (hn : st.nodes.size = i) (hn' : st'.nodes.size = i)
    (hi : i < st.queue.size) (hi' : i < st'.queue.size)
    (hlt : st.queue[i].s < st.queue[i].e) (hle : st.queue[i].e ≤ n)
    (h : buildStep c st st.queue[i] = .ok s1) (h' : buildStep c' st' st'.queue[i] = .ok s1') :
    StShift d s1 s1' ∧ s1.nodes.size = i + 1 ∧ s1'.nodes.size = i + 1 := by
  obtain ⟨root, rest, hq, hq', hroot⟩ := hs.queue
  have ho : st.queue[i] = (root :: rest)[i]'(by rw [← hq]; simpa using hi) := by
    simp only [← hq, Array.getElem_toList]
  have ho' : st'.queue[i] = (root :: rest.map (shiftSub d))[i]'(by rw [← hq']; simpa using hi') := by
    simp only [← hq', Array.getElem_toList]
  have hrel : st'.queue[i].s = st.queue[i].s ∧ st'.queue[i].e = st.queue[i].e ∧
      (i = 0 → st'.queue[i].fb = 0 ∧ st.queue[i].fb = 0) ∧
      (0 < i → st'.queue[i].fb = st.queue[i].fb + d) := by
    rw [ho, ho']
    cases i with
    | zero => simp [hroot]
    | succ i => simp [shiftSub]
  obtain ⟨g1, g2, g3, ⟨kids, g4, g5⟩, nd, nd', g6, g7, g8, g9⟩ :=
    buildStep_shift hc hs _ _ hrel.1 hrel.2.1 hlt hle h h'
  refine ⟨⟨g1, g2, g3, ⟨root, rest ++ kids, ?_, ?_, hroot⟩, ?_⟩, ?_, ?_⟩
  · rw [g4, Array.toList_append, hq]; simp
  · rw [g5, Array.toList_append, hq']; simp
  · rw [g6, g7, Array.toList_push, Array.toList_push]
    rcases hs.nodes with ⟨e1, e2⟩ | ⟨r, r', ns, e1, e2, hr⟩
    · have hi0 : i = 0 := by
        rw [← hn]; have := congrArg List.length e1; simpa using this
      obtain ⟨f1, f2⟩ := hrel.2.2.1 hi0
      rw [e1, e2]
      exact Or.inr ⟨nd, nd', [], rfl, rfl, g9 f1 f2⟩
    · have hipos : 0 < i := by
        rw [← hn]; have := congrArg List.length e1; simp at this; omega
      rw [e1, e2, g8 (hrel.2.2.2 hipos)]
      exact Or.inr ⟨r, r', ns ++ [nd], rfl, rfl, hr⟩
  · rw [g6, Array.size_push, hn]
  · rw [g7, Array.size_push, hn']

/-- the two loops stay related; `BInv` of the first run supplies the key ranges -/
theorem buildLoop_shift {keys : List Bytes} {keep : List Bool} {opt : Opt} {d : Nat} {c c' : BCtx}
    (hc : CtxShift d keys.length c c') (hok : CtxOK keys keep opt c) (hasc : strictAsc keys = true)
    (fuel i : Nat) {st st' s1 s1' : BSt} (hs : StShift d st st') (hn' : st'.nodes.size = i)
    (hinv : BInv keys keep opt st i)
    (h : buildLoop c fuel i st = .ok s1) (h' : buildLoop c' fuel i st' = .ok s1') :
    StShift d s1 s1' := by
  have hqsz : st'.queue.size = st.queue.size := by
    obtain ⟨root, rest, h1, h2, _⟩ := hs.queue
    have e1 := congrArg List.length h1
    have e2 := congrArg List.length h2
    simp only [Array.length_toList, List.length_cons, List.length_map] at e1 e2
    omega
  induction fuel generalizing i st st' with
  | zero =>
    simp only [buildLoop] at h h'
    split at h
    · cases h
    split at h'
    · cases h'
    cases h; cases h'; exact hs
  | succ fuel ih =>
    simp only [buildLoop] at h h'
    split at h
    · next hi =>
      have hi' : i < st'.queue.size := by rw [hqsz]; exact hi
      rw [dif_pos hi'] at h'
      split at h
      · next s2 hst =>
        split at h'
        · next s2' hst' =>
          have hsub := hinv.sub i st.queue[i] (Array.getElem?_eq_getElem hi)
          obtain ⟨k1, k2, k3⟩ := buildStep_stShift hc hs i hinv.size hn' hi hi' hsub.lt hsub.le hst hst'
          have hq2 : s2'.queue.size = s2.queue.size := by
            obtain ⟨root, rest, h1, h2, _⟩ := k1.queue
            have e1 := congrArg List.length h1
            have e2 := congrArg List.length h2
            simp only [Array.length_toList, List.length_cons, List.length_map] at e1 e2
            omega
          exact ih (i + 1) k1 k3 (buildStep_inv hok hasc hinv hi hst) h h' hq2
        · cases h'
      · cases h
    · next hi =>
      have hi' : ¬ i < st'.queue.size := by rw [hqsz]; exact hi
      rw [dif_neg hi'] at h'
      cases h; cases h'; exact hs

/-! ### the contexts that `build` constructs -/

theorem mkCtx_shift (keys : List Bytes) (P : Bytes) :
    CtxShift (2 * P.length) keys.length (mkCtx keys none {}) (mkCtx (keys.map (P ++ ·)) none {}) where
  even := by omega
  label ws big t := by
    simp only [keyLabel, mkCtx, toArray_getD, map_nibs_getD]
    rw [List.getD_eq_getElem?_getD, List.getD_eq_getElem?_getD, List.getElem?_map]
    cases keys[t]? with
    | none => simp [nibs, labelAt_nil]
    | some k =>
      simp only [Option.map_some, Option.getD_some, nibs_append]
      rw [← nibs_length P]
      exact labelAt_append_left _ _ _ _
  keep := by simp [mkCtx]
  lcps t ht := by
    simp only [mkCtx, toArray_getD]
    rw [mkLcps_getD _ _ (by simpa using ht), mkLcps_getD _ _ (by simpa using ht),
      map_nibs_getD, map_nibs_getD, map_nibs_getD, map_nibs_getD]
    have h1 : t < keys.length := by omega
    have h2 : t + 1 < keys.length := ht
    simp only [List.getD_eq_getElem?_getD, List.getElem?_map, List.getElem?_eq_getElem h1,
      List.getElem?_eq_getElem h2, Option.map_some, Option.getD_some, nibs_append]
    rw [lcp_append_left, nibs_length]
  inner := rfl
  leaf := rfl
  inner' := rfl
  leaf' := rfl

end SizePrefix

open SizePrefix BuildInv BuildShape in
/-- C17, structural half: the record array of `P ++ K` is the record array of `K` except for the
    root's step, which is `2·|P|` half-bytes longer (filter mode: default options, no values). -/
theorem C17_prefix_same_shape (keys : List Bytes) (P : Bytes) (t t' : Trie1) (hne : keys ≠ [])
    (hb : build keys none {} = .ok t) (hb' : build (keys.map (P ++ ·)) none {} = .ok t') :
    t'.opt = t.opt ∧ t'.bigCnt = t.bigCnt ∧ t'.leafKeyIdx = t.leafKeyIdx ∧ t'.elts = t.elts ∧
    ∃ r r' ns, t.nodes.toList = r :: ns ∧ t'.nodes.toList = r' :: ns ∧
      RootRel (2 * P.length) r r' := by
  have hne' : keys.map (P ++ ·) ≠ [] := by simpa using hne
  obtain ⟨hasc, hv, st, hst, rfl⟩ := build_ok_elim hb hne
  obtain ⟨_, _, st', hst', rfl⟩ := build_ok_elim hb' hne'
  rw [List.length_map] at hst'
  have hn : keys.length ≠ 0 := fun h => hne (List.length_eq_zero_iff.mp h)
  have hs := buildLoop_shift (mkCtx_shift keys P) (mkCtx_ok keys none {}) hasc _ 0
    (st := initSt keys.length) (st' := initSt keys.length)
    ⟨rfl, rfl, rfl, ⟨_, [], rfl, rfl, rfl⟩, Or.inl ⟨rfl, rfl⟩⟩ rfl (binv_init {} hn hv) hst hst'
  have hfin := buildLoop_inv (mkCtx_ok keys none {}) hasc _ _ _ _ (binv_init {} hn hv) hst
  refine ⟨rfl, hs.bigCnt, hs.leafKeyIdx, rfl, ?_⟩
  rcases hs.nodes with ⟨e1, _⟩ | h
  · -- impossible: the loop produced at least the root
    have h1 := hfin.size
    have h2 := hfin.root
    have : st.nodes.size = 0 := by have := congrArg List.length e1; simpa using this
    have h3 : 0 < st.queue.size := (Array.getElem?_eq_some_iff.mp h2).1
    omega
  · exact h
