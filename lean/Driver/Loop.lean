import SlimModel.Basic
import Driver.Trie
import Driver.Idx
import Driver.Wire
import Driver.Enc
import Driver.Arr
import Driver.Leg
/-
  Driver.Loop — the model side of the line protocol (see harness/lp/lp.go).

  One script line in, one answer line out.  A line `<fam>.<op> args…` is dispatched to the
  family `<fam>`; each family is a pure state machine `step : State → List String → State × String`
  over the executable definitions of `SlimModel` (the very definitions the theorems are about).
  Lines starting with `#` are comments and are answered `#`.  Unknown ops are answered `bad-op`
  (never a default value).
-/
namespace Driver

structure DState where
  trie : Trie.State := Trie.init
  idx : Idx.State := Idx.init
  wire : Wire.State := Wire.init
  enc : Enc.State := Enc.init
  arr : Arr.State := Arr.init
  leg : Leg.State := Leg.init

def famOf (tok : String) : String := (tok.splitOn ".").headD ""

def dispatch (st : DState) (line : String) : DState × String :=
  if line.startsWith "#" then (st, "#") else
  let toks := line.splitOn " "
  match famOf (toks.headD "") with
  | "trie" => let (s, a) := Trie.step st.trie toks; ({ st with trie := s }, a)
  | "idx" => let (s, a) := Idx.step st.idx toks; ({ st with idx := s }, a)
  | "wire" => let (s, a) := Wire.step st.wire toks; ({ st with wire := s }, a)
  | "enc" => let (s, a) := Enc.step st.enc toks; ({ st with enc := s }, a)
  | "arr" => let (s, a) := Arr.step st.arr toks; ({ st with arr := s }, a)
  | "leg" => let (s, a) := Leg.step st.leg toks; ({ st with leg := s }, a)
  | _ => (st, "bad-op")

partial def loop (inp out : IO.FS.Stream) (st : DState) : IO Unit := do
  let line ← inp.getLine
  if line.isEmpty then return ()
  let line := if line.endsWith "\n" then (line.dropEnd 1).toString else line
  let (st', ans) := dispatch st line
  out.putStrLn ans
  loop inp out st'

def main : IO Unit := do
  let inp ← IO.getStdin
  let out ← IO.getStdout
  loop inp out {}
  out.flush

end Driver
