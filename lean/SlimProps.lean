import SlimProps.Bridge
