import SlimProofs.TransportRender
import SlimProps.L2
import SlimProps.C12Closed
import SlimProps.C14
import SlimProps.C19
/-
  SlimProps.L2b — bit-level (L2) closed versions of C12, C14 and C19 (continuation of
  `SlimProps.L2`).

  * C12 `C12_get_exact_L2`, `C12_rangeget_exact_L2`: the index reads through the view of its own
        message `Slim.view si.msg` (`si.msg = Slim.encode si.t1` by `Index.new`).
  * C14 `C14_getInt_built`: on the encoding of every trie built with values of width `w`, the
        typed getter `GetIw` (which slices `Leaves.Bytes` directly) returns the two's-complement
        reading of what `Get` returns — the hypothesis `hleaf` of `C14.C14_getInt` discharged.
  * C19 `C19_render_eq_L2` (`String()` of the encoded trie is `String()` of the record array),
        `C19_total_L2`, `C19_each_node_once_L2`, `C19_leaf_lines_L2`.
-/

open Transport

/-! ### C12 -/

open IndexExact Index in
theorem index_view_eq (recs : List Record) (si : SlimIndex) (hnew : Index.new recs = .ok si) :
    Slim.view si.msg = L2view si.t1 := by
  unfold Index.new at hnew
  simp only [bind, Except.bind, pure, Except.pure] at hnew
  split at hnew
  · cases hnew
  · cases hnew; rfl

open IndexExact Index in
/-- **C12 (Get) at L2.**  One offset per key: `SlimIndex.Get` through the bit-level view of the
    index's own message returns the stored record for every indexed key and not found for every
    other string. -/
theorem C12_get_exact_L2 (recs : List Record) (si : SlimIndex) (hnew : Index.new recs = .ok si)
    (hrange : ∀ r ∈ recs, InI64 r.offset) (hadj : AdjDistinct recs) :
    (∀ i (hi : i < recs.length),
      Index.get si (Slim.view si.msg) recs[i].key = .ok (some recs[i].value)) ∧
    (∀ q, (∀ r ∈ recs, r.key ≠ q) → Index.get si (Slim.view si.msg) q = .ok none) := by
  have hb := (new_ok_elim hnew).1
  have heq : ∀ q, Index.get si (Slim.view si.msg) q = Index.get si si.t1.view q := by
    intro q
    unfold Index.get
    rw [index_view_eq recs si hnew, L2_get_eq _ _ _ si.t1 hb]
  simp only [heq]
  exact C12_get_exact_full recs si hnew hrange hadj

open IndexExact Index in
/-- **C12 (RangeGet) at L2.** -/
theorem C12_rangeget_exact_L2 (recs : List Record) (si : SlimIndex)
    (hnew : Index.new recs = .ok si) (hrange : ∀ r ∈ recs, InI64 r.offset) :
    (∀ i (hi : i < recs.length),
      Index.rangeGet si (Slim.view si.msg) recs[i].key = .ok (some recs[i].value)) ∧
    (∀ q, (∀ r ∈ recs, r.key ≠ q) → Index.rangeGet si (Slim.view si.msg) q = .ok none) := by
  have hb := (new_ok_elim hnew).1
  have heq : ∀ q, Index.rangeGet si (Slim.view si.msg) q = Index.rangeGet si si.t1.view q := by
    intro q
    unfold Index.rangeGet
    rw [index_view_eq recs si hnew, L2_rangeGet_eq _ _ _ si.t1 hb]
  simp only [heq]
  exact C12_rangeget_exact_full recs si hnew hrange

/-! ### C14 -/

/-- **C14 on built tries.**  Values all of width `w > 0`: for every key, `GetIw` on the encoded
    trie equals `Get` on the encoded trie followed by the two's-complement reading. -/
theorem C14_getInt_built (keys : List Bytes) (vs : List Bytes) (opt : Opt) (t : Trie1)
    (hb : build keys (some vs) opt = .ok t) (hne : keys ≠ []) (w : Nat) (hw : 0 < w)
    (hwidth : ∀ v ∈ vs, v.length = w) (key : Bytes) :
    Slim.getInt (Slim.encode t) w key
      = (get (L2view t) key).map (fun r => r.map (fun b => Slim.leSigned (b.getD []))) := by
  have hs := build_shape keys (some vs) opt t hb hne
  have hn : t.nodes.size ≠ 0 := by have := hs.nonempty; omega
  have helts := build_elts keys (some vs) opt t hb hne
  simp only [Option.map_some] at helts
  have hvlen : vs.length = keys.length := build_vals_length keys vs opt t hb hne
  have hkept := build_leafKeyIdx_kept keys (some vs) opt t hb hne
  let es := t.leafKeyIdx.toList.map (fun i => vs.getD i [])
  have hes : ∀ e ∈ es, e.length = w := by
    intro e he
    obtain ⟨i, hi, rfl⟩ := List.mem_map.mp he
    have hlt : i < vs.length := by rw [hvlen]; exact (hkept i hi).2
    apply hwidth
    rw [List.getD_eq_getElem?_getD, List.getElem?_eq_getElem hlt]
    exact List.getElem_mem hlt
  have hleaves : (Slim.encode t).leaves = Slim.newVLenArray es := by
    rw [Slim.encode_leaves t hn, helts]
  have htot : eltsTotal es ≠ 0 :=
    IndexExact.eltsTotal_built keys vs opt t hb hne (by
      intro b hb' h0; have := hwidth b hb'; rw [h0] at this; simp at this; omega)
  obtain ⟨_, _, _, _, hv, _⟩ := LookupTotal.built keys (some vs) opt t hb hne
  refine C14.C14_getInt (Slim.encode t) w hw es key hleaves hes ?_
  intro id hid
  have hid1 : getID t.view key = .ok (some id) := by
    rw [← L2_getID_eq keys (some vs) opt t hb key]; exact hid
  obtain ⟨a, ha, hleafid⟩ := getID_total keys (some vs) opt t hb key
  rw [ha] at hid1; cases hid1
  obtain ⟨ith, lp, hnode⟩ := hleafid id rfl
  obtain ⟨hlt, hnd⟩ := Array.getElem?_eq_some_iff.mp hnode
  refine ⟨ith, lp, by rw [getNode_encode t hs id hlt, hnd], ?_⟩
  -- the leaf ordinal is in range: L1 `leafBytes ith` returns normally
  have hvn : t.view.node id = .ok (.leaf ith lp) := by simp [Trie1.view, hnode]
  obtain ⟨val, hval⟩ := hv.leaf_ok id ith lp hvn
  simp only [Trie1.view, helts] at hval
  rw [if_neg htot] at hval
  cases hget : es[ith]? with
  | none =>
    have : (List.map (fun i => vs.getD i []) t.leafKeyIdx.toList)[ith]? = none := hget
    rw [this] at hval; cases hval
  | some b => exact (List.getElem?_eq_some_iff.mp hget).1

/-! ### C19 -/

/-- **C19 at L2**: a freshly encoded trie renders exactly like its record array. -/
theorem C19_render_eq_L2 (keys : List Bytes) (vals : Option (List Bytes)) (opt : Opt) (t : Trie1)
    (hb : build keys vals opt = .ok t) (fmtVal : Option Bytes → String) :
    Slim.toStringSlim (L2view t) fmtVal = Slim.toStringSlim t.view fmtVal := by
  obtain ⟨s, hs⟩ := C19_total keys vals opt t hb fmtVal
  rw [hs]
  exact toStringSlim_le (viewSim_built keys vals opt t hb) fmtVal s hs

theorem C19_total_L2 (keys : List Bytes) (vals : Option (List Bytes)) (opt : Opt) (t : Trie1)
    (hb : build keys vals opt = .ok t) (fmtVal : Option Bytes → String) :
    ∃ s, Slim.toStringSlim (L2view t) fmtVal = .ok s := by
  rw [C19_render_eq_L2 keys vals opt t hb]; exact C19_total keys vals opt t hb fmtVal

open Slim in
theorem C19_each_node_once_L2 (keys : List Bytes) (vals : Option (List Bytes)) (opt : Opt)
    (t : Trie1) (hb : build keys vals opt = .ok t) (hne : keys ≠ [])
    (fmtVal : Option Bytes → String) :
    ∃ lines, toStringSlim (L2view t) fmtVal = .ok ("\n".intercalate lines) ∧
      Forall2 (LineOf t.view fmtVal) lines (renderIds t.view (t.nodes.size + 1) 0) ∧
      lines.length = t.nodes.size ∧
      (renderIds t.view (t.nodes.size + 1) 0).Perm (List.range t.nodes.size) := by
  rw [C19_render_eq_L2 keys vals opt t hb]
  exact C19_each_node_once keys vals opt t hb hne fmtVal

open Slim Render C19 in
theorem C19_leaf_lines_L2 (keys : List Bytes) (vals : Option (List Bytes)) (opt : Opt)
    (t : Trie1) (hb : build keys vals opt = .ok t) (hne : keys ≠ [])
    (fmtVal : Option Bytes → String) :
    ∃ lines, toStringSlim (L2view t) fmtVal = .ok ("\n".intercalate lines) ∧
      Forall2
        (fun line m => ∃ (pre : String) (id : Nat), line = pre ++ ("#" ++ pad3 id ++ "=" ++
          fmtVal (recVal (keepMask keys.length vals opt.dedup) vals m)))
        (leafLinesOf t lines (renderIds t.view (t.nodes.size + 1) 0))
        ((List.range keys.length).filter (keptAt (keepMask keys.length vals opt.dedup))) := by
  rw [C19_render_eq_L2 keys vals opt t hb]
  exact C19_leaf_lines keys vals opt t hb hne fmtVal

/-! ### non-vacuity: the closed theorems instantiated on concrete builds -/
namespace L2b.Ex

/-- C12 at L2 on the block-offset example of `C12.Ex`: key 2 (`b\xe3`) shares offset 0 with
    key 1 and is de-duplicated away, yet `RangeGet` through the bit-level view + the reader
    return its own record -/
example : ∃ si, Index.new C12.Ex.recsBlock = .ok si ∧
    Index.rangeGet si (Slim.view si.msg) [0x62, 0xe3] = .ok (some [3]) := by
  obtain ⟨si, hsi⟩ := C12.Ex.new_ok C12.Ex.recsBlock (by decide +kernel)
  exact ⟨si, hsi, (C12_rangeget_exact_L2 _ si hsi (by decide)).1 2 (by decide)⟩

/-- C14 and C19 at L2 on the 3-key build of `L2.Ex` (values of width 1), every option
    combination -/
example (o : Opt) : ∃ t, build L2.Ex.keys (some L2.Ex.vals) o = .ok t ∧
    (∀ key, Slim.getInt (Slim.encode t) 1 key
      = (get (L2view t) key).map (fun r => r.map (fun b => Slim.leSigned (b.getD [])))) ∧
    ∀ fmt, Slim.toStringSlim (L2view t) fmt = Slim.toStringSlim t.view fmt := by
  obtain ⟨t, ht⟩ := L2.Ex.build_ok o
  refine ⟨t, ht, fun key => ?_, fun fmt => C19_render_eq_L2 _ _ _ t ht fmt⟩
  exact C14_getInt_built L2.Ex.keys L2.Ex.vals o t ht (by simp [L2.Ex.keys]) 1 (by decide)
    (by intro v hv; simp [L2.Ex.vals] at hv; rcases hv with rfl | rfl <;> rfl) key

end L2b.Ex

#print axioms C12_get_exact_L2
#print axioms C12_rangeget_exact_L2
#print axioms C14_getInt_built
#print axioms C19_render_eq_L2
#print axioms C19_total_L2
#print axioms C19_each_node_once_L2
#print axioms C19_leaf_lines_L2
