import Generated.Facts
/-
  SlimProps.Bridge.C20Text — tie 1, TEXTUAL fingerprints of fact group "c20" (advisory: a rewrite of the
  source changes the text although nothing else changes; `check` then notes the stale fingerprint and
  widens the correspondence search instead of reporting a violation; the obligations proper are the
  semantic analyses of SlimProps.Bridge.C20).
-/
namespace Bridge

/-! ### C20: the caller's buffer is only handed to `bytes.NewReader`; options are copied first -/
theorem unmarshalBufUses : Generated.unmarshalBufUses = ["bytes.NewReader(buf)", "bytes.NewReader(buf)"] := rfl
theorem newSlimTrieOptFlow : Generated.newSlimTrieOptFlow =
    ["opt := Opt{}", "opt = opts[0]", "normalizeOpt(&opt)", "ns, err := newSlim(keys, vals, &opt)",
     "newSlim(keys, vals, &opt)"] := rfl

end Bridge
