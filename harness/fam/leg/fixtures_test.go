package leg

import (
	"os"
	"testing"
)

// TestFixturesReproduced regenerates every archived file of trie/testdata from its testkeys data
// set with the reconstructed writers and compares byte for byte.
func TestFixturesReproduced(t *testing.T) {
	repo := repoDir()
	if _, err := os.Stat(repo); err != nil {
		t.Skip("no repository at " + repo)
	}
	rep, total, fails := ValidateFixtures(repo)
	t.Logf("reproduced %d / %d", rep, total)
	for _, f := range fails {
		t.Error(f)
	}
	if total != 97 {
		t.Errorf("expected 97 archived files, found %d", total)
	}
}

// TestWritersLoad: every layout on a small key set with a key that ends at an inner node and
// the empty key: the real loader answers every key.
func TestWritersLoad(t *testing.T) {
	keys := []string{"", "a", "ab", "abc", "abd", "b\xff\xf1", "b\xff\xf2x"}
	vals := I32Vals(len(keys))
	for _, v := range append(append([]string{}, Variants3...), Variants10...) {
		b, err := Write(v, keys, vals)
		if err != nil {
			t.Fatal(v, err)
		}
		if bad := DirectCheck(b, keys, vals, false, nil); bad != "" {
			t.Error(v, bad)
		}
	}
}
