import Generated.Funcs
import SlimProps.BridgeSem.Common
import SlimModel.Query
/-
  SlimProps.BridgeSem.Label — tie 1, semantic part: `getLabelIdxOfKey` (trie/slimtrie_query.go).
  See SlimProps/BridgeSem.lean for the overview.
-/

set_option linter.unusedSimpArgs false

open Generated

namespace BridgeSem

/-! ### `getLabelIdxOfKey` (trie/slimtrie_query.go) -/

theorem nibs_getD (key : Bytes) (i : Nat) :
    (nibs key).getD i 0 =
      if i % 2 = 0 then (key.map UInt8.toNat).getD (i / 2) 0 / 16
      else (key.map UInt8.toNat).getD (i / 2) 0 % 16 := by
  induction key generalizing i with
  | nil => simp [nibs]
  | cons b bs ih =>
    match i with
    | 0 => simp [nibs]
    | 1 => simp [nibs]
    | i + 2 =>
      have e1 : (i + 2) / 2 = i / 2 + 1 := by omega
      have e2 : (i + 2) % 2 = i % 2 := by omega
      simp only [nibs, List.getD_cons_succ, List.map_cons, e1, e2]
      exact ih i

theorem nibs_length' (key : Bytes) : (nibs key).length = 2 * key.length := by
  induction key with
  | nil => rfl
  | cons b bs ih => simp only [nibs, List.length_cons, ih]; omega

theorem getD_map_lt (key : Bytes) (j : Nat) : (key.map UInt8.toNat).getD j 0 < 256 := by
  rw [List.getD_eq_getElem?_getD, List.getElem?_map]
  cases key[j]? with
  | none => simp
  | some b => simpa using byte_lt b

/-- the label index at bit position `4 i` of the Go code is the model's label index at half-byte
    position `i`; `w` is the word size in bits (4, or 8 for big nodes — then `i` must be even:
    8-bit words start at byte boundaries).  Bit positions fit an `int32`. -/
theorem getLabelIdxOfKey_sem (key : Bytes) (i w : Nat) (hw : w = 4 ∨ w = 8)
    (hlen : 8 * key.length < 2 ^ 31) (hi : 4 * i < 2 ^ 31) :
    Generated.getLabelIdxOfKey (4 * i) (key.map UInt8.toNat) (8 * key.length) w
      = ((labelIdxOfKey (nibs key) i (w == 8) : Nat) : Int) := by
  have hb := getD_map_lt key (i / 2)
  have hshift : 4 * i / 2 ^ 3 = i / 2 := by omega
  unfold Generated.getLabelIdxOfKey labelIdxOfKey
  rw [nibs_length']
  simp only [nibs_getD]
  rcases hw with rfl | rfl
  · -- 4-bit words: split on the nibble first, so that a computed shift amount is a literal
    have e4 : 4 * i / 4 % 2 = i % 2 := by omega
    rcases Nat.mod_two_eq_zero_or_one i with hp | hp <;>
    · go_simp
      try simp only [hshift, e4, hp, Nat.zero_mul, Nat.one_mul, Nat.sub_zero, Nat.sub_self, Nat.pow_zero,
        Nat.div_one]
      try go_simp
      generalize (key.map UInt8.toNat).getD (i / 2) 0 = x at hb ⊢
      -- resolve every `if` of both sides; contradictory paths are closed by `omega`
      repeat' split
      all_goals first
        | omega
        | (go_simp <;> omega)
        | (simp at * <;> omega)
  · -- 8-bit words: the byte that contains the position
    have e1 : (i - i % 2) / 2 = i / 2 := by omega
    have e2 : (i - i % 2 + 1) / 2 = i / 2 := by omega
    have e3 : (i - i % 2) % 2 = 0 := by omega
    have e4 : ¬ (i - i % 2 + 1) % 2 = 0 := by omega
    go_simp
    simp only [hshift, e1, e2, e3, e4, if_true, if_false]
    generalize (key.map UInt8.toNat).getD (i / 2) 0 = x at hb ⊢
    repeat' split
    all_goals first
      | omega
      | (go_simp <;> omega)
      | (simp at * <;> omega)

end BridgeSem

#print axioms BridgeSem.getLabelIdxOfKey_sem
