import SlimProofs.SearchDescent
import SlimProofs.BuildKept
/-
  SlimProps.C09 — `Search` on an indexed (retained) key returns its exact neighbours in every mode.

  `C09_search_retained`: for every successful `build` (any option combination, with or without
  values, with or without de-duplication) and every retained key `k = keys[m]`,
  `Search(k)` returns
    * as the exact match the value of record `m`,
    * on the left the value of the nearest retained record below `m` (`prevKept`), nil if none,
    * on the right the value of the nearest retained record above `m` (`nextKept`), nil if none.
  "Value of record i" (`valOf`) is what `getLeaf` yields: nil when no values were supplied or when
  all retained values are empty (`newVLenArray` returns nil then), else the encoded value `vals[i]`.

  The filter modes (`inner = false`: only step lengths are stored, `leaf = false`: no leaf tails)
  are covered: the theorem quantifies over `opt`.

  `C09_search_retained_R`: the same statement over the retained list `R = retained keys vals dedup`
  of SlimModel.Spec: `Search(R[i].key) = (val R[i-1] | nil, val R[i], val R[i+1] | nil)`.

  Proof: `build_wf` (SlimProofs.BuildInv) + `searchID_kept` (SlimProofs.SearchDescent, which uses
  `rightMost_spec`/`leftMost_spec` of SlimProofs.Subtree) + `build_elts`/`build_leafKeyIdx_kept`
  for the values.
-/

open Subtree SearchDescent

/-! ### the specification side -/

/-- greatest kept index below `m` -/
def prevKept (keep : List Bool) : Nat → Option Nat
  | 0 => none
  | m + 1 => if keptAt keep m then some m else prevKept keep m

/-- smallest kept index in `[s, s + d)` -/
def firstKeptFrom (keep : List Bool) : Nat → Nat → Option Nat
  | 0, _ => none
  | d + 1, s => if keptAt keep s then some s else firstKeptFrom keep d (s + 1)

/-- smallest kept index above `m` -/
def nextKept (keep : List Bool) (m : Nat) : Option Nat :=
  firstKeptFrom keep (keep.length - (m + 1)) (m + 1)

/-- the value `Search` reports for record `i`: nil (`none`) when no values were supplied or when
    every retained value is empty (then the trie stores no leaf array at all), else `vals[i]` -/
def recVal (keep : List Bool) (vals : Option (List Bytes)) (i : Nat) : Option Bytes :=
  match vals with
  | none => none
  | some vs => if eltsTotal (filterMask vs keep) = 0 then none else some (vs.getD i [])

/-- a component of the result of `Search`: `none` = nil interface (no such record) -/
def valOf (keep : List Bool) (vals : Option (List Bytes)) : Option Nat → Option (Option Bytes)
  | none => none
  | some i => some (recVal keep vals i)

/-! the recursive definitions mean what they should -/

theorem prevKept_eq_none {keep : List Bool} {m : Nat} :
    prevKept keep m = none ↔ ∀ t, t < m → keptAt keep t = false := by
  induction m with
  | zero => simp [prevKept]
  | succ m ih =>
    unfold prevKept
    cases h : keptAt keep m with
    | true =>
      simp only [if_true]
      constructor
      · intro h'; cases h'
      · intro h'; rw [h' m (by omega)] at h; cases h
    | false =>
      simp only [Bool.false_eq_true, if_false, ih]
      constructor
      · intro h' t ht
        by_cases htm : t = m
        · rw [htm]; exact h
        · exact h' t (by omega)
      · intro h' t ht; exact h' t (by omega)

theorem prevKept_eq_some {keep : List Bool} {m p : Nat} :
    prevKept keep m = some p ↔ IsMaxKept keep 0 m p := by
  induction m with
  | zero =>
    simp only [prevKept, IsMaxKept]
    constructor
    · intro h; cases h
    · intro h; omega
  | succ m ih =>
    unfold prevKept
    cases h : keptAt keep m with
    | true =>
      simp only [if_true, Option.some.injEq]
      constructor
      · rintro rfl
        exact ⟨Nat.zero_le _, by omega, h, by intro t h1 h2; omega⟩
      · rintro ⟨_, h2, h3, h4⟩
        by_cases hpm : m = p
        · exact hpm
        · rw [h4 m (by omega) (by omega)] at h; cases h
    | false =>
      simp only [Bool.false_eq_true, if_false, ih]
      constructor
      · rintro ⟨h1, h2, h3, h4⟩
        refine ⟨h1, by omega, h3, ?_⟩
        intro t h5 h6
        by_cases htm : t = m
        · rw [htm]; exact h
        · exact h4 t h5 (by omega)
      · rintro ⟨h1, h2, h3, h4⟩
        have : p ≠ m := by intro hpm; rw [hpm, h] at h3; cases h3
        exact ⟨h1, by omega, h3, fun t h5 h6 => h4 t h5 (by omega)⟩

theorem firstKeptFrom_eq_none {keep : List Bool} {d s : Nat} :
    firstKeptFrom keep d s = none ↔ ∀ t, s ≤ t → t < s + d → keptAt keep t = false := by
  induction d generalizing s with
  | zero => simp only [firstKeptFrom, true_iff]; intro t h1 h2; omega
  | succ d ih =>
    unfold firstKeptFrom
    cases h : keptAt keep s with
    | true =>
      simp only [if_true]
      constructor
      · intro h'; cases h'
      · intro h'; rw [h' s (by omega) (by omega)] at h; cases h
    | false =>
      simp only [Bool.false_eq_true, if_false, ih]
      constructor
      · intro h' t h1 h2
        by_cases hts : t = s
        · rw [hts]; exact h
        · exact h' t (by omega) (by omega)
      · intro h' t h1 h2; exact h' t (by omega) (by omega)

theorem firstKeptFrom_eq_some {keep : List Bool} {d s p : Nat} :
    firstKeptFrom keep d s = some p ↔ IsMinKept keep s (s + d) p := by
  induction d generalizing s with
  | zero =>
    simp only [firstKeptFrom, IsMinKept]
    constructor
    · intro h; cases h
    · intro h; omega
  | succ d ih =>
    unfold firstKeptFrom
    cases h : keptAt keep s with
    | true =>
      simp only [if_true, Option.some.injEq]
      constructor
      · rintro rfl
        exact ⟨Nat.le_refl _, by omega, h, by intro t h1 h2; omega⟩
      · rintro ⟨h1, h2, h3, h4⟩
        by_cases hps : s = p
        · exact hps
        · rw [h4 s (by omega) (by omega)] at h; cases h
    | false =>
      simp only [Bool.false_eq_true, if_false, ih]
      constructor
      · rintro ⟨h1, h2, h3, h4⟩
        refine ⟨by omega, by omega, h3, ?_⟩
        intro t h5 h6
        by_cases hts : t = s
        · rw [hts]; exact h
        · exact h4 t (by omega) h6
      · rintro ⟨h1, h2, h3, h4⟩
        have : p ≠ s := by intro hps; rw [hps, h] at h3; cases h3
        exact ⟨by omega, by omega, h3, fun t h5 h6 => h4 t (by omega) h6⟩

/-- `nextKept keep m = none` iff no index above `m` is kept -/
theorem nextKept_eq_none {keep : List Bool} {m : Nat} :
    nextKept keep m = none ↔ ∀ t, m < t → keptAt keep t = false := by
  unfold nextKept
  rw [firstKeptFrom_eq_none]
  constructor
  · intro h t ht
    by_cases hl : t < keep.length
    · exact h t ht (by omega)
    · unfold keptAt
      rw [List.getD_eq_getElem?_getD, List.getElem?_eq_none (by omega)]
      rfl
  · intro h t h1 _; exact h t h1

/-- `nextKept keep m = some p` iff `p` is the smallest kept index above `m` -/
theorem nextKept_eq_some {keep : List Bool} {m p : Nat} :
    nextKept keep m = some p ↔
      (m < p ∧ keptAt keep p = true ∧ ∀ t, m < t → t < p → keptAt keep t = false) := by
  unfold nextKept
  rw [firstKeptFrom_eq_some]
  constructor
  · rintro ⟨h1, h2, h3, h4⟩
    exact ⟨h1, h3, fun t h5 h6 => h4 t h5 h6⟩
  · rintro ⟨h1, h2, h3⟩
    have hl : p < keep.length := by
      by_cases hl : p < keep.length
      · exact hl
      · unfold keptAt at h2
        rw [List.getD_eq_getElem?_getD, List.getElem?_eq_none (by omega)] at h2
        cases h2
    exact ⟨h1, by omega, h2, fun t h5 h6 => h3 t h5 h6⟩

/-! ### the stored values -/

namespace C09

theorem eltsTotal_eq_zero_iff (l : List Bytes) : eltsTotal l = 0 ↔ ∀ b ∈ l, b = [] := by
  unfold eltsTotal
  induction l with
  | nil => simp
  | cons a as ih =>
    simp only [List.map_cons, List.sum_cons, List.mem_cons, forall_eq_or_imp]
    rw [← ih, ← List.length_eq_zero_iff]
    omega

theorem mem_filterMask {α : Type} (as : List α) (bs : List Bool) (b : α) :
    b ∈ filterMask as bs ↔ ∃ i, as[i]? = some b ∧ bs.getD i false = true := by
  induction as generalizing bs with
  | nil => simp [filterMask]
  | cons a as ih =>
    cases bs with
    | nil => simp [filterMask]
    | cons c cs =>
      simp only [filterMask]
      constructor
      · intro h
        cases c with
        | true =>
          simp only [if_true, List.mem_cons] at h
          rcases h with rfl | h
          · exact ⟨0, by simp⟩
          · obtain ⟨i, h1, h2⟩ := (ih cs).mp h
            exact ⟨i + 1, by simpa using h1, by simpa using h2⟩
        | false =>
          simp only [Bool.false_eq_true, if_false] at h
          obtain ⟨i, h1, h2⟩ := (ih cs).mp h
          exact ⟨i + 1, by simpa using h1, by simpa using h2⟩
      · rintro ⟨i, h1, h2⟩
        cases i with
        | zero =>
          simp only [List.getElem?_cons_zero, Option.some.injEq, List.getD_cons_zero] at h1 h2
          subst h1 h2
          simp
        | succ i =>
          simp only [List.getElem?_cons_succ, List.getD_cons_succ] at h1 h2
          have := (ih cs).mpr ⟨i, h1, h2⟩
          cases c <;> simp [this]

/-- `getLeaf` on the leaf of record `i` -/
theorem getLeaf_leaf (t : Trie1) (vals : Option (List Bytes)) (keep : List Bool) (id i : Nat)
    (hleaf : IsLeafOf t id i)
    (helts : t.elts = vals.map (fun vs => t.leafKeyIdx.toList.map (fun i => vs.getD i [])))
    (hz : ∀ vs, vals = some vs →
      (eltsTotal (t.leafKeyIdx.toList.map (fun i => vs.getD i [])) = 0 ↔
        eltsTotal (filterMask vs keep) = 0)) :
    getLeaf t.view id = .ok (recVal keep vals i) := by
  obtain ⟨ith, lp, hnd, hidx⟩ := hleaf
  have hnode : t.view.node id = .ok (.leaf ith lp) := by
    show (match t.nodes[id]? with
      | some n => Except.ok n
      | none => Except.error (Err.panic "node id out of range")) = _
    rw [hnd]
  unfold getLeaf
  rw [hnode]
  show t.view.leafBytes ith = _
  show (match t.elts with
    | none => Except.ok none
    | some es =>
      if eltsTotal es = 0 then Except.ok none else
      match es[ith]? with
      | some b => Except.ok (some b)
      | none => Except.error (Err.panic "out of bound")) = _
  rw [helts]
  cases vals with
  | none => rfl
  | some vs =>
    simp only [Option.map_some, recVal]
    by_cases h0 : eltsTotal (filterMask vs keep) = 0
    · rw [if_pos ((hz vs rfl).mpr h0), if_pos h0]
    · rw [if_neg (fun h => h0 ((hz vs rfl).mp h)), if_neg h0]
      have : (t.leafKeyIdx.toList.map (fun i => vs.getD i []))[ith]? = some (vs.getD i []) := by
        rw [List.getElem?_map, Array.getElem?_toList, hidx]; rfl
      rw [this]

theorem keepMaskVals_length (p : Option Bytes) (vs : List Bytes) :
    (keepMaskVals p vs).length = vs.length := by
  induction vs generalizing p with
  | nil => cases p <;> rfl
  | cons v vs ih => cases p <;> simp [keepMaskVals, ih]

theorem keepMask_length (n : Nat) (vals : Option (List Bytes)) (dedup : Bool)
    (hv : ∀ vs, vals = some vs → vs.length = n) : (keepMask n vals dedup).length = n := by
  unfold keepMask
  cases vals with
  | none => simp
  | some vs =>
    cases dedup with
    | true => simp [keepMaskVals_length, hv vs rfl]
    | false => simp

/-- the per-component tail of `Search` -/
def leafOpt (v : View) (o : Option Nat) : Except Err (Option (Option Bytes)) :=
  match o with
  | none => pure none
  | some id => do pure (some (← getLeaf v id))

theorem search_of_searchID (v : View) (key : Bytes) (l e r : Option Nat)
    (a b c : Option (Option Bytes))
    (h : searchID v key = .ok (l, e, r)) (ha : leafOpt v l = .ok a) (hb : leafOpt v e = .ok b)
    (hc : leafOpt v r = .ok c) : search v key = .ok (a, b, c) := by
  unfold search
  rw [h]
  show (leafOpt v l >>= fun a => leafOpt v e >>= fun b => leafOpt v r >>= fun c =>
    pure (a, b, c)) = _
  rw [ha, hb, hc]
  rfl

theorem leafOpt_some (v : View) (id : Nat) (x : Option Bytes) (h : getLeaf v id = .ok x) :
    leafOpt v (some id) = .ok (some x) := by
  show (getLeaf v id >>= fun y => pure (some y)) = _
  rw [h]; rfl

end C09

/-- in a built trie `getLeaf` on the leaf of record `i` yields `recVal … i`
    (used by C09, C02 and C03) -/
theorem C09.getLeaf_of_build (keys : List Bytes) (vals : Option (List Bytes)) (opt : Opt)
    (t : Trie1) (hb : build keys vals opt = .ok t) (hne : keys ≠ []) (id i : Nat)
    (hleaf : IsLeafOf t id i) :
    getLeaf t.view id = .ok (recVal (keepMask keys.length vals opt.dedup) vals i) := by
  generalize hkeep : keepMask keys.length vals opt.dedup = keep
  have hwf : WF keys keep t := by rw [← hkeep]; exact (build_wf keys vals opt t hb hne).1
  have hasc := build_strictAsc keys vals opt t hb hne
  have helts := build_elts keys vals opt t hb hne
  have hlk := build_leafKeyIdx_kept keys vals opt t hb hne
  rw [hkeep] at hlk
  -- every kept key has a leaf
  have hleafOf : ∀ i, i < keys.length → keptAt keep i = true → ∃ id, IsLeafOf t id i := by
    intro i hi hki
    obtain ⟨_, id, _, _, h, _⟩ := searchID_kept keys keep t hasc hwf i hi hki
    exact ⟨id, h⟩
  -- the stored leaf array is nil iff all retained values are empty
  have hz : ∀ vs, vals = some vs →
      (eltsTotal (t.leafKeyIdx.toList.map (fun i => vs.getD i [])) = 0 ↔
        eltsTotal (filterMask vs keep) = 0) := by
    intro vs hvs
    subst hvs
    have hlen := build_vals_length keys vs opt t hb hne
    rw [C09.eltsTotal_eq_zero_iff, C09.eltsTotal_eq_zero_iff]
    constructor
    · intro h b hbm
      obtain ⟨i, h1, h2⟩ := (C09.mem_filterMask vs keep b).mp hbm
      have hi : i < vs.length := (List.getElem?_eq_some_iff.mp h1).1
      obtain ⟨id, ith, lp, _, hidx⟩ := hleafOf i (by omega) h2
      have hmem : i ∈ t.leafKeyIdx.toList := by
        rw [← Array.getElem?_toList] at hidx
        exact List.mem_of_getElem? hidx
      have := h _ (List.mem_map_of_mem (f := fun i => vs.getD i []) hmem)
      rw [List.getD_eq_getElem?_getD, h1] at this
      exact this
    · intro h b hbm
      obtain ⟨x, hx, rfl⟩ := List.mem_map.mp hbm
      obtain ⟨hkx, hxn⟩ := hlk x hx
      apply h
      rw [C09.mem_filterMask]
      refine ⟨x, ?_, hkx⟩
      rw [List.getD_eq_getElem?_getD, List.getElem?_eq_getElem (by omega)]
      rfl
  exact C09.getLeaf_leaf t vals keep id i hleaf helts hz

/-! ### the property -/

/-- **C09.**  `Search` on a retained key returns the values of the key itself and of its nearest
    retained neighbours (nil beyond either end), for every option combination. -/
theorem C09_search_retained (keys : List Bytes) (vals : Option (List Bytes)) (opt : Opt)
    (t : Trie1) (hb : build keys vals opt = .ok t) (hne : keys ≠ [])
    (m : Nat) (hm : m < keys.length)
    (hk : keptAt (keepMask keys.length vals opt.dedup) m = true) :
    search t.view (keys.getD m []) =
      .ok (valOf (keepMask keys.length vals opt.dedup) vals
             (prevKept (keepMask keys.length vals opt.dedup) m),
           valOf (keepMask keys.length vals opt.dedup) vals (some m),
           valOf (keepMask keys.length vals opt.dedup) vals
             (nextKept (keepMask keys.length vals opt.dedup) m)) := by
  have hget := C09.getLeaf_of_build keys vals opt t hb hne
  generalize hkeep : keepMask keys.length vals opt.dedup = keep at hk hget ⊢
  have hwf : WF keys keep t := by rw [← hkeep]; exact (build_wf keys vals opt t hb hne).1
  have hasc := build_strictAsc keys vals opt t hb hne
  obtain ⟨l, id, r, hsid, hleaf, hlres, hrres⟩ := searchID_kept keys keep t hasc hwf m hm hk
  refine C09.search_of_searchID _ _ l (some id) r _ _ _ hsid ?_ ?_ ?_
  · -- left neighbour
    cases l with
    | none =>
      rw [prevKept_eq_none.mpr hlres]; rfl
    | some idl =>
      obtain ⟨ml, hl1, hl2⟩ := hlres
      rw [prevKept_eq_some.mpr hl2]
      exact C09.leafOpt_some _ _ _ (hget idl ml hl1)
  · exact C09.leafOpt_some _ _ _ (hget id m hleaf)
  · -- right neighbour
    have hklen : keep.length ≤ keys.length := by
      rw [← hkeep, C09.keepMask_length _ _ _ (build_pre keys vals opt t hb hne).2.1]
      exact Nat.le_refl _
    cases r with
    | none =>
      have : nextKept keep m = none := by
        rw [nextKept_eq_none]
        intro t' ht'
        by_cases hl : t' < keys.length
        · exact hrres t' ht' hl
        · unfold keptAt
          rw [List.getD_eq_getElem?_getD, List.getElem?_eq_none (by omega)]
          rfl
      rw [this]; rfl
    | some idr =>
      obtain ⟨mr, hr1, hr2, hr3, hr4, hr5⟩ := hrres
      have : nextKept keep m = some mr := by
        rw [nextKept_eq_some]
        exact ⟨by omega, hr4, fun t' h1 h2 => hr5 t' (by omega) h2⟩
      rw [this]
      exact C09.leafOpt_some _ _ _ (hget idr mr hr1)

/-! ### the same statement over the retained list `R(kv, o)` of SlimModel.Spec

  `Search(R[i].key) = (val R[i-1] | nil, val R[i], val R[i+1] | nil)` -/

/-- the value `Search` reports for an entry of the retained list `R`: the entry's value, except
    that it is nil when every value of `R` is empty (or none were supplied) -/
def shownVal (R : List Entry) : Option Entry → Option (Option Bytes)
  | none => none
  | some e => some (if eltsTotal (R.map (fun e => e.2.getD [])) = 0 then none else e.2)

namespace C09

/-- the record with index `j` as an entry -/
def entryAt (keys : List Bytes) (vals : Option (List Bytes)) (j : Nat) : Entry :=
  (keys.getD j [], vals.map (fun vs => vs.getD j []))

/-- the kept indexes below `n`, ascending -/
def keptIdx (keep : List Bool) (n : Nat) : List Nat := (List.range n).filter (keptAt keep)

theorem filterMask_eq {α : Type} (l : List α) (bs : List Bool) (d : α) :
    filterMask l bs =
      ((List.range l.length).filter (fun j => bs.getD j false)).map (fun j => l.getD j d) := by
  induction l generalizing bs with
  | nil => simp [filterMask]
  | cons a as ih =>
    cases bs with
    | nil => simp [filterMask]
    | cons b bs =>
      have h1 : ((fun j => (a :: as).getD j d) ∘ Nat.succ) = fun j => as.getD j d := by
        funext j; simp
      have h2 : ((fun j => (b :: bs).getD j false) ∘ Nat.succ) = fun j => bs.getD j false := by
        funext j; simp
      have hf : ((List.range as.length).map Nat.succ).filter (fun j => (b :: bs).getD j false)
          = ((List.range as.length).filter (fun j => bs.getD j false)).map Nat.succ := by
        rw [List.filter_map, h2]
      rw [List.length_cons, List.range_succ_eq_map, List.filter_cons, hf]
      cases b with
      | false =>
        rw [if_neg (by simp), List.map_map, h1]
        simp only [filterMask, Bool.false_eq_true, if_false]
        exact ih bs
      | true =>
        rw [if_pos (by simp), List.map_cons, List.map_map, h1]
        simp only [filterMask, if_true, List.getD_cons_zero]
        rw [ih bs]

theorem filterMask_map {α β : Type} (f : α → β) (l : List α) (bs : List Bool) :
    filterMask (l.map f) bs = (filterMask l bs).map f := by
  induction l generalizing bs with
  | nil => simp [filterMask]
  | cons a as ih =>
    cases bs with
    | nil => simp [filterMask]
    | cons b bs => cases b <;> simp [filterMask, ih]

theorem entries_eq (keys : List Bytes) (vals : Option (List Bytes))
    (hv : ∀ vs, vals = some vs → vs.length = keys.length) :
    entries keys vals = (List.range keys.length).map (entryAt keys vals) := by
  cases vals with
  | none =>
    apply List.ext_getElem
    · simp [entries]
    · intro i h1 h2
      simp [entries, entryAt, List.getD_eq_getElem?_getD] at h1 ⊢
      rw [List.getElem?_eq_getElem h1]; rfl
  | some vs =>
    have hlen := hv vs rfl
    apply List.ext_getElem
    · simp [entries, hlen]
    · intro i h1 h2
      simp [entries, hlen] at h1
      simp [entries, entryAt, List.getD_eq_getElem?_getD]
      rw [List.getElem?_eq_getElem h1, List.getElem?_eq_getElem (by omega)]
      simp

theorem retained_eq (keys : List Bytes) (vals : Option (List Bytes)) (dedup : Bool)
    (hv : ∀ vs, vals = some vs → vs.length = keys.length) :
    retained keys vals dedup =
      (keptIdx (keepMask keys.length vals dedup) keys.length).map (entryAt keys vals) := by
  unfold retained keptIdx
  rw [entries_eq keys vals hv, filterMask_map, filterMask_eq (List.range keys.length) _ 0]
  congr 1
  rw [List.length_range]
  conv => rhs; rw [← List.map_id (List.filter _ _)]
  apply List.map_congr_left
  intro j hj
  have : j < keys.length := List.mem_range.mp (List.mem_filter.mp hj).1
  simp [List.getD_eq_getElem?_getD, this]

theorem mem_keptIdx {keep : List Bool} {n t : Nat} :
    t ∈ keptIdx keep n ↔ t < n ∧ keptAt keep t = true := by
  simp [keptIdx]

theorem keptIdx_asc (keep : List Bool) (n : Nat) : (keptIdx keep n).Pairwise (· < ·) :=
  List.Pairwise.filter _ List.pairwise_lt_range

/-- no kept index lies strictly between two consecutive entries of `keptIdx`, before the first
    or behind the last -/
theorem keptIdx_between {keep : List Bool} {n : Nat} (hkl : keep.length ≤ n) {t : Nat}
    (ht : keptAt keep t = true) : ∃ j, ∃ hj : j < (keptIdx keep n).length, (keptIdx keep n)[j] = t := by
  have htn : t < n := by
    by_cases h : t < n
    · exact h
    · unfold keptAt at ht
      rw [List.getD_eq_getElem?_getD, List.getElem?_eq_none (by omega)] at ht
      cases ht
  obtain ⟨j, hj, h⟩ := List.mem_iff_getElem.mp (mem_keptIdx.mpr ⟨htn, ht⟩)
  exact ⟨j, hj, h⟩

theorem prevKept_keptIdx {keep : List Bool} {n : Nat} (hkl : keep.length ≤ n) (i : Nat)
    (hi : i < (keptIdx keep n).length) :
    prevKept keep (keptIdx keep n)[i] = if i = 0 then none else (keptIdx keep n)[i - 1]? := by
  have hasc := keptIdx_asc keep n
  by_cases h0 : i = 0
  · rw [if_pos h0, prevKept_eq_none]
    intro t ht
    cases hkt : keptAt keep t with
    | false => rfl
    | true =>
      exfalso
      obtain ⟨j, hj, rfl⟩ := keptIdx_between hkl hkt
      have := asc_idx_le hasc hj hi (Nat.le_of_lt ht)
      have hji : j = i := by omega
      subst hji
      omega
  · rw [if_neg h0, List.getElem?_eq_getElem (by omega), prevKept_eq_some]
    have hlt := asc_lt hasc (a := i - 1) (b := i) (by omega) hi (by omega)
    have hk1 := (mem_keptIdx.mp (List.getElem_mem (l := keptIdx keep n) (n := i - 1) (by omega))).2
    refine ⟨Nat.zero_le _, hlt, hk1, ?_⟩
    intro t h1 h2
    cases hkt : keptAt keep t with
    | false => rfl
    | true =>
      exfalso
      obtain ⟨j, hj, rfl⟩ := keptIdx_between hkl hkt
      have a1 := asc_idx_le hasc (a := i - 1) (b := j) (by omega) hj (Nat.le_of_lt h1)
      have a2 := asc_idx_le hasc hj hi (Nat.le_of_lt h2)
      by_cases hji : j = i
      · subst hji; omega
      · have hji : j = i - 1 := by omega
        subst hji; omega

theorem nextKept_keptIdx {keep : List Bool} {n : Nat} (hkl : keep.length ≤ n) (i : Nat)
    (hi : i < (keptIdx keep n).length) :
    nextKept keep (keptIdx keep n)[i] = (keptIdx keep n)[i + 1]? := by
  have hasc := keptIdx_asc keep n
  by_cases h0 : i + 1 < (keptIdx keep n).length
  · rw [List.getElem?_eq_getElem h0, nextKept_eq_some]
    have hlt := asc_lt hasc hi h0 (by omega)
    have hk1 := (mem_keptIdx.mp (List.getElem_mem (l := keptIdx keep n) (n := i + 1) h0)).2
    refine ⟨hlt, hk1, ?_⟩
    intro t h1 h2
    cases hkt : keptAt keep t with
    | false => rfl
    | true =>
      exfalso
      obtain ⟨j, hj, rfl⟩ := keptIdx_between hkl hkt
      have a1 := asc_idx_le hasc hi hj (Nat.le_of_lt h1)
      have a2 := asc_idx_le hasc hj h0 (Nat.le_of_lt h2)
      by_cases hji : j = i
      · subst hji; omega
      · have hji : j = i + 1 := by omega
        subst hji; omega
  · rw [List.getElem?_eq_none (by omega), nextKept_eq_none]
    intro t ht
    cases hkt : keptAt keep t with
    | false => rfl
    | true =>
      exfalso
      obtain ⟨j, hj, rfl⟩ := keptIdx_between hkl hkt
      have := asc_idx_le hasc hj hi
      have a1 := asc_idx_le hasc hi hj (Nat.le_of_lt ht)
      have hji : j = i := by omega
      subst hji; omega

end C09

/-- `shownVal` on the entry of record `j` is `valOf` on `j` -/
theorem C09.shownVal_entryAt (keys : List Bytes) (vals : Option (List Bytes)) (keep : List Bool)
    (hv : ∀ vs, vals = some vs → vs.length = keys.length) (o : Option Nat) :
    shownVal ((C09.keptIdx keep keys.length).map (C09.entryAt keys vals))
      (o.map (C09.entryAt keys vals)) = valOf keep vals o := by
  cases o with
  | none => rfl
  | some j =>
    simp only [Option.map_some, shownVal, valOf, recVal]
    cases vals with
    | none => simp [C09.entryAt]
    | some vs =>
      have hlen := hv vs rfl
      have : ((C09.keptIdx keep keys.length).map (C09.entryAt keys (some vs))).map
          (fun e => e.2.getD []) = filterMask vs keep := by
        rw [C09.filterMask_eq vs keep [], hlen, List.map_map]
        rfl
      rw [this]
      rfl

/-- **C09, over the retained list.**  For the `i`-th entry `e` of the retained list
    `R = retained keys vals opt.dedup`, `Search(e.key)` returns
    (value of `R[i-1]` or nil, value of `e`, value of `R[i+1]` or nil). -/
theorem C09_search_retained_R (keys : List Bytes) (vals : Option (List Bytes)) (opt : Opt)
    (t : Trie1) (hb : build keys vals opt = .ok t) (hne : keys ≠ [])
    (i : Nat) (e : Entry) (hi : (retained keys vals opt.dedup)[i]? = some e) :
    search t.view e.1 =
      .ok (shownVal (retained keys vals opt.dedup)
             (if i = 0 then none else (retained keys vals opt.dedup)[i - 1]?),
           shownVal (retained keys vals opt.dedup) (some e),
           shownVal (retained keys vals opt.dedup) (retained keys vals opt.dedup)[i + 1]?) := by
  have hv := (build_pre keys vals opt t hb hne).2.1
  have hklen : (keepMask keys.length vals opt.dedup).length ≤ keys.length := by
    rw [C09.keepMask_length _ _ _ hv]; exact Nat.le_refl _
  rw [C09.retained_eq keys vals opt.dedup hv] at hi ⊢
  generalize hkeep : keepMask keys.length vals opt.dedup = keep at hi hklen ⊢
  rw [List.getElem?_map, Option.map_eq_some_iff] at hi
  obtain ⟨m, hm, rfl⟩ := hi
  obtain ⟨hiK, hmK⟩ := List.getElem?_eq_some_iff.mp hm
  obtain ⟨hmn, hmk⟩ := C09.mem_keptIdx.mp (hmK ▸ List.getElem_mem hiK)
  have main := C09_search_retained keys vals opt t hb hne m hmn (by rw [hkeep]; exact hmk)
  rw [hkeep] at main
  show search t.view (keys.getD m []) = _
  rw [main]
  have hprev := C09.prevKept_keptIdx hklen i hiK
  have hnext := C09.nextKept_keptIdx hklen i hiK
  rw [hmK] at hprev hnext
  rw [hprev, hnext]
  rw [← C09.shownVal_entryAt keys vals keep hv, ← C09.shownVal_entryAt keys vals keep hv,
    ← C09.shownVal_entryAt keys vals keep hv]
  rw [List.getElem?_map, List.getElem?_map]
  by_cases h0 : i = 0
  · simp only [h0, if_true]; rfl
  · simp only [h0, if_false]; rfl

/-! ### non-vacuity -/

/-- five keys, one a prefix of the next two ("a", "ab", "abc", "b", "bcd"); adjacent duplicate
    values, so de-duplication drops records 1 and 4 -/
def C09.exKeys : List Bytes :=
  [[0x61], [0x61, 0x62], [0x61, 0x62, 0x63], [0x62], [0x62, 0x63, 0x64]]
def C09.exVals : List Bytes := [[1], [1], [2], [3], [3]]

/-- the hypotheses of `C09_search_retained` are satisfiable (default options: de-duplication on,
    filter mode), record 2 ("abc") is retained, its neighbours are records 0 and 3 -/
example : ∃ t, build C09.exKeys (some C09.exVals) {} = .ok t ∧ C09.exKeys ≠ [] ∧
    2 < C09.exKeys.length ∧
    keptAt (keepMask C09.exKeys.length (some C09.exVals) ({} : Opt).dedup) 2 = true ∧
    keepMask C09.exKeys.length (some C09.exVals) ({} : Opt).dedup = [true, false, true, true, false] ∧
    prevKept (keepMask C09.exKeys.length (some C09.exVals) ({} : Opt).dedup) 2 = some 0 ∧
    nextKept (keepMask C09.exKeys.length (some C09.exVals) ({} : Opt).dedup) 2 = some 3 ∧
    search t.view (C09.exKeys.getD 2 []) = .ok (some (some [1]), some (some [2]), some (some [3])) := by
  have h : (build C09.exKeys (some C09.exVals) {}).toBool = true := by decide +kernel
  match hb : build C09.exKeys (some C09.exVals) {} with
  | .ok t =>
    refine ⟨t, rfl, by decide, by decide, by decide +kernel, by decide +kernel, by decide +kernel,
      by decide +kernel, ?_⟩
    rw [C09_search_retained _ _ _ t hb (by decide) 2 (by decide) (by decide +kernel)]
    refine congrArg Except.ok ?_
    decide +kernel
  | .error e => rw [hb] at h; cases h

/-- the retained list of the example, and the hypothesis of `C09_search_retained_R` for `i = 1` -/
example : retained C09.exKeys (some C09.exVals) ({} : Opt).dedup =
      [([0x61], some [1]), ([0x61, 0x62, 0x63], some [2]), ([0x62], some [3])] ∧
    (retained C09.exKeys (some C09.exVals) ({} : Opt).dedup)[1]? =
      some ([0x61, 0x62, 0x63], some [2]) := by
  decide +kernel

/-- the same input is accepted in the other modes, too (complete mode without de-duplication,
    and no values at all): every record is retained there -/
example : (build C09.exKeys (some C09.exVals) { dedup := false, inner := true, leaf := true }).toBool
      = true ∧
    (build C09.exKeys none { inner := true }).toBool = true ∧
    keptAt (keepMask C09.exKeys.length (some C09.exVals) false) 1 = true ∧
    keptAt (keepMask C09.exKeys.length none true) 4 = true := by
  decide +kernel

#print axioms C09_search_retained
#print axioms C09_search_retained_R
