import SlimProofs.WireField
/-
  SlimProofs.WireStep — the field loop consumes what each field writer emits (including nothing,
  when proto3 omits the field), and what the unknown-field normal form describes.
-/
namespace Wire

variable {α : Type} (h : α → Nat → WVal → Except Err (Option α)) (u : α → Bytes → α)

theorem decodeMsg_encVarintF (acc acc' : α) {fno v : Nat} (hf : FnoOK fno) (hv : v < 2 ^ 64) (rest : Bytes)
    (hh : v ≠ 0 → h acc fno (.varint v) = .ok (some acc')) (h0 : v = 0 → acc' = acc) :
    decodeMsg h u acc (encVarintF fno v ++ rest) = decodeMsg h u acc' rest := by
  unfold encVarintF
  by_cases hz : v = 0
  · simp [hz, h0 hz]
  · simp only [hz, if_false]
    exact decodeMsg_varintF h u acc acc' hf hv rest (hh hz)

theorem decodeMsg_encPackedF (acc acc' : α) {fno : Nat} (hf : FnoOK fno) (l : List Nat)
    (hl : (packedPayload l).length < 2 ^ 64) (rest : Bytes)
    (hh : l ≠ [] → h acc fno (.bytes (packedPayload l)) = .ok (some acc')) (h0 : l = [] → acc' = acc) :
    decodeMsg h u acc (encPackedF fno l ++ rest) = decodeMsg h u acc' rest := by
  unfold encPackedF
  by_cases hz : l = []
  · simp [hz, h0 hz]
  · simp only [hz, if_false]
    exact decodeMsg_lenDelim h u acc acc' hf _ hl rest (hh hz)

theorem decodeMsg_encBytesF (acc acc' : α) {fno : Nat} (hf : FnoOK fno) (b : Bytes)
    (hl : b.length < 2 ^ 64) (rest : Bytes)
    (hh : b ≠ [] → h acc fno (.bytes b) = .ok (some acc')) (h0 : b = [] → acc' = acc) :
    decodeMsg h u acc (encBytesF fno b ++ rest) = decodeMsg h u acc' rest := by
  unfold encBytesF
  by_cases hz : b = []
  · simp [hz, h0 hz]
  · simp only [hz, if_false]
    exact decodeMsg_lenDelim h u acc acc' hf _ hl rest (hh hz)

theorem decodeMsg_encMsgF (acc acc' : α) {fno : Nat} (hf : FnoOK fno) (o : Option Bytes)
    (hl : ∀ p, o = some p → p.length < 2 ^ 64) (rest : Bytes)
    (hh : ∀ p, o = some p → h acc fno (.bytes p) = .ok (some acc')) (h0 : o = none → acc' = acc) :
    decodeMsg h u acc (encMsgF fno o ++ rest) = decodeMsg h u acc' rest := by
  cases o with
  | none => simp [encMsgF, h0 rfl]
  | some p =>
    simp only [encMsgF]
    exact decodeMsg_lenDelim h u acc acc' hf _ (hl p rfl) rest (hh p rfl)

/-! payload lengths are bounded by the encoded field -/

theorem encPackedF_payload_le (fno : Nat) (l : List Nat) :
    (packedPayload l).length ≤ (encPackedF fno l).length := by
  unfold encPackedF
  split
  · next hz => simp [hz, packedPayload]
  · simp; omega

theorem encBytesF_payload_le (fno : Nat) (b : Bytes) : b.length ≤ (encBytesF fno b).length := by
  unfold encBytesF
  split
  · next hz => simp [hz]
  · simp; omega

theorem encMsgF_payload_le (fno : Nat) (p : Bytes) : p.length ≤ (encMsgF fno (some p)).length := by
  simp [encMsgF]; omega

/-! ### unknown fields -/

/-- The value `readField` hands over fits the wire type of the key. -/
def Fits (wire : Nat) (v : WVal) : Prop :=
  (wire = 0 ∧ ∃ w, v = .varint w) ∨ (wire = 2 ∧ ∃ p, v = .bytes p) ∨ (wire ≠ 0 ∧ wire ≠ 2 ∧ v = .other)

theorem readValue_fits {wire : Nat} {b : Bytes} {v : WVal} {k : Nat}
    (hr : readValue wire b = .ok (v, k)) : Fits wire v := by
  unfold readValue at hr
  split at hr
  · split at hr
    · simp at hr
    · simp only [Except.ok.injEq, Prod.mk.injEq] at hr
      exact Or.inl ⟨rfl, _, hr.1.symm⟩
  · split at hr
    · simp at hr
    · simp only [Except.ok.injEq, Prod.mk.injEq] at hr
      exact Or.inr (Or.inr ⟨by omega, by omega, hr.1.symm⟩)
  · split at hr
    · simp at hr
    · split at hr
      · simp at hr
      · simp only [Except.ok.injEq, Prod.mk.injEq] at hr
        exact Or.inr (Or.inl ⟨rfl, _, hr.1.symm⟩)
  · split at hr
    · simp at hr
    · simp only [Except.ok.injEq, Prod.mk.injEq] at hr
      exact Or.inr (Or.inr ⟨by omega, by omega, hr.1.symm⟩)
  · split at hr
    · simp at hr
    · simp only [Except.ok.injEq, Prod.mk.injEq] at hr
      exact Or.inr (Or.inr ⟨by omega, by omega, hr.1.symm⟩)
  · simp at hr

/-- Anatomy of a successful `readField`. -/
theorem readField_ok {bs : Bytes} {x : Nat} {v : WVal} {raw : Bytes} {n : Nat}
    (hr : readField bs = .ok (x, v, raw, n)) :
    ∃ nt k, decodeVarint bs = some (x, nt) ∧ n = nt + k ∧ raw = (bs.drop nt).take k ∧ Fits (x % 8) v := by
  unfold readField at hr
  split at hr
  · simp at hr
  · next x' nt hd =>
    split at hr
    · simp at hr
    · split at hr
      · simp at hr
      · next v' k hv =>
        simp only [Except.ok.injEq, Prod.mk.injEq] at hr
        obtain ⟨rfl, rfl, rfl, rfl⟩ := hr
        exact ⟨nt, k, hd, rfl, rfl, readValue_fits hv⟩

/-- If the canonical encoding of `x` is a prefix of `bs`, the key varint read from `bs` is it. -/
theorem decodeVarint_canonical {bs : Bytes} {x nt : Nat} (hd : decodeVarint bs = some (x, nt))
    (hc : (varint x == bs.take (varint x).length) = true) : nt = (varint x).length ∧ bs.take nt = varint x := by
  have hx := (decodeVarint_spec hd).1
  have hpre : varint x = bs.take (varint x).length := by simpa using hc
  have hbs : bs = varint x ++ bs.drop (varint x).length := by
    conv => lhs; rw [← List.take_append_drop (varint x).length bs]
    rw [← hpre]
  have h2 := decodeVarint_varint hx (bs.drop (varint x).length)
  rw [← hbs, hd] at h2
  simp only [Option.some.injEq, Prod.mk.injEq, true_and] at h2
  exact ⟨h2, by rw [h2]; exact hpre.symm⟩

/-- The decoder moves a normal-form unknown-field string verbatim into the unknown-field store.
    `hunk`: the typed unmarshalers decline every (number, wire type) outside `known`;
    `put`/`get`: the store is an append-only byte string. -/
theorem decodeMsg_unknownOnly (known : Nat → Nat → Bool)
    (hunk : ∀ acc fno wire v, known fno wire = false → Fits wire v → h acc fno v = .ok none)
    (app : α → Bytes → α) (happ : ∀ acc r, u acc r = app acc r)
    (happ_nil : ∀ acc, app acc [] = acc) (happ_app : ∀ acc a b, app (app acc a) b = app acc (a ++ b)) :
    ∀ (n : Nat) (bs : Bytes) (acc : α), bs.length ≤ n → unknownOnly known bs = true →
      decodeMsg h u acc bs = .ok (app acc bs) := by
  intro n
  induction n with
  | zero =>
    intro bs acc hlen _
    have : bs = [] := List.eq_nil_of_length_eq_zero (by omega)
    subst this
    rw [decodeMsg_nil, happ_nil]
  | succ n ih =>
    intro bs acc hlen hunkO
    cases bs with
    | nil => rw [decodeMsg_nil, happ_nil]
    | cons b bs' =>
      rw [unknownOnly] at hunkO
      rw [decodeMsg]
      cases hr : readField (b :: bs') with
      | error e => simp [hr] at hunkO
      | ok r =>
        obtain ⟨x, v, raw, m⟩ := r
        simp only [hr, Bool.and_eq_true, Bool.not_eq_true'] at hunkO
        obtain ⟨⟨hk, hcanon⟩, hrest⟩ := hunkO
        obtain ⟨nt, k, hd, hm, hraw, hfits⟩ := readField_ok hr
        obtain ⟨hnt, htake⟩ := decodeVarint_canonical hd hcanon
        have hnt1 := (decodeVarint_spec hd).2.1
        simp only [hunk acc (x / 8) (x % 8) v hk hfits]
        have hdrop : bs'.drop (m - 1) = (b :: bs').drop m := by
          have : m = (m - 1) + 1 := by omega
          conv => rhs; rw [this, List.drop_succ_cons]
        have hlen' : (bs'.drop (m - 1)).length ≤ n := by
          simp [List.length_drop] at hlen ⊢; omega
        rw [ih _ _ hlen' hrest, happ, happ_app, hdrop]
        congr 2
        rw [hraw, ← htake, hm]
        rw [List.append_assoc]
        have : List.take k (List.drop nt (b :: bs')) ++ List.drop (nt + k) (b :: bs') = List.drop nt (b :: bs') := by
          rw [← List.drop_drop, List.take_append_drop]
        rw [this, List.take_append_drop]

end Wire
