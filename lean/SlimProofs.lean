import SlimProofs.WF
import SlimProofs.Order
import SlimProofs.Runs
import SlimProofs.BuildInv
import SlimProofs.Shape
