import Generated.Facts
/-
  SlimProps.Bridge.Index — tie 1, fact group "index" of lean/Generated/Facts.lean (regenerated from /repo's
  working tree by harness/cmd/extract on every run).  One module per fact group: when the extractor
  cannot find a group's facts, or a fact changed, only this module stops compiling and only the
  properties that rely on it report the broken tie.
-/
namespace Bridge

/-! ### package index (`Index.get` / `Index.rangeGet` / `Index.new`) -/
theorem indexGetCalls : Generated.indexGetCalls = ["si.SlimTrie.Get", "si.DataReader.Read"] := rfl
theorem indexRangeGetCalls : Generated.indexRangeGetCalls = ["si.SlimTrie.RangeGet", "si.DataReader.Read"] := rfl
theorem indexNewSlimTrieArgs : Generated.indexNewSlimTrieArgs = ["encode.I64{}", "keys", "offsets"] := rfl


end Bridge
