import SlimModel.Encode
/-
  SlimProofs.Encode — helper lemmas for property C15 (package encode).
-/
namespace Encode

/-! ### little/big endian byte strings -/

theorem leBytes_length (w n : Nat) : (leBytes w n).length = w := by
  induction w generalizing n with
  | zero => rfl
  | succ w ih => simp [leBytes, ih]

theorem beBytes_length (w n : Nat) : (beBytes w n).length = w := by
  simp [beBytes, leBytes_length]

theorem leVal_leBytes (w n : Nat) : leVal (leBytes w n) = n % 2 ^ (8 * w) := by
  induction w generalizing n with
  | zero => simp [leBytes, leVal, Nat.mod_one]
  | succ w ih =>
    simp only [leBytes, leVal, ih, UInt8.toNat_ofNat']
    have h256 : (2 : Nat) ^ (8 * (w + 1)) = 256 * 2 ^ (8 * w) := by
      rw [Nat.mul_add, Nat.pow_add]; simp [Nat.mul_comm]
    rw [h256, Nat.mod_mul]
    simp

theorem beVal_beBytes (w n : Nat) : beVal (beBytes w n) = n % 2 ^ (8 * w) := by
  simp [beVal, beBytes, leVal_leBytes]

theorem leVal_leBytes_of_lt {w n : Nat} (h : n < 2 ^ (8 * w)) : leVal (leBytes w n) = n := by
  rw [leVal_leBytes, Nat.mod_eq_of_lt h]

theorem intBytes_length (bo : BO) (w n : Nat) : (intBytes bo w n).length = w := by
  cases bo <;> simp [intBytes, leBytes_length, beBytes_length]

theorem intVal_intBytes (bo : BO) (w n : Nat) : intVal bo (intBytes bo w n) = n % 2 ^ (8 * w) := by
  cases bo <;> simp [intBytes, intVal, leVal_leBytes, beVal_beBytes]

/-! ### two's complement -/

theorem toU_lt (w : Nat) (v : Int) : toU w v < 2 ^ (8 * w) := by
  unfold toU
  have hpos : (0 : Int) < (2 : Int) ^ (8 * w) := Int.pow_pos (by decide)
  have h1 := Int.emod_lt_of_pos v hpos
  have h0 := Int.emod_nonneg v (Int.ne_of_gt hpos)
  have : ((v % (2 : Int) ^ (8 * w)).toNat : Int) < ((2 ^ (8 * w) : Nat) : Int) := by
    rw [Int.toNat_of_nonneg h0]; simpa using h1
  exact Int.ofNat_lt.mp this

/-- `2^(8w) = 2 * 2^(8w-1)` for `w ≥ 1`, over `Int`. -/
theorem two_pow_split {w : Nat} (hw : 1 ≤ w) : (2 : Int) ^ (8 * w) = 2 * (2 : Int) ^ (8 * w - 1) := by
  have : 8 * w = (8 * w - 1) + 1 := by omega
  rw [this, Int.pow_succ]; simp; omega

theorem toS_toU {w : Nat} (hw : 1 ≤ w) {v : Int} (hv : InS w v) : toS w (toU w v) = v := by
  obtain ⟨hlo, hhi⟩ := hv
  have hsplit := two_pow_split hw
  have hHpos : (0 : Int) < (2 : Int) ^ (8 * w - 1) := Int.pow_pos (by decide)
  have hcast : (((2 : Nat) ^ (8 * w) : Nat) : Int) = (2 : Int) ^ (8 * w) := by simp
  unfold toS toU
  by_cases hneg : 0 ≤ v
  · have hm : v % (2 : Int) ^ (8 * w) = v := Int.emod_eq_of_lt hneg (by omega)
    rw [hm]
    have hnat : ((v.toNat : Nat) : Int) = v := Int.toNat_of_nonneg hneg
    have : 2 * v.toNat < 2 ^ (8 * w) := by
      apply Int.ofNat_lt.mp
      rw [hcast]; push_cast; omega
    rw [if_pos this]; exact hnat
  · have hm : v % (2 : Int) ^ (8 * w) = v + (2 : Int) ^ (8 * w) := by
      rw [← Int.add_emod_right v ((2 : Int) ^ (8 * w))]
      exact Int.emod_eq_of_lt (by omega) (by omega)
    rw [hm]
    have hnn : 0 ≤ v + (2 : Int) ^ (8 * w) := by omega
    have hnat : (((v + (2 : Int) ^ (8 * w)).toNat : Nat) : Int) = v + (2 : Int) ^ (8 * w) :=
      Int.toNat_of_nonneg hnn
    have : ¬ 2 * (v + (2 : Int) ^ (8 * w)).toNat < 2 ^ (8 * w) := by
      intro hlt
      have := Int.ofNat_lt.mpr hlt
      rw [hcast] at this; push_cast at this; omega
    rw [if_neg this, hnat]; omega

theorem toU_of_nonneg {w : Nat} {v : Int} (h0 : 0 ≤ v) (h1 : v < (2 : Int) ^ (8 * w)) :
    toU w v = v.toNat := by
  unfold toU; rw [Int.emod_eq_of_lt h0 h1]

/-- `toU w v` is the residue of `v` modulo `2^(8w)`: the two's complement bit pattern. -/
theorem toU_spec (w : Nat) (v : Int) : ((toU w v : Nat) : Int) = v % (2 : Int) ^ (8 * w) := by
  unfold toU
  exact Int.toNat_of_nonneg (Int.emod_nonneg v (Int.ne_of_gt (Int.pow_pos (by decide))))

/-! ### fixed-width integer codecs -/

theorem decodeU_encodeU {w v : Nat} (hv : InU w v) (tail : Bytes) :
    decodeU w (encodeU w v ++ tail) = .ok (w, v) := by
  unfold decodeU encodeU
  have hl := leBytes_length w v
  rw [if_neg (by simp [hl]), List.take_left' hl, leVal_leBytes_of_lt hv]

theorem decodeS_encodeS {w : Nat} (hw : 1 ≤ w) {v : Int} (hv : InS w v) (tail : Bytes) :
    decodeS w (encodeS w v ++ tail) = .ok (w, v) := by
  unfold decodeS encodeS
  have hl := leBytes_length w (toU w v)
  rw [if_neg (by simp [hl]), List.take_left' hl, leVal_leBytes_of_lt (toU_lt w v), toS_toU hw hv]

/-! ### String16, Bytes -/

theorem beBytes_two (n : Nat) :
    beBytes 2 n = [UInt8.ofNat (n / 256 % 256), UInt8.ofNat (n % 256)] := by
  simp [beBytes, leBytes]

theorem string16Encode_eq (s : Bytes) : string16Encode s = beBytes 2 s.length ++ s := by
  simp [string16Encode, beBytes_two]

theorem string16Len_encode {s : Bytes} (h : s.length < 2 ^ 16) (tail : Bytes) :
    string16Len (string16Encode s ++ tail) = .ok s.length := by
  simp only [string16Encode, List.cons_append, string16Len, UInt8.toNat_ofNat']
  congr 1
  omega

/-- byte `i` of the `w`-byte little-endian string of `n` is `⌊n / 256^i⌋ mod 256`. -/
theorem leBytes_getElem (w n i : Nat) (h : i < (leBytes w n).length) :
    (leBytes w n)[i] = UInt8.ofNat (n / 256 ^ i % 256) := by
  induction w generalizing n i with
  | zero => simp [leBytes] at h
  | succ w ih =>
    cases i with
    | zero => simp [leBytes]
    | succ i =>
      simp only [leBytes, List.getElem_cons_succ]
      rw [ih]
      rw [Nat.pow_succ, Nat.mul_comm, Nat.div_div_eq_div_mul]

/-! ### the C15 statement for one encoder -/

/-- `c` round-trips every value of the domain `D`, in front of any tail, and its three size
    functions agree with the length of the encoding. -/
def Codec.RoundTrips {α : Type} (c : Codec α) (D : α → Prop) : Prop :=
  ∀ v, D v → ∀ tail : Bytes, ∃ e : Bytes,
    c.encode v = .ok e ∧
    c.decode (e ++ tail) = .ok (e.length, v) ∧
    c.getSize v = .ok e.length ∧
    c.getEncodedSize (e ++ tail) = .ok e.length

theorem uintCodec_roundTrips (w : Nat) : (uintCodec w).RoundTrips (InU w) := by
  intro v hv tail
  refine ⟨encodeU w v, rfl, ?_, ?_, ?_⟩
  · have := decodeU_encodeU hv tail
    simpa [uintCodec, encodeU, leBytes_length] using this
  · simp [uintCodec, encodeU, leBytes_length]
  · simp [uintCodec, encodeU, leBytes_length]

theorem sintCodec_roundTrips {w : Nat} (hw : 1 ≤ w) : (sintCodec w).RoundTrips (InS w) := by
  intro v hv tail
  refine ⟨encodeS w v, rfl, ?_, ?_, ?_⟩
  · have := decodeS_encodeS hw hv tail
    simpa [sintCodec, encodeS, leBytes_length] using this
  · simp [sintCodec, encodeS, leBytes_length]
  · simp [sintCodec, encodeS, leBytes_length]

theorem string16_roundTrips : String16.RoundTrips (fun s => s.length < 2 ^ 16) := by
  intro s hs tail
  refine ⟨string16Encode s, rfl, ?_, ?_, ?_⟩
  · simp only [String16, string16Len_encode hs tail, bind, Except.bind]
    have hl : (string16Encode s ++ tail).length = 2 + s.length + tail.length := by
      simp [string16Encode]; omega
    rw [if_neg (by omega)]
    simp [string16Encode]; omega
  · simp [String16, string16Encode]; omega
  · simp only [String16, string16Len_encode hs tail, bind, Except.bind]
    simp [string16Encode]; omega

theorem bytesEnc_roundTrips (n : Nat) : (BytesEnc n).RoundTrips (fun b => b.length = n) := by
  intro b hb tail
  refine ⟨b, rfl, ?_, ?_, ?_⟩
  · simp only [BytesEnc]
    rw [if_neg (by simp [hb]), List.take_left' hb, hb]
  · simp [BytesEnc, hb]
  · simp [BytesEnc, hb]

theorem dummy_roundTrips : Dummy.RoundTrips (fun v => v = Val.nil) := by
  intro v hv tail
  subst hv
  exact ⟨[], rfl, rfl, rfl, rfl⟩

/-! ### TypeEncoder: round trip by structural induction over the type universe -/

theorem encRep_spec (f : Val → Except Err Bytes) (g : Bytes → Except Err (Val × Bytes)) (sz : Nat)
    (vs : List Val)
    (ih : ∀ v ∈ vs, ∀ tail, ∃ e, f v = .ok e ∧ e.length = sz ∧ g (e ++ tail) = .ok (v, tail)) :
    ∀ n, vs.length = n → ∀ tail, ∃ e, encRep f n vs = .ok e ∧ e.length = n * sz ∧
      decRep g n (e ++ tail) = .ok (vs, tail) := by
  induction vs with
  | nil =>
    intro n hn tail; subst hn
    exact ⟨[], by simp [encRep, decRep]⟩
  | cons v vs ihvs =>
    intro n hn tail; subst hn
    obtain ⟨e2, h2a, h2b, h2c⟩ := ihvs (fun x hx => ih x (List.mem_cons_of_mem _ hx)) vs.length rfl tail
    obtain ⟨e1, h1a, h1b, h1c⟩ := ih v (List.mem_cons_self ..) (e2 ++ tail)
    refine ⟨e1 ++ e2, ?_, ?_, ?_⟩
    · simp [encRep, h1a, h2a, bind, Except.bind, pure, Except.pure]
    · simp [h1b, h2b, Nat.add_mul]; omega
    · simp [decRep, List.append_assoc, h1c, h2c, bind, Except.bind, pure, Except.pure]

mutual
theorem tyRT (bo : BO) : ∀ (t : Ty) (v : Val), InDom t v → ∀ tail : Bytes,
    ∃ e, tyEncode bo t v = .ok e ∧ e.length = t.size ∧ tyDecode bo t (e ++ tail) = .ok (v, tail)
  | .prim s w, v, h, tail => by
    cases h with
    | unsigned h0 h1 =>
      refine ⟨_, rfl, by simp [intBytes_length, Ty.size], ?_⟩
      simp only [tyDecode]
      have hl := intBytes_length bo w (toU w ‹Int›)
      rw [if_neg (by simp [hl]), List.take_left' hl, List.drop_left' hl, intVal_intBytes,
        Nat.mod_eq_of_lt (toU_lt _ _), toU_of_nonneg h0 h1]
      simp [Int.toNat_of_nonneg h0]
    | signed hw hv =>
      refine ⟨_, rfl, by simp [intBytes_length, Ty.size], ?_⟩
      simp only [tyDecode]
      have hl := intBytes_length bo w (toU w ‹Int›)
      rw [if_neg (by simp [hl]), List.take_left' hl, List.drop_left' hl, intVal_intBytes,
        Nat.mod_eq_of_lt (toU_lt _ _), toS_toU hw hv]
      simp
  | .array n t, v, h, tail => by
    cases h with
    | array hlen hall =>
      rename_i vs
      obtain ⟨e, h1, h2, h3⟩ := encRep_spec (tyEncode bo t) (tyDecode bo t) t.size vs
        (fun x hx tl => tyRT bo t x (hall x hx) tl) n hlen tail
      exact ⟨e, by simpa [tyEncode] using h1, by simpa [Ty.size] using h2,
        by simp [tyDecode, h3, bind, Except.bind, pure, Except.pure]⟩
  | .struct fs, v, h, tail => by
    cases v with
    | seq vs =>
      obtain ⟨e, h1, h2, h3⟩ := tyRTFields bo fs vs h tail
      exact ⟨e, by simpa [tyEncode] using h1, by simpa [Ty.size] using h2,
        by simp [tyDecode, h3, bind, Except.bind, pure, Except.pure]⟩
    | _ => cases h
theorem tyRTFields (bo : BO) : ∀ (fs : List Ty) (vs : List Val), InDom (.struct fs) (.seq vs) →
    ∀ tail : Bytes, ∃ e, tyEncodeFields bo fs vs = .ok e ∧ e.length = sizeFields fs ∧
      tyDecodeFields bo fs (e ++ tail) = .ok (vs, tail)
  | [], vs, h, tail => by
    cases h
    exact ⟨[], by simp [tyEncodeFields, tyDecodeFields, sizeFields]⟩
  | t :: ts, vs, h, tail => by
    cases h with
    | structCons hv hrest =>
      rename_i v vs'
      obtain ⟨e2, h2a, h2b, h2c⟩ := tyRTFields bo ts vs' hrest tail
      obtain ⟨e1, h1a, h1b, h1c⟩ := tyRT bo t v hv (e2 ++ tail)
      refine ⟨e1 ++ e2, ?_, ?_, ?_⟩
      · simp [tyEncodeFields, h1a, h2a, bind, Except.bind, pure, Except.pure]
      · simp [sizeFields, h1b, h2b]
      · simp [tyDecodeFields, List.append_assoc, h1c, h2c, bind, Except.bind, pure, Except.pure]
end

theorem te_roundTrips (bo : BO) (t : Ty) : (TE bo t).RoundTrips (InDom t) := by
  intro v hv tail
  obtain ⟨e, h1, h2, h3⟩ := tyRT bo t v hv []
  refine ⟨e, h1, ?_, ?_, ?_⟩
  · simp only [TE]
    rw [if_neg (by simp [h2]), List.take_left' h2]
    simp only [List.append_nil] at h3
    simp [h3, h2, bind, Except.bind, pure, Except.pure]
  · simp [TE, h2]
  · simp [TE, h2]

end Encode
