import Generated.Funcs
import SlimProps.BridgeSem.Common
import SlimModel.Encode
/-
  SlimProps.BridgeSem.EncSizes — tie 1, semantic part: package encode: `GetSize` / `GetEncodedSize` of the fixed-width integer encoders.
  See SlimProps/BridgeSem.lean for the overview.
-/

open Generated

namespace BridgeSem

/-! ### package encode: `GetSize` / `GetEncodedSize` of the fixed-width integer encoders -/

/-- the size literals of encode/int.go, encode/int8.go -/
theorem encSizes_sem :
    [Generated.encSizeI8, Generated.encEncodedSizeI8, Generated.encSizeI16, Generated.encEncodedSizeI16,
     Generated.encSizeI32, Generated.encEncodedSizeI32, Generated.encSizeI64, Generated.encEncodedSizeI64,
     Generated.encSizeU16, Generated.encEncodedSizeU16, Generated.encSizeU32, Generated.encEncodedSizeU32,
     Generated.encSizeU64, Generated.encEncodedSizeU64]
      = [1, 1, 2, 2, 4, 4, 8, 8, 2, 2, 4, 4, 8, 8] := by decide

/-- … are the sizes of the model's codecs (SlimModel/Encode.lean) -/
theorem encSizes_model (v : Int) (n : Nat) (b : Bytes) :
    Encode.I8.getSize v = .ok Generated.encSizeI8.toNat ∧
    Encode.I8.getEncodedSize b = .ok Generated.encEncodedSizeI8.toNat ∧
    Encode.I16.getSize v = .ok Generated.encSizeI16.toNat ∧
    Encode.I16.getEncodedSize b = .ok Generated.encEncodedSizeI16.toNat ∧
    Encode.I32.getSize v = .ok Generated.encSizeI32.toNat ∧
    Encode.I32.getEncodedSize b = .ok Generated.encEncodedSizeI32.toNat ∧
    Encode.I64.getSize v = .ok Generated.encSizeI64.toNat ∧
    Encode.I64.getEncodedSize b = .ok Generated.encEncodedSizeI64.toNat ∧
    Encode.U16.getSize n = .ok Generated.encSizeU16.toNat ∧
    Encode.U16.getEncodedSize b = .ok Generated.encEncodedSizeU16.toNat ∧
    Encode.U32.getSize n = .ok Generated.encSizeU32.toNat ∧
    Encode.U32.getEncodedSize b = .ok Generated.encEncodedSizeU32.toNat ∧
    Encode.U64.getSize n = .ok Generated.encSizeU64.toNat ∧
    Encode.U64.getEncodedSize b = .ok Generated.encEncodedSizeU64.toNat := by
  have h := encSizes_sem
  simp only [List.cons.injEq, and_true] at h
  obtain ⟨h1, h2, h3, h4, h5, h6, h7, h8, h9, h10, h11, h12, h13, h14⟩ := h
  rw [h1, h2, h3, h4, h5, h6, h7, h8, h9, h10, h11, h12, h13, h14]
  exact ⟨rfl, rfl, rfl, rfl, rfl, rfl, rfl, rfl, rfl, rfl, rfl, rfl, rfl, rfl⟩

end BridgeSem

#print axioms BridgeSem.encSizes_sem
#print axioms BridgeSem.encSizes_model
