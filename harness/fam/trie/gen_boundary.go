package trie

import (
	"fmt"
	"math/bits"
	"sort"

	proto "github.com/golang/protobuf/proto"
	slim "github.com/openacid/slim/trie"

	"slimverif/harness/gen"
	"slimverif/harness/lp"
)

// innersShape inspects a built trie: total bit length of the label bitmaps and
// the kind of the last inner node (b = 257-bit, n = 17-bit, s = short).
func InnersShape(st *slim.SlimTrie) (bitsLen int, last byte, ok bool) {
	bitsLen, last, _, ok = InnersShape2(st)
	return
}

// InnersShape2 also reports whether the very last bit of the label bitmaps is set (the last inner node has
// its highest label: half-byte 0xf, byte 0xff, or the top bit of a short code).
func InnersShape2(st *slim.SlimTrie) (bitsLen int, last byte, lastBit bool, ok bool) {
	buf, err := st.Marshal()
	if err != nil || len(buf) < 32 {
		return
	}
	m := &slim.Slim{}
	if proto.Unmarshal(buf[32:], m) != nil || m.NodeTypeBM == nil {
		return
	}
	inner, short := 0, 0
	for _, w := range m.NodeTypeBM.Words {
		inner += bits.OnesCount64(w)
	}
	lastShort := false
	if m.ShortBM != nil {
		for _, w := range m.ShortBM.Words {
			short += bits.OnesCount64(w)
		}
		if inner > 0 {
			i := inner - 1
			if i>>6 < len(m.ShortBM.Words) && m.ShortBM.Words[i>>6]>>(uint(i)&63)&1 == 1 {
				lastShort = true
			}
		}
	}
	big := int(m.BigInnerCnt)
	bitsLen = 257*big + 17*(inner-big-short) + int(m.ShortSize)*short
	last = 'n'
	if lastShort {
		last = 's'
	} else if inner > 0 && inner <= big {
		last = 'b'
	}
	if m.Inners != nil && bitsLen > 0 && (bitsLen-1)>>6 < len(m.Inners.Words) {
		lastBit = m.Inners.Words[(bitsLen-1)>>6]>>(uint(bitsLen-1)&63)&1 == 1
	}
	return bitsLen, last, lastBit, inner > 0
}

// boundaryCases searches growing prefixes of regular key lists for tries whose
// label bitmaps end exactly on a 64-bit word boundary (and a few that end one
// bit before / after), with each kind of last node, and hands them to `each`
// after emitting the build op.  The search itself calls the real builder
// directly; only the selected cases go into the script.
func boundaryCases(c *lp.Ctx, budget int, each func(cs *Case)) {
	boundaryCasesF(c, budget, func() string { return randFlags(c.Rng) }, each)
}

func boundaryCasesF(c *lp.Ctx, budget int, flagsFn func() string, each func(cs *Case)) {
	found := map[string]int{}
	tries := 0
	for (found["0s"]+found["0n"]+found["0b"] < budget || found["0nT"]+found["0bT"] < 2) && tries < 40*budget {
		tries++
		var ks gen.KeySet
		switch c.Rng.Intn(5) {
		case 4:
			// many half-bytes 0xf and bytes 0xff: the last inner node often has its highest label
			m := map[string]struct{}{}
			al := []byte{0x6e, 0x6f, 0xff, 0x0f, 0x6d}
			for len(m) < 200 {
				b := make([]byte, 1+c.Rng.Intn(5))
				for i := range b {
					b[i] = al[c.Rng.Intn(len(al))]
				}
				m[string(b)] = struct{}{}
			}
			var keys []string
			for k := range m {
				keys = append(keys, k)
			}
			sort.Strings(keys)
			ks = gen.KeySet{Keys: keys, Class: "high-labels"}
		case 0:
			ks = gen.Regular(c.Rng, 400)
		case 1:
			ks = gen.ShortTable(c.Rng, 2+c.Rng.Intn(2), 1+c.Rng.Intn(3))
		case 2:
			ks = gen.BigAscii(c.Rng, 300)
		default:
			ks = gen.Random(c.Rng, 300, 5)
		}
		if len(ks.Keys) < 8 {
			continue
		}
		flags := flagsFn()
		enc := []string{"none", "i32", "s16"}[c.Rng.Intn(3)]
		lo := len(ks.Keys) - 80
		if lo < 4 {
			lo = 4
		}
		for k := lo; k <= len(ks.Keys); k++ {
			sub := gen.KeySet{Keys: ks.Keys[:k], Class: "boundary:" + ks.Class}
			cs := NewCase(c.Rng, sub, flags, enc)
			if a := lp.Exec(cs.Line()); a != "ok" {
				continue
			}
			bl, last, lastBit, ok := InnersShape2(S.St)
			if !ok {
				continue
			}
			key := fmt.Sprintf("%d%c", bl%64, last)
			if bl%64 == 0 && lastBit && last != 's' && found["0"+string(last)+"T"] < (budget+2)/3 {
				// a word-aligned bitmap whose very last bit is set: always wanted, counted apart
				found["0"+string(last)+"T"]++
				c.Case(cs.Key(), true)
				if build(c, cs) {
					c.Hit(fmt.Sprintf("boundary:inners-bits%%64=0,last=%c,last-bit-set", last))
					each(cs)
				}
				continue
			}
			want := bl%64 == 0 || ((bl%64 == 63 || bl%64 == 1) && c.Rng.Intn(8) == 0)
			if !want || found[key] > budget {
				continue
			}
			// every kind of last node: do not let one kind use up the budget
			if bl%64 == 0 && last != 's' && found[key] >= (budget+2)/3 {
				continue
			}
			found[key]++
			c.Case(cs.Key(), true)
			if !build(c, cs) {
				continue
			}
			c.Hit(fmt.Sprintf("boundary:inners-bits%%64=%d,last=%c", bl%64, last))
			each(cs)
		}
	}
}

func init() {
	lookups := func(c *lp.Ctx) func(cs *Case) {
		return func(cs *Case) {
			// the last keys reach the last inner nodes
			n := len(cs.RKeys)
			for i := n - 1; i >= 0 && i >= n-12; i-- {
				q := lp.XS(cs.RKeys[i])
				want := cs.valAns(cs.RVals[i])
				if got := c.Do("trie.get " + q); got != want {
					cs.viol(c, "Get on retained key (bitmap ends at a word boundary)", "trie.get "+q, want, got)
				}
				if got := c.Do("trie.search " + q); got == "panic" {
					cs.viol(c, "lookup must be total", "trie.search "+q, "no panic", got)
				}
			}
			for _, q := range gen.Queries(c.Rng, cs.Keys[len(cs.Keys)-min(len(cs.Keys), 6):], 30) {
				for _, op := range []string{"trie.get ", "trie.rget ", "trie.search "} {
					if got := c.Do(op + lp.XS(q)); got == "panic" {
						cs.viol(c, "lookup must be total", op+lp.XS(q), "no panic", got)
					}
				}
			}
		}
	}
	lp.RegisterGen("C01", func(c *lp.Ctx) { boundaryCases(c, c.Pick(6, 40), lookups(c)) })
	lp.RegisterGen("C10", func(c *lp.Ctx) { boundaryCases(c, c.Pick(6, 40), lookups(c)) })
	lp.RegisterGen("C19", func(c *lp.Ctx) {
		boundaryCases(c, c.Pick(6, 40), func(cs *Case) {
			if a := c.Do("trie.string"); a == "panic" {
				cs.viol(c, "String() must not panic", "trie.string", "a rendering", a)
			}
			cs.checkString(c)
		})
	})
	complete := func(c *lp.Ctx) func() string { return func() string { return completeFlags(c.Rng) } }
	lp.RegisterGen("C03", func(c *lp.Ctx) {
		boundaryCasesF(c, c.Pick(6, 40), complete(c), func(cs *Case) {
			tail := cs.Keys[len(cs.Keys)-min(len(cs.Keys), 8):]
			for _, q := range gen.Queries(c.Rng, tail, 40) {
				cs.checkExact(c, q)
			}
		})
	})
	lp.RegisterGen("C04", func(c *lp.Ctx) {
		boundaryCasesF(c, c.Pick(6, 40), complete(c), func(cs *Case) {
			tail := cs.Keys[len(cs.Keys)-min(len(cs.Keys), 8):]
			for _, q := range gen.Queries(c.Rng, tail, 16) {
				op := fmt.Sprintf("trie.iter %s 1 1 %d", lp.XS(q), 12)
				cnt := 0
				for _, k := range cs.RKeys {
					if k >= q {
						cnt++
					}
				}
				pad := 0
				if cnt < 12 {
					pad = 12 - cnt
				}
				want := cs.scanItems(q, true, nil, false, true, 12, pad)
				if got := c.Do(op); got != want {
					cs.viol(c, "NewIter near the end of the key space (bitmap ends at a word boundary)", op, want, got)
				}
			}
		})
	})
	lp.RegisterGen("C09", func(c *lp.Ctx) {
		boundaryCases(c, c.Pick(6, 40), func(cs *Case) {
			n := len(cs.RKeys)
			for i := n - 1; i >= 0 && i >= n-10; i-- {
				op := "trie.search " + lp.XS(cs.RKeys[i])
				want := cs.valTok(i-1) + " " + cs.valTok(i) + " " + cs.valTok(i+1)
				if got := c.Do(op); got != want {
					cs.viol(c, "Search on a retained key (bitmap ends at a word boundary)", op, want, got)
				}
			}
		})
	})
	lp.RegisterGen("C02", func(c *lp.Ctx) {
		boundaryCases(c, c.Pick(6, 40), func(cs *Case) {
			n := len(cs.Keys)
			for i := n - 1; i >= 0 && i >= n-10; i-- {
				op := "trie.rget " + lp.XS(cs.Keys[i])
				want := "f nil"
				if cs.Vals != nil {
					want = cs.valAns(cs.Vals[i])
				}
				if got := c.Do(op); got != want {
					cs.viol(c, "RangeGet on an indexed key (bitmap ends at a word boundary)", op, want, got)
				}
			}
		})
	})
	lp.RegisterGen("C18", func(c *lp.Ctx) {
		boundaryCases(c, c.Pick(6, 40), func(cs *Case) { cs.checkStat(c, c.Do("trie.stat")) })
	})
}

func min(a, b int) int {
	if a < b {
		return a
	}
	return b
}
