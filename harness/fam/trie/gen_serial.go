package trie

import (
	"bytes"
	"fmt"
	"github.com/openacid/slim/encode"
	"sort"
	"strings"

	proto "github.com/golang/protobuf/proto"
	slim "github.com/openacid/slim/trie"

	"slimverif/harness/gen"
	"slimverif/harness/lp"
)

// battery runs the lookup / scan / stat / string battery and returns the answers.
func (cs *Case) battery(c *lp.Ctx, qs []string, withString bool) []string {
	var out []string
	for _, q := range qs {
		x := lp.XS(q)
		out = append(out, c.Do("trie.get "+x), c.Do("trie.id "+x), c.Do("trie.rget "+x), c.Do("trie.search "+x))
	}
	if cs.Inner && cs.Leaf {
		for i, q := range qs {
			if i%5 == 0 {
				out = append(out, c.Do(fmt.Sprintf("trie.iter %s %d 1 8", lp.XS(q), i%2)))
			}
		}
		out = append(out, c.Do("trie.scan x 1 1 -1"))
	}
	out = append(out, c.Do("trie.stat"))
	if withString {
		out = append(out, c.Do("trie.string"))
	}
	return out
}

// currentStream marshals the current instance (outside the script) and returns the bytes.
func currentStream() []byte {
	b, err := S.St.Marshal()
	if err != nil {
		return nil
	}
	return b
}

// genC05: marshal/unmarshal round trip at trie level.
func genC05(c *lp.Ctx) {
	n := c.Pick(200, 700)
	size := c.Pick(200, 1000)
	type stream struct {
		cs  *Case
		buf []byte
		ans []string
		qs  []string
	}
	var pool []stream
	for it := 0; it < n; it++ {
		ks := gen.Any(c.Rng, size)
		cs := NewCase(c.Rng, ks, "", "")
		c.Case(cs.Key(), len(cs.Keys) >= 2)
		if !build(c, cs) {
			continue
		}
		qs := gen.Queries(c.Rng, cs.Keys, c.Pick(25, 100))
		m1 := c.Do("trie.marshal")
		before := cs.battery(c, qs, true)
		buf1 := currentStream()
		// deterministic: building twice from equal input gives byte-identical output
		if a := c.Do(cs.Line()); a != "ok" {
			continue
		}
		if m2 := c.Do("trie.marshal"); m2 != m1 {
			cs.viol(c, "Marshal is deterministic (two builds from equal input)", "trie.marshal", m1, m2)
		}
		// advertised size
		if S.St != nil && buf1 != nil {
			if sz := protoSize(S.St); sz != len(buf1) {
				cs.viol(c, "len(Marshal()) equals the advertised protobuf size", "trie.marshal", fmt.Sprint(sz), fmt.Sprint(len(buf1)))
			}
		}
		// reload: every answer identical, re-marshal byte-stable
		if a := c.Do("trie.reload"); a != "ok" {
			cs.viol(c, "Unmarshal(Marshal(t))", "trie.reload", "ok", a)
			continue
		}
		after := cs.battery(c, qs, true)
		for i := range before {
			if before[i] != after[i] {
				cs.viol(c, "a loaded trie answers identically (answer #"+fmt.Sprint(i)+")", "trie.reload", before[i], after[i])
				break
			}
		}
		if m3 := c.Do("trie.marshal"); m3 != m1 {
			cs.viol(c, "re-marshalling a loaded trie reproduces the same bytes", "trie.marshal", m1, m3)
		}
		if len(pool) < 40 || c.Rng.Intn(4) == 0 {
			s := stream{cs, buf1, before, qs}
			if len(pool) < 40 {
				pool = append(pool, s)
			} else {
				pool[c.Rng.Intn(len(pool))] = s
			}
		}
	}
	// no residue: sequences of Unmarshal/Reset of length <= 3 on one instance
	m := c.Pick(150, 500)
	for it := 0; it < m && len(pool) > 1; it++ {
		last := pool[c.Rng.Intn(len(pool))]
		// all streams of one history must share the encoder of the instance
		c.Do("trie.fresh " + last.cs.Enc)
		steps := 1 + c.Rng.Intn(3)
		hist := ""
		for k := 0; k < steps-1; k++ {
			if c.Rng.Intn(3) == 0 {
				c.Do("trie.reset")
				hist += "R"
				continue
			}
			other := pool[c.Rng.Intn(len(pool))]
			if other.cs.Enc != last.cs.Enc {
				continue
			}
			if a := c.Do("trie.unmarshal " + lp.X(other.buf)); a != "ok" {
				other.cs.viol(c, "load of a valid stream", "trie.unmarshal", "ok", a)
			}
			hist += "U"
		}
		if a := c.Do("trie.unmarshal " + lp.X(last.buf)); a != "ok" {
			last.cs.viol(c, "load of a valid stream", "trie.unmarshal", "ok", a)
			continue
		}
		c.Case("history|"+hist+"|"+last.cs.Key(), true)
		c.Hit("history:" + hist + "U")
		got := last.cs.battery(c, last.qs, true)
		for i := range got {
			if got[i] != last.ans[i] {
				last.cs.viol(c, "no residue of earlier contents after Unmarshal (history "+hist+"U, answer #"+fmt.Sprint(i)+")",
					"trie.unmarshal", last.ans[i], got[i])
				break
			}
		}
		// after Reset the instance is empty
		if c.Rng.Intn(3) == 0 {
			c.Do("trie.reset")
			for _, q := range last.qs[:min(len(last.qs), 6)] {
				if g := c.Do("trie.get " + lp.XS(q)); g != "nf" {
					last.cs.viol(c, "after Reset the instance holds nothing", "trie.get "+lp.XS(q), "nf", g)
				}
			}
			if g := c.Do("trie.stat"); !strings.HasSuffix(g, "keys=0 nodes=0") {
				last.cs.viol(c, "after Reset Stat reports the empty trie", "trie.stat", "keys=0 nodes=0", g)
			}
		}
	}
}

// genC05empty: the stream of an EMPTY trie loaded into an instance that holds a non-empty one (no
// Reset in between), and the other way round: answers, Stat, String and re-Marshal as from a fresh load.
// genC05twoInstances: two instances that were both born empty (NewSlimTrie without keys) each load a different
// stream by a direct Unmarshal call: they must stay independent, and an instance born empty afterwards is empty.
func genC05twoInstances(c *lp.Ctx) {
	for it := 0; it < c.Pick(30, 120); it++ {
		a := NewCase(c.Rng, gen.Any(c.Rng, 150), "", "")
		b := NewCase(c.Rng, gen.Any(c.Rng, 150), "", a.Enc)
		if len(a.Keys) == 0 || len(b.Keys) == 0 {
			continue
		}
		if lp.Exec(a.Line()) != "ok" {
			continue
		}
		bufA := currentStream()
		if lp.Exec(b.Line()) != "ok" {
			continue
		}
		bufB := currentStream()
		if bufA == nil || bufB == nil {
			continue
		}
		qs := gen.Queries(c.Rng, a.Keys, 25)
		c.Do("trie.fresh " + a.Enc)
		if got := c.Do("trie.unmarshal " + lp.X(bufA)); got != "ok" {
			continue
		}
		want := a.battery(c, qs, false)
		mA := c.Do("trie.marshal")
		c.Do("trie.stash A")
		c.Do("trie.fresh " + a.Enc)
		if got := c.Do("trie.stat"); !strings.Contains(got, " keys=0 nodes=0") {
			a.viol(c, "an instance born empty after another instance loaded a stream is empty", "trie.fresh; trie.stat", "… keys=0 nodes=0", got)
		}
		c.Do("trie.unmarshal " + lp.X(bufB))
		c.Do("trie.unstash A")
		c.Hit("history:fresh,U(A) | fresh,U(B) | ask A")
		c.Case(a.Key()+"/two-instances", true)
		got := a.battery(c, qs, false)
		for i := range want {
			if got[i] != want[i] {
				a.viol(c, "an instance that loaded A is unaffected by another instance loading B (answer #"+fmt.Sprint(i)+")", "trie.unstash A; …", want[i], got[i])
				break
			}
		}
		if m := c.Do("trie.marshal"); m != mA {
			a.viol(c, "re-marshalling a loaded trie reproduces the same bytes (after another instance loaded another stream)", "trie.marshal", mA, m)
		}
	}
}

func genC05empty(c *lp.Ctx) {
	n := c.Pick(40, 150)
	for it := 0; it < n; it++ {
		full := NewCase(c.Rng, gen.Any(c.Rng, 150), "", "")
		if len(full.Keys) == 0 {
			continue
		}
		empty := NewCase(c.Rng, gen.KeySet{Class: "empty"}, full.Flags, full.Enc)
		if !build(c, empty) {
			continue
		}
		qs := gen.Queries(c.Rng, full.Keys, 12)
		ebuf := currentStream()
		eans := empty.battery(c, qs, true)
		em := c.Do("trie.marshal")
		if !build(c, full) {
			continue
		}
		fbuf := currentStream()
		fans := full.battery(c, qs, true)
		if ebuf == nil || fbuf == nil {
			continue
		}
		c.Case("empty-into-used|"+full.Key(), true)
		// built instance <- empty stream; loaded instance <- empty stream; then the full one again
		for _, start := range []string{"built", "loaded"} {
			if start == "loaded" {
				c.Do("trie.fresh " + full.Enc)
				if a := c.Do("trie.unmarshal " + lp.X(fbuf)); a != "ok" {
					full.viol(c, "load of a valid stream", "trie.unmarshal", "ok", a)
					continue
				}
			} else if !build(c, full) {
				continue
			}
			c.Hit("history:" + start + "-nonempty,U(empty),U(nonempty)")
			if a := c.Do("trie.unmarshal " + lp.X(ebuf)); a != "ok" {
				empty.viol(c, "load of the stream of an empty trie into a used instance", "trie.unmarshal", "ok", a)
				continue
			}
			got := empty.battery(c, qs, true)
			for i := range got {
				if got[i] != eans[i] {
					full.viol(c, "no residue after loading an EMPTY trie into a "+start+" non-empty instance (answer #"+fmt.Sprint(i)+")",
						"trie.unmarshal "+lp.X(ebuf), eans[i], got[i])
					break
				}
			}
			if m := c.Do("trie.marshal"); m != em {
				full.viol(c, "Marshal after loading an empty trie into a used instance", "trie.marshal", em, m)
			}
			if a := c.Do("trie.unmarshal " + lp.X(fbuf)); a != "ok" {
				continue
			}
			got = full.battery(c, qs, true)
			for i := range got {
				if got[i] != fans[i] {
					full.viol(c, "no residue after empty -> non-empty load (answer #"+fmt.Sprint(i)+")", "trie.unmarshal", fans[i], got[i])
					break
				}
			}
		}
	}
}

// genC07: after a rejected load the instance answers as an empty trie.
func genC07(c *lp.Ctx) {
	n := c.Pick(150, 500)
	size := c.Pick(120, 600)
	for it := 0; it < n; it++ {
		ks := gen.Any(c.Rng, size)
		if len(ks.Keys) == 0 {
			continue
		}
		cs := NewCase(c.Rng, ks, "", "")
		c.Case(cs.Key(), true)
		if !build(c, cs) {
			continue
		}
		buf := currentStream()
		if buf == nil {
			continue
		}
		var bad []byte
		kind := ""
		switch c.Rng.Intn(4) {
		case 0: // cut inside the header
			bad = buf[:c.Rng.Intn(32)]
			kind = "cut-header"
		case 1: // cut inside the body
			bad = buf[:32+c.Rng.Intn(len(buf)-32)]
			kind = "cut-body"
		case 2: // last byte missing
			bad = buf[:len(buf)-1]
			kind = "cut-last"
		default: // incompatible version
			bad = append([]byte{}, buf...)
			v := []string{"0.5.13", "0.6.0", "1.0.1", "2.0.0", "0.5.12-rc1", "x", "0.5.7"}[c.Rng.Intn(7)]
			copy(bad[:16], make([]byte, 16))
			copy(bad[:16], v)
			kind = "version:" + v
		}
		c.Hit("reject:" + strings.SplitN(kind, ":", 2)[0])
		// the instance currently holds the valid trie (fresh) or a loaded one
		if c.Rng.Intn(2) == 0 {
			c.Do("trie.reload")
		}
		a := c.Do("trie.unmarshal " + lp.X(bad))
		want := "err:truncated"
		if strings.HasPrefix(kind, "version") {
			want = "err:incompatible"
		}
		if a != want {
			cs.viol(c, "a stream that cannot be interpreted must be rejected ("+kind+")", "trie.unmarshal "+lp.X(bad), want, a)
			continue
		}
		for _, q := range gen.Queries(c.Rng, cs.Keys, 12) {
			x := lp.XS(q)
			if g := c.Do("trie.get " + x); g != "nf" {
				cs.viol(c, "after a rejected load the instance answers as an empty trie", "trie.get "+x, "nf", g)
			}
			if g := c.Do("trie.id " + x); g != "-1" {
				cs.viol(c, "after a rejected load the instance answers as an empty trie", "trie.id "+x, "-1", g)
			}
			if g := c.Do("trie.rget " + x); g != "nf" {
				cs.viol(c, "after a rejected load the instance answers as an empty trie", "trie.rget "+x, "nf", g)
			}
			if g := c.Do("trie.search " + x); g != "nil nil nil" {
				cs.viol(c, "after a rejected load the instance answers as an empty trie", "trie.search "+x, "nil nil nil", g)
			}
		}
		if g := c.Do("trie.scan x 1 1 -1"); g != "l:" {
			cs.viol(c, "after a rejected load scans yield nothing", "trie.scan x 1 1 -1", "l:", g)
		}
		if g := c.Do("trie.iter x 1 1 2"); g != "l:nil=nil;nil=nil;" {
			cs.viol(c, "after a rejected load iterators yield nothing", "trie.iter x 1 1 2", "l:nil=nil;nil=nil;", g)
		}
		// a following valid load works and leaves no trace of the failure
		if c.Rng.Intn(2) == 0 {
			if a := c.Do("trie.unmarshal " + lp.X(buf)); a != "ok" {
				cs.viol(c, "valid load after a rejected one", "trie.unmarshal", "ok", a)
			}
			for i, k := range cs.RKeys {
				if i%9 == 0 {
					want := cs.valAns(cs.RVals[i])
					if g := c.Do("trie.get " + lp.XS(k)); g != want {
						cs.viol(c, "valid load after a rejected one", "trie.get "+lp.XS(k), want, g)
					}
				}
			}
		}
	}
}

// filterKeys builds adversarial shapes for the size bound.
func sizeShapes(c *lp.Ctx, n int) gen.KeySet {
	r := c.Rng
	switch r.Intn(6) {
	case 0: // binary caterpillar: each key extends the previous by one differing byte
		var keys []string
		p := ""
		if n > 700 {
			n = 700 // the script line grows with n*n
		}
		for i := 0; i < n; i++ {
			keys = append(keys, p+"a")
			p += "b"
		}
		sort.Strings(keys)
		return gen.KeySet{Keys: keys, Class: "caterpillar"}
	case 1: // every inner node with a long step
		m := map[string]struct{}{}
		var rec func(p string, d int)
		rec = func(p string, d int) {
			if len(m) >= n {
				return
			}
			if d == 0 {
				m[p] = struct{}{}
				return
			}
			run := strings.Repeat("x", 1+r.Intn(6))
			rec(p+run+"a", d-1)
			rec(p+run+"b", d-1)
		}
		d := 1
		for 1<<uint(d) < n {
			d++
		}
		rec("", d)
		keys := make([]string, 0, len(m))
		for k := range m {
			keys = append(keys, k)
		}
		sort.Strings(keys)
		return gen.KeySet{Keys: keys, Class: "longstep-binary"}
	case 2: // fan-out 11 byte nodes
		var keys []string
		var rec func(p []byte)
		rec = func(p []byte) {
			if len(keys) >= n {
				return
			}
			if len(p) == 3 {
				keys = append(keys, string(p))
				return
			}
			for i := 0; i < 11; i++ {
				rec(append(append([]byte{}, p...), byte(i*23)))
			}
		}
		rec(nil)
		sort.Strings(keys)
		return gen.KeySet{Keys: keys, Class: "fanout11"}
	case 3: // all-distinct label bitmaps
		return gen.ShortTable(r, 3, 60)
	case 4:
		return gen.Random(r, n, 10)
	default:
		return gen.AnyBytes(r, n, 8)
	}
}

// packNibs packs half-bytes two per byte (a trailing single one is padded with 0).
func packNibs(n []int) string {
	b := make([]byte, 0, (len(n)+1)/2)
	for i := 0; i < len(n); i += 2 {
		lo := 0
		if i+1 < len(n) {
			lo = n[i+1]
		}
		b = append(b, byte(n[i]<<4|lo))
	}
	return string(b)
}

// prefixGrowthWitness is the key set of known finding K1 (found by the proof
// attempt of C17_prefix_invariant): exactly 127 inner nodes with a step come
// first in BFS order, then 2^d - 1 inner nodes without one; the root has no
// step.  Prepending any byte gives the root a step, which adds 1 to every entry
// of the InnerPrefixes presence rank index; entries that were 127 need one more
// varint byte each, so the size grows by about (#inner nodes)/128 bytes.
func prefixGrowthWitness(d int) []string {
	var ks []string
	for x := 0; x < 16; x++ {
		for y := 0; y < 8; y++ {
			if x == 15 && y == 7 {
				continue
			}
			for a := 0; a < 2; a++ {
				ks = append(ks, packNibs([]int{0, x, y, 0, a, 0}))
			}
		}
	}
	for v := 0; v < 1<<uint(d); v++ {
		n := []int{1}
		for i := d - 1; i >= 0; i-- {
			n = append(n, (v>>uint(i))&1)
		}
		ks = append(ks, packNibs(n))
	}
	sort.Strings(ks)
	return ks
}

func knownPrefixGrowth(c *lp.Ctx) {
	const d = 11
	ks := prefixGrowthWitness(d)
	cs := NewCase(c.Rng, gen.KeySet{Keys: ks, Class: "K1-prefix-growth"}, "-", "none")
	c.Case(cs.Key(), true)
	if !build(c, cs) {
		return
	}
	m1 := c.Do("trie.marshal")
	pk := make([]string, len(ks))
	for i, k := range ks {
		pk[i] = "A" + k
	}
	cs2 := NewCase(c.Rng, gen.KeySet{Keys: pk, Class: "K1-prefix-growth+A"}, "-", "none")
	if a := c.Do(cs2.Line()); a != "ok" {
		return
	}
	m2 := c.Do("trie.marshal")
	var l1, l2 int
	var h string
	fmt.Sscanf(m1, "ok %d %s", &l1, &h)
	fmt.Sscanf(m2, "ok %d %s", &l2, &h)
	c.Hit(fmt.Sprintf("K1-witness-delta:%d", l2-l1))
	if l2-l1 > 16 || l1-l2 > 16 {
		// a stable, short script identifies this witness in known_findings.txt
		c.Violate(lp.Violation{What: "prepending a common prefix changes the size by at most a few bytes",
			Script:   []string{"C17 witness K1: prefixGrowthWitness(d=11) (2302 keys, filter mode), prefix \"A\""},
			Expected: fmt.Sprintf("%d +- 16", l1), Got: m2})
	}
}

// buildHistory: the size of an index must depend on its keys only, not on what
// the process built before: a large regular build (not recorded in the script:
// the model has no process state) precedes small recorded builds.
func buildHistory(c *lp.Ctx) {
	var big []string
	for i := 0; i < 100000; i++ {
		big = append(big, fmt.Sprintf("%05d", i))
	}
	cb := NewCase(c.Rng, gen.KeySet{Keys: big, Class: "history-decimal-100k"}, "-", "none")
	if lp.Exec(cb.Line()) != "ok" {
		return
	}
	c.Hit("history:100k-decimal-build-first")
	for _, ks := range [][]string{{"a", "b", "c"}, {"k"}, {"aa", "ab", "b", "ba", "c"}} {
		cs := NewCase(c.Rng, gen.KeySet{Keys: ks, Class: "after-big-build"}, "-", "none")
		c.Case(cs.Key(), true)
		if !build(c, cs) {
			continue
		}
		m := c.Do("trie.marshal")
		var l int
		var h string
		fmt.Sscanf(m, "ok %d %s", &l, &h)
		if l > 8*len(ks)+256 {
			c.Violate(lp.Violation{What: "filter-mode size <= 8 bytes per key + 256 (after a large earlier build in the same process)",
				Script: []string{"(unrecorded) trie.new - none 00000..99999", cs.Line(), "trie.marshal"}, Expected: fmt.Sprintf("<= %d", 8*len(ks)+256), Got: m})
		}
	}
}

// genC17: filter-mode size is linear in the key count and independent of key length.
func genC17(c *lp.Ctx) {
	knownPrefixGrowth(c)
	buildHistory(c)
	n := c.Pick(150, 800)
	maxKeys := c.Pick(600, 4000)
	// the short-bitmap table's worst case: many distinct label bitmaps, each used a few times (a grid, all of it
	// in every run: the window in which a wrong cost model shows is narrow)
	var grid []gen.KeySet
	for _, k := range []int{2, 3} {
		for _, nd := range []int{10, 20, 30, 40, 45, 48, 52, 60, 80, 100, 120} {
			for rep := 1; rep <= 5; rep++ {
				if nd*rep > 300 || (k == 3 && rep > 3) {
					continue // the script line grows with n*n
				}
				grid = append(grid, gen.DistinctBitmaps(c.Rng, k, nd, rep))
			}
		}
	}
	// groups of exactly 64 / 128 keys sharing runs of 100 .. 4000 bytes, and the wide-then-thin shape
	for _, run := range []int{100, 1000, 4000}[:c.Pick(2, 3)] {
		grid = append(grid, gen.GroupsOf64(c.Rng, run))
	}
	for _, first := range []int{50, 100, 200, 60, 120} {
		grid = append(grid, gen.WideThenThin(c.Rng, first))
	}
	for it := 0; it < n+len(grid); it++ {
		var ks gen.KeySet
		if it < len(grid) {
			ks = grid[it]
		} else {
			ks = sizeShapes(c, 1+c.Rng.Intn(maxKeys))
		}
		if len(ks.Keys) == 0 {
			continue
		}
		// filter mode spelled in every way: no Opt at all, nil pointers, explicit false
		fflags := []string{"-", "nnnn", "nfff", "tfff", "nnnf", "ffff", "nfnf", "tnfn"}[c.Rng.Intn(8)]
		cs := NewCase(c.Rng, ks, fflags, "none")
		c.Case(cs.Key(), true)
		if !build(c, cs) {
			continue
		}
		m := c.Do("trie.marshal")
		bufK := currentStream()
		var l int
		var h string
		fmt.Sscanf(m, "ok %d %s", &l, &h)
		nk := len(ks.Keys)
		if l > 8*nk+256 {
			cs.viol(c, "filter-mode size <= 8 bytes per key + 256", "trie.marshal", fmt.Sprintf("<= %d", 8*nk+256), m)
		}
		c.Hit(fmt.Sprintf("bytes-per-key:%d", (l-32+nk-1)/nk))
		// prepend a long common prefix: the size changes by at most a few bytes
		plen := []int{1, 7, 8, 100, 1000, 4000, 16000}[c.Rng.Intn(7)]
		if c.Quick() && plen > 4000 {
			plen = 4000
		}
		if nk*plen > 6_000_000 {
			plen = 6_000_000 / nk
		}
		pre := strings.Repeat(string([]byte{byte(0x40 + c.Rng.Intn(60))}), plen)
		pk := make([]string, nk)
		for i, k := range ks.Keys {
			pk[i] = pre + k
		}
		cs2 := NewCase(c.Rng, gen.KeySet{Keys: pk, Class: ks.Class + "+prefix"}, fflags, "none")
		line2 := cs2.Line()
		if a := lp.Exec(line2); a != "ok" {
			cs2.viol(c, "prefixed key set accepted", line2[:60], "ok", a)
			continue
		}
		var m2 string
		// the model driver reads about 100 KB of script per second: long prefixed sets stay
		// implementation-only (the size predicate below is checked on them all the same)
		if len(line2) < c.Pick(3_000_000, 300_000) {
			c.Op(line2, "ok")
			m2 = c.Do("trie.marshal")
		} else {
			// too long for the script: implementation only
			m2 = lp.Exec("trie.marshal")
		}
		var l2 int
		fmt.Sscanf(m2, "ok %d %s", &l2, &h)
		d := l2 - l
		if d < 0 {
			d = -d
		}
		c.Hit(fmt.Sprintf("prefix-delta:%d", d))
		// C17_prefix_exact_common_byte: at least two keys that share their first byte — the root already
		// carries a step, and a longer step costs nothing: the size must be EQUAL
		shared := len(ks.Keys) >= 2
		for _, k := range ks.Keys {
			if len(k) == 0 || k[0] != ks.Keys[0][0] {
				shared = false
				break
			}
		}
		if shared {
			c.Hit("prefix:root-has-step(size-must-be-equal)")
			if d != 0 {
				cs.viol(c, "prepending a common prefix to keys that already share their first byte leaves the size equal", "trie.marshal", fmt.Sprint(l), m2)
			}
		}
		if d > 16 {
			// Known finding K1 is identified by its mechanism: the root gains a step, so every entry
			// of the InnerPrefixes presence rank index grows by one and entries crossing a varint
			// boundary need one more byte.  Growth explained by exactly that is the same finding
			// (reported under K1's key); anything beyond it is a new violation.
			if g := presenceRankGrowth(bufK, currentStream()); g > 0 && d-g <= 16 {
				c.Hit("K1-mechanism-on-generated-input")
				c.Violate(lp.Violation{What: "prepending a common prefix changes the size by at most a few bytes",
					Script:   []string{"C17 witness K1: prefixGrowthWitness(d=11) (2302 keys, filter mode), prefix \"A\""},
					Expected: fmt.Sprintf("%d +- 16", l), Got: m2 + fmt.Sprintf(" (generated input %s: rank-index growth %d of %d)", cs.Key(), g, d)})
			} else {
				cs.viol(c, "prepending a common prefix changes the size by at most a few bytes", "trie.marshal", fmt.Sprintf("%d +- 16", l), m2)
			}
		}
	}
}

// genC20: build and load neither modify nor alias caller-owned memory.
// genC20shortValues: values handed to NewSlimTrie as slices of one shared buffer, some SHORTER than the fixed size
// of their encoder (encode.Bytes{Size}).  Such values are outside the encoder's domain for lookups (Decode reads
// Size bytes), so only the build is asked for: it must not touch the caller's buffer.
func genC20shortValues(c *lp.Ctx) {
	for it := 0; it < c.Pick(60, 300); it++ {
		ks := gen.Any(c.Rng, c.Pick(40, 200))
		if len(ks.Keys) < 2 {
			continue
		}
		w := 2 + c.Rng.Intn(7)
		cs := NewCase(c.Rng, ks, "", fmt.Sprintf("bytes%d", w))
		short := 0
		for i := range cs.Vals {
			if i+1 < len(cs.Vals) && c.Rng.Intn(3) == 0 {
				cs.Vals[i] = cs.Vals[i][:c.Rng.Intn(w)]
				short++
			}
		}
		if short == 0 {
			continue
		}
		c.Hit("short-values-from-shared-buffer")
		c.Case(cs.Key()+"/short", true)
		line := strings.Replace(cs.Line(), "trie.new", "trie.new-checked", 1)
		if a := c.Do(line); a != "ok inputs-unchanged" && !strings.HasPrefix(a, "err:") {
			cs.viol(c, "building must not modify the caller's value memory (values sliced from one buffer, some shorter than the encoder's size)",
				line, "ok inputs-unchanged", a)
		}
	}
}

// genC20bigStream: a stream whose value section is larger than 64 KiB (20000 keys with 4-byte values; thorough also
// 70000), loaded from a caller-owned buffer that is overwritten afterwards — on the implementation only (a size
// threshold the script protocol does not reach): every sampled key still answers with its value, and Marshal still
// gives the original bytes.
func genC20bigStream(c *lp.Ctx) {
	for _, n := range []int{20000, 70000}[:c.Pick(1, 2)] {
		keys := make([]string, n)
		vals := make([]int32, n)
		for i := range keys {
			keys[i] = fmt.Sprintf("key-%07d", 3*i)
			vals[i] = int32(i + 1)
		}
		for pat := 0; pat < 3; pat++ {
			bad := func() (bad string) {
				defer func() {
					if r := recover(); r != nil {
						bad = fmt.Sprintf("panic: %v", r)
					}
				}()
				st, err := slim.NewSlimTrie(encode.I32{}, keys, vals, []slim.Opt{{}, {Complete: slim.Bool(true)}}[pat%2])
				if err != nil {
					return "NewSlimTrie: " + err.Error()
				}
				orig, err := st.Marshal()
				if err != nil {
					return "Marshal: " + err.Error()
				}
				buf := append([]byte{}, orig...)
				st2, _ := slim.NewSlimTrie(encode.I32{}, nil, nil)
				if err := st2.Unmarshal(buf); err != nil {
					return "Unmarshal: " + err.Error()
				}
				if !bytes.Equal(buf, orig) {
					return "Unmarshal modified its input buffer"
				}
				scribble(buf, fmt.Sprint(pat))
				for i := 0; i < n; i += 1 + n/400 {
					v, ok := st2.Get(keys[i])
					if !ok || v == nil || v.(int32) != vals[i] {
						return fmt.Sprintf("after the input buffer was overwritten Get(%q) = %v, %v; want %d, true", keys[i], v, ok, vals[i])
					}
				}
				again, err := st2.Marshal()
				if err != nil || !bytes.Equal(again, orig) {
					return "Marshal of the loaded trie changed after the input buffer was overwritten"
				}
				return ""
			}()
			c.Case(fmt.Sprintf("big-stream|%d|%d", n, pat), true)
			c.Hit(fmt.Sprintf("big-stream-scribble:n=%d", n))
			if bad != "" {
				c.Violate(lp.Violation{What: "overwriting the input buffer after Unmarshal changes no answer (big stream, implementation only)",
					Script:   []string{fmt.Sprintf("NewSlimTrie(I32, %d keys); Marshal; Unmarshal(buf); overwrite buf (pattern %d); Get / Marshal", n, pat)},
					Expected: "answers and Marshal unchanged", Got: bad})
			}
		}
	}
}

func genC20(c *lp.Ctx) {
	genC20shortValues(c)
	n := c.Pick(200, 700)
	size := c.Pick(150, 800)
	var prevBuf []byte
	for it := 0; it < n; it++ {
		ks := gen.Any(c.Rng, size)
		cs := NewCase(c.Rng, ks, "", "")
		c.Case(cs.Key(), len(cs.Keys) >= 2)
		line := strings.Replace(cs.Line(), "trie.new", "trie.new-checked", 1)
		a := c.Do(line)
		cs.Describe(c)
		if a != "ok inputs-unchanged" {
			cs.viol(c, "building must not modify the caller's keys, values or option struct", line, "ok inputs-unchanged", a)
			continue
		}
		// The build is over and trie.new has OVERWRITTEN every caller-owned value buffer and flipped the option
		// bools: a trie that kept a reference to caller memory instead of a copy answers with the overwritten
		// bytes from now on.  Direct predicate: every retained key still answers with the value the script supplied.
		for i, k := range cs.RKeys {
			if len(cs.RKeys) > 60 && i%7 != 0 && i != len(cs.RKeys)-1 {
				continue
			}
			want := cs.valAns(cs.RVals[i])
			if got := c.Do("trie.get " + lp.XS(k)); got != want {
				cs.viol(c, "the trie does not alias the caller's value memory: overwriting the value slice after the build changes no answer",
					"trie.get "+lp.XS(k), want, got)
				break
			}
		}
		qs := gen.Queries(c.Rng, cs.Keys, c.Pick(20, 80))
		before := cs.battery(c, qs, false)
		pat := fmt.Sprint(it % 3)
		// output buffer of Marshal overwritten: later answers and later Marshal unchanged
		m1 := c.Do("trie.marshal-scribble " + pat)
		buf := currentStream()
		if m2 := c.Do("trie.marshal"); m2 != m1 {
			cs.viol(c, "bytes returned by Marshal are independent of the trie", "trie.marshal", m1, m2)
		}
		// two results alive at once; one result held across a load of ANOTHER stream into the instance
		if m2 := c.Do("trie.marshal-twice"); m2 != m1 {
			cs.viol(c, "two results of Marshal do not share memory and do not change each other", "trie.marshal-twice", m1, m2)
		}
		if prevBuf != nil && it%2 == 0 {
			if h := c.Do("trie.marshal-hold"); h == m1 {
				if a := c.Do("trie.unmarshal " + lp.X(prevBuf)); a == "ok" {
					c.Do("trie.marshal")
					if g := c.Do("trie.marshal-held-check"); g != "held-unchanged" {
						cs.viol(c, "bytes returned by Marshal stay unchanged when the instance loads another stream and marshals again",
							"trie.marshal-held-check", "held-unchanged", g)
					}
					c.Hit("history:marshal-hold,U(other),marshal,check-held")
				}
			}
			// (the instance now holds the other stream; the original one is loaded again just below)
		}
		prevBuf = buf
		// input buffer of Unmarshal overwritten afterwards
		if buf == nil {
			continue
		}
		if a := c.Do("trie.unmarshal-scribble " + lp.X(buf) + " " + pat); a != "ok" {
			cs.viol(c, "load", "trie.unmarshal-scribble", "ok", a)
			continue
		}
		after := cs.battery(c, qs, false)
		for i := range before {
			if before[i] != after[i] {
				cs.viol(c, "overwriting the input buffer after Unmarshal changes no answer (answer #"+fmt.Sprint(i)+")",
					"trie.unmarshal-scribble", before[i], after[i])
				break
			}
		}
		if m3 := c.Do("trie.marshal"); m3 != m1 {
			cs.viol(c, "Marshal after a load from a since-overwritten buffer", "trie.marshal", m1, m3)
		}
	}
}

// presenceRankGrowth returns by how many bytes the serialized rank index of
// InnerPrefixes.PresenceBM grew between two marshaled streams.
func presenceRankGrowth(a, b []byte) int {
	sz := func(buf []byte) int {
		if len(buf) < 32 {
			return -1
		}
		m := &slim.Slim{}
		if proto.Unmarshal(buf[32:], m) != nil || m.InnerPrefixes == nil || m.InnerPrefixes.PresenceBM == nil {
			return -1
		}
		n := 0
		for _, x := range m.InnerPrefixes.PresenceBM.RankIndex {
			n += proto.SizeVarint(uint64(x))
		}
		return n
	}
	x, y := sz(a), sz(b)
	if x < 0 || y < 0 {
		return 0
	}
	return y - x
}

func protoSize(st *slim.SlimTrie) int {
	return protoSizeOf(st)
}

func init() {
	lp.RegisterGen("C05", genC05)
	lp.RegisterGen("C07", genC07)
	lp.RegisterGen("C05", genC05empty)
	lp.RegisterGen("C17", genC17)
	lp.RegisterGen("C20", genC20)
	lp.RegisterGen("C20", genC20bigStream)
	lp.RegisterGen("C05", genC05twoInstances)
}
