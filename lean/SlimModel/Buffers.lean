import SlimModel.Legacy
import SlimModel.Scan
/-
  SlimModel.Buffers — the buffer-ownership machine of property C20.

  State: the caller's named buffers (key strings, value encodings, load inputs, marshal outputs —
  all byte strings, found by id; a later entry for an id shadows the earlier one) and one
  `*SlimTrie` instance with its encoder width.

  Semantics is by VALUE — what the Go code is meant to do: `NewSlimTrie` reads keys and values and
  keeps encoded copies, `Unmarshal` reads the buffer through `bytes.NewReader` and protobuf copies
  every `bytes` field (the in-place prefix re-encoding of 0.5.10 streams works on that private
  copy), `Marshal` returns a fresh slice.  So no operation except `scribble` and `marshalInto`
  writes a buffer, and nothing but the explicit reads depends on buffer contents.  The
  correspondence run (`trie.unmarshal-scribble`, `trie.marshal-scribble`, `trie.new-checked`)
  compares the real code, with real buffers overwritten after each call, against exactly this.
-/
open Legacy

namespace Buffers

abbrev Bufs := List (Nat × Bytes)

/-- contents of buffer `id` (an unknown id is a nil slice) -/
def getBuf : Bufs → Nat → Bytes
  | [], _ => []
  | (i, b) :: rest, id => if i = id then b else getBuf rest id

/-- assignment to buffer `id` -/
def setBuf (bs : Bufs) (id : Nat) (b : Bytes) : Bufs := (id, b) :: bs

/-- what the caller overwrites a buffer with, keeping its length -/
inductive Pattern where
  | zeros
  | ones
  | cycle (seed : Bytes)      -- "random bytes": the seed repeated
  deriving Repr, DecidableEq

def Pattern.fill : Pattern → Nat → Bytes
  | .zeros, n => List.replicate n 0
  | .ones, n => List.replicate n 0xff
  | .cycle seed, n => (List.range n).map fun i => seed.getD (i % seed.length) 0

/-- the observations of one instance -/
inductive Query where
  | getID (q : Bytes)
  | get (q : Bytes)
  | rangeGet (q : Bytes)
  | search (q : Bytes)
  | scanFrom (start : Bytes) (includeStart withValue : Bool)
  | stat
  deriving Repr

inductive Answer where
  | id (r : Except Err (Option Nat))
  | val (r : Except Err (Option (Option Bytes)))
  | triple (r : Except Err (Option (Option Bytes) × Option (Option Bytes) × Option (Option Bytes)))
  | items (r : Except Err (List (Bytes × Option Bytes)))
  | stat (r : Except Err Slim.StatRes)

/-- every answer is a function of the instance alone -/
def answer (inst : Instance) : Query → Answer
  | .getID q => .id (getID (Slim.view inst.inner) q)
  | .get q => .val (get (Slim.view inst.inner) q)
  | .rangeGet q => .val (rangeGet (Slim.view inst.inner) q)
  | .search q => .triple (search (Slim.view inst.inner) q)
  | .scanFrom s i w => .items (Scan.scanFrom (Slim.view inst.inner) s i w (fun _ => true) none)
  | .stat => .stat (Slim.stat inst.inner inst.levels)

inductive Op where
  /-- `NewSlimTrie(enc, keys, values, opt)`: keys and (encoded) values are caller buffers -/
  | buildFrom (keyIds : List Nat) (valIds : Option (List Nat)) (opt : Opt)
  /-- `st.Unmarshal(buf)` -/
  | unmarshalFrom (id : Nat)
  /-- `buf, _ = st.Marshal()` -/
  | marshalInto (id : Nat)
  /-- the caller overwrites one of its buffers -/
  | scribble (id : Nat) (p : Pattern)
  | query (q : Query)

/-- what an operation lets the caller see -/
inductive Out where
  | built (err : Option Err)
  | loaded (err : Option Err)
  | marshalled (b : Bytes)
  | answered (a : Answer)

structure State where
  bufs : Bufs := []
  inst : Instance := {}
  encSize : Option Nat := none

/-- one operation; `scribble` shows nothing -/
def step (s : State) : Op → State × Option Out
  | .buildFrom ks vs opt =>
    match build (ks.map (getBuf s.bufs)) (vs.map (·.map (getBuf s.bufs))) opt with
    | .error e => (s, some (.built (some e)))
    | .ok t =>
      match Instance.init (Slim.encode t) with
      | .ok inst => ({ s with inst := inst }, some (.built none))
      | .error e => (s, some (.built (some e)))
  | .unmarshalFrom id =>
    let (inst, err) := Instance.unmarshal s.inst s.encSize (getBuf s.bufs id)
    ({ s with inst := inst }, some (.loaded err))
  | .marshalInto id =>
    let b := marshalSlim s.inst.inner
    ({ s with bufs := setBuf s.bufs id b }, some (.marshalled b))
  | .scribble id p => ({ s with bufs := setBuf s.bufs id (p.fill (getBuf s.bufs id).length) }, none)
  | .query q => (s, some (.answered (answer s.inst q)))

/-- a history: final state and everything the caller saw, in order -/
def run (s : State) : List Op → State × List Out
  | [] => (s, [])
  | op :: ops =>
    let (s', o) := step s op
    let (s'', os) := run s' ops
    (s'', match o with | some x => x :: os | none => os)

def Op.isScribble : Op → Bool
  | .scribble _ _ => true
  | _ => false

/-- The side condition of non-interference: a buffer that was scribbled over is not handed back as
    an input (`buildFrom`, `unmarshalFrom`) before `marshalInto` has rewritten it.  `T` = the
    buffers scribbled so far. -/
def cleanFrom (T : List Nat) : List Op → Bool
  | [] => true
  | .scribble id _ :: r => cleanFrom (id :: T) r
  | .marshalInto id :: r => cleanFrom (T.filter (· ≠ id)) r
  | .unmarshalFrom id :: r => !T.contains id && cleanFrom T r
  | .buildFrom ks vs _ :: r =>
    ks.all (fun k => !T.contains k) && (vs.getD []).all (fun k => !T.contains k) && cleanFrom T r
  | .query _ :: r => cleanFrom T r

end Buffers
