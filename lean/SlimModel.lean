import SlimModel.Basic
import SlimModel.SlimMsg
import SlimModel.Spec
import SlimModel.Build
import SlimModel.Query
import SlimModel.Bits
import SlimModel.Slim
