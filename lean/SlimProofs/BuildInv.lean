import SlimProofs.Runs
/-
  SlimProofs.BuildInv — every successful `build` produces a well-formed record array:

    theorem build_wf : build keys vals opt = .ok t → keys ≠ [] →
      WF keys (keepMask keys.length vals opt.dedup) t ∧ t.opt = opt

  Proof: a loop invariant `Inv` over `buildLoop` (the queue is append-only).
-/

namespace BuildInv

/-! ### the context `c : BCtx` of `build.go` -/

/-- what the proofs need to know about the context -/
structure CtxOK (keys : List Bytes) (keep : List Bool) (opt : Opt) (c : BCtx) : Prop where
  kn : ∀ t, c.kn.getD t [] = knOf keys t
  kb : ∀ t, c.kb.getD t [] = keys.getD t []
  keep : ∀ t, c.keep.getD t false = keptAt keep t
  lcps : ∀ t, t + 1 < keys.length → c.lcps.getD t 0 = lcp (knOf keys t) (knOf keys (t + 1))
  opt : c.opt = opt

theorem toArray_getD {α : Type} (l : List α) (t : Nat) (d : α) : l.toArray.getD t d = l.getD t d := by
  simp [List.getD_eq_getElem?_getD]

theorem map_nibs_getD (keys : List Bytes) (t : Nat) :
    (keys.map nibs).getD t [] = nibs (keys.getD t []) := by
  induction keys generalizing t with
  | nil => simp [nibs]
  | cons k ks ih =>
    cases t with
    | zero => simp
    | succ t => simpa using ih t

theorem mkLcps_getD (l : List (List Nat)) (t : Nat) (h : t + 1 < l.length) :
    (mkLcps l).getD t 0 = lcp (l.getD t []) (l.getD (t + 1) []) := by
  induction l generalizing t with
  | nil => simp at h
  | cons a rest ih =>
    cases rest with
    | nil => simp at h
    | cons b rest =>
      cases t with
      | zero => simp [mkLcps]
      | succ t =>
        simp only [mkLcps, List.getD_cons_succ]
        exact ih t (by simpa using h)

/-- the context that `build.go` constructs -/
def mkCtx (keys : List Bytes) (vals : Option (List Bytes)) (opt : Opt) : BCtx :=
  { kn := (keys.map nibs).toArray, kb := keys.toArray
    keep := (keepMask keys.length vals opt.dedup).toArray
    lcps := (mkLcps (keys.map nibs)).toArray, opt := opt }

theorem mkCtx_ok (keys : List Bytes) (vals : Option (List Bytes)) (opt : Opt) :
    CtxOK keys (keepMask keys.length vals opt.dedup) opt (mkCtx keys vals opt) where
  kn t := by simp only [mkCtx, toArray_getD, map_nibs_getD, knOf]
  kb t := by simp only [mkCtx, toArray_getD]
  keep t := by simp only [mkCtx, toArray_getD, keptAt]
  lcps t h := by
    simp only [mkCtx, toArray_getD, knOf]
    rw [mkLcps_getD _ _ (by simpa using h), map_nibs_getD, map_nibs_getD]
  opt := rfl

/-! ### facts about keys -/

theorem knOf_lt16 (keys : List Bytes) (t : Nat) : ∀ x ∈ knOf keys t, x < 16 := nibs_lt16 _

theorem knOf_even (keys : List Bytes) (t : Nat) : (knOf keys t).length % 2 = 0 := by
  rw [knOf, nibs_length]; omega

theorem knOf_lt {keys : List Bytes} (hasc : strictAsc keys = true) {a b : Nat} (hab : a < b)
    (hb : b < keys.length) : lexCmp (knOf keys a) (knOf keys b) = .lt :=
  bytesLt_iff_nibs.mp (strictAsc_lt hasc hab hb)

/-- labels are monotone along a run of ascending keys that agree before `ws` -/
theorem labelOf_mono {keys : List Bytes} (hasc : strictAsc keys = true) {s e ws : Nat} (big : Bool)
    (he : e ≤ keys.length)
    (hagree : ∀ t, s ≤ t → t < e → (knOf keys t).take ws = (knOf keys s).take ws) :
    ∀ a b, s ≤ a → a ≤ b → b < e → labelOf keys ws big a ≤ labelOf keys ws big b := by
  intro a b h1 h2 h3
  by_cases hab : a = b
  · rw [hab]; exact Nat.le_refl _
  · unfold labelOf
    apply labelAt_mono (knOf_lt16 keys a) (knOf_lt hasc (by omega) (by omega))
    rw [hagree a h1 (by omega), hagree b (by omega) h3]

theorem keyLabel_eq {keys : List Bytes} {keep : List Bool} {opt : Opt} {c : BCtx}
    (hc : CtxOK keys keep opt c) (ws : Nat) (big : Bool) :
    keyLabel c ws big = labelOf keys ws big := by
  funext t; simp only [keyLabel, labelOf, hc.kn]

/-! ### one inner node -/

/-- the child subset made from a run `(l, s', j)` -/
def kidOf (ws : Nat) (big : Bool) (x : Nat × Nat × Nat) : Subset :=
  { s := x.2.1, e := x.2.2, fb := ws + labelLen x.1 big }

/-- all keys of a subset with at least two keys agree before `ws ≤ minLcp` and are that long -/
theorem prefix_of_minLcp {keys : List Bytes} {keep : List Bool} {opt : Opt} {c : BCtx}
    (hc : CtxOK keys keep opt c) {s e ws : Nat} (he : e ≤ keys.length) (h2 : s + 2 ≤ e)
    (hws : ws ≤ minLcp c s e) :
    ∀ t, s ≤ t → t < e →
      ws ≤ (knOf keys t).length ∧ (knOf keys t).take ws = (knOf keys s).take ws := by
  apply common_prefix_of_le_lcp (knOf keys) s e ws h2
  intro t h1 h3
  have := minLcp_le c s e t h1 h3
  rw [hc.lcps t (by omega)] at this
  omega

theorem inner_ok {keys : List Bytes} {keep : List Bool} {opt : Opt} {c : BCtx}
    (hc : CtxOK keys keep opt c) (hasc : strictAsc keys = true)
    {o : Subset} (hsub : SubOK keys keep o) (h2 : o.s + 2 ≤ o.e) {ws : Nat} {big : Bool}
    (hfb : o.fb ≤ ws) (hws : ws ≤ minLcp c o.s o.e)
    (hbig : big = true → ws % 2 = 0 ∧ o.fb % 2 = 0)
    (q : Array Subset) (j : Nat) (hj : j < q.size) :
    InnerOK keys keep opt
      (q ++ ((childRuns (keyLabel c ws big) o.e (keptLabels c o.s o.e ws big) o.s).map
        (kidOf ws big)).toArray) j o
      { big := big, labels := keptLabels c o.s o.e ws big, firstChild := q.size,
        pref := prefOf opt (knOf keys o.s) o.fb ws } ∧
    ∀ x ∈ childRuns (keyLabel c ws big) o.e (keptLabels c o.s o.e ws big) o.s,
      SubOK keys keep (kidOf ws big x) ∧ (big = true → (kidOf ws big x).fb % 2 = 0) := by
  -- A: common prefix
  have hpre := prefix_of_minLcp hc hsub.le h2 hws
  -- B: monotone labels
  have hmono := labelOf_mono hasc big hsub.le (fun t h1 h3 => (hpre t h1 h3).2)
  -- C: labels
  rw [keyLabel_eq hc]
  generalize hlabels : keptLabels c o.s o.e ws big = labels
  have hmem : ∀ l, l ∈ labels ↔
      ∃ t, o.s ≤ t ∧ t < o.e ∧ keptAt keep t = true ∧ labelOf keys ws big t = l := by
    intro l
    rw [← hlabels, mem_keptLabels, keyLabel_eq hc]
    simp only [hc.keep]
  have hpw : labels.Pairwise (· < ·) := by
    rw [← hlabels]
    apply keptLabels_pairwise
    rw [keyLabel_eq hc]; exact hmono
  -- D: runs
  have hruns := childRuns_spec (labelOf keys ws big) o.e labels o.s hmono hpw (by
    intro l hl
    obtain ⟨t, h1, h3, _, h5⟩ := (hmem l).mp hl
    exact ⟨t, h1, h3, h5⟩)
  generalize hrs : childRuns (labelOf keys ws big) o.e labels o.s = runs at hruns ⊢
  have hlen : runs.length = labels.length := by rw [← hrs]; exact childRuns_length _ _ _ _
  constructor
  · -- F: InnerOK
    refine ⟨ws, hfb, hpre, hbig, rfl, hmem, hpw, hmono, hj, ?_⟩
    intro k hk
    dsimp only at hk ⊢
    have hk' : k < runs.length := by rw [hlen]; exact hk
    have hfst : (runs[k]).1 = labels[k] := by
      subst hrs
      exact childRuns_getElem_fst _ _ _ _ _ hk'
    have hrun := hruns runs[k] (List.getElem_mem hk')
    refine ⟨kidOf ws big runs[k], ?_, ?_, hrun.ge, hrun.le, ?_⟩
    · rw [Array.getElem?_append_right (by omega)]
      simp only [Nat.add_sub_cancel_left, List.getElem?_toArray, List.getElem?_map,
        List.getElem?_eq_getElem hk', Option.map_some]
    · simp only [kidOf, hfst]
    · intro t h1 h3
      have := hrun.iff t h1 h3
      simp only [kidOf]
      rw [← hfst]
      exact this
  · -- E: children are good subsets
    intro x hx
    have hrun := hruns x hx
    have hxl : x.1 ∈ labels := by
      have : x.1 ∈ runs.map (·.1) := List.mem_map_of_mem hx
      rw [← hrs, childRuns_map_fst] at this
      exact this
    have hlabx : ∀ t, x.2.1 ≤ t → t < x.2.2 → labelAt (knOf keys t) ws big = x.1 := by
      intro t h1 h3
      exact (hrun.iff t (by have := hrun.ge; omega) (by have := hrun.le; omega)).mp ⟨h1, h3⟩
    have hb1 : big = true → ws % 2 = 0 := fun h => (hbig h).1
    constructor
    · refine ⟨hrun.lt, Nat.le_trans hrun.le hsub.le, ?_, ?_, ?_⟩
      · obtain ⟨t, h1, h3, h4, h5⟩ := (hmem x.1).mp hxl
        have := (hrun.iff t h1 h3).mpr h5
        exact ⟨t, this.1, this.2, h4⟩
      · intro t h1 h3
        simp only [kidOf] at h1 h3 ⊢
        have hl1 := hlabx t h1 h3
        have hl2 := hlabx x.2.1 (Nat.le_refl _) hrun.lt
        have hge := hrun.ge
        have hle := hrun.le
        have hlt := hrun.lt
        have := take_label_eq (ws := ws) (big := big) (knOf_lt16 keys t) (knOf_lt16 keys x.2.1)
          (fun _ => knOf_even keys t) (fun _ => knOf_even keys x.2.1) hb1
          (by rw [(hpre t (by omega) (by omega)).2, (hpre x.2.1 (by omega) (by omega)).2])
          (by rw [hl1, hl2])
        rw [hl1] at this
        exact this
      · intro t h1 h3
        simp only [kidOf] at h1 h3 ⊢
        have hl1 := hlabx t h1 h3
        have hge := hrun.ge
        have hle := hrun.le
        have := label_long (ws := ws) (big := big) (fun _ => knOf_even keys t) hb1
          (hpre t (by omega) (by omega)).1
        rw [hl1] at this
        exact this
    · intro hb
      have := hb1 hb
      simp only [kidOf, labelLen, hb, if_true]
      split <;> omega

/-! ### `buildStep` -/

/-- the inner-node branch of `buildStep`, with the big/small decision and the branching position named -/
theorem buildStep_inner_eq (c : BCtx) (st : BSt) (o : Subset) (h : ¬ o.e - o.s = 1)
    (goBig : Bool) (hgo : goBig = (st.isBig && decide (prefCnt c o.s o.e (minLcp c o.s o.e) > 10)))
    (ws : Nat) (hws : ws = if goBig then minLcp c o.s o.e - minLcp c o.s o.e % 2 else minLcp c o.s o.e) :
    buildStep c st o =
      if ws < o.fb then .error (.panic "wordStart smaller than o.fromKeyBit") else
      if !c.opt.inner && decide (ws - o.fb > 0xffff) then .error .stepTooLong else
      .ok { st with
            isBig := goBig
            bigCnt := if goBig then st.bigCnt + 1 else st.bigCnt
            queue := st.queue ++ ((childRuns (keyLabel c ws goBig) o.e (keptLabels c o.s o.e ws goBig) o.s).map
              (kidOf ws goBig)).toArray
            nodes := st.nodes.push (Node.inner
              { big := goBig, labels := keptLabels c o.s o.e ws goBig, firstChild := st.queue.size, pref := prefOf c.opt (c.kn.getD o.s []) o.fb ws }) } := by
  subst hgo hws
  unfold buildStep
  rw [if_neg h]
  have : (fun (x : Nat × Nat × Nat) => match x with
      | (l, s', j) => ({ s := s', e := j, fb := (if (st.isBig && decide (prefCnt c o.s o.e (minLcp c o.s o.e) > 10)) = true then minLcp c o.s o.e - minLcp c o.s o.e % 2 else minLcp c o.s o.e) + labelLen l (st.isBig && decide (prefCnt c o.s o.e (minLcp c o.s o.e) > 10)) } : Subset))
      = kidOf (if (st.isBig && decide (prefCnt c o.s o.e (minLcp c o.s o.e) > 10)) = true then minLcp c o.s o.e - minLcp c o.s o.e % 2 else minLcp c o.s o.e) (st.isBig && decide (prefCnt c o.s o.e (minLcp c o.s o.e) > 10)) := by
    funext ⟨l, s', j⟩; rfl
  simp only [this]
  rfl

theorem buildStep_leaf_eq (c : BCtx) (st : BSt) (o : Subset) (h : o.e - o.s = 1) :
    buildStep c st o =
      .ok { st with nodes := st.nodes.push (.leaf st.leafKeyIdx.size (leafPrefOf c.opt (c.kb.getD o.s []) o.fb))
                    leafKeyIdx := st.leafKeyIdx.push o.s } := by
  unfold buildStep
  rw [if_pos h]
  rfl

/-! ### monotonicity of `NodeOK` in the (append-only) queue and leaf index -/

theorem InnerOK_mono {keys : List Bytes} {keep : List Bool} {opt : Opt} {q q' : Array Subset}
    {j : Nat} {o : Subset} {r : InnerRec}
    (hq : ∀ (j : Nat) c, q[j]? = some c → q'[j]? = some c)
    (h : InnerOK keys keep opt q j o r) : InnerOK keys keep opt q' j o r := by
  obtain ⟨ws, h1, h2, h3, h4, h5, h6, h7, h8, h9⟩ := h
  refine ⟨ws, h1, h2, h3, h4, h5, h6, h7, h8, ?_⟩
  intro k hk
  obtain ⟨c, hc1, hc2⟩ := h9 k hk
  exact ⟨c, hq _ _ hc1, hc2⟩

theorem NodeOK_mono {keys : List Bytes} {keep : List Bool} {opt : Opt} {q q' : Array Subset}
    {lk lk' : Array Nat} {j : Nat} {o : Subset} {nd : Node}
    (hq : ∀ (j : Nat) c, q[j]? = some c → q'[j]? = some c)
    (hl : ∀ (j : Nat) x, lk[j]? = some x → lk'[j]? = some x)
    (h : NodeOK keys keep opt q lk j o nd) : NodeOK keys keep opt q' lk' j o nd := by
  cases nd with
  | leaf ith lp =>
    obtain ⟨h1, h2, h3⟩ := h
    exact ⟨h1, hl _ _ h2, h3⟩
  | inner r =>
    obtain ⟨h1, h2⟩ := h
    exact ⟨h1, InnerOK_mono hq h2⟩

theorem getElem?_append_mono {α : Type} (q k : Array α) (j : Nat) (c : α)
    (h : q[j]? = some c) : (q ++ k)[j]? = some c := by
  have hj : j < q.size := (Array.getElem?_eq_some_iff.mp h).1
  exact (Array.getElem?_append_left hj).trans h

theorem getElem?_push_mono {α : Type} (q : Array α) (a : α) (j : Nat) (c : α)
    (h : q[j]? = some c) : (q.push a)[j]? = some c := by
  have hj : j < q.size := (Array.getElem?_eq_some_iff.mp h).1
  rw [Array.getElem?_push, if_neg (by omega)]; exact h

/-! ### the loop invariant -/

structure BInv (keys : List Bytes) (keep : List Bool) (opt : Opt) (st : BSt) (i : Nat) : Prop where
  size : st.nodes.size = i
  le : i ≤ st.queue.size
  root : st.queue[0]? = some { s := 0, e := keys.length, fb := 0 }
  sub : ∀ (j : Nat) o, st.queue[j]? = some o → SubOK keys keep o
  even : st.isBig = true → ∀ (j : Nat) o, st.queue[j]? = some o → o.fb % 2 = 0
  node : ∀ j, j < i → ∃ o nd, st.queue[j]? = some o ∧ st.nodes[j]? = some nd ∧
    NodeOK keys keep opt st.queue st.leafKeyIdx j o nd

theorem buildStep_inv {keys : List Bytes} {keep : List Bool} {opt : Opt} {c : BCtx}
    (hc : CtxOK keys keep opt c) (hasc : strictAsc keys = true)
    {st st' : BSt} {i : Nat} (hinv : BInv keys keep opt st i) (hi : i < st.queue.size)
    (hstep : buildStep c st st.queue[i] = .ok st') : BInv keys keep opt st' (i + 1) := by
  generalize ho : st.queue[i] = o at hstep
  have ho' : st.queue[i]? = some o := by rw [← ho]; exact Array.getElem?_eq_getElem hi
  have hsub := hinv.sub i o ho'
  have hsize := hinv.size
  by_cases hleaf : o.e - o.s = 1
  · -- leaf
    rw [buildStep_leaf_eq c st o hleaf] at hstep
    cases hstep
    refine ⟨by simp only [Array.size_push, hsize], by simp only; omega, hinv.root, hinv.sub,
      hinv.even, ?_⟩
    intro j hj
    dsimp only
    by_cases hji : j = i
    · subst hji
      refine ⟨o, _, ho', by rw [← hsize]; exact Array.getElem?_push_size, ?_⟩
      refine ⟨by have := hsub.lt; omega, Array.getElem?_push_size, ?_⟩
      rw [hc.opt, hc.kb]
    · obtain ⟨o2, nd, h1, h2, h3⟩ := hinv.node j (by omega)
      exact ⟨o2, nd, h1, getElem?_push_mono _ _ _ _ h2,
        NodeOK_mono (fun _ _ h => h) (fun _ _ h => getElem?_push_mono _ _ _ _ h) h3⟩
  · -- inner
    have h2 : o.s + 2 ≤ o.e := by have := hsub.lt; omega
    rw [buildStep_inner_eq c st o hleaf _ rfl _ rfl] at hstep
    generalize hgo : (st.isBig && decide (prefCnt c o.s o.e (minLcp c o.s o.e) > 10)) = goBig at hstep
    generalize hws : (if goBig = true then minLcp c o.s o.e - minLcp c o.s o.e % 2
      else minLcp c o.s o.e) = ws at hstep
    split at hstep
    · cases hstep
    split at hstep
    · cases hstep
    next hfb _ =>
    cases hstep
    have hwsle : ws ≤ minLcp c o.s o.e := by rw [← hws]; split <;> omega
    have hbig : goBig = true → ws % 2 = 0 ∧ o.fb % 2 = 0 := by
      intro hb
      have hstbig : st.isBig = true := by
        rw [← hgo] at hb
        exact (Bool.and_eq_true_iff.mp hb).1
      refine ⟨?_, hinv.even hstbig i o ho'⟩
      rw [← hws, if_pos hb]; omega
    obtain ⟨hin, hkids⟩ := inner_ok hc hasc hsub h2 (Nat.le_of_not_lt hfb) hwsle hbig st.queue i hi
    generalize hrs : childRuns (keyLabel c ws goBig) o.e (keptLabels c o.s o.e ws goBig) o.s = runs
      at hin hkids ⊢
    have hkid : ∀ (j : Nat) o2, (st.queue ++ (runs.map (kidOf ws goBig)).toArray)[j]? = some o2 →
        st.queue[j]? = some o2 ∨ ∃ x ∈ runs, o2 = kidOf ws goBig x := by
      intro j o2 h
      rw [Array.getElem?_append] at h
      split at h
      · exact Or.inl h
      · right
        rw [List.getElem?_toArray, List.getElem?_map, Option.map_eq_some_iff] at h
        obtain ⟨x, hx1, hx2⟩ := h
        exact ⟨x, List.mem_of_getElem? hx1, hx2.symm⟩
    refine ⟨by simp only [Array.size_push, hsize],
      by simp only [Array.size_append]; omega,
      getElem?_append_mono _ _ _ _ hinv.root, ?_, ?_, ?_⟩
    · intro j o2 h
      rcases hkid j o2 h with h | ⟨x, hx, rfl⟩
      · exact hinv.sub j o2 h
      · exact (hkids x hx).1
    · intro hb j o2 h
      dsimp only at hb
      rcases hkid j o2 h with h | ⟨x, hx, rfl⟩
      · have hstbig : st.isBig = true := by
          rw [← hgo] at hb
          exact (Bool.and_eq_true_iff.mp hb).1
        exact hinv.even hstbig j o2 h
      · exact (hkids x hx).2 hb
    · intro j hj
      dsimp only
      by_cases hji : j = i
      · subst hji
        refine ⟨o, _, getElem?_append_mono _ _ _ _ ho',
          by rw [← hsize]; exact Array.getElem?_push_size, ?_⟩
        refine ⟨h2, ?_⟩
        rw [hc.opt, hc.kn]
        exact hin
      · obtain ⟨o2, nd, h1, h3, h4⟩ := hinv.node j (by omega)
        exact ⟨o2, nd, getElem?_append_mono _ _ _ _ h1, getElem?_push_mono _ _ _ _ h3,
          NodeOK_mono (fun _ _ h => getElem?_append_mono _ _ _ _ h) (fun _ _ h => h) h4⟩

/-! ### the loop -/

theorem buildLoop_inv {keys : List Bytes} {keep : List Bool} {opt : Opt} {c : BCtx}
    (hc : CtxOK keys keep opt c) (hasc : strictAsc keys = true)
    (fuel i : Nat) (st st' : BSt) (hinv : BInv keys keep opt st i)
    (h : buildLoop c fuel i st = .ok st') : BInv keys keep opt st' st'.queue.size := by
  induction fuel generalizing i st with
  | zero =>
    simp only [buildLoop] at h
    split at h
    · cases h
    · next hi =>
      have : i = st.queue.size := by have := hinv.le; omega
      rw [this] at hinv
      cases h; exact hinv
  | succ fuel ih =>
    simp only [buildLoop] at h
    split at h
    · next hi =>
      split at h
      · next st2 hst => exact ih _ _ (buildStep_inv hc hasc hinv hi hst) h
      · cases h
    · next hi =>
      have : i = st.queue.size := by have := hinv.le; omega
      rw [this] at hinv
      cases h; exact hinv

/-- the first record is always kept -/
theorem keepMask_zero {n : Nat} {vals : Option (List Bytes)} (dedup : Bool) (hn : n ≠ 0)
    (hv : ∀ vs, vals = some vs → vs.length = n) :
    keptAt (keepMask n vals dedup) 0 = true := by
  obtain ⟨m, rfl⟩ : ∃ m, n = m + 1 := ⟨n - 1, by omega⟩
  unfold keptAt keepMask
  cases vals with
  | none => simp [List.replicate_succ]
  | some vs =>
    have := hv vs rfl
    cases vs with
    | nil => simp at this
    | cons v vs =>
      cases dedup with
      | true => simp [keepMaskVals]
      | false => simp [List.replicate_succ]

theorem binv_init {keys : List Bytes} {vals : Option (List Bytes)} (opt : Opt)
    (hne : keys.length ≠ 0) (hv : ∀ vs, vals = some vs → vs.length = keys.length) :
    BInv keys (keepMask keys.length vals opt.dedup) opt
      { queue := #[{ s := 0, e := keys.length, fb := 0 }] } 0 := by
  have hone : ∀ (j : Nat) (o : Subset),
      (#[({ s := 0, e := keys.length, fb := 0 } : Subset)])[j]? = some o →
      o = { s := 0, e := keys.length, fb := 0 } := by
    intro j o h
    have hj : j < 1 := (Array.getElem?_eq_some_iff.mp h).1
    have : j = 0 := by omega
    subst this
    simpa using h.symm
  refine ⟨rfl, Nat.zero_le _, rfl, ?_, ?_, ?_⟩
  · intro j o h
    rw [hone j o h]
    refine ⟨by simp only; omega, Nat.le_refl _, ⟨0, Nat.le_refl _, by simp only; omega,
      keepMask_zero _ hne hv⟩, ?_, ?_⟩
    · intro t _ _; simp
    · intro t _ _; simp
  · intro _ j o h
    rw [hone j o h]
    rfl
  · intro j hj; omega

theorem build_go_eq (keys : List Bytes) (vals : Option (List Bytes)) (opt : Opt) :
    build.go keys vals opt keys.length =
      match buildLoop (mkCtx keys vals opt) (2 * keys.length) 0
          { queue := #[{ s := 0, e := keys.length, fb := 0 }] } with
      | .error e => .error e
      | .ok st =>
        .ok { opt := opt, nodes := st.nodes, bigCnt := st.bigCnt, leafKeyIdx := st.leafKeyIdx
              elts := vals.map (fun vs => st.leafKeyIdx.toList.map (fun i => vs.getD i [])) } := rfl

theorem build_go_wf {keys : List Bytes} {vals : Option (List Bytes)} {opt : Opt} {t : Trie1}
    (hasc : strictAsc keys = true) (hne : keys.length ≠ 0)
    (hv : ∀ vs, vals = some vs → vs.length = keys.length)
    (h : build.go keys vals opt keys.length = .ok t) :
    WF keys (keepMask keys.length vals opt.dedup) t ∧ t.opt = opt := by
  rw [build_go_eq] at h
  split at h
  · cases h
  next st hst =>
  cases h
  have hinv := buildLoop_inv (mkCtx_ok keys vals opt) hasc _ _ _ _ (binv_init opt hne hv) hst
  refine ⟨⟨st.queue, hinv.size.symm, hinv.root, ?_⟩, rfl⟩
  intro j hj
  dsimp only at hj ⊢
  obtain ⟨o, nd, h1, h2, h3⟩ := hinv.node j (by rw [← hinv.size]; exact hj)
  obtain ⟨_, h4⟩ := Array.getElem?_eq_some_iff.mp h2
  refine ⟨o, h1, hinv.sub j o h1, ?_⟩
  rw [h4]; exact h3

end BuildInv

open BuildInv

/-- Every successful `build` of a non-empty key list yields a well-formed record array. -/
theorem build_wf (keys : List Bytes) (vals : Option (List Bytes)) (opt : Opt) (t : Trie1)
    (hb : build keys vals opt = .ok t) (hne : keys ≠ []) :
    WF keys (keepMask keys.length vals opt.dedup) t ∧ t.opt = opt := by
  have hn : keys.length ≠ 0 := by
    intro h; exact hne (List.length_eq_zero_iff.mp h)
  unfold build at hb
  simp only [if_neg hn] at hb
  split at hb
  · cases hb
  next hasc =>
  have hasc' : strictAsc keys = true := by simpa using hasc
  split at hb
  · next vs =>
    split at hb
    · cases hb
    next hlen =>
    exact build_go_wf hasc' hn (by
      intro vs' h; cases h; simpa using hlen) hb
  · exact build_go_wf hasc' hn (by intro vs' h; cases h) hb

/-- the stored values are the values of the leaves' keys, in leaf order (read off `build.go`) -/
theorem build_elts (keys : List Bytes) (vals : Option (List Bytes)) (opt : Opt) (t : Trie1)
    (hb : build keys vals opt = .ok t) (hne : keys ≠ []) :
    t.elts = vals.map (fun vs => t.leafKeyIdx.toList.map (fun i => vs.getD i [])) := by
  have hn : keys.length ≠ 0 := by
    intro h; exact hne (List.length_eq_zero_iff.mp h)
  have hgo : build.go keys vals opt keys.length = .ok t := by
    unfold build at hb
    simp only [if_neg hn] at hb
    split at hb
    · cases hb
    split at hb
    · split at hb
      · cases hb
      · exact hb
    · exact hb
  rw [build_go_eq] at hgo
  split at hgo
  · cases hgo
  · cases hgo; rfl

/-! ### non-vacuity -/

/-- a concrete input (three keys, values with a duplicate, default options) on which `build`
    succeeds, so the hypotheses of `build_wf` are satisfiable -/
example : ∃ t, build [[0x61], [0x61, 0x62], [0x62, 0x63]] (some [[1], [1], [2]]) {} = .ok t ∧
    ([[0x61], [0x61, 0x62], [0x62, 0x63]] : List Bytes) ≠ [] := by
  have h : (build [[0x61], [0x61, 0x62], [0x62, 0x63]] (some [[1], [1], [2]]) {}).toBool = true := by
    decide +kernel
  match hb : build [[0x61], [0x61, 0x62], [0x62, 0x63]] (some [[1], [1], [2]]) {} with
  | .ok t => exact ⟨t, rfl, by simp⟩
  | .error e => rw [hb] at h; cases h

#print axioms build_wf
#print axioms build_elts
