#!/usr/bin/env python3
"""archive_mutation.py <out_dir/mN> <name> <caught_by_check,...> [note] — keep a confirmed seeded change under seeded/<name>/"""
import sys, os, json, shutil
src, name, caught = sys.argv[1], sys.argv[2], sys.argv[3]
note = sys.argv[4] if len(sys.argv) > 4 else ""
dst = os.path.join("/verif/seeded", name)
os.makedirs(dst, exist_ok=True)
for f in ("patch.diff", "demo_test.go", "HOWTO.txt"):
    if os.path.exists(os.path.join(src, f)):
        shutil.copy(os.path.join(src, f), dst)
if os.path.isdir(os.path.join(src, "demo")):
    shutil.copytree(os.path.join(src, "demo"), os.path.join(dst, "demo"), dirs_exist_ok=True)
m = json.load(open(os.path.join(src, "meta.json")))
v = open(os.path.join(src, "verify.log"), errors="replace").read() if os.path.exists(os.path.join(src, "verify.log")) else ""
meta = {
    "property": m.get("property"), "summary": m.get("summary"), "needs": m.get("needs"), "files": m.get("files"),
    "origin": "fresh sub-agent given only the property text and a scratch worktree of /repo",
    "confirmed_by": "tools/verify_mutation.sh in a scratch worktree: patch applies and builds; demonstration fails with the patch; "
                    "whole unedited suite (go test -vet=off -count=1 ./...) passes with the patch; demonstration passes without it",
    "checks_run": "tools/try_mutation.sh (git -C /repo apply, ./check <id> --tier quick, git -C /repo checkout -- .)",
    "caught_by": [c for c in caught.split(",") if c], "note": note,
}
json.dump(meta, open(os.path.join(dst, "meta.json"), "w"), indent=1)
print("archived", dst)
