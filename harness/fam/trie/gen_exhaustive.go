package trie

import (
	"fmt"
	"sort"
	"strings"

	"slimverif/harness/gen"
	"slimverif/harness/lp"
)

// exhaustiveSmall (thorough tier) enumerates a finite universe COMPLETELY:
// every key set of 1..3 keys over all strings of length <= 2 over a half-byte
// diverse alphabet (21 strings, 1561 sets), every assignment of value runs
// (which adjacent keys share a value: 2^(k-1) patterns), both DedupValue
// settings and the four prefix modes; `each` then checks its property with
// every string of the universe as query.
func exhaustiveSmall(c *lp.Ctx, each func(cs *Case, uni []string)) {
	if c.Quick() {
		return
	}
	al := []byte{0x00, 0x0f, 0x10, 0xff}
	uni := []string{""}
	for _, a := range al {
		uni = append(uni, string([]byte{a}))
		for _, b := range al {
			uni = append(uni, string([]byte{a, b}))
		}
	}
	sort.Strings(uni)
	cnt := 0
	var rec func(start int, cur []string)
	rec = func(start int, cur []string) {
		if k := len(cur); k > 0 {
			for pat := 0; pat < 1<<uint(k-1); pat++ {
				for _, flags := range []string{"tfff", "ttff", "tftf", "tttt", "ffff", "ftff", "fftf", "fnnt"} {
					cs := &Case{Keys: append([]string{}, cur...), Flags: flags, Enc: "i8", Class: "exhaustive-small"}
					cs.Dedup, cs.Inner, cs.Leaf = normalize(flags)
					v := byte(1)
					for i := 0; i < k; i++ {
						if i > 0 && pat>>(uint(i)-1)&1 == 1 {
							v++
						}
						cs.Vals = append(cs.Vals, []byte{v})
					}
					cs.oracle()
					if !cs.Dedup && pat != 0 && pat != 1<<uint(k-1)-1 {
						continue // without de-duplication the run pattern is irrelevant: two suffice
					}
					c.Case(cs.Key()+fmt.Sprint(pat), true)
					if a := c.Do(cs.Line()); a != "ok" {
						cs.viol(c, "valid input accepted", cs.Line(), "ok", a)
						continue
					}
					cnt++
					each(cs, uni)
				}
			}
		}
		if len(cur) == 3 {
			return
		}
		for i := start; i < len(uni); i++ {
			rec(i+1, append(cur, uni[i]))
		}
	}
	rec(0, nil)
	c.Hit(fmt.Sprintf("exhaustive-small:tries=%d,universe=%d", cnt, len(uni)))
	c.Notes = append(c.Notes, fmt.Sprintf("exhaustive-small: all key sets of 1..3 keys over a %d-string universe x all value-run patterns x 8 option combinations = %d tries, every universe string as query (complete enumeration)", len(uni), cnt))
}

func init() {
	lp.RegisterGen("C01", func(c *lp.Ctx) {
		exhaustiveSmall(c, func(cs *Case, uni []string) {
			for i, k := range cs.RKeys {
				op := "trie.get " + lp.XS(k)
				if got, want := c.Do(op), cs.valAns(cs.RVals[i]); got != want {
					cs.viol(c, "Get on retained key (exhaustive)", op, want, got)
				}
			}
		})
	})
	lp.RegisterGen("C02", func(c *lp.Ctx) {
		exhaustiveSmall(c, func(cs *Case, uni []string) {
			for i, k := range cs.Keys {
				op := "trie.rget " + lp.XS(k)
				if got, want := c.Do(op), cs.valAns(cs.Vals[i]); got != want {
					cs.viol(c, "RangeGet on indexed key (exhaustive)", op, want, got)
				}
			}
		})
	})
	lp.RegisterGen("C09", func(c *lp.Ctx) {
		exhaustiveSmall(c, func(cs *Case, uni []string) {
			for i, k := range cs.RKeys {
				op := "trie.search " + lp.XS(k)
				want := cs.valTok(i-1) + " " + cs.valTok(i) + " " + cs.valTok(i+1)
				if got := c.Do(op); got != want {
					cs.viol(c, "Search on retained key (exhaustive)", op, want, got)
				}
			}
		})
	})
	lp.RegisterGen("C10", func(c *lp.Ctx) {
		exhaustiveSmall(c, func(cs *Case, uni []string) {
			for _, q := range uni {
				x := lp.XS(q)
				g, id, rg, se := c.Do("trie.get "+x), c.Do("trie.id "+x), c.Do("trie.rget "+x), c.Do("trie.search "+x)
				if g == "panic" || id == "panic" || rg == "panic" || se == "panic" {
					cs.viol(c, "lookup must be total (exhaustive)", "trie.get "+x, "no panic", g+"|"+id+"|"+rg+"|"+se)
					continue
				}
				if (g != "nf") != (id != "-1") {
					cs.viol(c, "Get and GetID agree (exhaustive)", "trie.id "+x, g, id)
				}
				parts := strings.Split(se, " ")
				if len(parts) == 3 && ((g != "nf") != (parts[1] != "nil") || (g != "nf" && "f "+parts[1] != g)) {
					cs.viol(c, "Get and Search(eq) agree (exhaustive)", "trie.search "+x, g, se)
				}
				if g != "nf" && rg != g {
					cs.viol(c, "RangeGet extends Get (exhaustive)", "trie.rget "+x, g, rg)
				}
			}
		})
	})
	lp.RegisterGen("C04", func(c *lp.Ctx) {
		exhaustiveSmall(c, func(cs *Case, uni []string) {
			if !(cs.Inner && cs.Leaf) {
				return
			}
			for _, q := range uni {
				for _, incl := range []bool{true, false} {
					op := fmt.Sprintf("trie.iter %s %s 1 %d", lp.XS(q), b2s(incl), len(cs.RKeys)+1)
					cntGE := 0
					for _, k := range cs.RKeys {
						if k > q || (k == q && incl) {
							cntGE++
						}
					}
					want := cs.scanItems(q, incl, nil, false, true, -1, len(cs.RKeys)+1-cntGE)
					if got := c.Do(op); got != want {
						cs.viol(c, "NewIter (exhaustive)", op, want, got)
					}
				}
			}
		})
	})
	_ = gen.KeySet{}
}
