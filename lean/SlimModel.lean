import SlimModel.Basic
import SlimModel.SlimMsg
