#!/usr/bin/env python3
"""Prints the markdown table of DESIGN.md §10 from seeded/*/meta.json."""
import json, glob, os
rows = []
for d in sorted(glob.glob("/verif/seeded/*/")):
    m = json.load(open(os.path.join(d, "meta.json")))
    name = os.path.basename(d.rstrip("/"))
    note = (m.get("note") or "")
    low = note.lower()
    missed = "missed at first" in low or "would have been missed" in low or "first caught only" in low or "hung" in low
    tie1 = "alarm only through tie 1" in low or "caught only as a broken correspondence" in low or "reported only as" in low or "reported only through" in low
    never = "not caught" in low and not (m.get("caught_by") or [])
    rows.append((name, m.get("property"), ", ".join(m.get("caught_by") or []) or "—", "NOT CAUGHT" if never else ("no" if missed else ("tie only" if tie1 else "yes")), note.replace("|", "/")))
print("| seeded change | property | caught by | caught before strengthening | what it took |")
print("|---|---|---|---|---|")
for r in rows:
    print("| %s | %s | %s | %s | %s |" % r)
print()
print("%d changes; %d caught with a concrete failing input by the checks as they were when the change arrived, %d at first only through a "
      "broken tie (a tie-1 bridge, or a model/implementation disagreement without a failing input of the property: no-failing-input-found; a concrete input after strengthening), %d only after strengthening (generators / watchdog / harness)." % (
    len(rows), sum(1 for r in rows if r[3] == "yes"), sum(1 for r in rows if r[3] == "tie only"), sum(1 for r in rows if r[3] == "no")) + (" %d not caught by any check (documented miss)." % sum(1 for r in rows if r[3] == "NOT CAUGHT")))
