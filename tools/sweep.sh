#!/bin/bash
# sweep.sh <first_seed> <last_seed> [tier] [props...] : unchanged-tree sweep over VERIF_SEED values; any non-OK line is a false alarm
# (or a finding) to investigate.  Meant for `vp run -- tools/sweep.sh 2 12`.
cd "$(dirname "$0")/.." || exit 2
a=$1; b=$2; tier=${3:-quick}; shift 3 2>/dev/null
props=${@:-C01 C02 C03 C04 C05 C07 C08 C09 C10 C11 C12 C13 C14 C15 C16 C17 C18 C19 C20}
./check setup > sweep_setup.log 2>&1 || { echo "SETUP FAILED"; tail -20 sweep_setup.log; exit 1; }
bad=0
for s in $(seq $a $b); do
  for p in $props; do
    out=$(VERIF_SEED=$s ./check $p --tier $tier 2>&1); rc=$?
    line=$(echo "$out" | grep -E '^OK|VIOLATION' | head -1)
    echo "seed=$s $p rc=$rc $line"
    if [ $rc -ne 0 ]; then bad=$((bad+1)); echo "$out" | head -12; r=$(echo "$out" | grep -m1 -o 'replay=[^ ]*' | cut -d= -f2); [ -f "$r" ] && head -c 3000 "$r"; fi
  done
done
echo "SWEEP DONE bad=$bad"
