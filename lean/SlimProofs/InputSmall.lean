import SlimProofs.InputPrefix
import SlimProofs.InputLegacy
/-
  SlimProofs.InputSmall — the allocation / int32-range hypotheses of the serialization theorems
  (`Refine.Small t`, `BodyOK (to0510 (Slim.encodeCreator t))`), which speak about the BUILT trie,
  discharged from a decidable predicate on what the USER supplies:

    InputSmall keys vals :=
      514 · (number of keys) + (total key bytes) + (total value bytes) + 64 < 2^31

    small_of_input        : build keys vals opt = .ok t → InputSmall keys vals → Refine.Small t
    bodyOK_0510_of_input  : build keys vals opt = .ok t → keys ≠ [] → InputSmall keys vals →
                              Frame.BodyOK (LegacyWrite.to0510 (Slim.encodeCreator t))

  What the bound allows, in plain numbers (2^31 = 2 147 483 648): every key set with
  `514·n + key bytes + value bytes ≤ 2 147 483 583`, e.g. 1 000 000 keys of 1 KiB each with 8-byte
  values (514·10^6 + 1.024·10^9 + 8·10^6 ≈ 1.55·10^9), 100 000 keys of 16 KiB (≈ 1.69·10^9), or
  4 000 000 short keys; the documented limits (keys ≤ 16 KiB, 10^5 … 10^6 keys) are well inside.
  It is not far from the implementation's own limit: its rank/select indexes are `[]int32`, and
  the label bitmap alone may take 257 bits per inner node.

  Where the constants come from (`core_of_input`):
    nodes  ≤ 2n                          (`InputCount.build_nodes_le`: the BFS loop's fuel)
    label bits ≤ 257 · nodes ≤ 514 n     (`InputCount.labelBits_le`)
    stored inner prefix bytes + leaf tail bytes ≤ key bytes + 2 · nodes   (`InputPrefix.prefix_bytes_le`)
    leaf value bytes ≤ value bytes, leaf count ≤ nodes                    (`InputCount.build_elts_le`)
    protobuf body < 2^40 ≤ maxAlloc = 2^48                                (`InputCore.small_of_core`)
-/

open InputCount InputCore

/-- total bytes of the supplied values (0 when no values are supplied) -/
def valBytes : Option (List Bytes) → Nat
  | some vs => totalLen vs
  | none => 0

/-- **the user-level size bound**: `514·|keys| + key bytes + value bytes + 64 < 2^31` -/
def InputSmall (keys : List Bytes) (vals : Option (List Bytes)) : Prop :=
  514 * keys.length + totalLen keys + valBytes vals + 64 < 2 ^ 31

instance (keys : List Bytes) (vals : Option (List Bytes)) : Decidable (InputSmall keys vals) := by
  unfold InputSmall; infer_instance

theorem smallCore_empty (opt : Opt) : SmallCore (Trie1.empty opt) := by
  refine ⟨by simp [Trie1.empty], by simp [Trie1.empty], ?_, ?_, ?_, ?_⟩
  · have : Refine.eSizes (Trie1.empty opt) = [] := rfl
    simp [Refine.labelBits, this]
  · simp [Refine.eStoredPs, Trie1.empty, Slim.innerRecs]
  · simp [Refine.eLeafPs, Refine.eLeafLps, Trie1.empty]
  · intro es he; simp [Trie1.empty] at he

theorem build_nil_eq (vals : Option (List Bytes)) (opt : Opt) (t : Trie1)
    (hb : build [] vals opt = .ok t) : t = Trie1.empty opt := by
  simp [build] at hb
  exact hb.symm

/-- the six counters of a built trie fit an int32 when the input is `InputSmall` -/
theorem core_of_input (keys : List Bytes) (vals : Option (List Bytes)) (opt : Opt) (t : Trie1)
    (hb : build keys vals opt = .ok t) (hi : InputSmall keys vals) : SmallCore t := by
  by_cases hne : keys = []
  · subst hne
    rw [build_nil_eq vals opt t hb]
    exact smallCore_empty opt
  · have hs := build_shape keys vals opt t hb hne
    have hwf := (build_wf keys vals opt t hb hne).1
    have hN := build_nodes_le keys vals opt t hb hne
    have hL := labelBits_le hs
    have hP := InputPrefix.prefix_bytes_le hwf hs
    have hB := SizeLabels.build_bigCnt_le keys vals opt t hb hne
    rw [SizeFields.eInners_eq_innersBefore] at hB
    have hI := Refine.eInners_length_le t
    unfold InputSmall at hi
    refine ⟨by omega, by omega, by omega, by omega, by omega, ?_⟩
    intro es he
    cases vals with
    | none =>
      have := build_elts keys none opt t hb hne
      rw [he] at this
      cases this
    | some vs =>
      obtain ⟨h1, h2⟩ := build_elts_le keys vs opt t hb hne es he
      simp only [valBytes] at hi
      constructor <;> omega

/-- **`Small` from the input**: no hypothesis about the built trie is left. -/
theorem small_of_input (keys : List Bytes) (vals : Option (List Bytes)) (opt : Opt) (t : Trie1)
    (hb : build keys vals opt = .ok t) (hi : InputSmall keys vals) : Refine.Small t := by
  apply small_of_core _ (core_of_input keys vals opt t hb hi)
  intro hsz
  by_cases hne : keys = []
  · subst hne
    rw [build_nil_eq vals opt t hb] at hsz
    simp [Trie1.empty] at hsz
  · exact build_shape keys vals opt t hb hne

/-- **the 0.5.10 / 0.5.11 body from the input** -/
theorem bodyOK_0510_of_input (keys : List Bytes) (vals : Option (List Bytes)) (opt : Opt)
    (t : Trie1) (hb : build keys vals opt = .ok t) (hne : keys ≠ []) (hi : InputSmall keys vals) :
    Frame.BodyOK (LegacyWrite.to0510 (Slim.encodeCreator t)) :=
  InputLegacy.bodyOK_to0510 (build_shape keys vals opt t hb hne) (core_of_input keys vals opt t hb hi)

/-! ### non-vacuity: concrete inputs are `InputSmall` by evaluation -/

example : InputSmall [[0x61], [0x61, 0x62], [0x62, 0xff]] (some [[1], [2], [3]]) := by decide
example : InputSmall [[0x61], [0x61, 0x62], [0x62, 0xff]] none := by decide
/-- … and the predicate does exclude something: it is a real bound on the arguments -/
example (keys : List Bytes) (h : keys.length = 5000000) : ¬ InputSmall keys none := by
  intro hi; unfold InputSmall at hi; omega

#print axioms small_of_input
#print axioms bodyOK_0510_of_input
