import Generated.Funcs
import SlimProps.BridgeSem.Common
import SlimProps.BridgeSem.Extern
import SlimModel.Query
import SlimModel.Slim

/-
  SlimProps.BridgeSem.GetNode — tie 1, semantic part: `getNode` (trie/slimtrie_query.go) translated WHOLE,
  with its callees `getLeafPrefix`, `getLeafIndex`, `decStep` (`Generated.W.SlimTrie.getNode` …: the
  `*querySession` is a record that the function returns updated; `st.inner` is the generated `Slim`
  structure, `st.vars` the cached `slimVars`; every branch, early return, nil / index / slice panic and
  the calls of the external `bitmap.Rank64`, `Rank128`, `Select32R64`, `bitstr.Len` are translated).

    `getLeafIndexW_sem`   getLeafIndex = (nodeid - rank, bit) of `Bits.rank64` on `NodeTypeBM`
    `getLeafPrefixW_sem`  getLeafPrefix(id, qr) = `leafSession`: `ithLeaf`, and `hasLeafPrefix` /
                          `leafPrefix` from the model's `Slim.getLeafPrefix`
    `getNode_sem`         getNode(id, qr0) = okOpt (sessionOf s id qr0) — INCLUDING when it panics —
                          where `sessionOf` is composed of the model's functions: `Bits.rank64` on
                          `NodeTypeBM` (`ithInner`, `isInner`), `Slim.getLeafPrefix` for a leaf,
                          `Slim.innerFrom` (`from`, `to = from + size`, `bm`, `wordSize`) and the prefix
                          block of `Slim.getNode` (`rawPref`: `hasInnerPrefix`, `innerPrefix`,
                          `innerPrefixLen`) for an inner node
    `sessionOf_decodes`, `getNode_ok`
                          the ABSTRACTION RELATION `Decodes s qr node` between the session and the `Node`
                          record of `Slim.getNode` (labels = set bits of `Inners` in [from, to) or of the
                          cached short bitmap, firstChild = rank128(from) + 1, big = (wordSize = 8), prefix):
                          whenever `Slim.getNode s id = .ok node`, the Go `getNode` does not panic and
                          leaves a session that decodes to exactly `node`
    (`getNode_getLeftChildID`, one step of the descent, is in SlimProps/BridgeSem/DescentStep.lean)

  Hypotheses (`GetNodeFits`, `InnerFits`, `LeafPrefixFits`): the message is well formed (`SlimMsg.WF`:
  `int32` / `uint32` / `uint64` ranges), `ShortSize ≤ 64`, and the `int32` computations of THIS call do
  not overflow — stated on the model's values (rank ≤ position, offsets, ordinals, bitmap sizes).
  `vars` are the fields `initVars` caches (`varsOf`; `initVars_sem`).
  External semantics assumed: GoSem.lean / SlimProps/BridgeSem/Extern.lean.
  See SlimProps/BridgeSem.lean for the overview.
-/

set_option linter.unusedSimpArgs false
set_option linter.unusedVariables false

open Generated Bits

namespace BridgeSem

/-- `getLeafIndex` whole: `(nodeid - rank, bit)` of `Rank64` on `NodeTypeBM` -/
theorem getLeafIndexW_sem (s : SlimMsg) (v : W.slimVars) (nt : BitmapMsg) (id : Nat)
    (hnt : s.nodeTypeBM = some nt) (hri : ∀ r ∈ nt.rankIndex, r < 2 ^ 31) (hid : id < 2 ^ 31) :
    W.SlimTrie.getLeafIndex (absTrie s v) id
      = (okOpt (rank64 nt id)).map (fun p => (Go.sub 32 id p.1, b2n p.2)) := by
  unfold W.SlimTrie.getLeafIndex
  simp only [absTrie, absSlim, hnt, Go.deref, Option.bind_eq_bind, Option.pure_def, Option.bind_some,
    Option.map_some, absBitmap, rank64_sem nt id hri hid]
  cases rank64 nt id <;> rfl

theorem getLeafIndexW_nil (s : SlimMsg) (v : W.slimVars) (id : Nat) (hnt : s.nodeTypeBM = none) :
    W.SlimTrie.getLeafIndex (absTrie s v) id = none := by
  unfold W.SlimTrie.getLeafIndex
  simp [absTrie, absSlim, hnt, Go.deref]

/-- what `getLeafPrefix` writes into the session, in the model's terms -/
def leafSession (s : SlimMsg) (ithLeaf : Nat) (qr : W.querySession) : Except Err W.querySession := do
  let lp ← Slim.getLeafPrefix s ithLeaf
  pure { qr with ithLeaf := ithLeaf, hasLeafPrefix := lp.isSome,
                 leafPrefix := match lp with | some b => natBytes b | none => qr.leafPrefix }

/-- the leaf-prefix lookup stays inside `int32` -/
def LeafPrefixFits (s : SlimMsg) (ithLeaf : Nat) : Prop :=
  ∀ lp pres pos w r, s.leafPrefixes = some lp → lp.presenceBM = some pres → lp.positionBM = some pos →
    pres.words[ithLeaf / 64]? = some w → pres.rankIndex[ithLeaf / 64]? = some r →
    r + popcount (w % 2 ^ (ithLeaf % 64)) < 2 ^ 31 ∧ pos.words.length * 64 < 2 ^ 31

theorem getLeafPrefixW_sem (s : SlimMsg) (v : W.slimVars) (nt : BitmapMsg) (id r : Nat) (b : Bool)
    (qr : W.querySession)
    (hnt : s.nodeTypeBM = some nt) (hri : ∀ r ∈ nt.rankIndex, r < 2 ^ 31) (hid : id < 2 ^ 31)
    (hrk : rank64 nt id = .ok (r, b)) (hle : r ≤ id) (hfit : LeafPrefixFits s (id - r)) :
    W.SlimTrie.getLeafPrefix (absTrie s v) id qr = okOpt (leafSession s (id - r) qr) := by
  unfold W.SlimTrie.getLeafPrefix
  rw [getLeafIndexW_sem s v nt id hnt hri hid, hrk]
  have hsub : Go.sub 32 id r = id - r := sub_small hle (by omega)
  simp only [okOpt_ok, Option.map_some, Option.bind_eq_bind, Option.bind_some, hsub, Option.pure_def]
  unfold leafSession Slim.getLeafPrefix
  simp only [absTrie, absSlim, Go.deref, Option.bind_some]
  generalize hk : id - r = k at hfit ⊢
  have hk31 : k < 2 ^ 31 := by omega
  cases hlp : s.leafPrefixes with
  | none => simp
  | some lp =>
    have h1 : Go.sar 32 k 6 = k / 64 := by go_simp
    have h2 : Go.and k 63 = k % 64 := by go_simp
    have h3 : k / 64 < 2 ^ (32 - 1) := by omega
    have h4 : Go.conv 32 true 32 (k % 64) = k % 64 := by rw [conv_narrow _ _ _ _ (by omega)]; omega
    simp only [Option.map_some, Option.isSome_some, if_true, Option.bind_some, absVLen, h1, h2, h4,
      idxS_eq _ _ _ h3, bitAt_lt (k % 64) (by omega), maskAt_le (k % 64) (by omega)]
    cases hp : lp.presenceBM with
    | none => rfl
    | some pres =>
      simp only [Option.map_some, Option.bind_some, absBitmap]
      cases hw : pres.words[k / 64]? with
      | none => rfl
      | some w =>
        simp only [Option.bind_some, and_bit_ne_zero]
        cases hb : w.testBit (k % 64) with
        | false => simp
        | true =>
          simp only [if_true, Bool.not_true, Bool.false_eq_true, if_false]
          cases hr : pres.rankIndex[k / 64]? with
          | none => rfl
          | some r' =>
            cases hps : lp.positionBM with
            | none => simp; rfl
            | some pos =>
              obtain ⟨hf1, hf2⟩ := hfit lp pres pos w r' hlp hp hps hw hr
              have hpc : Go.popcount64 (w % 2 ^ (k % 64)) = popcount (w % 2 ^ (k % 64)) := rfl
              simp only [Option.bind_some, mask64_and, hpc, Option.map_some, absBitmap]
              generalize hc : popcount (w % 2 ^ (k % 64)) = c at hf1
              have hc64 : c ≤ 64 := by rw [← hc]; exact popcount_le _
              have hadd : Go.add 32 r' (Go.conv 64 true 32 c) = r' + c := by go_simp; omega
              rw [hadd, select32R64_sem pos (r' + c) hf1 (by omega)]
              cases hsel : select32R64 pos (r' + c) with
              | error e => rfl
              | ok ab =>
                obtain ⟨a, b'⟩ := ab
                obtain ⟨ha, hb'⟩ := select32R64_bounds pos (r' + c) a b' hsel
                simp only [okOpt_ok, Option.bind_some]
                rw [sliceS_sem _ _ _ (by omega) (by omega)]
                cases hsl : Slim.sliceBytes lp.bytes a b' <;>
                  simp [hsl, bind, Except.bind, pure, Except.pure, okOpt, Except.toOption]

/-! ### `getNode` whole -/

/-- the inner prefix of a node as stored: nothing, the two bytes of a step, or the bytes of a `bitstr` -/
inductive RawPref where
  | none
  | step (b0 b1 : UInt8)
  | stored (bs : Bytes)

/-- the prefix block of `Slim.getNode`, returning what is stored -/
def rawPref (s : SlimMsg) (ithInner : Nat) : Except Err RawPref := do
  let some ips := s.innerPrefixes | .error (.panic "nil InnerPrefixes")
  if ips.eltCnt = 0 then return RawPref.none
  let some pres := ips.presenceBM | .error (.panic "nil PresenceBM")
  let some w := pres.words[ithInner / 64]? | .error (.panic "index out of range (prefix presence)")
  if !w.testBit (ithInner % 64) then return RawPref.none
  let (ithPref, _) ← rank128 pres ithInner
  match ips.positionBM with
  | some pos =>
    let (a, b) ← select32R64 pos ithPref
    let bs ← Slim.sliceBytes ips.bytes a b
    if bs.isEmpty then .error (.panic "index out of range (bitstr.Len)")
    return RawPref.stored bs
  | none =>
    match ips.bytes[ithPref * 2]?, ips.bytes[ithPref * 2 + 1]? with
    | some b0, some b1 => return RawPref.step b0 b1
    | _, _ => .error (.panic "index out of range (decStep)")

/-- the prefix of the model's node record -/
def RawPref.toPref : RawPref → Pref
  | .none => Pref.none
  | .step b0 b1 => Pref.step (Slim.decStep b0 b1)
  | .stored bs => Pref.stored (Slim.bitstrNibs bs)

/-- `bitstr.Len` as an `int32` pattern: `8*len - 16 + popcount(last byte)` -/
def bitstrBits (bs : Bytes) : Nat :=
  (bs.length * 8 + (2 ^ 32 - 16) + popcount (bs.getLast?.getD 0).toNat) % 2 ^ 32

/-- what `getNode` writes into the session for the `ithInner`-th inner node, in the model's terms:
    `Slim.innerFrom` gives the bit range and the short-table entry, `rawPref` the prefix. -/
def innerSession (s : SlimMsg) (ithInner : Nat) (qr : W.querySession) : Except Err W.querySession := do
  let (frm, size, short) ← Slim.innerFrom s ithInner
  let qr := { qr with wordSize := if ithInner < s.bigInnerCnt then 8 else 4, from_ := frm, to := frm + size,
                      bm := short.getD qr.bm }
  match ← rawPref s ithInner with
  | .none => pure qr
  | .step b0 b1 => pure { qr with innerPrefixLen := 4 * Slim.decStep b0 b1 }
  | .stored bs => pure { qr with innerPrefix := natBytes bs, innerPrefixLen := bitstrBits bs, hasInnerPrefix := true }

/-- the session `getNode(id, qr0)` leaves, in the model's terms -/
def sessionOf (s : SlimMsg) (id : Nat) (qr0 : W.querySession) : Except Err W.querySession := do
  let some nt := s.nodeTypeBM | .error (.panic "nil NodeTypeBM")
  let (ithInner, isInner) ← rank64 nt id
  let qr := { qr0 with innerPrefixLen := 0, hasInnerPrefix := false, ithInner := ithInner, isInner := b2n isInner }
  if isInner then innerSession s ithInner qr else leafSession s (id - ithInner) qr


/-- the offset `Slim.innerFrom` computes for a small node (an `Int`: `ShortSize - 17` is negative) -/
def smallFrom (s : SlimMsg) (ith ithShort : Nat) : Int :=
  ((Slim.bigInnerSize : Int) - Slim.innerSize) * s.bigInnerCnt + (Slim.innerSize : Int) * ith
    + ((s.shortSize : Int) - Slim.innerSize) * ithShort

/-- `getNode` on the `ith` inner node stays inside `int32` -/
structure InnerFits (s : SlimMsg) (ith : Nat) : Prop where
  ith_lt : ith + 64 < 2 ^ 31
  shortSize_le : s.shortSize ≤ 64
  big_fits : ith < s.bigInnerCnt → 257 * ith + 257 < 2 ^ 31
  small_fits : ∀ sbm k c, s.shortBM = some sbm → rank64 sbm ith = .ok (k, c) →
    0 ≤ smallFrom s ith k ∧ smallFrom s ith k + 17 + 64 < 2 ^ 31
  rank_sub : ∀ ips pres w n, s.innerPrefixes = some ips → ips.presenceBM = some pres →
    pres.words[ith / 64]? = some w → pres.rankIndex[(ith + 64) / 128]? = some n →
    ith / 64 % 2 * popcount w ≤ n
  pref_fits : ∀ ips pres k c, s.innerPrefixes = some ips → ips.presenceBM = some pres →
    rank128 pres ith = .ok (k, c) → 2 * k + 1 < 2 ^ 31
  pos_fits : ∀ ips pos, s.innerPrefixes = some ips → ips.positionBM = some pos →
    pos.words.length * 64 < 2 ^ 31

/-! helper lemmas of `getNode` -/

/-- `from = BigInnerOffset + innerSize*ithInner + ShortMinusInner*ithShort` with the cached `vars`:
    whenever the model's integer is a non-negative `int32`, the pattern is that integer —
    intermediate wrap-around (`ShortMinusInner` is negative) does not matter. -/
theorem smallFrom_pat (s : SlimMsg) (ith k : Nat) (hi : ith < 2 ^ 32) (hk : k < 2 ^ 32)
    (h0 : 0 ≤ smallFrom s ith k) (h1 : smallFrom s ith k < 2 ^ 31) :
    Go.add 32 (Go.add 32 (varsOf s).BigInnerOffset (Go.mul 32 17 ith)) (Go.mul 32 (varsOf s).ShortMinusInner k)
      = (smallFrom s ith k).toNat := by
  unfold varsOf
  simp only
  conv => lhs; rw [← ofS_natCast (w := 32) (n := ith) hi, ← ofS_natCast (w := 32) (n := k) hk,
    ← ofS_natCast (w := 32) (n := 17) (by omega)]
  simp only [mul_ofS, add_ofS]
  have e : (240 * (s.bigInnerCnt : Int) + ((17 : Nat) : Int) * (ith : Int) + ((s.shortSize : Int) - 17) * (k : Int))
      = smallFrom s ith k := by
    unfold smallFrom; simp [Slim.bigInnerSize, Slim.innerSize]
  rw [e]
  generalize smallFrom s ith k = F at h0 h1
  obtain ⟨n, rfl⟩ := Int.eq_ofNat_of_zero_le h0
  rw [ofS_natCast (by omega)]
  simp

/-- `bitstr.Len` on a stored prefix: panics on the empty slice, else the `int32` pattern `bitstrBits` -/
theorem bitstrLen_sem (bs : Bytes) :
    Go.bitstrLen (natBytes bs) = if bs.isEmpty then none else some (bitstrBits bs) := by
  unfold Go.bitstrLen bitstrBits natBytes
  rw [List.getLast?_map, List.length_map]
  cases bs with
  | nil => rfl
  | cons b0 rest =>
    cases h : (b0 :: rest).getLast? with
    | none => simp at h
    | some l => simp [Go.wrap]; rfl

/-- `ips.Bytes[ithPref<<1:]` -/
theorem sliceFrom_step (bytes : Bytes) (k : Nat) (hk : 2 * k + 1 < 2 ^ 31) :
    Go.sliceFromS 32 (natBytes bytes) (Go.shl 32 k 1)
      = if k * 2 ≤ bytes.length then some ((natBytes bytes).drop (k * 2)) else none := by
  have hshl : Go.shl 32 k 1 = k * 2 := by rw [shl_small (by omega)]
  rw [hshl]
  unfold Go.sliceFromS
  rw [natBytes_length]
  by_cases hle : k * 2 ≤ bytes.length
  · rw [if_pos ⟨by omega, hle⟩, if_pos hle]
  · rw [if_neg (fun h => hle h.2), if_neg hle]

/-- `decStep` whole on the rest of the byte section: the two bytes at its start, as a bit count;
    panics unless both exist -/
theorem decStepW_sem (bytes : Bytes) (j : Nat) :
    W.decStep ((natBytes bytes).drop j)
      = match bytes[j]?, bytes[j + 1]? with
        | some b0, some b1 => some (4 * Slim.decStep b0 b1)
        | _, _ => none := by
  unfold W.decStep
  simp only [Option.bind_eq_bind, Option.pure_def]
  have h0 : (0 : Nat) < 2 ^ (64 - 1) := by omega
  have h1 : (1 : Nat) < 2 ^ (64 - 1) := by omega
  simp only [idxS_eq _ _ _ h0, idxS_eq _ _ _ h1, List.getElem?_drop, natBytes, List.getElem?_map,
    Nat.add_zero]
  cases hb0 : bytes[j]? with
  | none => rfl
  | some b0 =>
    cases hb1 : bytes[j + 1]? with
    | none => rfl
    | some b1 =>
      simp only [Option.map_some, Option.bind_some]
      have hx := byte_lt b0
      have hy := byte_lt b1
      unfold Slim.decStep
      generalize b0.toNat = x at hx
      generalize b1.toNat = y at hy
      apply congrArg some
      have e1 : Go.conv 8 false 32 x = x := conv_widen_u _ _ _ (by omega)
      have e2 : Go.conv 8 false 32 y = y := conv_widen_u _ _ _ (by omega)
      have e3 : Go.shl 32 x 8 = x * 256 := by rw [shl_small (by omega)]
      have e4 : Go.or (x * 256) y = x * 256 + y := by
        show x * 256 ||| y = _
        have : x * 256 = x <<< 8 := by rw [Nat.shiftLeft_eq]
        rw [this, Nat.shiftLeft_add_eq_or_of_lt (by omega)]
      rw [e1, e2, e3, e4, shl_small (by omega)]
      omega

theorem and_mask (x k : Nat) : Go.and x (2 ^ k - 1) = x % 2 ^ k := Nat.and_two_pow_sub_one_eq_mod x k

/-- evaluation of the model side in the leaves of the case analyses -/
syntax "model_eval" : tactic
macro_rules
  | `(tactic| model_eval) => `(tactic|
      simp [bind, Except.bind, pure, Except.pure, okOpt, Except.toOption, RawPref.toPref])

syntax "model_eval" "[" Lean.Parser.Tactic.simpLemma,* "]" : tactic
macro_rules
  | `(tactic| model_eval [$ls,*]) => `(tactic|
      simp [$ls,*, bind, Except.bind, pure, Except.pure, okOpt, Except.toOption, RawPref.toPref])

set_option hygiene false in
/-- the prefix part of `getNode`, once the bit range of the node is known (the session `qr` of the
    goal is an explicit record whose `ithInner` is `ith`) -/
macro "pref_part" : tactic => `(tactic|
  (try simp only [Option.bind_some]
   unfold rawPref
   cases hips : s.innerPrefixes with
   | none => model_eval
   | some ips =>
     have hipwf := hipswf ips hips
     have hec : Go.ltS 32 0 ips.eltCnt = decide (0 < ips.eltCnt) := by
       have := hipwf.2.1
       go_simp
     simp only [Option.map_some, Option.bind_some, absVLen, hec]
     by_cases he : ips.eltCnt = 0
     · simp only [he, Nat.lt_irrefl, decide_false, Bool.false_eq_true, if_false, Option.bind_some]
       model_eval
     · have hpos : 0 < ips.eltCnt := by omega
       simp only [hpos, he, decide_true, if_true, if_false]
       cases hp : ips.presenceBM with
       | none => model_eval
       | some pres =>
         simp only [Option.map_some, Option.bind_some, absBitmap]
         cases hw : pres.words[ith / 64]? with
         | none => model_eval
         | some w =>
           simp only [Option.bind_some, and_bit_ne_zero]
           cases hbit : w.testBit (ith % 64) with
           | false => model_eval
           | true =>
             have hpreswf := hipwf.2.2.2.2 pres hp
             simp only [if_true, rank128_sem pres ith hpreswf.2.1 hfit.ith_lt
               (fun w n hw hn => hfit.rank_sub ips pres w n hips hp hw hn)]
             cases hrk128 : rank128 pres ith with
             | error e => model_eval
             | ok kc =>
               obtain ⟨k, c⟩ := kc
               have hk := hfit.pref_fits ips pres k c hips hp hrk128
               simp only [okOpt_ok, Option.map_some, Option.bind_some]
               cases hpb : ips.positionBM with
               | some pos =>
                 have hpl := hfit.pos_fits ips pos hips hpb
                 simp only [Option.map_some, Option.isSome_some, if_true, Option.bind_some, absBitmap,
                   select32R64_sem pos k (by omega) (by omega)]
                 cases hsel : select32R64 pos k with
                 | error e => model_eval [hsel]
                 | ok ab =>
                   obtain ⟨a, b⟩ := ab
                   obtain ⟨ha, hb'⟩ := select32R64_bounds pos k a b hsel
                   simp only [okOpt_ok, Option.bind_some, sliceS_sem ips.bytes a b (by omega) (by omega)]
                   cases hsl : Slim.sliceBytes ips.bytes a b with
                   | error e => model_eval [hsel, hsl]
                   | ok bs =>
                     rw [okOpt_ok, Option.map_some, Option.bind_some, bitstrLen_sem bs]
                     cases bs <;> model_eval [hsel, hsl]
               | none =>
                 simp only [Option.map_none, Option.isSome_none, Bool.false_eq_true, if_false,
                   sliceFrom_step ips.bytes k hk]
                 by_cases hle : k * 2 ≤ ips.bytes.length
                 · simp only [hle, if_true, Option.bind_some, decStepW_sem]
                   cases hb0 : ips.bytes[k * 2]? with
                   | none => model_eval [hb0]
                   | some b0 =>
                     cases hb1 : ips.bytes[k * 2 + 1]? <;> model_eval [hb0, hb1]
                 · have hb0 : ips.bytes[k * 2]? = none := List.getElem?_eq_none (by omega)
                   simp only [hle, if_false]
                   model_eval [hb0]))

/-! the model's `Slim.innerFrom`, by cases -/

theorem innerFrom_big (s : SlimMsg) (ith : Nat) (hb : ith < s.bigInnerCnt) :
    Slim.innerFrom s ith = .ok (257 * ith, 257, none) := by
  unfold Slim.innerFrom
  simp only [hb, if_true, Slim.bigInnerSize, Nat.mul_comm ith 257]
  rfl

/-- the short-node part of `Slim.innerFrom` -/
def shortPart (s : SlimMsg) (frm : Nat) : Except Err (Nat × Nat × Option Nat) := do
  let some inn := s.inners | .error (.panic "nil Inners")
  let code ← Slim.extractShort inn.words frm s.shortSize
  let some bm := s.shortTable[code]? | .error (.panic "index out of range (ShortTable)")
  return (frm, s.shortSize, some bm)

theorem innerFrom_small (s : SlimMsg) (ith : Nat) (sbm : BitmapMsg) (k : Nat) (c : Bool)
    (hb : ¬ ith < s.bigInnerCnt) (hsbm : s.shortBM = some sbm) (hrs : rank64 sbm ith = .ok (k, c))
    (h0 : 0 ≤ smallFrom s ith k) :
    Slim.innerFrom s ith
      = if c then shortPart s (smallFrom s ith k).toNat
        else .ok ((smallFrom s ith k).toNat, Slim.innerSize, none) := by
  unfold Slim.innerFrom shortPart
  have hneg : ¬ smallFrom s ith k < 0 := by omega
  unfold smallFrom at hneg ⊢
  simp only [hb, if_false, hsbm, hrs, bind, Except.bind, hneg]
  cases c <;> rfl

theorem innerFrom_noShortBM (s : SlimMsg) (ith : Nat) (hb : ¬ ith < s.bigInnerCnt) (hsbm : s.shortBM = none) :
    okOpt (Slim.innerFrom s ith) = none := by
  unfold Slim.innerFrom
  simp only [hb, if_false, hsbm]
  rfl

theorem innerFrom_rankErr (s : SlimMsg) (ith : Nat) (sbm : BitmapMsg) (e : Err) (hb : ¬ ith < s.bigInnerCnt)
    (hsbm : s.shortBM = some sbm) (hrs : rank64 sbm ith = .error e) :
    okOpt (Slim.innerFrom s ith) = none := by
  unfold Slim.innerFrom
  simp only [hb, if_false, hsbm, hrs]
  rfl

theorem sessionOf_inner (s : SlimMsg) (nt : BitmapMsg) (id ith : Nat) (qr0 : W.querySession)
    (hnt : s.nodeTypeBM = some nt) (hrk : rank64 nt id = .ok (ith, true)) :
    sessionOf s id qr0 = innerSession s ith
      { qr0 with innerPrefixLen := 0, hasInnerPrefix := false, ithInner := ith, isInner := 1 } := by
  unfold sessionOf
  simp only [hnt, hrk]
  rfl

theorem sessionOf_leaf (s : SlimMsg) (nt : BitmapMsg) (id ith : Nat) (qr0 : W.querySession)
    (hnt : s.nodeTypeBM = some nt) (hrk : rank64 nt id = .ok (ith, false)) :
    sessionOf s id qr0 = leafSession s (id - ith)
      { qr0 with innerPrefixLen := 0, hasInnerPrefix := false, ithInner := ith, isInner := 0 } := by
  unfold sessionOf
  simp only [hnt, hrk]
  rfl

theorem getNode_inner_sem (s : SlimMsg) (nt : BitmapMsg) (id ith : Nat) (qr0 : W.querySession)
    (hwf : s.WF) (hid : id < 2 ^ 31) (hnt : s.nodeTypeBM = some nt)
    (hrk : rank64 nt id = .ok (ith, true)) (hfit : InnerFits s ith) :
    W.SlimTrie.getNode (absTrie s (varsOf s)) id qr0 = okOpt (sessionOf s id qr0) := by
  obtain ⟨hbig, hss, hswf, hntwf, hinnwf, hsbwf, hipswf, hlpswf, hlvwf⟩ := hwf
  have hri := (hntwf nt hnt).2.1
  have hith := hfit.ith_lt
  have hss64 := hfit.shortSize_le
  have h1 : Go.sar 32 ith 6 = ith / 64 := by go_simp
  have h2 : Go.and ith 63 = ith % 64 := by go_simp
  have h3 : ith / 64 < 2 ^ (32 - 1) := by omega
  have hlt : Go.ltS 32 ith s.bigInnerCnt = decide (ith < s.bigInnerCnt) := by go_simp
  have hle : Go.leS 32 s.bigInnerCnt ith = decide (s.bigInnerCnt ≤ ith) := by go_simp
  have hone : (((if True then 1 else 0 : Nat) == 0) = true) = False := by simp
  have hone' : (((if True then 1 else 0 : Nat) != 0) = true) = True := by simp
  rw [sessionOf_inner s nt id ith qr0 hnt hrk]
  unfold W.SlimTrie.getNode innerSession
  simp only [absTrie, absSlim, hnt, Go.deref, Option.bind_eq_bind, Option.pure_def, Option.bind_some,
    Option.map_some, absBitmap, rank64_sem nt id hri hid, hrk, okOpt_ok, b2n, h1, h2, hlt, hle, hone, hone',
    if_false, if_true, idxS_eq _ _ _ h3, bitAt_lt (ith % 64) (by omega)]
  by_cases hb : ith < s.bigInnerCnt
  · -- a big node
    have hbf := hfit.big_fits hb
    have hb' : ¬ s.bigInnerCnt ≤ ith := by omega
    have e1 : Go.mul 32 ith 257 = 257 * ith := by
      rw [mul_small (by rw [Nat.mul_comm]; omega), Nat.mul_comm]
    have e1' : Go.mul 32 257 ith = 257 * ith := mul_small (by omega)
    have e2 : Go.add 32 (257 * ith) 257 = 257 * ith + 257 := add_small (by omega)
    have e2' : Go.add 32 257 (257 * ith) = 257 * ith + 257 := by rw [add_small (by omega)]; omega
    rw [innerFrom_big s ith hb]
    simp only [hb, hb', decide_true, decide_false, Bool.false_eq_true, if_true, if_false, e1, e1', e2, e2']
    pref_part
  · -- a 17-bit node, stored as such or as a short code
    have hb' : s.bigInnerCnt ≤ ith := by omega
    simp only [hb, hb', decide_false, decide_true, Bool.false_eq_true, if_false, if_true]
    cases hsbm : s.shortBM with
    | none =>
      have := innerFrom_noShortBM s ith hb hsbm
      rw [okOpt_bind, this]
      simp
    | some sbm =>
      have hsbri := (hsbwf sbm hsbm).2.1
      simp only [Option.map_some, Option.bind_some, absBitmap, rank64_sem sbm ith hsbri (by omega)]
      cases hrs : rank64 sbm ith with
      | error e =>
        have := innerFrom_rankErr s ith sbm e hb hsbm hrs
        rw [okOpt_bind, this]
        simp
      | ok kc =>
        obtain ⟨k, c⟩ := kc
        obtain ⟨hf0, hf1⟩ := hfit.small_fits sbm k c hsbm hrs
        have hk32 := rank64_ok_lt sbm ith k c hsbri hrs
        have hfrom := smallFrom_pat s ith k (by omega) (by omega) hf0 (by omega)
        rw [innerFrom_small s ith sbm k c hb hsbm hrs hf0]
        simp only [okOpt_ok, Option.map_some, Option.bind_some, hfrom]
        generalize hF : (smallFrom s ith k).toNat = F at *
        have hF31 : F + 17 + 64 < 2 ^ 31 := by omega
        cases c with
        | false =>
          have e3 : Go.add 32 F 17 = F + 17 := add_small (by omega)
          have e3' : Go.add 32 17 F = F + 17 := by rw [add_small (by omega)]; omega
          simp only [b2n, Bool.false_eq_true, if_false, if_true, bne_self_eq_false, beq_self_eq_true, e3, e3',
            Slim.innerSize]
          pref_part
        | true =>
          have hb1 : ((if true = true then 1 else 0 : Nat) != 0) = true := by simp
          have hb2 : ((1 : Nat) != 0) = true := by decide
          have hb3 : ((1 : Nat) == 0) = false := by decide
          have hb4 : ((if true = true then 1 else 0 : Nat) == 0) = false := by simp
          simp only [b2n, hb1, hb2, hb3, hb4, if_true, if_false, Bool.false_eq_true]
          cases hinn : s.inners with
          | none =>
            have hsp : okOpt (shortPart s F) = none := by
              unfold shortPart; simp only [hinn]; rfl
            rw [okOpt_bind, hsp]; simp
          | some inn =>
            have e4 : Go.sar 32 F 6 = F / 64 := by go_simp
            have e5 : Go.and F 63 = F % 64 := by go_simp
            have e6 : F / 64 < 2 ^ (32 - 1) := by omega
            have e7 : Go.add 32 F s.shortSize = F + s.shortSize := add_small (by omega)
            have e8 : Go.sar 32 (F + s.shortSize) 6 = (F + s.shortSize) / 64 := by go_simp
            have e9 : (F + s.shortSize) / 64 < 2 ^ (32 - 1) := by omega
            have e10 : Go.leS 32 (F % 64) (Go.sub 32 64 s.shortSize) = decide (F % 64 + s.shortSize ≤ 64) := by
              rw [sub_small (by omega) (by omega), leS_small (by omega) (by omega)]
              congr 1
              apply propext
              omega
            have e11 : Go.conv 32 true 32 (F % 64) = F % 64 := by
              rw [conv_narrow _ _ _ _ (by omega)]; omega
            have e12 : Go.conv 32 true 64 (Go.sub 32 64 (F % 64)) = 64 - F % 64 := by
              rw [sub_small (by omega) (by omega), conv_widen_small _ _ _ (by omega) (by omega)]
            simp only [Option.map_some, Option.bind_some, absBitmap, e4, e5, e7, e8, e10, e11, e12,
              idxS_eq _ _ _ e6, idxS_eq _ _ _ e9, varsOf, and_mask, Go.idxU]
            cases hw : inn.words[F / 64]? with
            | none =>
              have hsp : okOpt (shortPart s F) = none := by
                unfold shortPart Slim.extractShort; simp only [hinn, hw]; rfl
              rw [okOpt_bind, hsp]; simp
            | some w =>
              simp only [Option.bind_some]
              by_cases hj : F % 64 + s.shortSize ≤ 64
              · simp only [hj, decide_true, if_true, Option.bind_some, Go.shr]
                cases htb : s.shortTable[(w >>> (F % 64)) % 2 ^ s.shortSize]? with
                | none =>
                  have hsp : okOpt (shortPart s F) = none := by
                    unfold shortPart Slim.extractShort
                    simp only [hinn, hw, hj, if_true, bind, Except.bind, pure, Except.pure, htb]; rfl
                  rw [okOpt_bind, hsp]; simp
                | some bm =>
                  have hbm32 := hswf bm (List.mem_of_getElem? htb)
                  have e13 : Go.conv 32 false 64 bm = bm := conv_widen_u _ _ _ (by omega)
                  have hsp : shortPart s F = .ok (F, s.shortSize, some bm) := by
                    unfold shortPart Slim.extractShort
                    simp only [hinn, hw, hj, if_true, bind, Except.bind, pure, Except.pure, htb]
                  rw [hsp]
                  simp only [Option.bind_some, e13]
                  pref_part
              · simp only [hj, decide_false, Bool.false_eq_true, if_false, Go.shr, Go.or]
                cases hw2 : inn.words[(F + s.shortSize) / 64]? with
                | none =>
                  have hsp : okOpt (shortPart s F) = none := by
                    unfold shortPart Slim.extractShort
                    simp only [hinn, hw, hj, if_false, hw2]; rfl
                  rw [okOpt_bind, hsp]; simp
                | some w2 =>
                  have e14 : Go.shl 64 w2 (64 - F % 64) = (w2 <<< (64 - F % 64)) % 2 ^ 64 := rfl
                  simp only [Option.bind_some, e14]
                  cases htb : s.shortTable[w >>> (F % 64) ||| (w2 <<< (64 - F % 64)) % 2 ^ 64 % 2 ^ s.shortSize]? with
                  | none =>
                    have hsp : okOpt (shortPart s F) = none := by
                      unfold shortPart Slim.extractShort
                      simp only [hinn, hw, hj, if_false, hw2, bind, Except.bind, pure, Except.pure, htb]; rfl
                    rw [okOpt_bind, hsp]; simp
                  | some bm =>
                    have hbm32 := hswf bm (List.mem_of_getElem? htb)
                    have e13 : Go.conv 32 false 64 bm = bm := conv_widen_u _ _ _ (by omega)
                    have hsp : shortPart s F = .ok (F, s.shortSize, some bm) := by
                      unfold shortPart Slim.extractShort
                      simp only [hinn, hw, hj, if_false, hw2, bind, Except.bind, pure, Except.pure, htb]
                    rw [hsp]
                    simp only [Option.bind_some, e13]
                    pref_part

/-- `getNode(id, …)` stays inside `int32` -/
structure GetNodeFits (s : SlimMsg) (id : Nat) : Prop where
  wf : s.WF
  id_lt : id < 2 ^ 31
  rank_le : ∀ nt r b, s.nodeTypeBM = some nt → rank64 nt id = .ok (r, b) → r ≤ id
  leaf : ∀ nt r, s.nodeTypeBM = some nt → rank64 nt id = .ok (r, false) → LeafPrefixFits s (id - r)
  inner : ∀ nt r, s.nodeTypeBM = some nt → rank64 nt id = .ok (r, true) → InnerFits s r

/-- **`getNode` whole.**  On the trie whose `inner` message is `s` and whose `vars` are the ones
    `initVars` caches, `getNode(id, qr0)` panics exactly when the model's `sessionOf s id qr0` does, and
    otherwise leaves exactly that session: rank and kind of the node from `Bits.rank64`, for a leaf
    the leaf ordinal and the prefix of `Slim.getLeafPrefix`, for an inner node the bit range and the
    short-table entry of `Slim.innerFrom` and the stored prefix (`rawPref`). -/
theorem getNode_sem (s : SlimMsg) (id : Nat) (qr0 : W.querySession) (hfit : GetNodeFits s id) :
    W.SlimTrie.getNode (absTrie s (varsOf s)) id qr0 = okOpt (sessionOf s id qr0) := by
  have hwf := hfit.wf
  have hid := hfit.id_lt
  cases hnt : s.nodeTypeBM with
  | none =>
    unfold W.SlimTrie.getNode sessionOf
    simp only [absTrie, absSlim, hnt, Go.deref, Option.bind_eq_bind, Option.bind_some, Option.map_none,
      Option.bind_none]
    rfl
  | some nt =>
    have hri := (hwf.2.2.2.1 nt hnt).2.1
    cases hrk : rank64 nt id with
    | error e =>
      unfold W.SlimTrie.getNode sessionOf
      simp only [absTrie, absSlim, hnt, Go.deref, Option.bind_eq_bind, Option.bind_some, Option.map_some,
        absBitmap, rank64_sem nt id hri hid, hrk, okOpt_error, Option.map_none, Option.bind_none]
      rfl
    | ok rb =>
      obtain ⟨r, b⟩ := rb
      cases b with
      | true => exact getNode_inner_sem s nt id r qr0 hwf hid hnt hrk (hfit.inner nt r hnt hrk)
      | false =>
        rw [sessionOf_leaf s nt id r qr0 hnt hrk,
          ← getLeafPrefixW_sem s (varsOf s) nt id r false _ hnt hri hid hrk (hfit.rank_le nt r false hnt hrk)
            (hfit.leaf nt r hnt hrk)]
        unfold W.SlimTrie.getNode
        have hzero : (((if False then 1 else 0 : Nat) == 0) = true) = True := by simp
        have hbs : ∀ (x : Option W.querySession), (x.bind fun q => some q) = x := fun x => by cases x <;> rfl
        simp only [absTrie, absSlim, hnt, Go.deref, Option.bind_eq_bind, Option.bind_some, Option.map_some,
          absBitmap, rank64_sem nt id hri hid, hrk, okOpt_ok, b2n, Bool.false_eq_true, hzero, if_true,
          if_false, Option.pure_def, beq_self_eq_true, hbs]

/-! ### the session and the model's node record (`Slim.getNode`): the abstraction relation -/

/-- the prefix block of `Slim.getNode` (a copy, to name it; `getNode_unfold` is by `rfl`) -/
def prefBlock (ips : VLenArrayMsg) (ithInner : Nat) : Except Err Pref := do
    if ips.eltCnt = 0 then return Pref.none
    let some pres := ips.presenceBM | .error (.panic "nil PresenceBM")
    let some w := pres.words[ithInner / 64]? | .error (.panic "index out of range (prefix presence)")
    if !w.testBit (ithInner % 64) then return Pref.none
    let (ithPref, _) ← rank128 pres ithInner
    match ips.positionBM with
    | some pos =>
      let (a, b) ← select32R64 pos ithPref
      let bs ← Slim.sliceBytes ips.bytes a b
      if bs.isEmpty then .error (.panic "index out of range (bitstr.Len)")
      return Pref.stored (Slim.bitstrNibs bs)
    | none =>
      match ips.bytes[ithPref * 2]?, ips.bytes[ithPref * 2 + 1]? with
      | some b0, some b1 => return Pref.step (Slim.decStep b0 b1)
      | _, _ => .error (.panic "index out of range (decStep)")

theorem getNode_unfold (s : SlimMsg) (id : Nat) :
    Slim.getNode s id = (do
      let some nt := s.nodeTypeBM | .error (.panic "nil NodeTypeBM")
      let (ithInner, isInner) ← rank64 nt id
      if !isInner then
        let ithLeaf := id - ithInner
        return .leaf ithLeaf (← Slim.getLeafPrefix s ithLeaf)
      let (frm, size, short) ← Slim.innerFrom s ithInner
      let some inn := s.inners | .error (.panic "nil Inners")
      let labels := match short with
        | some bm => (List.range Slim.innerSize).filter (fun k => bm.testBit k)
        | none => Slim.labelsIn inn.words frm size
      let (r0, _) ← rank128 inn frm
      let some ips := s.innerPrefixes | .error (.panic "nil InnerPrefixes")
      let pref : Pref ← prefBlock ips ithInner
      return .inner { big := decide (ithInner < s.bigInnerCnt), labels := labels, firstChild := r0 + 1, pref := pref }) := by
  unfold Slim.getNode prefBlock
  rfl

/-- when the prefix block of `Slim.getNode` succeeds, `rawPref` returns what is stored, and the
    model's prefix is its decoding -/
theorem rawPref_of_prefBlock (s : SlimMsg) (ips : VLenArrayMsg) (ith : Nat) (p : Pref)
    (hips : s.innerPrefixes = some ips) (h : prefBlock ips ith = .ok p) :
    ∃ rp, rawPref s ith = .ok rp ∧ rp.toPref = p := by
  unfold prefBlock at h
  unfold rawPref
  simp only [hips]
  by_cases he : ips.eltCnt = 0
  · simp only [he, if_true, pure, Except.pure, Except.ok.injEq] at h
    exact ⟨.none, by simp [he, pure, Except.pure], by rw [← h]; rfl⟩
  simp only [he, if_false] at h ⊢
  cases hp : ips.presenceBM with
  | none => simp [hp] at h
  | some pres =>
    simp only [hp] at h ⊢
    cases hw : pres.words[ith / 64]? with
    | none => simp [hw] at h
    | some w =>
      simp only [hw] at h ⊢
      cases hbit : w.testBit (ith % 64) with
      | false =>
        simp only [hbit, Bool.not_false, if_true, pure, Except.pure, Except.ok.injEq] at h
        exact ⟨.none, by simp [hbit, pure, Except.pure], by rw [← h]; rfl⟩
      | true =>
        simp only [hbit, Bool.not_true, Bool.false_eq_true, if_false] at h ⊢
        cases hrk : rank128 pres ith with
        | error e => simp [hrk, bind, Except.bind] at h
        | ok kc =>
          obtain ⟨k, c⟩ := kc
          simp only [hrk, bind, Except.bind] at h ⊢
          cases hpb : ips.positionBM with
          | some pos =>
            simp only [hpb] at h ⊢
            cases hsel : select32R64 pos k with
            | error e => simp [hsel] at h
            | ok ab =>
              obtain ⟨a, b⟩ := ab
              simp only [hsel] at h ⊢
              cases hsl : Slim.sliceBytes ips.bytes a b with
              | error e => simp [hsl] at h
              | ok bs =>
                simp only [hsl] at h ⊢
                cases bs with
                | nil => simp at h
                | cons b0 rest =>
                  simp only [List.isEmpty_cons, Bool.false_eq_true, if_false, pure, Except.pure,
                    Except.ok.injEq] at h ⊢
                  exact ⟨.stored (b0 :: rest), rfl, by rw [← h]; rfl⟩
          | none =>
            simp only [hpb] at h ⊢
            cases hb0 : ips.bytes[k * 2]? with
            | none => simp [hb0] at h
            | some b0 =>
              cases hb1 : ips.bytes[k * 2 + 1]? with
              | none => simp [hb0, hb1] at h
              | some b1 =>
                simp only [hb0, hb1, pure, Except.pure, Except.ok.injEq] at h ⊢
                exact ⟨.step b0 b1, rfl, by rw [← h]; rfl⟩

/-- What a session says about the node, in the model's vocabulary — the ABSTRACTION RELATION between
    the `querySession` that `getNode` fills and the `Node` record that `Slim.getNode` decodes:

    * leaf: `isInner = 0`, `ithLeaf` is the leaf ordinal, `hasLeafPrefix` / `leafPrefix` the prefix;
    * inner node: `isInner = 1`; `[from, to)` is the bit range `Slim.innerFrom` gives for the
      `ithInner`-th inner node (`bm` caches the short-table entry of a short node); the labels are the
      set bits of that range (`nodeLabels`); `firstChild` is the rank of `from` in `Inners` plus one (the
      `Rank128` that `getLeftChildID` / `leftMost` perform on the session); `big` is `wordSize = 8`;
      the prefix is `innerPrefixLen` bits (a step) or the `bitstr` in `innerPrefix`. -/
def Decodes (s : SlimMsg) (qr : W.querySession) : Node → Prop
  | .leaf ith lp =>
    qr.isInner = 0 ∧ qr.ithLeaf = ith ∧ qr.hasLeafPrefix = lp.isSome ∧ ∀ b, lp = some b → qr.leafPrefix = natBytes b
  | .inner r =>
    qr.isInner = 1 ∧
    ∃ inn size short r0 c, s.inners = some inn ∧
      Slim.innerFrom s qr.ithInner = .ok (qr.from_, size, short) ∧ qr.to = qr.from_ + size ∧
      (∀ bm, short = some bm → qr.bm = bm) ∧
      r.big = decide (qr.ithInner < s.bigInnerCnt) ∧ qr.wordSize = (if r.big then 8 else 4) ∧
      r.labels = nodeLabels inn.words qr.from_ size short ∧
      rank128 inn qr.from_ = .ok (r0, c) ∧ r.firstChild = r0 + 1 ∧
      (match r.pref with
       | .none => qr.hasInnerPrefix = false ∧ qr.innerPrefixLen = 0
       | .step n => qr.hasInnerPrefix = false ∧ qr.innerPrefixLen = 4 * n
       | .stored ns => qr.hasInnerPrefix = true ∧
          ∃ bs, qr.innerPrefix = natBytes bs ∧ ns = Slim.bitstrNibs bs ∧ qr.innerPrefixLen = bitstrBits bs)

/-- whenever the model's `Slim.getNode` succeeds, `sessionOf` succeeds and its session decodes to
    exactly the node the model returns -/
theorem sessionOf_decodes (s : SlimMsg) (id : Nat) (qr0 : W.querySession) (node : Node)
    (h : Slim.getNode s id = .ok node) :
    ∃ qr, sessionOf s id qr0 = .ok qr ∧ Decodes s qr node ∧ qr.key = qr0.key ∧ qr.keyBitLen = qr0.keyBitLen ∧
      ∃ nt b, s.nodeTypeBM = some nt ∧ rank64 nt id = .ok (qr.ithInner, b) ∧ qr.isInner = b2n b := by
  rw [getNode_unfold] at h
  cases hnt : s.nodeTypeBM with
  | none => simp [hnt] at h
  | some nt =>
    simp only [hnt] at h
    cases hrk : rank64 nt id with
    | error e => simp [hrk, bind, Except.bind] at h
    | ok rb =>
      obtain ⟨r, b⟩ := rb
      simp only [hrk, bind, Except.bind] at h
      cases b with
      | false =>
        rw [sessionOf_leaf s nt id r qr0 hnt hrk]
        unfold leafSession
        simp only [Bool.not_false, if_true] at h
        cases hlp : Slim.getLeafPrefix s (id - r) with
        | error e => simp [hlp] at h
        | ok lp =>
          simp only [hlp, pure, Except.pure, Except.ok.injEq] at h
          subst h
          refine ⟨_, rfl, ⟨rfl, rfl, rfl, ?_⟩, rfl, rfl, nt, false, (by first | exact hnt | rfl), (by first | exact hrk | rfl), rfl⟩
          intro b hb; subst hb; rfl
      | true =>
        rw [sessionOf_inner s nt id r qr0 hnt hrk]
        unfold innerSession
        simp only [Bool.not_true, Bool.false_eq_true, if_false] at h
        cases hif : Slim.innerFrom s r with
        | error e => simp [hif] at h
        | ok fss =>
          obtain ⟨frm, size, short⟩ := fss
          simp only [hif] at h
          cases hinn : s.inners with
          | none => simp [hinn] at h
          | some inn =>
            simp only [hinn] at h
            cases hr128 : rank128 inn frm with
            | error e => simp [hr128] at h
            | ok r0c =>
              obtain ⟨r0, c⟩ := r0c
              simp only [hr128] at h
              cases hips : s.innerPrefixes with
              | none => simp [hips] at h
              | some ips =>
                simp only [hips] at h
                cases hpb : prefBlock ips r with
                | error e => simp [hpb] at h
                | ok p =>
                  simp only [hpb, pure, Except.pure, Except.ok.injEq] at h
                  obtain ⟨rp, hrp, hp⟩ := rawPref_of_prefBlock s ips r p hips hpb
                  subst h
                  simp only [bind, Except.bind, hrp]
                  cases rp with
                  | none =>
                    refine ⟨_, rfl, ⟨rfl, inn, size, short, r0, c, hinn, hif, rfl, ?_, rfl, ?_, rfl, hr128, rfl, ?_⟩, rfl, rfl, nt, true, (by first | exact hnt | rfl), (by first | exact hrk | rfl), rfl⟩
                    · intro bm hbm; subst hbm; rfl
                    · by_cases hb : r < s.bigInnerCnt <;> simp [hb]
                    · rw [← hp]; exact ⟨rfl, rfl⟩
                  | step b0 b1 =>
                    refine ⟨_, rfl, ⟨rfl, inn, size, short, r0, c, hinn, hif, rfl, ?_, rfl, ?_, rfl, hr128, rfl, ?_⟩, rfl, rfl, nt, true, (by first | exact hnt | rfl), (by first | exact hrk | rfl), rfl⟩
                    · intro bm hbm; subst hbm; rfl
                    · by_cases hb : r < s.bigInnerCnt <;> simp [hb]
                    · rw [← hp]; exact ⟨rfl, rfl⟩
                  | stored bs =>
                    refine ⟨_, rfl, ⟨rfl, inn, size, short, r0, c, hinn, hif, rfl, ?_, rfl, ?_, rfl, hr128, rfl, ?_⟩, rfl, rfl, nt, true, (by first | exact hnt | rfl), (by first | exact hrk | rfl), rfl⟩
                    · intro bm hbm; subst hbm; rfl
                    · by_cases hb : r < s.bigInnerCnt <;> simp [hb]
                    · rw [← hp]; exact ⟨rfl, bs, rfl, rfl, rfl⟩

/-- **`getNode` and the model's node.**  Whenever `Slim.getNode s id` succeeds (what the model-level
    theorems prove for every node of a built trie), the Go `getNode` does not panic and the session it
    leaves decodes (`Decodes`) to exactly the model's node record. -/
theorem getNode_ok (s : SlimMsg) (id : Nat) (qr0 : W.querySession) (node : Node) (hfit : GetNodeFits s id)
    (h : Slim.getNode s id = .ok node) :
    ∃ qr, W.SlimTrie.getNode (absTrie s (varsOf s)) id qr0 = some qr ∧ Decodes s qr node ∧
      qr.key = qr0.key ∧ qr.keyBitLen = qr0.keyBitLen ∧
      ∃ nt b, s.nodeTypeBM = some nt ∧ rank64 nt id = .ok (qr.ithInner, b) ∧ qr.isInner = b2n b := by
  obtain ⟨qr, hs, hd⟩ := sessionOf_decodes s id qr0 node h
  exact ⟨qr, by rw [getNode_sem s id qr0 hfit, hs]; rfl, hd⟩

/-- `initVars` whole: it caches exactly `varsOf s` (and panics when `ShortSize` is not an index of
    the table `bitmap.Mask`, i.e. above 64) -/
theorem initVars_sem (s : SlimMsg) (v0 : Option W.slimVars) (hbig : s.bigInnerCnt < 2 ^ 31)
    (hss : s.shortSize < 2 ^ 31) :
    W.SlimTrie.initVars { inner := some (absSlim s), vars := v0 }
      = if s.shortSize ≤ 64 then some (absTrie s (varsOf s)) else none := by
  unfold W.SlimTrie.initVars Go.maskAt
  simp only [absSlim, Go.deref, Option.bind_eq_bind, Option.bind_some, Option.pure_def]
  by_cases h : s.shortSize ≤ 64
  · simp only [h, if_true, Option.bind_some, absTrie, absSlim, varsOf]
    have e1 : Go.mul 32 240 s.bigInnerCnt = Go.ofS 32 (240 * (s.bigInnerCnt : Int)) := by
      conv => lhs; rw [← ofS_natCast (w := 32) (n := s.bigInnerCnt) (by omega),
        ← ofS_natCast (w := 32) (n := 240) (by omega)]
      rw [mul_ofS]; rfl
    have e2 : Go.sub 32 s.shortSize 17 = Go.ofS 32 ((s.shortSize : Int) - 17) := by
      conv => lhs; rw [← ofS_natCast (w := 32) (n := s.shortSize) (by omega),
        ← ofS_natCast (w := 32) (n := 17) (by omega)]
      rw [sub_ofS]; rfl
    rw [e1, e2]
  · simp [h]

/-! non-vacuity: `exSlim` (Extern.lean), node 1 (inner, stored prefix "b" + half-byte 6) and node 6
    (the leaf of "bcd" with leaf prefix "cd") -/

example : W.SlimTrie.getNode (absTrie exSlim (varsOf exSlim)) 1 exQr
    = some { exQr with wordSize := 4, from_ := 17, to := 34, isInner := 1, ithInner := 1, hasInnerPrefix := true,
                       innerPrefixLen := 12, innerPrefix := [98, 96, 240] } := by decide
example : W.SlimTrie.getNode (absTrie exSlim (varsOf exSlim)) 6 exQr
    = some { exQr with ithInner := 3, ithLeaf := 3, hasLeafPrefix := true, leafPrefix := [99, 100] } := by decide
example : W.SlimTrie.getNode (absTrie exSlim (varsOf exSlim)) 64 exQr = none := by decide
example : (Slim.getNode exSlim 1).toOption
    = some (.inner { big := false, labels := [4, 5], firstChild := 3, pref := .stored [6, 2, 6] }) := by decide

example : W.SlimTrie.initVars { inner := some (absSlim exSlim), vars := none } = some (absTrie exSlim (varsOf exSlim)) := by
  decide

example : GetNodeFits exSlim 1 where
  wf := exSlim_wf
  id_lt := by decide
  rank_le := by intro nt r b hnt hrk; cases hnt; cases hrk; decide
  leaf := by intro nt r hnt hrk; cases hnt; cases hrk
  inner := by
    intro nt r hnt hrk; cases hnt; cases hrk
    exact {
      ith_lt := by decide
      shortSize_le := by decide
      big_fits := by intro h; cases h
      small_fits := by intro sbm k c h1 h2; cases h1; cases h2; decide
      rank_sub := by intro ips pres w n h1 h2 h3 h4; cases h1; cases h2; cases h3; cases h4; decide
      pref_fits := by intro ips pres k c h1 h2 h3; cases h1; cases h2; cases h3; decide
      pos_fits := by intro ips pos h1 h2; cases h1; cases h2; decide }

end BridgeSem

#print axioms BridgeSem.initVars_sem
#print axioms BridgeSem.getLeafIndexW_sem
#print axioms BridgeSem.getLeafPrefixW_sem
#print axioms BridgeSem.getNode_inner_sem
#print axioms BridgeSem.getNode_sem
#print axioms BridgeSem.sessionOf_decodes
#print axioms BridgeSem.getNode_ok
