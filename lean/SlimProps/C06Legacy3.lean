import SlimProofs.LegacyConvertEnc
import SlimProofs.LookupTotal
import SlimProofs.Transport
import SlimProofs.Refine
import SlimProofs.VLen
import SlimProofs.StatLemmas
import SlimProps.C09
import SlimProps.C02
import SlimProps.C18

/-
  SlimProps.C06Legacy3 — C06 for the three-section layouts (≤ 0.5.9): the index the loader builds
  from the sections of an old stream answers exactly as the index the stream encodes.

  From `convert_wf` (SlimProofs.LegacyConvertMain: the converted records, with `firstChild` and the
  leaf key indexes filled in, are a well-formed trie of ALL keys — nothing is dropped — and
  `ShapeOK`) and `encodeCreator_fixup` (the creator reads neither), every record-level theorem
  applies to `T = fixup lk t'` and is transported to the loader's view
  `v = Slim.view (Slim.encodeCreator t')` through `Transport.viewSim_encode`:

  * `C06_convert_ok_legacy3`   the conversion succeeds (incl. its fuel)
  * `C06_get_legacy3`          `Get keys[i] = found, vals[i]`            (from `getID_kept`)
  * `C06_rangeget_legacy3`     `RangeGet keys[i] = found, vals[i]`       (from `searchID_kept`)
  * `C06_search_legacy3`       `Search keys[i] = (vals[i-1] | nil, vals[i], vals[i+1] | nil)`
  * `C06_total_legacy3`        `GetID/Get/RangeGet/Search` return normally on EVERY query string
  * `C06_keycnt_legacy3`       `init` succeeds and `Stat` reports `KeyCnt = n`
  for every variant 0.5.0 … 0.5.9 (both children encodings, leaf steps, the 0.5.9 index
  extension), every non-empty strictly ascending key list within the layout's `uint16` step limit
  (`hkl`), fixed-width values of any width `w` (value nil when `w = 0`: `C06L3.val`).
  Level: the three section messages (`sections3` = what `writeLegacy3` frames); the wire decoding of
  the frames is C05/C07's business.
-/

open LegacyConvert LegacyWrite Legacy Subtree SearchDescent Transport

namespace C06L3

/-- the value a lookup reports for key `i` of a loaded three-section stream whose values have
    width `w`: nil when the width is 0 (the converted trie stores no leaf array then) -/
def val (w : Nat) (vals : List Bytes) (i : Nat) : Option Bytes :=
  if w = 0 then none else some (vals.getD i [])

/-- everything the corollaries need about the trie the loader ends with -/
structure Loaded (keys vals : List Bytes) (w : Nat) (t' : Trie1) (T : Trie1)
    (queue : Array Subset) : Prop where
  q : QOK keys (List.replicate keys.length true) T queue
  root : queue[0]? = some { s := 0, e := keys.length, fb := 0 }
  shape : ShapeOK T
  enc : Slim.encode T = Slim.encodeCreator t'
  facts : EncodeFacts T
  elts : T.elts = some (T.leafKeyIdx.toList.map (fun k => vals.getD k []))
  cnt : T.leafKeyIdx.size = keys.length
  size : T.nodes.size = t'.nodes.size

theorem loaded (vr : Variant) (keys vals : List Bytes) (w : Nat) (ch st lv : Array32Msg)
    (hne : keys ≠ []) (hasc : strictAsc keys = true) (hlen : vals.length = keys.length)
    (hw : ∀ v ∈ vals, v.length = w) (hkl : ∀ k ∈ keys, 2 * k.length < 65535)
    (hsec : sections3 vr keys vals = .ok (ch, st, lv)) :
    ∃ t' T queue, convert ch st lv (some w) = .ok t' ∧ Loaded keys vals w t' T queue := by
  obtain ⟨t', lk, hconv, _, _, helts, hcnt, hwf, hs⟩ :=
    convert_wf vr keys vals w ch st lv hne hasc hlen hw hkl hsec
  obtain ⟨queue, hq, hroot⟩ := (wf_iff keys _ _).mp hwf
  have hn : (fixup lk t').nodes.size ≠ 0 := by have := hs.nonempty; omega
  have henc : Slim.encode (fixup lk t') = Slim.encodeCreator t' := by
    unfold Slim.encode
    rw [if_neg hn, encodeCreator_fixup]
  refine ⟨t', fixup lk t', queue, hconv, hq, hroot, hs, henc, ?_, helts, hcnt,
    fixNodes_size t'.nodes⟩
  exact
    { node := fun id hid => getNode_encode _ hs id hid
      leaf := fun ith r h => by rw [Slim.leafBytes_encode _ hn ith]; exact h
      cnt := view_encode_nodeCnt _ hs }

section
variable {keys vals : List Bytes} {w : Nat} {t' T : Trie1} {queue : Array Subset}

theorem Loaded.wf (L : Loaded keys vals w t' T queue) :
    WF keys (List.replicate keys.length true) T := (wf_iff _ _ _).mpr ⟨queue, L.q, L.root⟩

/-- the loader's view simulates the record view of the repaired trie -/
theorem Loaded.sim (L : Loaded keys vals w t' T queue) :
    ViewSim T.view (Slim.view (Slim.encodeCreator t')) T.nodes.size := by
  rw [← L.enc]; exact viewSim_encode T L.facts

/-- the leaf of key `i` carries the value of key `i` -/
theorem Loaded.getLeaf (L : Loaded keys vals w t' T queue) (hlen : vals.length = keys.length)
    (hw : ∀ v ∈ vals, v.length = w) (id i : Nat) (hi : i < keys.length)
    (hleaf : IsLeafOf T id i) : getLeaf T.view id = .ok (val w vals i) := by
  obtain ⟨ith, lp, hnd, hidx⟩ := hleaf
  have hnode : T.view.node id = .ok (.leaf ith lp) := by
    show (match T.nodes[id]? with
      | some n => Except.ok n
      | none => Except.error (Err.panic "node id out of range")) = _
    rw [hnd]
  unfold _root_.getLeaf
  rw [hnode]
  show T.view.leafBytes ith = _
  show (match T.elts with
    | none => Except.ok none
    | some es =>
      if eltsTotal es = 0 then Except.ok none else
      match es[ith]? with
      | some b => Except.ok (some b)
      | none => Except.error (Err.panic "out of bound")) = _
  rw [L.elts]
  simp only
  have hth : (T.leafKeyIdx.toList.map (fun k => vals.getD k []))[ith]? = some (vals.getD i []) := by
    rw [List.getElem?_map, Array.getElem?_toList, hidx]; rfl
  have hvi : (vals.getD i []).length = w := by
    rw [List.getD_eq_getElem?_getD, List.getElem?_eq_getElem (by omega)]
    exact hw _ (List.getElem_mem _)
  have hz : eltsTotal (T.leafKeyIdx.toList.map (fun k => vals.getD k [])) = 0 ↔ w = 0 := by
    rw [C09.eltsTotal_eq_zero_iff]
    constructor
    · intro h
      have := h _ (List.mem_of_getElem? hth)
      rw [this] at hvi; exact hvi.symm
    · intro h0 b hb
      obtain ⟨k, _, rfl⟩ := List.mem_map.mp hb
      rw [List.getD_eq_getElem?_getD]
      cases hk : vals[k]? with
      | none => rfl
      | some v =>
        have := hw v (List.mem_of_getElem? hk)
        exact List.length_eq_zero_iff.mp (by simp only [Option.getD_some]; omega)
  unfold val
  by_cases h0 : w = 0
  · rw [if_pos (hz.mpr h0), if_pos h0]
  · rw [if_neg (fun h => h0 (hz.mp h)), if_neg h0, hth]

end

end C06L3

/-! ### the corollaries

  Hypotheses throughout: a non-empty strictly ascending key list, one value of width `w` per key,
  keys within the `uint16` step limit of the layout, `sections3 vr keys vals = .ok (ch, st, lv)`
  (the three sections an old writer of variant `vr` produced) and
  `convert ch st lv (some w) = .ok t'` (the loader's conversion; it always succeeds:
  `C06_convert_ok_legacy3`).  `v := Slim.view (Slim.encodeCreator t')` is the view the loader ends
  with. -/

section cor
variable (vr : Variant) (keys vals : List Bytes) (w : Nat) (ch st lv : Array32Msg)
  (hne : keys ≠ []) (hasc : strictAsc keys = true) (hlen : vals.length = keys.length)
  (hw : ∀ v ∈ vals, v.length = w) (hkl : ∀ k ∈ keys, 2 * k.length < 65535)
  (hsec : sections3 vr keys vals = .ok (ch, st, lv))
include hne hasc hlen hw hkl hsec

/-- the conversion succeeds -/
theorem C06_convert_ok_legacy3 : ∃ t', convert ch st lv (some w) = .ok t' := by
  obtain ⟨t', _, _, h, _⟩ := C06L3.loaded vr keys vals w ch st lv hne hasc hlen hw hkl hsec
  exact ⟨t', h⟩

variable (t' : Trie1) (hconv : convert ch st lv (some w) = .ok t')
include hconv

theorem C06L3.loaded_of : ∃ T queue, C06L3.Loaded keys vals w t' T queue := by
  obtain ⟨t'', T, queue, h, L⟩ := C06L3.loaded vr keys vals w ch st lv hne hasc hlen hw hkl hsec
  rw [hconv] at h
  cases h
  exact ⟨T, queue, L⟩

/-- **C06 (Get, three-section layouts).**  Every indexed key is found, with its own value. -/
theorem C06_get_legacy3 (i : Nat) (hi : i < keys.length) :
    get (Slim.view (Slim.encodeCreator t')) (keys.getD i []) = .ok (some (C06L3.val w vals i)) := by
  obtain ⟨T, queue, L⟩ := C06L3.loaded_of vr keys vals w ch st lv hne hasc hlen hw hkl hsec t' hconv
  obtain ⟨id, ith, lp, hget, hnd, hidx⟩ :=
    getID_kept keys _ T hasc L.wf i hi (keptAt_replicate _ _ hi)
  have hleaf := L.getLeaf hlen hw id i hi ⟨ith, lp, hnd, hidx⟩
  apply get_le L.sim
  unfold _root_.get
  rw [hget]
  show (getLeaf T.view id >>= fun x => pure (some x)) = _
  rw [hleaf]; rfl

/-- **C06 (RangeGet).**  Every indexed key is found by `RangeGet`, with its own value. -/
theorem C06_rangeget_legacy3 (i : Nat) (hi : i < keys.length) :
    rangeGet (Slim.view (Slim.encodeCreator t')) (keys.getD i [])
      = .ok (some (C06L3.val w vals i)) := by
  obtain ⟨T, queue, L⟩ := C06L3.loaded_of vr keys vals w ch st lv hne hasc hlen hw hkl hsec t' hconv
  obtain ⟨l, id, r, hsid, hleaf, _, _⟩ :=
    searchID_kept keys _ T hasc L.wf i hi (keptAt_replicate _ _ hi)
  apply rangeGet_le L.sim
  exact C02.rangeGet_eq _ _ l r id _ hsid (L.getLeaf hlen hw id i hi hleaf)

/-- **C06 (Search).**  On every indexed key `Search` returns the values of its exact neighbours
    in the key list (nil at either end) and of the key itself. -/
theorem C06_search_legacy3 (i : Nat) (hi : i < keys.length) :
    search (Slim.view (Slim.encodeCreator t')) (keys.getD i []) =
      .ok (if i = 0 then none else some (C06L3.val w vals (i - 1)),
           some (C06L3.val w vals i),
           if i + 1 < keys.length then some (C06L3.val w vals (i + 1)) else none) := by
  obtain ⟨T, queue, L⟩ := C06L3.loaded_of vr keys vals w ch st lv hne hasc hlen hw hkl hsec t' hconv
  obtain ⟨l, id, r, hsid, hleaf, hlres, hrres⟩ :=
    searchID_kept keys _ T hasc L.wf i hi (keptAt_replicate _ _ hi)
  apply search_le L.sim
  refine C09.search_of_searchID _ _ l (some id) r _ _ _ hsid ?_ ?_ ?_
  · cases l with
    | none =>
      have hi0 : i = 0 := by
        rcases Nat.eq_zero_or_pos i with h | h
        · exact h
        · have := hlres (i - 1) (by omega)
          rw [keptAt_replicate _ _ (by omega)] at this; cases this
      rw [if_pos hi0]; rfl
    | some idl =>
      obtain ⟨ml, hl1, hm1, hm2, hm3, hm4⟩ := hlres
      have hml : ml = i - 1 := by
        by_cases h : ml = i - 1
        · exact h
        · have := hm4 (i - 1) (by omega) (by omega)
          rw [keptAt_replicate _ _ (by omega)] at this; cases this
      have hi0 : ¬ i = 0 := by omega
      rw [if_neg hi0, ← hml]
      exact C09.leafOpt_some _ _ _ (L.getLeaf hlen hw idl ml (by omega) hl1)
  · exact C09.leafOpt_some _ _ _ (L.getLeaf hlen hw id i hi hleaf)
  · cases r with
    | none =>
      have hin : ¬ i + 1 < keys.length := by
        intro h
        have := hrres (i + 1) (by omega) h
        rw [keptAt_replicate _ _ h] at this; cases this
      rw [if_neg hin]; rfl
    | some idr =>
      obtain ⟨mr, hr1, hm1, hm2, hm3, hm4⟩ := hrres
      have hmr : mr = i + 1 := by
        by_cases h : mr = i + 1
        · exact h
        · have := hm4 (i + 1) (by omega) (by omega)
          rw [keptAt_replicate _ _ (by omega)] at this; cases this
      have hin : i + 1 < keys.length := by omega
      rw [if_pos hin, ← hmr]
      exact C09.leafOpt_some _ _ _ (L.getLeaf hlen hw idr mr hm2 hr1)

/-- **C06 (totality).**  On the loaded index every lookup returns normally for every query string. -/
theorem C06_total_legacy3 (q : Bytes) :
    (∃ a, getID (Slim.view (Slim.encodeCreator t')) q = .ok a) ∧
    (∃ a, get (Slim.view (Slim.encodeCreator t')) q = .ok a) ∧
    (∃ a, rangeGet (Slim.view (Slim.encodeCreator t')) q = .ok a) ∧
    (∃ a, search (Slim.view (Slim.encodeCreator t')) q = .ok a) := by
  obtain ⟨T, queue, L⟩ := C06L3.loaded_of vr keys vals w ch st lv hne hasc hlen hw hkl hsec t' hconv
  have hpos := L.shape.nonempty
  have hv := Render.viewOK_of_wf_shape L.q L.shape
  obtain ⟨a1, h1, _⟩ := LookupTotal.getID_total_wf L.q L.root hasc hpos q
  obtain ⟨a2, h2⟩ := LookupTotal.get_total_wf L.q L.root hasc hv hpos q
  obtain ⟨a3, h3⟩ := LookupTotal.rangeGet_total_wf L.q L.root hasc hv hpos q
  obtain ⟨a4, h4⟩ := LookupTotal.search_total_wf L.q L.root hasc hv hpos q
  exact ⟨⟨a1, getID_le L.sim q a1 h1⟩, ⟨a2, get_le L.sim q a2 h2⟩,
    ⟨a3, rangeGet_le L.sim q a3 h3⟩, ⟨a4, search_le L.sim q a4 h4⟩⟩

end cor

open Slim Refine StatLemmas in
/-- the repaired trie satisfies the hypotheses of the level-table theorems -/
theorem C06L3.treeOK {keys vals : List Bytes} {w : Nat} {t' T : Trie1} {queue : Array Subset}
    (L : C06L3.Loaded keys vals w t' T queue) : TreeOK T := by
  refine ⟨L.shape, ?_, ?_⟩
  · intro j r hj
    obtain ⟨hlt, hn⟩ := Array.getElem?_eq_some_iff.mp hj
    obtain ⟨o, _, _, hnode⟩ := L.q.node j hlt
    rw [hn] at hnode
    obtain ⟨_, ws, _, _, _, _, _, _, _, hfc, _⟩ := hnode
    exact hfc
  · intro j r hj
    obtain ⟨hlt, hn⟩ := Array.getElem?_eq_some_iff.mp hj
    obtain ⟨o, _, hsub, hnode⟩ := L.q.node j hlt
    rw [hn] at hnode
    obtain ⟨_, ws, _, _, _, _, hmem, _, _, _, hkids⟩ := hnode
    obtain ⟨x, h1, h2, h3⟩ := hsub.kept
    have hpos : 0 < r.labels.length := List.length_pos_of_mem ((hmem _).mpr ⟨x, h1, h2, h3, rfl⟩)
    obtain ⟨c, hc, _⟩ := hkids 0 hpos
    have := (Array.getElem?_eq_some_iff.mp hc).1
    have := L.q.size
    omega

section cor2
variable (vr : Variant) (keys vals : List Bytes) (w : Nat) (ch st lv : Array32Msg)
  (hne : keys ≠ []) (hasc : strictAsc keys = true) (hlen : vals.length = keys.length)
  (hw : ∀ v ∈ vals, v.length = w) (hkl : ∀ k ∈ keys, 2 * k.length < 65535)
  (hsec : sections3 vr keys vals = .ok (ch, st, lv))
  (t' : Trie1) (hconv : convert ch st lv (some w) = .ok t')
include hne hasc hlen hw hkl hsec hconv

open Slim Refine StatLemmas in
/-- **C06 (Stat).**  `init` succeeds on the loaded message and `Stat` reports exactly `n` keys
    (and as many nodes as the conversion made). -/
theorem C06_keycnt_legacy3 :
    ∃ lvl, initLevels (encodeCreator t') = .ok lvl ∧
      stat (encodeCreator t') lvl
        = .ok { levels := lvl, keyCnt := keys.length, nodeCnt := t'.nodes.size } := by
  obtain ⟨T, queue, L⟩ := C06L3.loaded_of vr keys vals w ch st lv hne hasc hlen hw hkl hsec t' hconv
  have htree := C06L3.treeOK L
  obtain ⟨cs, _, _, h⟩ := initLevels_encode htree
  have hpos := L.shape.nonempty
  have hsum := leaves_add_inners T.nodes T.nodes.size (Nat.le_refl _)
  have hleaf : leavesBefore T.nodes T.nodes.size = keys.length := by
    rw [← L.shape.leafCnt]; exact L.cnt
  have hlast : ((cs ++ [T.nodes.size]).map (entry T)).getLast?
      = some (T.nodes.size, C18.innerCnt T, T.nodes.size - C18.innerCnt T) := by
    rw [List.map_append, List.map_cons, List.map_nil, List.getLast?_append]
    rfl
  rw [L.enc] at h
  refine ⟨_, h, ?_⟩
  rw [← L.enc]
  unfold stat
  rw [hlast]
  have hnt : (encode T).nodeTypeBM.isNone = false := by
    rw [encode_eq T (by omega), enc_nodeTypeBM, if_neg (by omega)]; rfl
  simp only [hnt, Bool.false_eq_true, if_false]
  rw [← L.size]
  congr 2
  unfold C18.innerCnt at *; omega

end cor2

/-! ### non-vacuity -/

namespace C06L3.Ex

def keys : List Bytes := [[0x61], [0x61, 0x62], [0x61, 0x80, 0x01], [0x62, 0xff], [0xf0]]
def vals : List Bytes := [[1], [2], [3], [4], [5]]
/-- the 0.5.9 variant: bitmap children, extended index bitmaps -/
def vr : Variant := { header := "0.5.9", bitmapChild := true, extendedIdx := true }
/-- the 0.5.0 variant: uint32 children, steps also on leaves -/
def vr0 : Variant := { header := "1.0.0", leafSteps := true }

/-- the hypotheses are satisfiable for both children encodings ("a" is a prefix of "ab": an old
    node that is inner and leaf), and by the theorems the loaded index finds "ab" with its value and
    returns the exact neighbours of "a\x80\x01" -/
example : ∀ v ∈ [vr, vr0], ∃ ch st lv t', sections3 v keys vals = .ok (ch, st, lv) ∧
    convert ch st lv (some 1) = .ok t' ∧
    get (Slim.view (Slim.encodeCreator t')) [0x61, 0x62] = .ok (some (some [2])) ∧
    search (Slim.view (Slim.encodeCreator t')) [0x61, 0x80, 0x01]
      = .ok (some (some [2]), some (some [3]), some (some [4])) := by
  intro v hv
  have hne : keys ≠ [] := by decide
  have hasc : strictAsc keys = true := by decide
  have hlen : vals.length = keys.length := rfl
  have hw : ∀ x ∈ vals, x.length = 1 := by decide
  have hkl : ∀ k ∈ keys, 2 * k.length < 65535 := by decide
  have hvar : v = vr ∨ v = vr0 := by simpa using hv
  have hok : (sections3 v keys vals).toBool = true := by
    rcases hvar with rfl | rfl <;> decide +kernel
  match hs : sections3 v keys vals with
  | .error e => rw [hs] at hok; cases hok
  | .ok (ch, st, lv) =>
    obtain ⟨t', ht'⟩ := C06_convert_ok_legacy3 v keys vals 1 ch st lv hne hasc hlen hw hkl hs
    refine ⟨ch, st, lv, t', rfl, ht', ?_, ?_⟩
    · exact C06_get_legacy3 v keys vals 1 ch st lv hne hasc hlen hw hkl hs t' ht' 1 (by decide)
    · exact C06_search_legacy3 v keys vals 1 ch st lv hne hasc hlen hw hkl hs t' ht' 2 (by decide)

end C06L3.Ex

#print axioms C06_convert_ok_legacy3
#print axioms C06_get_legacy3
#print axioms C06_rangeget_legacy3
#print axioms C06_search_legacy3
#print axioms C06_total_legacy3
#print axioms C06_keycnt_legacy3
