import Generated.Funcs
import SlimProps.BridgeSem.PrintAxioms
import SlimProps.BridgeSem.Common
import SlimProps.BridgeSem.Extern
import SlimModel.Legacy
import SlimProofs.BitsLemmas.Words

/-
  SlimProps.BridgeSem.LegacyLeaf — tie 1, semantic part, the LEGACY LOADER (trie/slimtrie_marshal.go):
  `before000512FixLeafSize` translated WHOLE (`Generated.W.before000512FixLeafSize`: the nil test of
  `Leaves`, the nil test of `PresenceBM`, the explicit `panic`, `int32(st.encoder.GetEncodedSize(nil))`,
  the `int32` division with its divide-by-zero panic, `make`, the `for i := 0; i < n; i++` loop with the
  element assignments, `newBM(indexes, n, "r64")`, and the four assignments THROUGH the local pointer
  `leaves` — an alias of `st.inner.Leaves` — as updates of the returned `*SlimTrie`)
  = the model's `Legacy.fixLeafSize` (SlimModel/Legacy.lean), INCLUDING when it panics:

    `before000512FixLeafSize_sem`     Generated.W.before000512FixLeafSize fuel (absInst s v) enc
                                        = (okOpt (Legacy.fixLeafSize s enc)).map (absInst · v)
        hypotheses `FixLeafFits s enc` (only when the function has work to do: `Leaves` non-nil,
        `PresenceBM` nil, `FixedSize = 0`, `enc = some w`): `w < 2^31`, `len(Leaves.Bytes) < 2^31` (the two
        `int32(…)` conversions are exact; the model computes in `Nat`), and for `w ≠ 0`
        `len/w + 63 < 2^31` (`bitmap.Of` computes `(n+63)>>6` in `int32`: beyond that Go panics in `make`,
        the model does not); fuel `> len(Leaves.Bytes)` (the loop is translated with fuel).
    `before000512FixLeafSize_panics`  the three panics (non-zero `FixedSize` with nil `PresenceBM`;
        `GetEncodedSize(nil)` panics; element size 0 → integer divide by zero), with NO range hypothesis:
        translated function `none`, model `.error (.panic _)`.

  `enc` is the outcome of `st.encoder.GetEncodedSize(nil)` (the interface field `encoder` is not
  represented; the translator makes the outcome a parameter `encSize_`): `some w` / `none` = panics — the
  same convention as the model's `encSize`.

  External semantics ASSUMED (Generated/GoSem.lean), related to the model here:
    `bitmapOf_sem`       bitmap.Of (transcribed, with its `int32` arithmetic and index panics) = `Bits.ofIdx`
    `indexRank64_sem`    bitmap.IndexRank64 (int32 running count) = `Bits.indexRank64 _ false` below 2^31 bits
    `newBMr64_sem`       trie.newBM(…, "r64") = `Bits.newBM … "r64"` (newBM/indexit are not translated: the
                         translator accepts the call only while their source text is the specified one)
  See SlimProps/BridgeSem.lean for the overview.
-/

set_option linter.unusedSimpArgs false
set_option linter.unusedVariables false

open Generated Bits

namespace BridgeSem

/-! ### external semantics ↔ model: `bitmap.Of`, `bitmap.IndexRank64`, `newBM(…, "r64")` -/

theorem bitmapOf_fold (ps : List Nat) (a : Array Nat)
    (h : ∀ p ∈ ps, p < 2 ^ 31 ∧ p / 64 < a.size) :
    ps.foldlM (fun ws i => do
        let x ← Go.idxS 32 ws (Go.sar 32 i 6)
        Go.setS 32 ws (Go.sar 32 i 6) (Go.or x (Go.shl 64 1 (Go.and i 63)))) a.toList
      = some (ps.foldl setBitStep a).toList := by
  induction ps generalizing a with
  | nil => rfl
  | cons p ps ih =>
    have hp := h p (by simp)
    have hp1 : p < 2 ^ 31 := hp.1
    have hp2 : p / 64 < a.size := hp.2
    rw [List.foldlM_cons, List.foldl_cons]
    have hsar : Go.sar 32 p 6 = p / 64 := by rw [sar_small 6 (by omega)]
    have hj : Go.and p 63 = p % 64 := by rw [and_eq, and_63]
    have hshl : Go.shl 64 1 (p % 64) = 1 <<< (p % 64) := by
      unfold Go.shl Go.wrap
      rw [Nat.one_shiftLeft]
      apply Nat.mod_eq_of_lt
      exact Nat.pow_lt_pow_right (by omega) (by omega)
    have hlt31 : p / 64 < 2 ^ (32 - 1) := by omega
    have hidx : Go.idxS 32 a.toList (p / 64) = some a[p / 64] := by
      rw [idxS_eq 32 _ _ hlt31]; simp [hp2]
    have hset : Go.setS 32 a.toList (p / 64) (Go.or a[p / 64] (1 <<< (p % 64)))
        = some (setBitStep a p).toList := by
      unfold Go.setS
      rw [if_pos ⟨hlt31, by simpa using hp2⟩]
      congr 1
      apply List.ext_getElem?
      intro k
      simp only [setBitStep, Array.getElem?_toList, Array.getElem?_modify, List.getElem?_set,
        Array.length_toList, Go.or]
      by_cases hk : p / 64 = k
      · subst hk; simp [hp2]
      · simp [hk]
    rw [hsar, hj, hshl, hidx]
    simp only [Option.bind_eq_bind, Option.bind_some]
    rw [hset]
    simp only [Option.bind_some]
    apply ih
    intro q hq
    have := h q (by simp [hq])
    refine ⟨this.1, ?_⟩
    simpa [setBitStep] using this.2

/-- `bitmap.Of(ps, capa)` (GoSem transcription) = the model's `Bits.ofIdx`, when the bit count
    `max capa (last+1)` plus 63 is an `int32` and every position is below the bit count -/
theorem bitmapOf_sem (ps : List Nat) (capa : Nat) (hc : max capa (lastSucc ps) + 63 < 2 ^ 31)
    (h : ∀ p ∈ ps, p < max capa (lastSucc ps)) :
    Go.bitmapOf ps capa = some (ofIdx ps capa) := by
  have hn : Go.bitmapOfBits ps capa = max capa (lastSucc ps) := by
    unfold Go.bitmapOfBits
    unfold lastSucc at *
    cases hl : ps.getLast? with
    | none => simp
    | some l =>
      rw [hl] at hc
      simp only at hc ⊢
      have h1 : Go.add 32 l 1 = l + 1 := by rw [add_small (by omega)]
      rw [h1, ltS_small (by omega) (by omega)]
      by_cases hlt : capa < l + 1
      · simp [hlt]; omega
      · simp [hlt]; omega
  unfold Go.bitmapOf
  simp only []
  rw [hn]
  generalize hN : max capa (lastSucc ps) = n at *
  have h2 : Go.sar 32 (Go.add 32 n 63) 6 = (n + 63) / 64 := by
    rw [add_small (by omega), sar_small 6 (by omega)]
  rw [h2]
  have h3 : Go.makeS 32 ((n + 63) / 64) = some (Array.replicate ((n + 63) / 64) 0).toList := by
    unfold Go.makeS
    rw [if_pos (by omega)]
    simp
  rw [h3]
  simp only [Option.bind_eq_bind, Option.bind_some]
  rw [ofIdx_eq, hN]
  apply bitmapOf_fold
  intro p hp
  have := h p hp
  simp only [Array.size_replicate]
  omega

theorem indexRank64_go_sem (ws : List Nat) (n bound : Nat) (hb : n + 64 * ws.length ≤ bound) (hbd : bound < 2 ^ 31) :
    Go.indexRank64.go ws n = Bits.indexRank64.go false ws n := by
  induction ws generalizing n with
  | nil => simp [Go.indexRank64.go, Bits.indexRank64.go]
  | cons w ws ih =>
    simp only [Go.indexRank64.go, Bits.indexRank64.go]
    have hp : Go.popcount64 w = popcount w := rfl
    have hle : popcount w ≤ 64 := by
      rw [← hp]; unfold Go.popcount64
      exact Nat.le_trans (List.length_filter_le _ _) (by simp)
    simp only [List.length_cons] at hb
    have h1 : Go.conv 64 true 32 (Go.popcount64 w) = popcount w := by
      rw [hp, conv_narrow _ _ _ _ (by omega)]
      apply Nat.mod_eq_of_lt; omega
    rw [h1, add_small (by omega)]
    congr 1
    apply ih
    omega

/-- `bitmap.IndexRank64(words)` (GoSem transcription) = the model's `Bits.indexRank64 words false`
    for fewer than 2^31 bits -/
theorem indexRank64_sem (ws : List Nat) (h : 64 * ws.length < 2 ^ 31) :
    Go.indexRank64 ws = Bits.indexRank64 ws false := by
  unfold Go.indexRank64 Bits.indexRank64
  exact indexRank64_go_sem ws 0 (64 * ws.length) (by omega) h

/-- `newBM(ps, capa, "r64")` = the model's `Bits.newBM ps capa "r64"` -/
theorem newBMr64_sem (ps : List Nat) (capa : Nat) (hc : max capa (lastSucc ps) + 63 < 2 ^ 31)
    (h : ∀ p ∈ ps, p < max capa (lastSucc ps)) :
    Go.newBMr64 ps capa = some ((newBM ps capa "r64").words, (newBM ps capa "r64").rankIndex) := by
  unfold Go.newBMr64
  rw [bitmapOf_sem ps capa hc h]
  simp only [Option.bind_eq_bind, Option.bind_some, Option.pure_def]
  have hl : 64 * (ofIdx ps capa).length < 2 ^ 31 := by
    rw [ofIdx_length']; omega
  rw [indexRank64_sem _ hl]
  rfl

/-! ### `before000512FixLeafSize` -/

/-- the `for i := int32(0); i < n; i++ { indexes[i] = i }` loop: with enough fuel it ends with
    `i = n` and `indexes[k] = k` for the positions it visited -/
theorem fixLeafSize_loop_sem (n : Nat) (hn : n < 2 ^ 31) :
    ∀ (fuel i : Nat) (idx : List Nat), i ≤ n → n - i < fuel → idx.length = n →
      Generated.W.before000512FixLeafSize_loop1 n fuel (i, idx)
        = some (Sum.inr (n, idx.take i ++ List.range' i (n - i))) := by
  intro fuel
  induction fuel with
  | zero => intro i idx _ h; omega
  | succ fuel ih =>
    intro i idx hi hf hlen
    unfold Generated.W.before000512FixLeafSize_loop1
    by_cases hlt : i < n
    · have hset : Go.setS 32 idx i i = some (idx.set i i) := by
        unfold Go.setS; rw [if_pos ⟨by omega, by omega⟩]
      have hadd : Go.add 32 i 1 = i + 1 := by rw [add_small (by omega)]
      have hc : Go.ltS 32 i n = true := by rw [ltS_small (by omega) (by omega)]; simpa using hlt
      have hc2 : Go.leS 32 n i = false := by rw [leS_small (by omega) (by omega)]; simpa using hlt
      simp only [hc, hc2, if_true, Bool.false_eq_true, if_false, ↓reduceIte, hset, hadd, Option.bind_eq_bind,
        Option.bind_some]
      rw [ih (i + 1) (idx.set i i) (by omega) (by omega) (by simpa using hlen)]
      congr 3
      rw [take_succ_set idx i i (by omega)]
      have : n - i = (n - (i + 1)) + 1 := by omega
      rw [this, List.range'_succ]
      simp
    · have hin : i = n := by omega
      have hc : Go.ltS 32 i n = false := by rw [ltS_small (by omega) (by omega)]; simpa using hlt
      have hc2 : Go.leS 32 n i = true := by rw [leS_small (by omega) (by omega)]; simp; omega
      simp only [hc, hc2, if_true, Bool.false_eq_true, if_false, ↓reduceIte]
      subst hin
      simp [List.take_of_length_le (Nat.le_of_eq hlen)]

/-- the `*SlimTrie` the loader works on: the message, and whatever `vars` holds -/
def absInst (s : SlimMsg) (v : Option W.slimVars) : W.SlimTrie := { inner := some (absSlim s), vars := v }

/-- the `int32` conversions of `before000512FixLeafSize` are exact: the element size and the length of
    `Leaves.Bytes` are below 2^31, and the number of leaves plus 63 is (`bitmap.Of` rounds up to words) -/
def FixLeafFits (s : SlimMsg) (enc : Option Nat) : Prop :=
  ∀ lv w, s.leaves = some lv → lv.presenceBM = none → lv.fixedSize = 0 → enc = some w →
    w < 2 ^ 31 ∧ lv.bytes.length < 2 ^ 31 ∧ (w ≠ 0 → lv.bytes.length / w + 63 < 2 ^ 31)

theorem lastSucc_range (n : Nat) : lastSucc (List.range n) = n := by
  unfold lastSucc
  cases n with
  | zero => rfl
  | succ n => simp [List.range_succ]

theorem except_map_error {α β : Type} (f : α → β) (e : Err) :
    f <$> (Except.error e : Except Err α) = Except.error e := rfl
theorem except_map_ok {α β : Type} (f : α → β) (a : α) :
    f <$> (Except.ok a : Except Err α) = Except.ok (f a) := rfl
theorem except_bind_error {α β : Type} (f : α → Except Err β) (e : Err) :
    ((Except.error e : Except Err α) >>= f) = Except.error e := rfl

theorem before000512FixLeafSize_sem (s : SlimMsg) (enc : Option Nat) (v : Option W.slimVars) (fuel : Nat)
    (hfit : FixLeafFits s enc)
    (hfuel : ∀ lv, s.leaves = some lv → lv.bytes.length < fuel) :
    Generated.W.before000512FixLeafSize fuel (absInst s v) enc
      = (okOpt (Legacy.fixLeafSize s enc)).map (fun s' => absInst s' v) := by
  unfold Generated.W.before000512FixLeafSize Legacy.fixLeafSize
  cases hl : s.leaves with
  | none => simp [absInst, absSlim, hl, Go.deref]
  | some lv =>
    cases hp : lv.presenceBM with
    | some bm => simp [absInst, absSlim, absVLen, hl, hp, Go.deref]
    | none =>
      by_cases hf : lv.fixedSize = 0
      · cases he : enc with
        | none => simp [absInst, absSlim, absVLen, hl, hp, hf, Go.deref, Go.encodedSize, except_map_error]
        | some w =>
          obtain ⟨hw, hlen, hn⟩ := hfit lv w hl hp hf he
          have hcw : Go.conv 64 true 32 w = w := by
            rw [conv_narrow _ _ _ _ (by omega)]; exact Nat.mod_eq_of_lt (by omega)
          have hcl : Go.conv 64 true 32 (natBytes lv.bytes).length = lv.bytes.length := by
            rw [conv_narrow _ _ _ _ (by omega), natBytes_length]; exact Nat.mod_eq_of_lt (by omega)
          by_cases hw0 : w = 0
          · subst hw0
            simp [absInst, absSlim, absVLen, hl, hp, hf, Go.deref, Go.encodedSize, Go.divChkS, hcw,
              except_map_error]
          · have hdiv : Go.divChkS 32 lv.bytes.length w = some (lv.bytes.length / w) := by
              unfold Go.divChkS
              rw [if_neg hw0, divS_small (by omega) (by omega) (by omega)]
            have hnle : lv.bytes.length / w ≤ lv.bytes.length := Nat.div_le_self _ _
            have hn' := hn hw0
            have hfl := hfuel lv hl
            generalize hN : lv.bytes.length / w = n at *
            have hmk : Go.makeS 32 n = some (List.replicate n 0) := by
              unfold Go.makeS; rw [if_pos (by omega)]
            have hloop := fixLeafSize_loop_sem n (by omega) fuel 0
              (List.replicate n 0) (by omega) (by omega) (by simp)
            have hbm := newBMr64_sem (List.range n) n
              (by rw [lastSucc_range]; simpa using hn')
              (by intro p hp; rw [lastSucc_range]; simpa using hp)
            have hsel : (newBM (List.range n) n "r64").selectIndex = [] := rfl
            simp only [List.take_zero, List.nil_append, Nat.sub_zero, ← List.range_eq_range'] at hloop
            simp [absInst, absSlim, absVLen, absBitmap, hl, hp, hf, Go.deref, Go.encodedSize, hcw, hcl,
              hdiv, hmk, hloop, hbm, hw0, hsel, hN, except_map_ok]
      · simp [absInst, absSlim, absVLen, hl, hp, hf, Go.deref, Go.panic, except_bind_error]

/-- the panics of `before000512FixLeafSize`, without any range hypothesis: a non-zero `FixedSize` with a
    nil `PresenceBM` (the explicit `panic`), an encoder whose `GetEncodedSize(nil)` panics (`enc = none`),
    and element size 0 (integer division by zero) — the translated function is `none`, the model an
    `Err.panic` -/
theorem before000512FixLeafSize_panics (s : SlimMsg) (enc : Option Nat) (v : Option W.slimVars) (fuel : Nat)
    (lv : VLenArrayMsg) (hl : s.leaves = some lv) (hp : lv.presenceBM = none)
    (h : lv.fixedSize ≠ 0 ∨ enc = none ∨ enc = some 0) :
    Generated.W.before000512FixLeafSize fuel (absInst s v) enc = none
      ∧ ∃ msg, Legacy.fixLeafSize s enc = .error (.panic msg) := by
  unfold Generated.W.before000512FixLeafSize Legacy.fixLeafSize
  by_cases hf : lv.fixedSize = 0
  · rcases h with h | h | h
    · exact absurd hf h
    · subst h
      simp [absInst, absSlim, absVLen, hl, hp, hf, Go.deref, Go.encodedSize, except_map_error]
    · subst h
      simp [absInst, absSlim, absVLen, hl, hp, hf, Go.deref, Go.encodedSize, Go.divChkS, Go.conv, Go.wrap,
        except_map_error]
  · simp [absInst, absSlim, absVLen, hl, hp, hf, Go.deref, Go.panic, except_bind_error]

/-! ### non-vacuity: a 0.5.10 message whose `Leaves` hold only `Bytes` (three 4-byte leaves) -/

def exLegacyLeaves : SlimMsg :=
  { leaves := some { bytes := [1, 0, 0, 0, 2, 0, 0, 0, 3, 0, 0, 0] } }

example : FixLeafFits exLegacyLeaves (some 4) := by
  intro lv w h1 _ _ h2
  cases h1; cases h2
  decide

def exFixedLeaves : SlimMsg :=
  { leaves := some { n := 3, eltCnt := 3, fixedSize := 4, bytes := [1, 0, 0, 0, 2, 0, 0, 0, 3, 0, 0, 0], presenceBM := some { words := [7], rankIndex := [0] } } }

example : Generated.W.before000512FixLeafSize 13 (absInst exLegacyLeaves none) (some 4)
    = some (absInst exFixedLeaves none) := by decide

example : okOpt (Legacy.fixLeafSize exLegacyLeaves (some 4)) = some exFixedLeaves := by decide

example : Generated.W.before000512FixLeafSize 13 (absInst exLegacyLeaves none) (some 0) = none := by decide
example : Generated.W.before000512FixLeafSize 13 (absInst exLegacyLeaves none) none = none := by decide
/-- too little fuel is `none`, not a wrong answer -/
example : Generated.W.before000512FixLeafSize 2 (absInst exLegacyLeaves none) (some 4) = none := by decide

end BridgeSem

#print_axioms? BridgeSem.bitmapOf_sem
#print_axioms? BridgeSem.indexRank64_sem
#print_axioms? BridgeSem.newBMr64_sem
#print_axioms? BridgeSem.fixLeafSize_loop_sem
#print_axioms? BridgeSem.before000512FixLeafSize_sem
#print_axioms? BridgeSem.before000512FixLeafSize_panics
