/-
  SlimModel.Basic — shared vocabulary of the executable model of openacid/slim.

  Core Lean only (no Mathlib): everything in `SlimModel` is linked into the
  `slimdriver` executable.

  * `Bytes`     byte strings (Go `string` / `[]byte`), most significant bit first
  * `nibs`      a byte string as its list of half-bytes (4-bit words, values 0..15);
                the trie is a half-byte trie, bit position p of the Go code is
                half-byte position p/4 here (every position the Go code uses is a multiple of 4)
  * `Err`       every way a Go call can fail to return normally is an explicit value:
                a Go panic (index out of range, nil dereference, explicit panic) is `Err.panic`,
                a loop that exhausts its fuel is `Err.fuel` (theorems show it never happens)
-/

abbrev Bytes := List UInt8

inductive Err where
  | panic (msg : String)      -- the Go code would panic here
  | fuel                      -- model loop ran out of fuel (proved unreachable)
  | outOfOrder                -- trie.ErrKeyOutOfOrder
  | stepTooLong               -- trie.ErrStepTooLong
  | incompatible              -- trie.ErrIncompatible
  | truncated                 -- io.ErrUnexpectedEOF / io.EOF while reading a frame
  | badProto (msg : String)   -- protobuf decoding error
  | other (msg : String)
  deriving Repr, DecidableEq, Inhabited

namespace Err
def kind : Err → String
  | panic _ => "panic"
  | fuel => "fuel"
  | outOfOrder => "out-of-order"
  | stepTooLong => "step-too-long"
  | incompatible => "incompatible"
  | truncated => "truncated"
  | badProto _ => "bad-proto"
  | other _ => "other"
end Err

/-- Three-way comparison of lists of naturals, lexicographic, a proper prefix is smaller. -/
def lexCmp : List Nat → List Nat → Ordering
  | [], [] => .eq
  | [], _ :: _ => .lt
  | _ :: _, [] => .gt
  | a :: as, b :: bs =>
    if a < b then .lt else if b < a then .gt else lexCmp as bs

/-- Go's `bytes.Compare` / string `<`: unsigned bytewise lexicographic order. -/
def cmpBytes (a b : Bytes) : Ordering := lexCmp (a.map UInt8.toNat) (b.map UInt8.toNat)

def bytesLt (a b : Bytes) : Bool := cmpBytes a b == .lt
def bytesLe (a b : Bytes) : Bool := cmpBytes a b != .gt

/-- The half-bytes of a byte string, high half first. -/
def nibs : Bytes → List Nat
  | [] => []
  | b :: bs => (b.toNat / 16) :: (b.toNat % 16) :: nibs bs

/-- Inverse of `nibs` on even-length lists of values below 16. A trailing odd half-byte is
    padded with a zero low half (what `appendLabel` does with a fresh byte). -/
def unnibs : List Nat → Bytes
  | [] => []
  | [h] => [UInt8.ofNat (h * 16)]
  | h :: l :: rest => UInt8.ofNat (h * 16 + l) :: unnibs rest

/-! ### hex transport for the line protocol (`x` + lowercase hex; the empty string is `x`) -/

def hexDigit (n : Nat) : Char :=
  if n < 10 then Char.ofNat (48 + n) else Char.ofNat (87 + n)

def hexOf (bs : Bytes) : String :=
  String.ofList ('x' :: (nibs bs).map hexDigit)

def hexVal (c : Char) : Nat :=
  if '0' ≤ c ∧ c ≤ '9' then c.toNat - 48
  else if 'a' ≤ c ∧ c ≤ 'f' then c.toNat - 87
  else if 'A' ≤ c ∧ c ≤ 'F' then c.toNat - 55
  else 0

def parseHexChars : List Char → Bytes
  | a :: b :: rest => UInt8.ofNat (hexVal a * 16 + hexVal b) :: parseHexChars rest
  | _ => []

/-- Parse `x<hex>`; anything not starting with `x` is `none`. -/
def parseHex (s : String) : Option Bytes :=
  match s.toList with
  | 'x' :: rest => some (parseHexChars rest)
  | _ => none

/-- Little-endian value of a byte list. -/
def leVal : Bytes → Nat
  | [] => 0
  | b :: bs => b.toNat + 256 * leVal bs

/-- Big-endian value of a byte list. -/
def beVal (bs : Bytes) : Nat := leVal bs.reverse

/-- `w` little-endian bytes of `n` (truncating). -/
def leBytes : Nat → Nat → Bytes
  | 0, _ => []
  | w + 1, n => UInt8.ofNat (n % 256) :: leBytes w (n / 256)

def beBytes (w n : Nat) : Bytes := (leBytes w n).reverse
