import SlimModel.LegacyWrite
import SlimProofs.Runs
/-
  SlimProofs.LegacyFuel — the fuel of `LegacyWrite.buildOld` (`2n + 1` loop iterations for `n`
  keys) is sufficient: on strictly ascending keys the breadth-first loop terminates by itself, so
  the reconstructed three-section writers are total on every input `NewSlimTrie` accepts
  (`writeLegacy3_total`).

  Measure: a queue entry holding `m ≥ 1` keys weighs `2m - 1` (the most nodes its subtree can
  have); processing an entry replaces its weight by at most `weight - 1` in children, because an
  inner node that is not a leaf has at least two children (the first and the last key of its range
  differ at the branching position — this is where the order of the keys is used) and an
  inner-and-leaf node passes on one key less.
-/
namespace LegacyWrite

/-! ### `groupRuns` -/

def runSize (r : Nat × Nat × Nat) : Nat := r.2.2 - r.2.1

theorem groupRuns_spec (lab : Nat → Nat) (e : Nat) :
    ∀ fuel s, s ≤ e → e - s ≤ fuel →
      (∀ r ∈ groupRuns lab e fuel s, s ≤ r.2.1 ∧ r.2.1 < r.2.2 ∧ r.2.2 ≤ e) ∧
      ((groupRuns lab e fuel s).map runSize).sum = e - s ∧
      (s < e → 1 ≤ (groupRuns lab e fuel s).length) ∧
      ((∃ t, s ≤ t ∧ t < e ∧ lab t ≠ lab s) → 2 ≤ (groupRuns lab e fuel s).length) := by
  intro fuel
  induction fuel with
  | zero =>
    intro s h1 h2
    have : s = e := by omega
    subst this
    refine ⟨by simp [groupRuns], by simp [groupRuns], by omega, ?_⟩
    rintro ⟨t, h3, h4, _⟩; omega
  | succ fuel ih =>
    intro s h1 h2
    unfold groupRuns
    by_cases hse : s < e
    · rw [if_pos hse]
      simp only
      have hge := scanWhile_ge (fun t => lab t == lab s) (e - (s + 1)) (s + 1)
      have hle := scanWhile_le (fun t => lab t == lab s) (e - (s + 1)) (s + 1)
      generalize hj : scanWhile (fun t => lab t == lab s) (e - (s + 1)) (s + 1) = j at hge hle
      have hje : j ≤ e := by omega
      obtain ⟨ha, hb, hc, _⟩ := ih j hje (by omega)
      refine ⟨?_, ?_, ?_, ?_⟩
      · intro r hr
        rcases List.mem_cons.mp hr with rfl | hr
        · exact ⟨Nat.le_refl _, by simp only; omega, hje⟩
        · obtain ⟨h3, h4, h5⟩ := ha r hr
          exact ⟨by omega, h4, h5⟩
      · simp only [List.map_cons, List.sum_cons, hb, runSize]
        omega
      · intro _; simp
      · rintro ⟨t, h3, h4, h5⟩
        have htj : j ≤ t := by
          rcases Nat.lt_or_ge t j with h | h
          · exfalso
            by_cases hts : t = s
            · subst hts; exact h5 rfl
            · have := scanWhile_all (fun t => lab t == lab s) (e - (s + 1)) (s + 1) t (by omega)
                (by rw [hj]; exact h)
              simp only [beq_iff_eq] at this
              exact h5 this
          · exact h
        have := hc (by omega)
        simp only [List.length_cons]
        omega
    · have : s = e := by omega
      subst this
      rw [if_neg hse]
      refine ⟨by simp, by simp, by omega, ?_⟩
      rintro ⟨t, h3, h4, _⟩; omega

/-! ### weights -/

/-- the most nodes the subtree of a queue entry can have -/
def wt (q : Sub) : Nat := 2 * (q.e - q.s) - 1

def Inv (n : Nat) (q : Sub) : Prop := q.s < q.e ∧ q.e ≤ n

theorem wt_pos {n : Nat} {q : Sub} (h : Inv n q) : 1 ≤ wt q := by
  unfold wt; unfold Inv at h; omega

theorem kids_weight (runs : List (Nat × Nat × Nat)) (c : Nat)
    (h : ∀ r ∈ runs, r.2.1 < r.2.2) :
    ((runs.map (fun (x : Nat × Nat × Nat) => ({ s := x.2.1, e := x.2.2, d := c + 1 } : Sub))).map wt).sum
      + runs.length = 2 * (runs.map runSize).sum := by
  induction runs with
  | nil => rfl
  | cons r rs ih =>
    have hr := h r List.mem_cons_self
    have := ih (fun x hx => h x (List.mem_cons_of_mem _ hx))
    simp only [List.map_cons, List.sum_cons, List.length_cons, wt, runSize] at this ⊢
    omega

/-! ### order -/

/-- the keys' half-byte lists are strictly ascending up to `n` -/
def Sorted (kn : Array (List Nat)) (n : Nat) : Prop :=
  ∀ a b, a < b → b < n → lexCmp (kn.getD a []) (kn.getD b []) = .lt

theorem sorted_of_strictAsc (keys : List Bytes) (h : strictAsc keys = true) :
    Sorted (keys.map nibs).toArray keys.length := by
  intro a b hab hb
  have hlt := strictAsc_lt h hab hb
  rw [bytesLt_iff_nibs] at hlt
  have ha : a < keys.length := by omega
  simp only [Array.getD_eq_getD_getElem?, List.getElem?_toArray, List.getElem?_map,
    List.getElem?_eq_getElem ha, List.getElem?_eq_getElem hb, Option.map_some, Option.getD_some]
  simp only [List.getD_eq_getElem?_getD, List.getElem?_eq_getElem ha, List.getElem?_eq_getElem hb,
    Option.getD_some] at hlt
  exact hlt

theorem lexCmp_take_not_lt (a : List Nat) (c : Nat) : lexCmp a (a.take c) ≠ .lt := by
  induction a generalizing c with
  | nil => simp [lexCmp]
  | cons x xs ih =>
    cases c with
    | zero => simp [lexCmp]
    | succ c =>
      simp only [List.take_succ_cons, lexCmp, Nat.lt_irrefl, if_false]
      exact ih c

/-- in a sorted range, first and last key branch at their common prefix length when the first
    key does not end there -/
theorem first_last_differ (a b : List Nat) (h : lexCmp a b = .lt) (hne : a.length ≠ lcp a b) :
    a.getD (lcp a b) 0 ≠ b.getD (lcp a b) 0 := by
  have hla := lcp_le_left a b
  have hlb := lcp_le_right a b
  have ha : lcp a b < a.length := by omega
  have hb : lcp a b < b.length := by
    rcases Nat.lt_or_ge (lcp a b) b.length with h' | h'
    · exact h'
    · exfalso
      have hbe : b = a.take (lcp a b) := by
        have := lcp_take a b
        rw [List.take_of_length_le h'] at this
        exact this.symm
      rw [hbe] at h
      exact lexCmp_take_not_lt a _ h
  have := lcp_max a b ha hb
  rw [List.getD_eq_getElem?_getD, List.getD_eq_getElem?_getD, List.getElem?_eq_getElem ha,
    List.getElem?_eq_getElem hb] at *
  simpa using this

/-! ### one step -/

theorem oldStep_kids (kn : Array (List Nat)) (ls : Bool) (n qsize : Nat) (q : Sub)
    (hs : Sorted kn n) (hq : Inv n q) :
    (((oldStep kn ls qsize q).2).map wt).sum + 1 ≤ wt q ∧ ∀ k ∈ (oldStep kn ls qsize q).2, Inv n k := by
  obtain ⟨hq1, hq2⟩ := hq
  unfold oldStep
  by_cases h1 : q.e - q.s = 1
  · rw [if_pos h1]
    simp only [List.map_nil, List.sum_nil, List.not_mem_nil, false_implies, implies_true, and_true]
    unfold wt; omega
  · rw [if_neg h1]
    simp only
    generalize hc : lcp (kn.getD q.s []) (kn.getD (q.e - 1) []) = c
    generalize hst : (if ((kn.getD q.s []).length == c) = true then q.s + 1 else q.s) = s
    have hsle : s ≤ q.e := by
      rw [← hst]; split <;> omega
    obtain ⟨ha, hb, _, hd⟩ := groupRuns_spec (fun t => (kn.getD t []).getD c 0) q.e (q.e - s) s hsle
      (Nat.le_refl _)
    have hkw := kids_weight (groupRuns (fun t => (kn.getD t []).getD c 0) q.e (q.e - s) s) c
      (fun r hr => (ha r hr).2.1)
    rw [hb] at hkw
    constructor
    · by_cases hleaf : ((kn.getD q.s []).length == c) = true
      · rw [if_pos hleaf] at hst
        subst hst
        have hwq : wt q = 2 * (q.e - q.s) - 1 := rfl
        rw [hwq]
        generalize (List.map wt _).sum = X at hkw ⊢
        generalize (groupRuns _ _ _ _).length = L at hkw
        omega
      · rw [if_neg hleaf] at hst
        subst hst
        have hne : (kn.getD q.s []).length ≠ lcp (kn.getD q.s []) (kn.getD (q.e - 1) []) := by
          rw [hc]; simpa using hleaf
        have hlt := hs q.s (q.e - 1) (by omega) (by omega)
        have hdiff := first_last_differ _ _ hlt hne
        rw [hc] at hdiff
        have h2 := hd ⟨q.e - 1, by omega, by omega, fun h => hdiff h.symm⟩
        have hwq : wt q = 2 * (q.e - q.s) - 1 := rfl
        rw [hwq]
        generalize (List.map wt _).sum = X at hkw ⊢
        generalize (groupRuns _ _ _ _).length = L at hkw h2
        omega
    · intro k hk
      simp only [List.mem_map] at hk
      obtain ⟨r, hr, rfl⟩ := hk
      obtain ⟨h3, h4, h5⟩ := ha r hr
      exact ⟨h4, Nat.le_trans h5 hq2⟩

/-! ### the loop -/

theorem oldLoop_ok (kn : Array (List Nat)) (ls : Bool) (n : Nat) (hs : Sorted kn n) :
    ∀ fuel i (queue : Array Sub) (nodes : Array OldNode),
      (∀ q ∈ queue.toList, Inv n q) →
      ((queue.toList.drop i).map wt).sum ≤ fuel →
      ∃ res, oldLoop kn ls fuel i queue nodes = .ok res := by
  intro fuel
  induction fuel with
  | zero =>
    intro i queue nodes hinv hsum
    unfold oldLoop
    by_cases hi : i < queue.size
    · exfalso
      have hi' : i < queue.toList.length := by simpa using hi
      rw [List.drop_eq_getElem_cons hi'] at hsum
      simp only [List.map_cons, List.sum_cons] at hsum
      have := wt_pos (hinv _ (List.getElem_mem hi'))
      omega
    · rw [if_neg hi]; exact ⟨nodes, rfl⟩
  | succ fuel ih =>
    intro i queue nodes hinv hsum
    unfold oldLoop
    by_cases hi : i < queue.size
    · rw [dif_pos hi]
      simp only
      have hi' : i < queue.toList.length := by simpa using hi
      have hqi : queue[i] = queue.toList[i] := by simp
      obtain ⟨hw, hk⟩ := oldStep_kids kn ls n queue.size queue[i] hs
        (hinv _ (by rw [hqi]; exact List.getElem_mem hi'))
      apply ih
      · intro q hq
        rw [Array.toList_append, List.mem_append] at hq
        rcases hq with hq | hq
        · exact hinv q hq
        · exact hk q (by simpa using hq)
      · rw [Array.toList_append, List.drop_append_of_le_length (by omega), List.map_append,
          List.sum_append]
        rw [List.drop_eq_getElem_cons hi'] at hsum
        simp only [List.map_cons, List.sum_cons] at hsum
        rw [← hqi] at hsum
        simp only [List.toList_toArray]
        omega
    · rw [dif_neg hi]; exact ⟨nodes, rfl⟩

/-- `buildOld` never runs out of fuel on strictly ascending keys. -/
theorem buildOld_total (keys : List Bytes) (ls : Bool) (h : strictAsc keys = true) :
    ∃ nodes, buildOld keys ls = .ok nodes := by
  unfold buildOld
  simp only
  by_cases hn : keys.length = 0
  · rw [if_pos hn]; exact ⟨#[], rfl⟩
  · rw [if_neg hn]
    apply oldLoop_ok _ ls keys.length (sorted_of_strictAsc keys h)
    · intro q hq
      simp only [List.mem_singleton] at hq
      subst hq
      exact ⟨by simp only; omega, Nat.le_refl _⟩
    · simp [wt]; omega

/-- The three-section writers are total on every key list `NewSlimTrie` accepts. -/
theorem writeLegacy3_total (variant : String) (vr : Variant) (keys vals : List Bytes)
    (hv : parseVariant variant = some vr) (h : strictAsc keys = true) :
    ∃ b, writeLegacy3 variant keys vals = .ok b := by
  obtain ⟨nodes, hn⟩ := buildOld_total keys vr.leafSteps h
  unfold writeLegacy3 sections3
  simp only [hv, hn, bind, Except.bind, pure, Except.pure]
  exact ⟨_, rfl⟩

end LegacyWrite

/-! ### leaf indexes -/

namespace LegacyWrite

theorem oldStep_inv (kn : Array (List Nat)) (ls : Bool) (n qsize : Nat) (q : Sub) (hq : Inv n q) :
    (∀ k ∈ (oldStep kn ls qsize q).2, Inv n k) ∧
    (∀ j, (oldStep kn ls qsize q).1.leaf = some j → j < n) := by
  obtain ⟨hq1, hq2⟩ := hq
  unfold oldStep
  by_cases h1 : q.e - q.s = 1
  · rw [if_pos h1]
    refine ⟨by simp, ?_⟩
    intro j hj
    simp only [Option.some.injEq] at hj
    omega
  · rw [if_neg h1]
    simp only
    generalize lcp (kn.getD q.s []) (kn.getD (q.e - 1) []) = c
    constructor
    · generalize hst : (if ((kn.getD q.s []).length == c) = true then q.s + 1 else q.s) = s
      have hsle : s ≤ q.e := by rw [← hst]; split <;> omega
      obtain ⟨ha, _, _, _⟩ := groupRuns_spec (fun t => (kn.getD t []).getD c 0) q.e (q.e - s) s hsle
        (Nat.le_refl _)
      intro k hk
      simp only [List.mem_map] at hk
      obtain ⟨r, hr, rfl⟩ := hk
      obtain ⟨_, h4, h5⟩ := ha r hr
      exact ⟨h4, Nat.le_trans h5 hq2⟩
    · intro j hj
      split at hj
      · simp only [Option.some.injEq] at hj; omega
      · cases hj

/-- every key index stored in a node of the old trie is an index into the key list -/
theorem oldLoop_leaf_lt (kn : Array (List Nat)) (ls : Bool) (n : Nat) :
    ∀ fuel i (queue : Array Sub) (nodes res : Array OldNode),
      (∀ q ∈ queue.toList, Inv n q) →
      (∀ x ∈ nodes.toList, ∀ j, x.leaf = some j → j < n) →
      oldLoop kn ls fuel i queue nodes = .ok res →
      ∀ x ∈ res.toList, ∀ j, x.leaf = some j → j < n := by
  intro fuel
  induction fuel with
  | zero =>
    intro i queue nodes res _ hn hr
    unfold oldLoop at hr
    split at hr
    · cases hr
    · cases hr; exact hn
  | succ fuel ih =>
    intro i queue nodes res hinv hn hr
    unfold oldLoop at hr
    split at hr
    · next hi =>
      simp only at hr
      have hi' : i < queue.toList.length := by simpa using hi
      have hqi : queue[i] = queue.toList[i] := by simp
      obtain ⟨hk, hl⟩ := oldStep_inv kn ls n queue.size queue[i]
        (hinv _ (by rw [hqi]; exact List.getElem_mem hi'))
      apply ih _ _ _ _ _ _ hr
      · intro q hq
        rw [Array.toList_append, List.mem_append] at hq
        rcases hq with hq | hq
        · exact hinv q hq
        · exact hk q (by simpa using hq)
      · intro x hx
        rw [Array.toList_push, List.mem_append, List.mem_singleton] at hx
        rcases hx with hx | rfl
        · exact hn x hx
        · exact hl
    · cases hr; exact hn

theorem buildOld_leaf_lt (keys : List Bytes) (ls : Bool) (nodes : Array OldNode)
    (h : buildOld keys ls = .ok nodes) :
    ∀ x ∈ nodes.toList, ∀ j, x.leaf = some j → j < keys.length := by
  unfold buildOld at h
  simp only at h
  split at h
  · cases h; simp
  · next hn =>
    apply oldLoop_leaf_lt _ ls keys.length _ _ _ _ _ _ (by simp) h
    intro q hq
    simp only [List.mem_singleton] at hq
    subst hq
    exact ⟨by simp only; omega, Nat.le_refl _⟩

end LegacyWrite
