import SlimProofs.InstanceLemmas
import SlimProps.C07Wire
import SlimProps.C05Wire
/-
  C07 (instance level) — "Unmarshal never loads data it cannot interpret: a stream whose header
  version is outside the compatible set … is rejected with the incompatibility error, and every
  strict prefix of a valid stream … is rejected with an error rather than a panic or a silently
  half-built index (paraphrased).  After a rejected load the instance answers lookups and scans as
  an empty trie, not as a mixture of old and new data."

  Objects: `Legacy.unmarshalMsg` / `Legacy.Instance.unmarshal` (= the complete `Unmarshal`:
  `st.inner = &Slim{}` first, then header, version check, framed reads, conversions, `st.init()`),
  `Slim.view` (= what every lookup and scan reads).  The byte-level facts are `SlimProps/C07Wire.lean`.

  `Instance.unmarshal` has two failure branches: `unmarshalMsg` fails (→ `inner = {}`), or the
  message was read completely and only `init` fails (→ `inner` = that message).  For every rejected
  input the property names — incompatible versions, strict prefixes of streams of every layout —
  it is `unmarshalMsg` that fails (`C07_rejected_*`), so the first branch applies.
-/
open Wire Frame Version Legacy EmptyView

/-- A load that `unmarshalMsg` rejects leaves the empty message, whatever the instance held. -/
theorem C07_empty_after_reject (σ : Instance) (e : Option Nat) (b : Bytes) (err : Err)
    (h : unmarshalMsg e b = .error err) :
    (Instance.unmarshal σ e b).2 = some err ∧ (Instance.unmarshal σ e b).1.inner = {} := by
  rw [Instance.unmarshal_error_inner σ e b err h]
  exact ⟨rfl, rfl⟩

/-! ### the rejected inputs of the property are rejected by `unmarshalMsg` -/

/-- incompatible version (any ≥ 32 bytes whose version field is not compatible) -/
theorem C07_rejected_incompatible (e : Option Nat) (buf : Bytes) (hlen : 32 ≤ buf.length)
    (hv : isCompatible (verStr (buf.take 16)) = false) :
    unmarshalMsg e buf = .error .incompatible :=
  unmarshalMsg_of_dispatch_error e buf _ (C07_incompatible_first buf hlen hv)

/-- every strict prefix of a marshalled trie -/
theorem C07_rejected_prefix (e : Option Nat) (m : SlimMsg) (hb : BodyOK (encodeSlim m)) (cut : Nat)
    (hcut : cut < (marshalSlim m).length) :
    unmarshalMsg e ((marshalSlim m).take cut) = .error .truncated :=
  unmarshalMsg_of_dispatch_error e _ _ (C07_truncated m hb cut hcut)

/-- every strict prefix of one frame with a compatible version (0.5.10 / 0.5.11 streams, and
    cuts inside the first section of the legacy layout), whatever follows -/
theorem C07_rejected_prefix_frame (e : Option Nat) (v : String) (hv : VersionOK v)
    (hc : isCompatible v = true) (body : Bytes) (hb : BodyOK body) (rest : Bytes) (cut : Nat)
    (hcut : cut < (frame v body).length) :
    unmarshalMsg e ((frame v body ++ rest).take cut) = .error .truncated :=
  unmarshalMsg_of_dispatch_error e _ _ (C07_truncated_frame v hv hc body hb rest cut hcut)

/-- every strict prefix of the three-section legacy layout -/
theorem C07_rejected_prefix_legacy3 (e : Option Nat) (v v2 v3 : String) (hv : VersionOK v)
    (hv2 : VersionOK v2) (hv3 : VersionOK v3) (hc : isCompatible v = true)
    (hl : isCurrentLayout v = false) (a b c : Bytes) (ha : BodyOK a) (hb : BodyOK b) (hcb : BodyOK c)
    (cut : Nat) (hcut : cut < (frame v a ++ (frame v2 b ++ frame v3 c)).length) :
    ∃ err, unmarshalMsg e ((frame v a ++ (frame v2 b ++ frame v3 c)).take cut) = .error err := by
  obtain ⟨err, h⟩ := C07_truncated_legacy3_rejected v v2 v3 hv hv2 hv3 hc hl a b c ha hb hcb cut hcut
  exact ⟨err, unmarshalMsg_of_dispatch_error e _ _ h⟩

/-! ### after the rejection: every lookup and scan answers as on the empty trie -/

/-- All lookups, scans, typed getters and `String()` on the state a rejected load leaves:
    not found / `(nil, nil, nil)` / an iterator that is exhausted at once / an empty scan —
    for every query, whatever the instance held before. -/
theorem C07_answers_empty (σ : Instance) (e : Option Nat) (b : Bytes) (err : Err)
    (h : unmarshalMsg e b = .error err) :
    let v := Slim.view (Instance.unmarshal σ e b).1.inner
    (∀ q, getID v q = .ok none) ∧ (∀ q, _root_.get v q = .ok none) ∧ (∀ q, rangeGet v q = .ok none) ∧
    (∀ q, search v q = .ok (none, none, none)) ∧
    (∀ start incl, Scan.newIterFrom v start incl = .ok (.walk [] [])) ∧
    (∀ withValue buf, Scan.iterNext v withValue (.walk [] buf) = .ok (.walk [] buf, none, none)) ∧
    (∀ start incl withValue keep stopAfter, Scan.scanFrom v start incl withValue keep stopAfter = .ok []) ∧
    (∀ start incl stop inclEnd withValue stopAfter,
      Scan.scanFromTo v start incl stop inclEnd withValue stopAfter = .ok []) ∧
    (∀ w q, Slim.getInt (Instance.unmarshal σ e b).1.inner w q = .ok none) ∧
    (∀ fmt, Slim.toStringSlim v fmt = .ok "") := by
  intro v
  have hi : (Instance.unmarshal σ e b).1.inner = {} := (C07_empty_after_reject σ e b err h).2
  have hv : v = Slim.view {} := by show Slim.view _ = _; rw [hi]
  have he : v.isEmpty = true := by rw [hv]; rfl
  refine ⟨getID_empty v he, get_empty v he, rangeGet_empty v he, search_empty v he,
    newIterFrom_empty v he, fun _ _ => rfl, scanFrom_empty v he, scanFromTo_empty v he, ?_, ?_⟩
  · intro w q; rw [hi]; exact getInt_empty w q
  · intro fmt; rw [hv]; exact toString_empty fmt

/-- What a rejected load does NOT reset: `levels` (and `vars == nil`-ness) stay those of the earlier
    contents, so `Stat()` afterwards reports the level table and node count of the old trie with
    `KeyCnt = 0`.  (The property speaks of lookups and scans; this is recorded because it is the one
    observable that is a mixture of old and new state.) -/
theorem C07_stat_after_reject (σ : Instance) (e : Option Nat) (b : Bytes) (err : Err)
    (h : unmarshalMsg e b = .error err) :
    (Instance.unmarshal σ e b).1.levels = σ.levels ∧ (Instance.unmarshal σ e b).1.varsNil = σ.varsNil ∧
    Slim.stat (Instance.unmarshal σ e b).1.inner (Instance.unmarshal σ e b).1.levels =
      (match σ.levels.getLast? with
       | none => .error (.panic "index out of range (levels)")
       | some (total, _, _) => .ok { levels := σ.levels, keyCnt := 0, nodeCnt := total }) := by
  rw [Instance.unmarshal_error_inner σ e b err h]
  refine ⟨rfl, rfl, ?_⟩
  simp only [Slim.stat]
  cases σ.levels.getLast? with
  | none => rfl
  | some p => obtain ⟨t, i, l⟩ := p; rfl

/-! ### non-vacuity -/

/-- an incompatible header followed by anything, on an instance that holds a loaded trie `m` -/
example (m : SlimMsg) (lv : List Slim.Level) :
    let σ : Instance := { inner := m, levels := lv }
    (Instance.unmarshal σ (some 4) (header "0.5.13" 5 ++ [1, 2, 3])).1.inner = {} ∧
    getID (Slim.view (Instance.unmarshal σ (some 4) (header "0.5.13" 5 ++ [1, 2, 3])).1.inner) [0x61] = .ok none := by
  intro σ
  have h : unmarshalMsg (some 4) (header "0.5.13" 5 ++ [1, 2, 3]) = .error .incompatible :=
    unmarshalMsg_of_dispatch_error _ _ _
      (C07_incompatible_header "0.5.13" (by decide) (by decide) 5 (by omega) _)
  exact ⟨(C07_empty_after_reject σ _ _ _ h).2, (C07_answers_empty σ _ _ _ h).1 _⟩

/-- a stream cut after 40 bytes -/
example : unmarshalMsg none ((marshalSlim C05Wire.c05Example).take 40) = .error .truncated :=
  C07_rejected_prefix none _ C05Wire.c05Example_BodyOK 40 (by rw [C05_marshal_size, C05_size, C05Wire.c05Example_size]; omega)

/-- stale levels after a rejected load: an instance that held a trie with 5 nodes -/
example : Slim.stat (Instance.unmarshal { inner := {}, levels := [(0, 0, 0), (5, 2, 3)] } none []).1.inner
      (Instance.unmarshal { inner := {}, levels := [(0, 0, 0), (5, 2, 3)] } none []).1.levels
    = .ok { levels := [(0, 0, 0), (5, 2, 3)], keyCnt := 0, nodeCnt := 5 } := by
  have h : unmarshalMsg none [] = .error .truncated :=
    unmarshalMsg_of_dispatch_error _ _ _ (by
      have := C07_truncated {} (by unfold BodyOK maxAlloc; simp [encodeSlim, encodeSlimKnown, encVarintF, encMsgF, encPackedF]) 0
        (by rw [C05_marshal_size]; omega)
      simpa using this)
  rw [(C07_stat_after_reject _ none [] _ h).2.2]
  rfl

#print axioms C07_empty_after_reject
#print axioms C07_rejected_incompatible
#print axioms C07_rejected_prefix
#print axioms C07_rejected_prefix_frame
#print axioms C07_rejected_prefix_legacy3
#print axioms C07_answers_empty
#print axioms C07_stat_after_reject
