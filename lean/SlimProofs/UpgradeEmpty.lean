import SlimProofs.Legacy3Size
import SlimProofs.WireSlim
import SlimProofs.WireFrame
/-
  SlimProofs.UpgradeEmpty — the message the three-section loader builds for a stream without any
  node (`Slim.encodeCreator emptyConverted`: `creator.build` on a creator that holds nothing — only
  `NodeTypeBM` stays nil), spelled out, and its well-formedness, normal form and size.
  (One kernel evaluation of `encodeCreator`, ≈ 20 s: `findMinShortSize` walks 2047 short codes
  whatever the trie.)
-/
open Wire Frame LegacyWrite Legacy

/-- the message the three-section loader builds for an empty stream, spelled out -/
theorem encodeCreator_emptyConverted_eq :
    Slim.encodeCreator emptyConverted =
      { shortTable := [0],
        inners := some { rankIndex := [0] }, shortBM := some {},
        innerPrefixes := some { fixedSize := 2, presenceBM := some { rankIndex := [0] } } } := by
  decide +kernel

theorem emptyConverted_msg_ok :
    (Slim.encodeCreator emptyConverted).WF ∧ (Slim.encodeCreator emptyConverted).NF ∧
    BodyOK (encodeSlim (Slim.encodeCreator emptyConverted)) := by
  rw [encodeCreator_emptyConverted_eq]
  refine ⟨?_, ?_, ?_⟩
  · unfold SlimMsg.WF
    simp [VLenArrayMsg.WF, BitmapMsg.WF]
  · unfold SlimMsg.NF
    simp [unknownOnly]
  · unfold BodyOK maxAlloc
    rw [← protoSizeSlim_eq]
    simp [protoSizeSlim, protoSizeVLenArray, protoSizeBitmap, sizeVarintF, sizeMsgF, sizePackedF,
      sizeBytesF, packedSize, sizeVarint]

#print axioms encodeCreator_emptyConverted_eq
#print axioms emptyConverted_msg_ok
