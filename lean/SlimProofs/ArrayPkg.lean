import SlimModel.ArrayPkg
import SlimProofs.Encode
/-
  SlimProofs.ArrayPkg — helper lemmas for property C16 (package array).

  Specification side:
  * `lookup idx elts i`   the sparse map: the element paired with position `i`, if listed
  * `rankBelow idx m`     number of listed positions below `m`
  * `cnt p n`             number of `b < n` with `p b`
  Implementation side: `bitmapOf`, `indexRank64`, `zeroEmpty`, the accessors.
-/
namespace ArrayPkg
open Encode

/-! ### int32 wrap-around -/

theorem wrap32_id {x : Int} (h0 : -2147483648 ≤ x) (h1 : x < 2147483648) : wrap32 x = x := by
  unfold wrap32; omega

/-! ### the sparse map a compacted array stands for -/

/-- The element paired with position `x` in the parallel lists `idx`, `elts`. -/
def lookup {α : Type} : List Nat → List α → Nat → Option α
  | i :: is, e :: es, x => if i = x then some e else lookup is es x
  | _, _, _ => none

def rankBelow (idx : List Nat) (m : Nat) : Nat := (idx.filter (· < m)).length

abbrev StrictAsc (idx : List Nat) : Prop := List.Pairwise (· < ·) idx

theorem lookup_map {α β : Type} (f : α → β) (idx : List Nat) (elts : List α) (x : Nat) :
    lookup idx (elts.map f) x = (lookup idx elts x).map f := by
  induction idx generalizing elts with
  | nil => simp [lookup]
  | cons i is ih =>
    cases elts with
    | nil => simp [lookup]
    | cons e es =>
      simp only [List.map_cons, lookup]
      split
      · rfl
      · exact ih es

theorem lookup_none_of_not_mem {α : Type} (idx : List Nat) (elts : List α) (x : Nat)
    (h : x ∉ idx) : lookup idx elts x = none := by
  induction idx generalizing elts with
  | nil => simp [lookup]
  | cons i is ih =>
    cases elts with
    | nil => simp [lookup]
    | cons e es =>
      simp only [List.mem_cons, not_or] at h
      simp only [lookup]
      rw [if_neg (fun hh => h.1 hh.symm)]
      exact ih es h.2

theorem rankBelow_cons (a : Nat) (idx : List Nat) (m : Nat) :
    rankBelow (a :: idx) m = (if a < m then 1 else 0) + rankBelow idx m := by
  unfold rankBelow
  by_cases h : a < m <;> simp [h]; omega

theorem rankBelow_le (idx : List Nat) (m : Nat) : rankBelow idx m ≤ idx.length := by
  unfold rankBelow; exact List.length_filter_le _ _

theorem rankBelow_eq_zero_of_forall_ge (idx : List Nat) (m : Nat) (h : ∀ x ∈ idx, m ≤ x) :
    rankBelow idx m = 0 := by
  unfold rankBelow
  simp only [List.length_eq_zero_iff, List.filter_eq_nil_iff, decide_eq_true_eq]
  intro x hx; have := h x hx; omega

/-- In a strictly ascending list a listed position sits at index `rankBelow`. -/
theorem lookup_eq_getElem {α : Type} (idx : List Nat) (elts : List α) (x : Nat)
    (hasc : StrictAsc idx) (hlen : idx.length = elts.length) (hx : x ∈ idx) :
    ∃ h : rankBelow idx x < elts.length, lookup idx elts x = some elts[rankBelow idx x] := by
  induction idx generalizing elts with
  | nil => simp at hx
  | cons i is ih =>
    cases elts with
    | nil => simp at hlen
    | cons e es =>
      have hasc := List.pairwise_cons.mp hasc
      simp only [List.length_cons, Nat.add_right_cancel_iff] at hlen
      by_cases hix : i = x
      · subst hix
        have hz : rankBelow is i = 0 :=
          rankBelow_eq_zero_of_forall_ge is i (fun y hy => Nat.le_of_lt (hasc.1 y hy))
        refine ⟨by rw [rankBelow_cons, hz]; simp, ?_⟩
        simp [lookup, rankBelow_cons, hz]
      · have hx' : x ∈ is := by
          rcases List.mem_cons.mp hx with h | h
          · exact absurd h.symm hix
          · exact h
        have hlt : i < x := hasc.1 x hx'
        obtain ⟨hb, hl⟩ := ih es hasc.2 hlen hx'
        refine ⟨by rw [rankBelow_cons, if_pos hlt]; simp; omega, ?_⟩
        simp only [lookup, if_neg hix, hl, rankBelow_cons, if_pos hlt]
        congr 1
        simp [Nat.add_comm 1]

/-- Step of `rankBelow` for strictly ascending lists. -/
theorem rankBelow_succ (idx : List Nat) (hasc : StrictAsc idx) (m : Nat) :
    rankBelow idx (m + 1) = rankBelow idx m + (if m ∈ idx then 1 else 0) := by
  induction idx with
  | nil => simp [rankBelow]
  | cons a is ih =>
    have hasc := List.pairwise_cons.mp hasc
    rw [rankBelow_cons, rankBelow_cons, ih hasc.2]
    by_cases ham : a = m
    · subst ham
      have : a ∉ is := fun h => Nat.lt_irrefl _ (hasc.1 a h)
      simp [this]; omega
    · by_cases hm : m ∈ is
      · have : a < m := hasc.1 m hm
        simp [hm, this, Nat.lt_succ_of_lt this]; omega
      · have h1 : m ∉ a :: is := by simp [hm]; exact fun h => ham h.symm
        simp only [hm, h1, if_false]
        by_cases h2 : a < m
        · simp [h2, Nat.lt_succ_of_lt h2]
        · have : ¬ a < m + 1 := by omega
          simp [h2, this]

theorem rankBelow_mono (idx : List Nat) {m n : Nat} (h : m ≤ n) : rankBelow idx m ≤ rankBelow idx n := by
  induction idx with
  | nil => simp [rankBelow]
  | cons a is ih =>
    rw [rankBelow_cons, rankBelow_cons]
    by_cases h1 : a < m
    · have : a < n := by omega
      simp [h1, this, ih]
    · simp [h1]; split <;> omega

theorem rankBelow_eq_length (idx : List Nat) (m : Nat) (h : ∀ x ∈ idx, x < m) :
    rankBelow idx m = idx.length := by
  unfold rankBelow
  rw [List.filter_eq_self.mpr]
  intro x hx; simp [h x hx]

theorem rankBelow_lt_of_mem (idx : List Nat) (hasc : StrictAsc idx) {x : Nat} (hx : x ∈ idx) :
    rankBelow idx x < idx.length := by
  have h1 := rankBelow_succ idx hasc x
  rw [if_pos hx] at h1
  have h2 := rankBelow_le idx (x + 1)
  omega

/-- A strictly ascending list of naturals below `N` has at most `N` elements. -/
theorem length_le_of_strictAsc (idx : List Nat) (hasc : StrictAsc idx) (a N : Nat)
    (hlo : ∀ x ∈ idx, a ≤ x) (hhi : ∀ x ∈ idx, x < N) : idx.length ≤ N - a := by
  induction idx generalizing a with
  | nil => simp
  | cons i is ih =>
    have hasc := List.pairwise_cons.mp hasc
    have h1 := ih hasc.2 (i + 1) (fun x hx => hasc.1 x hx)
      (fun x hx => hhi x (List.mem_cons_of_mem _ hx))
    have h2 := hlo i (List.mem_cons_self ..)
    have h3 := hhi i (List.mem_cons_self ..)
    simp only [List.length_cons]; omega

/-! ### counting bits -/

/-- Number of `b < n` with `p b`. -/
def cnt (p : Nat → Bool) : Nat → Nat
  | 0 => 0
  | n + 1 => cnt p n + (if p n then 1 else 0)

theorem cnt_succ_front (p : Nat → Bool) (n : Nat) :
    cnt p (n + 1) = (if p 0 then 1 else 0) + cnt (fun b => p (b + 1)) n := by
  induction n with
  | zero => simp [cnt]
  | succ n ih => rw [cnt, ih]; simp only [cnt]; omega

theorem cnt_congr {p q : Nat → Bool} {n : Nat} (h : ∀ b < n, p b = q b) : cnt p n = cnt q n := by
  induction n with
  | zero => rfl
  | succ n ih =>
    simp only [cnt]
    rw [ih (fun b hb => h b (Nat.lt_succ_of_lt hb)), h n (Nat.lt_succ_self n)]

theorem cnt_and_lt (p : Nat → Bool) (j n : Nat) (h : j ≤ n) :
    cnt (fun b => decide (b < j) && p b) n = cnt p j := by
  induction n with
  | zero =>
    have : j = 0 := by omega
    subst this; rfl
  | succ n ih =>
    by_cases hj : j = n + 1
    · subst hj
      apply cnt_congr
      intro b hb; simp [hb]
    · have hle : j ≤ n := by omega
      simp only [cnt]
      rw [ih hle]
      have : ¬ n < j := by omega
      simp [this]

theorem popcountAux_eq_cnt (f n : Nat) : popcountAux f n = cnt (fun b => n.testBit b) f := by
  induction f generalizing n with
  | zero => rfl
  | succ f ih =>
    rw [popcountAux, cnt_succ_front, ih]
    have h0 : (if n.testBit 0 = true then 1 else 0) = n % 2 := by
      rw [Nat.testBit_zero]
      have := Nat.mod_two_eq_zero_or_one n
      rcases this with h | h <;> simp [h]
    rw [h0]
    congr 1
    apply cnt_congr
    intro b _
    rw [Nat.testBit_succ]

theorem popcount_mod_two_pow (w j : Nat) (hj : j ≤ 64) :
    popcount (w % 2 ^ j) = cnt (fun b => w.testBit b) j := by
  unfold popcount
  rw [popcountAux_eq_cnt]
  have : (fun b => (w % 2 ^ j).testBit b) = (fun b => decide (b < j) && w.testBit b) := by
    funext b; rw [Nat.testBit_mod_two_pow]
  rw [this, cnt_and_lt _ _ _ hj]

theorem popcount_eq_cnt (w : Nat) : popcount w = cnt (fun b => w.testBit b) 64 := by
  unfold popcount; exact popcountAux_eq_cnt 64 w

/-- Counting listed positions inside `[base, base + j)`. -/
theorem rankBelow_add (idx : List Nat) (hasc : StrictAsc idx) (base j : Nat) :
    rankBelow idx (base + j) = rankBelow idx base + cnt (fun b => decide (base + b ∈ idx)) j := by
  induction j with
  | zero => simp [cnt]
  | succ j ih =>
    rw [← Nat.add_assoc, rankBelow_succ idx hasc, ih]
    simp only [cnt, decide_eq_true_eq]
    omega

/-! ### ascending check -/

theorem ascCheck_iff (l : List Int) : ascCheck l = true ↔ l.Pairwise (· < ·) := by
  induction l with
  | nil => simp [ascCheck]
  | cons a rest ih =>
    cases rest with
    | nil => simp [ascCheck]
    | cons b rest =>
      simp only [ascCheck]
      rw [List.pairwise_cons]
      by_cases hab : a ≥ b
      · simp only [hab, if_true]
        constructor
        · intro h; cases h
        · intro h
          have := h.1 b (List.mem_cons_self ..)
          omega
      · simp only [hab, if_false]
        rw [ih]
        constructor
        · intro h
          refine ⟨?_, h⟩
          intro x hx
          rcases List.mem_cons.mp hx with rfl | hx
          · omega
          · have := (List.pairwise_cons.mp h).1 x hx
            omega
        · exact fun h => h.2

theorem ascCheck_ofNat (idx : List Nat) :
    ascCheck (idx.map Int.ofNat) = true ↔ StrictAsc idx := by
  rw [ascCheck_iff, List.pairwise_map]
  constructor <;> intro h <;> refine h.imp ?_ <;> intro a b hab
  · exact Int.ofNat_lt.mp hab
  · exact Int.ofNat_lt.mpr hab

/-! ### bitmap.Of -/

/-- `setBit` on the list of words. -/
def setBitL (ws : List Nat) (i : Int) : List Nat :=
  let k := (i / 64).toNat
  ws.set k (ws.getD k 0 ||| 2 ^ (i % 64).toNat)

theorem setBit_toList (acc : Array Nat) (i : Int) : (setBit acc i).toList = setBitL acc.toList i := by
  simp [setBit, setBitL, Array.getD_eq_getD_getElem?, List.getD_eq_getElem?_getD]

theorem foldl_setBit_toList (l : List Int) (acc : Array Nat) :
    (l.foldl setBit acc).toList = l.foldl setBitL acc.toList := by
  induction l generalizing acc with
  | nil => rfl
  | cons i l ih => simp only [List.foldl_cons]; rw [ih, setBit_toList]

theorem setBitL_length (ws : List Nat) (i : Int) : (setBitL ws i).length = ws.length := by
  simp [setBitL]

theorem setBitL_getD (ws : List Nat) (x k b : Nat) (hk : k < ws.length) :
    ((setBitL ws (x : Int)).getD k 0).testBit b =
      ((ws.getD k 0).testBit b || decide (k = x / 64 ∧ b = x % 64)) := by
  have h1 : ((x : Int) / 64).toNat = x / 64 := by omega
  have h2 : ((x : Int) % 64).toNat = x % 64 := by omega
  simp only [setBitL, h1, h2, List.getD_eq_getElem?_getD, List.getElem?_set]
  by_cases hkx : x / 64 = k
  · subst hkx
    simp only [hk, if_true, Option.getD_some, Nat.testBit_or, Nat.testBit_two_pow]
    have : decide (x % 64 = b) = decide (x / 64 = x / 64 ∧ b = x % 64) := by
      apply decide_eq_decide.mpr
      constructor
      · intro h; exact ⟨rfl, h.symm⟩
      · intro h; exact h.2.symm
    rw [this]
    simp
  · have : ¬ k = x / 64 := fun h => hkx h.symm
    simp [hkx, this]

theorem foldl_setBitL_spec (l : List Nat) (ws : List Nat) :
    ((l.map Int.ofNat).foldl setBitL ws).length = ws.length ∧
    ∀ k b, k < ws.length →
      (((l.map Int.ofNat).foldl setBitL ws).getD k 0).testBit b =
        ((ws.getD k 0).testBit b || decide (b < 64 ∧ 64 * k + b ∈ l)) := by
  induction l generalizing ws with
  | nil => simp
  | cons x l ih =>
    simp only [List.map_cons, List.foldl_cons]
    obtain ⟨hlen, hbits⟩ := ih (setBitL ws (Int.ofNat x))
    refine ⟨by rw [hlen, setBitL_length], ?_⟩
    intro k b hk
    rw [hbits k b (by rw [setBitL_length]; exact hk)]
    have := setBitL_getD ws x k b hk
    simp only [Int.ofNat_eq_natCast] at this ⊢
    rw [this]
    have hiff : (k = x / 64 ∧ b = x % 64) ↔ (b < 64 ∧ 64 * k + b = x) := by omega
    rw [Bool.or_assoc]
    congr 1
    rw [← Bool.decide_or]
    apply decide_eq_decide.mpr
    simp only [List.mem_cons]
    constructor
    · rintro (h | ⟨hb, h⟩)
      · have := hiff.mp h; exact ⟨this.1, Or.inl this.2⟩
      · exact ⟨hb, Or.inr h⟩
    · rintro ⟨hb, h | h⟩
      · exact Or.inl (hiff.mpr ⟨hb, h⟩)
      · exact Or.inr ⟨hb, h⟩

/-- Number of bitmap words `bitmap.Of` allocates. -/
def nWordsOf (idx : List Nat) : Nat :=
  match idx.getLast? with
  | some l => (l + 64) / 64
  | none => 0

theorem le_getLast_of_strictAsc (idx : List Nat) (hasc : StrictAsc idx) (l : Nat)
    (hl : idx.getLast? = some l) : ∀ x ∈ idx, x ≤ l := by
  induction idx with
  | nil => simp
  | cons a rest ih =>
    have hasc := List.pairwise_cons.mp hasc
    cases rest with
    | nil =>
      simp at hl; subst hl; simp
    | cons b rest =>
      rw [List.getLast?_cons_cons] at hl
      have hb := ih hasc.2 hl
      intro x hx
      rcases List.mem_cons.mp hx with rfl | hx
      · have h1 := hasc.1 b (List.mem_cons_self ..)
        have h2 := hb b (List.mem_cons_self ..)
        omega
      · exact hb x hx

theorem bitmapOf_spec (idx : List Nat) (hasc : StrictAsc idx) (hrange : ∀ x ∈ idx, x + 65 ≤ 2 ^ 31) :
    ∃ W, bitmapOf (idx.map Int.ofNat) = .ok W ∧ W.length = nWordsOf idx ∧
      ∀ k b, k < W.length → (W.getD k 0).testBit b = decide (b < 64 ∧ 64 * k + b ∈ idx) := by
  unfold bitmapOf nWordsOf
  rw [List.getLast?_map]
  cases hl : idx.getLast? with
  | none =>
    have : idx = [] := List.getLast?_eq_none_iff.mp hl
    subst this
    refine ⟨[], ?_, rfl, by simp⟩
    simp [wrap32]
  | some l =>
    have hmem : l ∈ idx := List.mem_of_getLast? hl
    have hlr := hrange l hmem
    have hle := le_getLast_of_strictAsc idx hasc l hl
    simp only [Option.map_some, Int.ofNat_eq_natCast]
    have hw1 : wrap32 ((l : Int) + 1) = (l : Int) + 1 := wrap32_id (by omega) (by omega)
    have hpos : (0 : Int) < (l : Int) + 1 := by omega
    simp only [hw1, hpos, if_true]
    have hw2 : wrap32 ((l : Int) + 1 + 63) = (l : Int) + 64 := by
      rw [wrap32_id (by omega) (by omega)]; omega
    have hnw : ((l : Int) + 64) / 64 = (((l + 64) / 64 : Nat) : Int) := by omega
    rw [hw2, hnw]
    have hneg : ¬ (((l + 64) / 64 : Nat) : Int) < 0 := by omega
    rw [if_neg hneg]
    have hall : (List.map Int.ofNat idx).all
        (fun i => decide (0 ≤ i / 64 ∧ i / 64 < (((l + 64) / 64 : Nat) : Int))) = true := by
      simp only [List.all_map, List.all_eq_true, Function.comp, decide_eq_true_eq]
      intro x hx
      have := hle x hx
      simp only [Int.ofNat_eq_natCast]
      omega
    rw [if_pos hall, foldl_setBit_toList]
    simp only [Int.toNat_natCast, Array.toList_replicate]
    obtain ⟨hlen, hbits⟩ := foldl_setBitL_spec idx (List.replicate ((l + 64) / 64) 0)
    refine ⟨_, rfl, by rw [hlen]; simp, ?_⟩
    intro k b hk
    rw [hlen] at hk
    rw [hbits k b hk]
    simp only [List.length_replicate] at hk
    have hz : (List.replicate ((l + 64) / 64) 0).getD k 0 = 0 := by
      rw [List.getD_eq_getElem?_getD, List.getElem?_replicate]
      split <;> rfl
    rw [hz]
    simp

/-! ### bitmap.IndexRank64 and the zeroed offsets -/

def sumPop (ws : List Nat) (k : Nat) : Nat := ((ws.take k).map popcount).sum

theorem indexRank64From_length (n : Int) (ws : List Nat) : (indexRank64From n ws).length = ws.length := by
  induction ws generalizing n with
  | nil => rfl
  | cons w ws ih => simp [indexRank64From, ih]

theorem indexRank64From_getElem? (ws : List Nat) (n : Nat)
    (hb : n + sumPop ws ws.length < 2147483648) (k : Nat) (hk : k < ws.length) :
    (indexRank64From (n : Int) ws)[k]? = some (((n + sumPop ws k : Nat)) : Int) := by
  induction ws generalizing n k with
  | nil => simp at hk
  | cons w ws ih =>
    simp only [indexRank64From]
    have hs : sumPop (w :: ws) (w :: ws).length = popcount w + sumPop ws ws.length := by
      simp [sumPop]
    rw [hs] at hb
    cases k with
    | zero => simp [sumPop]
    | succ k =>
      have h1 : -2147483648 ≤ (n : Int) + (popcount w : Int) := by omega
      have h2 : (n : Int) + (popcount w : Int) < 2147483648 := by omega
      have hw : wrap32 ((n : Int) + (popcount w : Int)) = ((n + popcount w : Nat) : Int) := by
        rw [wrap32_id h1 h2]; omega
      rw [List.getElem?_cons_succ, hw, ih (n + popcount w) (by omega) k (by simpa using hk)]
      have : sumPop (w :: ws) (k + 1) = popcount w + sumPop ws k := by simp [sumPop]
      rw [this, Nat.add_assoc]

theorem zeroEmpty_getElem? (ws : List Nat) (os : List Int) (hlen : ws.length = os.length) (k : Nat) :
    (zeroEmpty ws os)[k]? = (os[k]?).map (fun o => if ws.getD k 0 = 0 then 0 else o) := by
  induction ws generalizing os k with
  | nil =>
    cases os with
    | nil => simp [zeroEmpty]
    | cons o os => simp at hlen
  | cons w ws ih =>
    cases os with
    | nil => simp at hlen
    | cons o os =>
      simp only [List.length_cons, Nat.add_right_cancel_iff] at hlen
      cases k with
      | zero => simp [zeroEmpty]
      | succ k => simp [zeroEmpty, ih os hlen k]

theorem sumPop_succ (ws : List Nat) (k : Nat) (hk : k < ws.length) :
    sumPop ws (k + 1) = sumPop ws k + popcount (ws.getD k 0) := by
  unfold sumPop
  rw [List.take_add_one, List.map_append, List.sum_append, List.getElem?_eq_getElem hk]
  simp [List.getD_eq_getElem?_getD, List.getElem?_eq_getElem hk]

/-- The words that `bitmap.Of` builds for `idx`: word `k` has exactly the bits of the listed
    positions in `[64k, 64k+64)`. -/
def IsBitmapOf (idx : List Nat) (W : List Nat) : Prop :=
  W.length = nWordsOf idx ∧
  ∀ k b, k < W.length → (W.getD k 0).testBit b = decide (b < 64 ∧ 64 * k + b ∈ idx)

theorem popcount_word_mod {idx W : List Nat} (hW : IsBitmapOf idx W) (hasc : StrictAsc idx)
    (k j : Nat) (hk : k < W.length) (hj : j ≤ 64) :
    rankBelow idx (64 * k + j) = rankBelow idx (64 * k) + popcount (W.getD k 0 % 2 ^ j) := by
  rw [popcount_mod_two_pow _ _ hj, rankBelow_add idx hasc]
  congr 1
  apply cnt_congr
  intro b hb
  rw [hW.2 k b hk]
  have : b < 64 := by omega
  simp [this]

theorem popcount_word {idx W : List Nat} (hW : IsBitmapOf idx W) (hasc : StrictAsc idx)
    (k : Nat) (hk : k < W.length) :
    rankBelow idx (64 * (k + 1)) = rankBelow idx (64 * k) + popcount (W.getD k 0) := by
  have h := popcount_word_mod hW hasc k 64 hk (Nat.le_refl _)
  have h64 : W.getD k 0 % 2 ^ 64 = W.getD k 0 := by
    apply Nat.mod_eq_of_lt
    apply Nat.lt_pow_two_of_testBit
    intro b hb
    rw [hW.2 k b hk]
    have : ¬ b < 64 := by omega
    simp [this]
  rw [h64] at h
  rw [← h]; congr 1

theorem sumPop_eq_rankBelow {idx W : List Nat} (hW : IsBitmapOf idx W) (hasc : StrictAsc idx)
    (k : Nat) (hk : k ≤ W.length) : sumPop W k = rankBelow idx (64 * k) := by
  induction k with
  | zero =>
    simp only [sumPop, List.take_zero, List.map_nil, List.sum_nil, Nat.mul_zero]
    exact (rankBelow_eq_zero_of_forall_ge idx 0 (fun _ _ => Nat.zero_le _)).symm
  | succ k ih =>
    rw [sumPop_succ W k (by omega), ih (by omega), popcount_word hW hasc k (by omega)]

theorem lt_span_of_mem {idx W : List Nat} (hW : IsBitmapOf idx W) (hasc : StrictAsc idx) :
    ∀ x ∈ idx, x < 64 * W.length := by
  intro x hx
  rw [hW.1]; unfold nWordsOf
  cases hl : idx.getLast? with
  | none =>
    have : idx = [] := List.getLast?_eq_none_iff.mp hl
    subst this; simp at hx
  | some l =>
    have := le_getLast_of_strictAsc idx hasc l hl x hx
    simp only; omega

theorem sumPop_total {idx W : List Nat} (hW : IsBitmapOf idx W) (hasc : StrictAsc idx) :
    sumPop W W.length = idx.length := by
  rw [sumPop_eq_rankBelow hW hasc _ (Nat.le_refl _)]
  exact rankBelow_eq_length idx _ (lt_span_of_mem hW hasc)

/-- The offsets `InitIndex` stores: for a non-empty word, the number of listed positions in front
    of the word; `0` for an empty word. -/
theorem offsets_getElem? {idx W : List Nat} (hW : IsBitmapOf idx W) (hasc : StrictAsc idx)
    (hcnt : idx.length < 2 ^ 31) (k : Nat) (hk : k < W.length) :
    (zeroEmpty W (indexRank64 W))[k]? =
      some (if W.getD k 0 = 0 then 0 else ((rankBelow idx (64 * k) : Nat) : Int)) := by
  rw [zeroEmpty_getElem? W _ (by simp [indexRank64, indexRank64From_length])]
  unfold indexRank64
  have hb : 0 + sumPop W W.length < 2147483648 := by rw [sumPop_total hW hasc]; omega
  have := indexRank64From_getElem? W 0 hb k hk
  simp only [Int.ofNat_zero, Nat.zero_add] at this
  rw [this, sumPop_eq_rankBelow hW hasc k (by omega)]
  simp

/-! ### fixed-width chunks -/

theorem flatten_chunks (chunks : List Bytes) (w : Nat) (hw : ∀ c ∈ chunks, c.length = w) :
    chunks.flatten.length = chunks.length * w ∧
    ∀ p (hp : p < chunks.length), (chunks.flatten.drop (p * w)).take w = chunks[p] := by
  induction chunks with
  | nil => simp
  | cons c cs ih =>
    have hc : c.length = w := hw c (List.mem_cons_self ..)
    obtain ⟨ih1, ih2⟩ := ih (fun x hx => hw x (List.mem_cons_of_mem _ hx))
    refine ⟨by simp [ih1, hc, Nat.add_mul]; omega, ?_⟩
    intro p hp
    cases p with
    | zero => simp [List.take_left' hc]
    | succ p =>
      have : (p + 1) * w = c.length + p * w := by rw [hc, Nat.add_mul]; omega
      simp only [List.flatten_cons, this, List.getElem_cons_succ]
      rw [List.drop_append, List.drop_eq_nil_of_le (by omega), Nat.add_sub_cancel_left,
        List.nil_append]
      exact ih2 p (by simpa using hp)

end ArrayPkg
