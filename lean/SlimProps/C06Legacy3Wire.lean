import SlimProofs.Legacy3Wire
import SlimProofs.Legacy3Size
import SlimProps.C06Legacy3
import SlimProps.C06Wire
import SlimProps.C06View
import SlimProps.C07Wire
/-
  C06 (bytes → instance, every legacy layout) — "data written by every older compatible version
  loads and answers correctly": the streams of the reconstructed writers (`LegacyWrite.writeLegacy3`
  for 0.5.0 … 0.5.9, `LegacyWrite.write0510` for 0.5.10 / 0.5.11; their Go twins reproduce all 97
  archived files byte for byte) go through the model's complete `Unmarshal`
  (`Legacy.Instance.unmarshal`: header, version dispatch, framed reads, protobuf decoding, the
  in-memory conversions, `init`) and the resulting instance answers as the property demands.

  This file adds the missing link bytes → sections for the three-section layouts
  (`C06_dispatch_legacy3`, `C06_load_legacy3`, `C06_truncated_legacy3_stream`) and ties both
  families into two headline theorems of the same shape, `C06_load_legacy_3section` and
  `C06_load_legacy_0510` (lookups of every indexed / retained key, totality of every lookup on every
  query, `Stat`).

  Limits assumed for the three-section family (all are the layout's own):
   * `hkl`     keys within the `uint16` step of the layout (agent F's hypothesis);
   * `hcount`  `32 · n + 143 < 2^31`: the old trie has at most `2n + 1` nodes
               (`buildOld_size_le`) and the children section stores 16 bits per inner node with
               int32 counters (`BMElts.N`, the rank indexes) — beyond that Go's own fields overflow;
   * `hwn`     `w · (2n + 1) < 2^31` (was 2^47, the allocation limit, until agent T3's finding: the value width and
               the leaf byte count are int32 in Go — `VLenArray.FixedSize = int32(size)`, `int32(len(Bytes))` — while the
               model keeps them in `Nat`; beyond 2^31 the theorem would speak about a regime where model and code differ): the leaves section can be allocated (`make([]byte, n)` of the
               frame reader; the other two sections are bounded by `hcount` alone —
               `sections3_bodyOK`).
  All three-section hypotheses are about `keys`, `vals`, `w` only.
  For the 0.5.10 family: `Refine.Small t` and `BodyOK` of the body as in `C06Wire`; the values are
  described by `hw : ∀ v ∈ vals, v.length = w` alone (`build_elts_fixed`).
  The empty key set (excluded by `hne` above) is `C06_load_legacy_3section_empty` /
  `C06_load_legacy_0510_empty`; the single-key set is an instance of the general theorems
  (`C06_load_legacy_3section_single`).
-/
open Wire Frame Version Legacy LegacyWrite LegacyConvert Refine

/-- (1) bytes → sections: the stream `writeLegacy3` produced dispatches to the `legacy3` branch of
    `Unmarshal` with exactly the three messages `sections3` made (the writer's messages are
    well-formed without unknown bytes: `sections3_WF`, proved from their construction). -/
theorem C06_dispatch_legacy3 (variant : String) (vr : Variant) (keys vals : List Bytes)
    (ch st lv : Array32Msg) (stream : Bytes)
    (hp : parseVariant variant = some vr) (hsec : sections3 vr keys vals = .ok (ch, st, lv))
    (hwr : writeLegacy3 variant keys vals = .ok stream)
    (hcount : 32 * keys.length + 143 < 2 ^ 31)
    (hbc : BodyOK (encodeArray32 ch)) (hbs : BodyOK (encodeArray32 st)) (hbl : BodyOK (encodeArray32 lv)) :
    stream = frame vr.header (encodeArray32 ch) ++ (frame vr.header (encodeArray32 st) ++
        frame vr.header (encodeArray32 lv)) ∧
    unmarshalDispatch stream = .ok (.legacy3 vr.header ch st lv) := by
  obtain ⟨vr', ch', st', lv', hp', hsec', hs⟩ := writeLegacy3_inv variant keys vals stream hwr
  rw [hp] at hp'
  cases hp'
  rw [hsec] at hsec'
  cases hsec'
  refine ⟨hs, ?_⟩
  rw [hs]
  apply dispatch_legacy3 vr keys vals ch st lv (parseVariant_header variant vr hp) hsec _ hbc hbs hbl
  intro nodes hb
  have := buildOld_size_le keys vr.leafSteps nodes hb
  omega

section load
variable (variant : String) (vr : Variant) (keys vals : List Bytes) (w : Nat) (ch st lv : Array32Msg)
  (stream : Bytes)
  (hp : parseVariant variant = some vr) (hsec : sections3 vr keys vals = .ok (ch, st, lv))
  (hwr : writeLegacy3 variant keys vals = .ok stream)
  (hne : keys ≠ []) (hasc : strictAsc keys = true) (hlen : vals.length = keys.length)
  (hw : ∀ v ∈ vals, v.length = w) (hkl : ∀ k ∈ keys, 2 * k.length < 65535)
  (hcount : 32 * keys.length + 143 < 2 ^ 31)
  (hbc : BodyOK (encodeArray32 ch)) (hbs : BodyOK (encodeArray32 st)) (hbl : BodyOK (encodeArray32 lv))
  (t' : Trie1) (hconv : convert ch st lv (some w) = .ok t')
include hp hsec hwr hne hasc hlen hw hkl hcount hbc hbs hbl hconv

/-- (2) the complete `Unmarshal`: the new `st.inner` is the creator's message of the converted
    trie, and the instance is the freshly initialised one, whatever it held. -/
theorem C06_load_legacy3 (σ : Instance) :
    unmarshalMsg (some w) stream = .ok (Slim.encodeCreator t') ∧
    ∃ lvl, Slim.initLevels (Slim.encodeCreator t') = .ok lvl ∧
      Instance.unmarshal σ (some w) stream
        = ({ inner := Slim.encodeCreator t', levels := lvl, varsNil := false }, none) ∧
      Slim.stat (Slim.encodeCreator t') lvl
        = .ok { levels := lvl, keyCnt := keys.length, nodeCnt := t'.nodes.size } := by
  have hd := (C06_dispatch_legacy3 variant vr keys vals ch st lv stream hp hsec hwr hcount hbc hbs hbl).2
  have hm : unmarshalMsg (some w) stream = .ok (Slim.encodeCreator t') := by
    unfold unmarshalMsg
    rw [hd]
    show (convert ch st lv (some w) >>= fun t => pure (Slim.encodeCreator t)) = _
    rw [hconv]
    rfl
  obtain ⟨lvl, hl, hstat⟩ := C06_keycnt_legacy3 vr keys vals w ch st lv hne hasc hlen hw hkl hsec t' hconv
  refine ⟨hm, lvl, hl, ?_, hstat⟩
  have hi : Instance.init (Slim.encodeCreator t') = .ok { inner := Slim.encodeCreator t', levels := lvl } := by
    unfold Instance.init; rw [hl]; rfl
  unfold Instance.unmarshal
  rw [hm]
  simp only [hi]

end load

/-- (3a) **C06, three-section layouts (0.5.0 … 0.5.9), from the bytes.**  For every variant, every
    non-empty strictly ascending key list within the layout's limits, one value of width `w` per
    key: loading the writer's stream into any instance succeeds, and the instance then finds every
    key with its value (`Get`, `RangeGet`), returns the exact neighbours (`Search`), answers every
    lookup of every query string normally, and `Stat` reports all `n` keys (nothing is dropped:
    these layouts had no de-duplication). -/
theorem C06_load_legacy_3section (variant : String) (keys vals : List Bytes) (w : Nat) (stream : Bytes)
    (hwr : writeLegacy3 variant keys vals = .ok stream)
    (hne : keys ≠ []) (hasc : strictAsc keys = true) (hlen : vals.length = keys.length)
    (hw : ∀ v ∈ vals, v.length = w) (hkl : ∀ k ∈ keys, 2 * k.length < 65535)
    (hcount : 32 * keys.length + 143 < 2 ^ 31) (hwn : w * (2 * keys.length + 1) < 2 ^ 31)
    (σ : Instance) :
    let r := Instance.unmarshal σ (some w) stream
    let v := Slim.view r.1.inner
    r.2 = none ∧ r.1.varsNil = false ∧
    (∀ i, i < keys.length →
      get v (keys.getD i []) = .ok (some (C06L3.val w vals i)) ∧
      rangeGet v (keys.getD i []) = .ok (some (C06L3.val w vals i)) ∧
      search v (keys.getD i []) =
        .ok (if i = 0 then none else some (C06L3.val w vals (i - 1)),
             some (C06L3.val w vals i),
             if i + 1 < keys.length then some (C06L3.val w vals (i + 1)) else none)) ∧
    (∀ q, (∃ a, getID v q = .ok a) ∧ (∃ a, get v q = .ok a) ∧ (∃ a, rangeGet v q = .ok a) ∧
      (∃ a, search v q = .ok a)) ∧
    (∃ nodeCnt, Slim.stat r.1.inner r.1.levels
      = .ok { levels := r.1.levels, keyCnt := keys.length, nodeCnt := nodeCnt }) := by
  intro r v
  -- the int32 bound implies the allocation bound the section lemmas ask for
  have hwn : w * (2 * keys.length + 1) < 2 ^ 47 := Nat.lt_trans hwn (by decide)
  obtain ⟨vr, ch, st, lv, hp, hsec, _⟩ := writeLegacy3_inv variant keys vals stream hwr
  obtain ⟨hbc, hbs, hbl⟩ := sections3_bodyOK vr keys vals w ch st lv hsec hcount hw hwn
  obtain ⟨t', hconv⟩ := C06_convert_ok_legacy3 vr keys vals w ch st lv hne hasc hlen hw hkl hsec
  obtain ⟨_, lvl, _, hinst, hstat⟩ := C06_load_legacy3 variant vr keys vals w ch st lv stream hp hsec hwr
    hne hasc hlen hw hkl hcount hbc hbs hbl t' hconv σ
  have hr : r = ({ inner := Slim.encodeCreator t', levels := lvl, varsNil := false }, none) := hinst
  have hv : v = Slim.view (Slim.encodeCreator t') := by show Slim.view r.1.inner = _; rw [hr]
  rw [hv, hr]
  refine ⟨rfl, rfl, ?_, ?_, ⟨_, hstat⟩⟩
  · intro i hi
    exact ⟨C06_get_legacy3 vr keys vals w ch st lv hne hasc hlen hw hkl hsec t' hconv i hi,
      C06_rangeget_legacy3 vr keys vals w ch st lv hne hasc hlen hw hkl hsec t' hconv i hi,
      C06_search_legacy3 vr keys vals w ch st lv hne hasc hlen hw hkl hsec t' hconv i hi⟩
  · intro q
    exact C06_total_legacy3 vr keys vals w ch st lv hne hasc hlen hw hkl hsec t' hconv q

/-- (3b) **C06, 0.5.10 / 0.5.11 (nopref / innpref / allpref), from the bytes.**  Same shape: loading
    the writer's stream into any instance succeeds; every RETAINED key (these versions
    de-duplicate: `keepMask`) is found with its value, `RangeGet` answers every indexed key with the
    value of its run, `Search` returns the exact retained neighbours, every lookup of every query is
    total, and `Stat` reports exactly the retained keys.  (In `allpref` mode the instance is
    moreover an exact ordered map and scans enumerate it: `C06_allpref_exact`, `C06_allpref_scan`
    apply to the same loaded view.) -/
theorem C06_load_legacy_0510 (mode ver : String) (keys vals : List Bytes) (opt : Opt) (t : Trie1)
    (w : Nat) (stream : Bytes)
    (hmode : optOfMode mode = some opt) (hver : ver = "0.5.10" ∨ ver = "0.5.11")
    (hwr : write0510 mode ver keys vals = .ok stream)
    (hb : build keys (some vals) opt = .ok t) (hk : keys ≠ []) (hsm : Small t)
    (hbody : BodyOK (to0510 (Slim.encodeCreator t)))
    (hw : 0 < w) (hvw : ∀ v ∈ vals, v.length = w) (σ : Instance) :
    let r := Instance.unmarshal σ (some w) stream
    let v := Slim.view r.1.inner
    let mask := keepMask keys.length (some vals) opt.dedup
    r.2 = none ∧ r.1.varsNil = false ∧
    (∀ i, i < keys.length → keptAt mask i = true →
      get v (keys.getD i []) = .ok (some (expectedValue (some vals) t i)) ∧
      search v (keys.getD i []) =
        .ok (valOf mask (some vals) (prevKept mask i), valOf mask (some vals) (some i),
             valOf mask (some vals) (nextKept mask i))) ∧
    (∀ i, i < keys.length → rangeGet v (keys.getD i []) = .ok (some (recVal mask (some vals) i))) ∧
    (∀ q, (∃ a, getID v q = .ok a) ∧ (∃ a, get v q = .ok a) ∧ (∃ a, rangeGet v q = .ok a) ∧
      (∃ a, search v q = .ok a)) ∧
    (∃ nodeCnt, Slim.stat r.1.inner r.1.levels
      = .ok { levels := r.1.levels, keyCnt := (retained keys (some vals) opt.dedup).length,
              nodeCnt := nodeCnt }) := by
  intro r v mask
  obtain ⟨es, helts, hne, hes⟩ := build_elts_fixed keys vals opt t w hb hk hvw
  have hstream := C06_write0510_stream mode ver keys vals opt t hmode hver hk hb
  rw [hwr] at hstream
  simp only [Except.ok.injEq] at hstream
  obtain ⟨lv, hlv, hinst⟩ := C06_load_0510_instance keys vals opt t ver hver hb hk hsm hbody es w helts hw hne hes σ
  have henc : Slim.encode t = Slim.encodeCreator t :=
    (C06_load_0510 keys vals opt t ver hver hb hk hsm hbody es w helts hw hne hes).1
  have hr : r = (⟨wordSelectMsg (Slim.encode t) (retired (Slim.encodeCreator t)), lv, false⟩, none) := by
    show Instance.unmarshal σ (some w) stream = _
    rw [hstream, hinst, henc]
  have hv : v = V0510 t (retired (Slim.encodeCreator t)) := by
    show Slim.view r.1.inner = _; rw [hr]
  rw [hv, hr]
  refine ⟨rfl, rfl, ?_, ?_, ?_, ?_⟩
  · intro i hi hkept
    exact ⟨(C06_get_0510 keys (some vals) opt t hb _ i hi hkept).2,
      C06_search_0510 keys (some vals) opt t hb hk _ i hi hkept⟩
  · intro i hi
    exact C06_rangeget_0510 keys (some vals) opt t hb hk _ i hi
  · intro q
    obtain ⟨h1, h2, _, h4, h5⟩ := C06_total_0510 keys (some vals) opt t hb (retired (Slim.encodeCreator t)) q
    exact ⟨h1, h2, h4, h5⟩
  · have hl' : Slim.initLevels (wordSelectMsg (Slim.encode t) (retired (Slim.encodeCreator t))) = .ok lv := by
      rw [initLevels_wordSelectMsg]; exact hlv
    exact ⟨_, (C06_stat_0510 keys (some vals) opt t hb hk _ lv hl').2⟩

/-- (4) A three-section stream cut anywhere before its end is rejected as truncated (the complete
    sections are the writer's own, hence decodable), and the instance is left empty. -/
theorem C06_truncated_legacy3_stream (variant : String) (vr : Variant) (keys vals : List Bytes)
    (ch st lv : Array32Msg) (stream : Bytes)
    (hp : parseVariant variant = some vr) (hsec : sections3 vr keys vals = .ok (ch, st, lv))
    (hwr : writeLegacy3 variant keys vals = .ok stream)
    (hcount : 32 * keys.length + 143 < 2 ^ 31)
    (hbc : BodyOK (encodeArray32 ch)) (hbs : BodyOK (encodeArray32 st)) (hbl : BodyOK (encodeArray32 lv))
    (e : Option Nat) (cut : Nat) (hcut : cut < stream.length) (σ : Instance) :
    unmarshalMsg e (stream.take cut) = .error .truncated ∧
    (Instance.unmarshal σ e (stream.take cut)).1.inner = {} := by
  obtain ⟨hs, _⟩ := C06_dispatch_legacy3 variant vr keys vals ch st lv stream hp hsec hwr hcount hbc hbs hbl
  obtain ⟨hvo, hcomp, hlay⟩ := version_legacy vr.header (parseVariant_header variant vr hp)
  obtain ⟨w1, w2, _, n1, n2, _⟩ := sections3_WF vr keys vals ch st lv hsec (by
    intro nodes hb
    have := buildOld_size_le keys vr.leafSteps nodes hb
    omega)
  rw [hs] at hcut ⊢
  have h := C07_truncated_legacy3_wellformed vr.header vr.header vr.header hvo hvo hvo hcomp hlay
    ch st lv hbc hbs hbl w1 n1 w2 n2 cut hcut
  have hm := unmarshalMsg_of_dispatch_error e _ _ h
  exact ⟨hm, by rw [Instance.unmarshal_error_inner σ e _ _ hm]⟩

/-! ### the empty key set -/

/-- what the empty-trie conclusion says about a load result -/
def EmptyLoaded (r : Instance × Option Err) : Prop :=
  r.2 = none ∧ r.1.varsNil = false ∧ r.1.levels = [(0, 0, 0)] ∧
  (∀ q, getID (Slim.view r.1.inner) q = .ok none ∧ get (Slim.view r.1.inner) q = .ok none ∧
    rangeGet (Slim.view r.1.inner) q = .ok none ∧ search (Slim.view r.1.inner) q = .ok (none, none, none)) ∧
  (∀ start incl withValue keep stopAfter,
    Scan.scanFrom (Slim.view r.1.inner) start incl withValue keep stopAfter = .ok []) ∧
  Slim.stat r.1.inner r.1.levels = .ok { levels := [(0, 0, 0)], keyCnt := 0, nodeCnt := 0 }

/-- a load whose message has no `NodeTypeBM` gives the empty trie -/
theorem emptyLoaded_of (σ : Instance) (e : Option Nat) (stream : Bytes) (m : SlimMsg)
    (hm : unmarshalMsg e stream = .ok m) (hn : m.nodeTypeBM = none) :
    EmptyLoaded (Instance.unmarshal σ e stream) := by
  have hi : Instance.init m = .ok { inner := m, levels := [(0, 0, 0)] } := by
    unfold Instance.init; rw [initLevels_of_none m hn]; rfl
  have hr : Instance.unmarshal σ e stream = (⟨m, [(0, 0, 0)], false⟩, none) := by
    unfold Instance.unmarshal
    rw [hm]
    simp only [hi]
  have he : (Slim.view m).isEmpty = true := by
    show m.nodeTypeBM.isNone = true
    rw [hn]; rfl
  unfold EmptyLoaded
  rw [hr]
  refine ⟨rfl, rfl, rfl, ?_, ?_, stat_of_none m hn⟩
  · intro q
    exact ⟨EmptyView.getID_empty _ he q, EmptyView.get_empty _ he q, EmptyView.rangeGet_empty _ he q,
      EmptyView.search_empty _ he q⟩
  · intro start incl withValue keep stopAfter
    exact EmptyView.scanFrom_empty _ he start incl withValue keep stopAfter

/-- (5a) **The empty key set, three-section layouts.**  For every variant, the writer's stream for
    `keys = []` (three frames whose messages hold no node) loads without error into any instance,
    with any encoder; every lookup and scan then answers as the empty trie and `Stat` reports 0 keys
    and 0 nodes (`EmptyLoaded`). -/
theorem C06_load_legacy_3section_empty (variant : String) (vals : List Bytes) (stream : Bytes)
    (hwr : writeLegacy3 variant [] vals = .ok stream) (e : Option Nat) (σ : Instance) :
    EmptyLoaded (Instance.unmarshal σ e stream) := by
  obtain ⟨vr, ch, st, lv, hp, hsec, hs⟩ := writeLegacy3_inv variant [] vals stream hwr
  rw [sections3_nil] at hsec
  simp only [Except.ok.injEq, Prod.mk.injEq] at hsec
  obtain ⟨rfl, rfl, rfl⟩ := hsec
  have hsec' : sections3 vr [] [] = .ok (childrenMsg vr [] 0, stepsMsg [] 0, leavesMsg [] #[]) :=
    sections3_nil vr []
  obtain ⟨hbc, hbs, hbl⟩ := sections3_bodyOK vr [] [] 0 _ _ _ hsec' (by decide) (by simp) (by decide)
  obtain ⟨b1, b2, b3⟩ := sections3_nil_bitmaps vr
  have hd := dispatch_legacy3 vr [] [] _ _ _ (parseVariant_header variant vr hp) hsec'
    (by intro nodes hb; rw [buildOld_nil] at hb; cases hb; decide) hbc hbs hbl
  have hm : unmarshalMsg e stream = .ok (Slim.encodeCreator emptyConverted) := by
    unfold unmarshalMsg
    rw [hs, hd]
    show (convert _ _ _ e >>= fun t => pure (Slim.encodeCreator t)) = _
    rw [convert_empty _ _ _ e b1 b2 b3]
    rfl
  exact emptyLoaded_of σ e stream _ hm encodeCreator_emptyConverted_nodeTypeBM

/-- (5b) **The empty key set, 0.5.10 / 0.5.11.**  Every mode writes an empty body; it loads without
    error into any instance, which is then the empty trie. -/
theorem C06_load_legacy_0510_empty (mode ver : String) (opt : Opt) (vals : List Bytes) (stream : Bytes)
    (hmode : optOfMode mode = some opt) (hver : ver = "0.5.10" ∨ ver = "0.5.11")
    (hwr : write0510 mode ver [] vals = .ok stream) (e : Option Nat) (σ : Instance) :
    EmptyLoaded (Instance.unmarshal σ e stream) := by
  have hstream : stream = frame ver [] := by
    unfold write0510 at hwr
    have hv : (ver != "0.5.10" && ver != "0.5.11") = false := by
      rcases hver with rfl | rfl <;> decide
    simp only [hmode, hv] at hwr
    have : (pure (frame ver []) : Except Err Bytes) = .ok stream := hwr
    cases this
    rfl
  rw [hstream]
  exact emptyLoaded_of σ e _ {} (C06_load_0510_empty ver hver e σ).1 rfl

/-! ### the single-key set -/

/-- (6) **A single key, three-section layouts**: the general theorem at `keys = [k]`, `vals = [x]`.
    The loaded instance finds `k` with `x` (nil when the width is 0), has no neighbours, and reports
    one key. -/
theorem C06_load_legacy_3section_single (variant : String) (k x : Bytes) (stream : Bytes)
    (hwr : writeLegacy3 variant [k] [x] = .ok stream) (hkl : 2 * k.length < 65535)
    (hx : x.length * 3 < 2 ^ 31) (σ : Instance) :
    let r := Instance.unmarshal σ (some x.length) stream
    let v := Slim.view r.1.inner
    r.2 = none ∧
    get v k = .ok (some (C06L3.val x.length [x] 0)) ∧
    rangeGet v k = .ok (some (C06L3.val x.length [x] 0)) ∧
    search v k = .ok (none, some (C06L3.val x.length [x] 0), none) ∧
    (∃ nodeCnt, Slim.stat r.1.inner r.1.levels = .ok { levels := r.1.levels, keyCnt := 1, nodeCnt := nodeCnt }) := by
  intro r v
  have h := C06_load_legacy_3section variant [k] [x] x.length stream hwr (by simp) (by simp [strictAsc])
    rfl (by simp) (by simpa using hkl) (by simp) (by simpa [Nat.mul_comm] using hx) σ
  obtain ⟨h1, _, h3, _, h5⟩ := h
  obtain ⟨g1, g2, g3⟩ := h3 0 (by simp)
  exact ⟨h1, by simpa using g1, by simpa using g2, by simpa using g3, by simpa using h5⟩

/-! ### non-vacuity: five keys, one variant of each family; one key; no key -/

namespace C06L3W

open C06L3.Ex in
/-- the 0.5.9 stream (bitmap children, extended index bitmaps) of five keys — "a" is a prefix of
    "ab", an old node that is inner and leaf — exists and satisfies every hypothesis of
    `C06_load_legacy_3section`; hence any instance that loads it finds "ab" with value `[2]` and
    reports 5 keys -/
example (σ : Instance) : ∃ stream, writeLegacy3 "0.5.9" keys vals = .ok stream ∧
    (Instance.unmarshal σ (some 1) stream).2 = none ∧
    get (Slim.view (Instance.unmarshal σ (some 1) stream).1.inner) [0x61, 0x62] = .ok (some (some [2])) := by
  have hok : (writeLegacy3 "0.5.9" keys vals).toBool = true := by decide +kernel
  match hs : writeLegacy3 "0.5.9" keys vals with
  | .error e => rw [hs] at hok; cases hok
  | .ok stream =>
    have h := C06_load_legacy_3section "0.5.9" keys vals 1 stream hs (by decide) (by decide) rfl
      (by decide) (by decide) (by decide) (by decide) σ
    obtain ⟨h1, _, h3, _, _⟩ := h
    exact ⟨stream, rfl, h1, (h3 1 (by decide)).1⟩

/-- a single key "k" ↦ [7] in the oldest variant (0.5.0: uint32 children, steps on leaves) -/
example (σ : Instance) : ∃ stream, writeLegacy3 "0.5.0" [[0x6b]] [[7]] = .ok stream ∧
    get (Slim.view (Instance.unmarshal σ (some 1) stream).1.inner) [0x6b] = .ok (some (some [7])) := by
  have hok : (writeLegacy3 "0.5.0" [[0x6b]] [[7]]).toBool = true := by decide +kernel
  match hs : writeLegacy3 "0.5.0" [[0x6b]] [[7]] with
  | .error e => rw [hs] at hok; cases hok
  | .ok stream =>
    exact ⟨stream, rfl, (C06_load_legacy_3section_single "0.5.0" [0x6b] [7] stream hs (by decide) (by decide) σ).2.1⟩

/-- no key: every three-section variant and every 0.5.10 mode produce a stream -/
example : ∀ v ∈ ["0.5.0", "0.5.3", "0.5.4", "0.5.7", "0.5.8", "0.5.9"],
    (writeLegacy3 v [] []).toBool = true := by decide +kernel
example : ∀ m ∈ ["nopref", "innpref", "allpref"], ∀ v ∈ ["0.5.10", "0.5.11"],
    (write0510 m v [] []).toBool = true := by decide +kernel

open C06L3.Ex in
/-- the allpref-0.5.10 stream of the same five keys satisfies every hypothesis of
    `C06_load_legacy_0510`; hence any instance that loads it reports the 5 retained keys and
    answers every lookup -/
example (σ : Instance) : ∃ stream, write0510 "allpref" "0.5.10" keys vals = .ok stream ∧
    (Instance.unmarshal σ (some 1) stream).2 = none ∧
    (∃ n, Slim.stat (Instance.unmarshal σ (some 1) stream).1.inner (Instance.unmarshal σ (some 1) stream).1.levels
      = .ok { levels := (Instance.unmarshal σ (some 1) stream).1.levels, keyCnt := 5, nodeCnt := n }) ∧
    ∀ q, ∃ a, search (Slim.view (Instance.unmarshal σ (some 1) stream).1.inner) q = .ok a := by
  have hopt : optOfMode "allpref" = some { inner := true, leaf := true } := by decide
  have h : ((build keys (some vals) { inner := true, leaf := true }).toOption.map (fun t =>
      smallB t && decide ((to0510 (Slim.encodeCreator t)).length ≤ maxAlloc))) = some true := by
    decide +kernel
  have hret : (retained keys (some vals) true).length = 5 := by decide
  match hb : build keys (some vals) { inner := true, leaf := true } with
  | .error e => rw [hb] at h; cases h
  | .ok t =>
    rw [hb] at h
    simp only [Except.toOption, Option.map_some, Option.some.injEq, Bool.and_eq_true,
      decide_eq_true_eq] at h
    obtain ⟨h1, h2⟩ := h
    have hk : keys ≠ [] := by decide
    have hstream := C06_write0510_stream "allpref" "0.5.10" keys vals _ t hopt (Or.inl rfl) hk hb
    have hall := C06_load_legacy_0510 "allpref" "0.5.10" keys vals _ t 1 _ hopt (Or.inl rfl) hstream hb hk
      (small_of_smallB h1) h2 (by omega) (by decide) σ
    obtain ⟨r1, _, _, _, r5, r6⟩ := hall
    refine ⟨_, hstream, r1, ?_, fun q => (r5 q).2.2.2⟩
    obtain ⟨n, hn⟩ := r6
    exact ⟨n, by rw [hn]; simp only [hret]⟩

end C06L3W

#print axioms C06_dispatch_legacy3
#print axioms C06_load_legacy3
#print axioms C06_load_legacy_3section
#print axioms C06_load_legacy_0510
#print axioms C06_truncated_legacy3_stream
#print axioms C06_load_legacy_3section_empty
#print axioms C06_load_legacy_0510_empty
#print axioms C06_load_legacy_3section_single
