import Generated.Funcs
import SlimModel.Slim
import SlimModel.Query
import SlimModel.Encode
/-
  SlimProps.BridgeSem — tie 1, semantic part: the small pure functions of the Go source, translated
  to Lean on every check run (lean/Generated/Funcs.lean, written by harness/cmd/extract/translate.go
  with the meaning of lean/Generated/GoSem.lean), are EQUAL to the model's functions, for all inputs.

  A harmless rewrite of the Go source changes Funcs.lean but not these theorems; a change of meaning
  breaks a proof.  The proofs therefore do not depend on the shape of the generated terms: they
  unfold the generated definition and the `Go.*` operations (`go_simp`), and finish with `omega`
  (linear arithmetic with `/` and `%` by literals) or, for the little-endian compositions, by
  rewriting the model side into a `|||` of shifted bytes and comparing modulo associativity and
  commutativity (`ac_rfl`).

  Units: the Go functions count bits, the model counts half-bytes (bit position = 4 × position).

  * `encStep_sem`, `decStep_sem`, `decStep_encStep_iff`
  * `getLabelIdxOfKey_sem`
  * `getI8_sem` … `getI64_sem` (+ `_list` versions for `bs.length = N/8`), `getI16Index_sem` …
  * `encSizes_sem`, `encSizes_model` (package encode: the size literals of the integer encoders)
-/

open Generated

namespace BridgeSem

/-! ### normalisation -/

theorem and_255 (x : Nat) : x &&& 255 = x % 256 := Nat.and_two_pow_sub_one_eq_mod x 8
theorem and_15 (x : Nat) : x &&& 15 = x % 16 := Nat.and_two_pow_sub_one_eq_mod x 4
theorem and_7 (x : Nat) : x &&& 7 = x % 8 := Nat.and_two_pow_sub_one_eq_mod x 3
theorem and_255' (x : Nat) : 255 &&& x = x % 256 := by rw [Nat.and_comm]; exact and_255 x
theorem and_15' (x : Nat) : 15 &&& x = x % 16 := by rw [Nat.and_comm]; exact and_15 x
theorem and_7' (x : Nat) : 7 &&& x = x % 8 := by rw [Nat.and_comm]; exact and_7 x

theorem byte_lt (b : UInt8) : b.toNat < 256 := UInt8.toNat_lt_size b

/-! conditional rewrite rules: on operands that fit, the `Go.*` operations are plain arithmetic -/

theorem toS_small {w p : Nat} (h : p < 2 ^ (w - 1)) : Go.toS w p = (p : Int) := by
  unfold Go.toS; rw [if_pos h]

theorem sar_small {w a : Nat} (k : Nat) (h : a < 2 ^ (w - 1)) : Go.sar w a k = a / 2 ^ k := by
  unfold Go.sar; rw [if_pos h, Nat.shiftRight_eq_div_pow]

theorem shr_eq (a k : Nat) : Go.shr a k = a / 2 ^ k := Nat.shiftRight_eq_div_pow a k

theorem ltS_small {w a b : Nat} (ha : a < 2 ^ (w - 1)) (hb : b < 2 ^ (w - 1)) :
    Go.ltS w a b = decide (a < b) := by
  unfold Go.ltS; rw [toS_small ha, toS_small hb]; simp

theorem leS_small {w a b : Nat} (ha : a < 2 ^ (w - 1)) (hb : b < 2 ^ (w - 1)) :
    Go.leS w a b = decide (a ≤ b) := by
  unfold Go.leS; rw [toS_small ha, toS_small hb]; simp

theorem conv_narrow (fw : Nat) (fs : Bool) (tw x : Nat) (h : tw ≤ fw) :
    Go.conv fw fs tw x = x % 2 ^ tw := by
  unfold Go.conv Go.wrap; rw [if_pos h]

theorem conv_widen_u (fw tw x : Nat) (h : fw < tw) : Go.conv fw false tw x = x := by
  unfold Go.conv; rw [if_neg (by omega)]; simp

theorem conv_widen_small (fw tw x : Nat) (h : fw < tw) (hx : x < 2 ^ (fw - 1)) :
    Go.conv fw true tw x = x := by
  unfold Go.conv; rw [if_neg (by omega)]
  have : ¬ 2 ^ (fw - 1) ≤ x := by omega
  simp [this]

theorem add_small {w a b : Nat} (h : a + b < 2 ^ w) : Go.add w a b = a + b := by
  unfold Go.add Go.wrap; exact Nat.mod_eq_of_lt h

theorem mul_small {w a b : Nat} (h : a * b < 2 ^ w) : Go.mul w a b = a * b := by
  unfold Go.mul Go.wrap; exact Nat.mod_eq_of_lt h

theorem shl_small {w a k : Nat} (h : a * 2 ^ k < 2 ^ w) : Go.shl w a k = a * 2 ^ k := by
  unfold Go.shl Go.wrap; rw [Nat.shiftLeft_eq]; exact Nat.mod_eq_of_lt h

theorem and_eq (a b : Nat) : Go.and a b = a &&& b := rfl

/-- rewrite the `Go.*` operations on operands that fit their type into plain arithmetic;
    side conditions are discharged by `omega` from the hypotheses in scope -/
syntax "go_simp" : tactic
macro_rules
  | `(tactic| go_simp) => `(tactic|
      simp (disch := omega) only [sar_small, shr_eq, ltS_small, leS_small, conv_narrow, conv_widen_u,
        conv_widen_small, add_small, mul_small, shl_small, toS_small, and_eq,
        and_255, and_15, and_7, and_255', and_15', and_7',
        List.getD_cons_zero, List.getD_cons_succ, List.getD_nil,
        decide_eq_true_eq, beq_iff_eq, bne_iff_ne, ne_eq])

/-! ### `encStep` / `decStep` (trie/slimtrie_create.go) -/

/-- `encStep` of a step of `4 n` bits is the model's `encStep n` (both wrap at 2^16 half-bytes) -/
theorem encStep_sem (n : Nat) (h : n < 2 ^ 29) :
    Generated.encStep (4 * n) = (Slim.encStep n).map UInt8.toNat := by
  unfold Generated.encStep Slim.encStep
  simp only [List.map_cons, List.map_nil, UInt8.toNat_ofNat']
  go_simp
  congr 1
  · omega
  · congr 1; omega

theorem or_mul (a b k : Nat) (h : b < 2 ^ k) : a * 2 ^ k ||| b = a * 2 ^ k + b := by
  have := Nat.shiftLeft_add_eq_or_of_lt h a
  rw [Nat.shiftLeft_eq] at this
  exact this.symm

theorem or_mul' (a b k : Nat) (h : b < 2 ^ k) : b ||| a * 2 ^ k = a * 2 ^ k + b := by
  rw [Nat.or_comm]; exact or_mul a b k h

set_option linter.unusedSimpArgs false in
/-- two bytes `b0 b1` decode to `4 ×` the model's `decStep b0 b1` bits -/
theorem decStep_sem (b0 b1 : UInt8) :
    Generated.decStep [b0.toNat, b1.toNat] = ((4 * Slim.decStep b0 b1 : Nat) : Int) := by
  have h0 := byte_lt b0
  have h1 := byte_lt b1
  unfold Generated.decStep Slim.decStep
  go_simp
  simp (disch := omega) only [Go.or, or_mul, or_mul']
  go_simp
  all_goals omega

/-- round trip in bits: a step (a multiple of 4 bits, an `int32 ≥ 0`) survives
    `decStep ∘ encStep` iff it is below 2^16 half-bytes -/
theorem decStep_encStep_iff (s : Nat) (h4 : s % 4 = 0) (hs : s < 2 ^ 31) :
    Generated.decStep (Generated.encStep s) = (s : Int) ↔ s / 4 < 2 ^ 16 := by
  obtain ⟨n, rfl⟩ : ∃ n, s = 4 * n := ⟨s / 4, by omega⟩
  rw [encStep_sem n (by omega)]
  unfold Slim.encStep
  simp only [List.map_cons, List.map_nil]
  rw [decStep_sem]
  unfold Slim.decStep
  simp only [UInt8.toNat_ofNat']
  constructor
  · intro h
    have : 4 * (n / 256 % 2 ^ 8 * 256 + n % 256 % 2 ^ 8) = 4 * n := by exact_mod_cast h
    omega
  · intro h
    have : 4 * (n / 256 % 2 ^ 8 * 256 + n % 256 % 2 ^ 8) = 4 * n := by omega
    exact_mod_cast this

/-! ### `getLabelIdxOfKey` (trie/slimtrie_query.go) -/

theorem nibs_getD (key : Bytes) (i : Nat) :
    (nibs key).getD i 0 =
      if i % 2 = 0 then (key.map UInt8.toNat).getD (i / 2) 0 / 16
      else (key.map UInt8.toNat).getD (i / 2) 0 % 16 := by
  induction key generalizing i with
  | nil => simp [nibs]
  | cons b bs ih =>
    match i with
    | 0 => simp [nibs]
    | 1 => simp [nibs]
    | i + 2 =>
      have e1 : (i + 2) / 2 = i / 2 + 1 := by omega
      have e2 : (i + 2) % 2 = i % 2 := by omega
      simp only [nibs, List.getD_cons_succ, List.map_cons, e1, e2]
      exact ih i

theorem nibs_length' (key : Bytes) : (nibs key).length = 2 * key.length := by
  induction key with
  | nil => rfl
  | cons b bs ih => simp only [nibs, List.length_cons, ih]; omega

theorem getD_map_lt (key : Bytes) (j : Nat) : (key.map UInt8.toNat).getD j 0 < 256 := by
  rw [List.getD_eq_getElem?_getD, List.getElem?_map]
  cases key[j]? with
  | none => simp
  | some b => simpa using byte_lt b

/-- the label index at bit position `4 i` of the Go code is the model's label index at half-byte
    position `i`; `w` is the word size in bits (4, or 8 for big nodes: both read the whole byte
    that contains the position, aligned or not).  Bit positions fit an `int32`. -/
theorem getLabelIdxOfKey_sem (key : Bytes) (i w : Nat) (hw : w = 4 ∨ w = 8)
    (hlen : 8 * key.length < 2 ^ 31) (hi : 4 * i < 2 ^ 31) :
    Generated.getLabelIdxOfKey (4 * i) (key.map UInt8.toNat) (8 * key.length) w
      = ((labelIdxOfKey (nibs key) i (w == 8) : Nat) : Int) := by
  have hb := getD_map_lt key (i / 2)
  have hshift : 4 * i / 2 ^ 3 = i / 2 := by omega
  unfold Generated.getLabelIdxOfKey labelIdxOfKey
  rw [nibs_length']
  simp only [nibs_getD]
  rcases hw with rfl | rfl
  · -- 4-bit words
    go_simp
    simp only [hshift]
    generalize (key.map UInt8.toNat).getD (i / 2) 0 = x at hb ⊢
    -- resolve every `if` of both sides; contradictory paths are closed by `omega`
    repeat' split
    all_goals first
      | omega
      | (go_simp <;> omega)
      | (simp at * <;> omega)
  · -- 8-bit words: the byte that contains the position
    have e1 : (i - i % 2) / 2 = i / 2 := by omega
    have e2 : (i - i % 2 + 1) / 2 = i / 2 := by omega
    have e3 : (i - i % 2) % 2 = 0 := by omega
    have e4 : ¬ (i - i % 2 + 1) % 2 = 0 := by omega
    go_simp
    simp only [hshift, e1, e2, e3, e4, if_true, if_false]
    generalize (key.map UInt8.toNat).getD (i / 2) 0 = x at hb ⊢
    repeat' split
    all_goals first
      | omega
      | (go_simp <;> omega)
      | (simp at * <;> omega)

/-! ### `GetI8/16/32/64` (trie/slimtrie_getint.go) -/

/-- a `w`-bit pattern read as a signed value is `leSigned` of the bytes it is made of -/
theorem toS_eq_leSigned (bs : Bytes) (w p : Nat) (hw : w = 8 * bs.length) (hp : p = leVal bs) :
    Go.toS w p = Slim.leSigned bs := by
  subst hw hp
  unfold Go.toS Slim.leSigned
  simp only
  all_goals (split <;> simp)

theorem or_shl (a b k : Nat) (h : a < 2 ^ k) : a ||| b <<< k = a + 2 ^ k * b := by
  rw [Nat.or_comm, ← Nat.shiftLeft_add_eq_or_of_lt h, Nat.shiftLeft_eq]
  rw [Nat.mul_comm, Nat.add_comm]

theorem leVal1 (b0 : UInt8) : leVal [b0] = b0.toNat := by simp [leVal]

theorem leVal2_or (b0 b1 : UInt8) : leVal [b0, b1] = b0.toNat ||| b1.toNat <<< 8 := by
  have := byte_lt b0
  rw [or_shl _ _ _ (by omega)]
  simp [leVal]

theorem leVal4_or (b0 b1 b2 b3 : UInt8) :
    leVal [b0, b1, b2, b3]
      = b0.toNat ||| b1.toNat <<< 8 ||| b2.toNat <<< 16 ||| b3.toNat <<< 24 := by
  have := byte_lt b0; have := byte_lt b1; have := byte_lt b2
  rw [or_shl _ _ 8 (by omega), or_shl _ _ 16 (by omega), or_shl _ _ 24 (by omega)]
  simp only [leVal]
  omega

theorem leVal8_or (b0 b1 b2 b3 b4 b5 b6 b7 : UInt8) :
    leVal [b0, b1, b2, b3, b4, b5, b6, b7]
      = b0.toNat ||| b1.toNat <<< 8 ||| b2.toNat <<< 16 ||| b3.toNat <<< 24 ||| b4.toNat <<< 32
        ||| b5.toNat <<< 40 ||| b6.toNat <<< 48 ||| b7.toNat <<< 56 := by
  have := byte_lt b0; have := byte_lt b1; have := byte_lt b2; have := byte_lt b3
  have := byte_lt b4; have := byte_lt b5; have := byte_lt b6
  rw [or_shl _ _ 8 (by omega), or_shl _ _ 16 (by omega), or_shl _ _ 24 (by omega),
    or_shl _ _ 32 (by omega), or_shl _ _ 40 (by omega), or_shl _ _ 48 (by omega),
    or_shl _ _ 56 (by omega)]
  simp only [leVal]
  omega

/-- a shifted byte stays inside a wider word -/
theorem shl_byte (w k : Nat) (b : UInt8) (hk : k + 8 ≤ w) :
    Go.shl w b.toNat k = b.toNat <<< k := by
  unfold Go.shl Go.wrap
  apply Nat.mod_eq_of_lt
  rw [Nat.shiftLeft_eq]
  have := byte_lt b
  calc b.toNat * 2 ^ k < 2 ^ 8 * 2 ^ k := Nat.mul_lt_mul_of_pos_right (by omega) (Nat.two_pow_pos k)
    _ = 2 ^ (k + 8) := by rw [← Nat.pow_add, Nat.add_comm]
    _ ≤ 2 ^ w := Nat.pow_le_pow_right (by omega) hk

/-- unfold conversions of bytes, list accesses and in-range shifts; leaves a `|||` of shifted bytes -/
syntax "bytes_simp" : tactic
macro_rules
  | `(tactic| bytes_simp) => `(tactic|
      simp (disch := omega) only [Go.conv, Go.or, shl_byte, Go.wrap,
        List.getD_cons_zero, List.getD_cons_succ,
        Bool.false_and, Bool.false_eq_true, if_false, Nat.reduceLeDiff, Nat.reducePow,
        Nat.shiftLeft_zero])

theorem getI8_sem (bytes : Bytes) (ith : Nat) (h : ith < bytes.length) :
    Generated.getI8 (bytes.map UInt8.toNat) ith = Slim.leSigned [bytes[ith]] := by
  unfold Generated.getI8
  refine toS_eq_leSigned [bytes[ith]] _ _ (by rfl) ?_
  rw [leVal1, List.getD_eq_getElem?_getD, List.getElem?_map, List.getElem?_eq_getElem h]
  have := byte_lt bytes[ith]
  simp only [Go.conv, Go.wrap, Option.map_some, Option.getD_some, Nat.le_refl, if_true]
  omega

theorem getI16_sem (b0 b1 : UInt8) :
    Generated.getI16 [b0.toNat, b1.toNat] = Slim.leSigned [b0, b1] := by
  unfold Generated.getI16
  refine toS_eq_leSigned [b0, b1] _ _ (by rfl) ?_
  rw [leVal2_or]
  bytes_simp
  all_goals
    generalize b0.toNat = x0; generalize b1.toNat <<< 8 = x1
    ac_rfl

theorem getI32_sem (b0 b1 b2 b3 : UInt8) :
    Generated.getI32 [b0.toNat, b1.toNat, b2.toNat, b3.toNat] = Slim.leSigned [b0, b1, b2, b3] := by
  unfold Generated.getI32
  refine toS_eq_leSigned [b0, b1, b2, b3] _ _ (by rfl) ?_
  rw [leVal4_or]
  bytes_simp
  all_goals
    generalize b0.toNat = x0; generalize b1.toNat <<< 8 = x1; generalize b2.toNat <<< 16 = x2
    generalize b3.toNat <<< 24 = x3
    ac_rfl

theorem getI64_sem (b0 b1 b2 b3 b4 b5 b6 b7 : UInt8) :
    Generated.getI64 [b0.toNat, b1.toNat, b2.toNat, b3.toNat, b4.toNat, b5.toNat, b6.toNat, b7.toNat]
      = Slim.leSigned [b0, b1, b2, b3, b4, b5, b6, b7] := by
  unfold Generated.getI64
  refine toS_eq_leSigned [b0, b1, b2, b3, b4, b5, b6, b7] _ _ (by rfl) ?_
  rw [leVal8_or]
  bytes_simp
  all_goals
    generalize b0.toNat = x0; generalize b1.toNat <<< 8 = x1; generalize b2.toNat <<< 16 = x2
    generalize b3.toNat <<< 24 = x3; generalize b4.toNat <<< 32 = x4; generalize b5.toNat <<< 40 = x5
    generalize b6.toNat <<< 48 = x6; generalize b7.toNat <<< 56 = x7
    ac_rfl

/-- for any slice of the right length -/
theorem getI16_list (bs : Bytes) (h : bs.length = 2) :
    Generated.getI16 (bs.map UInt8.toNat) = Slim.leSigned bs := by
  match bs, h with
  | [b0, b1], _ => exact getI16_sem b0 b1

theorem getI32_list (bs : Bytes) (h : bs.length = 4) :
    Generated.getI32 (bs.map UInt8.toNat) = Slim.leSigned bs := by
  match bs, h with
  | [b0, b1, b2, b3], _ => exact getI32_sem b0 b1 b2 b3

theorem getI64_list (bs : Bytes) (h : bs.length = 8) :
    Generated.getI64 (bs.map UInt8.toNat) = Slim.leSigned bs := by
  match bs, h with
  | [b0, b1, b2, b3, b4, b5, b6, b7], _ => exact getI64_sem b0 b1 b2 b3 b4 b5 b6 b7

/-- the slice start: leaf ordinal × width in bytes (ordinals fit an `int32`) -/
theorem getI16Index_sem (ith : Nat) (h : ith < 2 ^ 30) :
    Generated.getI16Index ith = ((ith * 2 : Nat) : Int) := by
  unfold Generated.getI16Index
  go_simp
  all_goals omega

theorem getI32Index_sem (ith : Nat) (h : ith < 2 ^ 29) :
    Generated.getI32Index ith = ((ith * 4 : Nat) : Int) := by
  unfold Generated.getI32Index
  go_simp
  all_goals omega

theorem getI64Index_sem (ith : Nat) (h : ith < 2 ^ 28) :
    Generated.getI64Index ith = ((ith * 8 : Nat) : Int) := by
  unfold Generated.getI64Index
  go_simp
  all_goals omega

/-! ### package encode: `GetSize` / `GetEncodedSize` of the fixed-width integer encoders -/

/-- the size literals of encode/int.go, encode/int8.go -/
theorem encSizes_sem :
    [Generated.encSizeI8, Generated.encEncodedSizeI8, Generated.encSizeI16, Generated.encEncodedSizeI16,
     Generated.encSizeI32, Generated.encEncodedSizeI32, Generated.encSizeI64, Generated.encEncodedSizeI64,
     Generated.encSizeU16, Generated.encEncodedSizeU16, Generated.encSizeU32, Generated.encEncodedSizeU32,
     Generated.encSizeU64, Generated.encEncodedSizeU64]
      = [1, 1, 2, 2, 4, 4, 8, 8, 2, 2, 4, 4, 8, 8] := by decide

/-- … are the sizes of the model's codecs (SlimModel/Encode.lean) -/
theorem encSizes_model (v : Int) (n : Nat) (b : Bytes) :
    Encode.I8.getSize v = .ok Generated.encSizeI8.toNat ∧
    Encode.I8.getEncodedSize b = .ok Generated.encEncodedSizeI8.toNat ∧
    Encode.I16.getSize v = .ok Generated.encSizeI16.toNat ∧
    Encode.I16.getEncodedSize b = .ok Generated.encEncodedSizeI16.toNat ∧
    Encode.I32.getSize v = .ok Generated.encSizeI32.toNat ∧
    Encode.I32.getEncodedSize b = .ok Generated.encEncodedSizeI32.toNat ∧
    Encode.I64.getSize v = .ok Generated.encSizeI64.toNat ∧
    Encode.I64.getEncodedSize b = .ok Generated.encEncodedSizeI64.toNat ∧
    Encode.U16.getSize n = .ok Generated.encSizeU16.toNat ∧
    Encode.U16.getEncodedSize b = .ok Generated.encEncodedSizeU16.toNat ∧
    Encode.U32.getSize n = .ok Generated.encSizeU32.toNat ∧
    Encode.U32.getEncodedSize b = .ok Generated.encEncodedSizeU32.toNat ∧
    Encode.U64.getSize n = .ok Generated.encSizeU64.toNat ∧
    Encode.U64.getEncodedSize b = .ok Generated.encEncodedSizeU64.toNat := by
  have h := encSizes_sem
  simp only [List.cons.injEq, and_true] at h
  obtain ⟨h1, h2, h3, h4, h5, h6, h7, h8, h9, h10, h11, h12, h13, h14⟩ := h
  rw [h1, h2, h3, h4, h5, h6, h7, h8, h9, h10, h11, h12, h13, h14]
  exact ⟨rfl, rfl, rfl, rfl, rfl, rfl, rfl, rfl, rfl, rfl, rfl, rfl, rfl, rfl⟩

end BridgeSem

#print axioms BridgeSem.encStep_sem
#print axioms BridgeSem.decStep_sem
#print axioms BridgeSem.decStep_encStep_iff
#print axioms BridgeSem.getLabelIdxOfKey_sem
#print axioms BridgeSem.getI8_sem
#print axioms BridgeSem.getI16_sem
#print axioms BridgeSem.getI32_sem
#print axioms BridgeSem.getI64_sem
#print axioms BridgeSem.getI16Index_sem
#print axioms BridgeSem.getI32Index_sem
#print axioms BridgeSem.getI64Index_sem
#print axioms BridgeSem.encSizes_sem
#print axioms BridgeSem.encSizes_model
