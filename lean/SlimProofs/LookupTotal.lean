import SlimProofs.Agree
import SlimProofs.Render
/-
  SlimProofs.LookupTotal — the lookups of a built trie return normally for EVERY query string,
  in every option combination: no panic (`key[i>>3:]` out of range, node id out of range,
  `getLeaf` on an inner node, leaf array out of bound), no fuel exhaustion.

  * `LookupTotal.getIDLoop_total`   the loop of `GetID` in a well-formed array: it returns, never
                                    past the end of the key, and if it returns a node, that node
                                    is a leaf (the `i == l` shortcut lands on the child of label 0,
                                    whose subset is a single key)
  * `getID_total`, `get_total`
  * `LookupTotal.searchLoop_valid`  the neighbour candidates of `searchID` are node ids in range
  * `searchID_total`, `rangeGet_total`, `search_total`

  all for `build keys vals opt = .ok t` (any keys — also the empty list —, values, options).
-/

namespace LookupTotal

open Descent Agree Subtree Slim Render

/-- a node id that is a leaf of the array -/
def IsLeafId (t : Trie1) (id : Nat) : Prop := ∃ ith lp, t.nodes[id]? = some (.leaf ith lp)

theorem idStep_ok (pref : Pref) (kn : List Nat) (pos : Nat) (h : pos ≤ kn.length) :
    ∃ x, idStep pref kn pos = .ok x := by
  unfold idStep
  cases pref with
  | none => exact ⟨_, rfl⟩
  | step n => exact ⟨_, rfl⟩
  | stored p =>
    simp only [if_neg (by omega : ¬ pos / 2 > kn.length / 2)]
    split
    · exact ⟨_, rfl⟩
    · exact ⟨_, rfl⟩

/-- `Subtree.inner_facts` together with the parity clause of big nodes -/
theorem inner_facts_big {keys : List Bytes} {keep : List Bool} {t : Trie1} {queue : Array Subset}
    (h : QOK keys keep t queue) {j : Nat} {o : Subset} {r : InnerRec}
    (hsub : SubOK keys keep o) (hin : InnerOK keys keep t.opt queue j o r) :
    ∃ ws, InnerFacts keys keep t queue j o r ws ∧ (r.big = true → ws % 2 = 0 ∧ o.fb % 2 = 0) := by
  obtain ⟨ws, F⟩ := inner_facts h hsub hin
  exact ⟨ws, F, F.big⟩

/-- the child of label 0 is a leaf: its keys all end at `ws` and agree before, so it is one key -/
theorem label0_child_leaf {keys : List Bytes} {keep : List Bool} {t : Trie1} {queue : Array Subset}
    (h : QOK keys keep t queue) (hasc : strictAsc keys = true) {j : Nat} {o : Subset}
    {r : InnerRec} {ws : Nat} (hsub : SubOK keys keep o) (F : InnerFacts keys keep t queue j o r ws)
    (k : Nat) (hk : k < r.labels.length) (h0 : r.labels[k] = 0) :
    IsLeafId t (r.firstChild + k) := by
  obtain ⟨c, hc, _, hrun⟩ := F.kid k hk
  obtain ⟨hcsub, hcj, hcnode⟩ := h.at hc
  obtain ⟨h1, h2, h3, h4⟩ := hrun
  cases hn : t.nodes[r.firstChild + k] with
  | leaf ith lp => exact ⟨ith, lp, nodes_getElem? t _ hcj _ hn⟩
  | inner rr =>
    exfalso
    rw [hn] at hcnode
    obtain ⟨h2e, _⟩ := hcnode
    have hl0 : labelOf keys ws r.big c.s = 0 := by
      rw [← h0]; exact (h4 c.s h1 (by omega)).mp ⟨Nat.le_refl _, by omega⟩
    have hl1 : labelOf keys ws r.big (c.s + 1) = 0 := by
      rw [← h0]; exact (h4 (c.s + 1) (by omega) (by omega)).mp ⟨by omega, by omega⟩
    have hle := hsub.le
    exact no_two_label0 keys hasc ws r.big c.s (by omega) hl0 hl1
      (by rw [(F.pre c.s h1 (by omega)).2, (F.pre (c.s + 1) (by omega) (by omega)).2])

/-- the loop of `GetID` is total in a well-formed array -/
theorem getIDLoop_total {keys : List Bytes} {keep : List Bool} {t : Trie1} {queue : Array Subset}
    (h : QOK keys keep t queue) (hasc : strictAsc keys = true)
    (kn : List Nat) (heven : kn.length % 2 = 0) :
    ∀ n j o fuel, t.nodes.size - j ≤ n → n < fuel → queue[j]? = some o → o.fb ≤ kn.length →
      ∃ res, getIDLoop t.view kn fuel j o.fb = .ok res ∧
        ∀ r, res = some r → r.i ≤ kn.length ∧ IsLeafId t r.id := by
  intro n
  induction n with
  | zero =>
    intro j o fuel h1 _ hqj
    have := h.lt hqj
    omega
  | succ n ih =>
    intro j o fuel h1 h2 hqj hpos
    obtain ⟨hsub, hj, hnode⟩ := h.at hqj
    obtain ⟨fuel, rfl⟩ : ∃ f, fuel = f + 1 := ⟨fuel - 1, by omega⟩
    have hview := Subtree.view_node t j hj
    cases hn : t.nodes[j] with
    | leaf ith lp =>
      rw [hn] at hview
      rw [getIDLoop_leaf _ _ _ _ _ ith lp hview]
      refine ⟨_, rfl, ?_⟩
      intro r hr
      cases hr
      exact ⟨hpos, ith, lp, nodes_getElem? t j hj _ hn⟩
    | inner rr =>
      rw [hn] at hnode hview
      obtain ⟨_, hin⟩ := hnode
      obtain ⟨ws, F, hbigws⟩ := inner_facts_big h hsub hin
      have hwsbig : rr.big = true → ws % 2 = 0 := fun hb => (hbigws hb).1
      rw [getIDLoop_inner _ _ _ _ _ rr hview]
      obtain ⟨x, hs⟩ := idStep_ok rr.pref kn o.fb hpos
      rw [hs]
      cases x with
      | none => exact ⟨none, rfl, by intro r hr; cases hr⟩
      | some i =>
        have hiws : i = ws := by
          rw [F.pref] at hs
          exact idStep_prefOf_val _ _ _ _ _ _ F.fb_le (F.pre o.s (Nat.le_refl _) hsub.lt).1 hs
        subst hiws
        simp only [idBranch]
        split
        · exact ⟨none, rfl, by intro r hr; cases hr⟩
        · next hle =>
          split
          · exact ⟨none, rfl, by intro r hr; cases hr⟩
          · next hhas =>
            have hcont : rr.labels.contains (labelIdxOfKey kn i rr.big) = true := by
              simpa [leftChildID] using hhas
            have hmem : labelIdxOfKey kn i rr.big ∈ rr.labels := by
              simpa using hcont
            obtain ⟨k, hk', hkl⟩ := List.mem_iff_getElem.mp hmem
            have hch := leftChildID_of_label rr F.pw k hk'
            rw [hkl] at hch
            rw [hch]
            have hid : ((rr.firstChild : Int) - 1 + (k : Int) + 1).toNat = rr.firstChild + k := by
              omega
            simp only [hid]
            split
            · next hil =>
              refine ⟨_, rfl, ?_⟩
              intro r hr
              cases hr
              refine ⟨by show i ≤ kn.length; omega, ?_⟩
              show IsLeafId t (rr.firstChild + k)
              apply label0_child_leaf h hasc hsub F k hk'
              rw [hkl, labelIdxOfKey_eq_labelAt _ _ _ hwsbig, Descent.labelAt_eq_zero_iff]
              omega
            · next hne =>
              obtain ⟨c, hc, hcfb, _⟩ := F.kid k hk'
              have hlne : rr.labels[k] ≠ 0 := by
                rw [hkl, labelIdxOfKey_eq_labelAt _ _ _ hwsbig, Ne, Descent.labelAt_eq_zero_iff]; omega
              have hfb : i + wordSize rr.big = c.fb := by
                rw [hcfb]; unfold labelLen wordSize; rw [if_neg hlne]
              rw [hfb]
              have hfc := F.fc
              refine ih (rr.firstChild + k) c fuel (by omega) (by omega) hc ?_
              rw [← hfb]; unfold wordSize
              cases hb : rr.big with
              | false => simp; omega
              | true => have := hwsbig hb; simp; omega

/-! ### `searchID`: the neighbour candidates are node ids in range -/

def ValidOpt (N : Nat) (o : Option Nat) : Prop := ∀ id, o = some id → id < N

theorem validOpt_none (N : Nat) : ValidOpt N none := by intro id h; cases h

theorem validOpt_some {N id : Nat} (h : id < N) : ValidOpt N (some id) := by
  intro id' h'; cases h'; exact h

theorem srSt_valid {v : View} {N : Nat} (hv : ViewOK v N) {eqID : Nat} {r : InnerRec}
    (hnd : v.node eqID = .ok (.inner r)) (st : SearchSt) (i : Nat) (lc : Int) (has : Bool)
    (hl : ValidOpt N st.lID) (hr : ValidOpt N st.rID) :
    ValidOpt N (srSt r st i lc has).lID ∧ ValidOpt N (srSt r st i lc has).rID := by
  have hkid := hv.kid_lt eqID r hnd
  have key : ∀ x : Int, x ≥ (r.firstChild : Int) → x ≤ (r.firstChild : Int) + r.labels.length - 1 →
      x.toNat < N := by
    intro x h1 h2
    have := hkid (x - r.firstChild).toNat (by omega)
    omega
  constructor
  · simp only [srSt, apply_ite SearchSt.lID]
    repeat' split
    all_goals first
      | exact hl
      | exact validOpt_some (key _ (by assumption : _ ∧ _).1 (by assumption : _ ∧ _).2)
  · simp only [srSt, apply_ite SearchSt.rID]
    repeat' split
    all_goals first
      | exact hr
      | exact validOpt_some (key _ (by assumption : _ ∧ _).1 (by assumption : _ ∧ _).2)

theorem searchLoop_valid {v : View} {N : Nat} (hv : ViewOK v N) (hN : ∀ id nd, v.node id = .ok nd → id < N)
    (kn : List Nat) :
    ∀ fuel st eqID s, ValidOpt N st.lID → ValidOpt N st.rID →
      searchLoop v kn fuel st eqID = .ok s → ValidOpt N s.lID ∧ ValidOpt N s.rID := by
  intro fuel
  induction fuel with
  | zero => intro st eqID s _ _ h; simp [searchLoop] at h
  | succ fuel ih =>
    intro st eqID s hl hr h
    rw [searchLoop_succ] at h
    cases hn : v.node eqID with
    | error e => rw [hn] at h; cases h
    | ok nd =>
      have hid := hN eqID nd hn
      rw [hn] at h
      cases nd with
      | leaf ith lp =>
        simp only [bind, Except.bind, pure, Except.pure] at h
        cases h
        exact ⟨hl, hr⟩
      | inner r =>
        simp only [bind, Except.bind, pure, Except.pure] at h
        cases hs : srStep r.pref kn st eqID with
        | error e => rw [hs] at h; cases h
        | ok x =>
          rw [hs] at h
          cases x with
          | inl fin =>
            simp only at h
            cases h
            unfold srStep at hs
            simp only at hs
            split at hs
            · split at hs
              · cases hs
              · split at hs <;> cases hs
                all_goals first
                  | exact ⟨hl, validOpt_some hid⟩
                  | exact ⟨validOpt_some hid, hr⟩
            · split at hs <;> cases hs
              exact ⟨hl, validOpt_some hid⟩
            · split at hs <;> cases hs
              exact ⟨hl, validOpt_some hid⟩
          | inr i =>
            simp only at h
            rw [srBranch_eq] at h
            simp only at h
            have hsv := srSt_valid hv hn st i (leftChildID r (labelIdxOfKey kn i r.big)).1
              (leftChildID r (labelIdxOfKey kn i r.big)).2 hl hr
            split at h
            · cases h; exact hsv
            · split at h
              · cases h; exact hsv
              · refine ih _ _ s ?_ ?_ h
                · exact hsv.1
                · exact hsv.2

/-! ### the lookups on a well-formed record array -/

theorem isLeafId_lt {t : Trie1} {id : Nat} (h : IsLeafId t id) : id < t.nodes.size := by
  obtain ⟨ith, lp, h⟩ := h
  exact (Array.getElem?_eq_some_iff.mp h).1

theorem getLeaf_ok {t : Trie1} (hv : ViewOK t.view t.nodes.size) {id : Nat} (h : IsLeafId t id) :
    ∃ x, getLeaf t.view id = .ok x := by
  obtain ⟨ith, lp, hn⟩ := h
  have hview : t.view.node id = .ok (.leaf ith lp) := by simp [Trie1.view, hn]
  obtain ⟨val, hval⟩ := hv.leaf_ok id ith lp hview
  exact ⟨val, by simp only [getLeaf, hview, bind, Except.bind, hval]⟩

theorem view_nonempty {t : Trie1} (hpos : 0 < t.nodes.size) : t.view.isEmpty = false := by
  simp only [Trie1.view]
  cases h : t.nodes.size with
  | zero => omega
  | succ n => rfl

section wf
variable {keys : List Bytes} {keep : List Bool} {t : Trie1} {queue : Array Subset}

theorem getIDLoop_root (h : QOK keys keep t queue)
    (hroot : queue[0]? = some { s := 0, e := keys.length, fb := 0 })
    (hasc : strictAsc keys = true) (key : Bytes) :
    ∃ res, getIDLoop t.view (nibs key) (t.view.nodeCnt + 1) 0 0 = .ok res ∧
      ∀ r, res = some r → r.i ≤ (nibs key).length ∧ IsLeafId t r.id := by
  have heven : (nibs key).length % 2 = 0 := by rw [_root_.nibs_length]; omega
  exact getIDLoop_total h hasc (nibs key) heven t.nodes.size 0 _ (t.nodes.size + 1) (by omega)
    (by omega) hroot (Nat.zero_le _)

theorem getID_total_wf (h : QOK keys keep t queue)
    (hroot : queue[0]? = some { s := 0, e := keys.length, fb := 0 })
    (hasc : strictAsc keys = true) (hpos : 0 < t.nodes.size) (key : Bytes) :
    ∃ a, getID t.view key = .ok a ∧ ∀ id, a = some id → IsLeafId t id := by
  obtain ⟨res, hloop, hres⟩ := getIDLoop_root h hroot hasc key
  rw [getID_eq, view_nonempty hpos, hloop]
  simp only [Bool.false_eq_true, if_false]
  cases res with
  | none => exact ⟨none, rfl, by intro id hid; cases hid⟩
  | some r =>
    obtain ⟨hri, hleaf⟩ := hres r rfl
    simp only [idEpi]
    split
    · split
      · refine ⟨_, rfl, ?_⟩
        intro id hid
        split at hid
        · cases hid
        · cases hid; exact hleaf
      · split
        · exact ⟨none, rfl, by intro id hid; cases hid⟩
        · rw [if_neg (by omega)]
          refine ⟨_, rfl, ?_⟩
          intro id hid
          split at hid
          · cases hid; exact hleaf
          · cases hid
    · exact ⟨_, rfl, by intro id hid; cases hid; exact hleaf⟩

theorem get_total_wf (h : QOK keys keep t queue)
    (hroot : queue[0]? = some { s := 0, e := keys.length, fb := 0 })
    (hasc : strictAsc keys = true) (hv : ViewOK t.view t.nodes.size) (hpos : 0 < t.nodes.size)
    (key : Bytes) : ∃ r, _root_.get t.view key = .ok r := by
  obtain ⟨a, ha, hleaf⟩ := getID_total_wf h hroot hasc hpos key
  unfold _root_.get
  simp only [bind, Except.bind, ha]
  cases a with
  | none => exact ⟨none, rfl⟩
  | some id =>
    obtain ⟨x, hx⟩ := getLeaf_ok hv (hleaf id rfl)
    simp only [hx]
    exact ⟨_, rfl⟩

/-- the tail of `searchID` succeeds when the candidates lead to leaves -/
theorem srTail_ok (v : View) (st : SearchSt) (P : Nat → Prop)
    (hl : ∀ id, st.lID = some id → ∃ id', rightMost v (v.nodeCnt + 1) id = .ok id' ∧ P id')
    (hr : ∀ id, st.rID = some id → ∃ id', leftMost v (v.nodeCnt + 1) id = .ok id' ∧ P id') :
    ∃ b, srTail v st = .ok b ∧ b.2.1 = st.eqID ∧ (∀ id, b.1 = some id → P id) ∧
      (∀ id, b.2.2 = some id → P id) := by
  unfold srTail
  cases hL : st.lID with
  | none =>
    cases hR : st.rID with
    | none =>
      refine ⟨(none, st.eqID, none), rfl, rfl, ?_, ?_⟩ <;> (intro id hid; cases hid)
    | some rid =>
      obtain ⟨id', h1, h2⟩ := hr rid hR
      refine ⟨(none, st.eqID, some id'), ?_, rfl, ?_, ?_⟩
      · simp only [bind, Except.bind, pure, Except.pure, h1]
      · intro id hid; cases hid
      · intro id hid; cases hid; exact h2
  | some lid =>
    obtain ⟨idl, h1, h2⟩ := hl lid hL
    cases hR : st.rID with
    | none =>
      refine ⟨(some idl, st.eqID, none), ?_, rfl, ?_, ?_⟩
      · simp only [bind, Except.bind, pure, Except.pure, h1]
      · intro id hid; cases hid; exact h2
      · intro id hid; cases hid
    | some rid =>
      obtain ⟨idr, h3, h4⟩ := hr rid hR
      refine ⟨(some idl, st.eqID, some idr), ?_, rfl, ?_, ?_⟩
      · simp only [bind, Except.bind, pure, Except.pure, h1, h3]
      · intro id hid; cases hid; exact h2
      · intro id hid; cases hid; exact h4

theorem searchID_total_wf (h : QOK keys keep t queue)
    (hroot : queue[0]? = some { s := 0, e := keys.length, fb := 0 })
    (hasc : strictAsc keys = true) (hv : ViewOK t.view t.nodes.size) (hpos : 0 < t.nodes.size)
    (key : Bytes) :
    ∃ b, searchID t.view key = .ok b ∧ (∀ id, b.1 = some id → IsLeafId t id) ∧
      (∀ id, b.2.1 = some id → IsLeafId t id) ∧ (∀ id, b.2.2 = some id → IsLeafId t id) := by
  obtain ⟨res, hloop, hres⟩ := getIDLoop_root h hroot hasc key
  have hrel := init_sim t.view key
  rw [hloop] at hrel
  have hN : ∀ id nd, t.view.node id = .ok nd → id < t.nodes.size :=
    fun id nd hnd => (view_node_inv t id nd hnd).1
  -- the loop of `searchID` succeeds; its exact match is a leaf
  have hsl : ∃ s, searchLoop t.view (nibs key) (t.view.nodeCnt + 1) {} 0 = .ok s ∧
      ∀ id, s.eqID = some id → IsLeafId t id := by
    cases res with
    | none =>
      obtain ⟨s, hs, he⟩ := hrel
      exact ⟨s, hs, by intro id hid; rw [he] at hid; cases hid⟩
    | some r =>
      obtain ⟨s, hs, he, _, _⟩ := hrel
      exact ⟨s, hs, by intro id hid; rw [he] at hid; cases hid; exact (hres r rfl).2⟩
  obtain ⟨s, hs, hseq⟩ := hsl
  obtain ⟨hsl, hsr⟩ := searchLoop_valid hv hN (nibs key) _ {} 0 s (validOpt_none _)
    (validOpt_none _) hs
  -- after the leaf-prefix comparison
  have hepi : ValidOpt t.nodes.size (srEpi t.view key s).lID ∧
      ValidOpt t.nodes.size (srEpi t.view key s).rID ∧
      ∀ id, (srEpi t.view key s).eqID = some id → IsLeafId t id := by
    unfold srEpi
    cases he : s.eqID with
    | none => exact ⟨hsl, hsr, by intro id hid; rw [he] at hid; cases hid⟩
    | some eq =>
      have hleq := hseq eq he
      simp only
      split
      · split
        · exact ⟨hsl, validOpt_some (isLeafId_lt hleq), by intro id hid; cases hid⟩
        · exact ⟨validOpt_some (isLeafId_lt hleq), hsr, by intro id hid; cases hid⟩
        · exact ⟨hsl, hsr, by intro id hid; rw [he] at hid; cases hid; exact hleq⟩
      · exact ⟨hsl, hsr, by intro id hid; rw [he] at hid; cases hid; exact hleq⟩
  obtain ⟨hel, her, heeq⟩ := hepi
  have hqid : ∀ id, id < t.nodes.size → ∃ o, queue[id]? = some o := by
    intro id hid
    obtain ⟨o, ho, _⟩ := h.node id hid
    exact ⟨o, ho⟩
  obtain ⟨b, hb, hbe, hbl, hbr⟩ := srTail_ok t.view (srEpi t.view key s) (IsLeafId t)
    (by
      intro id hid
      obtain ⟨o, ho⟩ := hqid id (hel id hid)
      obtain ⟨id', ith, lp, m, h1, h2, _⟩ :=
        rightMost_spec h t.nodes.size id o (t.view.nodeCnt + 1) (by omega)
          (by show t.nodes.size < t.nodes.size + 1; omega) ho
      exact ⟨id', h1, ith, lp, h2⟩)
    (by
      intro id hid
      obtain ⟨o, ho⟩ := hqid id (her id hid)
      obtain ⟨id', ith, lp, m, h1, h2, _⟩ :=
        leftMost_spec h t.nodes.size id o (t.view.nodeCnt + 1) (by omega)
          (by show t.nodes.size < t.nodes.size + 1; omega) ho
      exact ⟨id', h1, ith, lp, h2⟩)
  refine ⟨b, ?_, hbl, ?_, hbr⟩
  · rw [searchID_eq, view_nonempty hpos, hs]
    simpa using hb
  · intro id hid
    rw [hbe] at hid
    exact heeq id hid

theorem rangeGet_total_wf (h : QOK keys keep t queue)
    (hroot : queue[0]? = some { s := 0, e := keys.length, fb := 0 })
    (hasc : strictAsc keys = true) (hv : ViewOK t.view t.nodes.size) (hpos : 0 < t.nodes.size)
    (key : Bytes) : ∃ r, _root_.rangeGet t.view key = .ok r := by
  obtain ⟨⟨l, e, r⟩, hb, hl, he, _⟩ := searchID_total_wf h hroot hasc hv hpos key
  unfold _root_.rangeGet
  simp only [bind, Except.bind, pure, Except.pure, hb]
  cases e with
  | some id =>
    obtain ⟨x, hx⟩ := getLeaf_ok hv (he id rfl)
    simp only [hx]
    exact ⟨_, rfl⟩
  | none =>
    cases l with
    | none => exact ⟨_, rfl⟩
    | some id =>
      obtain ⟨x, hx⟩ := getLeaf_ok hv (hl id rfl)
      simp only [hx]
      exact ⟨_, rfl⟩

theorem search_total_wf (h : QOK keys keep t queue)
    (hroot : queue[0]? = some { s := 0, e := keys.length, fb := 0 })
    (hasc : strictAsc keys = true) (hv : ViewOK t.view t.nodes.size) (hpos : 0 < t.nodes.size)
    (key : Bytes) : ∃ r, search t.view key = .ok r := by
  obtain ⟨⟨l, e, r⟩, hb, hl, he, hr⟩ := searchID_total_wf h hroot hasc hv hpos key
  have hleafOf : ∀ o : Option Nat, (∀ id, o = some id → IsLeafId t id) →
      ∃ z, leafOf t.view o = .ok z := by
    intro o ho
    cases o with
    | none => exact ⟨none, rfl⟩
    | some id =>
      obtain ⟨x, hx⟩ := getLeaf_ok hv (ho id rfl)
      exact ⟨some x, by simp only [leafOf, bind, Except.bind, pure, Except.pure, hx]⟩
  obtain ⟨zl, hzl⟩ := hleafOf l hl
  obtain ⟨ze, hze⟩ := hleafOf e he
  obtain ⟨zr, hzr⟩ := hleafOf r hr
  rw [search_eq]
  simp only [bind, Except.bind, pure, Except.pure, hb, hzl, hze, hzr]
  exact ⟨_, rfl⟩

end wf

/-- what the lookups need, for a built non-empty trie -/
theorem built (keys : List Bytes) (vals : Option (List Bytes)) (opt : Opt) (t : Trie1)
    (hb : build keys vals opt = .ok t) (hne : keys ≠ []) :
    ∃ queue, QOK keys (keepMask keys.length vals opt.dedup) t queue ∧
      queue[0]? = some { s := 0, e := keys.length, fb := 0 } ∧ strictAsc keys = true ∧
      ViewOK t.view t.nodes.size ∧ 0 < t.nodes.size := by
  obtain ⟨queue, hq, hroot⟩ := (wf_iff _ _ t).mp (build_wf keys vals opt t hb hne).1
  have hs := build_shape keys vals opt t hb hne
  exact ⟨queue, hq, hroot, (BuildShape.build_ok_elim hb hne).1, viewOK_of_wf_shape hq hs,
    hs.nonempty⟩

theorem empty_of_build (vals : Option (List Bytes)) (opt : Opt) (t : Trie1)
    (hb : build [] vals opt = .ok t) : t = Trie1.empty opt := by
  simp only [build, List.length_nil, if_true, Except.ok.injEq] at hb
  exact hb.symm

end LookupTotal

open LookupTotal

/-- **`GetID` is total** on every built trie, and what it returns is a leaf. -/
theorem getID_total (keys : List Bytes) (vals : Option (List Bytes)) (opt : Opt) (t : Trie1)
    (hb : build keys vals opt = .ok t) (q : Bytes) :
    ∃ a, getID t.view q = .ok a ∧ ∀ id, a = some id → IsLeafId t id := by
  by_cases hne : keys = []
  · subst hne
    rw [empty_of_build vals opt t hb]
    exact ⟨none, rfl, by intro id hid; cases hid⟩
  · obtain ⟨queue, hq, hroot, hasc, _, hpos⟩ := built keys vals opt t hb hne
    exact getID_total_wf hq hroot hasc hpos q

/-- **`Get` is total** on every built trie, for every query string and option combination. -/
theorem get_total (keys : List Bytes) (vals : Option (List Bytes)) (opt : Opt) (t : Trie1)
    (hb : build keys vals opt = .ok t) (q : Bytes) : ∃ r, get t.view q = .ok r := by
  by_cases hne : keys = []
  · subst hne
    rw [empty_of_build vals opt t hb]
    exact ⟨none, rfl⟩
  · obtain ⟨queue, hq, hroot, hasc, hv, hpos⟩ := built keys vals opt t hb hne
    exact get_total_wf hq hroot hasc hv hpos q

/-- **`searchID` is total** on every built trie; all three ids it returns are leaves. -/
theorem searchID_total (keys : List Bytes) (vals : Option (List Bytes)) (opt : Opt) (t : Trie1)
    (hb : build keys vals opt = .ok t) (q : Bytes) :
    ∃ b, searchID t.view q = .ok b ∧ (∀ id, b.1 = some id → IsLeafId t id) ∧
      (∀ id, b.2.1 = some id → IsLeafId t id) ∧ (∀ id, b.2.2 = some id → IsLeafId t id) := by
  by_cases hne : keys = []
  · subst hne
    rw [empty_of_build vals opt t hb]
    refine ⟨(none, none, none), rfl, ?_, ?_, ?_⟩ <;> (intro id hid; cases hid)
  · obtain ⟨queue, hq, hroot, hasc, hv, hpos⟩ := built keys vals opt t hb hne
    exact searchID_total_wf hq hroot hasc hv hpos q

/-- **`RangeGet` is total** on every built trie. -/
theorem rangeGet_total (keys : List Bytes) (vals : Option (List Bytes)) (opt : Opt) (t : Trie1)
    (hb : build keys vals opt = .ok t) (q : Bytes) : ∃ r, rangeGet t.view q = .ok r := by
  by_cases hne : keys = []
  · subst hne
    rw [empty_of_build vals opt t hb]
    exact ⟨none, rfl⟩
  · obtain ⟨queue, hq, hroot, hasc, hv, hpos⟩ := built keys vals opt t hb hne
    exact rangeGet_total_wf hq hroot hasc hv hpos q

/-- **`Search` is total** on every built trie. -/
theorem search_total (keys : List Bytes) (vals : Option (List Bytes)) (opt : Opt) (t : Trie1)
    (hb : build keys vals opt = .ok t) (q : Bytes) : ∃ r, search t.view q = .ok r := by
  by_cases hne : keys = []
  · subst hne
    rw [empty_of_build vals opt t hb]
    exact ⟨(none, none, none), rfl⟩
  · obtain ⟨queue, hq, hroot, hasc, hv, hpos⟩ := built keys vals opt t hb hne
    exact search_total_wf hq hroot hasc hv hpos q

#print axioms getID_total
#print axioms get_total
#print axioms searchID_total
#print axioms rangeGet_total
#print axioms search_total
