import SlimModel.Index
import Driver.Trie
/- Driver.Idx — family `idx` (package index, property C12). -/
namespace Driver.Idx

structure State where
  si : Option Index.SlimIndex := none

def init : State := {}

def parseRecs : List String → Option (List Index.Record)
  | [] => some []
  | k :: o :: v :: rest => do
    let kb ← parseHex k
    let off ← o.toInt?
    let vb ← parseHex v
    let rs ← parseRecs rest
    pure ({ key := kb, offset := off, value := vb } :: rs)
  | _ => none

def ans : Except Err (Option Bytes) → String
  | .error e => Trie.errStr e
  | .ok none => "nf"
  | .ok (some v) => "f " ++ hexOf v

def both (si : Index.SlimIndex) (f : View → String) : String :=
  let a2 := f (Slim.view si.msg)
  let a1 := f si.t1.view
  if a1 == a2 then a2 else "LAYER-MISMATCH l1=[" ++ a1 ++ "] l2=[" ++ a2 ++ "]"

def step (st : State) (toks : List String) : State × String :=
  match toks with
  | "idx.new" :: rest =>
    match parseRecs rest with
    | none => (st, "bad-op")
    | some recs =>
      match Index.new recs with
      | .ok si => ({ si := some si }, "ok")
      | .error e => ({ si := none }, Trie.errStr e)
  | ["idx.get", q] =>
    match parseHex q, st.si with
    | some q, some si => (st, both si (fun v => ans (Index.get si v q)))
    | _, _ => (st, "bad-op")
  | ["idx.rget", q] =>
    match parseHex q, st.si with
    | some q, some si => (st, both si (fun v => ans (Index.rangeGet si v q)))
    | _, _ => (st, "bad-op")
  | _ => (st, "bad-op")

end Driver.Idx
