import Generated.Facts
import SlimModel.Version
/-
  SlimProps.Bridge.Versions — tie 1, fact group "versions" of lean/Generated/Facts.lean (regenerated from /repo's
  working tree by harness/cmd/extract on every run).  One module per fact group: when the extractor
  cannot find a group's facts, or a fact changed, only this module stops compiling and only the
  properties that rely on it report the broken tie.
-/
namespace Bridge

/-! ### versions (C07): the compatible set and the three dispatch predicates of `Unmarshal` -/
theorem slimtrieVersion : Generated.slimtrieVersion = Version.slimtrieVersion := rfl
theorem compatibleVersions : Generated.compatibleVersions = Version.compatibleSpecs := rfl
theorem unmarshalCurrentSpec : Generated.unmarshalCurrentSpec = Version.currentLayoutSpecs := rfl
theorem unmarshalBefore000512Spec : Generated.unmarshalBefore000512Spec = Version.before000512Specs := rfl
theorem before000510Spec : Generated.before000510Spec = Version.before000510Specs := rfl


end Bridge
