import SlimProofs.LegacyPrefix
import SlimProofs.LegacySelect
import SlimProofs.LegacyLeaf
import SlimProofs.LegacyArray
import SlimProofs.LegacyBuildOld
import SlimProofs.LegacyRoundTrip
import SlimProofs.LegacyFuel
/-
  SlimProps.C06 — data written by every older compatible version loads and answers correctly:
  the four conversion lemmas of DESIGN §6 C06, universally quantified.

  The writers of the historical layouts are reconstructed (`SlimModel.LegacyWrite`; no old writer
  exists in the repository) and validated byte for byte against all 97 archived files by their Go
  twins (harness/fam/leg); the loader's conversions are `SlimModel.Legacy`.

    C06_prefix_reencode   0.5.10/0.5.11 → 0.5.12: control-byte prefixes become bit strings, in place
    C06_fix_leaf_size     0.5.10/0.5.11 → 0.5.12: bare leaf bytes become today's leaf array
    C06_step_rebase       ≤ 0.5.9: `getStepBefore000510` on the written steps section
    C06_bm16              ≤ 0.5.9: `getBM16Child` on the written children section (both encodings)
    C06_leaf_value, C06_index_presence   ≤ 0.5.9: `GetBytes` on the leaves section, `bmhas` on all three

  NOT proved here (stated for the record):

    C06_load_legacy : ∀ variant keys vals, strictAsc keys → withinLimits variant keys →
        LegacyWrite.write variant keys vals = .ok stream →
        Legacy.unmarshalMsg (some w) stream = .ok m ∧
        ∀ i, get / rangeGet / search (Slim.view m) keys[i] = the answers of the sorted list
    C06_allpref_exact : for `allpref-*`, additionally C03 / C04 on `m` for every query.

  Proved towards it for 0.5.10/0.5.11: `C06_load_0510_msg_partial` — at message level the loader's
  two conversions applied to what the writer derives from today's message give today's message
  back (up to word-index select tables and the retired fields kept as unknown bytes), for every
  trie the builder produces, every option.  Still missing: (a) `decodeSlim (to0510 msg) = oldMsg msg u`
  (the wire round trip with the retired fields 12/13/15 interleaved in field-number order —
  `SlimProofs.WireSlim` has the round trip for `encodeSlim` only, which appends unknown bytes last);
  (b) the queries' insensitivity to the select tables: `select32R64_anySelect` proves it for
  `select32R64` itself, `getNode`/`getLeafPrefix`/`vlenGet` use nothing else of a position bitmap's
  `selectIndex`; then C01–C04 for the current layout apply verbatim.
  For ≤ 0.5.9: an invariant of `Legacy.convert` relating the rebuilt record array to `buildOld`
  (the old trie with every inner-and-leaf node split, ids renumbered breadth first) and from it
  `WF`/`ShapeOK` of the result; `C06_step_rebase`, `C06_bm16` and `initIndex_bmhas` are the
  accessor facts that invariant needs.  Until then the tie is the correspondence check
  (`leg.write` + `trie.unmarshal` + lookups on both sides, all layouts, all shape classes).
-/
open Bits Legacy LegacyWrite

/-! ### C06_prefix_reencode -/

/-- One element: for every prefix (any bit length, given as zero padded payload bytes plus the
    number of valid bits in the last byte) the loader's conversion of its control-byte form
    yields its bit-string form, of the same length. -/
theorem C06_prefix_reencode_one (p : BitPrefix) (hv : p.Valid) :
    convertOne p.ctrlEnc = .ok p.bitstrEnc ∧ p.bitstrEnc.length = p.ctrlEnc.length :=
  ⟨convert_one p hv, convert_one_length p hv⟩

/-- The whole message, as the old writers wrote it (position bitmap of the element boundaries
    with word-index select entries): `before000512InnerPrefixTobitstr` replaces the byte array by
    the concatenation of the bit-string forms — same total length, every element at its old
    offset (so `PositionBM` stays valid), nothing else changes. -/
theorem C06_prefix_reencode (s : SlimMsg) (ips : VLenArrayMsg) (ps : List BitPrefix)
    (hips : s.innerPrefixes = some ips)
    (hpbm : ips.positionBM = some (wordIndexSelect (newBM (Slim.stepToPos (ps.map sz)) 0 "s32")))
    (hbytes : ips.bytes = (ps.map BitPrefix.ctrlEnc).flatten)
    (hv : ∀ p ∈ ps, p.Valid) :
    innerPrefixTobitstr s
      = .ok { s with innerPrefixes := some { ips with bytes := (ps.map BitPrefix.bitstrEnc).flatten } }
    ∧ ((ps.map BitPrefix.bitstrEnc).flatten).length = ips.bytes.length :=
  ⟨innerPrefixTobitstr_spec s ips _ ps hips hpbm hbytes hv
      (select_positions_old (ps.map sz) (by
        intro x hx
        obtain ⟨p, _, rfl⟩ := List.mem_map.mp hx
        simp [sz])),
    by rw [hbytes, flatten_length_bitstr, flatten_length_ctrl ps hv]⟩

/-- The same with bit-position select entries (what today's writer stores). -/
theorem C06_prefix_reencode_newSelect (s : SlimMsg) (ips : VLenArrayMsg) (ps : List BitPrefix)
    (hips : s.innerPrefixes = some ips)
    (hpbm : ips.positionBM = some (newBM (Slim.stepToPos (ps.map sz)) 0 "s32"))
    (hbytes : ips.bytes = (ps.map BitPrefix.ctrlEnc).flatten)
    (hv : ∀ p ∈ ps, p.Valid) :
    innerPrefixTobitstr s
      = .ok { s with innerPrefixes := some { ips with bytes := (ps.map BitPrefix.bitstrEnc).flatten } } :=
  innerPrefixTobitstr_spec s ips _ ps hips hpbm hbytes hv
    (select_positions_new (ps.map sz) (by
      intro x hx
      obtain ⟨p, _, rfl⟩ := List.mem_map.mp hx
      simp [sz]))

/-- The half-byte aligned prefixes of the builder: `Slim.bitstrOf ns` is the bit-string form, so
    the loader turns the control-byte form of `ns` into exactly what today's builder stores. -/
theorem C06_prefix_reencode_nibs (ns : List Nat) (hlt : ∀ n ∈ ns, n < 16) :
    convertOne (ofNibs ns).ctrlEnc = .ok (Slim.bitstrOf ns) ∧ (ofNibs ns).bitLen = 4 * ns.length := by
  rw [bitstrOf_eq_bitstrEnc]
  exact ⟨convert_one _ (ofNibs_valid ns hlt), ofNibs_bitLen ns⟩

-- non-vacuity: a prefix ending on a half byte right after a 0xff byte, one of whole bytes, one of
-- three bits
example : (⟨[0xff, 0xf0], 4⟩ : BitPrefix).Valid := ⟨by decide, fun _ => ⟨[0xff], 0xf0, rfl, by decide⟩⟩
example : (⟨[0xff, 0xf0], 4⟩ : BitPrefix).ctrlEnc = [0x01, 0xff, 0xf8] := by decide
example : (⟨[0xff, 0xf0], 4⟩ : BitPrefix).bitstrEnc = [0xff, 0xf0, 0xf0] := by decide
example : (convertOne [0x01, 0xff, 0xf8]).toOption = some [0xff, 0xf0, 0xf0] := by decide
example : (⟨[0x61, 0x62], 0⟩ : BitPrefix).Valid := ⟨by decide, fun h => absurd rfl h⟩
example : (convertOne [0x00, 0x61, 0x62]).toOption = some [0x61, 0x62, 0xff] := by decide
example : (⟨[0xa0], 3⟩ : BitPrefix).Valid := ⟨by decide, fun _ => ⟨[], 0xa0, rfl, by decide⟩⟩
example : (convertOne (⟨[0xa0], 3⟩ : BitPrefix).ctrlEnc).toOption = some [0xa0, 0xe0] := by decide
example : (ofNibs [6, 2, 6]).ctrlEnc = [0x01, 0x62, 0x68] := by decide   -- as in slimtrie-data-11vl5-innpref-0.5.10

/-! ### C06_fix_leaf_size -/

/-- On the bare bytes of `n ≥ 1` leaves of width `w` (all a 0.5.10 / 0.5.11 stream stores)
    `before000512FixLeafSize` produces the array today's builder creates for the same values:
    `N = EltCnt = n`, `FixedSize = w`, every presence bit set, and `VLenArray.get i` returns the
    `i`-th value. -/
theorem C06_fix_leaf_size (s : SlimMsg) (vals : List Bytes) (w : Nat) (hw : 0 < w)
    (hne : vals ≠ []) (h : ∀ v ∈ vals, v.length = w)
    (hl : s.leaves = some { bytes := vals.flatten }) :
    ∃ lv pres, fixLeafSize s (some w) = .ok { s with leaves := some lv } ∧
      some lv = Slim.newVLenArray vals ∧
      lv.n = vals.length ∧ lv.eltCnt = vals.length ∧ lv.fixedSize = w ∧ lv.positionBM = none ∧
      lv.bytes = vals.flatten ∧
      lv.presenceBM = some pres ∧ (∀ i, i < vals.length → getBit pres.words i = true) ∧
      ∀ i (hi : i < vals.length), Slim.vlenGet lv i = .ok vals[i] := by
  have hnew := newVLenArray_const vals w hw hne h
  refine ⟨_, newBM (List.range vals.length) vals.length "r64", ?_, hnew.symm, rfl, rfl, rfl, rfl, rfl,
    rfl, ?_, ?_⟩
  · rw [fixLeafSize_eq_new s vals w hw hne h hl, hnew]
  · intro i hi
    rw [newBM_words_r64, getBit_ofIdx _ _ _ (by rw [ofIdx_length']; omega)]
    simpa using hi
  · intro i hi
    rw [Slim.vlenGet_newVLenArray vals _ hnew i hi, List.getD_eq_getElem?_getD,
      List.getElem?_eq_getElem hi]
    rfl

/-- The same in terms of the bare byte array of the stream: any `n·w` bytes (`n ≥ 1`, `w ≥ 1` the
    encoder's width) become an array of `N = EltCnt = n` present elements and `VLenArray.get i`
    is the `i`-th slice `bytes[i·w : i·w + w]`. -/
theorem C06_fix_leaf_size_bytes (s : SlimMsg) (bs : Bytes) (w n : Nat) (hw : 0 < w) (hn : 0 < n)
    (hlen : bs.length = n * w) (hl : s.leaves = some { bytes := bs }) :
    ∃ lv pres, fixLeafSize s (some w) = .ok { s with leaves := some lv } ∧
      lv.n = n ∧ lv.eltCnt = n ∧ lv.fixedSize = w ∧ lv.positionBM = none ∧ lv.bytes = bs ∧
      lv.presenceBM = some pres ∧ (∀ i, i < n → getBit pres.words i = true) ∧
      ∀ i, i < n → Slim.vlenGet lv i = .ok ((bs.drop (i * w)).take w) := by
  have hfl := chunks_flatten w n bs hlen
  have hcl := chunks_length w n bs
  obtain ⟨lv, pres, h1, _, h3, h4, h5, h6, h7, h8, h9, h10⟩ :=
    C06_fix_leaf_size s (chunks w n bs) w hw
      (by intro h; rw [h] at hcl; simp at hcl; omega) (chunks_width w n bs hlen) (by rw [hfl]; exact hl)
  refine ⟨lv, pres, h1, by rw [h3, hcl], by rw [h4, hcl], h5, h6, by rw [h7, hfl], h8, ?_, ?_⟩
  · intro i hi; exact h9 i (by rw [hcl]; exact hi)
  · intro i hi
    rw [h10 i (by rw [hcl]; exact hi), chunks_getElem]

example : ∃ lv pres, fixLeafSize { leaves := some { bytes := [1, 0, 0, 0, 2, 0, 0, 0] } } (some 4)
      = .ok { leaves := some lv } ∧ some lv = Slim.newVLenArray [[1, 0, 0, 0], [2, 0, 0, 0]] ∧
      lv.n = 2 ∧ lv.eltCnt = 2 ∧ lv.fixedSize = 4 ∧ lv.positionBM = none ∧
      lv.bytes = [1, 0, 0, 0, 2, 0, 0, 0] ∧ lv.presenceBM = some pres ∧
      (∀ i, i < 2 → getBit pres.words i = true) ∧
      ∀ i (hi : i < 2), Slim.vlenGet lv i = .ok ([[1, 0, 0, 0], [2, 0, 0, 0]] : List Bytes)[i] :=
  C06_fix_leaf_size { leaves := some { bytes := [1, 0, 0, 0, 2, 0, 0, 0] } }
    [[1, 0, 0, 0], [2, 0, 0, 0]] 4 (by decide) (by decide) (by decide) rfl

/-! ### C06_step_rebase -/

/-- On the steps section the reconstructed writer wrote for any node list (any variant: the
    section does not depend on the children encoding; `mw` = index extension of 0.5.9)
    `getStepBefore000510` returns the single-branch run in front of the node's branching position
    *without* the label half-byte: `stp - 1` (in half-bytes; the Go code returns bits, `· 4`),
    and 0 for a node whose step is not stored. -/
theorem C06_step_rebase (nodes : List OldNode) (mw id : Nat) (hid : id < nodes.length)
    (hlim : nodes[id].step < 65536) :
    getStep (stepsMsg nodes mw) id = .ok (nodes[id].step - 1) :=
  getStep_stepsMsg nodes mw id hid hlim

/-! ### C06_bm16 -/

/-- On the children section the reconstructed writer wrote — uint32 elements `bm | firstChild<<16`
    (≤ 0.5.3) or 16-bit bitmap elements packed four per word (≥ 0.5.4), with or without the index
    extension — `getBM16Child` returns the node's 16-bit label bitmap shifted by one, `bm << 1`
    (bit 0 stays free for the end-of-key label the loader sets when the node is also a leaf). -/
theorem C06_bm16 (vr : Variant) (nodes : List OldNode) (mw id : Nat)
    (hid : id < nodes.length) (hin : nodes[id].inner = true) (hbm : ∀ n ∈ nodes, n.bm < 65536) :
    getBM16Child (childrenMsg vr nodes mw) id = .ok (nodes[id].bm * 2) :=
  getBM16Child_childrenMsg vr nodes mw id hid hin hbm

/-- The third accessor of the conversion: on the leaves section the writer wrote, `Base.GetBytes`
    returns the encoded value of the key that ends at the node — also for a node that is inner and
    leaf at once (the loader then creates the explicit end-of-key child from it). -/
theorem C06_leaf_value (nodes : List OldNode) (vals : Array Bytes) (w id k : Nat)
    (hid : id < nodes.length) (hleaf : nodes[id].leaf = some k)
    (hw : ∀ n ∈ nodes, ∀ j, n.leaf = some j → (vals.getD j []).length = w) :
    getBytes (leavesMsg nodes vals) id w = .ok (some (vals.getD k [])) :=
  getBytes_leavesMsg nodes vals w id k hid hleaf hw

/-- presence in the three index bitmaps is exactly "the node has the property" -/
theorem C06_index_presence (p : OldNode → Bool) (nodes : List OldNode) (mw : Nat) (elts : Bytes) (id : Nat) :
    bmhas (initIndex (idsWhere nodes p) mw elts).bitmaps id
      = decide (∃ h : id < nodes.length, p nodes[id] = true) := by
  unfold idsWhere
  rw [initIndex_bmhas (idsFrom_asc p nodes 0), Bool.eq_iff_iff, decide_eq_true_eq, decide_eq_true_eq,
    idsFrom_mem]
  constructor
  · rintro ⟨j, hj, hij, hp⟩
    have : j = id := by omega
    subst this; exact ⟨hj, hp⟩
  · rintro ⟨hj, hp⟩; exact ⟨id, hj, by omega, hp⟩

/-- The accessor lemmas on the sections of a complete three-section stream, for every variant
    and every key list with one value of width `w` per key: the 16-bit hypothesis of `C06_bm16`
    and the index range of the leaf values hold for every trie `buildOld` builds; the step
    hypothesis is the layout's own limit (a `uint16` step). -/
theorem C06_sections_read (vr : Variant) (keys vals : List Bytes) (w : Nat) (ch st lv : Array32Msg)
    (h : sections3 vr keys vals = .ok (ch, st, lv))
    (hlen : vals.length = keys.length) (hw : ∀ v ∈ vals, v.length = w) :
    ∃ nodes : Array OldNode, buildOld keys vr.leafSteps = .ok nodes ∧
      ∀ id (hid : id < nodes.toList.length),
        (nodes.toList[id].step < 65536 → getStep st id = .ok (nodes.toList[id].step - 1)) ∧
        (nodes.toList[id].inner = true → getBM16Child ch id = .ok (nodes.toList[id].bm * 2)) ∧
        (∀ k, nodes.toList[id].leaf = some k →
          k < keys.length ∧ getBytes lv id w = .ok (some (vals.getD k []))) := by
  unfold sections3 at h
  cases hb : buildOld keys vr.leafSteps with
  | error e => rw [hb] at h; cases h
  | ok nodes =>
    rw [hb] at h
    simp only [bind, Except.bind, pure, Except.pure] at h
    cases h
    have hlt := buildOld_leaf_lt keys vr.leafSteps nodes hb
    refine ⟨nodes, rfl, fun id hid => ⟨fun hlim => ?_, fun hin => ?_, fun k hk => ?_⟩⟩
    · exact C06_step_rebase nodes.toList _ id hid hlim
    · exact C06_bm16 vr nodes.toList _ id hid hin (buildOld_bm_lt keys vr.leafSteps nodes hb)
    · have hk' := hlt _ (List.getElem_mem hid) k hk
      refine ⟨hk', ?_⟩
      have hget : ∀ j, j < keys.length → vals.toArray.getD j [] = vals.getD j [] := by
        intro j _
        rw [Array.getD_eq_getD_getElem?, List.getElem?_toArray, List.getD_eq_getElem?_getD]
      rw [← hget k hk']
      apply C06_leaf_value nodes.toList vals.toArray w id k hid hk
      intro n hn j hj
      have hj' := hlt n hn j hj
      rw [hget j hj', List.getD_eq_getElem?_getD, List.getElem?_eq_getElem (by omega)]
      exact hw _ (List.getElem_mem _)

/-- The reconstructed three-section writers are total on every key list `NewSlimTrie` accepts
    (strictly ascending): the fuel of the model's breadth-first loop (`2n + 1`) is never exhausted,
    so "all key sets the old writers could encode" is every strictly ascending key set (within
    the `uint16` step limit, which only affects what the written steps mean, not totality). -/
theorem C06_writer_total (variant : String) (vr : Variant) (keys vals : List Bytes)
    (hv : parseVariant variant = some vr) (h : strictAsc keys = true) :
    ∃ b, writeLegacy3 variant keys vals = .ok b :=
  writeLegacy3_total variant vr keys vals hv h

/-! ### towards C06_load_legacy: 0.5.10 / 0.5.11 at message level -/

/-- `C06_load_legacy`, partial (message level, 0.5.10 / 0.5.11, every option): for every L1 trie
    `t` (e.g. `build keys (some vals) opt`) with at least one leaf value, all of one width `w > 0`,
    the loader's conversions applied to the message an old stream carries for `t`
    (`oldMsg`: control-byte prefixes, word-index select tables, bare leaf bytes, retired fields `u`)
    yield today's message `Slim.encodeCreator t` with word-index select tables — the very message
    C01–C04 are proved about, up to `selectIndex`. -/
theorem C06_load_0510_msg_partial (t : Trie1) (es : List Bytes) (w : Nat) (u : Bytes)
    (helts : t.elts = some es) (hw : 0 < w) (hne : es ≠ []) (hes : ∀ v ∈ es, v.length = w)
    (hlt : ∀ ns ∈ storedOf t, ∀ n ∈ ns, n < 16) :
    (innerPrefixTobitstr (oldMsg (Slim.encodeCreator t) u) >>= fun m => fixLeafSize m (some w))
      = .ok (wordSelectMsg (Slim.encodeCreator t) u) :=
  load_0510_msg t es w u helts hw hne hes hlt

-- non-vacuity: the trie of "ab" ↦ 0, "ac" ↦ 1 with InnerPrefix (one stored prefix of three half-bytes)
def C06.exT : Trie1 :=
  { opt := { inner := true }
    nodes := #[.inner { big := false, labels := [3, 4], firstChild := 1, pref := .stored [6, 1, 6] },
               .leaf 0 none, .leaf 1 none]
    bigCnt := 0, leafKeyIdx := #[0, 1]
    elts := some [[0, 0, 0, 0], [1, 0, 0, 0]] }

example : (build [[0x61, 0x62], [0x61, 0x63]] (some [[0, 0, 0, 0], [1, 0, 0, 0]]) { inner := true }).toOption.map
    (fun t => (t.nodes.toList, t.elts)) = some (C06.exT.nodes.toList, C06.exT.elts) := by decide
example : storedOf C06.exT = [[6, 1, 6]] := by decide
example : (innerPrefixTobitstr (oldMsg (Slim.encodeCreator C06.exT) []) >>= fun m => fixLeafSize m (some 4))
      = .ok (wordSelectMsg (Slim.encodeCreator C06.exT) []) :=
  C06_load_0510_msg_partial C06.exT [[0, 0, 0, 0], [1, 0, 0, 0]] 4 [] rfl (by decide) (by decide)
    (by decide) (by decide)

/-- the writer's inner prefixes converted back: today's bytes at today's positions -/
theorem C06_prefix_roundtrip (s : SlimMsg) (ips : VLenArrayMsg) (nss : List (List Nat))
    (h : IsBuilt ips nss) (hlt : ∀ ns ∈ nss, ∀ n ∈ ns, n < 16) :
    innerPrefixTobitstr { s with innerPrefixes := some (oldInnerPrefixes ips) }
      = .ok { s with innerPrefixes := some { ips with positionBM := ips.positionBM.map wordIndexSelect } } :=
  innerPrefixes_roundtrip s ips nss h hlt

/-- `select32R64` ignores the select table beyond "the entry names a word at or before the wanted
    bit's word": the word-index entries of old streams give the same answers. -/
theorem C06_select_wordIndex (ws : List Nat) (i a : Nat) (ha : (toArray ws)[i]? = some a) :
    select32R64 (wordIndexSelect (mk ws "s32")) i = select32R64 (mk ws "s32") i := by
  rw [select32R64_wordIndex ws i a ha, select32R64_mk ws i a ha]

-- non-vacuity: the old trie of the keys "a", "ab", "b" (root → 'a'-node that is inner and leaf)
-- has stored steps and inner nodes; the accessors return what the theorems say
example : (buildOld [[0x61], [0x61, 0x62], [0x62]] false).toOption.map (·.toList.map (fun n => (n.inner, n.bm, n.step)))
    = some [(true, 6, 2), (true, 64, 0), (false, 0, 0), (false, 0, 0)] := by decide

#print axioms C06_prefix_reencode_one
#print axioms C06_prefix_reencode
#print axioms C06_prefix_reencode_newSelect
#print axioms C06_prefix_reencode_nibs
#print axioms C06_fix_leaf_size
#print axioms C06_fix_leaf_size_bytes
#print axioms C06_step_rebase
#print axioms C06_bm16
#print axioms C06_leaf_value
#print axioms C06_index_presence
#print axioms C06_sections_read
#print axioms C06_writer_total
#print axioms C06_load_0510_msg_partial
#print axioms C06_prefix_roundtrip
#print axioms C06_select_wordIndex
