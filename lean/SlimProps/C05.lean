import SlimProofs.InstanceLemmas
import SlimProofs.BuildShape
import SlimProps.C05Wire
/-
  C05 (trie / instance level) — "Unmarshal(Marshal(t)) yields a trie that answers every query of
  every kind identically to t …  Marshal is deterministic: building twice from equal input gives
  byte-identical output, its length equals the advertised protobuf size, and re-marshalling a loaded
  trie reproduces the same bytes.  Unmarshalling into an instance that previously held other data,
  or after Reset, leaves no residue of the earlier contents."

  Objects: `build` (= `newSlim`), `Slim.encode t` (= the message `creator.build` makes, `st.inner`),
  `marshalSlim` (= `Marshal`), `Legacy.unmarshalMsg` / `Legacy.Instance.unmarshal` (= the complete
  `Unmarshal`), `Legacy.Instance.reset` (= `Reset`), `Slim.view` (= everything the query code reads).

  Hypotheses:
   * `Refine.Small t` — every counter of the message that Go holds in an int32 fits one (big-node
     count, node count, label-bitmap bits, stored prefix bytes, leaf bytes) and the body can be
     allocated.  It only excludes tries beyond the Go code's own limits (its rank/select indexes
     are `[]int32`); no other size bound.
   * `hlevels : Slim.initLevels (Slim.encode t) = .ok lv` — `st.init()` succeeds on the built
     message (proved for built tries elsewhere; explicit here).
-/
open Wire Frame Version Legacy Refine

theorem shape_of_build (keys : List Bytes) (vals : Option (List Bytes)) (opt : Opt) (t : Trie1)
    (hb : build keys vals opt = .ok t) : t.nodes.size ≠ 0 → ShapeOK t := by
  intro hne
  by_cases hk : keys = []
  · subst hk
    simp [build, Trie1.empty] at hb
    subst hb
    simp at hne
  · exact build_shape keys vals opt t hb hk

/-- The message of a built trie within Go's int32 limits is well formed, in proto3 normal form
    (no unknown fields) and fits a frame: the hypotheses of the byte-level theorems hold. -/
theorem C05_encode_wf (keys : List Bytes) (vals : Option (List Bytes)) (opt : Opt) (t : Trie1)
    (hb : build keys vals opt = .ok t) (hsm : Small t) :
    (Slim.encode t).WF ∧ (Slim.encode t).NF ∧ BodyOK (encodeSlim (Slim.encode t)) :=
  ⟨encode_WF (shape_of_build keys vals opt t hb) hsm, encode_NF t, hsm.body⟩

/-- `Unmarshal(Marshal(t))`: the loaded message is the built message, and the instance is the
    freshly initialised one — whatever the instance held before. -/
theorem C05_roundtrip (keys : List Bytes) (vals : Option (List Bytes)) (opt : Opt) (t : Trie1)
    (hb : build keys vals opt = .ok t) (hsm : Small t) (encSize : Option Nat)
    (lv : List Slim.Level) (hlevels : Slim.initLevels (Slim.encode t) = .ok lv) (st : Instance) :
    unmarshalMsg encSize (marshalSlim (Slim.encode t)) = .ok (Slim.encode t) ∧
    Instance.unmarshal st encSize (marshalSlim (Slim.encode t))
      = ({ inner := Slim.encode t, levels := lv, varsNil := false }, none) := by
  obtain ⟨hwf, hnf, hbody⟩ := C05_encode_wf keys vals opt t hb hsm
  exact ⟨unmarshalMsg_marshal encSize _ hwf hnf hbody,
    Instance.unmarshal_marshal st encSize _ hwf hnf hbody lv hlevels⟩

/-- Every query function of the model (`getID`, `get`, `rangeGet`, `search`, the scans, `getInt`,
    `String`) reads the instance through `Slim.view inner` (or `inner` itself), `Stat` through
    `inner` and `levels`: a loaded instance has the same `inner` and the same `levels` as the
    built one, hence answers every query of every kind identically. -/
theorem C05_answers_identical (keys : List Bytes) (vals : Option (List Bytes)) (opt : Opt) (t : Trie1)
    (hb : build keys vals opt = .ok t) (hsm : Small t) (encSize : Option Nat)
    (lv : List Slim.Level) (hlevels : Slim.initLevels (Slim.encode t) = .ok lv) (st : Instance) :
    let loaded := (Instance.unmarshal st encSize (marshalSlim (Slim.encode t))).1
    loaded.inner = Slim.encode t ∧ Slim.view loaded.inner = Slim.view (Slim.encode t) ∧
    loaded.levels = lv ∧ loaded.varsNil = false ∧
    Slim.stat loaded.inner loaded.levels = Slim.stat (Slim.encode t) lv := by
  intro loaded
  have h := (C05_roundtrip keys vals opt t hb hsm encSize lv hlevels st).2
  have hl : loaded = { inner := Slim.encode t, levels := lv, varsNil := false } := by
    show (Instance.unmarshal st encSize (marshalSlim (Slim.encode t))).1 = _
    rw [h]
  rw [hl]
  exact ⟨rfl, rfl, rfl, rfl, rfl⟩

/-- Re-marshalling the loaded instance reproduces the bytes. -/
theorem C05_stable_trie (keys : List Bytes) (vals : Option (List Bytes)) (opt : Opt) (t : Trie1)
    (hb : build keys vals opt = .ok t) (hsm : Small t) (encSize : Option Nat)
    (lv : List Slim.Level) (hlevels : Slim.initLevels (Slim.encode t) = .ok lv) (st : Instance) :
    marshalSlim (Instance.unmarshal st encSize (marshalSlim (Slim.encode t))).1.inner
      = marshalSlim (Slim.encode t) := by
  rw [(C05_answers_identical keys vals opt t hb hsm encSize lv hlevels st).1]

/-- The stream is the 32-byte header plus the advertised protobuf size (no hypothesis). -/
theorem C05_size_trie (t : Trie1) :
    (marshalSlim (Slim.encode t)).length = 32 + protoSizeSlim (Slim.encode t) :=
  C05_marshal_size _

/-- Building twice from equal input gives byte-identical output: in the model `build`, `Slim.encode`
    and `marshalSlim` are functions.  (The one place where the Go code's output could depend on
    something else — the iteration order of the bitmap-count map — is `C05_sortCounts_perm`.) -/
theorem C05_deterministic (keys : List Bytes) (vals : Option (List Bytes)) (opt : Opt) (t₁ t₂ : Trie1)
    (h₁ : build keys vals opt = .ok t₁) (h₂ : build keys vals opt = .ok t₂) :
    marshalSlim (Slim.encode t₁) = marshalSlim (Slim.encode t₂) := by
  rw [h₁] at h₂; cases h₂; rfl

/-- `sortedBMCounts` gives the same list for every enumeration order of the count table: on tables
    with distinct bitmaps its comparator (count descending, bitmap descending) is a strict total
    order. -/
theorem C05_sortCounts_perm {l₁ l₂ : List (Nat × Nat)} (hp : l₁.Perm l₂) (hk : (l₁.map (·.1)).Nodup) :
    Slim.sortCounts l₁ = Slim.sortCounts l₂ := Slim.sortCounts_perm hp hk

/-- … and the tables it is applied to (`innerBMCnt[nbit]`, built by `bumpCount`) always have
    distinct bitmaps, for every record array. -/
theorem C05_count_tables_nodup (t : Trie1) (n : Nat) : (((eCnts t).getD n []).map (·.1)).Nodup :=
  eCnts_nodup t n

/-- Hence: whatever order each count table is enumerated in, the sorted tables are those of the model. -/
theorem C05_sorted_order_free (t : Trie1) (n : Nat) (l : List (Nat × Nat))
    (hp : ((eCnts t).getD n []).Perm l) : Slim.sortCounts l = Slim.sortCounts ((eCnts t).getD n []) :=
  (Slim.sortCounts_perm hp (eCnts_nodup t n)).symm

/-- No residue, one step: after a successful load the whole instance state is a function of the
    bytes (and encoder width) alone; after `Reset` it is constant. -/
theorem C05_no_residue_step (σ σ' : Instance) (e : Option Nat) (b : Bytes)
    (h : (Instance.unmarshal σ e b).2 = none) :
    (Instance.unmarshal σ e b).1 = (Instance.unmarshal σ' e b).1 ∧ Instance.reset σ = Instance.reset σ' :=
  ⟨Instance.unmarshal_state_indep σ σ' e b h, rfl⟩

/-- No residue, histories of any length: the state after a history that ends in a successful
    `unmarshal b` (or in `reset`) does not depend on the initial contents nor on the earlier
    operations. -/
theorem C05_no_residue (σ σ' : Instance) (ops ops' : List Op) (e : Option Nat) (b : Bytes)
    (h : (Instance.unmarshal (run σ ops) e b).2 = none) :
    run σ (ops ++ [.unmarshal e b]) = run σ' (ops' ++ [.unmarshal e b]) ∧
    run σ (ops ++ [.reset]) = run σ' (ops' ++ [.reset]) := by
  rw [run_append, run_append, run_append, run_append]
  exact ⟨Instance.unmarshal_state_indep _ _ e b h, rfl⟩

/-! ### non-vacuity -/

namespace C05

def exKeys : List Bytes := [[0x61], [0x61, 0x62], [0x62, 0xff]]
def exVals : List Bytes := [[1], [2], [3]]
def exOpt : Opt := { dedup := true, inner := true, leaf := true }

/-- A built trie (3 keys, stored prefixes, values) satisfies `Small` and its levels initialise:
    all hypotheses of `C05_roundtrip` hold, and the stream has 32 + 139 bytes. -/
theorem ex_hyps : ∃ t lv, build exKeys (some exVals) exOpt = .ok t ∧ Small t ∧
    Slim.initLevels (Slim.encode t) = .ok lv ∧ (marshalSlim (Slim.encode t)).length = 171 := by
  have h : ((build exKeys (some exVals) exOpt).toOption.map (fun t =>
      smallB t && ((Slim.initLevels (Slim.encode t)).toOption.isSome && protoSizeSlim (Slim.encode t) == 139))) =
      some true := by decide +kernel
  match hb : build exKeys (some exVals) exOpt with
  | .ok t =>
    rw [hb] at h
    simp only [Except.toOption, Option.map_some, Option.some.injEq, Bool.and_eq_true, beq_iff_eq] at h
    obtain ⟨h1, h2, h3⟩ := h
    match hl : Slim.initLevels (Slim.encode t) with
    | .ok lv => exact ⟨t, lv, rfl, small_of_smallB h1, hl, by rw [C05_size_trie, h3]⟩
    | .error e => rw [hl] at h2; cases h2
  | .error e => rw [hb] at h; cases h

example : ∃ t, build exKeys (some exVals) exOpt = .ok t ∧
    unmarshalMsg (some 1) (marshalSlim (Slim.encode t)) = .ok (Slim.encode t) := by
  obtain ⟨t, lv, hb, hsm, hlv, _⟩ := ex_hyps
  exact ⟨t, hb, (C05_roundtrip _ _ _ t hb hsm (some 1) lv hlv {}).1⟩

/-- two enumeration orders of one count table -/
example : Slim.sortCounts [(5, 2), (9, 2), (3, 7)] = Slim.sortCounts [(3, 7), (9, 2), (5, 2)] :=
  C05_sortCounts_perm (by decide) (by decide)

/-- a history: load garbage, reset, then load — same state as loading into a fresh instance -/
example (b : Bytes) (h : (Instance.unmarshal (run {} [.unmarshal none [1, 2, 3], .reset]) (some 4) b).2 = none) :
    run {} ([.unmarshal none [1, 2, 3], .reset] ++ [.unmarshal (some 4) b]) = run {} ([] ++ [.unmarshal (some 4) b]) :=
  (C05_no_residue {} {} _ [] (some 4) b h).1

end C05

#print axioms C05_encode_wf
#print axioms C05_roundtrip
#print axioms C05_answers_identical
#print axioms C05_stable_trie
#print axioms C05_size_trie
#print axioms C05_deterministic
#print axioms C05_sortCounts_perm
#print axioms C05_count_tables_nodup
#print axioms C05_sorted_order_free
#print axioms C05_no_residue_step
#print axioms C05_no_residue
#print axioms C05.ex_hyps
