import SlimModel.Index
import SlimProofs.Encode
import SlimProofs.Agree
import SlimProofs.LeafCount
/-
  SlimProofs.IndexExact — the pieces of property C12 (package `index`) that do not depend on a
  particular lookup theorem:

  * `encI64`: 8 bytes, `leSigned (encI64 o) = o` and injective on the int64 range
  * the key-verifying reader `read`: `read_hit` (distinct keys), `read_miss` (unknown key)
  * `lookup` behind a trie answer
  * with adjacent encoded values distinct, de-duplication keeps every record (`keptAt_all`)
  * a leaf value of a built trie is one of the supplied values, and never nil when the
    supplied values are non-empty (`getLeaf_supplied`, `C10_hit_supplied`,
    `rangeGet_hit_supplied`)
  * `new_ok_elim`: what a successful `NewSlimIndex` is
-/

namespace IndexExact

open Index Encode

/-! ### `encode.I64` -/

/-- the int64 range -/
def InI64 (v : Int) : Prop := -(2 : Int) ^ 63 ≤ v ∧ v < (2 : Int) ^ 63

instance (v : Int) : Decidable (InI64 v) := by unfold InI64; exact inferInstance

theorem encI64_eq (v : Int) : encI64 v = leBytes 8 (toU 8 v) := rfl

theorem encI64_length (v : Int) : (encI64 v).length = 8 := by
  rw [encI64_eq, leBytes_length]

theorem encI64_ne_nil (v : Int) : encI64 v ≠ [] := by
  intro h
  have := encI64_length v
  rw [h] at this
  cases this

theorem leSigned_eq_toS (bs : Bytes) (h : bs.length = 8) : Slim.leSigned bs = toS 8 (leVal bs) := by
  unfold Slim.leSigned toS
  simp only [h]
  have e1 : (2 : Nat) ^ (8 * 8 - 1) = 9223372036854775808 := by decide
  have e2 : (2 : Nat) ^ (8 * 8) = 18446744073709551616 := by decide
  rw [e1, e2]
  by_cases hlt : leVal bs < 9223372036854775808
  · rw [if_pos hlt, if_pos (by omega)]
  · rw [if_neg hlt, if_neg (by omega)]

theorem leSigned_encI64 {v : Int} (hv : InI64 v) : Slim.leSigned (encI64 v) = v := by
  rw [leSigned_eq_toS _ (encI64_length v), encI64_eq, leVal_leBytes_of_lt (toU_lt 8 v)]
  exact toS_toU (by decide) hv

theorem encI64_inj {a b : Int} (ha : InI64 a) (hb : InI64 b) (h : encI64 a = encI64 b) : a = b := by
  have := congrArg Slim.leSigned h
  rwa [leSigned_encI64 ha, leSigned_encI64 hb] at this

/-! ### the key-verifying reader -/

/-- no record has key `q`: the reader finds nothing, whatever offset the index reports -/
theorem read_miss (recs : List Record) (o : Int) (q : Bytes) (h : ∀ r ∈ recs, r.key ≠ q) :
    Index.read recs o q = none := by
  unfold Index.read
  rw [List.find?_eq_none.mpr]
  · rfl
  · intro r hr
    simp [h r hr]

/-- the reader finds record `x` at its own offset when no other record has its key -/
theorem read_hit (recs : List Record) (x : Record) (hx : x ∈ recs)
    (huniq : ∀ r ∈ recs, r.key = x.key → r = x) : Index.read recs x.offset x.key = some x.value := by
  unfold Index.read
  induction recs with
  | nil => cases hx
  | cons r rest ih =>
    rw [List.find?_cons]
    by_cases hp : (r.offset == x.offset && r.key == x.key) = true
    · rw [hp]
      simp only [Bool.and_eq_true, beq_iff_eq] at hp
      rw [huniq r (by simp) hp.2]; rfl
    · have hpf : (r.offset == x.offset && r.key == x.key) = false := by simpa using hp
      rw [hpf]
      rcases List.mem_cons.mp hx with rfl | hx'
      · simp at hp
      · exact ih hx' (fun r' hr' => huniq r' (by simp [hr']))

theorem lookup_none (si : SlimIndex) (key : Bytes) : lookup si (.ok none) key = .ok none := rfl

theorem lookup_some (si : SlimIndex) (key b : Bytes) :
    lookup si (.ok (some (some b))) key = .ok (Index.read si.recs (Slim.leSigned b) key) := rfl

/-! ### `NewSlimIndex` -/

/-- the keys and encoded offsets handed to `NewSlimTrie` -/
def keysOf (recs : List Record) : List Bytes := recs.map (·.key)
def valsOf (recs : List Record) : List Bytes := recs.map (fun r => encI64 r.offset)

theorem new_ok_elim {recs : List Record} {si : SlimIndex} (h : Index.new recs = .ok si) :
    build (keysOf recs) (some (valsOf recs)) {} = .ok si.t1 ∧ si.recs = recs := by
  unfold Index.new at h
  simp only [bind, Except.bind, pure, Except.pure] at h
  cases hb : build (List.map (fun x => x.key) recs)
      (some (List.map (fun r => encI64 r.offset) recs)) {} with
  | error e => rw [hb] at h; cases h
  | ok t => rw [hb] at h; cases h; exact ⟨hb, rfl⟩

theorem new_ok_of_build {recs : List Record} {t : Trie1}
    (h : build (keysOf recs) (some (valsOf recs)) {} = .ok t) : ∃ si, Index.new recs = .ok si := by
  refine ⟨{ t1 := t, msg := Slim.encode t, recs := recs }, ?_⟩
  unfold Index.new
  simp only [bind, Except.bind, pure, Except.pure]
  unfold keysOf valsOf at h
  rw [h]

theorem keysOf_getD (recs : List Record) (i : Nat) (hi : i < recs.length) :
    (keysOf recs).getD i [] = recs[i].key := by
  simp [keysOf, List.getD_eq_getElem?_getD, hi]

theorem valsOf_getD (recs : List Record) (i : Nat) (hi : i < recs.length) :
    (valsOf recs).getD i [] = encI64 recs[i].offset := by
  simp [valsOf, List.getD_eq_getElem?_getD, hi]

/-- with strictly ascending keys, a record is determined by its key -/
theorem record_uniq {recs : List Record} (hasc : strictAsc (keysOf recs) = true) (i : Nat)
    (hi : i < recs.length) : ∀ r ∈ recs, r.key = recs[i].key → r = recs[i] := by
  intro r hr hk
  obtain ⟨j, hj, rfl⟩ := List.mem_iff_getElem.mp hr
  have hlen : (keysOf recs).length = recs.length := by simp [keysOf]
  have := strictAsc_inj hasc (a := j) (b := i) (by omega) (by omega)
    (by rw [keysOf_getD _ _ hj, keysOf_getD _ _ hi, hk])
  subst this; rfl

/-! ### nothing is dropped when adjacent values differ -/

theorem keepMaskVals_succ (p : Option Bytes) (vs : List Bytes) (i : Nat) (h : i + 1 < vs.length) :
    (keepMaskVals p vs).getD (i + 1) false = (vs.getD i [] != vs.getD (i + 1) []) := by
  induction vs generalizing p i with
  | nil => simp at h
  | cons v rest ih =>
    have hstep : (keepMaskVals p (v :: rest)).getD (i + 1) false
        = (keepMaskVals (some v) rest).getD i false := by
      cases p <;> simp [keepMaskVals]
    rw [hstep]
    cases i with
    | zero =>
      cases rest with
      | nil => simp at h
      | cons w rest' => simp [keepMaskVals]
    | succ i' =>
      rw [ih (some v) i' (by simpa using h)]
      simp

theorem keptAt_all (vs : List Bytes) (dedup : Bool)
    (hadj : ∀ i, i + 1 < vs.length → vs.getD i [] ≠ vs.getD (i + 1) []) (i : Nat)
    (hi : i < vs.length) : keptAt (keepMask vs.length (some vs) dedup) i = true := by
  cases i with
  | zero => exact BuildInv.keepMask_zero dedup (by omega) (by intro vs' h; cases h; rfl)
  | succ i =>
    unfold keptAt keepMask
    cases dedup with
    | false =>
      simp only [Bool.false_eq_true, if_false]
      rw [List.getD_eq_getElem?_getD, List.getElem?_replicate, if_pos hi]; rfl
    | true =>
      simp only [if_true]
      rw [keepMaskVals_succ none vs i hi]
      simpa using hadj i hi

/-! ### a hit carries a supplied value -/

theorem eltsTotal_ne_zero (es : List Bytes) (b : Bytes) (hb : b ∈ es) (hne : b ≠ []) :
    eltsTotal es ≠ 0 := by
  induction es with
  | nil => cases hb
  | cons x xs ih =>
    simp only [eltsTotal, List.map_cons, List.sum_cons]
    rcases List.mem_cons.mp hb with rfl | hb'
    · have : 0 < b.length := List.length_pos_iff.mpr hne
      omega
    · have := ih hb'
      simp only [eltsTotal] at this
      omega

/-- `getLeaf` on a trie that stores a non-nil leaf array returns one of its elements -/
theorem getLeaf_mem (t : Trie1) (es : List Bytes) (helts : t.elts = some es)
    (h0 : eltsTotal es ≠ 0) (id : Nat) (x : Option Bytes) (h : getLeaf t.view id = .ok x) :
    ∃ b, x = some b ∧ b ∈ es := by
  unfold getLeaf at h
  simp only [bind, Except.bind] at h
  cases hn : t.view.node id with
  | error e => rw [hn] at h; cases h
  | ok nd =>
    rw [hn] at h
    cases nd with
    | inner r => cases h
    | leaf ith lp =>
      simp only [Trie1.view, helts, h0, if_false] at h
      cases hg : es[ith]? with
      | none => rw [hg] at h; cases h
      | some b =>
        rw [hg] at h
        cases h
        exact ⟨b, rfl, List.mem_of_getElem? hg⟩

/-- the answer of `RangeGet` is a leaf value -/
theorem rangeGet_some (v : View) (q : Bytes) (x : Option Bytes)
    (h : _root_.rangeGet v q = .ok (some x)) : ∃ id, getLeaf v id = .ok x := by
  unfold _root_.rangeGet at h
  simp only [bind, Except.bind, pure, Except.pure] at h
  cases hs : searchID v q with
  | error e => rw [hs] at h; cases h
  | ok b =>
    rw [hs] at h
    obtain ⟨l, e, r⟩ := b
    simp only at h
    cases e with
    | some id =>
      simp only at h
      cases hg : getLeaf v id with
      | error e => rw [hg] at h; cases h
      | ok y => rw [hg] at h; cases h; exact ⟨id, hg⟩
    | none =>
      simp only at h
      cases l with
      | none => cases h
      | some id =>
        simp only at h
        cases hg : getLeaf v id with
        | error e => rw [hg] at h; cases h
        | ok y => rw [hg] at h; cases h; exact ⟨id, hg⟩

/-- every leaf value of a built trie (values supplied, not all retained values empty) is one
    of the supplied values -/
theorem getLeaf_supplied (keys : List Bytes) (vs : List Bytes) (opt : Opt) (t : Trie1)
    (hb : build keys (some vs) opt = .ok t) (hne : keys ≠ [])
    (h0 : eltsTotal (t.leafKeyIdx.toList.map (fun i => vs.getD i [])) ≠ 0)
    (id : Nat) (x : Option Bytes) (h : getLeaf t.view id = .ok x) :
    ∃ b, x = some b ∧ b ∈ vs := by
  have helts := build_elts keys (some vs) opt t hb hne
  simp only [Option.map_some] at helts
  obtain ⟨b, rfl, hmem⟩ := getLeaf_mem t _ helts h0 id x h
  refine ⟨b, rfl, ?_⟩
  obtain ⟨i, hi, rfl⟩ := List.mem_map.mp hmem
  have hlen : vs.length = keys.length := (BuildShape.build_ok_elim hb hne).2.1 vs rfl
  have := ((build_leaf_mem keys (some vs) opt t hb hne i).mp hi).1
  rw [List.getD_eq_getElem?_getD, List.getElem?_eq_getElem (by omega)]
  exact List.getElem_mem _

/-- the supplied values are non-empty byte strings: the stored leaf array is not nil -/
theorem eltsTotal_built (keys : List Bytes) (vs : List Bytes) (opt : Opt) (t : Trie1)
    (hb : build keys (some vs) opt = .ok t) (hne : keys ≠ []) (hvs : ∀ b ∈ vs, b ≠ []) :
    eltsTotal (t.leafKeyIdx.toList.map (fun i => vs.getD i [])) ≠ 0 := by
  have hn : keys.length ≠ 0 := by
    intro h; exact hne (List.length_eq_zero_iff.mp h)
  obtain ⟨_, hv, _⟩ := BuildShape.build_ok_elim hb hne
  have hlen : vs.length = keys.length := hv vs rfl
  have h0 : 0 ∈ t.leafKeyIdx.toList :=
    (build_leaf_mem keys (some vs) opt t hb hne 0).mpr
      ⟨by omega, BuildInv.keepMask_zero _ hn hv⟩
  apply eltsTotal_ne_zero _ (vs.getD 0 []) (List.mem_map.mpr ⟨0, h0, rfl⟩)
  apply hvs
  rw [List.getD_eq_getElem?_getD, List.getElem?_eq_getElem (by omega)]
  exact List.getElem_mem _

end IndexExact

open IndexExact in
/-- **A hit carries a supplied value** (`Get`): on a trie built with values that are non-empty
    byte strings, whatever `Get` reports for ANY query string — indexed or a false positive —
    is one of the supplied values, never the nil value. -/
theorem C10_hit_supplied (keys : List Bytes) (vs : List Bytes) (opt : Opt) (t : Trie1)
    (hb : build keys (some vs) opt = .ok t) (hne : keys ≠ []) (hvs : ∀ b ∈ vs, b ≠ [])
    (q : Bytes) (x : Option Bytes) (h : get t.view q = .ok (some x)) :
    ∃ b, x = some b ∧ b ∈ vs := by
  obtain ⟨id, _, hg⟩ := (Agree.get_hit_iff t.view q x).mp h
  exact getLeaf_supplied keys vs opt t hb hne (eltsTotal_built keys vs opt t hb hne hvs) id x hg

open IndexExact in
/-- the same for `RangeGet` -/
theorem rangeGet_hit_supplied (keys : List Bytes) (vs : List Bytes) (opt : Opt) (t : Trie1)
    (hb : build keys (some vs) opt = .ok t) (hne : keys ≠ []) (hvs : ∀ b ∈ vs, b ≠ [])
    (q : Bytes) (x : Option Bytes) (h : rangeGet t.view q = .ok (some x)) :
    ∃ b, x = some b ∧ b ∈ vs := by
  obtain ⟨id, hg⟩ := rangeGet_some t.view q x h
  exact getLeaf_supplied keys vs opt t hb hne (eltsTotal_built keys vs opt t hb hne hvs) id x hg

#print axioms C10_hit_supplied
#print axioms rangeGet_hit_supplied
