import Generated.Funcs
import SlimModel.Slim
import SlimModel.Query
import SlimModel.Encode
import SlimModel.Spec
import SlimModel.Bits
/-
  SlimProps.BridgeSem — tie 1, semantic part: the small pure functions of the Go source, translated
  to Lean on every check run (lean/Generated/Funcs.lean, written by harness/cmd/extract/translate.go
  with the meaning of lean/Generated/GoSem.lean), are EQUAL to the model's functions, for all inputs.

  A harmless rewrite of the Go source changes Funcs.lean but not these theorems; a change of meaning
  breaks a proof.  The proofs therefore do not depend on the shape of the generated terms: they
  unfold the generated definition and the `Go.*` operations (`go_simp`), and finish with `omega`
  (linear arithmetic with `/` and `%` by literals) or, for the little-endian compositions, by
  rewriting the model side into a `|||` of shifted bytes and comparing modulo associativity and
  commutativity (`ac_rfl`).

  Units: the Go functions count bits, the model counts half-bytes (bit position = 4 × position).

  * `encStep_sem`, `decStep_sem`, `decStep_encStep_iff`
  * `getLabelIdxOfKey_sem`
  * `getI8_sem` … `getI64_sem` (+ `_list` versions for `bs.length = N/8`), `getI16Index_sem` …
  * `encSizes_sem`, `encSizes_model` (package encode: the size literals of the integer encoders)
  * `normalizeOpt_sem` (decision logic of the options, all 81 combinations)
  * `newToKeep_sem` (= `keepMask`), `stepToPos_sem` (= `Slim.stepToPos`): translated `for` loops
  * `bigInnerOffset_sem`, `shortMinusInner_sem`, `innerFromBig_sem`, `innerFromSmall_sem`,
    `innerFrom_offset_sem` (offset arithmetic of the inner-node bitmaps), `getLeafIndex_sem`
  * `memIncrOfShortSize_sem` (= `Slim.memIncr`), `findMinShortSize_sem` (= `Slim.findMinShortSize`):
    nested slices of structs, a call between translated functions, `bits.OnesCount64`
-/

open Generated

namespace BridgeSem

/-! ### normalisation -/

theorem and_255 (x : Nat) : x &&& 255 = x % 256 := Nat.and_two_pow_sub_one_eq_mod x 8
theorem and_15 (x : Nat) : x &&& 15 = x % 16 := Nat.and_two_pow_sub_one_eq_mod x 4
theorem and_7 (x : Nat) : x &&& 7 = x % 8 := Nat.and_two_pow_sub_one_eq_mod x 3
theorem and_255' (x : Nat) : 255 &&& x = x % 256 := by rw [Nat.and_comm]; exact and_255 x
theorem and_15' (x : Nat) : 15 &&& x = x % 16 := by rw [Nat.and_comm]; exact and_15 x
theorem and_7' (x : Nat) : 7 &&& x = x % 8 := by rw [Nat.and_comm]; exact and_7 x

theorem byte_lt (b : UInt8) : b.toNat < 256 := UInt8.toNat_lt_size b

/-! conditional rewrite rules: on operands that fit, the `Go.*` operations are plain arithmetic -/

theorem toS_small {w p : Nat} (h : p < 2 ^ (w - 1)) : Go.toS w p = (p : Int) := by
  unfold Go.toS; rw [if_pos h]

theorem sar_small {w a : Nat} (k : Nat) (h : a < 2 ^ (w - 1)) : Go.sar w a k = a / 2 ^ k := by
  unfold Go.sar; rw [if_pos h, Nat.shiftRight_eq_div_pow]

theorem shr_eq (a k : Nat) : Go.shr a k = a / 2 ^ k := Nat.shiftRight_eq_div_pow a k

theorem ltS_small {w a b : Nat} (ha : a < 2 ^ (w - 1)) (hb : b < 2 ^ (w - 1)) :
    Go.ltS w a b = decide (a < b) := by
  unfold Go.ltS; rw [toS_small ha, toS_small hb]; simp

theorem leS_small {w a b : Nat} (ha : a < 2 ^ (w - 1)) (hb : b < 2 ^ (w - 1)) :
    Go.leS w a b = decide (a ≤ b) := by
  unfold Go.leS; rw [toS_small ha, toS_small hb]; simp

theorem conv_narrow (fw : Nat) (fs : Bool) (tw x : Nat) (h : tw ≤ fw) :
    Go.conv fw fs tw x = x % 2 ^ tw := by
  unfold Go.conv Go.wrap; rw [if_pos h]

theorem conv_widen_u (fw tw x : Nat) (h : fw < tw) : Go.conv fw false tw x = x := by
  unfold Go.conv; rw [if_neg (by omega)]; simp

theorem conv_widen_small (fw tw x : Nat) (h : fw < tw) (hx : x < 2 ^ (fw - 1)) :
    Go.conv fw true tw x = x := by
  unfold Go.conv; rw [if_neg (by omega)]
  have : ¬ 2 ^ (fw - 1) ≤ x := by omega
  simp [this]

theorem add_small {w a b : Nat} (h : a + b < 2 ^ w) : Go.add w a b = a + b := by
  unfold Go.add Go.wrap; exact Nat.mod_eq_of_lt h

theorem mul_small {w a b : Nat} (h : a * b < 2 ^ w) : Go.mul w a b = a * b := by
  unfold Go.mul Go.wrap; exact Nat.mod_eq_of_lt h

theorem shl_small {w a k : Nat} (h : a * 2 ^ k < 2 ^ w) : Go.shl w a k = a * 2 ^ k := by
  unfold Go.shl Go.wrap; rw [Nat.shiftLeft_eq]; exact Nat.mod_eq_of_lt h

theorem and_eq (a b : Nat) : Go.and a b = a &&& b := rfl

/-- rewrite the `Go.*` operations on operands that fit their type into plain arithmetic;
    side conditions are discharged by `omega` from the hypotheses in scope -/
syntax "go_simp" : tactic
macro_rules
  | `(tactic| go_simp) => `(tactic|
      simp (disch := omega) only [sar_small, shr_eq, ltS_small, leS_small, conv_narrow, conv_widen_u,
        conv_widen_small, add_small, mul_small, shl_small, toS_small, and_eq,
        and_255, and_15, and_7, and_255', and_15', and_7',
        List.getD_cons_zero, List.getD_cons_succ, List.getD_nil,
        decide_eq_true_eq, beq_iff_eq, bne_iff_ne, ne_eq])

/-! ### `encStep` / `decStep` (trie/slimtrie_create.go) -/

/-- `encStep` of a step of `4 n` bits is the model's `encStep n` (both wrap at 2^16 half-bytes) -/
theorem encStep_sem (n : Nat) (h : n < 2 ^ 29) :
    Generated.encStep (4 * n) = (Slim.encStep n).map UInt8.toNat := by
  unfold Generated.encStep Slim.encStep
  simp only [List.map_cons, List.map_nil, UInt8.toNat_ofNat']
  go_simp
  congr 1
  · omega
  · congr 1; omega

theorem or_mul (a b k : Nat) (h : b < 2 ^ k) : a * 2 ^ k ||| b = a * 2 ^ k + b := by
  have := Nat.shiftLeft_add_eq_or_of_lt h a
  rw [Nat.shiftLeft_eq] at this
  exact this.symm

theorem or_mul' (a b k : Nat) (h : b < 2 ^ k) : b ||| a * 2 ^ k = a * 2 ^ k + b := by
  rw [Nat.or_comm]; exact or_mul a b k h

set_option linter.unusedSimpArgs false in
/-- two bytes `b0 b1` decode to `4 ×` the model's `decStep b0 b1` bits -/
theorem decStep_sem (b0 b1 : UInt8) :
    Generated.decStep [b0.toNat, b1.toNat] = ((4 * Slim.decStep b0 b1 : Nat) : Int) := by
  have h0 := byte_lt b0
  have h1 := byte_lt b1
  unfold Generated.decStep Slim.decStep
  go_simp
  simp (disch := omega) only [Go.or, or_mul, or_mul']
  go_simp
  all_goals omega

/-- round trip in bits: a step (a multiple of 4 bits, an `int32 ≥ 0`) survives
    `decStep ∘ encStep` iff it is below 2^16 half-bytes -/
theorem decStep_encStep_iff (s : Nat) (h4 : s % 4 = 0) (hs : s < 2 ^ 31) :
    Generated.decStep (Generated.encStep s) = (s : Int) ↔ s / 4 < 2 ^ 16 := by
  obtain ⟨n, rfl⟩ : ∃ n, s = 4 * n := ⟨s / 4, by omega⟩
  rw [encStep_sem n (by omega)]
  unfold Slim.encStep
  simp only [List.map_cons, List.map_nil]
  rw [decStep_sem]
  unfold Slim.decStep
  simp only [UInt8.toNat_ofNat']
  constructor
  · intro h
    have : 4 * (n / 256 % 2 ^ 8 * 256 + n % 256 % 2 ^ 8) = 4 * n := by exact_mod_cast h
    omega
  · intro h
    have : 4 * (n / 256 % 2 ^ 8 * 256 + n % 256 % 2 ^ 8) = 4 * n := by omega
    exact_mod_cast this

/-! ### `getLabelIdxOfKey` (trie/slimtrie_query.go) -/

theorem nibs_getD (key : Bytes) (i : Nat) :
    (nibs key).getD i 0 =
      if i % 2 = 0 then (key.map UInt8.toNat).getD (i / 2) 0 / 16
      else (key.map UInt8.toNat).getD (i / 2) 0 % 16 := by
  induction key generalizing i with
  | nil => simp [nibs]
  | cons b bs ih =>
    match i with
    | 0 => simp [nibs]
    | 1 => simp [nibs]
    | i + 2 =>
      have e1 : (i + 2) / 2 = i / 2 + 1 := by omega
      have e2 : (i + 2) % 2 = i % 2 := by omega
      simp only [nibs, List.getD_cons_succ, List.map_cons, e1, e2]
      exact ih i

theorem nibs_length' (key : Bytes) : (nibs key).length = 2 * key.length := by
  induction key with
  | nil => rfl
  | cons b bs ih => simp only [nibs, List.length_cons, ih]; omega

theorem getD_map_lt (key : Bytes) (j : Nat) : (key.map UInt8.toNat).getD j 0 < 256 := by
  rw [List.getD_eq_getElem?_getD, List.getElem?_map]
  cases key[j]? with
  | none => simp
  | some b => simpa using byte_lt b

/-- the label index at bit position `4 i` of the Go code is the model's label index at half-byte
    position `i`; `w` is the word size in bits (4, or 8 for big nodes — then `i` must be even:
    8-bit words start at byte boundaries).  Bit positions fit an `int32`. -/
theorem getLabelIdxOfKey_sem (key : Bytes) (i w : Nat) (hw : w = 4 ∨ w = 8)
    (hlen : 8 * key.length < 2 ^ 31) (hi : 4 * i < 2 ^ 31) :
    Generated.getLabelIdxOfKey (4 * i) (key.map UInt8.toNat) (8 * key.length) w
      = ((labelIdxOfKey (nibs key) i (w == 8) : Nat) : Int) := by
  have hb := getD_map_lt key (i / 2)
  have hshift : 4 * i / 2 ^ 3 = i / 2 := by omega
  unfold Generated.getLabelIdxOfKey labelIdxOfKey
  rw [nibs_length']
  simp only [nibs_getD]
  rcases hw with rfl | rfl
  · -- 4-bit words
    go_simp
    simp only [hshift]
    generalize (key.map UInt8.toNat).getD (i / 2) 0 = x at hb ⊢
    -- resolve every `if` of both sides; contradictory paths are closed by `omega`
    repeat' split
    all_goals first
      | omega
      | (go_simp <;> omega)
      | (simp at * <;> omega)
  · -- 8-bit words: the byte that contains the position
    have e1 : (i - i % 2) / 2 = i / 2 := by omega
    have e2 : (i - i % 2 + 1) / 2 = i / 2 := by omega
    have e3 : (i - i % 2) % 2 = 0 := by omega
    have e4 : ¬ (i - i % 2 + 1) % 2 = 0 := by omega
    go_simp
    simp only [hshift, e1, e2, e3, e4, if_true, if_false]
    generalize (key.map UInt8.toNat).getD (i / 2) 0 = x at hb ⊢
    repeat' split
    all_goals first
      | omega
      | (go_simp <;> omega)
      | (simp at * <;> omega)

/-! ### `GetI8/16/32/64` (trie/slimtrie_getint.go) -/

/-- a `w`-bit pattern read as a signed value is `leSigned` of the bytes it is made of -/
theorem toS_eq_leSigned (bs : Bytes) (w p : Nat) (hw : w = 8 * bs.length) (hp : p = leVal bs) :
    Go.toS w p = Slim.leSigned bs := by
  subst hw hp
  unfold Go.toS Slim.leSigned
  simp only
  all_goals (split <;> simp)

theorem or_shl (a b k : Nat) (h : a < 2 ^ k) : a ||| b <<< k = a + 2 ^ k * b := by
  rw [Nat.or_comm, ← Nat.shiftLeft_add_eq_or_of_lt h, Nat.shiftLeft_eq]
  rw [Nat.mul_comm, Nat.add_comm]

theorem leVal1 (b0 : UInt8) : leVal [b0] = b0.toNat := by simp [leVal]

theorem leVal2_or (b0 b1 : UInt8) : leVal [b0, b1] = b0.toNat ||| b1.toNat <<< 8 := by
  have := byte_lt b0
  rw [or_shl _ _ _ (by omega)]
  simp [leVal]

theorem leVal4_or (b0 b1 b2 b3 : UInt8) :
    leVal [b0, b1, b2, b3]
      = b0.toNat ||| b1.toNat <<< 8 ||| b2.toNat <<< 16 ||| b3.toNat <<< 24 := by
  have := byte_lt b0; have := byte_lt b1; have := byte_lt b2
  rw [or_shl _ _ 8 (by omega), or_shl _ _ 16 (by omega), or_shl _ _ 24 (by omega)]
  simp only [leVal]
  omega

theorem leVal8_or (b0 b1 b2 b3 b4 b5 b6 b7 : UInt8) :
    leVal [b0, b1, b2, b3, b4, b5, b6, b7]
      = b0.toNat ||| b1.toNat <<< 8 ||| b2.toNat <<< 16 ||| b3.toNat <<< 24 ||| b4.toNat <<< 32
        ||| b5.toNat <<< 40 ||| b6.toNat <<< 48 ||| b7.toNat <<< 56 := by
  have := byte_lt b0; have := byte_lt b1; have := byte_lt b2; have := byte_lt b3
  have := byte_lt b4; have := byte_lt b5; have := byte_lt b6
  rw [or_shl _ _ 8 (by omega), or_shl _ _ 16 (by omega), or_shl _ _ 24 (by omega),
    or_shl _ _ 32 (by omega), or_shl _ _ 40 (by omega), or_shl _ _ 48 (by omega),
    or_shl _ _ 56 (by omega)]
  simp only [leVal]
  omega

/-- a shifted byte stays inside a wider word -/
theorem shl_byte (w k : Nat) (b : UInt8) (hk : k + 8 ≤ w) :
    Go.shl w b.toNat k = b.toNat <<< k := by
  unfold Go.shl Go.wrap
  apply Nat.mod_eq_of_lt
  rw [Nat.shiftLeft_eq]
  have := byte_lt b
  calc b.toNat * 2 ^ k < 2 ^ 8 * 2 ^ k := Nat.mul_lt_mul_of_pos_right (by omega) (Nat.two_pow_pos k)
    _ = 2 ^ (k + 8) := by rw [← Nat.pow_add, Nat.add_comm]
    _ ≤ 2 ^ w := Nat.pow_le_pow_right (by omega) hk

/-- unfold conversions of bytes, list accesses and in-range shifts; leaves a `|||` of shifted bytes -/
syntax "bytes_simp" : tactic
macro_rules
  | `(tactic| bytes_simp) => `(tactic|
      simp (disch := omega) only [Go.conv, Go.or, shl_byte, Go.wrap,
        List.getD_cons_zero, List.getD_cons_succ,
        Bool.false_and, Bool.false_eq_true, if_false, Nat.reduceLeDiff, Nat.reducePow,
        Nat.shiftLeft_zero])

theorem getI8_sem (bytes : Bytes) (ith : Nat) (h : ith < bytes.length) :
    Generated.getI8 (bytes.map UInt8.toNat) ith = Slim.leSigned [bytes[ith]] := by
  unfold Generated.getI8
  refine toS_eq_leSigned [bytes[ith]] _ _ (by rfl) ?_
  rw [leVal1, List.getD_eq_getElem?_getD, List.getElem?_map, List.getElem?_eq_getElem h]
  have := byte_lt bytes[ith]
  simp only [Go.conv, Go.wrap, Option.map_some, Option.getD_some, Nat.le_refl, if_true]
  omega

theorem getI16_sem (b0 b1 : UInt8) :
    Generated.getI16 [b0.toNat, b1.toNat] = Slim.leSigned [b0, b1] := by
  unfold Generated.getI16
  refine toS_eq_leSigned [b0, b1] _ _ (by rfl) ?_
  rw [leVal2_or]
  bytes_simp
  all_goals
    generalize b0.toNat = x0; generalize b1.toNat <<< 8 = x1
    ac_rfl

theorem getI32_sem (b0 b1 b2 b3 : UInt8) :
    Generated.getI32 [b0.toNat, b1.toNat, b2.toNat, b3.toNat] = Slim.leSigned [b0, b1, b2, b3] := by
  unfold Generated.getI32
  refine toS_eq_leSigned [b0, b1, b2, b3] _ _ (by rfl) ?_
  rw [leVal4_or]
  bytes_simp
  all_goals
    generalize b0.toNat = x0; generalize b1.toNat <<< 8 = x1; generalize b2.toNat <<< 16 = x2
    generalize b3.toNat <<< 24 = x3
    ac_rfl

theorem getI64_sem (b0 b1 b2 b3 b4 b5 b6 b7 : UInt8) :
    Generated.getI64 [b0.toNat, b1.toNat, b2.toNat, b3.toNat, b4.toNat, b5.toNat, b6.toNat, b7.toNat]
      = Slim.leSigned [b0, b1, b2, b3, b4, b5, b6, b7] := by
  unfold Generated.getI64
  refine toS_eq_leSigned [b0, b1, b2, b3, b4, b5, b6, b7] _ _ (by rfl) ?_
  rw [leVal8_or]
  bytes_simp
  all_goals
    generalize b0.toNat = x0; generalize b1.toNat <<< 8 = x1; generalize b2.toNat <<< 16 = x2
    generalize b3.toNat <<< 24 = x3; generalize b4.toNat <<< 32 = x4; generalize b5.toNat <<< 40 = x5
    generalize b6.toNat <<< 48 = x6; generalize b7.toNat <<< 56 = x7
    ac_rfl

/-- for any slice of the right length -/
theorem getI16_list (bs : Bytes) (h : bs.length = 2) :
    Generated.getI16 (bs.map UInt8.toNat) = Slim.leSigned bs := by
  match bs, h with
  | [b0, b1], _ => exact getI16_sem b0 b1

theorem getI32_list (bs : Bytes) (h : bs.length = 4) :
    Generated.getI32 (bs.map UInt8.toNat) = Slim.leSigned bs := by
  match bs, h with
  | [b0, b1, b2, b3], _ => exact getI32_sem b0 b1 b2 b3

theorem getI64_list (bs : Bytes) (h : bs.length = 8) :
    Generated.getI64 (bs.map UInt8.toNat) = Slim.leSigned bs := by
  match bs, h with
  | [b0, b1, b2, b3, b4, b5, b6, b7], _ => exact getI64_sem b0 b1 b2 b3 b4 b5 b6 b7

/-- the slice start: leaf ordinal × width in bytes (ordinals fit an `int32`) -/
theorem getI16Index_sem (ith : Nat) (h : ith < 2 ^ 30) :
    Generated.getI16Index ith = ((ith * 2 : Nat) : Int) := by
  unfold Generated.getI16Index
  go_simp
  all_goals omega

theorem getI32Index_sem (ith : Nat) (h : ith < 2 ^ 29) :
    Generated.getI32Index ith = ((ith * 4 : Nat) : Int) := by
  unfold Generated.getI32Index
  go_simp
  all_goals omega

theorem getI64Index_sem (ith : Nat) (h : ith < 2 ^ 28) :
    Generated.getI64Index ith = ((ith * 8 : Nat) : Int) := by
  unfold Generated.getI64Index
  go_simp
  all_goals omega

/-! ### package encode: `GetSize` / `GetEncodedSize` of the fixed-width integer encoders -/

/-- the size literals of encode/int.go, encode/int8.go -/
theorem encSizes_sem :
    [Generated.encSizeI8, Generated.encEncodedSizeI8, Generated.encSizeI16, Generated.encEncodedSizeI16,
     Generated.encSizeI32, Generated.encEncodedSizeI32, Generated.encSizeI64, Generated.encEncodedSizeI64,
     Generated.encSizeU16, Generated.encEncodedSizeU16, Generated.encSizeU32, Generated.encEncodedSizeU32,
     Generated.encSizeU64, Generated.encEncodedSizeU64]
      = [1, 1, 2, 2, 4, 4, 8, 8, 2, 2, 4, 4, 8, 8] := by decide

/-- … are the sizes of the model's codecs (SlimModel/Encode.lean) -/
theorem encSizes_model (v : Int) (n : Nat) (b : Bytes) :
    Encode.I8.getSize v = .ok Generated.encSizeI8.toNat ∧
    Encode.I8.getEncodedSize b = .ok Generated.encEncodedSizeI8.toNat ∧
    Encode.I16.getSize v = .ok Generated.encSizeI16.toNat ∧
    Encode.I16.getEncodedSize b = .ok Generated.encEncodedSizeI16.toNat ∧
    Encode.I32.getSize v = .ok Generated.encSizeI32.toNat ∧
    Encode.I32.getEncodedSize b = .ok Generated.encEncodedSizeI32.toNat ∧
    Encode.I64.getSize v = .ok Generated.encSizeI64.toNat ∧
    Encode.I64.getEncodedSize b = .ok Generated.encEncodedSizeI64.toNat ∧
    Encode.U16.getSize n = .ok Generated.encSizeU16.toNat ∧
    Encode.U16.getEncodedSize b = .ok Generated.encEncodedSizeU16.toNat ∧
    Encode.U32.getSize n = .ok Generated.encSizeU32.toNat ∧
    Encode.U32.getEncodedSize b = .ok Generated.encEncodedSizeU32.toNat ∧
    Encode.U64.getSize n = .ok Generated.encSizeU64.toNat ∧
    Encode.U64.getEncodedSize b = .ok Generated.encEncodedSizeU64.toNat := by
  have h := encSizes_sem
  simp only [List.cons.injEq, and_true] at h
  obtain ⟨h1, h2, h3, h4, h5, h6, h7, h8, h9, h10, h11, h12, h13, h14⟩ := h
  rw [h1, h2, h3, h4, h5, h6, h7, h8, h9, h10, h11, h12, h13, h14]
  exact ⟨rfl, rfl, rfl, rfl, rfl, rfl, rfl, rfl, rfl, rfl, rfl, rfl, rfl, rfl⟩

/-! ### `normalizeOpt` (trie/slimtrie.go): the decision logic of the options -/

/-- nil pointers take their defaults and `Complete == true` forces both prefixes: the generated
    decision logic is `Opt.normalize` (SlimModel/Spec.lean), for all 81 combinations of
    nil / false / true; `Complete` itself is left as it was. -/
theorem normalizeOpt_sem (d i l c : Option Bool) :
    Generated.normalizeOpt d i l c =
      (some (Opt.normalize d i l c).dedup, some (Opt.normalize d i l c).inner,
       some (Opt.normalize d i l c).leaf, c) := by
  rcases d with _ | _ | _ <;> rcases i with _ | _ | _ <;> rcases l with _ | _ | _ <;>
    rcases c with _ | _ | _ <;> rfl

/-! ### offset arithmetic of the inner-node bitmaps (slimtrie_vars.go, slimtrie_getnode.go) -/

theorem ofS_natCast {w n : Nat} (h : n < 2 ^ w) : Go.ofS w (n : Int) = n := by
  unfold Go.ofS
  have : ((n : Int) % (2 : Int) ^ w) = (n : Int) := by
    apply Int.emod_eq_of_lt (by omega)
    exact_mod_cast h
  rw [this]; simp

theorem ofS_lt (w : Nat) (x : Int) : Go.ofS w x < 2 ^ w := by
  unfold Go.ofS
  have hpos : (0 : Int) < (2 : Int) ^ w := Int.pow_pos (by decide)
  have h1 := Int.emod_lt_of_pos x hpos
  have h0 := Int.emod_nonneg x (Int.ne_of_gt hpos)
  have : ((x % (2 : Int) ^ w).toNat : Int) < ((2 ^ w : Nat) : Int) := by
    rw [Int.toNat_of_nonneg h0]; simpa using h1
  exact Int.ofNat_lt.mp this

theorem ofS_cast (w : Nat) (x : Int) : ((Go.ofS w x : Nat) : Int) = x % (2 : Int) ^ w := by
  unfold Go.ofS
  have hpos : (0 : Int) < (2 : Int) ^ w := Int.pow_pos (by decide)
  exact Int.toNat_of_nonneg (Int.emod_nonneg x (Int.ne_of_gt hpos))

/-- a pattern is determined by its residue -/
theorem eq_ofS {w p : Nat} {x : Int} (hp : p < 2 ^ w) (h : (p : Int) % (2 : Int) ^ w = x % (2 : Int) ^ w) :
    p = Go.ofS w x := by
  have h1 : ((p : Nat) : Int) = ((Go.ofS w x : Nat) : Int) := by
    rw [ofS_cast, ← h]
    symm
    apply Int.emod_eq_of_lt (by omega)
    exact_mod_cast hp
  exact_mod_cast h1

/-- wrap-around addition and multiplication compute in the ring of residues: intermediate
    overflow is harmless -/
theorem add_ofS (w : Nat) (a b : Int) : Go.add w (Go.ofS w a) (Go.ofS w b) = Go.ofS w (a + b) := by
  apply eq_ofS
  · exact Nat.mod_lt _ (Nat.two_pow_pos w)
  · unfold Go.add Go.wrap
    rw [Int.natCast_emod, Int.natCast_add, ofS_cast, ofS_cast]
    simp only [Int.natCast_pow, Int.cast_ofNat_Int]
    rw [Int.emod_emod_of_dvd _ (Int.dvd_refl _), ← Int.add_emod]

theorem mul_ofS (w : Nat) (a b : Int) : Go.mul w (Go.ofS w a) (Go.ofS w b) = Go.ofS w (a * b) := by
  apply eq_ofS
  · exact Nat.mod_lt _ (Nat.two_pow_pos w)
  · unfold Go.mul Go.wrap
    rw [Int.natCast_emod, Int.natCast_mul, ofS_cast, ofS_cast]
    simp only [Int.natCast_pow, Int.cast_ofNat_Int]
    rw [Int.emod_emod_of_dvd _ (Int.dvd_refl _), ← Int.mul_emod]

theorem sub_ofS (w : Nat) (a b : Int) : Go.sub w (Go.ofS w a) (Go.ofS w b) = Go.ofS w (a - b) := by
  apply eq_ofS
  · exact Nat.mod_lt _ (Nat.two_pow_pos w)
  · unfold Go.sub Go.wrap
    have hb := ofS_lt w b
    rw [Nat.mod_eq_of_lt hb, Int.natCast_emod, Int.natCast_add, Int.natCast_sub (Nat.le_of_lt hb),
      ofS_cast, ofS_cast]
    simp only [Int.natCast_pow, Int.cast_ofNat_Int]
    rw [Int.emod_emod_of_dvd _ (Int.dvd_refl _)]
    have : a % 2 ^ w + (2 ^ w - b % 2 ^ w) = (a % 2 ^ w - b % 2 ^ w) + 2 ^ w := by omega
    rw [this, Int.add_emod_right, ← Int.sub_emod]

/-- a value in the signed range is read back from its pattern -/
theorem toS_ofS {w : Nat} (hw : 0 < w) {x : Int} (hlo : -(2 : Int) ^ (w - 1) ≤ x)
    (hhi : x < (2 : Int) ^ (w - 1)) : Go.toS w (Go.ofS w x) = x := by
  have hsplit : (2 : Int) ^ w = 2 * (2 : Int) ^ (w - 1) := by
    have : w = (w - 1) + 1 := by omega
    rw [this, Int.pow_succ]; simp; omega
  have hHpos : (0 : Int) < (2 : Int) ^ (w - 1) := Int.pow_pos (by decide)
  have hcast : (((2 : Nat) ^ (w - 1) : Nat) : Int) = (2 : Int) ^ (w - 1) := by simp
  unfold Go.toS
  by_cases hneg : 0 ≤ x
  · have hm : x % (2 : Int) ^ w = x := Int.emod_eq_of_lt hneg (by omega)
    have hc := ofS_cast w x
    rw [hm] at hc
    have : Go.ofS w x < 2 ^ (w - 1) := by
      apply Int.ofNat_lt.mp
      rw [hcast, hc]; exact hhi
    rw [if_pos this, hc]
  · have hm : x % (2 : Int) ^ w = x + (2 : Int) ^ w := by
      rw [← Int.add_emod_right x ((2 : Int) ^ w)]
      exact Int.emod_eq_of_lt (by omega) (by omega)
    have hc := ofS_cast w x
    rw [hm] at hc
    have : ¬ Go.ofS w x < 2 ^ (w - 1) := by
      intro hlt
      have := Int.ofNat_lt.mpr hlt
      rw [hcast, hc] at this
      omega
    rw [if_neg this, hc]; omega

/-- `BigInnerOffset = (bigInnerSize - innerSize) * BigInnerCnt` (no overflow: the count fits) -/
theorem bigInnerOffset_sem (cnt : Nat) (h : 240 * cnt < 2 ^ 31) :
    Generated.bigInnerOffset cnt = ((Slim.bigInnerSize : Int) - Slim.innerSize) * cnt := by
  unfold Generated.bigInnerOffset
  go_simp
  simp only [Slim.bigInnerSize, Slim.innerSize]
  omega

/-- `ShortMinusInner = ShortSize - innerSize` (negative for every real short size) -/
theorem shortMinusInner_sem (ss : Nat) (h : ss < 2 ^ 31) :
    Generated.shortMinusInner ss = (ss : Int) - Slim.innerSize := by
  unfold Generated.shortMinusInner
  conv => lhs; rw [← ofS_natCast (w := 32) (n := ss) (by omega),
    ← ofS_natCast (w := 32) (n := 17) (by omega)]
  rw [sub_ofS, toS_ofS (by omega)]
  · simp [Slim.innerSize]
  · simp only [Nat.add_one_sub_one]; omega
  · simp only [Nat.add_one_sub_one]; omega

theorem innerFromBig_sem (ith : Nat) (h : ith * 257 < 2 ^ 31) :
    Generated.innerFromBig ith = ((ith * Slim.bigInnerSize : Nat) : Int) ∧
    Generated.getNodeFromBig ith = ((ith * Slim.bigInnerSize : Nat) : Int) := by
  unfold Generated.innerFromBig Generated.getNodeFromBig
  go_simp
  simp [Slim.bigInnerSize]

/-- `from = BigInnerOffset + innerSize*ithInner + ShortMinusInner*ithShort` on int32 values
    `bo`, `sm` (given by their patterns `Go.ofS 32 _`): whenever the RESULT fits an int32 it is the
    integer the model computes — intermediate wrap-around does not matter. -/
theorem innerFromSmall_sem (ith ithShort : Nat) (bo sm : Int) (hi : ith < 2 ^ 32) (hs : ithShort < 2 ^ 32)
    (hlo : -(2 : Int) ^ 31 ≤ bo + 17 * ith + sm * ithShort)
    (hhi : bo + 17 * ith + sm * ithShort < (2 : Int) ^ 31) :
    Generated.innerFromSmall ith (Go.ofS 32 bo) (Go.ofS 32 sm) ithShort
      = bo + (Slim.innerSize : Int) * ith + sm * ithShort ∧
    Generated.getNodeFromSmall ith (Go.ofS 32 bo) (Go.ofS 32 sm) ithShort
      = bo + (Slim.innerSize : Int) * ith + sm * ithShort := by
  have hinner : (Slim.innerSize : Int) = 17 := rfl
  unfold Generated.innerFromSmall Generated.getNodeFromSmall
  constructor <;>
  · conv => lhs; rw [← ofS_natCast (w := 32) (n := ith) hi, ← ofS_natCast (w := 32) (n := ithShort) hs,
      ← ofS_natCast (w := 32) (n := 17) (by omega)]
    simp only [mul_ofS, add_ofS]
    rw [toS_ofS (by omega) (by simp only [Nat.add_one_sub_one]; omega)
      (by simp only [Nat.add_one_sub_one]; omega), hinner]
    omega

/-- the composition the model uses (`Slim.innerFrom`, `Slim.ithInnerFrom`): with the fields set
    by `initVars`, `from` is the model's `Int` expression whenever everything fits an int32 -/
theorem innerFrom_offset_sem (cnt ss ith ithShort : Nat) (hc : 240 * cnt < 2 ^ 31) (hss : ss < 2 ^ 31)
    (hi : ith < 2 ^ 32) (hs : ithShort < 2 ^ 32)
    (hlo : -(2 : Int) ^ 31 ≤ ((Slim.bigInnerSize : Int) - Slim.innerSize) * cnt + (Slim.innerSize : Int) * ith
      + ((ss : Int) - Slim.innerSize) * ithShort)
    (hhi : ((Slim.bigInnerSize : Int) - Slim.innerSize) * cnt + (Slim.innerSize : Int) * ith
      + ((ss : Int) - Slim.innerSize) * ithShort < (2 : Int) ^ 31) :
    Generated.innerFromSmall ith (Go.ofS 32 (Generated.bigInnerOffset cnt))
        (Go.ofS 32 (Generated.shortMinusInner ss)) ithShort
      = ((Slim.bigInnerSize : Int) - Slim.innerSize) * cnt + (Slim.innerSize : Int) * ith
        + ((ss : Int) - Slim.innerSize) * ithShort := by
  rw [bigInnerOffset_sem cnt hc, shortMinusInner_sem ss hss]
  have hinner : (Slim.innerSize : Int) = 17 := rfl
  exact (innerFromSmall_sem ith ithShort _ _ hi hs (by rw [← hinner]; exact hlo)
    (by rw [← hinner]; exact hhi)).1

/-- `getLeafIndex`: leaf ordinal = node id − number of inner nodes before it -/
theorem getLeafIndex_sem (nodeid r : Nat) (hr : r ≤ nodeid) (hn : nodeid < 2 ^ 31) :
    Generated.getLeafIndex nodeid r = ((nodeid - r : Nat) : Int) := by
  unfold Generated.getLeafIndex
  conv => lhs; rw [← ofS_natCast (w := 32) (n := nodeid) (by omega),
    ← ofS_natCast (w := 32) (n := r) (by omega)]
  rw [sub_ofS, toS_ofS (by omega)]
  · omega
  · simp only [Nat.add_one_sub_one]; omega
  · simp only [Nat.add_one_sub_one]; omega

/-! ### `newToKeep` (trie/slimtrie_create.go): loops over a `[]bool`, `bytes.Compare(a, b) != 0` -/

theorem sub_small {w a b : Nat} (hb : b ≤ a) (ha : a < 2 ^ w) : Go.sub w a b = a - b := by
  unfold Go.sub Go.wrap
  have hb' : b < 2 ^ w := by omega
  rw [Nat.mod_eq_of_lt hb']
  have : a + (2 ^ w - b) = (a - b) + 2 ^ w := by omega
  rw [this, Nat.add_mod_right, Nat.mod_eq_of_lt (by omega)]

theorem take_succ_set {α : Type} (l : List α) (i : Nat) (a : α) (h : i < l.length) :
    (l.set i a).take (i + 1) = l.take i ++ [a] := by
  rw [List.take_add_one, List.take_set_of_le (Nat.le_refl i), List.getElem?_set_self h]
  rfl

/-- the values as the translator sees them -/
def natVals (vs : List Bytes) : List (List Nat) := vs.map (fun b => b.map UInt8.toNat)

theorem natVals_getD (vs : List Bytes) (j : Nat) :
    (natVals vs).getD j [] = (vs.getD j []).map UInt8.toNat := by
  unfold natVals
  rw [List.getD_eq_getElem?_getD, List.getD_eq_getElem?_getD, List.getElem?_map]
  cases vs[j]? <;> rfl

theorem bne_map (a b : Bytes) : (a.map UInt8.toNat != b.map UInt8.toNat) = (a != b) := by
  rw [Bool.eq_iff_iff, bne_iff_ne, bne_iff_ne, Ne, Ne,
    List.map_inj_right (fun x y h => UInt8.toNat_inj.mp h)]

theorem loop2_spec (n : Nat) (hn : n < 2 ^ 63) :
    ∀ fuel i (tk : List Bool), i ≤ n → n - i ≤ fuel → tk.length = n →
      (Generated.newToKeep_loop2 n fuel (i, tk)).2 = tk.take i ++ List.replicate (n - i) true := by
  intro fuel
  induction fuel with
  | zero =>
    intro i tk h1 h2 h3
    have : i = n := by omega
    subst this
    simp [Generated.newToKeep_loop2, ← h3]
  | succ fuel ih =>
    intro i tk h1 h2 h3
    rw [Generated.newToKeep_loop2]
    go_simp
    by_cases hlt : i < n
    · simp only [hlt, if_true]
      rw [ih (i + 1) _ (by omega) (by omega) (by simp [h3]), take_succ_set _ _ _ (by omega)]
      have : n - i = (n - (i + 1)) + 1 := by omega
      rw [this, List.replicate_succ]
      simp
    · have : i = n := by omega
      subst this
      simp [← h3]

/-- what the de-duplicating loop writes at position `j ≥ 1` -/
def keepAt (vs : List Bytes) (j : Nat) : Bool := vs.getD (j - 1) [] != vs.getD j []

theorem loop1_spec (vs : List Bytes) (hn : vs.length < 2 ^ 63) :
    ∀ fuel i (tk : List Bool), 1 ≤ i → i ≤ vs.length → vs.length - i ≤ fuel → tk.length = vs.length →
      (Generated.newToKeep_loop1 vs.length (some (natVals vs)) fuel (i, tk)).2
        = tk.take i ++ (List.range' i (vs.length - i)).map (keepAt vs) := by
  intro fuel
  induction fuel with
  | zero =>
    intro i tk h0 h1 h2 h3
    have : i = vs.length := by omega
    subst this
    simp [Generated.newToKeep_loop1, ← h3]
  | succ fuel ih =>
    intro i tk h0 h1 h2 h3
    rw [Generated.newToKeep_loop1]
    go_simp
    by_cases hlt : i < vs.length
    · simp only [hlt, if_true, Option.getD_some]
      rw [ih (i + 1) _ (by omega) (by omega) (by omega) (by simp [h3]), take_succ_set _ _ _ (by omega)]
      have : vs.length - i = (vs.length - (i + 1)) + 1 := by omega
      rw [this, List.range'_succ]
      simp only [List.map_cons, List.append_assoc, List.cons_append, List.nil_append,
        List.append_cancel_left_eq, List.cons.injEq, and_true]
      -- what the Go code writes at position i is `keepAt vs i`, however the comparison is phrased
      unfold keepAt
      rw [Bool.eq_iff_iff]
      simp only [sub_small h0 (show i < 2 ^ 64 by omega), natVals_getD, bne_iff_ne, beq_iff_eq, ne_eq,
        Bool.not_eq_true', beq_eq_false_iff_ne, Bool.not_eq_eq_eq_not, Bool.not_true,
        List.map_inj_right (fun x y h => UInt8.toNat_inj.mp h)]
      all_goals first
        | exact Iff.rfl
        | exact ⟨fun h e => h e.symm, fun h e => h e.symm⟩
    · have : i = vs.length := by omega
      subst this
      simp [← h3]

theorem keepMaskVals_drop (vs : List Bytes) :
    ∀ d i, 1 ≤ i → i + d = vs.length →
      keepMaskVals (some (vs.getD (i - 1) [])) (vs.drop i) = (List.range' i d).map (keepAt vs) := by
  intro d
  induction d with
  | zero =>
    intro i _ h2
    rw [List.drop_of_length_le (by omega)]
    rfl
  | succ d ih =>
    intro i h1 h2
    rw [List.drop_eq_getElem_cons (by omega), keepMaskVals, List.range'_succ, List.map_cons]
    have hget : vs.getD i [] = vs[i]'(by omega) := by
      rw [List.getD_eq_getElem?_getD, List.getElem?_eq_getElem (by omega)]; rfl
    have := ih (i + 1) (by omega) (by omega)
    simp only [Nat.add_sub_cancel] at this
    rw [← hget, this]
    rfl

/-- **`newToKeep`** (trie/slimtrie_create.go) is `keepMask` (SlimModel/Spec.lean): for every number
    of records `n` (an `int`), values (nil, or as many as records) and `*opt.DedupValue`. -/
theorem newToKeep_sem (n : Nat) (vals : Option (List Bytes)) (dedup : Bool) (hn : n < 2 ^ 63)
    (hv : ∀ vs, vals = some vs → vs.length = n) :
    Generated.newToKeep n (vals.map natVals) (some dedup) = keepMask n vals dedup := by
  unfold Generated.newToKeep keepMask
  have hall : (Generated.newToKeep_loop2 n n (0, List.replicate n false)).2 = List.replicate n true := by
    rw [loop2_spec n hn n 0 _ (by omega) (by omega) (by simp)]
    simp
  cases vals with
  | none =>
    simp only [Option.map_none, Option.isSome_none, Bool.and_false, Bool.false_eq_true, if_false]
    exact hall
  | some vs =>
    have hlen := hv vs rfl
    cases dedup with
    | false =>
      simp only [Option.getD_some, Bool.false_and, Bool.false_eq_true, if_false]
      exact hall
    | true =>
      simp only [Option.map_some, Option.getD_some, Option.isSome_some, Bool.and_self, if_true]
      subst hlen
      cases vs with
      | nil => rfl
      | cons v rest =>
        show (Generated.newToKeep_loop1 (v :: rest).length (some (natVals (v :: rest))) (v :: rest).length
          (1, (List.replicate (v :: rest).length false).set 0 true)).2 = _
        rw [loop1_spec (v :: rest) hn _ 1 _ (by omega) (by simp) (by omega) (by simp)]
        have := keepMaskVals_drop (v :: rest) rest.length 1 (by omega) (by simp; omega)
        simp only [Nat.sub_self, List.getD_cons_zero, List.drop_succ_cons, List.drop_zero] at this
        rw [keepMaskVals, this]
        simp [List.replicate_succ]

/-! ### `stepToPos` -/

/-- the positions before each step, starting at `p` -/
def prePos : List Nat → Nat → List Nat
  | [], _ => []
  | s :: ss, p => p :: prePos ss (p + s)

theorem stepToPos_go_eq (ss : List Nat) (p : Nat) :
    Slim.stepToPos.go ss p = prePos ss p ++ [p + ss.sum] := by
  induction ss generalizing p with
  | nil => simp [Slim.stepToPos.go, prePos]
  | cons s ss ih =>
    simp only [Slim.stepToPos.go, prePos, ih, List.sum_cons, List.cons_append]
    rw [Nat.add_assoc]

theorem prePos_length (ss : List Nat) (p : Nat) : (prePos ss p).length = ss.length := by
  induction ss generalizing p with
  | nil => rfl
  | cons s ss ih => simp [prePos, ih]

theorem sum_drop_le (l : List Nat) (i : Nat) : (l.drop i).sum ≤ l.sum := by
  conv => rhs; rw [← List.take_append_drop i l, List.sum_append]
  omega

theorem stepLoop_spec (steps : List Nat) (hlen : steps.length + 1 < 2 ^ 31) (hsum : steps.sum < 2 ^ 31) :
    ∀ fuel i p (ps : List Nat), i ≤ steps.length → steps.length - i ≤ fuel →
      ps.length = steps.length + 1 → p + (steps.drop i).sum ≤ steps.sum →
      Generated.stepToPos_loop1 steps.length 0 steps fuel (i, p, ps)
        = (steps.length, p + (steps.drop i).sum,
            ps.take i ++ prePos (steps.drop i) p ++ ps.drop steps.length) := by
  intro fuel
  induction fuel with
  | zero =>
    intro i p ps h1 h2 h3 _
    have : i = steps.length := by omega
    subst this
    simp [Generated.stepToPos_loop1, prePos]
  | succ fuel ih =>
    intro i p ps h1 h2 h3 h4
    rw [Generated.stepToPos_loop1]
    by_cases hlt : i < steps.length
    · have hdrop : steps.drop i = steps[i] :: steps.drop (i + 1) := List.drop_eq_getElem_cons hlt
      have hget : steps.getD i 0 = steps[i] := by
        rw [List.getD_eq_getElem?_getD, List.getElem?_eq_getElem hlt]; rfl
      rw [hdrop, List.sum_cons] at h4
      have hs := sum_drop_le steps (i + 1)
      go_simp
      simp only [hlt, if_true, hget, Nat.pow_zero, Nat.div_one]
      try go_simp
      rw [ih (i + 1) _ _ (by omega) (by omega) (by simp [h3]) (by omega), hdrop]
      simp only [List.sum_cons, prePos, Prod.mk.injEq, true_and]
      refine ⟨by omega, ?_⟩
      rw [take_succ_set _ _ _ (by omega), List.drop_set_of_lt (by omega)]
      simp
    · have : i = steps.length := by omega
      subst this
      go_simp
      simp [prePos]

/-- **`stepToPos(steps, 0)`** (the only call shape) is the model's `Slim.stepToPos`: for steps that
    are non-negative int32 values whose total fits an int32 (as does the number of positions). -/
theorem stepToPos_sem (steps : List Nat) (hlen : steps.length + 1 < 2 ^ 31) (hsum : steps.sum < 2 ^ 31) :
    Generated.stepToPos steps 0 = Slim.stepToPos steps := by
  unfold Generated.stepToPos Slim.stepToPos
  go_simp
  have hn : steps.length % 2 ^ 32 = steps.length := by omega
  simp only [hn]
  rw [stepLoop_spec steps hlen hsum steps.length 0 0 _ (by omega) (by omega) (by simp) (by simp)]
  simp only [List.drop_zero, List.take_zero, List.nil_append, Nat.zero_add]
  rw [stepToPos_go_eq, Nat.zero_add]
  have hl := prePos_length steps 0
  rw [List.set_eq_take_append_cons_drop]
  simp [hl]

/-! ### `memIncrOfShortSize` / `findMinShortSize` (trie/slimtrie_create.go): the choice of `ShortSize` -/

/-- the counter table as the translator sees it -/
def natSorted (sorted : Array (List (Nat × Nat))) : List (List (Nat × Nat)) := sorted.toList

/-- the counts and list lengths are non-negative int32 values -/
def SortedOK (sorted : Array (List (Nat × Nat))) : Prop :=
  ∀ l ∈ sorted.toList, l.length < 2 ^ 31 ∧ ∀ e ∈ l, e.2 < 2 ^ 31

theorem popcount64_eq (x : Nat) : Go.popcount64 x = Bits.popcount x := rfl

theorem popcount_le (x : Nat) : Bits.popcount x ≤ 64 := by
  unfold Bits.popcount
  have := List.length_filter_le (fun i => x.testBit i) (List.range 64)
  simpa using this

theorem array_getD_toList {α : Type} (a : Array α) (i : Nat) (d : α) :
    a.toList.getD i d = a.getD i d := by
  rw [List.getD_eq_getElem?_getD, Array.getD_eq_getD_getElem?, Array.getElem?_toList]

theorem ofS_eq_natCast {w n : Nat} (h : n < 2 ^ w) : n = Go.ofS w (n : Int) := (ofS_natCast h).symm

theorem memLoop_spec (sorted : Array (List (Nat × Nat))) (hok : SortedOK sorted) (ss : Nat) (hss : ss ≤ 30) :
    ∀ fuel k short (ith : Array Nat) (mem : Int) (sc : Nat),
      short + k = 2 ^ ss → k ≤ fuel → (∀ j, ith.getD j 0 ≤ short) →
      (Generated.memIncrOfShortSize_loop1 ss (natSorted sorted) fuel
          (Go.ofS 32 mem, ith.toList, short, sc)).1
        = Go.ofS 32 (Slim.memIncr.go sorted ss k short ith mem) := by
  have h2 : 2 ^ ss ≤ 2 ^ 30 := Nat.pow_le_pow_right (by omega) hss
  intro fuel
  induction fuel with
  | zero =>
    intro k short ith mem sc h1 hk _
    have : k = 0 := by omega
    subst this
    simp [Generated.memIncrOfShortSize_loop1, Slim.memIncr.go]
  | succ fuel ih =>
    intro k short ith mem sc h1 hk hith
    rw [Generated.memIncrOfShortSize_loop1]
    have hshl : Go.shl 32 1 (Go.conv 32 true 64 ss) = 2 ^ ss := by
      go_simp
      simp
    rw [hshl]
    cases k with
    | zero =>
      have : ¬ short < 2 ^ ss := by omega
      rw [ltS_small (by omega) (by omega)]
      simp [this, Slim.memIncr.go]
    | succ k =>
      have hlt : short < 2 ^ ss := by omega
      have hpc := popcount_le short
      have hnbit : Go.conv 64 true 32 (Go.popcount64 (Go.conv 32 true 64 short)) = Bits.popcount short := by
        rw [popcount64_eq]
        go_simp
        omega
      rw [ltS_small (by omega) (by omega)]
      simp only [hlt, decide_true, if_true, hnbit]
      rw [Slim.memIncr.go]
      generalize hnb : Bits.popcount short = nbit
      have hused : ith.toList.getD nbit 0 = ith.getD nbit 0 := array_getD_toList _ _ _
      have hub := hith nbit
      generalize hu : ith.getD nbit 0 = used at hub
      have hrow : (natSorted sorted).getD nbit [] = sorted.getD nbit [] := array_getD_toList _ _ _
      rw [hused, hu, hrow]
      generalize hr : sorted.getD nbit [] = row
      have hrowok : row.length < 2 ^ 31 ∧ ∀ e ∈ row, e.2 < 2 ^ 31 := by
        rw [← hr, Array.getD_eq_getD_getElem?]
        cases hg : sorted[nbit]? with
        | none => simp
        | some l => exact hok l (by rw [Array.mem_toList_iff]; exact Array.mem_of_getElem? hg)
      have hlen : Go.conv 64 true 32 row.length = row.length := by go_simp; omega
      rw [hlen, ltS_small (by omega) (by omega)]
      cases hg : row[used]? with
      | none =>
        have : ¬ used < row.length := by
          intro h; rw [List.getElem?_eq_getElem h] at hg; cases hg
        simp only [this, decide_false, Bool.false_eq_true, if_false]
        rw [add_small (by omega)]
        exact ih k (short + 1) ith mem sc (by omega) (by omega) (fun j => by have := hith j; omega)
      | some e =>
        obtain ⟨bm, cnt⟩ := e
        have hul : used < row.length := (List.getElem?_eq_some_iff.mp hg).1
        have hcnt : cnt < 2 ^ 31 := hrowok.2 (bm, cnt) (List.mem_of_getElem? hg)
        have hgd : row.getD used (0, 0) = (bm, cnt) := by
          rw [List.getD_eq_getElem?_getD, hg]; rfl
        simp only [hul, decide_true, if_true, hgd]
        rw [add_small (show short + 1 < 2 ^ 32 by omega), add_small (show used + 1 < 2 ^ 32 by omega)]
        -- the memory update, in the ring of residues
        have hmem : Go.sub 32 (Go.ofS 32 mem) (Go.mul 32 (Go.sub 32 17 ss) cnt)
            = Go.ofS 32 (mem - ((Slim.innerSize : Int) - ss) * cnt) := by
          conv => lhs; rw [ofS_eq_natCast (w := 32) (n := 17) (by omega),
            ofS_eq_natCast (w := 32) (n := ss) (by omega), ofS_eq_natCast (w := 32) (n := cnt) (by omega)]
          rw [sub_ofS, mul_ofS, sub_ofS]
          rfl
        rw [hmem]
        have hmod : ith.toList.set nbit (used + 1) = (ith.modify nbit (· + 1)).toList := by
          rw [Array.toList_modify, List.modify_eq_set, Array.getElem?_toList,
            ← Array.getD_eq_getD_getElem?]
          show _ = ith.toList.set nbit (ith.getD nbit 0 + 1)
          rw [hu]
        rw [hmod]
        exact ih k (short + 1) _ _ _ (by omega) (by omega) (fun j => by
          rw [Array.getD_eq_getD_getElem?, Array.getElem?_modify]
          have := hith j
          rw [Array.getD_eq_getD_getElem?] at this
          split
          · next hj =>
            subst hj
            rw [Array.getD_eq_getD_getElem?] at hu
            cases hq : ith[nbit]? with
            | none => simp
            | some v => rw [hq] at hu this; simp at hu this ⊢; omega
          · omega)

theorem memIncr_pat (sorted : Array (List (Nat × Nat))) (hok : SortedOK sorted) (ss : Nat) (hss : ss ≤ 30) :
    (Generated.memIncrOfShortSize_pat (natSorted sorted) ss).1 = Go.ofS 32 (Slim.memIncr sorted ss) := by
  have h2 : 2 ^ ss ≤ 2 ^ 30 := Nat.pow_le_pow_right (by omega) hss
  unfold Generated.memIncrOfShortSize_pat Slim.memIncr
  have hshl : Go.shl 32 1 (Go.conv 32 true 64 ss) = 2 ^ ss := by
    go_simp
    simp
  have hmem : Go.mul 32 (2 ^ ss) 64 = Go.ofS 32 (((2 ^ ss : Nat) : Int) * 64) := by
    conv => lhs; rw [ofS_eq_natCast (w := 32) (n := 2 ^ ss) (by omega),
      ofS_eq_natCast (w := 32) (n := 64) (by omega)]
    rw [mul_ofS]
    rfl
  have hrep : List.replicate (Go.add 32 ss 1) 0 = (Array.replicate (ss + 1) 0).toList := by
    rw [add_small (by omega), Array.toList_replicate]
  simp only [hshl, hmem, hrep]
  exact memLoop_spec sorted hok ss hss (2 ^ ss) (2 ^ ss) 0 _ _ 0 (by omega) (Nat.le_refl _)
    (by intro j; simp [Array.getD_eq_getD_getElem?, Array.getElem?_replicate]; split <;> simp)

/-- the int32 range -/
def InI32 (x : Int) : Prop := -(2 : Int) ^ 31 ≤ x ∧ x < (2 : Int) ^ 31

/-- **`memIncrOfShortSize`** (first result) is `Slim.memIncr`, whenever the result fits an int32
    (intermediate wrap-around is harmless); counts and list lengths are non-negative int32s. -/
theorem memIncrOfShortSize_sem (sorted : Array (List (Nat × Nat))) (hok : SortedOK sorted) (ss : Nat)
    (hss : ss ≤ 30) (hr : InI32 (Slim.memIncr sorted ss)) :
    (Generated.memIncrOfShortSize (natSorted sorted) ss).1 = Slim.memIncr sorted ss := by
  unfold Generated.memIncrOfShortSize
  simp only
  rw [memIncr_pat sorted hok ss hss, toS_ofS (by omega) (by simpa using hr.1) (by simpa using hr.2)]

theorem findLoop_spec (sorted : Array (List (Nat × Nat))) (hok : SortedOK sorted)
    (hr : ∀ ss, ss ≤ 10 → InI32 (Slim.memIncr sorted ss)) :
    ∀ fuel k ss sz (minCost : Int) (sc : Nat), ss + k = 11 → k ≤ fuel → sz < ss → InI32 minCost →
      (Generated.findMinShortSize_loop1 (natSorted sorted) fuel (Go.ofS 32 minCost, sc, ss, sz)).2.2.2
        = Slim.findMinShortSize.go sorted k ss sz minCost ∧
      (Generated.findMinShortSize_loop1 (natSorted sorted) fuel (Go.ofS 32 minCost, sc, ss, sz)).2.2.2 ≤ 10 := by
  intro fuel
  induction fuel with
  | zero =>
    intro k ss sz minCost sc h1 hk hsz _
    have : k = 0 := by omega
    subst this
    simp only [Generated.findMinShortSize_loop1, Slim.findMinShortSize.go]
    refine ⟨?_, ?_⟩ <;> first | rfl | trivial | omega
  | succ fuel ih =>
    intro k ss sz minCost sc h1 hk hsz hmc
    rw [Generated.findMinShortSize_loop1]
    cases k with
    | zero =>
      have : ¬ ss < 11 := by omega
      rw [ltS_small (by omega) (by omega)]
      simp only [this, decide_false, Bool.false_eq_true, if_false, Slim.findMinShortSize.go]
      refine ⟨?_, ?_⟩ <;> first | rfl | trivial | omega
    | succ k =>
      have hlt : ss < 11 := by omega
      have hinc := hr ss (by omega)
      rw [ltS_small (by omega) (by omega)]
      simp only [hlt, decide_true, if_true]
      rw [memIncr_pat sorted hok ss (by omega), add_small (show ss + 1 < 2 ^ 32 by omega),
        Slim.findMinShortSize.go]
      have hcmp : Go.ltS 32 (Go.ofS 32 (Slim.memIncr sorted ss)) (Go.ofS 32 minCost)
          = decide (Slim.memIncr sorted ss < minCost) := by
        unfold Go.ltS
        rw [toS_ofS (by omega) (by simpa using hinc.1) (by simpa using hinc.2),
          toS_ofS (by omega) (by simpa using hmc.1) (by simpa using hmc.2)]
      rw [hcmp]
      by_cases hc : Slim.memIncr sorted ss < minCost
      · simp only [hc, decide_true, if_true]
        exact ih k (ss + 1) ss _ _ (by omega) (by omega) (by omega) hinc
      · simp only [hc, decide_false, Bool.false_eq_true, if_false]
        exact ih k (ss + 1) sz _ _ (by omega) (by omega) (by omega) hmc

/-- **`findMinShortSize`** (first result: the short bitmap size) is `Slim.findMinShortSize`, for
    tables of non-negative int32 counts on which every candidate's memory delta fits an int32. -/
theorem findMinShortSize_sem (sorted : Array (List (Nat × Nat))) (hok : SortedOK sorted)
    (hr : ∀ ss, ss ≤ 10 → InI32 (Slim.memIncr sorted ss)) :
    (Generated.findMinShortSize (natSorted sorted)).1 = ((Slim.findMinShortSize sorted : Nat) : Int) := by
  have hmax : Slim.maxShortSize = 10 := rfl
  have hm := memIncr_pat sorted hok 0 (by omega)
  unfold Generated.findMinShortSize Slim.findMinShortSize
  rw [hmax]
  obtain ⟨h1, h2⟩ := findLoop_spec sorted hok hr 11 10 1 0 (Slim.memIncr sorted 0)
    (Generated.memIncrOfShortSize_pat (natSorted sorted) 0).2
    (by omega) (by omega) (by omega) (hr 0 (by omega))
  generalize Slim.findMinShortSize.go sorted 10 1 0 (Slim.memIncr sorted 0) = g at h1 ⊢
  generalize hf : (11 : Nat) = fuel at h1 h2 ⊢
  generalize Generated.memIncrOfShortSize_pat (natSorted sorted) 0 = m at hm h1 h2 ⊢
  obtain ⟨mc, sc⟩ := m
  have hm' : mc = Go.ofS 32 (Slim.memIncr sorted 0) := hm
  subst hm'
  have h1' : (Generated.findMinShortSize_loop1 (natSorted sorted) fuel
      (Go.ofS 32 (Slim.memIncr sorted 0), sc, 1, 0)).2.2.2 = g := h1
  have h2' : (Generated.findMinShortSize_loop1 (natSorted sorted) fuel
      (Go.ofS 32 (Slim.memIncr sorted 0), sc, 1, 0)).2.2.2 ≤ 10 := h2
  show (match Generated.findMinShortSize_loop1 (natSorted sorted) fuel
      (Go.ofS 32 (Slim.memIncr sorted 0), sc, 1, 0) with
    | (_, shortCnt, _, sz) => (Go.toS 32 sz, Go.toS 32 shortCnt)).1 = (g : Int)
  generalize Generated.findMinShortSize_loop1 (natSorted sorted) fuel
    (Go.ofS 32 (Slim.memIncr sorted 0), sc, 1, 0) = res at h1' h2' ⊢
  obtain ⟨a, b, c, d⟩ := res
  show Go.toS 32 d = (g : Int)
  have h1'' : d = g := h1'
  have h2'' : d ≤ 10 := h2'
  rw [toS_small (by omega), h1'']

end BridgeSem

#print axioms BridgeSem.encStep_sem
#print axioms BridgeSem.decStep_sem
#print axioms BridgeSem.decStep_encStep_iff
#print axioms BridgeSem.getLabelIdxOfKey_sem
#print axioms BridgeSem.getI8_sem
#print axioms BridgeSem.getI16_sem
#print axioms BridgeSem.getI32_sem
#print axioms BridgeSem.getI64_sem
#print axioms BridgeSem.getI16Index_sem
#print axioms BridgeSem.getI32Index_sem
#print axioms BridgeSem.getI64Index_sem
#print axioms BridgeSem.encSizes_sem
#print axioms BridgeSem.encSizes_model
#print axioms BridgeSem.normalizeOpt_sem
#print axioms BridgeSem.bigInnerOffset_sem
#print axioms BridgeSem.shortMinusInner_sem
#print axioms BridgeSem.innerFromBig_sem
#print axioms BridgeSem.innerFromSmall_sem
#print axioms BridgeSem.innerFrom_offset_sem
#print axioms BridgeSem.getLeafIndex_sem
#print axioms BridgeSem.newToKeep_sem
#print axioms BridgeSem.stepToPos_sem
#print axioms BridgeSem.memIncrOfShortSize_sem
#print axioms BridgeSem.findMinShortSize_sem
