import SlimProofs.Descent
import SlimProofs.BuildInv
/-
  SlimProps.C01 — "Indexed keys are always found with their own value (no false negatives)".

  Level L1 (the breadth-first record array produced by `build`, read through `Trie1.view`):
  for every successful `build keys vals opt = .ok t` and every *retained* key index `i`
  (`keptAt (keepMask keys.length vals opt.dedup) i = true`: all keys, except that with
  de-duplication on and values supplied a key whose encoded value equals its predecessor's is
  dropped), `GetID` returns an id (`some id`, i.e. not -1), and `Get` returns found = true with
  exactly the bytes supplied for that key — or the nil value when Go's `Leaves` array is nil
  (no values supplied, or every leaf value is the empty string; `newVLenArray` returns nil then).

  Layer 1 (`…_L1`, needs only `SlimProofs.Descent`): the well-formedness invariant `WF` of
  `SlimProofs.WF` is a hypothesis.  Layer 2 (end of file: `C01_get_retained`,
  `C01_get_retained_bytes`) discharges it with `build_wf` from `SlimProofs.BuildInv`; the only
  hypotheses left are `build keys vals opt = .ok t` and that key `i` is retained.
-/

/-- The encoded value `Get` must report for key `i` of a trie `t` built from `vals`:
    `none` (Go: a nil value, `Leaves == nil`) if no values were supplied or the encoded values
    of all leaves are empty, else the bytes supplied for key `i`. -/
def expectedValue (vals : Option (List Bytes)) (t : Trie1) (i : Nat) : Option Bytes :=
  match vals with
  | none => none
  | some vs =>
    if eltsTotal (t.leafKeyIdx.toList.map (fun j => vs.getD j [])) = 0 then none
    else some (vs.getD i [])

namespace C01

theorem eltsTotal_zero_mem (es : List Bytes) (h : eltsTotal es = 0) (b : Bytes) (hb : b ∈ es) :
    b = [] := by
  induction es with
  | nil => cases hb
  | cons x xs ih =>
    simp only [eltsTotal, List.map_cons, List.sum_cons] at h
    rcases List.mem_cons.mp hb with rfl | hb'
    · exact List.length_eq_zero_iff.mp (by omega)
    · exact ih (by simp only [eltsTotal]; omega) hb'

/-- `Get` on the leaf found by `GetID` reads the value of the leaf's key -/
theorem get_of_getID (keys : List Bytes) (vals : Option (List Bytes)) (opt : Opt) (t : Trie1)
    (hgo : build.go keys vals opt keys.length = .ok t) (key : Bytes) (id ith i : Nat)
    (lp : Option Bytes)
    (hget : getID t.view key = .ok (some id))
    (hnode : t.nodes[id]? = some (.leaf ith lp)) (hidx : t.leafKeyIdx[ith]? = some i) :
    get t.view key = .ok (some (expectedValue vals t i)) := by
  obtain ⟨_, helts⟩ := Descent.build_go_fields keys vals opt _ t hgo
  have hvn : t.view.node id = .ok (.leaf ith lp) := by
    simp [Trie1.view, hnode]
  simp only [_root_.get, hget, getLeaf, hvn, bind, Except.bind, pure, Except.pure]
  cases vals with
  | none =>
    simp only [Option.map_none] at helts
    simp [Trie1.view, helts, expectedValue]
  | some vs =>
    simp only [Option.map_some] at helts
    have hth : (t.leafKeyIdx.toList.map (fun j => vs.getD j []))[ith]? = some (vs.getD i []) := by
      rw [List.getElem?_map, Array.getElem?_toList, hidx]; rfl
    simp only [Trie1.view, helts, expectedValue, hth]
    by_cases h0 : eltsTotal (t.leafKeyIdx.toList.map (fun j => vs.getD j [])) = 0
    · simp only [h0, if_true]
    · simp only [h0, if_false]

end C01

/-- **C01 at L1, `WF` as hypothesis**: every retained key is found, with its own value. -/
theorem C01_get_retained_L1 (keys : List Bytes) (vals : Option (List Bytes)) (opt : Opt)
    (t : Trie1) (hb : build keys vals opt = .ok t)
    (hwf : WF keys (keepMask keys.length vals opt.dedup) t)
    (i : Nat) (hi : i < keys.length)
    (hk : keptAt (keepMask keys.length vals opt.dedup) i = true) :
    (∃ id, getID t.view (keys.getD i []) = .ok (some id)) ∧
    get t.view (keys.getD i []) = .ok (some (expectedValue vals t i)) := by
  have hne : keys ≠ [] := by intro h; rw [h] at hi; exact Nat.not_lt_zero _ hi
  obtain ⟨hasc, hgo⟩ := Descent.build_ok_inv keys vals opt t hb hne
  obtain ⟨id, ith, lp, hget, hnode, hidx⟩ := getID_kept keys _ t hasc hwf i hi hk
  exact ⟨⟨id, hget⟩, C01.get_of_getID keys vals opt t hgo _ id ith i lp hget hnode hidx⟩

/-- **C01 at L1, the value as bytes**: with values supplied, `Get` on a retained key is a hit
    and its bytes — the nil value of a trie whose leaf values are all empty read as the empty
    string — are exactly the bytes supplied for that key; without values it is a hit with the
    nil value. -/
theorem C01_get_retained_bytes_L1 (keys : List Bytes) (vals : Option (List Bytes)) (opt : Opt)
    (t : Trie1) (hb : build keys vals opt = .ok t)
    (hwf : WF keys (keepMask keys.length vals opt.dedup) t)
    (i : Nat) (hi : i < keys.length)
    (hk : keptAt (keepMask keys.length vals opt.dedup) i = true) :
    ∃ r, get t.view (keys.getD i []) = .ok (some r) ∧
      (vals = none → r = none) ∧ (∀ vs, vals = some vs → r.getD [] = vs.getD i []) := by
  have hne : keys ≠ [] := by intro h; rw [h] at hi; exact Nat.not_lt_zero _ hi
  obtain ⟨hasc, hgo⟩ := Descent.build_ok_inv keys vals opt t hb hne
  obtain ⟨id, ith, lp, hget, hnode, hidx⟩ := getID_kept keys _ t hasc hwf i hi hk
  refine ⟨_, C01.get_of_getID keys vals opt t hgo _ id ith i lp hget hnode hidx, ?_, ?_⟩
  · intro h; subst h; rfl
  · intro vs h; subst h
    simp only [expectedValue]
    split
    · rename_i h0
      have hmem : vs.getD i [] ∈ t.leafKeyIdx.toList.map (fun j => vs.getD j []) := by
        apply List.mem_map.mpr
        refine ⟨i, ?_, rfl⟩
        obtain ⟨hlt, he⟩ := Array.getElem?_eq_some_iff.mp hidx
        rw [← he]; simp
      rw [C01.eltsTotal_zero_mem _ h0 _ hmem]; rfl
    · rfl

/-! ### non-vacuity: a concrete input satisfying the hypotheses

  Five keys: `a` is a proper prefix of `ab` and of `a\x80\x01`; bytes ≥ 0x80 occur (`0x80`,
  `0xff`, `0xf0`); the values of keys 0 and 1 are equal, so with de-duplication key 1 is dropped.
  All checks are kernel evaluations of the executable model (`decide +kernel`, no axioms beyond
  `propext`; no `native_decide`). -/
namespace C01.Ex

def keys : List Bytes := [[0x61], [0x61, 0x62], [0x61, 0x80, 0x01], [0x62, 0xff], [0xf0]]
def vals : List Bytes := [[1], [1], [2], [2, 0], [3]]
def optDefault : Opt := {}
def optComplete : Opt := { dedup := true, inner := true, leaf := true }
def optLeafOnly : Opt := { dedup := false, inner := false, leaf := true }

def isOk {α : Type} : Except Err α → Bool
  | .ok _ => true
  | .error _ => false

theorem exists_of_isOk {α : Type} (e : Except Err α) (h : isOk e = true) : ∃ t, e = .ok t := by
  cases e with
  | ok t => exact ⟨t, rfl⟩
  | error _ => cases h

/-- `Get` on key `i` of the trie built with `opt` reports a hit with value bytes `v` -/
def getsValue (opt : Opt) (vs : Option (List Bytes)) (i : Nat) (v : Option Bytes) : Bool :=
  match build keys vs opt with
  | .error _ => false
  | .ok t =>
    match get t.view (keys.getD i []) with
    | .ok (some r) => r == v
    | _ => false

-- the hypotheses of `C01_get_retained_L1` are satisfiable: `build` succeeds …
example : ∃ t, build keys (some vals) optDefault = .ok t := exists_of_isOk _ (by decide +kernel)
example : ∃ t, build keys (some vals) optComplete = .ok t := exists_of_isOk _ (by decide +kernel)
example : ∃ t, build keys (some vals) optLeafOnly = .ok t := exists_of_isOk _ (by decide +kernel)
example : ∃ t, build keys none optDefault = .ok t := exists_of_isOk _ (by decide +kernel)
-- … the keys are strictly ascending, key 1 is dropped by de-duplication and the others are kept
example : strictAsc keys = true := by decide +kernel
example : (List.range 5).map (keptAt (keepMask keys.length (some vals) optDefault.dedup))
    = [true, false, true, true, true] := by decide +kernel
example : (List.range 5).map (keptAt (keepMask keys.length (some vals) optLeafOnly.dedup))
    = [true, true, true, true, true] := by decide +kernel
-- … and the conclusion is what the executable model computes on this input
example : getsValue optDefault (some vals) 0 (some [1]) = true := by decide +kernel
example : getsValue optDefault (some vals) 2 (some [2]) = true := by decide +kernel
example : getsValue optComplete (some vals) 3 (some [2, 0]) = true := by decide +kernel
example : getsValue optLeafOnly (some vals) 1 (some [1]) = true := by decide +kernel
example : getsValue optComplete (some vals) 4 (some [3]) = true := by decide +kernel
example : getsValue optComplete none 4 none = true := by decide +kernel
-- all values empty: Go's `Leaves` is nil, `Get` is a hit with the nil value
example : getsValue optDefault (some [[], [], [], [], []]) 0 none = true := by decide +kernel

end C01.Ex

/-! ### Layer 2: `WF` discharged by `build_wf` — the property theorems -/

/-- **C01**: for every successful `build` (any keys, any values or none, any options) and every
    retained key, `GetID` returns an id (not -1) and `Get` returns found = true with the value
    supplied for that key (`expectedValue`). -/
theorem C01_get_retained (keys : List Bytes) (vals : Option (List Bytes)) (opt : Opt)
    (t : Trie1) (hb : build keys vals opt = .ok t)
    (i : Nat) (hi : i < keys.length)
    (hk : keptAt (keepMask keys.length vals opt.dedup) i = true) :
    (∃ id, getID t.view (keys.getD i []) = .ok (some id)) ∧
    get t.view (keys.getD i []) = .ok (some (expectedValue vals t i)) := by
  have hne : keys ≠ [] := by intro h; rw [h] at hi; exact Nat.not_lt_zero _ hi
  exact C01_get_retained_L1 keys vals opt t hb (build_wf keys vals opt t hb hne).1 i hi hk

/-- **C01, the value as bytes** (nil read as the empty string). -/
theorem C01_get_retained_bytes (keys : List Bytes) (vals : Option (List Bytes)) (opt : Opt)
    (t : Trie1) (hb : build keys vals opt = .ok t)
    (i : Nat) (hi : i < keys.length)
    (hk : keptAt (keepMask keys.length vals opt.dedup) i = true) :
    ∃ r, get t.view (keys.getD i []) = .ok (some r) ∧
      (vals = none → r = none) ∧ (∀ vs, vals = some vs → r.getD [] = vs.getD i []) := by
  have hne : keys ≠ [] := by intro h; rw [h] at hi; exact Nat.not_lt_zero _ hi
  exact C01_get_retained_bytes_L1 keys vals opt t hb (build_wf keys vals opt t hb hne).1 i hi hk

/-- the theorem instantiated on the concrete input of `C01.Ex` (key 3 = `b\xff`, complete
    options): hypotheses discharged by evaluation -/
example : ∃ t, build C01.Ex.keys (some C01.Ex.vals) C01.Ex.optComplete = .ok t ∧
    ∃ r, get t.view [0x62, 0xff] = .ok (some r) ∧ r.getD [] = [2, 0] := by
  obtain ⟨t, ht⟩ := C01.Ex.exists_of_isOk
    (build C01.Ex.keys (some C01.Ex.vals) C01.Ex.optComplete) (by decide +kernel)
  obtain ⟨r, hr, _, hv⟩ := C01_get_retained_bytes _ _ _ t ht 3 (by decide) (by decide +kernel)
  exact ⟨t, ht, r, hr, hv _ rfl⟩

#print axioms getID_kept
#print axioms C01_get_retained_L1
#print axioms C01_get_retained_bytes_L1
#print axioms C01_get_retained
#print axioms C01_get_retained_bytes
