// Package enc is the line-protocol family "enc" (property C15): it runs the real
// encoders of github.com/openacid/slim/encode and generates the C15 cases.
//
// Encoder spec <spec>:
//
//	i8 i16 i32 i64 u16 u32 u64 int str16 dummy bytes:<n>
//	te:<le|be>:<type>   *encode.TypeEncoder; <type> is a comma separated prefix term
//	                    u8 u16 u32 u64 i8 i16 i32 i64 | a<n>,<type> | s<k>,<type>×k
//
// Value <value>: decimal for the integer encoders, x<hex> for str16 and bytes:<n>,
// "nil" for dummy, for te the leaf integers in field order, comma separated ("-" = none).
//
// Ops:
//
//	enc.rt <spec> <value> <tail-hex>
//	   -> <hex Encode(v)> <consumed> <decoded> <GetSize(v)> <GetEncodedSize(enc++tail)>
//	      (a panic of Decode / GetSize / GetEncodedSize shows as "panic" in its position(s),
//	       a panic of Encode answers "panic")
//	enc.dec <spec> <buf-hex>
//	   -> <consumed>:<decoded>|panic <GetEncodedSize(buf)>|panic
//
// All buffers handed to the implementation have cap == len (Go bounds-checks
// b[:size] against the capacity; the model has no notion of capacity).
package enc

import (
	"bytes"
	"encoding/binary"
	"encoding/hex"
	"fmt"
	"math"
	"reflect"
	"strconv"
	"strings"
	"sync"

	"github.com/openacid/slim/encode"

	"slimverif/harness/lp"
)

func init() {
	lp.Register("enc", Interp)
	lp.RegisterGen("C15", GenC15)
}

// Spec is a parsed encoder spec: the real encoder plus value transport.
type Spec struct {
	Name  string
	Enc   encode.Encoder
	Type  reflect.Type // Go type of the values
	Parse func(s string) (interface{}, error)
	Show  func(v interface{}) string
	Err   string // set when the lookup API of package encode refused: the canonical answer
}

// defined integer types: reflect.StructOf/ArrayOf cannot create them, and a
// decoder that switches on Kind() loses them (Decode(Encode(v)) != v).
type namedU8 uint8
type namedI16 int16
type namedU32 uint32
type namedI64 int64

// Two DIFFERENT types with the same name and the same String() ("enc.rec"), of different sizes: anything that
// identifies a type by its printed name (a cache, a registry) confuses them.
func localRecA() reflect.Type {
	type rec struct{ A, B uint32 }
	return reflect.TypeOf(rec{})
}

func localRecB() reflect.Type {
	type rec struct {
		A uint16
		B [2][2]uint8
	}
	return reflect.TypeOf(rec{})
}

// blankRec has a RESERVED (blank) field in the middle: encoding/binary writes zeros for it and skips it on read;
// a hand-rolled codec must step over its bytes too.  Its leaves travel as zeros.
type blankRec struct {
	K   uint8
	_   [3]uint8
	Off uint32
	S   int16
	_   uint16
	T   [2]int8
}

var primTypes = map[string]reflect.Type{
	"blank": reflect.TypeOf(blankRec{}),
	"recA":  localRecA(), "recB": localRecB(),
	"nu8": reflect.TypeOf(namedU8(0)), "ni16": reflect.TypeOf(namedI16(0)),
	"nu32": reflect.TypeOf(namedU32(0)), "ni64": reflect.TypeOf(namedI64(0)),
	"u8": reflect.TypeOf(uint8(0)), "u16": reflect.TypeOf(uint16(0)),
	"u32": reflect.TypeOf(uint32(0)), "u64": reflect.TypeOf(uint64(0)),
	"i8": reflect.TypeOf(int8(0)), "i16": reflect.TypeOf(int16(0)),
	"i32": reflect.TypeOf(int32(0)), "i64": reflect.TypeOf(int64(0)),
	// floats travel as their IEEE bit patterns (decimal): nothing compares or prints a float
	"f32": reflect.TypeOf(float32(0)), "f64": reflect.TypeOf(float64(0)),
}

func parseTy(toks []string) (reflect.Type, []string, error) {
	if len(toks) == 0 {
		return nil, nil, fmt.Errorf("type: out of tokens")
	}
	tok, rest := toks[0], toks[1:]
	if t, ok := primTypes[tok]; ok {
		return t, rest, nil
	}
	if strings.HasPrefix(tok, "a") {
		n, err := strconv.Atoi(tok[1:])
		if err != nil || n < 0 {
			return nil, nil, fmt.Errorf("type: bad array %q", tok)
		}
		t, rest, err := parseTy(rest)
		if err != nil {
			return nil, nil, err
		}
		return reflect.ArrayOf(n, t), rest, nil
	}
	if strings.HasPrefix(tok, "s") {
		k, err := strconv.Atoi(tok[1:])
		if err != nil || k < 0 {
			return nil, nil, fmt.Errorf("type: bad struct %q", tok)
		}
		fs := make([]reflect.StructField, k)
		for i := 0; i < k; i++ {
			var t reflect.Type
			t, rest, err = parseTy(rest)
			if err != nil {
				return nil, nil, err
			}
			fs[i] = reflect.StructField{Name: fmt.Sprintf("F%d", i), Type: t}
		}
		return reflect.StructOf(fs), rest, nil
	}
	return nil, nil, fmt.Errorf("type: bad token %q", tok)
}

// ParseType parses a prefix type term into a Go type built with reflect.
func ParseType(s string) (reflect.Type, error) {
	t, rest, err := parseTy(strings.Split(s, ","))
	if err != nil {
		return nil, err
	}
	if len(rest) != 0 {
		return nil, fmt.Errorf("type: trailing tokens")
	}
	return t, nil
}

// fill sets the leaves of v (addressable) from the flat decimal list.
func fill(v reflect.Value, leaves []string) ([]string, error) {
	switch v.Kind() {
	case reflect.Uint8, reflect.Uint16, reflect.Uint32, reflect.Uint64:
		if len(leaves) == 0 {
			return nil, fmt.Errorf("value: out of leaves")
		}
		u, err := strconv.ParseUint(leaves[0], 10, v.Type().Bits())
		if err != nil {
			return nil, err
		}
		v.SetUint(u)
		return leaves[1:], nil
	case reflect.Int8, reflect.Int16, reflect.Int32, reflect.Int64:
		if len(leaves) == 0 {
			return nil, fmt.Errorf("value: out of leaves")
		}
		i, err := strconv.ParseInt(leaves[0], 10, v.Type().Bits())
		if err != nil {
			return nil, err
		}
		v.SetInt(i)
		return leaves[1:], nil
	case reflect.Float32, reflect.Float64:
		if len(leaves) == 0 {
			return nil, fmt.Errorf("value: out of leaves")
		}
		u, err := strconv.ParseUint(leaves[0], 10, v.Type().Bits())
		if err != nil {
			return nil, err
		}
		if v.Kind() == reflect.Float32 {
			v.SetFloat(float64(math.Float32frombits(uint32(u))))
		} else {
			v.SetFloat(math.Float64frombits(u))
		}
		return leaves[1:], nil
	case reflect.Array:
		var err error
		for i := 0; i < v.Len(); i++ {
			leaves, err = fill(v.Index(i), leaves)
			if err != nil {
				return nil, err
			}
		}
		return leaves, nil
	case reflect.Struct:
		var err error
		for i := 0; i < v.NumField(); i++ {
			if v.Type().Field(i).Name == "_" {
				// a blank field cannot be set; its leaves must be zero
				n := len(flatten(v.Field(i), nil))
				for k := 0; k < n; k++ {
					if len(leaves) == 0 || leaves[0] != "0" {
						return nil, fmt.Errorf("value: a blank field carries zeros only")
					}
					leaves = leaves[1:]
				}
				continue
			}
			leaves, err = fill(v.Field(i), leaves)
			if err != nil {
				return nil, err
			}
		}
		return leaves, nil
	}
	return nil, fmt.Errorf("value: unsupported kind %v", v.Kind())
}

func flatten(v reflect.Value, out []string) []string {
	switch v.Kind() {
	case reflect.Uint8, reflect.Uint16, reflect.Uint32, reflect.Uint64:
		return append(out, strconv.FormatUint(v.Uint(), 10))
	case reflect.Int8, reflect.Int16, reflect.Int32, reflect.Int64:
		return append(out, strconv.FormatInt(v.Int(), 10))
	case reflect.Float32:
		return append(out, strconv.FormatUint(uint64(math.Float32bits(float32(v.Float()))), 10))
	case reflect.Float64:
		return append(out, strconv.FormatUint(math.Float64bits(v.Float()), 10))
	case reflect.Array:
		for i := 0; i < v.Len(); i++ {
			out = flatten(v.Index(i), out)
		}
	case reflect.Struct:
		for i := 0; i < v.NumField(); i++ {
			out = flatten(v.Field(i), out)
		}
	default:
		out = append(out, "?"+v.Kind().String())
	}
	return out
}

// ParseTyped parses "<leaf>,<leaf>,…" ("-" or "_" = none) into a value of type t.
func ParseTyped(t reflect.Type, s string) (interface{}, error) {
	var leaves []string
	if s != "-" && s != "_" {
		leaves = strings.Split(s, ",")
	}
	v := reflect.New(t).Elem()
	rest, err := fill(v, leaves)
	if err != nil {
		return nil, err
	}
	if len(rest) != 0 {
		return nil, fmt.Errorf("value: trailing leaves")
	}
	return v.Interface(), nil
}

// ShowTyped renders a fixed-size value as its flat leaf list.
func ShowTyped(v interface{}) string {
	if v == nil {
		return "nil"
	}
	l := flatten(reflect.ValueOf(v), nil)
	if len(l) == 0 {
		return "-"
	}
	return strings.Join(l, ",")
}

func parseX(s string) ([]byte, error) {
	if !strings.HasPrefix(s, "x") {
		return nil, fmt.Errorf("hex: no x prefix")
	}
	b, err := hex.DecodeString(s[1:])
	if err != nil {
		return nil, err
	}
	// cap == len
	return b[:len(b):len(b)], nil
}

func intSpec(name string, e encode.Encoder, zero interface{}) *Spec {
	t := reflect.TypeOf(zero)
	return &Spec{Name: name, Enc: e, Type: t,
		Parse: func(s string) (interface{}, error) { return ParseTyped(t, s) },
		Show:  ShowTyped,
	}
}

// kindSamples: a value of every kind the lookup API can be asked about (nil = reflect.Invalid).
var kindSamples = map[string]interface{}{
	"invalid": nil, "bool": true, "int": int(1), "i8": int8(1), "i16": int16(1), "i32": int32(1), "i64": int64(1),
	"uint": uint(1), "u8": uint8(1), "u16": uint16(1), "u32": uint32(1), "u64": uint64(1),
	"f32": float32(1), "f64": float64(1), "string": "a", "struct": struct{ A int32 }{1}, "ptr": new(int32),
}

// KindNames in a fixed order (generators draw from it).
var KindNames = []string{"invalid", "bool", "int", "i8", "i16", "i32", "i64", "uint", "u8", "u16", "u32", "u64",
	"f32", "f64", "string", "struct", "ptr"}

func sampleOfKind(k string) (interface{}, bool) {
	if strings.HasPrefix(k, "slice.") {
		e, ok := sampleOfKind(k[len("slice."):])
		if !ok {
			return nil, false
		}
		if e == nil { // a slice of interfaces: element kind Interface, which no spec names; use []interface{}
			return []interface{}{}, true
		}
		return reflect.MakeSlice(reflect.SliceOf(reflect.TypeOf(e)), 0, 0).Interface(), true
	}
	v, ok := kindSamples[k]
	return v, ok
}

// lookupSpec obtains the encoder through the lookup API of package encode:
// kind:<k> = EncoderByKind(kind of <k>), of:<k> = EncoderOf(a value of kind <k>),
// sliceof:<k> = GetSliceEltEncoder(a value of kind <k>).  Values travel as for the plain integer specs;
// the Go type of the values is the type of kind <k> (the element type for sliceof).
func lookupSpec(how, k string) (*Spec, error) {
	if strings.HasPrefix(k, "slice.invalid") || k == "slice." {
		return nil, fmt.Errorf("bad kind %q", k)
	}
	sample, ok := sampleOfKind(k)
	if !ok {
		return nil, fmt.Errorf("bad kind %q", k)
	}
	var e encode.Encoder
	var err error
	valKind := k
	switch how {
	case "kind":
		e, err = encode.EncoderByKind(reflect.ValueOf(sample).Kind())
	case "of":
		e, err = encode.EncoderOf(sample)
	case "sliceof":
		e, err = encode.GetSliceEltEncoder(sample)
		valKind = strings.TrimPrefix(k, "slice.")
	}
	sp := &Spec{Name: how + ":" + k}
	switch {
	case err == encode.ErrUnknownEltType:
		sp.Err = "err:unknown-elt-type"
	case err == encode.ErrNotSlice:
		sp.Err = "err:not-slice"
	case err != nil:
		sp.Err = "err:other"
	case e == nil:
		sp.Err = "err:nil-encoder"
	}
	if sp.Err != "" {
		return sp, nil
	}
	vs, ok := kindSamples[valKind]
	if !ok || vs == nil {
		return nil, fmt.Errorf("no value type for kind %q", valKind)
	}
	t := reflect.TypeOf(vs)
	sp.Enc, sp.Type = e, t
	sp.Parse = func(s string) (interface{}, error) { return ParseTyped(t, s) }
	sp.Show = ShowTyped
	return sp, nil
}

// ParseSpec builds the real encoder named by the spec.
func ParseSpec(s string) (*Spec, error) {
	if i := strings.IndexByte(s, ':'); i > 0 {
		switch s[:i] {
		case "kind", "of", "sliceof":
			return lookupSpec(s[:i], s[i+1:])
		}
	}
	switch s {
	case "i8":
		return intSpec(s, encode.I8{}, int8(0)), nil
	case "i16":
		return intSpec(s, encode.I16{}, int16(0)), nil
	case "i32":
		return intSpec(s, encode.I32{}, int32(0)), nil
	case "i64":
		return intSpec(s, encode.I64{}, int64(0)), nil
	case "u16":
		return intSpec(s, encode.U16{}, uint16(0)), nil
	case "u32":
		return intSpec(s, encode.U32{}, uint32(0)), nil
	case "u64":
		return intSpec(s, encode.U64{}, uint64(0)), nil
	case "int":
		return &Spec{Name: s, Enc: encode.Int{}, Type: reflect.TypeOf(int(0)),
			Parse: func(s string) (interface{}, error) {
				i, err := strconv.ParseInt(s, 10, 64)
				return int(i), err
			},
			Show: func(v interface{}) string { return strconv.Itoa(v.(int)) },
		}, nil
	case "str16":
		return &Spec{Name: s, Enc: encode.String16{}, Type: reflect.TypeOf(""),
			Parse: func(s string) (interface{}, error) {
				b, err := parseX(s)
				return string(b), err
			},
			Show: func(v interface{}) string { return lp.XS(v.(string)) },
		}, nil
	case "dummy":
		var e interface{}
		return &Spec{Name: s, Enc: encode.Dummy{}, Type: reflect.TypeOf(&e).Elem(),
			Parse: func(s string) (interface{}, error) {
				if s != "nil" {
					return nil, fmt.Errorf("dummy: value must be nil")
				}
				return nil, nil
			},
			Show: func(v interface{}) string {
				if v == nil {
					return "nil"
				}
				return "?"
			},
		}, nil
	}
	parts := strings.Split(s, ":")
	if len(parts) == 2 && parts[0] == "bytes" {
		n, err := strconv.Atoi(parts[1])
		if err != nil || n < 0 {
			return nil, fmt.Errorf("bytes: bad size")
		}
		return &Spec{Name: s, Enc: encode.Bytes{Size: n}, Type: reflect.TypeOf([]byte(nil)),
			Parse: func(s string) (interface{}, error) { return parseX(s) },
			Show:  func(v interface{}) string { return lp.X(v.([]byte)) },
		}, nil
	}
	if len(parts) == 3 && parts[0] == "te" {
		var bo binary.ByteOrder
		switch parts[1] {
		case "le":
			bo = binary.LittleEndian
		case "be":
			bo = binary.BigEndian
		default:
			return nil, fmt.Errorf("te: bad byte order")
		}
		t, err := ParseType(parts[2])
		if err != nil {
			return nil, err
		}
		// History: an encoder is a value a program builds once and keeps.  Every odd-numbered use of
		// a spec goes to the instance built at its first use (kept alive since then, while encoders
		// for other specs were built and used); every even-numbered use builds a fresh one.
		teUses[s]++
		if sp, ok := teHeld[s]; ok && teUses[s]%2 == 1 {
			return sp, nil
		}
		te, err := encode.NewTypeEncoderEndianByType(t, bo)
		if err != nil {
			return nil, err
		}
		sp := &Spec{Name: s, Enc: te, Type: t,
			Parse: func(s string) (interface{}, error) { return ParseTyped(t, s) },
			Show:  ShowTyped,
		}
		if _, ok := teHeld[s]; !ok && len(teHeld) < 50000 {
			teHeld[s] = sp
		}
		return sp, nil
	}
	return nil, fmt.Errorf("bad spec %q", s)
}

var (
	teHeld = map[string]*Spec{}
	teUses = map[string]int{}
)

func try(f func() string) string { return lp.Catch(f) }

// Interp executes one "enc.*" line against the real encoders.
func Interp(toks []string) string {
	switch toks[0] {
	case "enc.rt":
		if len(toks) != 4 {
			return "bad-op"
		}
		sp, err := ParseSpec(toks[1])
		if err != nil {
			return "bad-op"
		}
		if sp.Err != "" {
			return sp.Err
		}
		v, err := sp.Parse(toks[2])
		if err != nil {
			return "bad-op"
		}
		tail, err := parseX(toks[3])
		if err != nil {
			return "bad-op"
		}
		var encd []byte
		if try(func() string { encd = sp.Enc.Encode(v); return "" }) == "panic" {
			return "panic"
		}
		buf := make([]byte, 0, len(encd)+len(tail))
		buf = append(append(buf, encd...), tail...)
		buf = buf[:len(buf):len(buf)]
		// A caller that builds a record appends to what Encode returned.  If that slice is a window of memory the
		// encoder keeps (a table, a pool), the append lands there: later encodings show it.
		if len(tail) > 0 {
			spill := append(encd, tail...)
			_ = spill
			if len(encd) > 0 && !bytes.Equal(encd, buf[:len(encd)]) {
				return "ENCODING-CHANGED-BY-APPEND"
			}
		}
		d := try(func() string {
			n, dv := sp.Enc.Decode(buf)
			out := fmt.Sprintf("%d %s", n, sp.Show(dv))
			if dv != nil && sp.Type != nil && reflect.TypeOf(dv) != sp.Type && reflect.TypeOf(dv).Kind() != reflect.Slice {
				// Decode must give back a value of the encoder's type
				out += "!type=" + reflect.TypeOf(dv).String()
			}
			return out
		})
		if d == "panic" {
			d = "panic panic"
		}
		gs := try(func() string { return strconv.Itoa(sp.Enc.GetSize(v)) })
		ges := try(func() string { return strconv.Itoa(sp.Enc.GetEncodedSize(buf)) })
		return fmt.Sprintf("%s %s %s %s", lp.X(encd), d, gs, ges)
	case "enc.dec":
		if len(toks) != 3 {
			return "bad-op"
		}
		sp, err := ParseSpec(toks[1])
		if err != nil || sp.Err != "" {
			return "bad-op"
		}
		buf, err := parseX(toks[2])
		if err != nil {
			return "bad-op"
		}
		d := try(func() string {
			n, dv := sp.Enc.Decode(buf)
			return fmt.Sprintf("%d:%s", n, sp.Show(dv))
		})
		ges := try(func() string { return strconv.Itoa(sp.Enc.GetEncodedSize(buf)) })
		return d + " " + ges
	}
	return "bad-op"
}

// ---------------------------------------------------------------------------
// independent oracle: the layouts the property text fixes, computed by hand
// (shifts, no encoding/binary).

func leBytesOf(u uint64, w int) []byte {
	b := make([]byte, w)
	for i := 0; i < w; i++ {
		b[i] = byte(u >> (8 * uint(i)))
	}
	return b
}

func beBytesOf(u uint64, w int) []byte {
	b := make([]byte, w)
	for i := 0; i < w; i++ {
		b[w-1-i] = byte(u >> (8 * uint(i)))
	}
	return b
}

// OracleTyped lays a fixed-size value out field by field in the given order.
func OracleTyped(v reflect.Value, big bool, out []byte) []byte {
	put := func(u uint64, w int) {
		if big {
			out = append(out, beBytesOf(u, w)...)
		} else {
			out = append(out, leBytesOf(u, w)...)
		}
	}
	switch v.Kind() {
	case reflect.Uint8, reflect.Uint16, reflect.Uint32, reflect.Uint64:
		put(v.Uint(), v.Type().Bits()/8)
	case reflect.Int8, reflect.Int16, reflect.Int32, reflect.Int64:
		put(uint64(v.Int()), v.Type().Bits()/8) // two's complement, truncated by put
	case reflect.Float32:
		put(uint64(math.Float32bits(float32(v.Float()))), 4)
	case reflect.Float64:
		put(math.Float64bits(v.Float()), 8)
	case reflect.Array:
		for i := 0; i < v.Len(); i++ {
			out = OracleTyped(v.Index(i), big, out)
		}
	case reflect.Struct:
		for i := 0; i < v.NumField(); i++ {
			out = OracleTyped(v.Field(i), big, out)
		}
	}
	return out
}

// ---------------------------------------------------------------------------
// generator

type gen struct {
	c *lp.Ctx
}

// rt emits one enc.rt line and evaluates the C15 predicate against the oracle encoding.
func (g *gen) rt(class, spec, val string, tail []byte, want []byte, inDomain bool) {
	c := g.c
	line := fmt.Sprintf("enc.rt %s %s %s", spec, val, lp.X(tail))
	ans := c.Do(line)
	c.Hit(class)
	c.Case(spec+" "+val, inDomain && len(want) > 0)
	if !inDomain {
		return
	}
	n := strconv.Itoa(len(want))
	exp := fmt.Sprintf("%s %s %s %s %s", lp.X(want), n, val, n, n)
	if ans != exp {
		if len(line) > 300 {
			line = line[:300] + "..."
		}
		c.Violate(lp.Violation{What: "C15 round trip / size agreement / layout (" + class + ")",
			Script: []string{line}, Expected: clip(exp), Got: clip(ans)})
	}
}

func clip(s string) string {
	if len(s) > 300 {
		return s[:300] + "..."
	}
	return s
}

func (g *gen) tail() []byte {
	r := g.c.Rng
	switch r.Intn(4) {
	case 0:
		return nil
	case 1:
		return []byte{byte(r.Intn(256))}
	}
	b := make([]byte, 1+r.Intn(12))
	r.Read(b)
	return b
}

type intEnc struct {
	spec   string
	w      int
	signed bool
}

func (g *gen) intCase(e intEnc, bits uint64) {
	// bits: the two's complement pattern, truncated to the width
	w := e.w
	if w < 8 {
		bits &= (uint64(1) << (8 * uint(w))) - 1
	}
	var val string
	if e.signed {
		shift := uint(64 - 8*w)
		val = strconv.FormatInt(int64(bits<<shift)>>shift, 10)
	} else {
		val = strconv.FormatUint(bits, 10)
	}
	g.rt(e.spec, e.spec, val, g.tail(), leBytesOf(bits, w), true)
}

func boundaries(w int) []uint64 {
	var out []uint64
	top := uint(8 * w)
	add := func(x uint64) { out = append(out, x, x+1, x-1) }
	add(0)
	for b := uint(1); b < top; b++ {
		add(uint64(1) << b)
	}
	add(math.MaxUint64)
	for i := 0; i < w; i++ { // single byte patterns: endianness
		out = append(out, uint64(0xa5)<<(8*uint(i)), uint64(0x01)<<(8*uint(i)), uint64(0x80)<<(8*uint(i)))
	}
	out = append(out, 0x0102030405060708, 0x8877665544332211, 0x1234, 0xfffe)
	return out
}

var typeLeaves = []string{"u8", "u16", "u32", "u64", "i8", "i16", "i32", "i64", "nu8", "ni16", "nu32", "ni64", "f32", "f64", "recA", "recB", "blank"}

// RandType returns a random fixed-size type term of bounded depth and its number of leaves.
func RandType(r interface{ Intn(int) int }, depth int) (string, int) {
	k := r.Intn(10)
	if depth <= 0 || k < 4 {
		return typeLeaves[r.Intn(len(typeLeaves))], 1
	}
	if k < 7 {
		n := r.Intn(5)
		if r.Intn(6) == 0 {
			n = 0
		}
		t, l := RandType(r, depth-1)
		return fmt.Sprintf("a%d,%s", n, t), n * l
	}
	nf := r.Intn(5)
	parts := []string{fmt.Sprintf("s%d", nf)}
	total := 0
	for i := 0; i < nf; i++ {
		t, l := RandType(r, depth-1)
		parts = append(parts, t)
		total += l
	}
	return strings.Join(parts, ","), total
}

// RandLeaves fills a value of type t with boundary-biased random integers and returns the flat text.
func RandLeaves(r interface {
	Intn(int) int
	Uint64() uint64
}, t reflect.Type) string {
	v := reflect.New(t).Elem()
	var walk func(v reflect.Value)
	pick := func(bits int) uint64 {
		switch r.Intn(8) {
		case 0:
			return 0
		case 1:
			return math.MaxUint64
		case 2:
			return uint64(1) << uint(bits-1) // min of the signed kind
		case 3:
			return uint64(1)<<uint(bits-1) - 1
		}
		return r.Uint64()
	}
	walk = func(v reflect.Value) {
		switch v.Kind() {
		case reflect.Uint8, reflect.Uint16, reflect.Uint32, reflect.Uint64:
			b := v.Type().Bits()
			u := pick(b)
			if b < 64 {
				u &= uint64(1)<<uint(b) - 1
			}
			v.SetUint(u)
		case reflect.Int8, reflect.Int16, reflect.Int32, reflect.Int64:
			b := v.Type().Bits()
			sh := uint(64 - b)
			v.SetInt(int64(pick(b)<<sh) >> sh)
		case reflect.Float32, reflect.Float64:
			// any bit pattern but NaNs (a NaN payload may change in float32 <-> float64 conversions):
			// +0, -0 (= the pattern "min of the signed kind"), denormals, infinities, finite values
			b := v.Type().Bits()
			u := pick(b)
			if b == 32 {
				u &= 1<<32 - 1
				if u&0x7f800000 == 0x7f800000 && u&0x007fffff != 0 {
					u &^= 0x00800000
				}
				v.SetFloat(float64(math.Float32frombits(uint32(u))))
			} else {
				if u&(0x7ff<<52) == 0x7ff<<52 && u&(1<<52-1) != 0 {
					u &^= 1 << 52
				}
				v.SetFloat(math.Float64frombits(u))
			}
		case reflect.Array:
			for i := 0; i < v.Len(); i++ {
				walk(v.Index(i))
			}
		case reflect.Struct:
			for i := 0; i < v.NumField(); i++ {
				if v.Type().Field(i).Name == "_" {
					continue // blank: stays zero
				}
				walk(v.Field(i))
			}
		}
	}
	walk(v)
	return ShowTyped(v.Interface())
}

// exhaustive32 checks every 32-bit value directly on the implementation (no script lines).
func (g *gen) exhaustive32() {
	c := g.c
	const workers = 8
	var wg sync.WaitGroup
	var mu sync.Mutex
	bad := 0
	report := func(what string, u uint32) {
		mu.Lock()
		defer mu.Unlock()
		bad++
		if bad <= 5 {
			c.Violate(lp.Violation{What: "C15 exhaustive 32-bit: " + what, Script: []string{fmt.Sprintf("value bits %#x", u)},
				Expected: "LE layout, round trip, sizes 4", Got: "mismatch"})
		}
	}
	for wk := 0; wk < workers; wk++ {
		wg.Add(1)
		go func(wk int) {
			defer wg.Done()
			var eu encode.U32
			var ei encode.I32
			lo := uint64(wk) * (1 << 32) / workers
			hi := uint64(wk+1) * (1 << 32) / workers
			tail := []byte{0xee, 0xdd}
			buf := make([]byte, 6)
			for x := lo; x < hi; x++ {
				u := uint32(x)
				b := eu.Encode(u)
				if len(b) != 4 || b[0] != byte(u) || b[1] != byte(u>>8) || b[2] != byte(u>>16) || b[3] != byte(u>>24) {
					report("U32 layout", u)
				}
				copy(buf, b)
				copy(buf[4:], tail)
				n, d := eu.Decode(buf)
				if n != 4 || d.(uint32) != u || eu.GetSize(u) != 4 || eu.GetEncodedSize(buf) != 4 {
					report("U32 round trip", u)
				}
				i := int32(u)
				b = ei.Encode(i)
				if len(b) != 4 || b[0] != byte(u) || b[1] != byte(u>>8) || b[2] != byte(u>>16) || b[3] != byte(u>>24) {
					report("I32 layout", u)
				}
				copy(buf, b)
				n, d = ei.Decode(buf)
				if n != 4 || d.(int32) != i || ei.GetSize(i) != 4 || ei.GetEncodedSize(buf) != 4 {
					report("I32 round trip", u)
				}
			}
		}(wk)
	}
	wg.Wait()
	c.Evaluations += 2 << 32
	c.Dist["exhaustive32-go-only"] += 2 << 32
	c.Notes = append(c.Notes, "thorough: all 2^32 values of U32 and I32 checked directly on the implementation against the closed-form LE layout (no script lines)")
}

// GenC15 generates the C15 cases.
func GenC15(c *lp.Ctx) {
	g := &gen{c: c}
	r := c.Rng
	c.Comment("C15: value encoders round-trip with consistent sizes and LE layout")

	// 8-bit and 16-bit: exhaustive
	for x := 0; x < 256; x++ {
		g.intCase(intEnc{"i8", 1, true}, uint64(x))
	}
	for x := 0; x < 65536; x++ {
		g.intCase(intEnc{"u16", 2, false}, uint64(x))
		g.intCase(intEnc{"i16", 2, true}, uint64(x))
	}
	// 32-bit: boundaries, a stride sweep and random (thorough: far denser + exhaustive Go-only)
	n32 := c.Pick(15000, 400000)
	for _, e := range []intEnc{{"u32", 4, false}, {"i32", 4, true}} {
		for _, b := range boundaries(4) {
			g.intCase(e, b)
		}
		stride := uint64(1<<32) / uint64(n32)
		off := uint64(r.Intn(int(stride)))
		for x := off; x < 1<<32; x += stride {
			g.intCase(e, x)
		}
		for i := 0; i < n32/2; i++ {
			g.intCase(e, uint64(r.Uint32()))
		}
	}
	// 64-bit and native int: boundaries and random
	n64 := c.Pick(6000, 150000)
	for _, e := range []intEnc{{"u64", 8, false}, {"i64", 8, true}, {"int", 8, true}} {
		for _, b := range boundaries(8) {
			g.intCase(e, b)
		}
		for i := 0; i < n64; i++ {
			x := r.Uint64()
			if i%4 == 0 { // random magnitude
				x >>= uint(r.Intn(64))
				if i%8 == 0 {
					x = -x
				}
			}
			g.intCase(e, x)
		}
	}

	// the lookup API (EncoderByKind, EncoderOf, GetSliceEltEncoder): every kind, plain and as slice element.
	// A successful lookup must hand out THE encoder of that kind (round trip, sizes, layout of C15); the
	// refusals are compared with the model only.
	widths := map[string]int{"u16": 2, "u32": 4, "u64": 8}
	for _, how := range []string{"kind", "of", "sliceof"} {
		for _, base := range KindNames {
			for _, k := range []string{base, "slice." + base, "slice.slice." + base} {
				if strings.HasSuffix(k, "slice.invalid") {
					continue
				}
				elem := k
				if how == "sliceof" {
					elem = strings.TrimPrefix(k, "slice.")
					if elem == k {
						elem = "" // not a slice
					}
				}
				w, ok := widths[elem]
				spec := how + ":" + k
				if !ok {
					ans := c.Do("enc.rt " + spec + " 0 x")
					c.Hit("lookup-refused")
					c.Case(spec, true)
					if !strings.HasPrefix(ans, "err:") {
						c.Violate(lp.Violation{What: "C15 lookup: an encoder was handed out for a kind without one",
							Script: []string{"enc.rt " + spec + " 0 x"}, Expected: "err:*", Got: clip(ans)})
					}
					continue
				}
				for i := 0; i < c.Pick(6, 60); i++ {
					bits := r.Uint64()
					if i < 3 {
						bits = []uint64{0, math.MaxUint64, 0x0102030405060708}[i]
					}
					if w < 8 {
						bits &= (uint64(1) << (8 * uint(w))) - 1
					}
					g.rt("lookup-"+how, spec, strconv.FormatUint(bits, 10), g.tail(), leBytesOf(bits, w), true)
				}
			}
		}
	}

	// String16: length classes 0..65535, plus lengths outside the domain
	lens := []int{0, 1, 2, 3, 127, 128, 254, 255, 256, 257, 258, 511, 512, 513, 1023, 1024, 4095, 4096,
		32767, 32768, 65279, 65280, 65281, 65533, 65534, 65535}
	for i := 0; i < c.Pick(40, 400); i++ {
		switch i % 3 {
		case 0:
			lens = append(lens, r.Intn(300))
		case 1:
			lens = append(lens, r.Intn(65536))
		default:
			lens = append(lens, (r.Intn(256)<<8)|[]int{0, 1, 255}[r.Intn(3)])
		}
	}
	for _, l := range lens {
		s := make([]byte, l)
		r.Read(s)
		if l > 0 && r.Intn(3) == 0 { // strings containing NUL and high bytes at the ends
			s[0], s[l-1] = 0, 0xff
		}
		want := append([]byte{byte(l >> 8), byte(l)}, s...)
		g.rt(fmt.Sprintf("str16-len-%s", lenClass(l)), "str16", lp.X(s), g.tail(), want, true)
	}
	for _, l := range []int{65536, 65537, 65536 + 255, 70000, 131072 + 5} {
		s := make([]byte, l)
		r.Read(s)
		// outside the domain (length field truncates): model agreement only
		g.rt("str16-out-of-domain", "str16", lp.X(s), nil, nil, false)
	}

	// Bytes{Size}: all small sizes and some large; identity on slices of that length
	sizes := []int{}
	for n := 0; n <= 64; n++ {
		sizes = append(sizes, n)
	}
	sizes = append(sizes, 100, 255, 256, 257, 1000, 4096, 65536)
	for _, n := range sizes {
		for k := 0; k < c.Pick(2, 10); k++ {
			b := make([]byte, n)
			r.Read(b)
			g.rt("bytes", fmt.Sprintf("bytes:%d", n), lp.X(b), g.tail(), b, true)
		}
		// wrong length (outside the domain): model agreement only
		for _, m := range []int{n - 1, n + 1, 0} {
			if m < 0 || m == n {
				continue
			}
			b := make([]byte, m)
			r.Read(b)
			g.rt("bytes-out-of-domain", fmt.Sprintf("bytes:%d", n), lp.X(b), g.tail(), nil, false)
		}
	}

	// Dummy
	for k := 0; k < 8; k++ {
		line := "enc.rt dummy nil " + lp.X(g.tail())
		ans := c.Do(line)
		c.Hit("dummy")
		c.Case("dummy", true)
		if ans != "x 0 nil 0 0" {
			c.Violate(lp.Violation{What: "C15 Dummy", Script: []string{line}, Expected: "x 0 nil 0 0", Got: ans})
		}
	}

	// TypeEncoder: every leaf kind alone, then random struct/array types, both byte orders
	var types []string
	types = append(types, typeLeaves...)
	types = append(types, "s0", "a0,u32", "a3,u16", "s2,u8,u64", "a2,a3,i16", "s3,u8,a2,s2,i16,u32,i64",
		"s2,a0,u64,u8", "a2,s0", "s8,u8,u16,u32,u64,i8,i16,i32,i64")
	for i := 0; i < c.Pick(1500, 30000); i++ {
		t, leaves := RandType(r, 3)
		if leaves > 200 {
			continue
		}
		types = append(types, t)
	}
	for _, ty := range types {
		t, err := ParseType(ty)
		if err != nil {
			panic(err)
		}
		// le, le, be, be, then le once more: the third le use goes to the instance built first
		var hist []string
		for bi, bo := range []string{"le", "be", "le"} {
			for k := 0; k < 2-bi/2; k++ {
				val := RandLeaves(r, t)
				v, _ := ParseTyped(t, val)
				want := OracleTyped(reflect.ValueOf(v), bo == "be", nil)
				cls := "te-" + bo + "-" + kindClass(t)
				spec := "te:" + bo + ":" + ty
				line := fmt.Sprintf("enc.rt %s %s %s", spec, val, lp.X(g.tail()))
				ans := c.Do(line)
				hist = append(hist, line)
				c.Hit(cls)
				c.Case(spec+" "+val, true)
				n := strconv.Itoa(len(want))
				exp := fmt.Sprintf("%s %s %s %s %s", lp.X(want), n, val, n, n)
				if ans != exp {
					c.Violate(lp.Violation{What: "C15 TypeEncoder field-by-field layout / round trip (last line of the history of this type)",
						Script: append([]string{}, hist...), Expected: clip(exp), Got: clip(ans)})
				}
				if len(c.Samples) < 8 && len(line) < 200 && strings.Contains(ty, "s") && strings.Contains(ty, "a") {
					c.Sample(line + " => " + ans)
				}
			}
		}
	}

	// malformed stream: Decode / GetEncodedSize on short and arbitrary buffers
	// (panics must agree with the model; fixed-size encoders must panic exactly when |buf| < size)
	fixed := []struct {
		spec string
		size int
	}{{"i8", 1}, {"i16", 2}, {"i32", 4}, {"i64", 8}, {"u16", 2}, {"u32", 4}, {"u64", 8}, {"int", 8},
		{"bytes:0", 0}, {"bytes:5", 5}, {"dummy", 0}, {"te:le:s2,u8,a2,i16", 5}, {"te:be:a3,u32", 12}, {"te:le:s0", 0}}
	for _, f := range fixed {
		for l := 0; l <= f.size+2; l++ {
			for k := 0; k < 3; k++ {
				b := make([]byte, l)
				r.Read(b)
				line := fmt.Sprintf("enc.dec %s %s", f.spec, lp.X(b))
				ans := c.Do(line)
				c.Hit("short-buffer")
				c.Case(line, false)
				isPanic := strings.HasPrefix(ans, "panic ")
				if isPanic != (l < f.size) {
					c.Violate(lp.Violation{What: "Decode on short buffer: panic iff |buf| < size", Script: []string{line},
						Expected: fmt.Sprintf("panic=%v", l < f.size), Got: ans})
				}
			}
		}
	}
	for i := 0; i < c.Pick(300, 3000); i++ {
		l := r.Intn(8)
		if i%5 == 0 {
			l = 2 + r.Intn(600)
		}
		b := make([]byte, l)
		r.Read(b)
		if l >= 2 && i%2 == 0 { // make the header plausible
			m := r.Intn(l + 3)
			b[0], b[1] = byte(m>>8), byte(m)
		}
		c.Do(fmt.Sprintf("enc.dec str16 %s", lp.X(b)))
		c.Hit("str16-arbitrary-buffer")
		c.Case("", false)
	}

	if !c.Quick() {
		g.exhaustive32()
	}
}

func lenClass(l int) string {
	switch {
	case l == 0:
		return "0"
	case l < 256:
		return "1..255"
	case l < 65535:
		return "256..65534"
	}
	return "65535"
}

func kindClass(t reflect.Type) string {
	switch t.Kind() {
	case reflect.Array:
		return "array"
	case reflect.Struct:
		return "struct"
	}
	return "prim"
}
