package trie

import (
	"fmt"
	"sort"
	"strings"

	"slimverif/harness/gen"
	"slimverif/harness/lp"
)

// genC08: construction is all-or-nothing.
func genC08(c *lp.Ctx) {
	// 1. order violations at every index class
	n := c.Pick(300, 1000)
	for it := 0; it < n; it++ {
		ks := gen.Any(c.Rng, 40)
		keys := append([]string{}, ks.Keys...)
		if len(keys) < 2 {
			keys = []string{"a", "b", "c"}
		}
		kind := c.Rng.Intn(8)
		i := c.Rng.Intn(len(keys) - 1)
		switch kind {
		case 6, 7: // a middle key deviates INSIDE the prefix the first and the last key share, its tail stays in order
			pre := []string{"user/", "ab", "\x80\x80\x80", "p"}[c.Rng.Intn(4)]
			for j := range keys {
				keys[j] = pre + keys[j]
			}
			if len(keys) < 3 {
				keys = []string{pre + "1", pre + "2", pre + "3"}
			}
			i = 1 + c.Rng.Intn(len(keys)-2)
			b := []byte(keys[i])
			at := c.Rng.Intn(len(pre))
			if kind == 6 {
				b[at]++
			} else {
				b[at]--
			}
			keys[i] = string(b)
		case 0: // equal neighbours
			keys[i+1] = keys[i]
		case 1: // swapped neighbours
			keys[i], keys[i+1] = keys[i+1], keys[i]
		case 2: // a key followed by its own proper prefix
			keys[i] = keys[i] + "x"
			keys[i+1] = keys[i][:len(keys[i])-1]
		case 3: // signed-order confusion: 0x80.. before 0x7f..
			keys = []string{"\x01", "\x80a", "\x7fa", "\xff"}
			i = 1
		case 4: // several violations
			keys[i+1] = keys[i]
			j := c.Rng.Intn(len(keys) - 1)
			keys[j], keys[j+1] = keys[j+1], keys[j]
		case 5: // last pair
			i = len(keys) - 2
			keys[i+1] = keys[i]
		}
		asc := sort.SliceIsSorted(keys, func(a, b int) bool { return keys[a] < keys[b] })
		for k := 0; asc && k+1 < len(keys); k++ {
			if keys[k] == keys[k+1] {
				asc = false
			}
		}
		cs := NewCase(c.Rng, gen.KeySet{Keys: keys, Class: fmt.Sprintf("order-violation-%d", kind)}, "", "")
		c.Case(cs.Key(), true)
		c.Hit(cs.Class)
		line := cs.Line()
		got := c.Do(line)
		want := "err:out-of-order"
		if asc {
			want = "ok" // the mutation happened to keep the list strictly ascending
		}
		if got != want {
			c.Violate(lp.Violation{What: "key list that is not strictly ascending must be rejected with ErrKeyOutOfOrder, ascending accepted",
				Script: []string{line}, Expected: want, Got: got})
		}
		c.Sample(line)
	}
	// 2. single-branch runs of every length class, in every mode
	lens := []int{0, 1, 2, 3, 255, 256, 257, 4095, 32766, 32767, 32768, 32769}
	if !c.Quick() {
		lens = append(lens, 35000, 65536)
	}
	for _, runBytes := range lens {
		for _, flags := range []string{"nnnn", "ntnn", "nntn", "nnnt", "fnnn"} {
			if c.Quick() && runBytes >= 4095 && flags != "nnnn" && flags != "nnnt" && c.Rng.Intn(2) == 0 {
				continue
			}
			run := strings.Repeat("a", runBytes)
			var keys []string
			variant := c.Rng.Intn(4)
			if runBytes >= 32766 && (flags == "nnnn" || flags == "fnnn") {
				variant = 3 // always cover the long run in front of a 257-bit node
			}
			switch variant {
			case 3: // the run leads to a 257-bit root: more than 10 keys fan out behind it
				for b := 0; b < 12; b++ {
					keys = append(keys, run+string([]byte{byte(0x30 + 7*b)}))
				}
			case 0:
				keys = []string{"0", run + "b", run + "c", "z"}
			case 1: // the run ends in the middle of a byte: branch on the low half-byte
				keys = []string{run + "\x61", run + "\x62", run + "\x63\x00"}
			default: // nested: a long run below the root as well
				keys = []string{"0" + run + "a", "0" + run + "b", "1", "2" + run, "2" + run + run[:runBytes/2] + "x"}
			}
			sort.Strings(keys)
			cs := NewCase(c.Rng, gen.KeySet{Keys: keys, Class: fmt.Sprintf("run-%d-bytes", runBytes)}, flags, "i32")
			c.Case(cs.Key(), true)
			c.Hit(fmt.Sprintf("run-halfbytes:%d", 2*runBytes))
			line := cs.Line()
			got := c.Do(line)
			_, inner, _ := normalize(flags)
			if got == "ok" {
				// no silent loss: every retained key is found with its own value
				for i, k := range cs.RKeys {
					op := "trie.get " + lp.XS(k)
					want := cs.valAns(cs.RVals[i])
					if g := c.Do(op); g != want {
						c.Violate(lp.Violation{What: "accepted input must find every key it was built from",
							Script: []string{line, op}, Expected: want, Got: g})
					}
				}
			} else if got != "err:step-too-long" {
				c.Violate(lp.Violation{What: "valid ascending input: either a working trie or an error, never a panic",
					Script: []string{line}, Expected: "ok | err:step-too-long", Got: got})
			} else if inner || 2*runBytes+2 <= 0xffff {
				c.Violate(lp.Violation{What: "a strictly ascending list within the limits must be accepted",
					Script: []string{line}, Expected: "ok", Got: got})
			}
		}
	}
}

// genC08deep: one order violation deep inside a LONG list (positions around powers of two and chunk
// sizes a "faster" order check might use, the last pair, random positions).
func genC08deep(c *lp.Ctx) {
	sizes := []int{3000, 70000}
	if !c.Quick() {
		sizes = []int{3000, 5000, 40000, 70000, 140000}
	}
	for _, n := range sizes {
		base := make([]string, n)
		for i := range base {
			base[i] = fmt.Sprintf("k%07d", i)
		}
		// keys[i], keys[i+1] is the violating pair.  i = m·2^k − 1 straddles a 2^k-aligned seam (a check cut into
		// batches, blocks or SIMD lanes compares within a batch only); i = m·2^k − 2 and m·2^k lie beside it.
		pos := []int{n - 2, n / 2, c.Rng.Intn(n - 1)}
		for k := uint(9); k <= 17; k++ {
			pos = append(pos, 1<<k-1)
			if int(k)%2 == c.Rng.Intn(2) {
				pos = append(pos, 3<<k-1, (1+c.Rng.Intn(7))<<k-1)
			}
			if !c.Quick() {
				pos = append(pos, 1<<k-2, 1<<k, 5<<k-1)
			}
		}
		for _, i := range pos {
			if i < 0 || i+1 >= n {
				continue
			}
			keys := append([]string{}, base...)
			kind := c.Rng.Intn(3)
			switch kind {
			case 0:
				keys[i+1] = keys[i]
			case 1:
				keys[i], keys[i+1] = keys[i+1], keys[i]
			default: // a key from far ahead: in order with respect to its left neighbour only
				keys[i] = base[min(n-1, i+n/3)] + "x"
			}
			cs := NewCase(c.Rng, gen.KeySet{Keys: keys, Class: fmt.Sprintf("deep-order-violation-%d", kind)}, "", "none")
			c.Case(fmt.Sprintf("deep|%d|%d|%d", n, i, kind), true)
			c.Hit(fmt.Sprintf("deep-order-violation:n=%d", n))
			line := cs.Line()
			if got := c.Do(line); got != "err:out-of-order" {
				c.Violate(lp.Violation{What: fmt.Sprintf("order violation at index %d of %d keys must be rejected with ErrKeyOutOfOrder", i, n),
					Script:   []string{fmt.Sprintf("trie.new %s none k0000000 .. k%07d with keys[%d], keys[%d] = %q, %q", cs.Flags, n-1, i, i+1, keys[i], keys[i+1])},
					Expected: "err:out-of-order", Got: got})
			}
		}
	}
}

// genC08accepted: "no silent loss" on ordinary inputs — every generated valid list is either refused with
// an error or yields a trie that finds every key it was built from (the same clause as C01, asked here
// of the builder's accept/refuse decision over all shape classes).
// genC08inplace: the order check must run on EVERY build: a key slice that was accepted once is edited in place
// (neighbours swapped, a key duplicated, a key replaced by a greater one) and handed to NewSlimTrie again.
func genC08inplace(c *lp.Ctx) {
	for it := 0; it < c.Pick(60, 300); it++ {
		ks := gen.Any(c.Rng, c.Pick(100, 600))
		if len(ks.Keys) < 3 {
			continue
		}
		cs := NewCase(c.Rng, ks, "", "none")
		if got := c.Do(cs.Line()); got != "ok" {
			continue
		}
		keys := append([]string{}, cs.Keys...)
		i := c.Rng.Intn(len(keys) - 1)
		switch c.Rng.Intn(3) {
		case 0:
			keys[i], keys[i+1] = keys[i+1], keys[i]
		case 1:
			keys[i+1] = keys[i]
		default:
			keys[i] = keys[len(keys)-1] + "z"
		}
		cs2 := *cs
		cs2.Keys = keys
		line := strings.Replace(cs2.Line(), "trie.new", "trie.renew", 1)
		c.Case(cs.Key()+"/inplace", true)
		c.Hit("history:build,edit-slice-in-place,build")
		if got := c.Do(line); got != "err:out-of-order" {
			c.Violate(lp.Violation{What: "a key slice edited in place after an accepted build must be checked again: not strictly ascending -> ErrKeyOutOfOrder",
				Script: []string{cs.Line(), line}, Expected: "err:out-of-order", Got: got})
		}
	}
}

func genC08accepted(c *lp.Ctx) {
	n := c.Pick(100, 700)
	for it := 0; it < n; it++ {
		ks := gen.Any(c.Rng, c.Pick(200, 1200))
		if it == 0 {
			ks = gen.HugeTailSet(c.Rng) // keys far beyond the documented length: accepted means found
		}
		cs := NewCase(c.Rng, ks, "", "")
		c.Case(cs.Key(), len(cs.Keys) >= 2)
		line := cs.Line()
		got := c.Do(line)
		cs.Describe(c)
		if got != "ok" {
			if got != "err:step-too-long" || cs.Inner {
				c.Violate(lp.Violation{What: "valid ascending input: either a working trie or ErrStepTooLong, never a panic or another error",
					Script: []string{line}, Expected: "ok | err:step-too-long", Got: got})
			}
			continue
		}
		for i, k := range cs.RKeys {
			if len(cs.RKeys) > 400 && i%3 != 0 {
				continue
			}
			op := "trie.get " + lp.XS(k)
			if g, want := c.Do(op), cs.valAns(cs.RVals[i]); g != want {
				c.Violate(lp.Violation{What: "accepted input must find every key it was built from",
					Script: []string{line, op}, Expected: want, Got: g})
				break
			}
		}
	}
}

func init() {
	lp.RegisterGen("C08", genC08accepted)
	lp.RegisterGen("C08", genC08deep)
	lp.RegisterGen("C08", genC08inplace)
	lp.RegisterGen("C08", genC08)
}
