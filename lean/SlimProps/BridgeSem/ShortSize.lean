import Generated.Funcs
import SlimProps.BridgeSem.Common
import SlimModel.Slim
import SlimModel.Bits
/-
  SlimProps.BridgeSem.ShortSize — tie 1, semantic part: `memIncrOfShortSize` / `findMinShortSize` (trie/slimtrie_create.go).
  See SlimProps/BridgeSem.lean for the overview.
-/

open Generated

namespace BridgeSem

/-! ### `memIncrOfShortSize` / `findMinShortSize` (trie/slimtrie_create.go): the choice of `ShortSize` -/

/-- the counter table as the translator sees it -/
def natSorted (sorted : Array (List (Nat × Nat))) : List (List (Nat × Nat)) := sorted.toList

/-- the counts and list lengths are non-negative int32 values -/
def SortedOK (sorted : Array (List (Nat × Nat))) : Prop :=
  ∀ l ∈ sorted.toList, l.length < 2 ^ 31 ∧ ∀ e ∈ l, e.2 < 2 ^ 31

theorem popcount64_eq (x : Nat) : Go.popcount64 x = Bits.popcount x := rfl

theorem popcount_le (x : Nat) : Bits.popcount x ≤ 64 := by
  unfold Bits.popcount
  have := List.length_filter_le (fun i => x.testBit i) (List.range 64)
  simpa using this

theorem array_getD_toList {α : Type} (a : Array α) (i : Nat) (d : α) :
    a.toList.getD i d = a.getD i d := by
  rw [List.getD_eq_getElem?_getD, Array.getD_eq_getD_getElem?, Array.getElem?_toList]


theorem memLoop_spec (sorted : Array (List (Nat × Nat))) (hok : SortedOK sorted) (ss : Nat) (hss : ss ≤ 30) :
    ∀ fuel k short (ith : Array Nat) (mem : Int) (sc : Nat),
      short + k = 2 ^ ss → k ≤ fuel → (∀ j, ith.getD j 0 ≤ short) →
      (Generated.memIncrOfShortSize_loop1 ss (natSorted sorted) fuel
          (Go.ofS 32 mem, ith.toList, short, sc)).1
        = Go.ofS 32 (Slim.memIncr.go sorted ss k short ith mem) := by
  have h2 : 2 ^ ss ≤ 2 ^ 30 := Nat.pow_le_pow_right (by omega) hss
  intro fuel
  induction fuel with
  | zero =>
    intro k short ith mem sc h1 hk _
    have : k = 0 := by omega
    subst this
    simp [Generated.memIncrOfShortSize_loop1, Slim.memIncr.go]
  | succ fuel ih =>
    intro k short ith mem sc h1 hk hith
    rw [Generated.memIncrOfShortSize_loop1]
    have hshl : Go.shl 32 1 (Go.conv 32 true 64 ss) = 2 ^ ss := by
      go_simp
      simp
    rw [hshl]
    cases k with
    | zero =>
      have : ¬ short < 2 ^ ss := by omega
      rw [ltS_small (by omega) (by omega)]
      simp [this, Slim.memIncr.go]
    | succ k =>
      have hlt : short < 2 ^ ss := by omega
      have hpc := popcount_le short
      have hnbit : Go.conv 64 true 32 (Go.popcount64 (Go.conv 32 true 64 short)) = Bits.popcount short := by
        rw [popcount64_eq]
        go_simp
        omega
      rw [ltS_small (by omega) (by omega)]
      simp only [hlt, decide_true, if_true, hnbit]
      rw [Slim.memIncr.go]
      generalize hnb : Bits.popcount short = nbit
      have hused : ith.toList.getD nbit 0 = ith.getD nbit 0 := array_getD_toList _ _ _
      have hub := hith nbit
      generalize hu : ith.getD nbit 0 = used at hub
      have hrow : (natSorted sorted).getD nbit [] = sorted.getD nbit [] := array_getD_toList _ _ _
      rw [hused, hu, hrow]
      generalize hr : sorted.getD nbit [] = row
      have hrowok : row.length < 2 ^ 31 ∧ ∀ e ∈ row, e.2 < 2 ^ 31 := by
        rw [← hr, Array.getD_eq_getD_getElem?]
        cases hg : sorted[nbit]? with
        | none => simp
        | some l => exact hok l (by rw [Array.mem_toList_iff]; exact Array.mem_of_getElem? hg)
      have hlen : Go.conv 64 true 32 row.length = row.length := by go_simp; omega
      rw [hlen, ltS_small (by omega) (by omega)]
      cases hg : row[used]? with
      | none =>
        have : ¬ used < row.length := by
          intro h; rw [List.getElem?_eq_getElem h] at hg; cases hg
        simp only [this, decide_false, Bool.false_eq_true, if_false]
        rw [add_small (by omega)]
        exact ih k (short + 1) ith mem sc (by omega) (by omega) (fun j => by have := hith j; omega)
      | some e =>
        obtain ⟨bm, cnt⟩ := e
        have hul : used < row.length := (List.getElem?_eq_some_iff.mp hg).1
        have hcnt : cnt < 2 ^ 31 := hrowok.2 (bm, cnt) (List.mem_of_getElem? hg)
        have hgd : row.getD used (0, 0) = (bm, cnt) := by
          rw [List.getD_eq_getElem?_getD, hg]; rfl
        simp only [hul, decide_true, if_true, hgd]
        rw [add_small (show short + 1 < 2 ^ 32 by omega), add_small (show used + 1 < 2 ^ 32 by omega)]
        -- the memory update, in the ring of residues
        have hmem : Go.sub 32 (Go.ofS 32 mem) (Go.mul 32 (Go.sub 32 17 ss) cnt)
            = Go.ofS 32 (mem - ((Slim.innerSize : Int) - ss) * cnt) := by
          conv => lhs; rw [ofS_eq_natCast (w := 32) (n := 17) (by omega),
            ofS_eq_natCast (w := 32) (n := ss) (by omega), ofS_eq_natCast (w := 32) (n := cnt) (by omega)]
          rw [sub_ofS, mul_ofS, sub_ofS]
          rfl
        rw [hmem]
        have hmod : ith.toList.set nbit (used + 1) = (ith.modify nbit (· + 1)).toList := by
          rw [Array.toList_modify, List.modify_eq_set, Array.getElem?_toList,
            ← Array.getD_eq_getD_getElem?]
          show _ = ith.toList.set nbit (ith.getD nbit 0 + 1)
          rw [hu]
        rw [hmod]
        exact ih k (short + 1) _ _ _ (by omega) (by omega) (fun j => by
          rw [Array.getD_eq_getD_getElem?, Array.getElem?_modify]
          have := hith j
          rw [Array.getD_eq_getD_getElem?] at this
          split
          · next hj =>
            subst hj
            rw [Array.getD_eq_getD_getElem?] at hu
            cases hq : ith[nbit]? with
            | none => simp
            | some v => rw [hq] at hu this; simp at hu this ⊢; omega
          · omega)

theorem memIncr_pat (sorted : Array (List (Nat × Nat))) (hok : SortedOK sorted) (ss : Nat) (hss : ss ≤ 30) :
    (Generated.memIncrOfShortSize_pat (natSorted sorted) ss).1 = Go.ofS 32 (Slim.memIncr sorted ss) := by
  have h2 : 2 ^ ss ≤ 2 ^ 30 := Nat.pow_le_pow_right (by omega) hss
  unfold Generated.memIncrOfShortSize_pat Slim.memIncr
  have hshl : Go.shl 32 1 (Go.conv 32 true 64 ss) = 2 ^ ss := by
    go_simp
    simp
  have hmem : Go.mul 32 (2 ^ ss) 64 = Go.ofS 32 (((2 ^ ss : Nat) : Int) * 64) := by
    conv => lhs; rw [ofS_eq_natCast (w := 32) (n := 2 ^ ss) (by omega),
      ofS_eq_natCast (w := 32) (n := 64) (by omega)]
    rw [mul_ofS]
    rfl
  have hrep : List.replicate (Go.add 32 ss 1) 0 = (Array.replicate (ss + 1) 0).toList := by
    rw [add_small (by omega), Array.toList_replicate]
  simp only [hshl, hmem, hrep]
  exact memLoop_spec sorted hok ss hss (2 ^ ss) (2 ^ ss) 0 _ _ 0 (by omega) (Nat.le_refl _)
    (by intro j; simp [Array.getD_eq_getD_getElem?, Array.getElem?_replicate]; split <;> simp)

/-- the int32 range -/
def InI32 (x : Int) : Prop := -(2 : Int) ^ 31 ≤ x ∧ x < (2 : Int) ^ 31

/-- **`memIncrOfShortSize`** (first result) is `Slim.memIncr`, whenever the result fits an int32
    (intermediate wrap-around is harmless); counts and list lengths are non-negative int32s. -/
theorem memIncrOfShortSize_sem (sorted : Array (List (Nat × Nat))) (hok : SortedOK sorted) (ss : Nat)
    (hss : ss ≤ 30) (hr : InI32 (Slim.memIncr sorted ss)) :
    (Generated.memIncrOfShortSize (natSorted sorted) ss).1 = Slim.memIncr sorted ss := by
  unfold Generated.memIncrOfShortSize
  simp only
  rw [memIncr_pat sorted hok ss hss, toS_ofS (by omega) (by simpa using hr.1) (by simpa using hr.2)]

theorem findLoop_spec (sorted : Array (List (Nat × Nat))) (hok : SortedOK sorted)
    (hr : ∀ ss, ss ≤ 10 → InI32 (Slim.memIncr sorted ss)) :
    ∀ fuel k ss sz (minCost : Int) (sc : Nat), ss + k = 11 → k ≤ fuel → sz < ss → InI32 minCost →
      (Generated.findMinShortSize_loop1 (natSorted sorted) fuel (Go.ofS 32 minCost, sc, ss, sz)).2.2.2
        = Slim.findMinShortSize.go sorted k ss sz minCost ∧
      (Generated.findMinShortSize_loop1 (natSorted sorted) fuel (Go.ofS 32 minCost, sc, ss, sz)).2.2.2 ≤ 10 := by
  intro fuel
  induction fuel with
  | zero =>
    intro k ss sz minCost sc h1 hk hsz _
    have : k = 0 := by omega
    subst this
    simp only [Generated.findMinShortSize_loop1, Slim.findMinShortSize.go]
    refine ⟨?_, ?_⟩ <;> first | rfl | trivial | omega
  | succ fuel ih =>
    intro k ss sz minCost sc h1 hk hsz hmc
    rw [Generated.findMinShortSize_loop1]
    cases k with
    | zero =>
      have : ¬ ss < 11 := by omega
      rw [ltS_small (by omega) (by omega)]
      simp only [this, decide_false, Bool.false_eq_true, if_false, Slim.findMinShortSize.go]
      refine ⟨?_, ?_⟩ <;> first | rfl | trivial | omega
    | succ k =>
      have hlt : ss < 11 := by omega
      have hinc := hr ss (by omega)
      rw [ltS_small (by omega) (by omega)]
      simp only [hlt, decide_true, if_true]
      rw [memIncr_pat sorted hok ss (by omega), add_small (show ss + 1 < 2 ^ 32 by omega),
        Slim.findMinShortSize.go]
      have hcmp : Go.ltS 32 (Go.ofS 32 (Slim.memIncr sorted ss)) (Go.ofS 32 minCost)
          = decide (Slim.memIncr sorted ss < minCost) := by
        unfold Go.ltS
        rw [toS_ofS (by omega) (by simpa using hinc.1) (by simpa using hinc.2),
          toS_ofS (by omega) (by simpa using hmc.1) (by simpa using hmc.2)]
      rw [hcmp]
      by_cases hc : Slim.memIncr sorted ss < minCost
      · simp only [hc, decide_true, if_true]
        exact ih k (ss + 1) ss _ _ (by omega) (by omega) (by omega) hinc
      · simp only [hc, decide_false, Bool.false_eq_true, if_false]
        exact ih k (ss + 1) sz _ _ (by omega) (by omega) (by omega) hmc

/-- **`findMinShortSize`** (first result: the short bitmap size) is `Slim.findMinShortSize`, for
    tables of non-negative int32 counts on which every candidate's memory delta fits an int32. -/
theorem findMinShortSize_sem (sorted : Array (List (Nat × Nat))) (hok : SortedOK sorted)
    (hr : ∀ ss, ss ≤ 10 → InI32 (Slim.memIncr sorted ss)) :
    (Generated.findMinShortSize (natSorted sorted)).1 = ((Slim.findMinShortSize sorted : Nat) : Int) := by
  have hmax : Slim.maxShortSize = 10 := rfl
  have hm := memIncr_pat sorted hok 0 (by omega)
  unfold Generated.findMinShortSize Slim.findMinShortSize
  rw [hmax]
  obtain ⟨h1, h2⟩ := findLoop_spec sorted hok hr 11 10 1 0 (Slim.memIncr sorted 0)
    (Generated.memIncrOfShortSize_pat (natSorted sorted) 0).2
    (by omega) (by omega) (by omega) (hr 0 (by omega))
  generalize Slim.findMinShortSize.go sorted 10 1 0 (Slim.memIncr sorted 0) = g at h1 ⊢
  generalize hf : (11 : Nat) = fuel at h1 h2 ⊢
  generalize Generated.memIncrOfShortSize_pat (natSorted sorted) 0 = m at hm h1 h2 ⊢
  obtain ⟨mc, sc⟩ := m
  have hm' : mc = Go.ofS 32 (Slim.memIncr sorted 0) := hm
  subst hm'
  have h1' : (Generated.findMinShortSize_loop1 (natSorted sorted) fuel
      (Go.ofS 32 (Slim.memIncr sorted 0), sc, 1, 0)).2.2.2 = g := h1
  have h2' : (Generated.findMinShortSize_loop1 (natSorted sorted) fuel
      (Go.ofS 32 (Slim.memIncr sorted 0), sc, 1, 0)).2.2.2 ≤ 10 := h2
  show (match Generated.findMinShortSize_loop1 (natSorted sorted) fuel
      (Go.ofS 32 (Slim.memIncr sorted 0), sc, 1, 0) with
    | (_, shortCnt, _, sz) => (Go.toS 32 sz, Go.toS 32 shortCnt)).1 = (g : Int)
  generalize Generated.findMinShortSize_loop1 (natSorted sorted) fuel
    (Go.ofS 32 (Slim.memIncr sorted 0), sc, 1, 0) = res at h1' h2' ⊢
  obtain ⟨a, b, c, d⟩ := res
  show Go.toS 32 d = (g : Int)
  have h1'' : d = g := h1'
  have h2'' : d ≤ 10 := h2'
  rw [toS_small (by omega), h1'']

end BridgeSem

#print axioms BridgeSem.memIncrOfShortSize_sem
#print axioms BridgeSem.findMinShortSize_sem
