import SlimModel.Legacy
import SlimModel.Scan
import SlimModel.Slim
/-
  SlimModel.Readers — concurrent readers of one shared `*SlimTrie` (property C11).

  * `Shared := Legacy.Instance`: what a built or loaded `*SlimTrie` holds (the message `inner`,
    the level table `levels`; `st.vars` is a function of `inner`).
  * `Local`: the state one reader thread owns: the iterators it has open.  An iterator is the
    closure `NewIter` returns: its stack/buffer (`Scan.IterState`) and the captured `withValue`.
    Everything else a read API uses (`querySession`, the GE path, `Stat`'s result, `String`'s
    buffer, `Marshal`'s output) is allocated per call and dead when the call returns.
  * `ReadOp`: every read API: `Get GetID RangeGet Search GetI8/16/32/64 Stat String Marshal
    NewIter next() ScanFrom ScanFromTo`.
  * `step sh loc op`: ONE call, run to completion, DEFINED as the sequential model function on
    `Slim.view sh.inner` (the functions all the other property theorems are about).  It returns the
    shared state it was given: by construction no read operation has a way to change it.  That the
    Go code has this shape too is not proved here but checked (see `SlimProps/C11.lean`, header).
  * `run`: a schedule `[(thread, op), …]` executed in order on one shared state; `runAlone`: one
    thread's ops with nobody else around.

  Atomicity: a step is a whole call.  For code that never writes shared memory (the frame
  property) finer interleavings are indistinguishable from this one — that is the classical
  argument; the model does not (and cannot) exhibit the Go memory model.

  A `next` on an iterator index the thread never created has no Go counterpart (there is no such
  closure): `Answer.noIter`.  When `next` panics the model keeps the iterator as it was (in Go the
  goroutine unwinds; the closure is not called again by a correct program).
-/
namespace Readers

abbrev Shared := Legacy.Instance

/-- the closure returned by `NewIter(start, includeStart, withValue)` -/
structure Iter where
  st : Scan.IterState
  withValue : Bool

abbrev Local := List Iter

inductive ReadOp where
  | get (q : Bytes)
  | getID (q : Bytes)
  | rangeGet (q : Bytes)
  | search (q : Bytes)
  /-- `GetI8/16/32/64`: `w` = 1, 2, 4, 8 -/
  | getInt (w : Nat) (q : Bytes)
  | stat
  | string
  | marshal
  | newIter (start : Bytes) (includeStart withValue : Bool)
  /-- call the `it`-th iterator this thread created -/
  | next (it : Nat)
  /-- `ScanFrom`; the callback returns false at the `stopAfter`-th item (`none`: never) -/
  | scanFrom (start : Bytes) (includeStart withValue : Bool) (stopAfter : Option Nat)
  | scanFromTo (start : Bytes) (includeStart : Bool) (stop : Bytes) (includeEnd withValue : Bool)
      (stopAfter : Option Nat)
  deriving Repr, DecidableEq

inductive Answer where
  | value (r : Except Err (Option (Option Bytes)))
  | id (r : Except Err (Option Nat))
  | found3 (r : Except Err (Option (Option Bytes) × Option (Option Bytes) × Option (Option Bytes)))
  | int (r : Except Err (Option Int))
  | stat (r : Except Err Slim.StatRes)
  | str (r : Except Err String)
  | bytes (b : Bytes)
  /-- `NewIter`: the index of the new iterator in the thread's `Local` -/
  | iter (r : Except Err Nat)
  /-- one `next()`: key (`none` = nil: exhausted) and value -/
  | item (r : Except Err (Option Bytes × Option Bytes))
  | items (r : Except Err (List (Bytes × Option Bytes)))
  | noIter

/-- the value formatter `String()` gets from the encoder: fixed (hex of the bytes) -/
def fmtVal : Option Bytes → String
  | none => ""
  | some b => hexOf b

/-- One read call by a thread with local state `loc` on the shared instance `sh`:
    (shared state afterwards, local state afterwards, what the call returns). -/
def step (sh : Shared) (loc : Local) (op : ReadOp) : Shared × Local × Answer :=
  let v := Slim.view sh.inner
  match op with
  | .get q => (sh, loc, .value (get v q))
  | .getID q => (sh, loc, .id (getID v q))
  | .rangeGet q => (sh, loc, .value (rangeGet v q))
  | .search q => (sh, loc, .found3 (search v q))
  | .getInt w q => (sh, loc, .int (Slim.getInt sh.inner w q))
  | .stat => (sh, loc, .stat (Slim.stat sh.inner sh.levels))
  | .string => (sh, loc, .str (Slim.toStringSlim v fmtVal))
  | .marshal => (sh, loc, .bytes (marshalSlim sh.inner))
  | .newIter start incl wv =>
    match Scan.newIterFrom v start incl with
    | .ok s => (sh, loc ++ [{ st := s, withValue := wv }], .iter (.ok loc.length))
    | .error e => (sh, loc, .iter (.error e))
  | .next i =>
    match loc[i]? with
    | none => (sh, loc, .noIter)
    | some it =>
      match Scan.iterNext v it.withValue it.st with
      | .ok (s', k, val) => (sh, loc.set i { it with st := s' }, .item (.ok (k, val)))
      | .error e => (sh, loc, .item (.error e))
  | .scanFrom start incl wv stopAfter =>
    (sh, loc, .items (Scan.scanFrom v start incl wv (fun _ => true) stopAfter))
  | .scanFromTo start incl stop inclEnd wv stopAfter =>
    (sh, loc, .items (Scan.scanFromTo v start incl stop inclEnd wv stopAfter))

abbrev ThreadId := Nat
abbrev Locals := ThreadId → Local
abbrev Schedule := List (ThreadId × ReadOp)

def setLocal (locs : Locals) (t : ThreadId) (l : Local) : Locals :=
  fun u => if u = t then l else locs u

/-- Execute a schedule: the calls happen one after the other in schedule order, all on the one
    shared state, each with the local state of the thread that makes it. -/
def run (sh : Shared) (locs : Locals) : Schedule → Shared × Locals × List (ThreadId × Answer)
  | [] => (sh, locs, [])
  | (t, op) :: rest =>
    let r := step sh (locs t) op
    let r' := run r.1 (setLocal locs t r.2.1) rest
    (r'.1, r'.2.1, (t, r.2.2) :: r'.2.2)

/-- One thread alone: its calls in program order. -/
def runAlone (sh : Shared) (loc : Local) : List ReadOp → Shared × Local × List Answer
  | [] => (sh, loc, [])
  | op :: rest =>
    let r := step sh loc op
    let r' := runAlone r.1 r.2.1 rest
    (r'.1, r'.2.1, r.2.2 :: r'.2.2)

/-- the calls thread `t` makes, in its program order -/
def opsOf (t : ThreadId) (sched : Schedule) : List ReadOp :=
  sched.filterMap (fun p => if p.1 = t then some p.2 else none)

/-- the answers thread `t` receives, in its program order -/
def answersOf (t : ThreadId) (tr : List (ThreadId × Answer)) : List Answer :=
  tr.filterMap (fun p => if p.1 = t then some p.2 else none)

/-- what the `next()` calls on iterator `a` yield: the answers to the ops `next a`, in order -/
def yields (a : Nat) : List ReadOp → List Answer → List Answer
  | op :: ops, ans :: rest => if op = .next a then ans :: yields a ops rest else yields a ops rest
  | _, _ => []

end Readers
