import SlimProps.C07
import SlimProps.C06Input
import SlimProofs.InputSmall
/-
  Property C07, with hypotheses about the USER'S INPUT only.

  `C07_truncated` / `C07_rejected_prefix` speak about any message `m` whose body can be allocated
  (`BodyOK (encodeSlim m)`).  For the streams users actually have — `Marshal` of a trie built from their
  keys and values, and the 0.5.10 / 0.5.11 streams of such a trie — that bound follows from
  `InputSmall keys vals` (`small_of_input`, `bodyOK_0510_of_input`): for every key list, value list and
  option combination within `514·n + key bytes + value bytes + 64 < 2^31`,

    * every strict prefix of the marshalled stream (a write interrupted at ANY byte) is rejected with
      the truncation error, by `Unmarshal` into any instance with any encoder, and
    * the instance afterwards answers every lookup and every scan as the empty trie

  — no hypothesis about the built trie, the message or the stream is left.
-/
open Wire Frame Version Legacy LegacyWrite LegacyConvert Refine EmptyView

/-- **current layout**: every strict prefix of `Marshal(NewSlimTrie(keys, vals, opt))` is rejected as a short read. -/
theorem C07_truncated_input (keys : List Bytes) (vals : Option (List Bytes)) (opt : Opt) (t : Trie1)
    (hb : build keys vals opt = .ok t) (hi : InputSmall keys vals) (e : Option Nat) (cut : Nat)
    (hcut : cut < (marshalSlim (Slim.encode t)).length) :
    unmarshalMsg e ((marshalSlim (Slim.encode t)).take cut) = .error .truncated :=
  C07_rejected_prefix e (Slim.encode t) (small_of_input keys vals opt t hb hi).body cut hcut

/-- … and after that rejection the instance — whatever it held before — is empty: the load reports the error,
    and every lookup, scan, typed getter and the rendering answer as on the empty trie. -/
theorem C07_truncated_input_empty (keys : List Bytes) (vals : Option (List Bytes)) (opt : Opt) (t : Trie1)
    (hb : build keys vals opt = .ok t) (hi : InputSmall keys vals) (σ : Instance) (e : Option Nat) (cut : Nat)
    (hcut : cut < (marshalSlim (Slim.encode t)).length) :
    let r := Instance.unmarshal σ e ((marshalSlim (Slim.encode t)).take cut)
    let v := Slim.view r.1.inner
    r.2 = some .truncated ∧ r.1.inner = {} ∧
    (∀ q, getID v q = .ok none) ∧ (∀ q, _root_.get v q = .ok none) ∧ (∀ q, rangeGet v q = .ok none) ∧
    (∀ q, search v q = .ok (none, none, none)) ∧
    (∀ start incl withValue keep stopAfter, Scan.scanFrom v start incl withValue keep stopAfter = .ok []) := by
  intro r v
  have h := C07_truncated_input keys vals opt t hb hi e cut hcut
  have h1 := C07_empty_after_reject σ e _ _ h
  have h2 := C07_answers_empty σ e _ _ h
  exact ⟨h1.1, h1.2, h2.1, h2.2.1, h2.2.2.1, h2.2.2.2.1, h2.2.2.2.2.2.2.1⟩

/-- **0.5.10 / 0.5.11 layout**: every strict prefix of the stream an old writer produced for the user's keys and
    values is rejected as a short read. -/
theorem C07_truncated_0510_input (mode ver : String) (keys vals : List Bytes) (stream : Bytes)
    (hwr : write0510 mode ver keys vals = .ok stream) (hk : keys ≠ []) (hi : InputSmall keys (some vals))
    (e : Option Nat) (cut : Nat) (hcut : cut < stream.length) :
    unmarshalMsg e (stream.take cut) = .error .truncated := by
  obtain ⟨opt, t, hmode, hver, hb⟩ := InputLegacy.write0510_inv mode ver keys vals stream hwr hk
  have hstream := C06_write0510_stream mode ver keys vals opt t hmode hver hk hb
  rw [hwr] at hstream
  simp only [Except.ok.injEq] at hstream
  have hbody := bodyOK_0510_of_input keys (some vals) opt t hb hk hi
  have hne : t.nodes.size ≠ 0 := by have := (build_shape keys (some vals) opt t hb hk).nonempty; omega
  rw [← Refine.encode_eq t hne] at hbody
  have hv : VersionOK ver ∧ isCompatible ver = true := by
    rcases hver with rfl | rfl <;> exact ⟨by decide, by decide⟩
  subst hstream
  have := C07_rejected_prefix_frame e ver hv.1 hv.2 _ hbody [] cut (by simpa using hcut)
  simpa using this

/-- **three-section layouts (0.5.0 … 0.5.9)**: every strict prefix of the stream an old writer produced for the
    user's keys and fixed-width values is rejected with an error — never loaded, never a panic.  Hypotheses: those
    of `C06_load_legacy_3section` that bound the sections (`hcount`, `hw`, `hwn`), nothing about the stream. -/
theorem C07_truncated_3section_input (variant : String) (keys vals : List Bytes) (w : Nat) (stream : Bytes)
    (hwr : writeLegacy3 variant keys vals = .ok stream)
    (hw : ∀ v ∈ vals, v.length = w) (hcount : 32 * keys.length + 143 < 2 ^ 31)
    (hwn : w * (2 * keys.length + 1) < 2 ^ 31) (e : Option Nat) (cut : Nat) (hcut : cut < stream.length) :
    ∃ err, unmarshalMsg e (stream.take cut) = .error err := by
  obtain ⟨vr, ch, st, lv, hp, hsec, hstream⟩ := writeLegacy3_inv variant keys vals stream hwr
  have hwn47 : w * (2 * keys.length + 1) < 2 ^ 47 := Nat.lt_trans hwn (by decide)
  obtain ⟨hbc, hbs, hbl⟩ := sections3_bodyOK vr keys vals w ch st lv hsec hcount hw hwn47
  have hh := parseVariant_header variant vr hp
  have hv : VersionOK vr.header ∧ isCompatible vr.header = true ∧ isCurrentLayout vr.header = false := by
    rcases hh with h | h | h <;> rw [h] <;> exact ⟨by decide, by decide, by decide⟩
  subst hstream
  exact C07_rejected_prefix_legacy3 e vr.header vr.header vr.header hv.1 hv.1 hv.1 hv.2.1 hv.2.2 _ _ _ hbc hbs hbl cut hcut

/-! ### non-vacuity -/
example : InputSmall [[0x61], [0x61, 0x62], [0x62]] (some [[1, 0, 0, 0], [2, 0, 0, 0], [3, 0, 0, 0]]) := by decide

#print axioms C07_truncated_input
#print axioms C07_truncated_3section_input
#print axioms C07_truncated_input_empty
#print axioms C07_truncated_0510_input
