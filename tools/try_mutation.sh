#!/bin/bash
# try_mutation.sh <mutation dir> <prop> [<prop>...] : apply the seeded change to /repo, run the named checks
# (tier from $TIER, default quick), undo it straight afterwards.  Prints one line per check.
D=$(readlink -f "$1"); shift
cd /repo || exit 2
[ -n "$(git status --porcelain)" ] && { echo "/repo is dirty"; exit 2; }
git apply "$D/patch.diff" || { echo "patch does not apply"; exit 2; }
trap 'git -C /repo checkout -- . ; git -C /repo clean -fdq' EXIT
cd /verif
for p in "$@"; do
  out=$(./check $p --tier ${TIER:-quick} 2>&1); rc=$?
  echo "$(basename $(dirname $D))/$(basename $D) check=$p rc=$rc :: $(echo "$out" | grep -m1 -E 'VIOLATION|^OK' | cut -c1-200)"
  if [ $rc -ne 0 ]; then
    r=$(echo "$out" | grep -m1 -o 'replay=[^ ]*' | cut -d= -f2)
    [ -n "$r" ] && [ -f "$r" ] && python3 -c "
import json,sys; o=json.load(open('$r')); print('    what:', (o.get('what') or (o.get('no_longer_checks') or [{}])[0].get('detail',''))[:300]); print('    expected:', str(o.get('expected'))[:120], '| got:', str(o.get('got'))[:160])"
  fi
done
