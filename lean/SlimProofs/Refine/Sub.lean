import SlimProofs.Refine.ShortTable
import SlimProofs.Refine.Extract
/-
  SlimProofs.Refine.Sub — the substitution list `sub` of `creator.build` under `ShapeOK`:
  it satisfies the hypothesis of `ofMany`, every short code decodes through the short table, a
  substituted node keeps its number of bits, and the bit offset of the `m`-th inner node.
-/

namespace Refine

open Bits Slim

/-! ### inner records and node ids -/

theorem inner_index (t : Trie1) (j : Nat) (r : InnerRec) (h : t.nodes[j]? = some (.inner r)) :
    (eInners t)[(innersBefore t.nodes j).length]? = some r := by
  rw [eInners_eq, innersBefore_eq']
  exact getElem?_filterMap_take innerOf _ j (.inner r) r (by rw [Array.getElem?_toList]; exact h) rfl

theorem inner_at (t : Trie1) (m : Nat) (r : InnerRec) (h : (eInners t)[m]? = some r) :
    ∃ j, t.nodes[j]? = some (.inner r) ∧ (innersBefore t.nodes j).length = m := by
  rw [eInners_eq] at h
  obtain ⟨j, a, h1, h2, h3⟩ := getElem?_filterMap_inv innerOf _ m r h
  cases a with
  | inner r' =>
    simp only [innerOf, Option.some.injEq] at h2
    subst h2
    refine ⟨j, ?_, ?_⟩
    · rw [← Array.getElem?_toList]; exact h1
    · rw [innersBefore_eq']; exact h3
  | leaf _ _ => simp [innerOf] at h2

theorem innersBefore_eq_take (t : Trie1) (j : Nat) :
    innersBefore t.nodes j = (eInners t).take (innersBefore t.nodes j).length := by
  rw [eInners_eq, innersBefore_eq']
  exact filterMap_take_eq_take innerOf _ j

theorem innersBefore_length_le (t : Trie1) (j : Nat) :
    (innersBefore t.nodes j).length ≤ (eInners t).length := by
  rw [eInners_eq, innersBefore_eq']
  exact length_filterMap_take_le innerOf _ j

theorem rec_labels {t : Trie1} (hs : ShapeOK t) {m : Nat} {r : InnerRec} (h : (eInners t)[m]? = some r) :
    r.labels ≠ [] ∧ Asc r.labels ∧ ∀ l ∈ r.labels, l < labelBound r.big := by
  obtain ⟨j, hj, _⟩ := inner_at t m r h
  exact hs.labels j r hj

theorem rec_big {t : Trie1} (hs : ShapeOK t) {m : Nat} {r : InnerRec} (h : (eInners t)[m]? = some r) :
    r.big = true ↔ m < t.bigCnt := by
  obtain ⟨j, hj, hm⟩ := inner_at t m r h
  rw [← hm]; exact hs.bigPrefix j r hj

theorem rec_pref {t : Trie1} (hs : ShapeOK t) {m : Nat} {r : InnerRec} (h : (eInners t)[m]? = some r) :
    PrefOK t.opt r.pref := by
  obtain ⟨j, hj, _⟩ := inner_at t m r h
  exact hs.pref j r hj

theorem mem_labels {t : Trie1} (hs : ShapeOK t) {r : InnerRec} (h : r ∈ eInners t) :
    r.labels ≠ [] ∧ Asc r.labels ∧ ∀ l ∈ r.labels, l < labelBound r.big := by
  obtain ⟨m, hm⟩ := List.mem_iff_getElem?.mp h
  exact rec_labels hs hm

/-! ### a short code -/

theorem popcount_pos_ne_zero {c : Nat} (h : 0 < popcount c) : c ≠ 0 := by
  rintro rfl; rw [popcount_zero] at h; omega

/-- what `mostUsed[bm17 labels] = c` means for a small inner node -/
theorem short_code_spec {t : Trie1} (hs : ShapeOK t) {r : InnerRec} (hr : r ∈ eInners t)
    (hbig : r.big = false) {bm c : Nat} (hbm : bm = bm17 r.labels) (hmem : (bm, c) ∈ eMostUsed t) :
    c < 2 ^ eShortSize t ∧ (eTbl t)[c]? = some (bm17 r.labels) ∧ popcount c = r.labels.length
      ∧ 0 < eShortSize t := by
  obtain ⟨h1, h2, r', hr', hb', hl', hbm'⟩ := eMostUsed_spec t (bm, c) hmem
  simp only at h1 h2 hl' hbm'
  obtain ⟨hne, hasc, hlt⟩ := mem_labels hs hr
  obtain ⟨_, hasc', hlt'⟩ := mem_labels hs hr'
  simp only [hbig, hb', labelBound] at hlt hlt'
  have p1 := popcount_bm17 hasc (fun l hl => by have := hlt l hl; simp at this; omega)
  have p2 := popcount_bm17 hasc' (fun l hl => by have := hlt' l hl; simp at this; omega)
  have hpc : popcount c = r.labels.length := by rw [← hl', ← p2, hbm', hbm, p1]
  refine ⟨h1, by rw [← hbm]; exact h2, hpc, ?_⟩
  have hpos : 0 < r.labels.length := List.length_pos_iff.mpr hne
  have hc0 : c ≠ 0 := popcount_pos_ne_zero (by omega)
  rcases Nat.eq_zero_or_pos (eShortSize t) with h0 | h0
  · rw [h0] at h1; simp at h1; omega
  · exact h0

/-- everything the proof needs to know about one entry of `sub` -/
theorem sub_facts {t : Trie1} (hs : ShapeOK t) {m : Nat} {r : InnerRec} (h : (eInners t)[m]? = some r) :
    Asc (subOf (eMostUsed t) (eShortSize t) r).1
    ∧ (∀ y ∈ (subOf (eMostUsed t) (eShortSize t) r).1, y < (subOf (eMostUsed t) (eShortSize t) r).2.1)
    ∧ (subOf (eMostUsed t) (eShortSize t) r).1.length = r.labels.length
    ∧ 0 < (subOf (eMostUsed t) (eShortSize t) r).2.1
    ∧ (r.big = true → subOf (eMostUsed t) (eShortSize t) r = (r.labels, 257, false))
    ∧ (r.big = false → (subOf (eMostUsed t) (eShortSize t) r).2.2 = false →
        subOf (eMostUsed t) (eShortSize t) r = (r.labels, 17, false))
    ∧ ((subOf (eMostUsed t) (eShortSize t) r).2.2 = true → r.big = false ∧
        ∃ c, subOf (eMostUsed t) (eShortSize t) r = (toArray [c], eShortSize t, true)
          ∧ c < 2 ^ eShortSize t ∧ (eTbl t)[c]? = some (bm17 r.labels) ∧ 0 < eShortSize t) := by
  obtain ⟨hne, hasc, hlt⟩ := rec_labels hs h
  have hr : r ∈ eInners t := List.mem_of_getElem? h
  by_cases hbig : r.big = true
  · have e : subOf (eMostUsed t) (eShortSize t) r = (r.labels, 257, false) := by
      simp [subOf, hbig, bigInnerSize]
    rw [e]
    simp only [hbig, labelBound, if_true] at hlt
    refine ⟨hasc, hlt, rfl, by simp, fun _ => rfl, ?_, ?_⟩
    · intro h'; rw [hbig] at h'; cases h'
    · intro h'; cases h'
  · have hbig' : r.big = false := by simpa using hbig
    simp only [hbig', labelBound] at hlt
    have hlt17 : ∀ l ∈ r.labels, l < 17 := fun y hy => by have := hlt y hy; simpa using this
    cases hf : (eMostUsed t).find? (·.1 == bm17 r.labels) with
    | none =>
      have e : subOf (eMostUsed t) (eShortSize t) r = (r.labels, 17, false) := by
        simp [subOf, hbig', hf, innerSize]
      rw [e]
      refine ⟨hasc, hlt17, rfl, by simp, ?_, fun _ _ => rfl, ?_⟩
      · intro h'; exact absurd h' hbig
      · intro h'; cases h'
    | some p =>
      obtain ⟨bm, c⟩ := p
      have e : subOf (eMostUsed t) (eShortSize t) r = (toArray [c], eShortSize t, true) := by
        simp [subOf, hbig', hf]
      rw [e]
      have hmem : (bm, c) ∈ eMostUsed t := List.mem_of_find?_eq_some hf
      have hbm : bm = bm17 r.labels := by
        have := List.find?_some hf
        simpa using this
      obtain ⟨h1, h2, h3, h4⟩ := short_code_spec hs hr hbig' hbm hmem
      refine ⟨toArray_asc _, toArray_singleton_lt h1, ?_, h4, ?_, ?_, ?_⟩
      · rw [length_toArray_singleton, h3]
      · intro h'; exact absurd h' hbig
      · intro _ h'; cases h'
      · intro _; exact ⟨hbig', c, rfl, h1, h2, h4⟩

/-! ### `sub` as input of `ofMany` -/

theorem eSub_getElem? (t : Trie1) (m : Nat) :
    (eSub t)[m]? = (eInners t)[m]?.map (subOf (eMostUsed t) (eShortSize t)) := by
  unfold eSub; rw [List.getElem?_map]

theorem eSub_length (t : Trie1) : (eSub t).length = (eInners t).length := by
  unfold eSub; rw [List.length_map]

abbrev eSubs (t : Trie1) : List (List Nat) := (eSub t).map (·.1)
abbrev eSizes (t : Trie1) : List Nat := (eSub t).map (·.2.1)

theorem subsOK_of_forall (l : List (List Nat × Nat × Bool))
    (h : ∀ x ∈ l, Asc x.1 ∧ ∀ y ∈ x.1, y < x.2.1) :
    SubsOK (l.map (·.1)) (l.map (·.2.1)) := by
  induction l with
  | nil => simp [SubsOK]
  | cons x l ih =>
    simp only [List.map_cons, SubsOK]
    exact ⟨(h x (by simp)).1, (h x (by simp)).2, ih (fun y hy => h y (List.mem_cons_of_mem _ hy))⟩

theorem eSub_ok {t : Trie1} (hs : ShapeOK t) : SubsOK (eSubs t) (eSizes t) := by
  apply subsOK_of_forall
  intro x hx
  obtain ⟨m, hm⟩ := List.mem_iff_getElem?.mp hx
  rw [eSub_getElem?] at hm
  cases hr : (eInners t)[m]? with
  | none => rw [hr] at hm; cases hm
  | some r =>
    rw [hr] at hm
    simp only [Option.map_some, Option.some.injEq] at hm
    subst hm
    have := sub_facts hs hr
    exact ⟨this.1, this.2.1⟩

/-- bit offset of the `m`-th inner node -/
def baseOf (t : Trie1) (m : Nat) : Nat := ((eSizes t).take m).sum

/-- number of short nodes among the first `m` inner nodes -/
def shortsBefore (t : Trie1) (m : Nat) : Nat := ((eSub t).take m).countP (·.2.2)

theorem baseOf_succ (t : Trie1) (m : Nat) (x : List Nat × Nat × Bool) (hx : (eSub t)[m]? = some x) :
    baseOf t (m + 1) = baseOf t m + x.2.1 := by
  unfold baseOf
  rw [List.take_add_one, List.sum_append, List.getElem?_map, hx]
  simp

theorem shortsBefore_succ (t : Trie1) (m : Nat) (x : List Nat × Nat × Bool)
    (hx : (eSub t)[m]? = some x) :
    shortsBefore t (m + 1) = shortsBefore t m + (if x.2.2 then 1 else 0) := by
  unfold shortsBefore
  rw [List.take_add_one, List.countP_append, hx]
  simp [List.countP_cons]

/-- the offset formula of `getNode` (in `Nat`, with the product `shortSize * shorts` as an atom) -/
theorem baseOf_formula {t : Trie1} (hs : ShapeOK t) (m : Nat) (hm : m ≤ (eInners t).length) :
    baseOf t m + 17 * shortsBefore t m
      = 240 * min m t.bigCnt + 17 * m + eShortSize t * shortsBefore t m
    ∧ (m ≤ t.bigCnt → shortsBefore t m = 0) := by
  induction m with
  | zero => simp [baseOf, shortsBefore]
  | succ m ih =>
    have hlt : m < (eInners t).length := by omega
    obtain ⟨ih1, ih2⟩ := ih (by omega)
    have hr : (eInners t)[m]? = some (eInners t)[m] := List.getElem?_eq_getElem hlt
    generalize (eInners t)[m] = r at hr
    have hx : (eSub t)[m]? = some (subOf (eMostUsed t) (eShortSize t) r) := by
      rw [eSub_getElem?, hr]; rfl
    obtain ⟨_, _, _, _, f5, f6, f7⟩ := sub_facts hs hr
    have hbig := rec_big hs hr
    rw [baseOf_succ t m _ hx, shortsBefore_succ t m _ hx]
    cases hb : r.big with
    | true =>
      have hmb : m < t.bigCnt := hbig.mp hb
      rw [f5 hb]
      simp only [Bool.false_eq_true, if_false, Nat.add_zero]
      have e1 : min (m + 1) t.bigCnt = m + 1 := by omega
      have e2 : min m t.bigCnt = m := by omega
      rw [e1]; rw [e2] at ih1
      exact ⟨by omega, fun _ => ih2 (by omega)⟩
    | false =>
      have hmb : ¬ m < t.bigCnt := fun h => by rw [hbig.mpr h] at hb; cases hb
      have e1 : min (m + 1) t.bigCnt = t.bigCnt := by omega
      have e2 : min m t.bigCnt = t.bigCnt := by omega
      rw [e1]; rw [e2] at ih1
      cases hsh : (subOf (eMostUsed t) (eShortSize t) r).2.2 with
      | false =>
        rw [f6 hb hsh]
        simp only [Bool.false_eq_true, if_false, Nat.add_zero]
        exact ⟨by omega, fun h => by omega⟩
      | true =>
        obtain ⟨_, c, hc, _⟩ := f7 hsh
        rw [hc]
        simp only [if_true, Nat.mul_add, Nat.mul_one]
        exact ⟨by omega, fun h => by omega⟩

theorem baseOf_big {t : Trie1} (hs : ShapeOK t) (m : Nat) (hm : m ≤ (eInners t).length)
    (hb : m ≤ t.bigCnt) : baseOf t m = m * 257 := by
  obtain ⟨h1, h2⟩ := baseOf_formula hs m hm
  rw [h2 hb, Nat.min_eq_left hb] at h1
  omega

/-- the `Int` expression `getNode` evaluates -/
theorem baseOf_int {t : Trie1} (hs : ShapeOK t) (m : Nat) (hm : m ≤ (eInners t).length)
    (hb : t.bigCnt ≤ m) :
    ((bigInnerSize : Int) - innerSize) * t.bigCnt + (innerSize : Int) * m
      + ((eShortSize t : Int) - innerSize) * shortsBefore t m = (baseOf t m : Int) := by
  obtain ⟨h1, _⟩ := baseOf_formula hs m hm
  rw [Nat.min_eq_right hb] at h1
  have hmul : ((eShortSize t * shortsBefore t m : Nat) : Int)
      = (eShortSize t : Int) * (shortsBefore t m : Int) := Int.natCast_mul _ _
  have e1 : ((bigInnerSize : Nat) : Int) = 257 := rfl
  have e2 : ((innerSize : Nat) : Int) = 17 := rfl
  rw [e1, e2, Int.sub_mul, Int.sub_mul]
  omega

/-- the labels of the first `m` inner nodes and the bits of the first `m` substitutions -/
theorem sum_subs_length {t : Trie1} (hs : ShapeOK t) (m : Nat) :
    (((eSubs t).take m).map List.length).sum
      = (((eInners t).take m).map (fun r => r.labels.length)).sum := by
  unfold eSubs eSub
  rw [List.map_map, ← List.map_take, List.map_map]
  apply sum_map_congr
  intro r hr
  obtain ⟨i, hi⟩ := List.mem_iff_getElem?.mp (List.mem_of_mem_take hr)
  exact (sub_facts hs hi).2.2.1

end Refine
