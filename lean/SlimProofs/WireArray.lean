import SlimProofs.WireSlim
import SlimModel.ArrayMsg
/-
  SlimProofs.WireArray — array.Bits and array.Array32 (the three sections of the pre-0.5.10
  layout): normal form, decode ∘ encode = id, size = length.
-/

namespace Array32Msg
/-- Normal form: `XXX_unrecognized` holds only well-formed, canonically keyed fields that the
    Array32 unmarshaler does not consume itself. -/
def NF (a : Array32Msg) : Prop := Wire.unknownOnly Wire.array32Known a.unrecognized = true
end Array32Msg

namespace Wire

/-! ### array.Bits -/

theorem decodeBits_encode (b : BitsMsg) (hwf : b.WF) (hsz : (encodeBits b).length < 2 ^ 64) :
    decodeBitsInto {} (encodeBits b) = .ok b := by
  obtain ⟨fl, n, w, r⟩ := b
  obtain ⟨hfl, hn, hw, hr⟩ := hwf
  simp only at hfl hn hw hr
  unfold encodeBits at hsz
  simp only [List.length_append] at hsz
  have l3 := encPackedF_payload_le 20 w
  have l4 := encPackedF_payload_le 30 r
  unfold decodeBitsInto encodeBits
  simp only
  rw [decodeMsg_encVarintF bitsH dropUnknown {} { flags := fl } (fno := 1) fnoOK (by omega) _
    (fun _ => by simp [bitsH, scalarU32, toUint32_id hfl]) (fun h0 => by subst h0; rfl)]
  rw [decodeMsg_encVarintF bitsH dropUnknown { flags := fl } { flags := fl, n := n } (fno := 10) fnoOK (by omega) _
    (fun _ => by simp [bitsH, scalarI32, toInt32_id hn]) (fun h0 => by subst h0; rfl)]
  rw [decodeMsg_encPackedF bitsH dropUnknown { flags := fl, n := n } { flags := fl, n := n, words := w }
    (fno := 20) fnoOK w (by omega) _
    (fun _ => by simp [bitsH, repU64_packed w hw]) (fun h0 => by subst h0; rfl)]
  have h4 := decodeMsg_encPackedF bitsH dropUnknown { flags := fl, n := n, words := w }
    { flags := fl, n := n, words := w, rankIndex := r } (fno := 30) fnoOK r (by omega) []
    (fun _ => by simp [bitsH, repI32_packed r hr]) (fun h0 => by subst h0; rfl)
  rw [List.append_nil] at h4
  rw [h4, decodeMsg_nil]

theorem bitsI32OK_of_WF (b : BitsMsg) (h : b.WF) : bitsI32OK b = true := by
  obtain ⟨_, hn, _, hr⟩ := h
  simp [bitsI32OK, i32ok, hn, all_i32ok _ hr]

theorem decodeBitsTop_encode (b : BitsMsg) (hwf : b.WF) (hsz : (encodeBits b).length < 2 ^ 64) :
    decodeBits (encodeBits b) = .ok b := by
  unfold decodeBits
  rw [decodeBits_encode b hwf hsz, checkI32_ok _ _ (bitsI32OK_of_WF b hwf)]

theorem protoSizeBits_eq (b : BitsMsg) : protoSizeBits b = (encodeBits b).length := by
  simp [protoSizeBits, encodeBits, encPackedF_length, encVarintF_length]

theorem msgF_bits (b : BitsMsg) (hwf : b.WF) (hsz : (encodeBits b).length < 2 ^ 64) :
    msgF decodeBitsInto none (.bytes (encodeBits b)) = .ok (some (some b)) := by
  have hd : (default : BitsMsg) = {} := rfl
  simp [msgF, hd, decodeBits_encode b hwf hsz]

/-! ### array.Array32 -/

set_option linter.unusedSimpArgs false in
theorem array32H_unknown (acc : Array32Msg) (fno wire : Nat) (v : WVal)
    (hk : array32Known fno wire = false) (hf : Fits wire v) : array32H acc fno v = .ok none := by
  rcases hf with ⟨rfl, w, rfl⟩ | ⟨rfl, p, rfl⟩ | ⟨h0, h2, rfl⟩
  · unfold array32H; split <;> simp_all [array32Known, scalarI32, scalarU32, msgF, repU64, repI32, repVals, bytesF]
  · unfold array32H; split <;> simp_all [array32Known, scalarI32, scalarU32, msgF, repU64, repI32, repVals, bytesF]
  · unfold array32H; split <;> simp_all [array32Known, scalarI32, scalarU32, msgF, repU64, repI32, repVals, bytesF]

theorem decodeArray32Into_unknown (acc : Array32Msg) (bs : Bytes) (h : unknownOnly array32Known bs = true) :
    decodeArray32Into acc bs = .ok { acc with unrecognized := acc.unrecognized ++ bs } := by
  unfold decodeArray32Into
  exact decodeMsg_unknownOnly array32H array32U array32Known array32H_unknown
    (fun a r => { a with unrecognized := a.unrecognized ++ r }) (fun _ _ => rfl)
    (fun a => by simp) (fun a x y => by simp) bs.length bs acc (Nat.le_refl _) h


set_option linter.unusedSimpArgs false in
/-- Round trip of `array.Array32` through the proto3 wire format (the reading pass). -/
theorem decodeArray32Into_encode (a : Array32Msg) (hwf : a.WF) (hnf : a.NF) (hsz : (encodeArray32 a).length < 2 ^ 64) :
    decodeArray32Into {} (encodeArray32 a) = .ok a := by
  obtain ⟨c, bm, of, e, fl, w, be, u⟩ := a
  obtain ⟨hc, hbm, hof, hfl, hw, hbe⟩ := hwf
  simp only at hc hbm hof hfl hw hbe
  unfold Array32Msg.NF at hnf
  simp only at hnf
  unfold encodeArray32 encodeArray32Known at hsz
  simp only [List.length_append] at hsz
  have lbm := encPackedF_payload_le 2 bm
  have lof := encPackedF_payload_le 3 of
  have le := encBytesF_payload_le 4 e
  unfold decodeArray32Into encodeArray32 encodeArray32Known
  simp only [List.append_assoc]
  rw [decodeMsg_encVarintF array32H array32U {} { cnt := c } (fno := 1) fnoOK (by omega) _
    (fun _ => by simp [array32H, scalarI32, toInt32_id hc]) (fun h0 => by subst h0; rfl)]
  rw [decodeMsg_encPackedF array32H array32U { cnt := c } { cnt := c, bitmaps := bm } (fno := 2) fnoOK bm (by omega) _
    (fun _ => by simp [array32H, repU64_packed bm hbm]) (fun h0 => by subst h0; rfl)]
  rw [decodeMsg_encPackedF array32H array32U { cnt := c, bitmaps := bm } { cnt := c, bitmaps := bm, offsets := of } (fno := 3) fnoOK of (by omega) _
    (fun _ => by simp [array32H, repI32_packed of hof]) (fun h0 => by subst h0; rfl)]
  rw [decodeMsg_encBytesF array32H array32U { cnt := c, bitmaps := bm, offsets := of } { cnt := c, bitmaps := bm, offsets := of, elts := e } (fno := 4) fnoOK e (by omega) _
    (fun _ => by simp [array32H, bytesF]) (fun h0 => by subst h0; rfl)]
  rw [decodeMsg_encVarintF array32H array32U { cnt := c, bitmaps := bm, offsets := of, elts := e } { cnt := c, bitmaps := bm, offsets := of, elts := e, flags := fl } (fno := 10) fnoOK (by omega) _
    (fun _ => by simp [array32H, scalarU32, toUint32_id hfl]) (fun h0 => by subst h0; rfl)]
  rw [decodeMsg_encVarintF array32H array32U { cnt := c, bitmaps := bm, offsets := of, elts := e, flags := fl } { cnt := c, bitmaps := bm, offsets := of, elts := e, flags := fl, eltWidth := w } (fno := 20) fnoOK (by omega) _
    (fun _ => by simp [array32H, scalarI32, toInt32_id hw]) (fun h0 => by subst h0; rfl)]
  rw [decodeMsg_encMsgF array32H array32U { cnt := c, bitmaps := bm, offsets := of, elts := e, flags := fl, eltWidth := w } { cnt := c, bitmaps := bm, offsets := of, elts := e, flags := fl, eltWidth := w, bmElts := be } (fno := 30) fnoOK (be.map encodeBits)
    (by
      intro p hp
      cases be with
      | none => simp at hp
      | some x =>
        simp at hp; subst hp
        have := encMsgF_payload_le 30 (encodeBits x)
        simp at hsz; omega) _
    (by
      intro p hp
      cases be with
      | none => simp at hp
      | some x =>
        simp at hp; subst hp
        have hl := encMsgF_payload_le 30 (encodeBits x)
        have : (encodeBits x).length < 2 ^ 64 := by simp at hsz; omega
        simp [array32H, msgF_bits x (hbe x rfl) this])
    (fun h0 => by cases be <;> simp at h0; rfl)]
  have := decodeArray32Into_unknown { cnt := c, bitmaps := bm, offsets := of, elts := e, flags := fl, eltWidth := w, bmElts := be } u hnf
  unfold decodeArray32Into at this
  rw [this]
  simp

theorem array32I32OK_of_WF (a : Array32Msg) (h : a.WF) : array32I32OK a = true := by
  obtain ⟨hc, _, hof, _, hw, hbe⟩ := h
  simp [array32I32OK, i32ok, hc, hw, all_i32ok _ hof,
    optOK_of bitsI32OK _ (fun b hb => bitsI32OK_of_WF b (hbe b hb))]

/-- Round trip of `array.Array32` through the proto3 wire format. -/
theorem decodeArray32_encode (a : Array32Msg) (hwf : a.WF) (hnf : a.NF) (hsz : (encodeArray32 a).length < 2 ^ 64) :
    decodeArray32 (encodeArray32 a) = .ok a := by
  unfold decodeArray32
  rw [decodeArray32Into_encode a hwf hnf hsz, checkI32_ok _ _ (array32I32OK_of_WF a hwf)]

theorem protoSizeArray32_eq (a : Array32Msg) : protoSizeArray32 a = (encodeArray32 a).length := by
  simp only [protoSizeArray32, encodeArray32, encodeArray32Known, List.length_append, encVarintF_length,
    encPackedF_length, encBytesF_length, encMsgF_length, Option.map_map]
  have e1 : (List.length ∘ encodeBits) = protoSizeBits := by
    funext b; exact (protoSizeBits_eq b).symm
  rw [e1]

end Wire
