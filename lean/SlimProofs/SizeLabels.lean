import SlimProofs.BuildTotal
import SlimProofs.LeafCount
/-
  SlimProofs.SizeLabels — C17: when no key is dropped (no values), every inner record that
  `build` makes has at least 2 labels, and every 257-bit record has at least 11
  (`prefCnt > 10` adjacent pairs first differ inside the branching byte, each such pair carries
  two different 8-bit labels, labels are ascending along the keys).  Also `bigCnt ≤ #inner` and
  `#leaves = #keys`.
-/

namespace SizeLabels

open BuildInv BuildShape BuildTotal

/-! ### `dedupAdj` counts the adjacent changes -/

def adjDiff : List Nat → Nat
  | a :: b :: rest => (if a = b then 0 else 1) + adjDiff (b :: rest)
  | _ => 0

theorem length_dedupAdj (l : List Nat) (h : l ≠ []) : (dedupAdj l).length = adjDiff l + 1 := by
  induction l with
  | nil => exact absurd rfl h
  | cons a l ih =>
    cases l with
    | nil => simp [dedupAdj, adjDiff]
    | cons b rest =>
      have ih' := ih (by simp)
      simp only [dedupAdj, adjDiff]
      split
      · rw [ih']; omega
      · rw [List.length_cons, ih']; omega

theorem adjDiff_map_range' (f : Nat → Nat) (s m : Nat) :
    adjDiff ((List.range' s m).map f)
      = ((List.range' s (m - 1)).filter (fun t => f t != f (t + 1))).length := by
  induction m generalizing s with
  | zero => simp [adjDiff]
  | succ m ih =>
    cases m with
    | zero => simp [adjDiff]
    | succ m =>
      have e1 : List.range' s (m + 1 + 1) = s :: (s + 1) :: List.range' (s + 1 + 1) m := by
        simp [List.range'_succ]
      have e2 : List.range' (s + 1) (m + 1) = (s + 1) :: List.range' (s + 1 + 1) m := by
        simp [List.range'_succ]
      have ih' := ih (s + 1)
      rw [e2] at ih'
      rw [e1]
      simp only [List.map_cons, adjDiff]
      simp only [List.map_cons] at ih'
      rw [ih']
      simp only [Nat.add_sub_cancel, List.range'_succ, List.filter_cons]
      by_cases h : f s = f (s + 1) <;> simp [h] <;> omega

/-! ### the labels of one subset when every key is kept -/

theorem keptAt_replicate (n t : Nat) (h : t < n) : keptAt (List.replicate n true) t = true := by
  simp [keptAt, List.getD_eq_getElem?_getD, h]

/-- number of labels = 1 + number of adjacent pairs with different labels -/
theorem keptLabels_length {keys : List Bytes} {opt : Opt} {c : BCtx}
    (hc : CtxOK keys (List.replicate keys.length true) opt c) {s e : Nat} (hse : s < e)
    (he : e ≤ keys.length) (ws : Nat) (big : Bool) :
    (keptLabels c s e ws big).length
      = ((List.range' s (e - s - 1)).filter
          (fun t => labelOf keys ws big t != labelOf keys ws big (t + 1))).length + 1 := by
  unfold keptLabels
  have hall : (List.range' s (e - s)).filter (fun t => c.keep.getD t false) = List.range' s (e - s) := by
    rw [List.filter_eq_self]
    intro t ht
    rw [List.mem_range'_1] at ht
    rw [hc.keep]
    exact keptAt_replicate _ _ (by omega)
  rw [hall, keyLabel_eq hc, length_dedupAdj _ (by
    intro h
    have := congrArg List.length h
    simp at this; omega), adjDiff_map_range']

/-- what `buildStep` guarantees for the labels of the inner record it makes -/
theorem labels_count {keys : List Bytes} {opt : Opt} {c : BCtx}
    (hc : CtxOK keys (List.replicate keys.length true) opt c) (hasc : strictAsc keys = true)
    {s e : Nat} (h2 : s + 2 ≤ e) (he : e ≤ keys.length) (isBig : Bool) :
    let goBig := isBig && decide (prefCnt c s e (minLcp c s e) > 10)
    let ws := if goBig then minLcp c s e - minLcp c s e % 2 else minLcp c s e
    2 ≤ (keptLabels c s e ws goBig).length ∧
      (goBig = true → 11 ≤ (keptLabels c s e ws goBig).length) := by
  intro goBig ws
  rw [keptLabels_length hc (by omega) he]
  constructor
  · obtain ⟨t, h1, h3, h4⟩ := labels_differ hc hasc he h2 goBig (ws := ws) rfl
    have : t ∈ (List.range' s (e - s - 1)).filter
        (fun t => labelOf keys ws goBig t != labelOf keys ws goBig (t + 1)) := by
      rw [List.mem_filter, List.mem_range'_1]
      exact ⟨⟨h1, by omega⟩, by simpa using h4⟩
    have := List.length_pos_of_mem this
    omega
  · intro hgo
    have hpc : prefCnt c s e (minLcp c s e) > 10 := by
      have : (isBig && decide (prefCnt c s e (minLcp c s e) > 10)) = true := hgo
      simp only [Bool.and_eq_true, decide_eq_true_eq] at this
      exact this.2
    have hws : ws = minLcp c s e - minLcp c s e % 2 := by
      show (if goBig = true then _ else _) = _
      rw [if_pos hgo]
    unfold prefCnt at hpc
    have hlen : e - 1 - s = e - s - 1 := by omega
    rw [hlen] at hpc
    have hmono : ((List.range' s (e - s - 1)).filter
        (fun t => c.lcps.getD t 0 / 2 == minLcp c s e / 2)).length
        ≤ ((List.range' s (e - s - 1)).filter
          (fun t => labelOf keys ws goBig t != labelOf keys ws goBig (t + 1))).length := by
      rw [← List.countP_eq_length_filter, ← List.countP_eq_length_filter]
      apply List.countP_mono_left
      intro t ht hcond
      rw [List.mem_range'_1] at ht
      have hlt : t + 1 < keys.length := by omega
      rw [hc.lcps t hlt] at hcond
      have hcond' : lcp (knOf keys t) (knOf keys (t + 1)) / 2 = minLcp c s e / 2 := by
        simpa using hcond
      have hne := label_ne_of_lcp (knOf_lt16 keys t) (knOf_lt16 keys (t + 1)) (knOf_even keys t)
        (knOf_even keys (t + 1)) (knOf_ne hasc (by omega) hlt) goBig (ws := ws)
        (by rw [hgo, if_pos rfl, hws]; omega)
      unfold labelOf
      simpa using hne
    omega

/-! ### a property of every record the loop pushes -/

theorem buildLoop_all {keys : List Bytes} {keep : List Bool} {opt : Opt} {c : BCtx}
    (hc : CtxOK keys keep opt c) (hasc : strictAsc keys = true) (Q : Node → Prop)
    (hstep : ∀ (st : BSt) (i : Nat) (st' : BSt), BInv keys keep opt st i → (hi : i < st.queue.size) →
      buildStep c st st.queue[i] = .ok st' → ∃ nd, st'.nodes = st.nodes.push nd ∧ Q nd)
    (fuel i : Nat) (st st' : BSt) (hinv : BInv keys keep opt st i)
    (hall : ∀ nd ∈ st.nodes.toList, Q nd) (h : buildLoop c fuel i st = .ok st') :
    ∀ nd ∈ st'.nodes.toList, Q nd := by
  induction fuel generalizing i st with
  | zero =>
    simp only [buildLoop] at h
    split at h
    · cases h
    · cases h; exact hall
  | succ fuel ih =>
    simp only [buildLoop] at h
    split at h
    · next hi =>
      split at h
      · next st2 hst =>
        obtain ⟨nd, hnd, hq⟩ := hstep st i st2 hinv hi hst
        apply ih _ _ (buildStep_inv hc hasc hinv hi hst) _ h
        intro x hx
        rw [hnd, Array.toList_push, List.mem_append] at hx
        rcases hx with hx | hx
        · exact hall x hx
        · simp at hx; rw [hx]; exact hq
      · cases h
    · cases h; exact hall

/-- at least 2 labels, at least 11 on a 257-bit record -/
def LabelsOK : Node → Prop
  | .inner r => 2 ≤ r.labels.length ∧ (r.big = true → 11 ≤ r.labels.length)
  | .leaf _ _ => True

theorem buildStep_labelsOK {keys : List Bytes} {opt : Opt} {c : BCtx}
    (hc : CtxOK keys (List.replicate keys.length true) opt c) (hasc : strictAsc keys = true)
    (st : BSt) (i : Nat) (st' : BSt) (hinv : BInv keys (List.replicate keys.length true) opt st i)
    (hi : i < st.queue.size) (h : buildStep c st st.queue[i] = .ok st') :
    ∃ nd, st'.nodes = st.nodes.push nd ∧ LabelsOK nd := by
  have hsub := hinv.sub i st.queue[i] (Array.getElem?_eq_getElem hi)
  generalize st.queue[i] = o at h hsub
  by_cases hleaf : o.e - o.s = 1
  · rw [buildStep_leaf_eq _ _ o hleaf] at h
    cases h
    exact ⟨_, rfl, trivial⟩
  · rw [buildStep_inner_eq _ _ o hleaf _ rfl _ rfl] at h
    have h2 : o.s + 2 ≤ o.e := by have := hsub.lt; omega
    have hlab := labels_count hc hasc h2 hsub.le st.isBig
    simp only at hlab
    generalize (st.isBig && decide (prefCnt c o.s o.e (minLcp c o.s o.e) > 10)) = goBig at h hlab
    generalize (if goBig = true then minLcp c o.s o.e - minLcp c o.s o.e % 2
      else minLcp c o.s o.e) = ws at h hlab
    split at h
    · cases h
    split at h
    · cases h
    cases h
    exact ⟨_, rfl, hlab⟩

/-! ### the built trie -/

theorem keepMask_none (n : Nat) (dedup : Bool) : keepMask n none dedup = List.replicate n true := rfl

theorem build_labelsOK (keys : List Bytes) (opt : Opt) (t : Trie1)
    (hb : build keys none opt = .ok t) (hne : keys ≠ []) : ∀ nd ∈ t.nodes.toList, LabelsOK nd := by
  obtain ⟨hasc, hv, st, hst, rfl⟩ := build_ok_elim hb hne
  have hn : keys.length ≠ 0 := fun h => hne (List.length_eq_zero_iff.mp h)
  have hc := mkCtx_ok keys none opt
  rw [keepMask_none] at hc
  have hinit := binv_init (vals := none) opt hn hv
  rw [keepMask_none] at hinit
  exact buildLoop_all hc hasc LabelsOK (buildStep_labelsOK hc hasc) _ _ _ _ hinit
    (by intro nd hnd; simp at hnd) hst

theorem build_bigCnt_le (keys : List Bytes) (vals : Option (List Bytes)) (opt : Opt) (t : Trie1)
    (hb : build keys vals opt = .ok t) (hne : keys ≠ []) :
    t.bigCnt ≤ (innersBefore t.nodes t.nodes.size).length := by
  obtain ⟨_, _, st, hst, rfl⟩ := build_ok_elim hb hne
  exact (buildLoop_sh _ _ _ _ (shinv_init _ rfl) hst).big2

theorem build_leaves_eq (keys : List Bytes) (opt : Opt) (t : Trie1)
    (hb : build keys none opt = .ok t) (hne : keys ≠ []) :
    leavesBefore t.nodes t.nodes.size = keys.length := by
  rw [build_leavesBefore keys none opt t hb hne]
  unfold retained
  rw [LeafCount.filterMask_length _ _ (by simp [entries, keepMask])]
  simp [keepMask]

end SizeLabels
