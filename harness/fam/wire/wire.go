// Package wire is the family `wire` of the line protocol: the byte level of
// serialization (wire half of properties C05 and C07).  The interpreter answers
// every op by calling the real code: (*trie.SlimTrie).Marshal/Unmarshal,
// pbcmpl.ReadHeader/Unmarshal, proto.Marshal/Unmarshal/Size on the exported
// message types trie.Slim and array.Array32, semver.Parse and vers.Check.
//
// ops (byte strings are "x"+hex), answers as documented in lean/Driver/Wire.lean:
//
//	wire.varint <n>              wire.unvarint <hex>
//	wire.decode <body>           wire.decode-array <body>
//	wire.unmarshal <stream>      wire.remarshal <stream>      wire.sections <stream>
//	wire.header <stream>         wire.version <version bytes>
//	wire.stream <stream>         wire.cut <n>                 wire.cuts <from> <to> <step>
package wire

import (
	"bytes"
	"encoding/binary"
	"encoding/hex"
	"fmt"
	"hash/fnv"
	"io"
	"strconv"
	"strings"

	"github.com/blang/semver"
	"github.com/golang/protobuf/proto"
	"github.com/openacid/errors"
	"github.com/openacid/low/pbcmpl"
	"github.com/openacid/low/vers"
	"github.com/openacid/slim/array"
	"github.com/openacid/slim/encode"
	"github.com/openacid/slim/trie"

	"slimverif/harness/lp"
)

func init() {
	lp.Register("wire", interp)
	lp.RegisterGen("C05", genC05)
	lp.RegisterGen("C07", genC07)
}

var curStream []byte

// ---------------------------------------------------------------- rendering

func natList64(l []uint64) string {
	var b strings.Builder
	b.WriteByte('[')
	for i, v := range l {
		if i > 0 {
			b.WriteByte(',')
		}
		b.WriteString(strconv.FormatUint(v, 10))
	}
	b.WriteByte(']')
	return b.String()
}

func natList32(l []int32) string {
	var b strings.Builder
	b.WriteByte('[')
	for i, v := range l {
		if i > 0 {
			b.WriteByte(',')
		}
		b.WriteString(strconv.FormatInt(int64(v), 10))
	}
	b.WriteByte(']')
	return b.String()
}

func natListU32(l []uint32) string {
	var b strings.Builder
	b.WriteByte('[')
	for i, v := range l {
		if i > 0 {
			b.WriteByte(',')
		}
		b.WriteString(strconv.FormatUint(uint64(v), 10))
	}
	b.WriteByte(']')
	return b.String()
}

func dumpBitmap(b *trie.Bitmap) string {
	if b == nil {
		return "nil"
	}
	return "{w:" + natList64(b.Words) + ";r:" + natList32(b.RankIndex) + ";s:" + natList32(b.SelectIndex) + "}"
}

func dumpVLen(v *trie.VLenArray) string {
	if v == nil {
		return "nil"
	}
	return fmt.Sprintf("{n:%d;c:%d;p:%s;f:%d;b:%s;q:%s}", v.N, v.EltCnt, dumpBitmap(v.PositionBM),
		v.FixedSize, hex.EncodeToString(v.Bytes), dumpBitmap(v.PresenceBM))
}

func dumpSlim(s *trie.Slim) string {
	return fmt.Sprintf("{b:%d;s:%d;nt:%s;in:%s;sb:%s;st:%s;ip:%s;lp:%s;lv:%s;u:%s}",
		s.BigInnerCnt, s.ShortSize, dumpBitmap(s.NodeTypeBM), dumpBitmap(s.Inners), dumpBitmap(s.ShortBM),
		natListU32(s.ShortTable), dumpVLen(s.InnerPrefixes), dumpVLen(s.LeafPrefixes), dumpVLen(s.Leaves),
		hex.EncodeToString(s.XXX_unrecognized))
}

func dumpBits(b *array.Bits) string {
	if b == nil {
		return "nil"
	}
	return fmt.Sprintf("{fl:%d;n:%d;w:%s;r:%s}", b.Flags, b.N, natList64(b.Words), natList32(b.RankIndex))
}

func dumpArray32(a *array.Array32) string {
	return fmt.Sprintf("{c:%d;bm:%s;of:%s;e:%s;fl:%d;w:%d;be:%s;u:%s}", a.Cnt, natList64(a.Bitmaps),
		natList32(a.Offsets), hex.EncodeToString(a.Elts), a.Flags, a.EltWidth, dumpBits(a.BMElts),
		hex.EncodeToString(a.XXX_unrecognized))
}

func fnv64(b []byte) string {
	h := fnv.New64a()
	h.Write(b)
	return fmt.Sprintf("%016x", h.Sum64())
}

func render(d string) string {
	if len(d) <= 300 {
		return "d=" + d
	}
	return "fnv=" + fnv64([]byte(d)) + "/" + strconv.Itoa(len(d))
}

// classify maps a Go error to the canonical kind.
func classify(err error) string {
	c := errors.Cause(err)
	switch {
	case c == trie.ErrIncompatible:
		return "err:incompatible"
	case c == io.EOF || c == io.ErrUnexpectedEOF:
		return "err:truncated"
	case c == pbcmpl.ErrInvalidHeaderSize:
		return "err:other"
	default:
		return "err:bad-proto"
	}
}

// ---------------------------------------------------------------- helpers

func unhex(tok string) ([]byte, bool) {
	if !strings.HasPrefix(tok, "x") {
		return nil, false
	}
	b, err := hex.DecodeString(tok[1:])
	if err != nil {
		return nil, false
	}
	return b, true
}

func newTrie() *trie.SlimTrie {
	st, err := trie.NewSlimTrie(encode.I32{}, nil, nil)
	if err != nil {
		panic(err)
	}
	return st
}

// verOf returns the version string of the first header of a stream (pbcmpl.ReadHeader).
func verOf(stream []byte) string {
	_, h, err := pbcmpl.ReadHeader(bytes.NewReader(stream))
	if err != nil {
		return ""
	}
	return h.GetVersion()
}

// layoutOf names the branch of Unmarshal a compatible version takes.
func layoutOf(ver string) string {
	v, err := semver.Parse(ver)
	if err != nil {
		return "?"
	}
	switch fmt.Sprintf("%d.%d.%d", v.Major, v.Minor, v.Patch) {
	case newTrie().GetVersion():
		return "current"
	case "0.5.10", "0.5.11":
		return "v0510"
	}
	return "legacy3"
}

func readSections(stream []byte) (secs [3]*array.Array32, rest int, err error) {
	r := bytes.NewReader(stream)
	for i := 0; i < 3; i++ {
		secs[i] = &array.Array32{}
		if _, _, err = pbcmpl.Unmarshal(r, secs[i]); err != nil {
			return
		}
	}
	return secs, r.Len(), nil
}

func unmarshalAns(stream []byte) string {
	st := newTrie()
	if err := st.Unmarshal(stream); err != nil {
		return classify(err)
	}
	ver := verOf(stream)
	switch layoutOf(ver) {
	case "current", "v0510":
		m := &trie.Slim{}
		if _, _, err := pbcmpl.Unmarshal(bytes.NewReader(stream), m); err != nil {
			return "inconsistent:" + classify(err)
		}
		if layoutOf(ver) == "current" {
			return "current " + render(dumpSlim(m))
		}
		return "v0510 " + lp.XS(ver) + " " + render(dumpSlim(m))
	default:
		secs, _, err := readSections(stream)
		if err != nil {
			return "inconsistent:" + classify(err)
		}
		return "legacy3 " + lp.XS(ver) + " " + render(dumpArray32(secs[0])) + " " +
			render(dumpArray32(secs[1])) + " " + render(dumpArray32(secs[2]))
	}
}

func cutAns(stream []byte, n int) string {
	if n > len(stream) {
		n = len(stream)
	}
	return lp.Catch(func() string {
		st := newTrie()
		if err := st.Unmarshal(stream[:n]); err != nil {
			return classify(err)
		}
		return "ok"
	})
}

func probe(ver []byte) []byte {
	h := make([]byte, 32)
	copy(h, ver)
	binary.LittleEndian.PutUint64(h[16:], 32)
	binary.LittleEndian.PutUint64(h[24:], 0)
	return h
}

func b01(b bool) string {
	if b {
		return "1"
	}
	return "0"
}

func dumpSemver(v semver.Version) string {
	pre := make([]string, len(v.Pre))
	for i, p := range v.Pre {
		if p.IsNum {
			pre[i] = "n" + strconv.FormatUint(p.VersionNum, 10)
		} else {
			pre[i] = "s" + p.VersionStr
		}
	}
	return fmt.Sprintf("%d.%d.%d/%s/%s", v.Major, v.Minor, v.Patch, strings.Join(pre, ","), strings.Join(v.Build, ","))
}

func versionAns(vb []byte) string {
	if len(vb) > 16 {
		return "bad-op"
	}
	stream := probe(vb)
	compat := "compatible"
	func() {
		defer func() { recover() }()
		st := newTrie()
		if err := st.Unmarshal(stream); err != nil && errors.Cause(err) == trie.ErrIncompatible {
			compat = "incompatible"
		}
	}()
	ver := verOf(stream)
	v, err := semver.Parse(ver)
	if err != nil {
		return compat + " unparsable"
	}
	cur := newTrie().GetVersion()
	return compat + " " + lp.XS(dumpSemver(v)) +
		" cur=" + b01(vers.Check(ver, cur, "==0.5.10", "==0.5.11")) +
		" b512=" + b01(vers.Check(ver, "<0.5.12")) +
		" b510=" + b01(vers.Check(ver, "==1.0.0", "<0.5.10"))
}

func rle(answers []string) string {
	var parts []string
	for i := 0; i < len(answers); {
		j := i
		for j < len(answers) && answers[j] == answers[i] {
			j++
		}
		parts = append(parts, answers[i]+"*"+strconv.Itoa(j-i))
		i = j
	}
	return strings.Join(parts, ",")
}

func isNat(s string) bool {
	if s == "" {
		return false
	}
	for _, c := range s {
		if c < '0' || c > '9' {
			return false
		}
	}
	return true
}

// ---------------------------------------------------------------- interpreter

func interp(toks []string) string {
	switch toks[0] {
	case "wire.varint":
		if len(toks) != 2 || !isNat(toks[1]) {
			return "bad-op"
		}
		n, err := strconv.ParseUint(toks[1], 10, 64)
		if err != nil {
			return "bad-op"
		}
		bs := proto.EncodeVarint(n)
		// decode through the table-driven unmarshaler (field 20 of trie.Bitmap, unpacked)
		return lp.X(bs) + " " + unvarintAns(bs)
	case "wire.unvarint":
		if len(toks) != 2 {
			return "bad-op"
		}
		bs, ok := unhex(toks[1])
		if !ok {
			return "bad-op"
		}
		return unvarintAns(bs)
	case "wire.decode":
		if len(toks) != 2 {
			return "bad-op"
		}
		body, ok := unhex(toks[1])
		if !ok {
			return "bad-op"
		}
		m := &trie.Slim{}
		if err := proto.Unmarshal(body, m); err != nil {
			return classify(err)
		}
		re, err := proto.Marshal(m)
		if err != nil {
			return "err:marshal"
		}
		same := "diff"
		if bytes.Equal(re, body) {
			same = "same"
		}
		return "ok " + render(dumpSlim(m)) + " re=" + same + " size=" + strconv.Itoa(proto.Size(m))
	case "wire.decode-array":
		if len(toks) != 2 {
			return "bad-op"
		}
		body, ok := unhex(toks[1])
		if !ok {
			return "bad-op"
		}
		m := &array.Array32{}
		if err := proto.Unmarshal(body, m); err != nil {
			return classify(err)
		}
		re, err := proto.Marshal(m)
		if err != nil {
			return "err:marshal"
		}
		same := "diff"
		if bytes.Equal(re, body) {
			same = "same"
		}
		return "ok " + render(dumpArray32(m)) + " re=" + same + " size=" + strconv.Itoa(proto.Size(m))
	case "wire.unmarshal":
		if len(toks) != 2 {
			return "bad-op"
		}
		s, ok := unhex(toks[1])
		if !ok {
			return "bad-op"
		}
		return unmarshalAns(s)
	case "wire.remarshal":
		if len(toks) != 2 {
			return "bad-op"
		}
		s, ok := unhex(toks[1])
		if !ok {
			return "bad-op"
		}
		st := newTrie()
		if err := st.Unmarshal(s); err != nil {
			return classify(err)
		}
		if l := layoutOf(verOf(s)); l != "current" {
			return "skip:" + l
		}
		out, err := st.Marshal()
		if err != nil {
			return "err:marshal"
		}
		same := "diff"
		if bytes.Equal(out, s) {
			same = "same"
		}
		return same + " len=" + strconv.Itoa(len(out)) + " fnv=" + fnv64(out)
	case "wire.sections":
		if len(toks) != 2 {
			return "bad-op"
		}
		s, ok := unhex(toks[1])
		if !ok {
			return "bad-op"
		}
		secs, rest, err := readSections(s)
		if err != nil {
			return classify(err)
		}
		return "ok " + render(dumpArray32(secs[0])) + " " + render(dumpArray32(secs[1])) + " " +
			render(dumpArray32(secs[2])) + " rest=" + strconv.Itoa(rest)
	case "wire.header":
		if len(toks) != 2 {
			return "bad-op"
		}
		s, ok := unhex(toks[1])
		if !ok {
			return "bad-op"
		}
		_, h, err := pbcmpl.ReadHeader(bytes.NewReader(s))
		if err != nil {
			return classify(err)
		}
		return "ok " + lp.XS(h.GetVersion()) + " " + strconv.FormatUint(uint64(h.GetHeaderSize()), 10) + " " +
			strconv.FormatUint(uint64(h.GetBodySize()), 10)
	case "wire.version":
		if len(toks) != 2 {
			return "bad-op"
		}
		vb, ok := unhex(toks[1])
		if !ok {
			return "bad-op"
		}
		return versionAns(vb)
	case "wire.stream":
		if len(toks) != 2 {
			return "bad-op"
		}
		s, ok := unhex(toks[1])
		if !ok {
			return "bad-op"
		}
		curStream = s
		return "ok " + strconv.Itoa(len(s))
	case "wire.cut":
		if len(toks) != 2 || !isNat(toks[1]) {
			return "bad-op"
		}
		n, _ := strconv.Atoi(toks[1])
		return cutAns(curStream, n)
	case "wire.cuts":
		if len(toks) != 4 || !isNat(toks[1]) || !isNat(toks[2]) || !isNat(toks[3]) {
			return "bad-op"
		}
		from, _ := strconv.Atoi(toks[1])
		to, _ := strconv.Atoi(toks[2])
		step, _ := strconv.Atoi(toks[3])
		if step == 0 {
			return "bad-op"
		}
		var answers []string
		for n := from; n < to; n += step {
			answers = append(answers, cutAns(curStream, n))
		}
		return rle(answers)
	}
	return "bad-op"
}

// unvarintAns decodes bs with the unmarshaler's own varint reader: the bytes are
// placed as the value of an unpacked element of trie.Bitmap.Words (field 20,
// wire type 0).  Defined for inputs that are one varint or a malformed one.
func unvarintAns(bs []byte) string {
	m := &trie.Bitmap{}
	if err := proto.Unmarshal(append([]byte{0xa0, 0x01}, bs...), m); err != nil {
		return "none"
	}
	if len(m.Words) != 1 || len(m.RankIndex) != 0 || len(m.SelectIndex) != 0 || len(m.XXX_unrecognized) != 0 {
		return "not-one-varint"
	}
	return strconv.FormatUint(m.Words[0], 10) + " " + strconv.Itoa(len(bs))
}
