#!/bin/bash
# process_round.sh <out_dir> <prop> [<prop>...] : for every change <out_dir>/m*: confirm it (verify_mutation.sh), then run
# the named checks against it (try_mutation.sh).  One summary block per change on stdout and in <out_dir>/result.txt.
O=$(readlink -f "$1"); shift
: > $O/result.txt
for m in $O/m*; do
  [ -f $m/patch.diff ] || continue
  v=$(/verif/tools/verify_mutation.sh $m 2>&1 | tail -1)
  echo "VERIFY $v" | tee -a $O/result.txt
  case "$v" in *confirmed=YES*) /verif/tools/try_mutation.sh $m "$@" 2>&1 | tee -a $O/result.txt ;; esac
done
