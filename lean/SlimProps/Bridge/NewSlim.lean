import Generated.Facts
/-
  SlimProps.Bridge.NewSlim — tie 1, fact group "newslim + bmorder" of lean/Generated/Facts.lean (regenerated from /repo's
  working tree by harness/cmd/extract on every run).  One module per fact group: when the extractor
  cannot find a group's facts, or a fact changed, only this module stops compiling and only the
  properties that rely on it report the broken tie.
-/
namespace Bridge

/-! ### newSlim -/
/-- `keys[i] >= keys[i+1]` rejects: accepted lists are strictly ascending (`strictAsc`, `bytesLt`) -/
theorem orderCheckOp : Generated.orderCheckOp = ">=" := rfl
/-- `prefCnt > 10` (`buildStep`: `decide (prefCnt … > 10)`) -/
theorem bigThreshold : (Generated.bigThresholdOp, Generated.bigThreshold) = (">", 10) := rfl
/-- the 16-bit step guard (`buildStep`: `!c.opt.inner && decide (ws - o.fb > 0xffff)`; positions / 4) -/
theorem stepGuard :
    Generated.stepGuard = "!*opt.InnerPrefix && (wordStart-o.fromKeyBit)>>2 > 0xffff" := rfl
/-- the comparator of `sortedBMCounts` (`Slim.insertSorted`: count desc, bitmap desc) -/
theorem bmCountOrder : Generated.bmCountOrder =
    "{ if ss[i].cnt == ss[j].cnt { return ss[i].bitmap17 > ss[j].bitmap17 } return ss[i].cnt > ss[j].cnt }" := rfl


end Bridge
