import SlimProofs.BitsLemmas
import SlimProofs.Refine
import SlimProofs.WireMarshal
import SlimModel.Legacy
import SlimModel.Scan
import SlimModel.Buffers
/-
  SlimProofs.InstanceLemmas — from the byte level to the instance level:
  the message `Slim.encodeCreator t` of a well-shaped trie is a well-formed (`SlimMsg.WF`),
  normal-form message as long as its counters fit Go's int32; comparator facts of
  `sortedBMCounts`; the instance machine (`Legacy.Instance`).
-/
open Bits

namespace Bits

/-! ### index entries are bounded by the bit length -/

theorem indexRank64_le (ws : List Nat) (t : Bool) : ∀ r ∈ indexRank64 ws t, r ≤ 64 * ws.length := by
  intro r hr
  obtain ⟨k, hk⟩ := List.mem_iff_getElem?.mp hr
  rw [indexRank64_getElem?] at hk
  split at hk
  · next h =>
    simp only [Option.some.injEq] at hk
    subst hk
    have := cnt_le (getBit ws) (64 * k)
    have : k ≤ ws.length := by rcases h with h | ⟨_, h⟩ <;> omega
    omega
  · cases hk

theorem indexRank128_le (ws : List Nat) : ∀ r ∈ indexRank128 ws, r ≤ 64 * ws.length := by
  intro r hr
  obtain ⟨k, hk⟩ := List.mem_iff_getElem?.mp hr
  rw [indexRank128_getElem?] at hk
  split at hk
  · next h =>
    simp only [Option.some.injEq] at hk
    subst hk
    have h1 := cnt_le (getBit ws) (64 * (2 * k))
    by_cases h2 : 2 * k ≤ ws.length
    · omega
    · rw [cnt_getBit_of_ge ws (by omega)]
      exact cnt_le _ _
  · cases hk

theorem toArray_lt (ws : List Nat) : ∀ x ∈ toArray ws, x < 64 * ws.length := by
  intro x hx
  rw [toArray_eq] at hx
  simpa using (List.mem_filter.mp hx).1

theorem indexSelect32_le (ws : List Nat) : ∀ r ∈ indexSelect32 ws, r ≤ 64 * ws.length := by
  intro r hr
  obtain ⟨k, hk⟩ := List.mem_iff_getElem?.mp hr
  rw [indexSelect32_getElem?] at hk
  split at hk
  · simp only [Option.some.injEq] at hk
    subst hk
    rw [List.getD_eq_getElem?_getD]
    cases hg : (toArray ws)[k * 32]? with
    | none => simp
    | some x =>
      have := toArray_lt ws x (List.mem_of_getElem? hg)
      simp; omega
  · cases hk

/-- A bitmap message made by `mk` is well formed when its words are 64-bit words and its bit
    length fits an int32 (the index entries are counts and positions within it). -/
theorem mk_WF (ws : List Nat) (opt : String) (hopt : opt = "r64" ∨ opt = "r128" ∨ opt = "s32")
    (hw : ∀ w ∈ ws, w < 2 ^ 64) (hl : 64 * ws.length < 2 ^ 31) : (mk ws opt).WF := by
  rcases hopt with rfl | rfl | rfl
  · rw [mk_r64]
    refine ⟨hw, ?_, by simp⟩
    intro r hr; have := indexRank64_le ws false r hr; omega
  · rw [mk_r128]
    refine ⟨hw, ?_, by simp⟩
    intro r hr; have := indexRank128_le ws r hr; omega
  · rw [mk_s32]
    refine ⟨hw, ?_, ?_⟩
    · intro r hr; have := indexRank64_le ws true r hr; omega
    · intro r hr; have := indexSelect32_le ws r hr; omega

theorem ofIdx_bits_le (idxs : List Nat) (capa n : Nat) (h : ∀ i ∈ idxs, i < n) :
    64 * (ofIdx idxs capa).length ≤ max capa n + 63 := by
  rw [ofIdx_length']
  have := lastSucc_le_of_lt h
  omega

/-- `newBM` of positions below `n` with capacity `capa`. -/
theorem newBM_WF (idxs : List Nat) (capa n : Nat) (opt : String)
    (hopt : opt = "r64" ∨ opt = "r128" ∨ opt = "s32")
    (h : ∀ i ∈ idxs, i < n) (hn : max capa n + 63 < 2 ^ 31) : (newBM idxs capa opt).WF := by
  unfold newBM
  apply mk_WF _ _ hopt (ofIdx_lt idxs capa)
  have := ofIdx_bits_le idxs capa n h
  omega

end Bits

namespace Refine
open Slim

/-! ### the short table holds 17-bit bitmaps -/

theorem shortTable_go_tbl (P : Nat → Prop) (h0 : P 0) (k short : Nat) (sorted : Array (List (Nat × Nat)))
    (tbl : List Nat) (mu : List (Nat × Nat))
    (h3 : ∀ n, ∀ x ∈ sorted.getD n [], P x.1) (h2 : ∀ x ∈ tbl, P x) :
    ∀ x ∈ (shortTable.go k short sorted tbl mu).1, P x := by
  induction k generalizing short sorted tbl mu with
  | zero =>
    simp only [shortTable.go, List.mem_reverse]
    exact h2
  | succ k ih =>
    unfold shortTable.go
    simp only
    split
    · next bm c rest hs =>
      apply ih
      · intro n x hx
        simp only [Array.getD_eq_getD_getElem?, Array.getElem?_setIfInBounds] at hx
        split at hx
        · next hn =>
          subst hn
          split at hx
          · simp only [Option.getD_some] at hx
            exact h3 (popcount short) x (by rw [hs]; simp [hx])
          · simp at hx
        · exact h3 n x (by simpa [Array.getD_eq_getD_getElem?] using hx)
      · intro x hx
        rcases List.mem_cons.mp hx with rfl | hx
        · exact h3 (popcount short) (x, c) (by rw [hs]; simp)
        · exact h2 x hx
    · apply ih _ _ _ _ h3
      intro x hx
      rcases List.mem_cons.mp hx with rfl | hx
      · exact h0
      · exact h2 x hx

theorem bm17_lt {labels : List Nat} {n : Nat} (h : ∀ l ∈ labels, l < n) : bm17 labels < 2 ^ n := by
  apply Nat.lt_pow_two_of_testBit
  intro i hi
  rw [testBit_bm17]
  simp only [decide_eq_false_iff_not]
  intro hm
  have := h i hm
  omega

theorem eTbl_lt {t : Trie1} (hs : ShapeOK t) : ∀ x ∈ eTbl t, x < 2 ^ 17 := by
  unfold eTbl shortTable
  apply shortTable_go_tbl (fun x => x < 2 ^ 17) (by omega)
  · intro n x hx
    obtain ⟨r, hr, hbig, _, hbm⟩ := eSorted_good t n x hx
    obtain ⟨m, hm⟩ := List.mem_iff_getElem?.mp hr
    obtain ⟨_, _, hlt⟩ := rec_labels hs hm
    simp only [hbig, labelBound] at hlt
    rw [← hbm]
    exact bm17_lt (fun l hl => by have := hlt l hl; simpa using this)
  · intro x hx; simp at hx

/-! ### sizes -/

theorem eInners_length_le (t : Trie1) : (eInners t).length ≤ t.nodes.size := by
  rw [eInners_eq]
  have := List.length_filterMap_le innerOf t.nodes.toList
  simpa using this

theorem eLeafLps_length_le (t : Trie1) : (eLeafLps t).length ≤ t.nodes.size := by
  unfold eLeafLps
  have := List.length_filterMap_le leafOf t.nodes.toList
  simpa using this

theorem sum_take_le (l : List Nat) (k : Nat) : (l.take k).sum ≤ l.sum := by
  conv => rhs; rw [← List.take_append_drop k l, List.sum_append]
  omega

theorem stepToPos_le (sizes : List Nat) : ∀ x ∈ stepToPos sizes, x < sizes.sum + 1 := by
  intro x hx
  obtain ⟨k, hk⟩ := List.mem_iff_getElem?.mp hx
  rw [stepToPos_getElem?] at hk
  split at hk
  · simp only [Option.some.injEq] at hk
    subst hk
    have := sum_take_le sizes k
    omega
  · cases hk

theorem sum_map_length (ps : List Bytes) : (ps.map List.length).sum = ps.flatten.length := by
  rw [List.length_flatten]

theorem mem_le_sum (l : List Nat) : ∀ x ∈ l, x ≤ l.sum := by
  induction l with
  | nil => intro x hx; cases hx
  | cons a as ih =>
    intro x hx
    rcases List.mem_cons.mp hx with rfl | hx
    · simp
    · have := ih x hx; simp; omega

/-- The position bitmap of a `VLenArray` over elements `ps`. -/
theorem positionBM_WF (ps : List Bytes) (h : ps.flatten.length + 64 < 2 ^ 31) :
    (newBM (stepToPos (ps.map List.length)) 0 "s32").WF := by
  apply newBM_WF _ 0 ((ps.map List.length).sum + 1) "s32" (by simp) (stepToPos_le _)
  rw [sum_map_length]; omega

/-! ### `Small`: the counters of the message fit Go's int32 -/

/-- total width of the label bitmaps (`Inners`), in bits -/
def labelBits (t : Trie1) : Nat := (eSizes t).sum

/-- Every counter of the message `Slim.encode t` that Go holds in an `int32` fits one: the number of
    big nodes, the node count, the bits of the label bitmap, the bytes of stored inner prefixes,
    leaf prefixes and leaves (they are the domains of the rank/select indexes); and the protobuf
    body can be allocated (`BodyOK`).  This only excludes tries beyond the Go code's own limits
    (its rank and select indexes are `[]int32`). -/
structure Small (t : Trie1) : Prop where
  bigCnt : t.bigCnt < 2 ^ 31
  nodes : t.nodes.size + 63 < 2 ^ 31
  labelBits : labelBits t + 63 < 2 ^ 31
  innerPrefixBytes : (eStoredPs t).flatten.length + 64 < 2 ^ 31
  leafPrefixBytes : (eLeafPs t).flatten.length + 64 < 2 ^ 31
  leafBytes : ∀ es, t.elts = some es → es.length + 63 < 2 ^ 31 ∧ es.flatten.length + 64 < 2 ^ 31
  body : Frame.BodyOK (Wire.encodeSlim (Slim.encode t))

theorem filter_range_lt (n : Nat) (p : Nat → Bool) : ∀ i ∈ (List.range n).filter p, i < n := by
  intro i hi
  simpa using (List.mem_filter.mp hi).1

theorem eIps_WF {t : Trie1} (hsm : Small t) : (eIps t).WF := by
  have hi := eInners_length_le t
  have hn := hsm.nodes
  have hp : (ePrefIdx t).length ≤ (eInners t).length := by
    unfold ePrefIdx
    refine Nat.le_trans (List.length_filter_le _ _) ?_
    simp
  have hpres : (newBM (ePrefIdx t) (eInners t).length "r128").WF :=
    newBM_WF _ _ (eInners t).length "r128" (by simp) (filter_range_lt _ _) (by omega)
  unfold eIps
  split
  · refine ⟨by simp, by simp; omega, by simp, ?_, ?_⟩
    · intro b hb
      simp only [Option.some.injEq] at hb; subst hb
      exact positionBM_WF _ hsm.innerPrefixBytes
    · intro b hb
      simp only [Option.some.injEq] at hb; subst hb
      exact hpres
  · refine ⟨by simp, by simp; omega, by simp, ?_, ?_⟩
    · intro b hb; simp at hb
    · intro b hb
      simp only [Option.some.injEq] at hb; subst hb
      exact hpres

theorem eLps_WF {t : Trie1} (hsm : Small t) : ∀ v, eLps t = some v → v.WF := by
  intro v hv
  have hl := eLeafLps_length_le t
  have hn := hsm.nodes
  unfold eLps at hv
  split at hv
  · simp only [Option.some.injEq] at hv
    subst hv
    refine ⟨by simp, by simp, by simp, ?_, ?_⟩
    · intro b hb
      simp only [Option.some.injEq] at hb; subst hb
      exact positionBM_WF _ hsm.leafPrefixBytes
    · intro b hb
      simp only [Option.some.injEq] at hb; subst hb
      exact newBM_WF _ _ (eLeafLps t).length "r64" (by simp) (filter_range_lt _ _) (by omega)
  · cases hv

theorem newVLenArray_WF (es : List Bytes) (h1 : es.length + 63 < 2 ^ 31)
    (h2 : es.flatten.length + 64 < 2 ^ 31) : ∀ v, newVLenArray es = some v → v.WF := by
  intro v hv
  unfold newVLenArray at hv
  simp only at hv
  have hcnt : ((List.range es.length).filter (fun i => ((es.map List.length).getD i 0) > 0)).length
      ≤ es.length := by
    have := List.length_filter_le (fun i => decide (((es.map List.length).getD i 0) > 0)) (List.range es.length)
    simpa using this
  have hpres : (newBM ((List.range es.length).filter (fun i => ((es.map List.length).getD i 0) > 0))
      es.length "r64").WF :=
    newBM_WF _ _ es.length "r64" (by simp) (filter_range_lt _ _) (by omega)
  have hfixed : ((es.map List.length).filter (· > 0)).getLast?.getD 0 < 2 ^ 31 := by
    cases hg : ((es.map List.length).filter (· > 0)).getLast? with
    | none => simp
    | some x =>
      have hx : x ∈ es.map List.length := (List.mem_filter.mp (List.mem_of_getLast? hg)).1
      have := mem_le_sum _ x hx
      rw [sum_map_length] at this
      simp; omega
  have key : ∀ (allEqual : Bool),
      (if (es.map List.length).sum = 0 then none else
        if allEqual = true then
          some ({ n := es.length,
                  eltCnt := ((List.range es.length).filter (fun i => ((es.map List.length).getD i 0) > 0)).length,
                  bytes := es.flatten,
                  presenceBM := some (newBM ((List.range es.length).filter
                    (fun i => ((es.map List.length).getD i 0) > 0)) es.length "r64"),
                  fixedSize := ((es.map List.length).filter (· > 0)).getLast?.getD 0 } : VLenArrayMsg)
        else
          some { n := es.length,
                 eltCnt := ((List.range es.length).filter (fun i => ((es.map List.length).getD i 0) > 0)).length,
                 bytes := es.flatten,
                 presenceBM := some (newBM ((List.range es.length).filter
                   (fun i => ((es.map List.length).getD i 0) > 0)) es.length "r64"),
                 positionBM := some (newBM (stepToPos (es.map List.length)) 0 "s32") }) = some v → v.WF := by
    intro allEqual hv
    split at hv
    · cases hv
    · split at hv
      · simp only [Option.some.injEq] at hv
        subst hv
        refine ⟨by simp; omega, Nat.lt_of_le_of_lt hcnt (by omega), by simpa using hfixed, ?_, ?_⟩
        · intro b hb; simp at hb
        · intro b hb
          simp only [Option.some.injEq] at hb; subst hb
          exact hpres
      · simp only [Option.some.injEq] at hv
        subst hv
        refine ⟨by simp; omega, Nat.lt_of_le_of_lt hcnt (by omega), by simp, ?_, ?_⟩
        · intro b hb
          simp only [Option.some.injEq] at hb; subst hb
          exact positionBM_WF es h2
        · intro b hb
          simp only [Option.some.injEq] at hb; subst hb
          exact hpres
  exact key _ hv

theorem eInnersBM_WF {t : Trie1} (hs : ShapeOK t) (hsm : Small t) : (eInnersBM t).WF := by
  unfold eInnersBM
  apply mk_WF _ _ (by simp) (ofMany_lt _ _)
  rw [ofMany_length (eSub_ok hs)]
  have := hsm.labelBits
  unfold labelBits at this
  omega

/-- The message the builder produces for a well-shaped trie within the int32 limits is well formed. -/
theorem encodeCreator_WF {t : Trie1} (hs : ShapeOK t) (hsm : Small t) : (encodeCreator t).WF := by
  have hi := eInners_length_le t
  have hn := hsm.nodes
  refine ⟨?_, ?_, ?_, ?_, ?_, ?_, ?_, ?_, ?_⟩
  · rw [enc_bigInnerCnt]; exact hsm.bigCnt
  · rw [enc_shortSize]; have := eShortSize_le t; omega
  · rw [enc_shortTable]; intro x hx; have := eTbl_lt hs x hx; omega
  · intro b hb
    rw [enc_nodeTypeBM] at hb
    split at hb
    · cases hb
    · simp only [Option.some.injEq] at hb; subst hb
      exact newBM_WF _ _ t.nodes.size "r64" (by simp) (filter_range_lt _ _) (by omega)
  · intro b hb
    rw [enc_inners] at hb
    simp only [Option.some.injEq] at hb; subst hb
    exact eInnersBM_WF hs hsm
  · intro b hb
    rw [enc_shortBM] at hb
    simp only [Option.some.injEq] at hb; subst hb
    exact newBM_WF _ _ (eInners t).length "r64" (by simp) (filter_range_lt _ _) (by omega)
  · intro v hv
    rw [enc_innerPrefixes] at hv
    simp only [Option.some.injEq] at hv; subst hv
    exact eIps_WF hsm
  · intro v hv
    rw [enc_leafPrefixes] at hv
    exact eLps_WF hsm v hv
  · intro v hv
    have : (encodeCreator t).leaves = match t.elts with
        | some es => newVLenArray es
        | none => none := rfl
    rw [this] at hv
    cases he : t.elts with
    | none => rw [he] at hv; cases hv
    | some es =>
      rw [he] at hv
      obtain ⟨h1, h2⟩ := hsm.leafBytes es he
      exact newVLenArray_WF es h1 h2 v hv

theorem encode_WF {t : Trie1} (hs : t.nodes.size ≠ 0 → ShapeOK t) (hsm : Small t) : (Slim.encode t).WF := by
  unfold Slim.encode
  split
  · refine ⟨by simp, by simp, by simp, ?_, ?_, ?_, ?_, ?_, ?_⟩ <;> intro b hb <;> simp at hb
  · next h => exact encodeCreator_WF (hs h) hsm

theorem encodeCreator_unrecognized (t : Trie1) : (encodeCreator t).unrecognized = [] := rfl

theorem encode_NF (t : Trie1) : (Slim.encode t).NF := by
  have : (Slim.encode t).unrecognized = [] := by
    unfold Slim.encode; split <;> rfl
  unfold SlimMsg.NF
  rw [this, Wire.unknownOnly]

end Refine

/-! ### `sortedBMCounts`: the one place where Go's map iteration order could leak -/

namespace Slim

/-- the comparator of `sortedBMCounts`: count descending, then bitmap descending -/
def Before (x y : Nat × Nat) : Prop := x.2 > y.2 ∨ (x.2 = y.2 ∧ x.1 > y.1)

instance (x y : Nat × Nat) : Decidable (Before x y) := by unfold Before; infer_instance

theorem insertSorted_cons (x y : Nat × Nat) (ys : List (Nat × Nat)) :
    insertSorted x (y :: ys) = if Before x y then x :: y :: ys else y :: insertSorted x ys := by
  by_cases h : Before x y
  · have hb : (decide (x.2 > y.2) || (x.2 == y.2 && decide (x.1 > y.1))) = true := by
      unfold Before at h; simp; omega
    simp only [insertSorted, hb, if_true, h]
  · have hb : (decide (x.2 > y.2) || (x.2 == y.2 && decide (x.1 > y.1))) = false := by
      unfold Before at h
      cases hh : (decide (x.2 > y.2) || (x.2 == y.2 && decide (x.1 > y.1))) with
      | false => rfl
      | true => exfalso; apply h; simp at hh; omega
    simp [insertSorted, hb, h]

theorem Before.trans {x y z : Nat × Nat} (h1 : Before x y) (h2 : Before y z) : Before x z := by
  unfold Before at *; omega

theorem Before.asymm {x y : Nat × Nat} (h1 : Before x y) (h2 : Before y x) : False := by
  unfold Before at *; omega

/-- the comparator is total on entries with different bitmaps -/
theorem Before.total {x y : Nat × Nat} (h : x.1 ≠ y.1) (hn : ¬ Before x y) : Before y x := by
  unfold Before at *; omega

theorem insertSorted_perm (x : Nat × Nat) (l : List (Nat × Nat)) : (insertSorted x l).Perm (x :: l) := by
  induction l with
  | nil => simp [insertSorted]
  | cons y ys ih =>
    rw [insertSorted_cons]
    split
    · exact List.Perm.refl _
    · exact ((List.Perm.cons y ih).trans (List.Perm.swap x y ys))

theorem insertSorted_sorted (x : Nat × Nat) (l : List (Nat × Nat)) (hs : l.Pairwise Before)
    (hk : ∀ y ∈ l, x.1 ≠ y.1) : (insertSorted x l).Pairwise Before := by
  induction l with
  | nil => simp [insertSorted]
  | cons y ys ih =>
    rw [insertSorted_cons]
    obtain ⟨hy, hys⟩ := List.pairwise_cons.mp hs
    split
    · next hb =>
      refine List.pairwise_cons.mpr ⟨?_, hs⟩
      intro z hz
      rcases List.mem_cons.mp hz with rfl | hz
      · exact hb
      · exact hb.trans (hy z hz)
    · next hb =>
      have hyx : Before y x := Before.total (hk y (by simp)) hb
      refine List.pairwise_cons.mpr ⟨?_, ih hys (fun z hz => hk z (List.mem_cons_of_mem _ hz))⟩
      intro z hz
      rcases List.mem_cons.mp ((insertSorted_perm x ys).mem_iff.mp hz) with rfl | hz
      · exact hyx
      · exact hy z hz

theorem foldl_insertSorted_perm (l acc : List (Nat × Nat)) :
    (l.foldl (fun acc x => insertSorted x acc) acc).Perm (l ++ acc) := by
  induction l generalizing acc with
  | nil => simp
  | cons x xs ih =>
    simp only [List.foldl_cons]
    refine (ih _).trans ?_
    refine (List.Perm.append_left xs (insertSorted_perm x acc)).trans ?_
    exact List.perm_middle

theorem sortCounts_perm_self (l : List (Nat × Nat)) : (sortCounts l).Perm l := by
  have := foldl_insertSorted_perm l []
  simpa [sortCounts] using this

theorem foldl_insertSorted_sorted (l acc : List (Nat × Nat)) (hs : acc.Pairwise Before)
    (hk : ((l ++ acc).map (·.1)).Nodup) :
    (l.foldl (fun acc x => insertSorted x acc) acc).Pairwise Before := by
  induction l generalizing acc with
  | nil => simpa using hs
  | cons x xs ih =>
    simp only [List.foldl_cons]
    have hk' : ((x :: (xs ++ acc)).map (·.1)).Nodup := hk
    have hk'' : (x.1 :: (xs ++ acc).map (·.1)).Nodup := hk
    obtain ⟨hx, hrest⟩ := List.nodup_cons.mp hk''
    apply ih
    · apply insertSorted_sorted x acc hs
      intro y hy heq
      apply hx
      simp only [List.map_append, List.mem_append, List.mem_map]
      exact Or.inr ⟨y, hy, heq.symm⟩
    · have hp : ((xs ++ insertSorted x acc).map (·.1)).Perm ((x :: (xs ++ acc)).map (·.1)) := by
        apply List.Perm.map
        refine (List.Perm.append_left xs (insertSorted_perm x acc)).trans ?_
        exact List.perm_middle
      exact hp.nodup_iff.mpr hk'

theorem sortCounts_sorted (l : List (Nat × Nat)) (hk : (l.map (·.1)).Nodup) :
    (sortCounts l).Pairwise Before :=
  foldl_insertSorted_sorted l [] List.Pairwise.nil (by simpa using hk)

/-- `sortedBMCounts` does not depend on the order in which the count table is enumerated (Go ranges
    over a map): on tables with distinct bitmaps the comparator is a strict total order, so the
    sorted result is unique. -/
theorem sortCounts_perm {l₁ l₂ : List (Nat × Nat)} (hp : l₁.Perm l₂) (hk : (l₁.map (·.1)).Nodup) :
    sortCounts l₁ = sortCounts l₂ := by
  have hk2 : (l₂.map (·.1)).Nodup := (hp.map (·.1)).nodup_iff.mp hk
  apply List.Perm.eq_of_pairwise (le := Before)
  · intro a b _ _ h1 h2; exact (h1.asymm h2).elim
  · exact sortCounts_sorted l₁ hk
  · exact sortCounts_sorted l₂ hk2
  · exact (sortCounts_perm_self l₁).trans (hp.trans (sortCounts_perm_self l₂).symm)

/-! the count tables have distinct bitmaps -/

theorem bumpCount_keys_eq (tbl : List (Nat × Nat)) (bm : Nat) :
    (bumpCount tbl bm).map (·.1) = if bm ∈ tbl.map (·.1) then tbl.map (·.1) else tbl.map (·.1) ++ [bm] := by
  induction tbl with
  | nil => simp [bumpCount]
  | cons p tbl ih =>
    obtain ⟨b, c⟩ := p
    simp only [bumpCount]
    by_cases h : b = bm
    · subst h; simp
    · simp only [h, if_false, List.map_cons, ih, List.mem_cons]
      have : ¬ bm = b := fun e => h e.symm
      by_cases hm : bm ∈ tbl.map (·.1)
      · simp [hm]
      · simp [hm, this]

theorem bumpCount_nodup (tbl : List (Nat × Nat)) (bm : Nat) (h : (tbl.map (·.1)).Nodup) :
    ((bumpCount tbl bm).map (·.1)).Nodup := by
  rw [bumpCount_keys_eq]
  split
  · exact h
  · next hm =>
    rw [List.nodup_append]
    refine ⟨h, by simp, ?_⟩
    intro a ha b hb
    simp only [List.mem_singleton] at hb
    subst hb
    intro e; subst e; exact hm ha

end Slim

namespace Refine
open Slim

/-- Every count table the builder sorts has pairwise distinct bitmaps. -/
theorem eCnts_nodup (t : Trie1) : ∀ n, (((eCnts t).getD n []).map (·.1)).Nodup := by
  unfold eCnts
  suffices h : ∀ (l : List InnerRec) (a : Array (List (Nat × Nat))),
      (∀ n, ((a.getD n []).map (·.1)).Nodup) →
      ∀ n, (((l.foldl (fun (a : Array (List (Nat × Nat))) r =>
        if !r.big && r.labels.length < maxShortSize + 1
        then a.modify r.labels.length (fun tbl => bumpCount tbl (bm17 r.labels)) else a) a).getD n []).map
          (·.1)).Nodup by
    apply h
    intro n
    simp [Array.getD_eq_getD_getElem?, Array.getElem?_replicate]
    split <;> simp
  intro l
  induction l with
  | nil => intro a ha; simpa using ha
  | cons r rs ih =>
    intro a ha
    simp only [List.foldl_cons]
    apply ih
    intro n
    split
    · simp only [Array.getD_eq_getD_getElem?, Array.getElem?_modify]
      split
      · next hn =>
        subst hn
        cases hg : a[r.labels.length]? with
        | none => simp
        | some tbl =>
          simp only [Option.map_some, Option.getD_some]
          apply bumpCount_nodup
          have := ha r.labels.length
          simpa [Array.getD_eq_getD_getElem?, hg] using this
      · have := ha n
        simpa [Array.getD_eq_getD_getElem?] using this
    · exact ha n

end Refine

namespace Refine

/-- executable form of `Small` (for concrete instances) -/
def smallB (t : Trie1) : Bool :=
  decide (t.bigCnt < 2 ^ 31) && decide (t.nodes.size + 63 < 2 ^ 31) && decide (labelBits t + 63 < 2 ^ 31) &&
  decide ((eStoredPs t).flatten.length + 64 < 2 ^ 31) && decide ((eLeafPs t).flatten.length + 64 < 2 ^ 31) &&
  (match t.elts with
   | none => true
   | some es => decide (es.length + 63 < 2 ^ 31) && decide (es.flatten.length + 64 < 2 ^ 31)) &&
  decide ((Wire.encodeSlim (Slim.encode t)).length ≤ Frame.maxAlloc)

theorem small_of_smallB {t : Trie1} (h : smallB t = true) : Small t := by
  unfold smallB at h
  simp only [Bool.and_eq_true, decide_eq_true_eq] at h
  obtain ⟨⟨⟨⟨⟨⟨h1, h2⟩, h3⟩, h4⟩, h5⟩, h6⟩, h7⟩ := h
  refine ⟨h1, h2, h3, h4, h5, ?_, h7⟩
  intro es he
  rw [he] at h6
  simpa using h6

end Refine

/-! ### the instance machine -/

namespace Legacy
open Wire Frame

/-- `Unmarshal` of what `Marshal` wrote for a well-formed, normal-form message is that message
    (the current layout needs no conversion). -/
theorem unmarshalMsg_marshal (encSize : Option Nat) (m : SlimMsg) (hwf : m.WF) (hnf : m.NF)
    (hb : BodyOK (encodeSlim m)) : unmarshalMsg encSize (marshalSlim m) = .ok m := by
  unfold unmarshalMsg
  rw [unmarshal_marshal m hwf hnf hb]
  rfl

theorem Instance.unmarshal_marshal (st : Instance) (encSize : Option Nat) (m : SlimMsg) (hwf : m.WF)
    (hnf : m.NF) (hb : BodyOK (encodeSlim m)) (lv : List Slim.Level) (hlv : Slim.initLevels m = .ok lv) :
    Instance.unmarshal st encSize (marshalSlim m) = ({ inner := m, levels := lv, varsNil := false }, none) := by
  have hi : Instance.init m = .ok { inner := m, levels := lv } := by
    unfold Instance.init; rw [hlv]; rfl
  unfold Instance.unmarshal
  rw [unmarshalMsg_marshal encSize m hwf hnf hb]
  simp only [hi]

/-- Whether a load succeeds, and with which error it fails, is a function of the bytes (and the
    encoder width) alone. -/
theorem Instance.unmarshal_err_indep (σ σ' : Instance) (e : Option Nat) (b : Bytes) :
    (Instance.unmarshal σ e b).2 = (Instance.unmarshal σ' e b).2 := by
  unfold Instance.unmarshal
  cases hm : unmarshalMsg e b with
  | error err => rfl
  | ok m =>
    simp only
    cases hi : Instance.init m <;> rfl

/-- After a successful load the whole state is a function of the bytes alone. -/
theorem Instance.unmarshal_state_indep (σ σ' : Instance) (e : Option Nat) (b : Bytes)
    (h : (Instance.unmarshal σ e b).2 = none) :
    (Instance.unmarshal σ e b).1 = (Instance.unmarshal σ' e b).1 := by
  unfold Instance.unmarshal at h ⊢
  cases hm : unmarshalMsg e b with
  | error err => rw [hm] at h; cases h
  | ok m =>
    rw [hm] at h
    simp only at h ⊢
    cases hi : Instance.init m with
    | ok st' => rfl
    | error err => rw [hi] at h; cases h

theorem Instance.reset_indep (σ σ' : Instance) : Instance.reset σ = Instance.reset σ' := rfl

/-- A rejected load leaves the empty message, unless the message itself was read completely and only
    the level walk of `init` failed. -/
theorem Instance.unmarshal_error_inner (σ : Instance) (e : Option Nat) (b : Bytes) (err : Err)
    (h : unmarshalMsg e b = .error err) :
    Instance.unmarshal σ e b = ({ σ with inner := {} }, some err) := by
  unfold Instance.unmarshal; rw [h]

/-- The operations of one instance that replace its contents. -/
inductive Op where
  | unmarshal (encSize : Option Nat) (b : Bytes)
  | reset

def Instance.step (σ : Instance) : Op → Instance
  | .unmarshal e b => (Instance.unmarshal σ e b).1
  | .reset => Instance.reset σ

/-- a history of any length -/
def run (σ : Instance) (ops : List Op) : Instance := ops.foldl Instance.step σ

theorem run_append (σ : Instance) (ops : List Op) (op : Op) :
    run σ (ops ++ [op]) = Instance.step (run σ ops) op := by
  simp [run, List.foldl_append]

/-- A unmarshalDispatch failure is an unmarshalMsg failure. -/
theorem unmarshalMsg_of_dispatch_error (e : Option Nat) (b : Bytes) (err : Err)
    (h : unmarshalDispatch b = .error err) : unmarshalMsg e b = .error err := by
  unfold unmarshalMsg; rw [h]; rfl

end Legacy

/-! ### every query on an empty view (`NodeTypeBM == nil`) -/

namespace EmptyView

theorem getID_empty (v : View) (h : v.isEmpty = true) (q : Bytes) : getID v q = .ok none := by
  unfold getID; simp [h]; rfl

theorem get_empty (v : View) (h : v.isEmpty = true) (q : Bytes) : _root_.get v q = .ok none := by
  unfold _root_.get; rw [getID_empty v h q]; rfl

theorem searchID_empty (v : View) (h : v.isEmpty = true) (q : Bytes) :
    searchID v q = .ok (none, none, none) := by
  unfold searchID; simp [h]; rfl

theorem rangeGet_empty (v : View) (h : v.isEmpty = true) (q : Bytes) : rangeGet v q = .ok none := by
  unfold rangeGet; rw [searchID_empty v h q]; rfl

theorem search_empty (v : View) (h : v.isEmpty = true) (q : Bytes) :
    search v q = .ok (none, none, none) := by
  unfold search; rw [searchID_empty v h q]; rfl

theorem getGEPath_empty (v : View) (h : v.isEmpty = true) (q : Bytes) :
    Scan.getGEPath v q = .ok { path := [], eq := false } := by
  unfold Scan.getGEPath; simp [h]; rfl

theorem newIterFrom_empty (v : View) (h : v.isEmpty = true) (start : Bytes) (incl : Bool) :
    Scan.newIterFrom v start incl = .ok (.walk [] []) := by
  unfold Scan.newIterFrom
  rw [getGEPath_empty v h start]
  rfl

/-- the iterator of an empty trie is exhausted at once, and stays so -/
theorem iterNext_empty (v : View) (withValue : Bool) (buf : Bytes) :
    Scan.iterNext v withValue (.walk [] buf) = .ok (.walk [] buf, none, none) := rfl

theorem iterTake_empty (v : View) (withValue : Bool) (n : Nat) (buf : Bytes) :
    Scan.iterTake v withValue n (.walk [] buf) = .ok (List.replicate n (none, none)) := by
  induction n with
  | zero => rfl
  | succ n ih =>
    unfold Scan.iterTake
    rw [iterNext_empty]
    simp only [bind, Except.bind, ih]
    rfl

theorem scanFrom_empty (v : View) (h : v.isEmpty = true) (start : Bytes) (incl withValue : Bool)
    (keep : Bytes → Bool) (stopAfter : Option Nat) :
    Scan.scanFrom v start incl withValue keep stopAfter = .ok [] := by
  unfold Scan.scanFrom
  rw [newIterFrom_empty v h start incl]
  show Scan.scanFrom.go v withValue keep stopAfter (v.nodeCnt + 2) (.walk [] []) 0 = _
  rw [show v.nodeCnt + 2 = (v.nodeCnt + 1) + 1 by omega]
  unfold Scan.scanFrom.go
  rw [iterNext_empty]
  rfl

theorem scanFromTo_empty (v : View) (h : v.isEmpty = true) (start : Bytes) (incl : Bool) (stop : Bytes)
    (inclEnd withValue : Bool) (stopAfter : Option Nat) :
    Scan.scanFromTo v start incl stop inclEnd withValue stopAfter = .ok [] := by
  unfold Scan.scanFromTo
  exact scanFrom_empty v h start incl withValue _ stopAfter

theorem view_empty_isEmpty : (Slim.view {}).isEmpty = true := rfl

theorem getInt_empty (w : Nat) (q : Bytes) : Slim.getInt {} w q = .ok none := by
  unfold Slim.getInt
  rw [getID_empty _ view_empty_isEmpty q]
  rfl

theorem toString_empty (fmt : Option Bytes → String) : Slim.toStringSlim (Slim.view {}) fmt = .ok "" := by
  unfold Slim.toStringSlim
  simp [view_empty_isEmpty]
  rfl

end EmptyView

/-! ### the buffer-ownership machine (C20) -/

namespace Buffers

theorem getBuf_setBuf (bs : Bufs) (id id' : Nat) (b : Bytes) :
    getBuf (setBuf bs id b) id' = if id = id' then b else getBuf bs id' := rfl

/-- the two runs (with and without the scribbles) agree on the instance and on every buffer that
    was not scribbled over since it was last written by the machine -/
def Sim (T : List Nat) (s₁ s₂ : State) : Prop :=
  s₁.inst = s₂.inst ∧ s₁.encSize = s₂.encSize ∧ ∀ id, id ∉ T → getBuf s₁.bufs id = getBuf s₂.bufs id

theorem run_cons (s : State) (op : Op) (ops : List Op) :
    run s (op :: ops) =
      ((run (step s op).1 ops).1,
        match (step s op).2 with
        | some x => x :: (run (step s op).1 ops).2
        | none => (run (step s op).1 ops).2) := rfl

theorem sim_cons {s₁ s₂ : State} {op : Op} {ops ops' : List Op}
    (ho : (step s₁ op).2 = (step s₂ op).2)
    (hrest : (run (step s₁ op).1 ops).2 = (run (step s₂ op).1 ops').2 ∧
      (run (step s₁ op).1 ops).1.inst = (run (step s₂ op).1 ops').1.inst) :
    (run s₁ (op :: ops)).2 = (run s₂ (op :: ops')).2 ∧
    (run s₁ (op :: ops)).1.inst = (run s₂ (op :: ops')).1.inst := by
  rw [run_cons, run_cons]
  refine ⟨?_, hrest.2⟩
  simp only [ho, hrest.1]

theorem sim_run (ops : List Op) : ∀ (T : List Nat) (s₁ s₂ : State), Sim T s₁ s₂ → cleanFrom T ops = true →
    (run s₁ ops).2 = (run s₂ (ops.filter (fun o => !o.isScribble))).2 ∧
    (run s₁ ops).1.inst = (run s₂ (ops.filter (fun o => !o.isScribble))).1.inst := by
  induction ops with
  | nil => intro T s₁ s₂ h _; exact ⟨rfl, h.1⟩
  | cons op ops ih =>
    intro T s₁ s₂ h hc
    obtain ⟨hi, he, hb⟩ := h
    cases op with
    | scribble id p =>
      simp only [cleanFrom] at hc
      have hs : Sim (id :: T) (step s₁ (.scribble id p)).1 s₂ := by
        refine ⟨hi, he, ?_⟩
        intro id' hid'
        simp only [List.mem_cons, not_or] at hid'
        show getBuf (setBuf s₁.bufs id _) id' = _
        rw [getBuf_setBuf, if_neg (fun e => hid'.1 e.symm)]
        exact hb id' hid'.2
      have := ih (id :: T) _ s₂ hs hc
      have hf : (Op.scribble id p :: ops).filter (fun o => !o.isScribble) = ops.filter (fun o => !o.isScribble) := by
        simp [Op.isScribble]
      rw [hf, run_cons]
      exact this
    | marshalInto id =>
      simp only [cleanFrom] at hc
      have hs : Sim (T.filter (· ≠ id)) (step s₁ (.marshalInto id)).1 (step s₂ (.marshalInto id)).1 := by
        refine ⟨hi, he, ?_⟩
        intro id' hid'
        show getBuf (setBuf s₁.bufs id _) id' = getBuf (setBuf s₂.bufs id _) id'
        rw [getBuf_setBuf, getBuf_setBuf, hi]
        split
        · rfl
        · next hne =>
          apply hb
          intro hm
          apply hid'
          simp only [List.mem_filter, decide_eq_true_eq]
          exact ⟨hm, fun e => hne e.symm⟩
      have ho : (step s₁ (.marshalInto id)).2 = (step s₂ (.marshalInto id)).2 := by
        simp only [step, hi]
      have hf : (Op.marshalInto id :: ops).filter (fun o => !o.isScribble)
          = Op.marshalInto id :: ops.filter (fun o => !o.isScribble) := by simp [Op.isScribble]
      rw [hf]
      exact sim_cons ho (ih _ _ _ hs hc)
    | unmarshalFrom id =>
      simp only [cleanFrom, Bool.and_eq_true, Bool.not_eq_true', List.contains_eq_mem,
        decide_eq_false_iff_not] at hc
      have hbuf : getBuf s₁.bufs id = getBuf s₂.bufs id := hb id hc.1
      have ho : (step s₁ (.unmarshalFrom id)).2 = (step s₂ (.unmarshalFrom id)).2 := by
        simp only [step, hi, he, hbuf]
      have hs : Sim T (step s₁ (.unmarshalFrom id)).1 (step s₂ (.unmarshalFrom id)).1 := by
        refine ⟨?_, he, hb⟩
        simp only [step, hi, he, hbuf]
      have hf : (Op.unmarshalFrom id :: ops).filter (fun o => !o.isScribble)
          = Op.unmarshalFrom id :: ops.filter (fun o => !o.isScribble) := by simp [Op.isScribble]
      rw [hf]
      exact sim_cons ho (ih _ _ _ hs hc.2)
    | buildFrom ks vs opt =>
      simp only [cleanFrom, Bool.and_eq_true, List.all_eq_true, Bool.not_eq_true',
        List.contains_eq_mem, decide_eq_false_iff_not] at hc
      obtain ⟨⟨hk, hv⟩, hc⟩ := hc
      have hks : ks.map (getBuf s₁.bufs) = ks.map (getBuf s₂.bufs) :=
        List.map_congr_left (fun k hk' => hb k (hk k hk'))
      have hvs : vs.map (·.map (getBuf s₁.bufs)) = vs.map (·.map (getBuf s₂.bufs)) := by
        cases vs with
        | none => rfl
        | some l =>
          simp only [Option.map_some, Option.some.injEq]
          exact List.map_congr_left (fun k hk' => hb k (hv k (by simpa using hk')))
      have hst : (step s₁ (.buildFrom ks vs opt)).2 = (step s₂ (.buildFrom ks vs opt)).2 ∧
          Sim T (step s₁ (.buildFrom ks vs opt)).1 (step s₂ (.buildFrom ks vs opt)).1 := by
        simp only [step, hks, hvs]
        split
        · exact ⟨rfl, hi, he, hb⟩
        · split
          · exact ⟨rfl, rfl, he, hb⟩
          · exact ⟨rfl, hi, he, hb⟩
      have hf : (Op.buildFrom ks vs opt :: ops).filter (fun o => !o.isScribble)
          = Op.buildFrom ks vs opt :: ops.filter (fun o => !o.isScribble) := by simp [Op.isScribble]
      rw [hf]
      exact sim_cons hst.1 (ih _ _ _ hst.2 hc)
    | query q =>
      simp only [cleanFrom] at hc
      have ho : (step s₁ (.query q)).2 = (step s₂ (.query q)).2 := by
        simp only [step, hi]
      have hs : Sim T (step s₁ (.query q)).1 (step s₂ (.query q)).1 := ⟨hi, he, hb⟩
      have hf : (Op.query q :: ops).filter (fun o => !o.isScribble)
          = Op.query q :: ops.filter (fun o => !o.isScribble) := by simp [Op.isScribble]
      rw [hf]
      exact sim_cons ho (ih _ _ _ hs hc)

theorem sim_refl (s : State) : Sim [] s s := ⟨rfl, rfl, fun _ _ => rfl⟩

/-- no operation but `scribble` and `marshalInto` writes a buffer -/
theorem step_bufs_unchanged (s : State) (op : Op)
    (h : match op with | .scribble _ _ => False | .marshalInto _ => False | _ => True) :
    (step s op).1.bufs = s.bufs := by
  cases op with
  | scribble id p => exact h.elim
  | marshalInto id => exact h.elim
  | unmarshalFrom id => rfl
  | query q => rfl
  | buildFrom ks vs opt =>
    simp only [step]
    split
    · rfl
    · split <;> rfl

end Buffers
