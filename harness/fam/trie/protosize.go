package trie

import (
	proto "github.com/golang/protobuf/proto"
	"github.com/openacid/low/pbcmpl"
	slim "github.com/openacid/slim/trie"
)

// protoSizeOf returns the advertised size of the marshaled stream: the 32-byte
// header plus proto.Size of the inner message (decoded from the stream, since
// the inner message is not exported by SlimTrie).
func protoSizeOf(st *slim.SlimTrie) int {
	b, err := st.Marshal()
	if err != nil || len(b) < 32 {
		return -1
	}
	m := &slim.Slim{}
	if proto.Unmarshal(b[32:], m) != nil {
		return -1
	}
	return pbcmpl.Size(m)
}
