import SlimModel.SlimMsg
/-
  SlimModel.BitsPop — `Bits.popcount` (the specification: count the set bits among the low 64 by
  testing each) and its compiled form (`@[csimp]`): two 32-bit halves, each counted with machine
  word arithmetic (`% 2`, `/ 2`) instead of 64 `Nat.testBit`s on a boxed 64-bit number plus a list
  of the hits.  First module of the `Bits` family so that every user is compiled with it.
-/

namespace Bits

/-- number of set bits among the low 64 bits (`bits.OnesCount64`) -/
def popcount (w : Nat) : Nat := ((List.range 64).filter (fun i => w.testBit i)).length

/-- `acc` + the number of set bits among the low `n` bits of `x` -/
def popLoop : Nat → Nat → Nat → Nat
  | 0, _, acc => acc
  | n + 1, x, acc => popLoop n (x / 2) (acc + x % 2)

def popcountFast (w : Nat) : Nat :=
  popLoop 32 (w % 2 ^ 32) (popLoop 32 (w / 2 ^ 32 % 2 ^ 32) 0)

theorem popLoop_spec (n x acc : Nat) :
    popLoop n x acc = acc + ((List.range n).filter (fun j => x.testBit j)).length := by
  induction n generalizing x acc with
  | zero => simp [popLoop]
  | succ n ih =>
    rw [popLoop, ih, List.range_succ_eq_map, List.filter_cons, List.filter_map]
    have hcomp : ((fun j => x.testBit j) ∘ Nat.succ) = fun j => (x / 2).testBit j := by
      funext j
      simp only [Function.comp_apply, Nat.succ_eq_add_one, Nat.testBit_succ]
    rw [hcomp, Nat.testBit_zero]
    rcases Nat.mod_two_eq_zero_or_one x with h | h <;> simp [h] <;> omega

theorem popcount_eq_popcountFast (w : Nat) : popcount w = popcountFast w := by
  unfold popcount popcountFast
  rw [popLoop_spec, popLoop_spec, Nat.zero_add]
  have hsplit : List.range 64 = List.range 32 ++ (List.range 32).map (32 + ·) := by
    rw [show (64 : Nat) = 32 + 32 from rfl, List.range_add]
  rw [hsplit, List.filter_append, List.length_append, List.filter_map, List.length_map, Nat.add_comm]
  congr 2
  · apply List.filter_congr
    intro j hj
    rw [List.mem_range] at hj
    simp only [Function.comp_apply, Nat.testBit_mod_two_pow, hj, decide_true, Bool.true_and]
    rw [← Nat.shiftRight_eq_div_pow, Nat.testBit_shiftRight]
  · apply List.filter_congr
    intro j hj
    rw [List.mem_range] at hj
    simp only [Nat.testBit_mod_two_pow, hj, decide_true, Bool.true_and]

@[csimp] theorem popcount_eq_fast : @popcount = @popcountFast := by
  funext w; exact popcount_eq_popcountFast w

end Bits
