import SlimModel.Query
/-
  SlimProofs.WF — the well-formedness invariant of the L1 record array (group (a) of DESIGN §3.2).

  `WF keys keep opt t` says: there is a queue of subsets (the BFS queue of `newSlim`), one per
  node, such that node j is exactly what `buildStep` makes of subset j:
  * a singleton subset is a leaf that remembers its key index and (if `opt.leaf`) the key's tail;
  * a larger subset [s,e) examined from position fb is an inner node branching at some position
    ws ≥ fb up to which all its keys agree, whose labels are the labels at ws of its *kept*
    keys, strictly ascending, and whose k-th child is subset `firstChild + k` = exactly the keys
    of [s,e) that carry the k-th label, examined from just behind the label.

  `build_wf` (SlimProofs.BuildInv) establishes it for every successful `build`;
  the query theorems (SlimProofs.Descent …) consume it.
-/

/-- half-bytes of the t-th key -/
def knOf (keys : List Bytes) (t : Nat) : List Nat := nibs (keys.getD t [])

def keptAt (keep : List Bool) (t : Nat) : Bool := keep.getD t false

/-- label index of key t at position ws (`keyLabel` of the builder) -/
def labelOf (keys : List Bytes) (ws : Nat) (big : Bool) (t : Nat) : Nat :=
  labelAt (knOf keys t) ws big

/-- what `setPrefix` records for a run from fb to ws -/
def prefOf (opt : Opt) (k : List Nat) (fb ws : Nat) : Pref :=
  if ws - fb = 0 then Pref.none
  else if opt.inner then Pref.stored (storedPrefix k fb ws)
  else Pref.step (ws - fb)

/-- what `setLeafPrefix` records for a leaf reached at position fb -/
def leafPrefOf (opt : Opt) (key : Bytes) (fb : Nat) : Option Bytes :=
  let tail := key.drop (fb / 2)
  if opt.leaf && !tail.isEmpty then some tail else none

structure SubOK (keys : List Bytes) (keep : List Bool) (o : Subset) : Prop where
  lt : o.s < o.e
  le : o.e ≤ keys.length
  /-- the subset contains a kept key -/
  kept : ∃ t, o.s ≤ t ∧ t < o.e ∧ keptAt keep t = true
  /-- all its keys agree before fb … -/
  agree : ∀ t, o.s ≤ t → t < o.e → (knOf keys t).take o.fb = (knOf keys o.s).take o.fb
  /-- … and are at least fb long -/
  long : ∀ t, o.s ≤ t → t < o.e → o.fb ≤ (knOf keys t).length

/-- node j (an inner record `r`) is what `buildStep` makes of subset `o` -/
def InnerOK (keys : List Bytes) (keep : List Bool) (opt : Opt) (queue : Array Subset)
    (j : Nat) (o : Subset) (r : InnerRec) : Prop :=
  ∃ ws : Nat,
    o.fb ≤ ws ∧
    (∀ t, o.s ≤ t → t < o.e →
      ws ≤ (knOf keys t).length ∧ (knOf keys t).take ws = (knOf keys o.s).take ws) ∧
    (r.big = true → ws % 2 = 0 ∧ o.fb % 2 = 0) ∧
    r.pref = prefOf opt (knOf keys o.s) o.fb ws ∧
    -- labels: exactly the labels of the kept keys, strictly ascending
    (∀ l, l ∈ r.labels ↔ ∃ t, o.s ≤ t ∧ t < o.e ∧ keptAt keep t = true ∧ labelOf keys ws r.big t = l) ∧
    r.labels.Pairwise (· < ·) ∧
    -- labels are monotone along the keys of the subset
    (∀ a b, o.s ≤ a → a ≤ b → b < o.e → labelOf keys ws r.big a ≤ labelOf keys ws r.big b) ∧
    -- children
    j < r.firstChild ∧
    (∀ k (hk : k < r.labels.length), ∃ c : Subset,
      queue[r.firstChild + k]? = some c ∧
      c.fb = ws + labelLen (r.labels[k]) r.big ∧
      o.s ≤ c.s ∧ c.e ≤ o.e ∧
      (∀ t, o.s ≤ t → t < o.e → ((c.s ≤ t ∧ t < c.e) ↔ labelOf keys ws r.big t = r.labels[k])))

/-- node j is what `buildStep` makes of subset `o` -/
def NodeOK (keys : List Bytes) (keep : List Bool) (opt : Opt) (queue : Array Subset)
    (leafKeyIdx : Array Nat) (j : Nat) (o : Subset) : Node → Prop
  | .leaf ith lp =>
    o.e = o.s + 1 ∧ leafKeyIdx[ith]? = some o.s ∧ lp = leafPrefOf opt (keys.getD o.s []) o.fb
  | .inner r => o.s + 2 ≤ o.e ∧ InnerOK keys keep opt queue j o r

/-- the invariant -/
def WF (keys : List Bytes) (keep : List Bool) (t : Trie1) : Prop :=
  ∃ queue : Array Subset,
    queue.size = t.nodes.size ∧
    queue[0]? = some { s := 0, e := keys.length, fb := 0 } ∧
    ∀ j (hj : j < t.nodes.size), ∃ o, queue[j]? = some o ∧ SubOK keys keep o ∧
      NodeOK keys keep t.opt queue t.leafKeyIdx j o t.nodes[j]
