import Generated.Facts
import SlimModel.Slim
/-
  SlimProps.Bridge.Consts — tie 1, fact group "consts" of lean/Generated/Facts.lean (regenerated from /repo's
  working tree by harness/cmd/extract on every run).  One module per fact group: when the extractor
  cannot find a group's facts, or a fact changed, only this module stops compiling and only the
  properties that rely on it report the broken tie.
-/
namespace Bridge

/-! ### constants of trie/slimtrie.go -/
theorem wordSize : Generated.wordSize = 4 * wordSize false := rfl          -- 4-bit word = 1 half-byte
theorem bigWordSize : Generated.bigWordSize = 4 * _root_.wordSize true := rfl
theorem innerSize : Generated.innerSize = Slim.innerSize := rfl
theorem bigInnerSize : Generated.bigInnerSize = Slim.bigInnerSize := rfl
theorem innerSize_def : Generated.innerSize = 2 ^ Generated.wordSize + 1 := rfl
theorem bigInnerSize_def : Generated.bigInnerSize = 2 ^ Generated.bigWordSize + 1 := rfl
theorem maxShortSize : Generated.maxShortSize = Slim.maxShortSize := rfl
theorem minPrefix : Generated.minPrefix = 0 := rfl                         -- the model has no minPrefix branch
theorem maxWordSize_covers_byte : 8 < Generated.maxWordSize := by decide  -- prefCounts[8-(ws&7)] is in range


end Bridge
