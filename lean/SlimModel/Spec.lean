import SlimModel.Basic
/-
  SlimModel.Spec — L0: what a SlimTrie is *supposed* to be: a sorted association list.

  Nothing here knows about tries.  The property theorems relate the model of the Go code
  (SlimModel.Build / Query / Slim …) to these functions.
-/

/-- Build options after `normalizeOpt`: `Complete` implies `inner` and `leaf`. -/
structure Opt where
  dedup : Bool := true
  inner : Bool := false
  leaf : Bool := false
  deriving Repr, DecidableEq, Inhabited

/-- `normalizeOpt`: nil pointers take their defaults, `Complete = true` forces both prefixes. -/
def Opt.normalize (dedup inner leaf complete : Option Bool) : Opt :=
  let c := complete.getD false
  { dedup := dedup.getD true
    inner := if c then true else inner.getD false
    leaf := if c then true else leaf.getD false }

def Opt.complete (o : Opt) : Bool := o.inner && o.leaf

/-- `newToKeep`: with de-duplication on and values supplied, a record is kept iff it is the
    first or its encoded value differs from its predecessor's; otherwise everything is kept. -/
def keepMaskVals : Option Bytes → List Bytes → List Bool
  | _, [] => []
  | none, v :: vs => true :: keepMaskVals (some v) vs
  | some p, v :: vs => (p != v) :: keepMaskVals (some v) vs

def keepMask (n : Nat) (vals : Option (List Bytes)) (dedup : Bool) : List Bool :=
  match vals with
  | some vs => if dedup then keepMaskVals none vs else List.replicate n true
  | none => List.replicate n true

/-- An entry of the abstract map: key and (if values were supplied) its encoded value. -/
abbrev Entry := Bytes × Option Bytes

def entries (keys : List Bytes) (vals : Option (List Bytes)) : List Entry :=
  match vals with
  | some vs => keys.zipWith (fun k v => (k, some v)) vs
  | none => keys.map (fun k => (k, none))

def filterMask {α : Type} : List α → List Bool → List α
  | a :: as, b :: bs => if b then a :: filterMask as bs else filterMask as bs
  | _, _ => []

/-- The retained entries `R(kv, o)` of DESIGN.md §6. -/
def retained (keys : List Bytes) (vals : Option (List Bytes)) (dedup : Bool) : List Entry :=
  filterMask (entries keys vals) (keepMask keys.length vals dedup)

/-- Strictly ascending in Go string order. -/
def strictAsc : List Bytes → Bool
  | a :: b :: rest => bytesLt a b && strictAsc (b :: rest)
  | _ => true

namespace Spec

def get (r : List Entry) (q : Bytes) : Option Entry := r.find? (fun e => e.1 == q)

/-- greatest entry with key ≤ q (entries ascending) -/
def le (r : List Entry) (q : Bytes) : Option Entry :=
  (r.filter (fun e => bytesLe e.1 q)).getLast?

/-- greatest entry with key < q -/
def lt (r : List Entry) (q : Bytes) : Option Entry :=
  (r.filter (fun e => bytesLt e.1 q)).getLast?

/-- smallest entry with key > q -/
def gt (r : List Entry) (q : Bytes) : Option Entry :=
  (r.filter (fun e => bytesLt q e.1)).head?

/-- entries ≥ start (or > start when `incl = false`), in order -/
def scanFrom (r : List Entry) (start : Bytes) (incl : Bool) : List Entry :=
  r.filter (fun e => if incl then bytesLe start e.1 else bytesLt start e.1)

/-- `ScanFromTo`: additionally stops at the end bound. -/
def scanFromTo (r : List Entry) (start : Bytes) (incl : Bool) (stop : Bytes) (inclEnd : Bool) :
    List Entry :=
  (scanFrom r start incl).takeWhile
    (fun e => if inclEnd then bytesLe e.1 stop else bytesLt e.1 stop)

end Spec
