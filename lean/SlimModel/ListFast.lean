/-
  SlimModel.ListFast — the one fact behind the compiled forms (`@[csimp]`) that index a list many
  times: an array copy answers `getD` like the list.  Core Lean only.
-/

theorem List.toArray_getD_eq {α : Type} (l : List α) (i : Nat) (d : α) :
    l.toArray.getD i d = l.getD i d := by
  simp [List.getD_eq_getElem?_getD]
