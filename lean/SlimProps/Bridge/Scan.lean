import Generated.Facts
/-
  SlimProps.Bridge.Scan — tie 1, fact group "scan" of lean/Generated/Facts.lean (regenerated from /repo's
  working tree by harness/cmd/extract on every run).  One module per fact group: when the extractor
  cannot find a group's facts, or a fact changed, only this module stops compiling and only the
  properties that rely on it report the broken tie.
-/
namespace Bridge

/-! ### queries (the small pure functions `encStep`, `decStep`, `getLabelIdxOfKey`, `GetI8..64` are tied
    SEMANTICALLY in SlimProps/BridgeSem.lean: translated by harness/cmd/extract/translate.go, proved equal to
    the model's definitions for all arguments) -/
/-- the refusal guard of `getGEPath` (`Slim.view.scanOK`) -/
theorem scanGuard : Generated.scanGuard =
    "st.inner.InnerPrefixes == nil || st.inner.InnerPrefixes.PositionBM == nil || st.inner.LeafPrefixes == nil" := rfl


end Bridge
