package leg

import (
	"bytes"
	"encoding/hex"
	"fmt"
	"os"
	"path/filepath"
	"reflect"
	"sort"
	"strconv"
	"strings"

	"github.com/openacid/slim/encode"
	slim "github.com/openacid/slim/trie"

	"slimverif/harness/fam/trie"
	"slimverif/harness/gen"
	"slimverif/harness/lp"
)

// Variants of the line protocol, in historical order.
var Variants3 = []string{"0.5.0", "0.5.3", "0.5.4", "0.5.7", "0.5.8", "0.5.9"}
var Variants10 = []string{"nopref-0.5.10", "innpref-0.5.10", "allpref-0.5.10", "nopref-0.5.11", "innpref-0.5.11", "allpref-0.5.11"}

// repoDir is where the archived fixtures live.
func repoDir() string {
	if d := os.Getenv("SLIM_REPO"); d != "" {
		return d
	}
	return "/repo"
}

// oracle: the index a legacy stream encodes = a sorted slice of (key, value).
type oracle struct {
	keys []string
	vals [][]byte
}

func (o *oracle) tok(i int) string {
	if i < 0 || i >= len(o.keys) {
		return "nil"
	}
	return lp.X(o.vals[i])
}

func (o *oracle) found(i int) string { return "f " + lp.X(o.vals[i]) }

func compact(s string) string {
	if len(s) <= 2000 {
		return "l:" + s
	}
	return fmt.Sprintf("h:%d:%s", len(s), trie.Fnv64([]byte(s)))
}

// scanItems: expected listing of a scan from start (pad = extra exhausted next() calls).
func (o *oracle) scanItems(start string, incl, withVal bool, stopAfter, pad int) (string, int) {
	var sb strings.Builder
	cnt := 0
	for i, k := range o.keys {
		if k < start || (k == start && !incl) {
			continue
		}
		v := "nil"
		if withVal {
			v = lp.X(o.vals[i])
		}
		sb.WriteString(lp.XS(k) + "=" + v + ";")
		cnt++
		if cnt == stopAfter {
			break
		}
	}
	for i := 0; i < pad; i++ {
		sb.WriteString("nil=nil;")
	}
	return compact(sb.String()), cnt
}

func b2s(b bool) string {
	if b {
		return "1"
	}
	return "0"
}

// loaded is one legacy stream under test.
type loaded struct {
	c       *lp.Ctx
	o       *oracle
	variant string
	stream  []byte
	what    string // description for violations
	nviol   int
}

func trunc(s string) string {
	if len(s) > 4000 {
		return s[:4000] + fmt.Sprintf("...(%d bytes)", len(s))
	}
	return s
}

// viol records a violation; the complete reproducer (stream included) is written to a file in
// the output directory when the load line is too long to quote.
func (l *loaded) viol(what, op, want, got string) {
	l.nviol++
	load := "trie.unmarshal " + lp.X(l.stream)
	if len(load) > 4000 {
		fn := filepath.Join(l.c.OutDir, fmt.Sprintf("violation-%d.script", len(l.c.Violations)))
		os.WriteFile(fn, []byte("trie.fresh "+curEnc+"\n"+load+"\n"+op+"\n"), 0o644)
		load = trunc(load) + " (full script: " + fn + ")"
	}
	l.c.Violate(lp.Violation{
		What:     fmt.Sprintf("%s [%s, %s, %d keys]", what, l.variant, l.what, len(l.o.keys)),
		Script:   []string{"trie.fresh " + curEnc, load, op},
		Expected: want, Got: got,
	})
}

func (l *loaded) expect(what, op, want string) bool {
	got := l.c.Do(op)
	if got != want {
		l.viol(what, op, want, got)
		return false
	}
	return true
}

// scribbleAfterLoad (C20): when non-empty, every load is an Unmarshal from a caller-owned buffer that is OVERWRITTEN
// right afterwards with this pattern (0 = 0x00, 1 = 0xff, 2 = pseudo-random); every later answer of the battery
// is then an answer "after the caller reused its buffer".
var scribbleAfterLoad = ""

// load: a fresh instance that only knows the encoder, then Unmarshal of the stream.
func (l *loaded) load() bool {
	l.c.Do("trie.fresh " + curEnc)
	if scribbleAfterLoad != "" {
		l.c.Hit("legacy-load-then-overwrite-buffer:" + scribbleAfterLoad)
		return l.expect("legacy stream must load without error (buffer overwritten afterwards)",
			"trie.unmarshal-scribble "+lp.X(l.stream)+" "+scribbleAfterLoad, "ok")
	}
	return l.expect("legacy stream must load without error", "trie.unmarshal "+lp.X(l.stream), "ok")
}

// checkIndexed: Get, RangeGet, Search on the i-th indexed key.
func (l *loaded) checkIndexed(i int) {
	o := l.o
	x := lp.XS(o.keys[i])
	l.expect("Get on an indexed key", "trie.get "+x, o.found(i))
	l.expect("RangeGet on an indexed key", "trie.rget "+x, o.found(i))
	l.expect("Search on an indexed key", "trie.search "+x, o.tok(i-1)+" "+o.tok(i)+" "+o.tok(i+1))
}

// checkExact: exact answers on an arbitrary query (streams with full prefixes).
func (l *loaded) checkExact(q string) {
	o := l.o
	x := lp.XS(q)
	i := sort.SearchStrings(o.keys, q)
	found := i < len(o.keys) && o.keys[i] == q
	want := "nf"
	if found {
		want = o.found(i)
	}
	l.expect("allpref: Get is exact", "trie.get "+x, want)
	got := l.c.Do("trie.id " + x)
	if (got != "-1") != found || got == "panic" {
		l.viol("allpref: GetID found iff indexed", "trie.id "+x, fmt.Sprint(found), got)
	}
	lt, eq, gt := i-1, -1, i
	le := i - 1
	if found {
		eq, gt, le = i, i+1, i
	}
	want = "nf"
	if le >= 0 {
		want = o.found(le)
	}
	l.expect("allpref: RangeGet = value of the greatest key <= q", "trie.rget "+x, want)
	l.expect("allpref: Search = (lt, eq, gt)", "trie.search "+x, o.tok(lt)+" "+o.tok(eq)+" "+o.tok(gt))
}

// checkScans: NewIter / ScanFrom from a start key (streams with full prefixes).
func (l *loaded) checkScans(q string) {
	r := l.c.Rng
	for _, incl := range []bool{true, false} {
		withVal := r.Intn(2) == 0
		_, cntGE := l.o.scanItems(q, incl, false, -1, 0)
		want, _ := l.o.scanItems(q, incl, withVal, -1, 2)
		l.expect("allpref: NewIter yields the entries >= start, then exhaustion",
			fmt.Sprintf("trie.iter %s %s %s %d", lp.XS(q), b2s(incl), b2s(withVal), cntGE+2), want)
		stop := -1
		if r.Intn(2) == 0 {
			stop = 1 + r.Intn(cntGE+1)
		}
		want, _ = l.o.scanItems(q, incl, withVal, stop, 0)
		l.expect("allpref: ScanFrom", fmt.Sprintf("trie.scan %s %s %s %d", lp.XS(q), b2s(incl), b2s(withVal), stop), want)
	}
}

func (l *loaded) checkStat() string {
	got := l.c.Do("trie.stat")
	want := fmt.Sprintf("keys=%d ", len(l.o.keys))
	if !strings.Contains(got, " "+want) {
		l.viol("Stat: KeyCnt = number of indexed keys", "trie.stat", want, got)
	}
	// the level table: total = inner + leaf in every row, rows never decrease, the last row carries the totals
	var levelCnt, keys, nodes int
	var lv string
	if _, err := fmt.Sscanf(got, "levelcnt=%d levels=%s keys=%d nodes=%d", &levelCnt, &lv, &keys, &nodes); err == nil {
		var pt, pi, pl int
		ls := strings.Split(lv, ",")
		for k, row := range ls {
			var t, i, f int
			fmt.Sscanf(row, "%d/%d/%d", &t, &i, &f)
			if t != i+f || t < pt || i < pi || f < pl || (k == len(ls)-1 && (t != nodes || (len(l.o.keys) > 0 && f != keys))) {
				l.viol("Stat of a legacy-loaded trie: level rows consistent (total = inner + leaf, never decreasing, last row = totals)", "trie.stat", "", got)
				break
			}
			pt, pi, pl = t, i, f
		}
	}
	return got
}

func isAllpref(variant string) bool { return strings.HasPrefix(variant, "allpref-") }

// battery runs the property's checks on a loaded stream; every = 1: all indexed keys.
func (l *loaded) battery(every int, nq, nscan int) {
	c := l.c
	if !l.load() {
		return
	}
	l.checkStat()
	// the converted in-memory message, byte for byte: re-Marshal on both sides (answers are diffed)
	if got := c.Do("trie.marshal"); !strings.HasPrefix(got, "ok ") {
		l.viol("re-Marshal of a loaded legacy stream", "trie.marshal", "ok <len> <hash>", got)
	}
	// the upgrade path: every second battery continues on the instance that results from writing the loaded
	// index with the CURRENT writer and loading that into a fresh instance; the same answers are demanded.
	if c.Rng.Intn(2) == 0 {
		c.Hit("upgrade:marshal+reload")
		before := c.Do("trie.stat")
		if got := c.Do("trie.reload"); got != "ok" {
			l.viol("upgrade: a loaded legacy stream written by the current writer must load", "trie.reload", "ok", got)
			return
		}
		if after := l.checkStat(); after != before {
			l.viol("Stat of a legacy-loaded trie is unchanged by a marshal round trip", "trie.reload; trie.stat", before, after)
		}
	}
	for i := range l.o.keys {
		if every <= 1 || i%every == 0 || i == len(l.o.keys)-1 {
			l.checkIndexed(i)
		}
	}
	if isAllpref(l.variant) {
		for _, q := range gen.Queries(c.Rng, sampleKeys(c, l.o.keys, 400), nq) {
			l.checkExact(q)
		}
		qs := gen.Queries(c.Rng, sampleKeys(c, l.o.keys, 50), nscan)
		if len(l.o.keys) <= 2000 {
			for _, q := range qs {
				l.checkScans(q)
			}
		} else {
			// big streams: bounded iterations only
			for _, q := range qs {
				want, _ := l.o.scanItems(q, true, true, 20, 0)
				l.expect("allpref: ScanFrom (20 items)", "trie.scan "+lp.XS(q)+" 1 1 20", want)
			}
		}
		c.Hit("allpref:exact+scan")
	}
}

// sampleKeys: at most max keys (the query family is derived from them).
func sampleKeys(c *lp.Ctx, keys []string, max int) []string {
	if len(keys) <= max {
		return keys
	}
	out := make([]string, 0, max)
	for _, i := range c.Rng.Perm(len(keys))[:max] {
		out = append(out, keys[i])
	}
	sort.Strings(out)
	return out
}

func writeLine(variant string, keys []string, vals [][]byte) string {
	var sb strings.Builder
	sb.WriteString("leg.write ")
	sb.WriteString(variant)
	for i, k := range keys {
		sb.WriteByte(' ')
		sb.WriteString(lp.XS(k))
		sb.WriteByte(' ')
		sb.WriteString(lp.X(vals[i]))
	}
	return sb.String()
}

// Encodable3 reports whether the three-section layout can hold the key set: every stored step
// (half-bytes of a single-branch run + 1) must fit the uint16 step, and uint32 children address
// the first child with 16 bits.
func Encodable3(vr Variant3, keys []string) (ok bool, nodes int, maxStep int) {
	ns := BuildOld(keys, vr.LeafSteps)
	for _, n := range ns {
		if n.Step > maxStep {
			maxStep = n.Step
		}
	}
	ok = maxStep <= MaxOldStep
	if !vr.BitmapChild && len(ns) > 65536 {
		ok = false
	}
	return ok, len(ns), maxStep
}

// How much of a case goes through script lines (the model side is quadratic in the stream size).
const (
	viaLines   = 0 // writer tie line, load and battery through script lines
	tieAndGo   = 1 // writer tie line; load and all keys through the API directly (Go side only)
	goSideOnly = 2 // everything Go side only
)

// runVariant: writer tie, load, battery — for one key set and one layout.
func runVariant(c *lp.Ctx, variant, class string, keys []string, every, nq, nscan int) {
	runVariantMode(c, viaLines, variant, class, keys, every, nq, nscan)
}

// curEnc / curVals: the value encoder of the instance that loads the stream and the fixed-width values
// written into it (the archived files hold int32 0..n-1; section "value widths" switches to 1, 2, 3,
// 7 and 8 byte values).
var (
	curEnc  = "i32"
	curVals = I32Vals
)

// widthVals: distinct values of w bytes.
func widthVals(w int) func(n int) [][]byte {
	return func(n int) [][]byte {
		out := make([][]byte, n)
		for i := range out {
			x := uint64(i+1) * 0x9E3779B97F4A7C15
			b := make([]byte, w)
			for j := range b {
				b[j] = byte(x >> uint(8*(j%8)))
			}
			b[0] = byte(i)
			if w > 1 {
				b[1] = byte(i >> 8)
			}
			out[i] = b
		}
		return out
	}
}

func runVariantMode(c *lp.Ctx, mode int, variant, class string, keys []string, every, nq, nscan int) {
	vals := curVals(len(keys))
	if vr, ok := ParseVariant3(variant); ok {
		enc, nodes, maxStep := Encodable3(vr, keys)
		if !enc {
			c.Hit("skipped:not-encodable-in-" + variant)
			return
		}
		if maxStep > 256 {
			c.Hit("shape:step>255-half-bytes")
		}
		if nodes > 65535 {
			c.Hit("shape:>65535-nodes")
		}
	}
	stream, err := Write(variant, keys, vals)
	if err != nil {
		// only the 0.5.10 builder can refuse: a step that does not fit 16 bits
		if trie.ErrKind(err) == "err:step-too-long" {
			if mode != goSideOnly {
				c.Do(writeLine(variant, keys, vals))
			}
			c.Hit("skipped:step-too-long-for-" + variant)
			return
		}
		c.Violate(lp.Violation{What: "reconstructed writer failed: " + err.Error(), Script: []string{trunc(writeLine(variant, keys, vals))}})
		return
	}
	c.Hit("variant:" + variant)
	c.Hit("class:" + class)
	c.Case(variant+"|"+trie.Fnv64([]byte(strings.Join(keys, "\x00|"))), len(keys) >= 2)
	describe(c, keys)
	if mode != goSideOnly {
		// writer tie: the model's writer must produce the same bytes
		line := writeLine(variant, keys, vals)
		if got, want := c.Do(line), "ok "+hashStr(stream); got != want {
			c.Violate(lp.Violation{What: "leg.write answer differs from Write()", Script: []string{trunc(line)}, Expected: want, Got: got})
		}
		c.Sample(line)
	}
	if mode != viaLines {
		c.Hit("checked:go-side-all-keys")
		if bad := DirectCheck(stream, keys, vals, isAllpref(variant), c); bad != "" {
			c.Violate(lp.Violation{What: fmt.Sprintf("%s [%s, class %s, %d keys]", bad, variant, class, len(keys)), Script: []string{trunc(writeLine(variant, keys, vals))}})
		}
		return
	}
	l := &loaded{c: c, o: &oracle{keys, vals}, variant: variant, stream: stream, what: "class " + class}
	l.battery(every, nq, nscan)
}

func describe(c *lp.Ctx, keys []string) {
	switch {
	case len(keys) == 0:
		c.Hit("keys:empty-set")
	case len(keys) == 1:
		c.Hit("keys:single")
	case len(keys) < 10:
		c.Hit("keys:2-9")
	case len(keys) < 100:
		c.Hit("keys:10-99")
	case len(keys) < 1000:
		c.Hit("keys:100-999")
	default:
		c.Hit("keys:>=1000")
	}
	if len(keys) > 1 && keys[0] == "" {
		c.Hit("shape:empty-key-root")
		if len(keys) > 1000 {
			c.Hit("shape:empty-key-root-in-large-trie")
		}
	}
	for i := 0; i+1 < len(keys); i++ {
		if strings.HasPrefix(keys[i+1], keys[i]) {
			c.Hit("shape:key-ends-at-inner-node")
			break
		}
	}
	for _, k := range keys {
		hi := false
		for j := 0; j < len(k); j++ {
			if k[j] >= 0x80 {
				hi = true
			}
		}
		if hi {
			c.Hit("shape:bytes>=0x80")
			break
		}
	}
}

// keySets: the shape classes of the property.
func keySet(c *lp.Ctx, it int, size int) gen.KeySet {
	r := c.Rng
	switch it % 12 {
	case 0:
		return gen.Tiny(r)
	case 1:
		ks := gen.Tiny(r)
		if len(ks.Keys) > 1 {
			ks.Keys = ks.Keys[:1]
		}
		ks.Class = "single-or-empty"
		return ks
	case 2:
		return gen.AnyBytes(r, size, 6)
	case 3:
		return gen.PrefixChains(r, size)
	case 4:
		// steps > 255 half-bytes: shared runs of up to 400 bytes
		return gen.LongSteps(r, size/8+2, 150+r.Intn(250))
	case 5:
		ks := gen.PrefixChains(r, size)
		ks.Keys = withEmptyKey(ks.Keys)
		ks.Class = "prefixchains+emptykey"
		return ks
	case 6:
		return ffPrefixes(c, size)
	default:
		return gen.Any(r, size)
	}
}

// valueWidths: the archived files only hold 4-byte values; the layouts store any fixed width.  Streams
// with 1, 2, 3, 7 and 8 byte values (3 and 7 are not powers of two) through script lines (both sides)
// and with every key through the API.
func valueWidths(c *lp.Ctx, all []string, size int) {
	c.Comment("section: value widths")
	defer func() { curEnc, curVals = "i32", I32Vals }()
	it := 0
	for _, ew := range []struct {
		enc string
		w   int
	}{{"i8", 1}, {"i16", 2}, {"bytes3", 3}, {"te7", 7}, {"i64", 8}, {"bytes12", 12}, {"bytes16", 16}, {"bytes33", 33}} {
		curEnc, curVals = ew.enc, widthVals(ew.w)
		for k := 0; k < c.Pick(2, 6); k++ {
			ks := keySet(c, 2+it, size)
			if ew.w > 8 && k == 0 {
				// values wider than any integer AND keys that end at inner nodes (the empty key included)
				ks = gen.PrefixChains(c.Rng, size)
				ks.Keys = withEmptyKey(ks.Keys)
				ks.Class = "prefixchains+emptykey"
			}
			if ew.w == 1 && len(ks.Keys) > 200 {
				ks.Keys = ks.Keys[:200]
			}
			for j := 0; j < 3; j++ {
				variant := all[(it*3+j)%len(all)]
				c.Hit(fmt.Sprintf("value-width:%d", ew.w))
				runVariantMode(c, viaLines, variant, ks.Class+"+width", ks.Keys, 1, c.Pick(20, 80), c.Pick(3, 10))
				runVariantMode(c, goSideOnly, variant, ks.Class+"+width", ks.Keys, 1, 0, 0)
			}
			it++
		}
	}
}

func withEmptyKey(keys []string) []string {
	if len(keys) > 0 && keys[0] == "" {
		return keys
	}
	return append([]string{""}, keys...)
}

// ffPrefixes: shared runs ending on a half byte right after 0xff bytes (the prefix
// re-encoding's 0x01-control-byte case with a marker bit in a fresh half byte), plus runs ending
// on whole bytes; over bytes 0xff / 0xf0 / 0x0f / 0x00.
func ffPrefixes(c *lp.Ctx, size int) gen.KeySet {
	r := c.Rng
	m := map[string]struct{}{}
	n := 2 + r.Intn(size/4+2)
	al := []byte{0xff, 0xff, 0xf0, 0xf1, 0x0f, 0x00, 0xfe}
	for len(m) < n {
		l := 1 + r.Intn(6)
		b := make([]byte, l)
		for i := range b {
			b[i] = al[r.Intn(len(al))]
		}
		base := string(b)
		// two keys that differ in the low half of the byte after the run, two in the high half
		x := byte(r.Intn(16))
		m[base+string([]byte{0xf0 | x})] = struct{}{}
		m[base+string([]byte{0xf0 | (x ^ byte(1+r.Intn(15)))})+"a"] = struct{}{}
		if r.Intn(2) == 0 {
			m[base+string([]byte{x << 4})] = struct{}{}
		}
		if r.Intn(3) == 0 {
			m[base] = struct{}{}
		}
	}
	ks := make([]string, 0, len(m))
	for k := range m {
		ks = append(ks, k)
	}
	sort.Strings(ks)
	return gen.KeySet{Keys: ks, Class: "ff-prefixes"}
}

// genC20legacy: C20's clause "Unmarshal neither modifies nor retains the input buffer ... also for legacy streams
// whose prefixes are re-encoded during load": the C06 battery (every indexed key answers with its value and its
// exact neighbours; allpref streams: exact absent-key answers and scans) on streams of every layout, loaded from a
// buffer the caller overwrites right after Unmarshal returns.
func genC20legacy(c *lp.Ctx) {
	all := append(append([]string{}, Variants3...), Variants10...)
	n := c.Pick(40, 200)
	size := c.Pick(100, 300)
	defer func() { scribbleAfterLoad = "" }()
	for it := 0; it < n; it++ {
		ks := keySet(c, it, size)
		scribbleAfterLoad = fmt.Sprint(it % 3)
		for j := 0; j < 2; j++ {
			variant := all[(it*2+j)%len(all)]
			runVariant(c, variant, ks.Class, ks.Keys, 1, c.Pick(20, 80), c.Pick(3, 10))
		}
	}
}

// exactCountKeys: n distinct keys (mixed shapes) for leaf counts that matter to word-sized bitmaps: 64, 128, 192 …
func exactCountKeys(c *lp.Ctx, n int) []string {
	m := map[string]struct{}{}
	al := []byte{0x00, 0x01, 0x0f, 0x10, 0x61, 0x62, 0x7f, 0x80, 0xf0, 0xff}
	for len(m) < n {
		l := 1 + c.Rng.Intn(5)
		b := make([]byte, l)
		for i := range b {
			b[i] = al[c.Rng.Intn(len(al))]
		}
		m[string(b)] = struct{}{}
	}
	keys := make([]string, 0, n)
	for k := range m {
		keys = append(keys, k)
	}
	sort.Strings(keys)
	return keys
}

// genC14legacy: C14 on tries LOADED FROM LEGACY STREAMS of every layout ("including … loaded tries"): GetI8/16/32/64
// must return the same found flag and number as Get, for every indexed key and for absent queries; leaf counts
// include exact multiples of 64 (a presence bitmap the loader rebuilds ends on a word boundary there).
func genC14legacy(c *lp.Ctx) {
	all := append(append([]string{}, Variants3...), Variants10...)
	defer func() { curEnc, curVals = "i32", I32Vals }()
	it := 0
	for _, ew := range []struct {
		enc string
		w   int
	}{{"i8", 1}, {"i16", 2}, {"i32", 4}, {"i64", 8}} {
		curEnc, curVals = ew.enc, widthVals(ew.w)
		sizes := []int{64, 128, 1 + c.Rng.Intn(200), 192, 63, 65}
		for _, n := range sizes[:c.Pick(4, 6)] {
			if ew.w == 1 && n > 200 {
				n = 128
			}
			keys := exactCountKeys(c, n)
			for j := 0; j < c.Pick(3, len(all)); j++ {
				variant := all[(it+j*5)%len(all)]
				vals := curVals(len(keys))
				stream, err := Write(variant, keys, vals)
				if err != nil {
					continue
				}
				c.Do(writeLine(variant, keys, vals))
				l := &loaded{c: c, o: &oracle{keys, vals}, variant: variant, stream: stream, what: fmt.Sprintf("typed getters, %d keys", n)}
				if !l.load() {
					continue
				}
				c.Hit(fmt.Sprintf("legacy-typed-getter:%s:%s", ew.enc, variant))
				c.Case(fmt.Sprintf("%s|%s|%d|%d", variant, ew.enc, n, it), true)
				qs := append([]string{}, keys...)
				qs = append(qs, gen.Queries(c.Rng, keys, 30)...)
				for _, q := range qs {
					g := c.Do("trie.get " + lp.XS(q))
					ti := c.Do(fmt.Sprintf("trie.geti%d %s", 8*ew.w, lp.XS(q)))
					want := "nf 0"
					if strings.HasPrefix(g, "f x") {
						b, _ := hex.DecodeString(g[3:])
						var u uint64
						for i := len(b) - 1; i >= 0; i-- {
							u = u<<8 | uint64(b[i])
						}
						sh := uint(64 - 8*ew.w)
						want = "f " + strconv.FormatInt(int64(u<<sh)>>sh, 10)
					} else if g != "nf" {
						want = g // panic etc.: the typed getter must at least not succeed differently
					}
					if ti != want {
						l.viol("typed getter agrees with Get on a trie loaded from a legacy stream", fmt.Sprintf("trie.geti%d %s", 8*ew.w, lp.XS(q)), want, ti)
						break
					}
				}
			}
			it++
		}
	}
}

// genC18legacy: C18 on tries loaded from legacy streams of every layout ("KeyCnt is preserved when an equivalent
// legacy stream is loaded", "unchanged by a marshal round trip"): the battery's Stat checks on key sets with keys
// that are prefixes of other keys (old nodes that are inner node AND leaf) and ordinary ones.
// fixturesStat: every ARCHIVED file (bytes written by the old releases themselves, not by the reconstructed
// writers) loaded by the real loader: Stat reports the data set's key count, rows consistent, and the same report
// after a marshal round trip.  Go side only (no script lines): all sizes in every tier.
func fixturesStat(c *lp.Ctx) {
	repo := repoDir()
	fx, err := ListFixtures(repo)
	if err != nil {
		c.Violate(lp.Violation{What: "cannot list fixtures: " + err.Error()})
		return
	}
	for _, f := range fx {
		keys := DatasetKeys(f.Dataset)
		stream, err := os.ReadFile(filepath.Join(repo, "trie", "testdata", f.File))
		if err != nil {
			continue
		}
		bad := func() (bad string) {
			defer func() {
				if r := recover(); r != nil {
					bad = fmt.Sprintf("panic: %v", r)
				}
			}()
			st, _ := slim.NewSlimTrie(encode.I32{}, nil, nil)
			if err := st.Unmarshal(stream); err != nil {
				return "load: " + err.Error()
			}
			s := st.Stat()
			if int(s.KeyCnt) != len(keys) {
				return fmt.Sprintf("KeyCnt = %d, the data set has %d keys", s.KeyCnt, len(keys))
			}
			var pt, pi, pl int32
			for k, row := range s.Levels {
				if row.Total != row.Inner+row.Leaf || row.Total < pt || row.Inner < pi || row.Leaf < pl {
					return fmt.Sprintf("level row %d inconsistent: %+v", k, s.Levels)
				}
				pt, pi, pl = row.Total, row.Inner, row.Leaf
			}
			if len(keys) > 0 && (pt != s.NodeCnt || pl != s.KeyCnt) {
				return fmt.Sprintf("last level row is not the totals: %+v", *s)
			}
			b, err := st.Marshal()
			if err != nil {
				return "marshal: " + err.Error()
			}
			st2, _ := slim.NewSlimTrie(encode.I32{}, nil, nil)
			if err := st2.Unmarshal(b); err != nil {
				return "reload: " + err.Error()
			}
			if !reflect.DeepEqual(*st2.Stat(), *s) {
				return fmt.Sprintf("Stat changed by a marshal round trip: %+v -> %+v", *s, *st2.Stat())
			}
			return ""
		}()
		c.Case("fixture-stat|"+f.File, true)
		c.Hit("fixture:stat-go-side")
		if bad != "" {
			c.Violate(lp.Violation{What: "Stat of the archived file " + f.File + ": " + bad,
				Script: []string{"Unmarshal(trie/testdata/" + f.File + "); Stat()"}, Expected: fmt.Sprintf("KeyCnt=%d, consistent rows, stable across a round trip", len(keys)), Got: bad})
		}
	}
}

func genC18legacy(c *lp.Ctx) {
	fixturesStat(c)
	all := append(append([]string{}, Variants3...), Variants10...)
	for it := 0; it < c.Pick(40, 200); it++ {
		var ks gen.KeySet
		switch it % 3 {
		case 0:
			ks = gen.PrefixChains(c.Rng, c.Pick(60, 300))
		case 1:
			ks = gen.PrefixChains(c.Rng, c.Pick(60, 300))
			ks.Keys = withEmptyKey(ks.Keys)
		default:
			ks = keySet(c, it, c.Pick(80, 300))
		}
		for j := 0; j < 2; j++ {
			runVariant(c, all[(it*2+j)%len(all)], ks.Class, ks.Keys, 7, 4, 1)
		}
	}
}

func genC06(c *lp.Ctx) {
	// leaf counts that are exact multiples of 64 (and their neighbours) in every layout
	all0 := append(append([]string{}, Variants3...), Variants10...)
	for i, n := range []int{64, 128, 192, 63, 65}[:c.Pick(3, 5)] {
		keys := exactCountKeys(c, n)
		for j := 0; j < c.Pick(4, len(all0)); j++ {
			runVariant(c, all0[(i*4+j*3)%len(all0)], fmt.Sprintf("exact-%d", n), keys, 1, c.Pick(20, 60), c.Pick(3, 8))
		}
	}
	all := append(append([]string{}, Variants3...), Variants10...)
	n := c.Pick(150, 500)
	size := c.Pick(120, 400)
	perSet := c.Pick(3, len(all))
	for it := 0; it < n; it++ {
		ks := keySet(c, it, size)
		// quick: a rotating window of layouts per key set (every layout every 4 sets); thorough: all
		for j := 0; j < perSet; j++ {
			variant := all[(it*perSet+j)%len(all)]
			runVariant(c, variant, ks.Class, ks.Keys, 1, c.Pick(40, 150), c.Pick(6, 20))
		}
	}
	valueWidths(c, all, size)
	malformed(c)
	c.Comment("section: limits of the uint16 step")
	limitShapes(c)
	bigShapes(c)
	c.Comment("section: archived files")
	fixtures(c)
}

// malformed: inputs no writer accepts (keys not strictly ascending, unknown layouts): both sides
// must refuse alike.
func malformed(c *lp.Ctx) {
	c.Comment("section: inputs the writers refuse")
	all := append(append([]string{}, Variants3...), Variants10...)
	for it := 0; it < c.Pick(40, 200); it++ {
		ks := gen.Any(c.Rng, 20)
		if len(ks.Keys) < 2 {
			continue
		}
		keys := append([]string{}, ks.Keys...)
		i := c.Rng.Intn(len(keys) - 1)
		if c.Rng.Intn(2) == 0 {
			keys[i], keys[i+1] = keys[i+1], keys[i] // swapped neighbours
		} else {
			keys[i+1] = keys[i] // duplicate
		}
		v := all[c.Rng.Intn(len(all))]
		line := writeLine(v, keys, I32Vals(len(keys)))
		if got := c.Do(line); got != "err:out-of-order" {
			c.Violate(lp.Violation{What: "writer accepts keys that are not strictly ascending", Script: []string{line}, Expected: "err:out-of-order", Got: got})
		}
		c.Hit("malformed:out-of-order")
	}
	for _, v := range []string{"0.5.12", "0.4.3", "1.0.0", "allpref-0.5.9", "fullpref-0.5.10", "nopref-0.5.12", "", "a-b-c"} {
		if got := c.Do("leg.write " + v + " x61 x00000000"); got != "err:other" {
			c.Violate(lp.Violation{What: "unknown layout name accepted", Script: []string{"leg.write " + v}, Expected: "err:other", Got: got})
		}
		c.Hit("malformed:unknown-layout")
	}
}

// limitShapes: the single-branch run at the limit of the uint16 step (65535 including the label
// half-byte), the first run beyond it is documented as not encodable.
func limitShapes(c *lp.Ctx) {
	mk := func(run int) []string {
		// two keys sharing `run` half-bytes; the root's step is run + 1
		nb := run / 2
		base := strings.Repeat("\xab", nb)
		if run%2 == 0 {
			return []string{base + "\x10", base + "\x20"}
		}
		return []string{base + "\xa1", base + "\xa2"}
	}
	runs := []int{255, 256, 257, 511, 4096}
	if !c.Quick() {
		runs = append(runs, 65533, 65534)
	}
	for _, run := range runs {
		keys := mk(run)
		for _, v := range append(append([]string{}, Variants3...), "nopref-0.5.10", "allpref-0.5.10") {
			runVariant(c, v, fmt.Sprintf("limit-run-%d", run), keys, 1, 20, 2)
		}
	}
	// beyond the limit: not encodable (documented; nothing is written)
	vr, _ := ParseVariant3("0.5.9")
	if ok, _, maxStep := Encodable3(vr, mk(65535)); ok {
		c.Violate(lp.Violation{What: "Encodable3 accepts a step beyond the uint16 limit", Got: fmt.Sprint(maxStep)})
	} else {
		c.Notes = append(c.Notes, fmt.Sprintf("three-section layouts: a run of 65535 half-bytes needs step %d > 65535: outside the layout (not generated)", maxStep))
	}
}

// bigShapes (thorough): > 65535 nodes (layouts with 31-bit ids: 0.5.4+ and 0.5.10), an empty-key
// root in a large trie.
func bigShapes(c *lp.Ctx) {
	u32ManyNodes(c)
	if c.Quick() {
		// a moderately large trie with an empty-key root in every layout family
		ks := gen.ShortTable(c.Rng, 4, 12)
		keys := withEmptyKey(ks.Keys)
		for _, v := range []string{"0.5.0", "0.5.9", "allpref-0.5.10"} {
			runVariant(c, v, "large+emptykey", keys, 5, 40, 4)
		}
		return
	}
	ks := gen.ShortTable(c.Rng, 7, 40) // 16384 bottom nodes x 2..4 keys
	keys := withEmptyKey(ks.Keys)
	c.Comment("section: > 65535 nodes")
	// through script lines on both sides: one three-section layout and the 0.5.10 layout with
	// full prefixes; the other layouts: model writer tie (three-section writers are linear) and
	// every key through the API
	runVariantMode(c, viaLines, "0.5.9", "big+emptykey", keys, 11, 100, 6)
	runVariantMode(c, viaLines, "allpref-0.5.10", "big+emptykey", keys, 11, 100, 6)
	for _, v := range []string{"0.5.3", "0.5.4", "0.5.7", "0.5.8"} {
		runVariantMode(c, tieAndGo, v, "big+emptykey", keys, 1, 0, 0)
	}
	for _, v := range []string{"nopref-0.5.10", "innpref-0.5.10", "allpref-0.5.11"} {
		runVariantMode(c, goSideOnly, v, "big+emptykey", keys, 1, 0, 0)
	}
}

// u32ManyNodes: the uint32-children layouts (0.5.0–0.5.3) address the first child with 16 bits: node
// counts in the upper half of that range (32769..65536) exercise ids with bit 15 set.
func u32ManyNodes(c *lp.Ctx) {
	vr, _ := ParseVariant3("0.5.3")
	m := map[string]struct{}{}
	var keys []string
	for target := 24000; target <= 60000; target += 4000 {
		for len(m) < target {
			b := make([]byte, 3+c.Rng.Intn(3))
			for i := range b {
				b[i] = byte('a' + c.Rng.Intn(16))
			}
			m[string(b)] = struct{}{}
		}
		ks := make([]string, 0, len(m))
		for k := range m {
			ks = append(ks, k)
		}
		sort.Strings(ks)
		ok, nodes, _ := Encodable3(vr, ks)
		if !ok {
			break
		}
		keys = ks
		if nodes > 40000 {
			break
		}
	}
	if _, nodes, _ := Encodable3(vr, keys); nodes <= 32768 {
		c.Violate(lp.Violation{What: fmt.Sprintf("generator: no u32-children key set with more than 32768 nodes (%d)", nodes)})
		return
	}
	c.Comment("section: uint32 children, 32769..65536 nodes")
	mode := goSideOnly
	if !c.Quick() {
		mode = tieAndGo
	}
	for _, v := range []string{"0.5.0", "0.5.3"} {
		c.Hit("shape:u32-children>32768-nodes")
		runVariantMode(c, mode, v, "u32-many-nodes", keys, 1, 0, 0)
	}
}

// fixtures: the archived files themselves.
//
//   - every file is regenerated by the Go writers (ValidateFixtures) and loaded by the real
//     Unmarshal; Get / RangeGet / Search on every key, and for allpref files exact absent-key
//     answers and a complete scan, are checked through the API directly (DirectCheck);
//   - every distinct stream (files of one data set with identical bytes, e.g. 0.5.1–0.5.3, count
//     once) gets a leg.write line: the model's writer must reproduce the archived bytes;
//   - the stream is loaded through script lines on both sides and queried: all small data sets;
//     thorough tier: also the 20 000-key sets (the 50 000-key sets stay Go-side: the model's
//     loader is quadratic in the stream size).
func fixtures(c *lp.Ctx) {
	repo := repoDir()
	rep, total, fails := ValidateFixtures(repo)
	c.Notes = append(c.Notes, fmt.Sprintf("fixtures regenerated byte for byte by the Go writers: %d/%d", rep, total))
	for _, f := range fails {
		c.Violate(lp.Violation{What: "archived file not reproduced by the reconstructed writer: " + f})
	}
	fx, err := ListFixtures(repo)
	if err != nil {
		c.Violate(lp.Violation{What: "cannot list fixtures: " + err.Error()})
		return
	}
	seen := map[string]string{}
	for _, f := range fx {
		keys := DatasetKeys(f.Dataset)
		vals := I32Vals(len(keys))
		stream, err := os.ReadFile(filepath.Join(repo, "trie", "testdata", f.File))
		if err != nil {
			c.Violate(lp.Violation{What: err.Error()})
			continue
		}
		c.Case("fixture|"+f.File, true)
		c.Hit("fixture:go-side-all-keys")
		if bad := DirectCheck(stream, keys, vals, f.Opt == "allpref", c); bad != "" {
			c.Violate(lp.Violation{What: "archived file " + f.File + ": " + bad})
		}
		id := f.Dataset + "|" + trie.Fnv64(stream)
		if first, dup := seen[id]; dup {
			c.Comment("fixture " + f.File + ": same bytes as " + first)
			c.Hit("fixture:identical-to-earlier-file")
			continue
		}
		seen[id] = f.File
		variant := f.Ver
		if f.Opt != "" {
			variant = f.Opt + "-" + f.Ver
		}
		big := len(keys) > 1000
		is10 := f.Opt != ""
		// the model's 0.5.10 writer runs the model's builder and encoder (quadratic): big data
		// sets only in the thorough tier and only up to 25 000 keys
		if !big || !is10 || (!c.Quick() && len(keys) <= 25000) {
			c.Comment("fixture " + f.File)
			line := writeLine(variant, keys, vals)
			if got, want := c.Do(line), "ok "+hashStr(stream); got != want {
				c.Violate(lp.Violation{What: "writer does not reproduce " + f.File, Script: []string{trunc(line)}, Expected: want, Got: got})
			}
			c.Hit("fixture:writer-tie-line")
		} else {
			c.Comment("fixture " + f.File + " (Go side only)")
		}
		// loading through lines: the model's loader is quadratic in the stream size
		if big && (c.Quick() || len(keys) > 25000 ||
			(f.Dataset == "20kl10" && !(f.Ver == "0.5.0" || f.Ver == "0.5.9" || f.Opt == "allpref")) ||
			(f.Dataset == "20kvl10" && (f.Ver == "0.5.7" || f.Ver == "0.5.8"))) {
			continue
		}
		c.Hit("fixture:loaded-through-lines")
		l := &loaded{c: c, o: &oracle{keys, vals}, variant: variant, stream: stream, what: "fixture " + f.File}
		every := 1
		if big {
			every = 13
		}
		l.battery(every, c.Pick(40, 200), c.Pick(4, 12))
	}
	selfTest(c)
}

// selfTest: the oracle is sensitive — a stream with one flipped value byte, and a stream checked
// against a key list with one key replaced, must be reported.
func selfTest(c *lp.Ctx) {
	keys := DatasetKeys("11vl5")
	vals := I32Vals(len(keys))
	for _, v := range []string{"0.5.3", "0.5.9", "allpref-0.5.10"} {
		stream, err := Write(v, keys, vals)
		if err != nil {
			c.Violate(lp.Violation{What: "selftest: " + err.Error()})
			continue
		}
		if bad := DirectCheck(stream, keys, vals, isAllpref(v), c); bad != "" {
			c.Violate(lp.Violation{What: "selftest: clean stream reported: " + bad})
		}
		mut := append([]byte{}, stream...)
		mut[len(mut)-2] ^= 0x40 // inside the last leaf value
		if bad := DirectCheck(mut, keys, vals, isAllpref(v), c); bad == "" {
			c.Violate(lp.Violation{What: "selftest: corrupted value not detected (" + v + ")"})
		} else {
			c.Hit("selftest:oracle-detects-corrupted-value")
		}
	}
}

// DirectCheck loads a stream with the real Unmarshal and checks Get / RangeGet / Search on every
// indexed key against the sorted slice; exact: additionally absent-key queries with exact
// expectations and a complete scan.  "" = all good.
func DirectCheck(stream []byte, keys []string, vals [][]byte, exact bool, c *lp.Ctx) (bad string) {
	defer func() {
		if r := recover(); r != nil {
			bad = fmt.Sprintf("panic: %v", r)
		}
	}()
	var enc encode.Encoder = encode.I32{}
	if len(vals) > 0 && curEnc != "i32" {
		enc = encode.Bytes{Size: len(vals[0])}
	}
	st, _ := slim.NewSlimTrie(enc, nil, nil)
	if err := st.Unmarshal(stream); err != nil {
		return "load: " + err.Error()
	}
	eq := func(v interface{}, i int) bool {
		if i < 0 || i >= len(keys) {
			return v == nil
		}
		return v != nil && bytes.Equal(enc.Encode(v), vals[i])
	}
	for i, k := range keys {
		if v, ok := st.Get(k); !ok || !eq(v, i) {
			return fmt.Sprintf("Get(%q) = %v, %v", k, v, ok)
		}
		if v, ok := st.RangeGet(k); !ok || !eq(v, i) {
			return fmt.Sprintf("RangeGet(%q) = %v, %v", k, v, ok)
		}
		l, e, r := st.Search(k)
		if !eq(l, i-1) || !eq(e, i) || !eq(r, i+1) {
			return fmt.Sprintf("Search(%q) = %v, %v, %v", k, l, e, r)
		}
	}
	if n := int(st.Stat().KeyCnt); n != len(keys) {
		return fmt.Sprintf("Stat().KeyCnt = %d, want %d", n, len(keys))
	}
	if !exact {
		return ""
	}
	for _, q := range gen.Queries(c.Rng, sampleKeys(c, keys, 2000), 20000) {
		i := sort.SearchStrings(keys, q)
		found := i < len(keys) && keys[i] == q
		lt, e, gt, le := i-1, -1, i, i-1
		if found {
			e, gt, le = i, i+1, i
		}
		if v, ok := st.Get(q); ok != found || !eq(v, e) {
			return fmt.Sprintf("Get(%q) = %v, %v", q, v, ok)
		}
		if v, ok := st.RangeGet(q); ok != (le >= 0) || !eq(v, le) {
			return fmt.Sprintf("RangeGet(%q) = %v, %v", q, v, ok)
		}
		l, m, r := st.Search(q)
		if !eq(l, lt) || !eq(m, e) || !eq(r, gt) {
			return fmt.Sprintf("Search(%q) = %v, %v, %v", q, l, m, r)
		}
	}
	i := 0
	st.ScanFrom("", true, true, func(k, v []byte) bool {
		if i >= len(keys) || string(k) != keys[i] || !bytes.Equal(v, vals[i]) {
			bad = fmt.Sprintf("ScanFrom item %d = %q", i, k)
			return false
		}
		i++
		return true
	})
	if bad == "" && i != len(keys) {
		bad = fmt.Sprintf("ScanFrom yields %d items, want %d", i, len(keys))
	}
	return bad
}

func init() {
	lp.RegisterGen("C06", genC06)
	lp.RegisterGen("C20", genC20legacy)
	lp.RegisterGen("C14", genC14legacy)
	lp.RegisterGen("C18", genC18legacy)
}
