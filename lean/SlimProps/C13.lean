import SlimProofs.Monotone
import SlimProps.C13Shape
import SlimProps.C01
/-
  SlimProps.C13 — "Storing more key information only removes false positives".

  For one key list and value list and two option combinations with the same `DedupValue`, the
  second storing no more prefix information than the first
  (`(o'.inner → o.inner) ∧ (o'.leaf → o.leaf)`), both builds successful:

  * `C13_monotone`      for EVERY query `q`: if `GetID` finds `q` in the richer trie (id `id`),
                        it finds `q` in the poorer trie with the same id;
  * `C13_monotone_get`  if `Get` reports `q` found with value `x` in the richer trie, it reports
                        `q` found with the same value in the poorer trie;
  * `C13_retained_same` every mode gives the same answer for retained keys (from C01).

  (`C13Shape.lean` has the structural half `C13_same_shape`.  "Complete reports found only for
  retained keys" is the no-false-positive half of C03 and is not proved here.)

  Proof: `C13.joint` — the two runs of `buildLoop` end with the same queue (`buildLoop_sim`) and
  each satisfies the well-formedness invariant for that queue (`buildLoop_inv`) — then the
  lock-step descent `Monotone.getIDLoop_mono`.
-/

namespace C13

open BuildInv BuildShape C13Shape Subtree

theorem qok_of_binv {keys : List Bytes} {keep : List Bool} {opt : Opt}
    {vals : Option (List Bytes)} {st : BSt}
    (hinv : BInv keys keep opt st st.queue.size) :
    QOK keys keep (trieOf opt vals st) st.queue where
  size := hinv.size.symm
  node := by
    intro j hj
    have hj' : j < st.nodes.size := hj
    obtain ⟨o, nd, h1, h2, h3⟩ := hinv.node j (by rw [← hinv.size]; exact hj')
    obtain ⟨_, h4⟩ := Array.getElem?_eq_some_iff.mp h2
    refine ⟨o, h1, hinv.sub j o h1, ?_⟩
    show NodeOK keys keep opt st.queue st.leafKeyIdx j o st.nodes[j]
    rw [h4]; exact h3

theorem shape_at {st st' : BSt} (hs : StSim st st') (j : Nat) (nd : Node)
    (h : st.nodes[j]? = some nd) : ∃ nd', st'.nodes[j]? = some nd' ∧ shapeOf nd' = shapeOf nd := by
  have h1 : (st.nodes.map shapeOf)[j]? = some (shapeOf nd) := by
    rw [Array.getElem?_map, h]; rfl
  rw [← hs.nodes, Array.getElem?_map] at h1
  cases hn' : st'.nodes[j]? with
  | none => rw [hn'] at h1; cases h1
  | some nd' => rw [hn'] at h1; exact ⟨nd', rfl, Option.some.inj h1⟩

/-- two successful builds with equal `dedup`, the second storing no more: a common queue -/
theorem joint (keys : List Bytes) (vals : Option (List Bytes)) (o o' : Opt) (t t' : Trie1)
    (hd : o.dedup = o'.dedup) (hin : o'.inner = true → o.inner = true)
    (hlf : o'.leaf = true → o.leaf = true)
    (hb : build keys vals o = .ok t) (hb' : build keys vals o' = .ok t') (hne : keys ≠ []) :
    ∃ queue, Monotone.Joint keys (keepMask keys.length vals o.dedup) t t' queue ∧
      queue[0]? = some { s := 0, e := keys.length, fb := 0 } := by
  have hn : keys.length ≠ 0 := by
    intro h; exact hne (List.length_eq_zero_iff.mp h)
  obtain ⟨hasc, hv, st, hst, rfl⟩ := build_ok_elim hb hne
  obtain ⟨_, _, st', hst', rfl⟩ := build_ok_elim hb' hne
  have hs := buildLoop_sim (mkCtx_sim keys vals hd) _ _ ⟨rfl, rfl, rfl, rfl, rfl⟩ hst hst'
  have hinv := buildLoop_inv (mkCtx_ok keys vals o) hasc _ _ _ _ (binv_init o hn hv) hst
  have hinv' := buildLoop_inv (mkCtx_ok keys vals o') hasc _ _ _ _ (binv_init o' hn hv) hst'
  rw [← hd] at hinv'
  refine ⟨st.queue, ⟨qok_of_binv hinv, ?_, ?_, ?_, hin, hlf, ?_⟩, hinv.root⟩
  · have := qok_of_binv (vals := vals) hinv'
    rw [hs.queue] at this; exact this
  · intro j r h
    obtain ⟨nd', h1, h2⟩ := shape_at hs j _ h
    cases nd' with
    | leaf ith lp => simp [shapeOf] at h2
    | inner r' =>
      simp only [shapeOf, Prod.mk.injEq, Option.some.injEq, and_true] at h2
      exact ⟨r', h1, h2.1, h2.2.1, h2.2.2⟩
  · intro j ith lp h
    obtain ⟨nd', h1, h2⟩ := shape_at hs j _ h
    cases nd' with
    | inner r' => simp [shapeOf] at h2
    | leaf ith' lp' =>
      simp only [shapeOf, Prod.mk.injEq, Option.some.injEq, true_and] at h2
      rw [h2] at h1; exact ⟨lp', h1⟩
  · simp only [trieOf, hs.leafKeyIdx]

end C13

/-- **C13 (ids)**: for every query, an id found in the mode that stores more is found in the
    mode that stores less. -/
theorem C13_monotone (keys : List Bytes) (vals : Option (List Bytes)) (o o' : Opt) (t t' : Trie1)
    (hd : o.dedup = o'.dedup) (hin : o'.inner = true → o.inner = true)
    (hlf : o'.leaf = true → o.leaf = true)
    (hb : build keys vals o = .ok t) (hb' : build keys vals o' = .ok t') (q : Bytes) (id : Nat)
    (h : getID t.view q = .ok (some id)) : getID t'.view q = .ok (some id) := by
  by_cases hne : keys = []
  · subst hne
    simp only [build, List.length_nil, if_true, Except.ok.injEq] at hb
    subst hb
    simp [getID, Trie1.view, Trie1.empty, pure, Except.pure] at h
  · obtain ⟨queue, J, hroot⟩ := C13.joint keys vals o o' t t' hd hin hlf hb hb' hne
    exact Monotone.getID_mono J hroot q id h

/-- **C13 (values)**: for every query, a hit in the mode that stores more is a hit with the
    same value in the mode that stores less. -/
theorem C13_monotone_get (keys : List Bytes) (vals : Option (List Bytes)) (o o' : Opt)
    (t t' : Trie1) (hd : o.dedup = o'.dedup) (hin : o'.inner = true → o.inner = true)
    (hlf : o'.leaf = true → o.leaf = true)
    (hb : build keys vals o = .ok t) (hb' : build keys vals o' = .ok t') (q : Bytes)
    (x : Option Bytes)
    (h : get t.view q = .ok (some x)) : get t'.view q = .ok (some x) := by
  by_cases hne : keys = []
  · subst hne
    simp only [build, List.length_nil, if_true, Except.ok.injEq] at hb
    subst hb
    obtain ⟨id, hid, _⟩ := (Agree.get_hit_iff _ _ _).mp h
    simp [getID, Trie1.view, Trie1.empty, pure, Except.pure] at hid
  · obtain ⟨queue, J, hroot⟩ := C13.joint keys vals o o' t t' hd hin hlf hb hb' hne
    exact Monotone.get_mono J hroot q x h

/-- **C13 (retained keys)**: every mode (same `DedupValue`) gives the same answer — found, with
    the value supplied — for every retained key. -/
theorem C13_retained_same (keys : List Bytes) (vals : Option (List Bytes)) (o o' : Opt)
    (t t' : Trie1) (hd : o.dedup = o'.dedup)
    (hb : build keys vals o = .ok t) (hb' : build keys vals o' = .ok t')
    (i : Nat) (hi : i < keys.length)
    (hk : keptAt (keepMask keys.length vals o.dedup) i = true) :
    get t.view (keys.getD i []) = .ok (some (expectedValue vals t i)) ∧
    get t'.view (keys.getD i []) = .ok (some (expectedValue vals t i)) := by
  have h1 := (C01_get_retained keys vals o t hb i hi hk).2
  have h2 := (C01_get_retained keys vals o' t' hb' i hi (by rw [← hd]; exact hk)).2
  refine ⟨h1, ?_⟩
  have hidx := (C13_same_shape keys vals o o' t t' hd hb hb').2.1
  rw [h2]
  simp only [expectedValue, hidx]

/-! ### non-vacuity

  The hypotheses are satisfiable (both builds succeed: `C08_accept`), and the implication is
  not trivially an equivalence: on the concrete input below the query `bx` is a false positive
  of the default mode that the complete mode rejects, while the retained key `a` is found by
  both (kernel evaluation of the model). -/
namespace C13.Ex

def keys : List Bytes := [[0x61], [0x61, 0x62], [0x62, 0xe3]]
def vals : List Bytes := [[1], [1], [2]]
def rich : Opt := { inner := true, leaf := true }
def poor : Opt := {}

example : ∃ t t', build keys (some vals) rich = .ok t ∧ build keys (some vals) poor = .ok t' ∧
    rich.dedup = poor.dedup ∧ (poor.inner = true → rich.inner = true) ∧
    (poor.leaf = true → rich.leaf = true) := by
  have h : ∀ o : Opt, ∃ t, build keys (some vals) o = .ok t :=
    fun o => C08_accept _ _ o (by simp [keys]) (by decide) (by intro vs h; cases h; rfl)
      (Or.inr (by intro k hk; simp [keys] at hk; rcases hk with rfl | rfl | rfl <;> decide))
  obtain ⟨t, ht⟩ := h rich
  obtain ⟨t', ht'⟩ := h poor
  exact ⟨t, t', ht, ht', rfl, by decide, by decide⟩

/-- does `GetID` find `q` in the trie built with `o`? -/
def found (o : Opt) (q : Bytes) : Bool :=
  match build keys (some vals) o with
  | .error _ => false
  | .ok t => match getID t.view q with
    | .ok (some _) => true
    | _ => false

-- the retained key `a` (value 1) is found in both modes; key 1 (`ab`) is dropped by dedup
example : found rich [0x61] = true ∧ found poor [0x61] = true := by decide +kernel
-- `bx`: found by the poorer mode only — storing more removed a false positive
example : found rich [0x62, 0x78] = false ∧ found poor [0x62, 0x78] = true := by decide +kernel

end C13.Ex

#print axioms C13_monotone
#print axioms C13_monotone_get
#print axioms C13_retained_same
